(* Congr.v — position congruence: everything the engine computes about a position (attack
   maps, pseudo-legal and legal move lists, check / mate annotations, game ending, the static
   score, the alpha-beta value, the minimax oracle, the root search) depends only on the
   OBSERVABLE position — piece placement, side to move, current castling rights, current
   en-passant target — and not on the rest of the board state (depth and older entries of the
   stacks, the move counter, the position key, the repetition map), provided the clocks are
   far from their limits and the top repetition count is not the draw count.

   Method: a relational reading [rres R r1 r2] of two outcomes (same KIND: Ok/Ok related by R,
   Err/Err with the same error, Panic/Panic), a [bind] rule for it, and one simulation lemma
   per board primitive.  The apply_move simulation is generic in the relation and instantiated
   twice: with "equal piece sets, equal turn, equal n-entry PREFIXES of the en-passant and
   castling-rights stacks" ([rel n]; [same_pos] is [rel 1]; apply_move takes [rel (S n)] to
   [rel (S (S n))], undo_move takes it back), and with "equal up to the turn field".

   The development is hypothesis-free: it does NOT use undo_apply (whose unconditional form is
   false for en-passant moves with a wrong victim, see UndoProofs.v), nor WF, nor any invariant
   of the position: two boards with equal piece sets evolve in lock step whatever the moves
   are, so the make/unmake brackets of the generator and of the search are followed
   relationally instead of being collapsed to the identity.  What is NOT claimed here is that
   the board handed back equals the board passed in (that is GenFrame.v / SearchFrame.v);
   only that the two boards handed back are related again and carry the caller's counters.

   Main results (Section Main):  apply_move_rel / apply_move_congr / apply_move_kind,
   undo_move_rel, gen_moves_congr, remove_invalid_congr, gen_annotated_congr,
   game_ending_congr, score_congr, ab_congr / ab_kind / ab_value_congr, mm_congr,
   root_values_congr, search_congr;  ab_abt (the maximizing flag is the side to move at every
   node);  obs_same_pos, same_pos_same_key, ab_key_det (the [key_det] premise of Interleave.v
   on a collision-free set of boards).  Proofs only. *)
From Coq Require Import Lia ZArith.
From ChessV Require Import Search Abs.
From ChessV Require Import BoardLemmas WfReflect ZobristProofs CountFrame.
From ChessV Require Rules.

#[local] Arguments N.add : simpl never.
#[local] Arguments N.sub : simpl never.
#[local] Arguments N.mul : simpl never.
#[local] Arguments N.eqb : simpl never.
#[local] Arguments N.ltb : simpl never.
#[local] Arguments N.leb : simpl never.

(* ------------------------------------------------------------------ *)
(** * outcomes related by kind *)

Definition rres {A B} (R : A -> B -> Prop) (r1 : res A) (r2 : res B) : Prop :=
  match r1, r2 with
  | Ok a, Ok b => R a b
  | Err e, Err e' => e = e'
  | Panic, Panic => True
  | _, _ => False
  end.

Lemma rres_bind {A B A' B'} (R : A -> B -> Prop) (S : A' -> B' -> Prop)
      (r1 : res A) (r2 : res B) (k1 : A -> res A') (k2 : B -> res B') :
  rres R r1 r2 ->
  (forall a b, r1 = Ok a -> r2 = Ok b -> R a b -> rres S (k1 a) (k2 b)) ->
  rres S (bind r1 k1) (bind r2 k2).
Proof.
  destruct r1 as [a|e|], r2 as [b|e'|]; cbn [rres bind]; intros HR HK; try contradiction.
  - apply HK; [reflexivity|reflexivity|exact HR].
  - exact HR.
  - exact I.
Qed.

Lemma rres_unwrap {A B} (R : A -> B -> Prop) r1 r2 :
  rres R r1 r2 -> rres R (unwrap r1) (unwrap r2).
Proof. destruct r1, r2; cbn [rres unwrap]; intro HR; try contradiction; try exact I; exact HR. Qed.

Lemma rres_mono {A B} (R R' : A -> B -> Prop) r1 r2 :
  (forall a b, R a b -> R' a b) -> rres R r1 r2 -> rres R' r1 r2.
Proof. intro HM. destruct r1, r2; cbn [rres]; intro HR; try contradiction; auto. Qed.

Lemma rres_ok_l {A B} (R : A -> B -> Prop) r1 r2 a :
  rres R r1 r2 -> r1 = Ok a -> exists b, r2 = Ok b /\ R a b.
Proof.
  intros HR ->. destruct r2 as [b|e|]; cbn [rres] in HR; try contradiction.
  exists b. split; [reflexivity|exact HR].
Qed.

Lemma rres_ok_r {A B} (R : A -> B -> Prop) r1 r2 b :
  rres R r1 r2 -> r2 = Ok b -> exists a, r1 = Ok a /\ R a b.
Proof.
  intros HR ->. destruct r1 as [a|e|]; cbn [rres] in HR; try contradiction.
  exists a. split; [reflexivity|exact HR].
Qed.

(* the outcome KIND agrees *)
Definition kind {A} (r : res A) : option (option berr) :=
  match r with Ok _ => Some None | Err e => Some (Some e) | Panic => None end.

Lemma rres_kind {A B} (R : A -> B -> Prop) r1 r2 : rres R r1 r2 -> kind r1 = kind r2.
Proof. destruct r1, r2; cbn [rres kind]; intro HR; try contradiction; congruence. Qed.

Lemma unwrap_ok_eq {A} (r : res A) a : unwrap r = Ok a -> r = Ok a.
Proof. destruct r; cbn [unwrap]; intro HU; try discriminate; exact HU. Qed.

(* ------------------------------------------------------------------ *)
(** * the observable position *)

Definition same_sets (b1 b2 : board) : Prop := white b1 = white b2 /\ black b1 = black b2.

Definition same_pos (b1 b2 : board) : Prop :=
  white b1 = white b2 /\ black b1 = black b2 /\ turn b1 = turn b2 /\
  hd_error (ep_stack b1) = hd_error (ep_stack b2) /\ hd_error (cr_stack b1) = hd_error (cr_stack b2).

Lemma same_pos_refl b : same_pos b b.
Proof. repeat split. Qed.
Lemma same_pos_sym b1 b2 : same_pos b1 b2 -> same_pos b2 b1.
Proof. intros (Hw & Hb & Ht & He & Hc). repeat split; symmetry; assumption. Qed.
Lemma same_pos_trans b1 b2 b3 : same_pos b1 b2 -> same_pos b2 b3 -> same_pos b1 b3.
Proof.
  intros (Hw & Hb & Ht & He & Hc) (Hw' & Hb' & Ht' & He' & Hc'). repeat split; congruence.
Qed.
Lemma same_pos_sets b1 b2 : same_pos b1 b2 -> same_sets b1 b2.
Proof. intros (Hw & Hb & _). split; assumption. Qed.

Lemma same_pos_toggle b1 b2 : same_pos b1 b2 -> same_pos (toggle_turn b1) (toggle_turn b2).
Proof.
  intros (Hw & Hb & Ht & He & Hc). unfold same_pos, toggle_turn. bsimpl.
  rewrite Ht. repeat split; assumption.
Qed.

(* ---- pure readers ---- *)

Lemma pieces_congr b1 b2 c : same_sets b1 b2 -> pieces b1 c = pieces b2 c.
Proof. intros [Hw Hb]. destruct c; cbn [pieces]; assumption. Qed.

Lemma occupied_congr b1 b2 : same_sets b1 b2 -> occupied b1 = occupied b2.
Proof. intros [Hw Hb]. unfold occupied. rewrite Hw, Hb. reflexivity. Qed.

Lemma bget_congr b1 b2 : same_sets b1 b2 -> bget b1 = bget b2.
Proof. intros [Hw Hb]. apply bget_same_sets; assumption. Qed.

Lemma is_endgame_congr b1 b2 : same_sets b1 b2 -> is_endgame b1 = is_endgame b2.
Proof. intros [Hw Hb]. unfold is_endgame. rewrite Hw, Hb. reflexivity. Qed.

Lemma player_material_congr b1 b2 c : same_sets b1 b2 -> player_material b1 c = player_material b2 c.
Proof.
  intro HS. unfold player_material.
  rewrite (is_endgame_congr _ _ HS), (pieces_congr _ _ c HS). reflexivity.
Qed.

Lemma material_score_congr b1 b2 : same_sets b1 b2 -> material_score b1 = material_score b2.
Proof. intro HS. unfold material_score. rewrite !(player_material_congr _ _ _ HS). reflexivity. Qed.

Lemma peek_ep_congr b1 b2 : hd_error (ep_stack b1) = hd_error (ep_stack b2) -> peek_ep b1 = peek_ep b2.
Proof.
  unfold peek_ep. destruct (ep_stack b1) as [|x l], (ep_stack b2) as [|y l']; cbn [hd_error]; intro HE;
    try discriminate; [reflexivity|]. inversion HE. reflexivity.
Qed.

Lemma peek_rights_congr b1 b2 :
  hd_error (cr_stack b1) = hd_error (cr_stack b2) -> peek_rights b1 = peek_rights b2.
Proof.
  unfold peek_rights. destruct (cr_stack b1) as [|x l], (cr_stack b2) as [|y l']; cbn [hd_error]; intro HE;
    try discriminate; [reflexivity|]. inversion HE. reflexivity.
Qed.

Section Readers.
Variables rook_t bishop_t : N -> N -> N.

Lemma table_targets_congr tbl b1 b2 c p :
  same_sets b1 b2 -> table_targets tbl b1 c p = table_targets tbl b2 c p.
Proof. intro HS. unfold table_targets. rewrite (pieces_congr _ _ c HS). reflexivity. Qed.

Lemma sliding_targets_congr b1 b2 c :
  same_sets b1 b2 -> sliding_targets rook_t bishop_t b1 c = sliding_targets rook_t bishop_t b2 c.
Proof.
  intro HS. unfold sliding_targets. rewrite (pieces_congr _ _ c HS), (occupied_congr _ _ HS). reflexivity.
Qed.

Lemma pawn_attack_targets_congr b1 b2 c :
  same_sets b1 b2 -> pawn_attack_targets b1 c = pawn_attack_targets b2 c.
Proof. intro HS. unfold pawn_attack_targets. rewrite (pieces_congr _ _ c HS). reflexivity. Qed.

Lemma pawn_move_targets_congr b1 b2 c :
  same_sets b1 b2 -> pawn_move_targets b1 c = pawn_move_targets b2 c.
Proof.
  intro HS. unfold pawn_move_targets. rewrite (pieces_congr _ _ c HS), (occupied_congr _ _ HS). reflexivity.
Qed.

(** the attack map reads only the two piece sets: not the turn, not a stack *)
Lemma attack_targets_congr b1 b2 c :
  same_sets b1 b2 -> attack_targets rook_t bishop_t b1 c = attack_targets rook_t bishop_t b2 c.
Proof.
  intro HS. unfold attack_targets.
  rewrite (pawn_attack_targets_congr _ _ c HS), (sliding_targets_congr _ _ c HS),
          !(table_targets_congr _ _ _ c _ HS). reflexivity.
Qed.

Lemma in_check_congr b1 b2 c :
  same_sets b1 b2 -> in_check rook_t bishop_t b1 c = in_check rook_t bishop_t b2 c.
Proof.
  intro HS. unfold in_check. rewrite (pieces_congr _ _ c HS), (attack_targets_congr _ _ _ HS). reflexivity.
Qed.

Lemma expand_congr b1 b2 c pts : same_sets b1 b2 -> expand b1 c pts = expand b2 c pts.
Proof. intro HS. unfold expand. rewrite (pieces_congr _ _ (opp_c c) HS). reflexivity. Qed.

Lemma ep_moves_congr b1 b2 c :
  same_sets b1 b2 -> hd_error (ep_stack b1) = hd_error (ep_stack b2) -> ep_moves b1 c = ep_moves b2 c.
Proof.
  intros HS HE. unfold ep_moves. rewrite (peek_ep_congr _ _ HE), (pieces_congr _ _ c HS). reflexivity.
Qed.

Lemma pawn_moves_congr b1 b2 c :
  same_sets b1 b2 -> hd_error (ep_stack b1) = hd_error (ep_stack b2) -> pawn_moves b1 c = pawn_moves b2 c.
Proof.
  intros HS HE. unfold pawn_moves.
  rewrite (pawn_move_targets_congr _ _ c HS), (pawn_attack_targets_congr _ _ c HS),
          (pieces_congr _ _ (opp_c c) HS), (ep_moves_congr _ _ c HS HE).
  rewrite (expand_congr b1 b2 c _ HS). reflexivity.
Qed.

Lemma castle_moves_congr b1 b2 c :
  same_sets b1 b2 -> hd_error (cr_stack b1) = hd_error (cr_stack b2) ->
  castle_moves rook_t bishop_t b1 c = castle_moves rook_t bishop_t b2 c.
Proof.
  intros HS HC. unfold castle_moves.
  rewrite (attack_targets_congr _ _ (opp_c c) HS), (pieces_congr _ _ c HS), (peek_rights_congr _ _ HC),
          (occupied_congr _ _ HS), (bget_congr _ _ HS). reflexivity.
Qed.

(** the pseudo-legal list (same moves, same order) does not read the turn field either *)
Lemma pseudo_moves_congr b1 b2 c :
  same_sets b1 b2 -> hd_error (ep_stack b1) = hd_error (ep_stack b2) ->
  hd_error (cr_stack b1) = hd_error (cr_stack b2) ->
  pseudo_moves rook_t bishop_t b1 c = pseudo_moves rook_t bishop_t b2 c.
Proof.
  intros HS HE HC. unfold pseudo_moves.
  rewrite !(table_targets_congr _ _ _ c _ HS), (sliding_targets_congr _ _ c HS),
          (pawn_moves_congr _ _ c HS HE), (castle_moves_congr _ _ c HS HC).
  rewrite !(expand_congr b1 b2 c _ HS). reflexivity.
Qed.

Lemma pseudo_moves_same_pos b1 b2 c :
  same_pos b1 b2 -> pseudo_moves rook_t bishop_t b1 c = pseudo_moves rook_t bishop_t b2 c.
Proof.
  intros HP. pose proof (same_pos_sets _ _ HP) as HS. destruct HP as (_ & _ & _ & HE & HC).
  apply pseudo_moves_congr; assumption.
Qed.

End Readers.

(* ------------------------------------------------------------------ *)
(** * simulation of apply_move, generic in the relation *)

Definition brem_rel (R : board -> board -> Prop) (o1 o2 : option ((piece * color) * board)) : Prop :=
  match o1, o2 with
  | Some (pc1, a1), Some (pc2, a2) => pc1 = pc2 /\ R a1 a2
  | None, None => True
  | _, _ => False
  end.

Section Sim.
Variable T : ztable.
(* R0: before the clock operation; R1: between the half-move and the full-move operation;
   R2: after it; R3: after the en-passant push; R4: after the castling-rights push *)
Variables R0 R1 R2 R3 R4 : board -> board -> Prop.

Hypothesis bget_R0 : forall b1 b2, R0 b1 b2 -> bget b1 = bget b2.
Hypothesis brem_R0 : forall b1 b2 i, R0 b1 b2 -> brem_rel R0 (bremove T b1 i) (bremove T b2 i).
Hypothesis brem_R4 : forall b1 b2 i, R4 b1 b2 -> brem_rel R4 (bremove T b1 i) (bremove T b2 i).
Hypothesis put_R0 : forall b1 b2 i p c, R0 b1 b2 -> rres R0 (put T b1 i p c) (put T b2 i p c).
Hypothesis put_R4 : forall b1 b2 i p c, R4 b1 b2 -> rres R4 (put T b1 i p c) (put T b2 i p c).
Hypothesis reset_R : forall b1 b2, R0 b1 b2 -> R1 (reset_halfmove b1) (reset_halfmove b2).
Hypothesis inch_R : forall b1 b2, R0 b1 b2 -> rres R1 (inc_halfmove b1) (inc_halfmove b2).
Hypothesis incf_R : forall b1 b2, R1 b1 b2 -> rres R2 (inc_fullmove b1) (inc_fullmove b2).
Hypothesis push_R : forall b1 b2 t, R2 b1 b2 -> rres R3 (push_ep T b1 t) (push_ep T b2 t).
Hypothesis lose_R : forall b1 b2 l, R3 b1 b2 -> rres R4 (lose_rights T b1 l) (lose_rights T b2 l).
Hypothesis pres_R : forall b1 b2, R3 b1 b2 -> rres R4 (preserve_rights b1) (preserve_rights b2).

Lemma std_tail_sim b1 b2 (captured : option (piece * color)) p c ept lost t :
  R0 b1 b2 ->
  rres R4
    (let* b3 := (match captured with
                 | Some _ => Ok (reset_halfmove b1)
                 | None => if piece_eqb p Pawn then Ok (reset_halfmove b1) else inc_halfmove b1
                 end) in
     let* b4 := inc_fullmove b3 in
     let* b5 := push_ep T b4 ept in
     let* b6 := lose_rights T b5 lost in
     unwrap (put T b6 t p c))
    (let* b3 := (match captured with
                 | Some _ => Ok (reset_halfmove b2)
                 | None => if piece_eqb p Pawn then Ok (reset_halfmove b2) else inc_halfmove b2
                 end) in
     let* b4 := inc_fullmove b3 in
     let* b5 := push_ep T b4 ept in
     let* b6 := lose_rights T b5 lost in
     unwrap (put T b6 t p c)).
Proof.
  intro HR. apply (rres_bind R1).
  { destruct captured as [pc|]; [apply reset_R, HR|].
    destruct (piece_eqb p Pawn); [apply reset_R, HR | apply inch_R, HR]. }
  intros x3 y3 _ _ HR3. apply (rres_bind R2); [apply incf_R, HR3|].
  intros x4 y4 _ _ HR4. apply (rres_bind R3); [apply push_R, HR4|].
  intros x5 y5 _ _ HR5. apply (rres_bind R4); [apply lose_R, HR5|].
  intros x6 y6 _ _ HR6. apply rres_unwrap, put_R4, HR6.
Qed.

Lemma apply_std_sim b1 b2 f t cap :
  R0 b1 b2 -> rres R4 (apply_std T b1 f t cap) (apply_std T b2 f t cap).
Proof.
  intro HR. unfold apply_std.
  pose proof (brem_R0 b1 b2 f HR) as HX.
  destruct (bremove T b1 f) as [[[p c] a1]|]; destruct (bremove T b2 f) as [[[p' c'] a2]|];
    cbn [brem_rel] in HX; try contradiction; [|reflexivity].
  destruct HX as [HE HRa]. inversion HE; subst p' c'. clear HE.
  pose proof (brem_R0 a1 a2 t HRa) as HY.
  destruct (bremove T a1 t) as [[pc1 c1]|]; destruct (bremove T a2 t) as [[pc2 c2]|];
    cbn [brem_rel] in HY; try contradiction.
  - destruct HY as [-> HRc].
    destruct (negb (opt_pc_eqb (Some pc2) (option_map (fun cp => (cp, opp_c c)) cap))); [reflexivity|].
    cbv zeta. apply (std_tail_sim c1 c2 (Some pc2)), HRc.
  - destruct (negb (opt_pc_eqb None (option_map (fun cp => (cp, opp_c c)) cap))); [reflexivity|].
    cbv zeta. apply (std_tail_sim a1 a2 None), HRa.
Qed.

Lemma apply_promo_sim b1 b2 f t cap pp :
  R0 b1 b2 -> rres R4 (apply_promo T b1 f t cap pp) (apply_promo T b2 f t cap pp).
Proof.
  intro HR. unfold apply_promo. apply (rres_bind R4); [apply apply_std_sim, HR|].
  intros x y _ _ HRx. pose proof (brem_R4 x y t HRx) as HX.
  destruct (bremove T x t) as [[[p c] a1]|]; destruct (bremove T y t) as [[[p' c'] a2]|];
    cbn [brem_rel] in HX; try contradiction; [|reflexivity].
  destruct HX as [HE HRa]. inversion HE; subst p' c'. clear HE.
  destruct p; try reflexivity. apply put_R4, HRa.
Qed.

Lemma apply_ep_sim b1 b2 f t :
  R0 b1 b2 -> rres R4 (apply_ep T b1 f t) (apply_ep T b2 f t).
Proof.
  intro HR. unfold apply_ep.
  pose proof (brem_R0 b1 b2 f HR) as HX.
  destruct (bremove T b1 f) as [[[p c] a1]|]; destruct (bremove T b2 f) as [[[p' c'] a2]|];
    cbn [brem_rel] in HX; try contradiction; [|reflexivity].
  destruct HX as [HE HRa]. inversion HE; subst p' c'. clear HE.
  destruct (negb (piece_eqb p Pawn)); [reflexivity|].
  pose proof (brem_R0 a1 a2 (ep_captured_square c t) HRa) as HY.
  destruct (bremove T a1 (ep_captured_square c t)) as [[pc1 c1]|];
    destruct (bremove T a2 (ep_captured_square c t)) as [[pc2 c2]|];
    cbn [brem_rel] in HY; try contradiction; [|reflexivity].
  destruct HY as [_ HRc]. cbv zeta.
  apply (rres_bind R2); [apply incf_R, reset_R, HRc|].
  intros x4 y4 _ _ HR4. apply (rres_bind R3); [apply push_R, HR4|].
  intros x5 y5 _ _ HR5. apply (rres_bind R4); [apply pres_R, HR5|].
  intros x6 y6 _ _ HR6. apply put_R4, HR6.
Qed.

Lemma remove_unwrap_sim b1 b2 i :
  R0 b1 b2 -> rres R0 (remove_unwrap T b1 i) (remove_unwrap T b2 i).
Proof.
  intro HR. unfold remove_unwrap. pose proof (brem_R0 b1 b2 i HR) as HX.
  destruct (bremove T b1 i) as [[pc1 a1]|]; destruct (bremove T b2 i) as [[pc2 a2]|];
    cbn [brem_rel] in HX; try contradiction; [|exact I].
  exact (proj2 HX).
Qed.

Lemma apply_castle_sim b1 b2 f t :
  R0 b1 b2 -> rres R4 (apply_castle T b1 f t) (apply_castle T b2 f t).
Proof.
  intro HR. unfold apply_castle.
  destruct (castle_shape f t) as [[[c rf] rt]|e|]; cbn [bind]; [|reflexivity|exact I].
  rewrite (bget_R0 b1 b2 HR).
  destruct (negb (opt_pc_eqb (bget b2 f) (Some (King, c)))); [reflexivity|].
  destruct (negb (is_none (bget b2 t))); [reflexivity|].
  destruct (negb (opt_pc_eqb (bget b2 rf) (Some (Rook, c)))); [reflexivity|].
  destruct (negb (is_none (bget b2 rt))); [reflexivity|].
  apply (rres_bind R0); [apply remove_unwrap_sim, HR|].
  intros x1 y1 _ _ HRa. apply (rres_bind R0); [apply rres_unwrap, put_R0, HRa|].
  intros x2 y2 _ _ HRb. apply (rres_bind R0); [apply remove_unwrap_sim, HRb|].
  intros x3 y3 _ _ HRc. apply (rres_bind R0); [apply rres_unwrap, put_R0, HRc|].
  intros x4 y4 _ _ HRd. cbv zeta. apply (rres_bind R1); [apply inch_R, HRd|].
  intros x5 y5 _ _ HRe. apply (rres_bind R2); [apply incf_R, HRe|].
  intros x6 y6 _ _ HRf. apply (rres_bind R3); [apply push_R, HRf|].
  intros x7 y7 _ _ HRg. apply lose_R, HRg.
Qed.

Lemma apply_move_sim m b1 b2 :
  R0 b1 b2 -> rres R4 (apply_move T m b1) (apply_move T m b2).
Proof.
  intro HR. destruct m as [f t cap|f t cap pp|f t|f t]; cbn [apply_move].
  - apply apply_std_sim, HR.
  - apply apply_promo_sim, HR.
  - apply apply_ep_sim, HR.
  - apply apply_castle_sim, HR.
Qed.

End Sim.

(* ------------------------------------------------------------------ *)
(** * instance 1: equal piece sets, equal turn, equal stack PREFIXES, with clock side conditions *)

(* [ne] / [nc]: how many entries (from the top) of the en-passant / castling-rights stacks
   agree.  [same_pos] is [rel2 1 1].  An apply pushes one entry on each, an undo pops one. *)
Definition rel2 (ne nc : nat) (b1 b2 : board) : Prop :=
  white b1 = white b2 /\ black b1 = black b2 /\ turn b1 = turn b2 /\
  firstn ne (ep_stack b1) = firstn ne (ep_stack b2) /\
  firstn nc (cr_stack b1) = firstn nc (cr_stack b2).

Definition rel (n : nat) : board -> board -> Prop := rel2 n n.

Lemma firstn1_hd_error {A} (l l' : list A) : firstn 1 l = firstn 1 l' <-> hd_error l = hd_error l'.
Proof.
  destruct l as [|x r], l' as [|y r']; cbn [firstn hd_error]; split; intro HE;
    try discriminate; try reflexivity; inversion HE; reflexivity.
Qed.

Lemma same_pos_rel b1 b2 : same_pos b1 b2 <-> rel 1 b1 b2.
Proof. unfold same_pos, rel, rel2. rewrite !firstn1_hd_error. reflexivity. Qed.

Lemma firstn_S_le {A} n (l l' : list A) : firstn (S n) l = firstn (S n) l' -> firstn n l = firstn n l'.
Proof.
  revert l l'. induction n as [|n IH]; intros l l' HE; [reflexivity|].
  destruct l as [|x r], l' as [|y r']; cbn [firstn] in HE |- *; try discriminate; [reflexivity|].
  injection HE as Hx Hr. rewrite Hx. f_equal. apply IH. exact Hr.
Qed.

Lemma rel2_weaken_e ne nc b1 b2 : rel2 (S ne) nc b1 b2 -> rel2 ne nc b1 b2.
Proof. intros (Hw & Hb & Ht & He & Hc). repeat split; try assumption. apply firstn_S_le, He. Qed.
Lemma rel2_weaken_c ne nc b1 b2 : rel2 ne (S nc) b1 b2 -> rel2 ne nc b1 b2.
Proof. intros (Hw & Hb & Ht & He & Hc). repeat split; try assumption. apply firstn_S_le, Hc. Qed.

Lemma rel_weaken n b1 b2 : rel (S n) b1 b2 -> rel n b1 b2.
Proof. intro HR. apply rel2_weaken_e, rel2_weaken_c, HR. Qed.

Lemma rel_same_pos n b1 b2 : rel (S n) b1 b2 -> same_pos b1 b2.
Proof.
  induction n as [|n IH]; intro HR; [apply same_pos_rel, HR|]. apply IH, rel_weaken, HR.
Qed.

Lemma rel_refl n b : rel n b b.
Proof. repeat split. Qed.

Lemma rel_toggle n b1 b2 : rel n b1 b2 -> rel n (toggle_turn b1) (toggle_turn b2).
Proof.
  intros (Hw & Hb & Ht & He & Hc). unfold rel, rel2, toggle_turn. bsimpl.
  rewrite Ht. repeat split; assumption.
Qed.

Lemma rel_sets n b1 b2 : rel n b1 b2 -> same_sets b1 b2.
Proof. intros (Hw & Hb & _). split; assumption. Qed.

(* [Q] constrains the two fields the clock operations read *)
Definition RS (ne nc : nat) (Q : list N -> N -> Prop) (b1 b2 : board) : Prop :=
  rel2 ne nc b1 b2 /\ Q (hm_stack b1) (fullmove b1) /\ Q (hm_stack b2) (fullmove b2).

Definition Q0 (h : list N) (f : N) : Prop := h <> [] /\ hd 0 h < U8_MAX /\ f < FULLMOVE_MAX.
Definition Q1 (h : list N) (f : N) : Prop := f < FULLMOVE_MAX.
Definition QT (h : list N) (f : N) : Prop := True.
(* for undo *)
Definition Qa (h : list N) (f : N) : Prop := h <> [] /\ f <> 0.
Definition Qb1 (h : list N) (f : N) : Prop := f <> 0.
Definition Qb2 (h : list N) (f : N) : Prop := h <> [].

(* the clock/counter operations of apply_move do not Panic on b *)
Definition ctr_fine (b : board) : Prop :=
  hm_stack b <> [] /\ hd 0 (hm_stack b) < U8_MAX /\ fullmove b < FULLMOVE_MAX.

Lemma RS_rel2 ne nc Q b1 b2 : RS ne nc Q b1 b2 -> rel2 ne nc b1 b2.
Proof. intros [HP _]. exact HP. Qed.

Lemma RS0_intro n b1 b2 : rel n b1 b2 -> ctr_fine b1 -> ctr_fine b2 -> RS n n Q0 b1 b2.
Proof. intros HP HF1 HF2. split; [exact HP|]. split; assumption. Qed.

Lemma RSa_intro n b1 b2 :
  rel n b1 b2 -> hm_stack b1 <> [] -> fullmove b1 <> 0 -> hm_stack b2 <> [] -> fullmove b2 <> 0 ->
  RS n n Qa b1 b2.
Proof. intros HP Hh1 Hf1 Hh2 Hf2. split; [exact HP|]. split; split; assumption. Qed.

Section Obs.
Variable T : ztable.

Lemma RS_bget ne nc Q b1 b2 : RS ne nc Q b1 b2 -> bget b1 = bget b2.
Proof. intros [(Hw & Hb & _) _]. apply bget_congr. split; assumption. Qed.

Lemma RS_brem ne nc Q b1 b2 i : RS ne nc Q b1 b2 -> brem_rel (RS ne nc Q) (bremove T b1 i) (bremove T b2 i).
Proof.
  intros (HP & HQ1 & HQ2). destruct HP as (Hw & Hb & Ht & He & Hc).
  assert (HS : same_sets b1 b2) by (split; assumption).
  pose proof (bget_congr _ _ HS) as HG.
  destruct (bget b2 i) as [[p c]|] eqn:EG.
  - assert (EG1 : bget b1 i = Some (p, c)) by (rewrite HG; exact EG).
    rewrite (bremove_some T b1 i p c EG1), (bremove_some T b2 i p c EG). cbn [brem_rel].
    split; [reflexivity|]. rewrite (pieces_congr _ _ c HS).
    unfold RS, rel2. destruct c; bsimpl; repeat split; assumption.
  - assert (EG1 : bget b1 i = None) by (rewrite HG; exact EG).
    rewrite (proj2 (bremove_none_iff T b1 i) EG1), (proj2 (bremove_none_iff T b2 i) EG). exact I.
Qed.

Lemma RS_put ne nc Q b1 b2 i p c : RS ne nc Q b1 b2 -> rres (RS ne nc Q) (put T b1 i p c) (put T b2 i p c).
Proof.
  intros (HP & HQ1 & HQ2). destruct HP as (Hw & Hb & Ht & He & Hc).
  assert (HS : same_sets b1 b2) by (split; assumption).
  pose proof (occupied_congr _ _ HS) as HO.
  destruct (mem i (occupied b2)) eqn:EM.
  - rewrite (put_occupied T b1 i p c), (put_occupied T b2 i p c); [reflexivity|exact EM|rewrite HO; exact EM].
  - rewrite (put_free T b1 i p c), (put_free T b2 i p c); [|exact EM|rewrite HO; exact EM].
    cbn [rres]. rewrite (pieces_congr _ _ c HS).
    unfold RS, rel2. destruct c; bsimpl; repeat split; assumption.
Qed.

Lemma RS_reset ne nc b1 b2 : RS ne nc Q0 b1 b2 -> RS ne nc Q1 (reset_halfmove b1) (reset_halfmove b2).
Proof.
  intros (HP & HQ1 & HQ2). destruct HP as (Hw & Hb & Ht & He & Hc).
  unfold RS, rel2, Q0, Q1 in *. bsimpl. repeat split; tauto.
Qed.

Lemma RS_inch ne nc b1 b2 : RS ne nc Q0 b1 b2 -> rres (RS ne nc Q1) (inc_halfmove b1) (inc_halfmove b2).
Proof.
  intros (HP & HQ1 & HQ2). destruct HP as (Hw & Hb & Ht & He & Hc).
  rewrite !inc_halfmove_eq. unfold Q0 in HQ1, HQ2.
  destruct (hm_stack b1) as [|o1 r1] eqn:EH1; [tauto|].
  destruct (hm_stack b2) as [|o2 r2] eqn:EH2; [tauto|].
  cbn [hd] in HQ1, HQ2.
  destruct (N.eqb_spec o1 U8_MAX) as [Eo1|No1]; [lia|].
  destruct (N.eqb_spec o2 U8_MAX) as [Eo2|No2]; [lia|].
  cbn [rres]. unfold RS, rel2, Q1. bsimpl. repeat split; tauto.
Qed.

Lemma RS_incf ne nc b1 b2 : RS ne nc Q1 b1 b2 -> rres (RS ne nc QT) (inc_fullmove b1) (inc_fullmove b2).
Proof.
  intros (HP & HQ1 & HQ2). destruct HP as (Hw & Hb & Ht & He & Hc).
  unfold inc_fullmove. unfold Q1 in HQ1, HQ2.
  destruct (N.eqb_spec (fullmove b1) FULLMOVE_MAX) as [Ef1|Nf1]; [lia|].
  destruct (N.eqb_spec (fullmove b2) FULLMOVE_MAX) as [Ef2|Nf2]; [lia|].
  cbn [rres]. unfold RS, rel2, QT. bsimpl. repeat split; assumption.
Qed.

Lemma RS_push ne nc Q b1 b2 t :
  RS (S ne) nc Q b1 b2 -> rres (RS (S (S ne)) nc Q) (push_ep T b1 t) (push_ep T b2 t).
Proof.
  intros (HP & HQ1 & HQ2). destruct HP as (Hw & Hb & Ht & He & Hc).
  rewrite !push_ep_eq.
  destruct (ep_stack b1) as [|p1 r1] eqn:EE1; destruct (ep_stack b2) as [|p2 r2] eqn:EE2;
    cbn [firstn] in He; try discriminate; [exact I|].
  cbn [rres]. unfold RS, rel2. bsimpl. cbn [firstn]. repeat split; try assumption.
  f_equal. exact He.
Qed.

Lemma RS_lose ne nc Q b1 b2 l :
  RS ne (S nc) Q b1 b2 -> rres (RS ne (S (S nc)) Q) (lose_rights T b1 l) (lose_rights T b2 l).
Proof.
  intros (HP & HQ1 & HQ2). destruct HP as (Hw & Hb & Ht & He & Hc).
  rewrite !lose_rights_eq.
  destruct (cr_stack b1) as [|p1 r1] eqn:EC1; destruct (cr_stack b2) as [|p2 r2] eqn:EC2;
    cbn [firstn] in Hc; try discriminate; [exact I|].
  injection Hc as Hp Hr. subst p2.
  cbv zeta. cbn [rres]. unfold RS, rel2. bsimpl. cbn [firstn]. repeat split; try assumption.
  rewrite Hr. reflexivity.
Qed.

Lemma RS_pres ne nc Q b1 b2 :
  RS ne (S nc) Q b1 b2 -> rres (RS ne (S (S nc)) Q) (preserve_rights b1) (preserve_rights b2).
Proof.
  intros (HP & HQ1 & HQ2). destruct HP as (Hw & Hb & Ht & He & Hc).
  rewrite !preserve_rights_eq.
  destruct (cr_stack b1) as [|p1 r1] eqn:EC1; destruct (cr_stack b2) as [|p2 r2] eqn:EC2;
    cbn [firstn] in Hc; try discriminate; [exact I|].
  injection Hc as Hp Hr. subst p2.
  cbn [rres]. unfold RS, rel2. bsimpl. rewrite ?EC1, ?EC2. cbn [firstn]. repeat split; try assumption.
  rewrite Hr. reflexivity.
Qed.

(** apply_move respects the relation (one more stack entry agrees afterwards), and the
    outcome kind agrees *)
Theorem apply_move_rel n m b1 b2 :
  RS (S n) (S n) Q0 b1 b2 -> rres (RS (S (S n)) (S (S n)) QT) (apply_move T m b1) (apply_move T m b2).
Proof.
  apply (apply_move_sim T (RS (S n) (S n) Q0) (RS (S n) (S n) Q1) (RS (S n) (S n) QT)
                          (RS (S (S n)) (S n) QT) (RS (S (S n)) (S (S n)) QT)).
  - apply RS_bget.
  - intros x y i. apply RS_brem.
  - intros x y i. apply RS_brem.
  - intros x y i p c. apply RS_put.
  - intros x y i p c. apply RS_put.
  - apply RS_reset.
  - apply RS_inch.
  - apply RS_incf.
  - intros x y t. apply RS_push.
  - intros x y l. apply RS_lose.
  - intros x y. apply RS_pres.
Qed.

Corollary apply_move_congr m b1 b2 b1' :
  same_pos b1 b2 -> ctr_fine b1 -> ctr_fine b2 ->
  apply_move T m b1 = Ok b1' -> exists b2', apply_move T m b2 = Ok b2' /\ same_pos b1' b2'.
Proof.
  intros HP HF1 HF2 HA. apply same_pos_rel in HP.
  destruct (rres_ok_l _ _ _ _ (apply_move_rel 0 m b1 b2 (RS0_intro _ _ _ HP HF1 HF2)) HA) as [b2' [HA2 HR]].
  exists b2'. split; [exact HA2|]. exact (rel_same_pos 1 _ _ (RS_rel2 _ _ _ _ _ HR)).
Qed.

Corollary apply_move_kind m b1 b2 :
  same_pos b1 b2 -> ctr_fine b1 -> ctr_fine b2 ->
  kind (apply_move T m b1) = kind (apply_move T m b2).
Proof.
  intros HP HF1 HF2. apply same_pos_rel in HP.
  exact (rres_kind _ _ _ (apply_move_rel 0 m b1 b2 (RS0_intro _ _ _ HP HF1 HF2))).
Qed.

(* ---- undo ---- *)

Lemma RS_poph_a ne nc b1 b2 : RS ne nc Qa b1 b2 -> rres (RS ne nc Qb1) (pop_halfmove b1) (pop_halfmove b2).
Proof.
  intros (HP & HQ1 & HQ2). destruct HP as (Hw & Hb & Ht & He & Hc).
  unfold pop_halfmove. unfold Qa in HQ1, HQ2.
  destruct (hm_stack b1) as [|o1 r1] eqn:EH1; [tauto|].
  destruct (hm_stack b2) as [|o2 r2] eqn:EH2; [tauto|].
  cbn [rres]. unfold RS, rel2, Qb1. bsimpl. repeat split; tauto.
Qed.

Lemma RS_poph_b2 ne nc b1 b2 : RS ne nc Qb2 b1 b2 -> rres (RS ne nc QT) (pop_halfmove b1) (pop_halfmove b2).
Proof.
  intros (HP & HQ1 & HQ2). destruct HP as (Hw & Hb & Ht & He & Hc).
  unfold pop_halfmove. unfold Qb2 in HQ1, HQ2.
  destruct (hm_stack b1) as [|o1 r1] eqn:EH1; [tauto|].
  destruct (hm_stack b2) as [|o2 r2] eqn:EH2; [tauto|].
  cbn [rres]. unfold RS, rel2, QT. bsimpl. repeat split; tauto.
Qed.

Lemma RS_decf_a ne nc b1 b2 : RS ne nc Qa b1 b2 -> rres (RS ne nc Qb2) (dec_fullmove b1) (dec_fullmove b2).
Proof.
  intros (HP & HQ1 & HQ2). destruct HP as (Hw & Hb & Ht & He & Hc).
  unfold dec_fullmove. unfold Qa in HQ1, HQ2.
  destruct (N.eqb_spec (fullmove b1) 0) as [Ef1|Nf1]; [tauto|].
  destruct (N.eqb_spec (fullmove b2) 0) as [Ef2|Nf2]; [tauto|].
  cbn [rres]. unfold RS, rel2, Qb2. bsimpl. repeat split; tauto.
Qed.

Lemma RS_decf_b1 ne nc b1 b2 : RS ne nc Qb1 b1 b2 -> rres (RS ne nc QT) (dec_fullmove b1) (dec_fullmove b2).
Proof.
  intros (HP & HQ1 & HQ2). destruct HP as (Hw & Hb & Ht & He & Hc).
  unfold dec_fullmove. unfold Qb1 in HQ1, HQ2.
  destruct (N.eqb_spec (fullmove b1) 0) as [Ef1|Nf1]; [tauto|].
  destruct (N.eqb_spec (fullmove b2) 0) as [Ef2|Nf2]; [tauto|].
  cbn [rres]. unfold RS, rel2, QT. bsimpl. repeat split; tauto.
Qed.

Lemma RS_pope ne nc Q b1 b2 :
  RS (S (S ne)) nc Q b1 b2 ->
  rres (fun x y => fst x = fst y /\ RS (S ne) nc Q (snd x) (snd y)) (pop_ep T b1) (pop_ep T b2).
Proof.
  intros (HP & HQ1 & HQ2). destruct HP as (Hw & Hb & Ht & He & Hc).
  rewrite !pop_ep_eq.
  destruct (ep_stack b1) as [|t1 [|p1 r1]] eqn:EE1; destruct (ep_stack b2) as [|t2 [|p2 r2]] eqn:EE2;
    cbn [firstn] in He; try discriminate; try exact I.
  injection He as Ht12 Hp12 Hr. subst t2 p2.
  cbn [rres fst snd]. split; [reflexivity|]. unfold RS, rel2. bsimpl. cbn [firstn].
  repeat split; try assumption. rewrite Hr. reflexivity.
Qed.

Lemma RS_popr ne nc Q b1 b2 :
  RS ne (S (S nc)) Q b1 b2 -> rres (RS ne (S nc) Q) (pop_rights T b1) (pop_rights T b2).
Proof.
  intros (HP & HQ1 & HQ2). destruct HP as (Hw & Hb & Ht & He & Hc).
  rewrite !pop_rights_eq.
  destruct (cr_stack b1) as [|t1 [|p1 r1]] eqn:EC1; destruct (cr_stack b2) as [|t2 [|p2 r2]] eqn:EC2;
    cbn [firstn] in Hc; try discriminate; try exact I.
  injection Hc as Ht12 Hp12 Hr. subst t2 p2.
  cbn [rres]. unfold RS, rel2. bsimpl. cbn [firstn].
  repeat split; try assumption. rewrite Hr. reflexivity.
Qed.

Section UndoRS.
Variable n : nat.
Notation U0 := (RS (S (S n)) (S (S n)) Qa).
Notation U4 := (RS (S n) (S n) QT).

Lemma undo_tail_RS b1 b2 i p c :
  U0 b1 b2 ->
  rres U4
    (let* b3 := pop_halfmove b1 in
     let* b4 := dec_fullmove b3 in
     let* (_, b5) := pop_ep T b4 in
     let* b6 := pop_rights T b5 in
     unwrap (put T b6 i p c))
    (let* b3 := pop_halfmove b2 in
     let* b4 := dec_fullmove b3 in
     let* (_, b5) := pop_ep T b4 in
     let* b6 := pop_rights T b5 in
     unwrap (put T b6 i p c)).
Proof.
  intro HR. apply (rres_bind (RS (S (S n)) (S (S n)) Qb1)); [apply RS_poph_a, HR|].
  intros x3 y3 _ _ HR3. apply (rres_bind (RS (S (S n)) (S (S n)) QT)); [apply RS_decf_b1, HR3|].
  intros x4 y4 _ _ HR4.
  apply (rres_bind (fun x y => fst x = fst y /\ RS (S n) (S (S n)) QT (snd x) (snd y))); [apply RS_pope, HR4|].
  intros [t5 x5] [t5' y5] _ _ [_ HR5]. cbn [snd] in HR5.
  apply (rres_bind U4); [apply RS_popr, HR5|].
  intros x6 y6 _ _ HR6. apply rres_unwrap, RS_put, HR6.
Qed.

Lemma undo_std_RS b1 b2 f t cap :
  U0 b1 b2 -> rres U4 (undo_std T b1 f t cap) (undo_std T b2 f t cap).
Proof.
  intro HR. unfold undo_std. pose proof (RS_brem _ _ _ b1 b2 t HR) as HX.
  destruct (bremove T b1 t) as [[[p c] a1]|]; destruct (bremove T b2 t) as [[[p' c'] a2]|];
    cbn [brem_rel] in HX; try contradiction; [|reflexivity].
  destruct HX as [HE HRa]. inversion HE; subst p' c'. clear HE.
  apply (rres_bind U0).
  { destruct cap as [cp|]; [apply RS_put, HRa | exact HRa]. }
  intros x2 y2 _ _ HR2. apply undo_tail_RS, HR2.
Qed.

Lemma undo_promo_RS b1 b2 f t cap pp :
  U0 b1 b2 -> rres U4 (undo_promo T b1 f t cap pp) (undo_promo T b2 f t cap pp).
Proof.
  intro HR. unfold undo_promo. pose proof (RS_brem _ _ _ b1 b2 t HR) as HX.
  destruct (bremove T b1 t) as [[[p c] a1]|]; destruct (bremove T b2 t) as [[[p' c'] a2]|];
    cbn [brem_rel] in HX; try contradiction; [|reflexivity].
  destruct HX as [HE HRa]. inversion HE; subst p' c'. clear HE.
  destruct (piece_eqb p pp); [|reflexivity].
  apply (rres_bind U0); [apply RS_put, HRa|].
  intros x2 y2 _ _ HR2. apply undo_std_RS, HR2.
Qed.

Lemma undo_ep_RS b1 b2 f t :
  U0 b1 b2 -> rres U4 (undo_ep T b1 f t) (undo_ep T b2 f t).
Proof.
  intro HR. unfold undo_ep. pose proof (RS_brem _ _ _ b1 b2 t HR) as HX.
  destruct (bremove T b1 t) as [[[p c] a1]|]; destruct (bremove T b2 t) as [[[p' c'] a2]|];
    cbn [brem_rel] in HX; try contradiction; [|reflexivity].
  destruct HX as [HE HRa]. inversion HE; subst p' c'. clear HE.
  destruct (negb (piece_eqb p Pawn)); [reflexivity|].
  apply (rres_bind U0); [apply rres_unwrap, RS_put, HRa|].
  intros x2 y2 _ _ HR2. apply (rres_bind (RS (S (S n)) (S (S n)) Qb1)); [apply RS_poph_a, HR2|].
  intros x3 y3 _ _ HR3. apply (rres_bind (RS (S (S n)) (S (S n)) QT)); [apply RS_decf_b1, HR3|].
  intros x4 y4 _ _ HR4.
  apply (rres_bind (fun x y => fst x = fst y /\ RS (S n) (S (S n)) QT (snd x) (snd y))); [apply RS_pope, HR4|].
  intros [t5 x5] [t5' y5] _ _ [_ HR5]. cbn [snd] in HR5.
  apply (rres_bind U4); [apply RS_popr, HR5|].
  intros x6 y6 _ _ HR6. apply RS_put, HR6.
Qed.

Lemma undo_castle_RS b1 b2 f t :
  U0 b1 b2 -> rres U4 (undo_castle T b1 f t) (undo_castle T b2 f t).
Proof.
  intro HR. unfold undo_castle.
  destruct (castle_shape f t) as [[[c rf] rt]|e|]; cbn [bind]; [|reflexivity|exact I].
  rewrite (RS_bget _ _ _ b1 b2 HR).
  destruct (negb (opt_pc_eqb (bget b2 t) (Some (King, c)))); [reflexivity|].
  destruct (negb (is_none (bget b2 f))); [reflexivity|].
  destruct (negb (opt_pc_eqb (bget b2 rt) (Some (Rook, c)))); [reflexivity|].
  destruct (negb (is_none (bget b2 rf))); [reflexivity|].
  assert (RU : forall x y i, U0 x y -> rres U0 (remove_unwrap T x i) (remove_unwrap T y i)).
  { intros x y i. apply (remove_unwrap_sim T U0). intros x' y' i'. apply RS_brem. }
  apply (rres_bind U0); [apply RU, HR|].
  intros x1 y1 _ _ HRa. apply (rres_bind U0); [apply rres_unwrap, RS_put, HRa|].
  intros x2 y2 _ _ HRb. apply (rres_bind U0); [apply RU, HRb|].
  intros x3 y3 _ _ HRc. apply (rres_bind U0); [apply rres_unwrap, RS_put, HRc|].
  intros x4 y4 _ _ HRd. apply (rres_bind (RS (S (S n)) (S (S n)) Qb2)); [apply RS_decf_a, HRd|].
  intros x5 y5 _ _ HRe. apply (rres_bind (RS (S (S n)) (S (S n)) QT)); [apply RS_poph_b2, HRe|].
  intros x6 y6 _ _ HRf.
  apply (rres_bind (fun x y => fst x = fst y /\ RS (S n) (S (S n)) QT (snd x) (snd y))); [apply RS_pope, HRf|].
  intros [t7 x7] [t7' y7] _ _ [_ HRg]. cbn [snd] in HRg.
  apply RS_popr, HRg.
Qed.

(** undo_move respects the relation (the popped entries are forgotten), same outcome kind *)
Theorem undo_move_rel m b1 b2 :
  U0 b1 b2 -> rres U4 (undo_move T m b1) (undo_move T m b2).
Proof.
  intro HR. destruct m as [f t cap|f t cap pp|f t|f t]; cbn [undo_move].
  - apply undo_std_RS, HR.
  - apply undo_promo_RS, HR.
  - apply undo_ep_RS, HR.
  - apply undo_castle_RS, HR.
Qed.

End UndoRS.

End Obs.
(* ------------------------------------------------------------------ *)
(** * instance 2: neither apply_move nor undo_move reads or writes the turn field *)

Definition Rt (c : color) (b1 b2 : board) : Prop := b2 = set_turn b1 c.

Section Turn.
Variable T : ztable.
Variable k : color.

Lemma Rt_bget b1 b2 : Rt k b1 b2 -> bget b1 = bget b2.
Proof. intros ->. reflexivity. Qed.

Lemma Rt_brem b1 b2 i : Rt k b1 b2 -> brem_rel (Rt k) (bremove T b1 i) (bremove T b2 i).
Proof.
  intros ->. destruct (bget b1 i) as [[p c]|] eqn:EG.
  - assert (EG2 : bget (set_turn b1 k) i = Some (p, c)) by exact EG.
    rewrite (bremove_some T b1 i p c EG), (bremove_some T _ i p c EG2). cbn [brem_rel].
    split; [reflexivity|]. unfold Rt. destruct c; reflexivity.
  - assert (EG2 : bget (set_turn b1 k) i = None) by exact EG.
    rewrite (proj2 (bremove_none_iff T b1 i) EG), (proj2 (bremove_none_iff T _ i) EG2). exact I.
Qed.

Lemma Rt_put b1 b2 i p c : Rt k b1 b2 -> rres (Rt k) (put T b1 i p c) (put T b2 i p c).
Proof.
  intros ->. destruct (mem i (occupied b1)) eqn:EM.
  - rewrite (put_occupied T b1 i p c EM), (put_occupied T (set_turn b1 k) i p c EM). reflexivity.
  - rewrite (put_free T b1 i p c EM), (put_free T (set_turn b1 k) i p c EM). cbn [rres].
    unfold Rt. destruct c; reflexivity.
Qed.

Lemma Rt_reset b1 b2 : Rt k b1 b2 -> Rt k (reset_halfmove b1) (reset_halfmove b2).
Proof. intros ->. reflexivity. Qed.

Lemma Rt_inch b1 b2 : Rt k b1 b2 -> rres (Rt k) (inc_halfmove b1) (inc_halfmove b2).
Proof.
  intros ->. rewrite !inc_halfmove_eq. cbn [hm_stack set_turn].
  destruct (hm_stack b1) as [|o r]; [exact I|]. destruct (o =? U8_MAX); [exact I|]. reflexivity.
Qed.

Lemma Rt_incf b1 b2 : Rt k b1 b2 -> rres (Rt k) (inc_fullmove b1) (inc_fullmove b2).
Proof.
  intros ->. unfold inc_fullmove. cbn [fullmove set_turn].
  destruct (fullmove b1 =? FULLMOVE_MAX); [exact I|]. reflexivity.
Qed.

Lemma Rt_decf b1 b2 : Rt k b1 b2 -> rres (Rt k) (dec_fullmove b1) (dec_fullmove b2).
Proof.
  intros ->. unfold dec_fullmove. cbn [fullmove set_turn].
  destruct (fullmove b1 =? 0); [exact I|]. reflexivity.
Qed.

Lemma Rt_poph b1 b2 : Rt k b1 b2 -> rres (Rt k) (pop_halfmove b1) (pop_halfmove b2).
Proof.
  intros ->. unfold pop_halfmove. cbn [hm_stack set_turn].
  destruct (hm_stack b1) as [|o r]; [exact I|]. reflexivity.
Qed.

Lemma Rt_push b1 b2 t : Rt k b1 b2 -> rres (Rt k) (push_ep T b1 t) (push_ep T b2 t).
Proof.
  intros ->. rewrite !push_ep_eq. cbn [ep_stack set_turn].
  destruct (ep_stack b1) as [|o r]; [exact I|]. reflexivity.
Qed.

Lemma Rt_pope b1 b2 :
  Rt k b1 b2 -> rres (fun x y => fst x = fst y /\ Rt k (snd x) (snd y)) (pop_ep T b1) (pop_ep T b2).
Proof.
  intros ->. rewrite !pop_ep_eq. cbn [ep_stack set_turn].
  destruct (ep_stack b1) as [|o [|o' r]]; [exact I|exact I|]. split; reflexivity.
Qed.

Lemma Rt_lose b1 b2 l : Rt k b1 b2 -> rres (Rt k) (lose_rights T b1 l) (lose_rights T b2 l).
Proof.
  intros ->. rewrite !lose_rights_eq. cbn [cr_stack set_turn].
  destruct (cr_stack b1) as [|o r]; [exact I|]. reflexivity.
Qed.

Lemma Rt_popr b1 b2 : Rt k b1 b2 -> rres (Rt k) (pop_rights T b1) (pop_rights T b2).
Proof.
  intros ->. rewrite !pop_rights_eq. cbn [cr_stack set_turn].
  destruct (cr_stack b1) as [|o [|o' r]]; [exact I|exact I|]. reflexivity.
Qed.

Lemma Rt_pres b1 b2 : Rt k b1 b2 -> rres (Rt k) (preserve_rights b1) (preserve_rights b2).
Proof.
  intros ->. rewrite !preserve_rights_eq. cbn [cr_stack set_turn].
  destruct (cr_stack b1) as [|o r]; [exact I|]. reflexivity.
Qed.

Theorem apply_move_Rt m b1 b2 :
  Rt k b1 b2 -> rres (Rt k) (apply_move T m b1) (apply_move T m b2).
Proof.
  apply (apply_move_sim T (Rt k) (Rt k) (Rt k) (Rt k) (Rt k)).
  - apply Rt_bget.
  - apply Rt_brem.
  - apply Rt_brem.
  - apply Rt_put.
  - apply Rt_put.
  - apply Rt_reset.
  - apply Rt_inch.
  - apply Rt_incf.
  - apply Rt_push.
  - apply Rt_lose.
  - apply Rt_pres.
Qed.

(* ---- undo ---- *)

Lemma undo_tail_Rt b1 b2 i p c :
  Rt k b1 b2 ->
  rres (Rt k)
    (let* b3 := pop_halfmove b1 in
     let* b4 := dec_fullmove b3 in
     let* (_, b5) := pop_ep T b4 in
     let* b6 := pop_rights T b5 in
     unwrap (put T b6 i p c))
    (let* b3 := pop_halfmove b2 in
     let* b4 := dec_fullmove b3 in
     let* (_, b5) := pop_ep T b4 in
     let* b6 := pop_rights T b5 in
     unwrap (put T b6 i p c)).
Proof.
  intro HR. apply (rres_bind (Rt k)); [apply Rt_poph, HR|].
  intros x3 y3 _ _ HR3. apply (rres_bind (Rt k)); [apply Rt_decf, HR3|].
  intros x4 y4 _ _ HR4.
  apply (rres_bind (fun x y => fst x = fst y /\ Rt k (snd x) (snd y))); [apply Rt_pope, HR4|].
  intros [t5 x5] [t5' y5] _ _ [_ HR5]. cbn [snd] in HR5.
  apply (rres_bind (Rt k)); [apply Rt_popr, HR5|].
  intros x6 y6 _ _ HR6. apply rres_unwrap, Rt_put, HR6.
Qed.

Lemma undo_std_Rt b1 b2 f t cap :
  Rt k b1 b2 -> rres (Rt k) (undo_std T b1 f t cap) (undo_std T b2 f t cap).
Proof.
  intro HR. unfold undo_std. pose proof (Rt_brem b1 b2 t HR) as HX.
  destruct (bremove T b1 t) as [[[p c] a1]|]; destruct (bremove T b2 t) as [[[p' c'] a2]|];
    cbn [brem_rel] in HX; try contradiction; [|reflexivity].
  destruct HX as [HE HRa]. inversion HE; subst p' c'. clear HE.
  apply (rres_bind (Rt k)).
  { destruct cap as [cp|]; [apply Rt_put, HRa | exact HRa]. }
  intros x2 y2 _ _ HR2. apply undo_tail_Rt, HR2.
Qed.

Lemma undo_promo_Rt b1 b2 f t cap pp :
  Rt k b1 b2 -> rres (Rt k) (undo_promo T b1 f t cap pp) (undo_promo T b2 f t cap pp).
Proof.
  intro HR. unfold undo_promo. pose proof (Rt_brem b1 b2 t HR) as HX.
  destruct (bremove T b1 t) as [[[p c] a1]|]; destruct (bremove T b2 t) as [[[p' c'] a2]|];
    cbn [brem_rel] in HX; try contradiction; [|reflexivity].
  destruct HX as [HE HRa]. inversion HE; subst p' c'. clear HE.
  destruct (piece_eqb p pp); [|reflexivity].
  apply (rres_bind (Rt k)); [apply Rt_put, HRa|].
  intros x2 y2 _ _ HR2. apply undo_std_Rt, HR2.
Qed.

Lemma undo_ep_Rt b1 b2 f t :
  Rt k b1 b2 -> rres (Rt k) (undo_ep T b1 f t) (undo_ep T b2 f t).
Proof.
  intro HR. unfold undo_ep. pose proof (Rt_brem b1 b2 t HR) as HX.
  destruct (bremove T b1 t) as [[[p c] a1]|]; destruct (bremove T b2 t) as [[[p' c'] a2]|];
    cbn [brem_rel] in HX; try contradiction; [|reflexivity].
  destruct HX as [HE HRa]. inversion HE; subst p' c'. clear HE.
  destruct (negb (piece_eqb p Pawn)); [reflexivity|].
  apply (rres_bind (Rt k)); [apply rres_unwrap, Rt_put, HRa|].
  intros x2 y2 _ _ HR2. apply (rres_bind (Rt k)); [apply Rt_poph, HR2|].
  intros x3 y3 _ _ HR3. apply (rres_bind (Rt k)); [apply Rt_decf, HR3|].
  intros x4 y4 _ _ HR4.
  apply (rres_bind (fun x y => fst x = fst y /\ Rt k (snd x) (snd y))); [apply Rt_pope, HR4|].
  intros [t5 x5] [t5' y5] _ _ [_ HR5]. cbn [snd] in HR5.
  apply (rres_bind (Rt k)); [apply Rt_popr, HR5|].
  intros x6 y6 _ _ HR6. apply Rt_put, HR6.
Qed.

Lemma remove_unwrap_Rt b1 b2 i :
  Rt k b1 b2 -> rres (Rt k) (remove_unwrap T b1 i) (remove_unwrap T b2 i).
Proof.
  apply (remove_unwrap_sim T (Rt k)). apply Rt_brem.
Qed.

Lemma undo_castle_Rt b1 b2 f t :
  Rt k b1 b2 -> rres (Rt k) (undo_castle T b1 f t) (undo_castle T b2 f t).
Proof.
  intro HR. unfold undo_castle.
  destruct (castle_shape f t) as [[[c rf] rt]|e|]; cbn [bind]; [|reflexivity|exact I].
  rewrite (Rt_bget b1 b2 HR).
  destruct (negb (opt_pc_eqb (bget b2 t) (Some (King, c)))); [reflexivity|].
  destruct (negb (is_none (bget b2 f))); [reflexivity|].
  destruct (negb (opt_pc_eqb (bget b2 rt) (Some (Rook, c)))); [reflexivity|].
  destruct (negb (is_none (bget b2 rf))); [reflexivity|].
  apply (rres_bind (Rt k)); [apply remove_unwrap_Rt, HR|].
  intros x1 y1 _ _ HRa. apply (rres_bind (Rt k)); [apply rres_unwrap, Rt_put, HRa|].
  intros x2 y2 _ _ HRb. apply (rres_bind (Rt k)); [apply remove_unwrap_Rt, HRb|].
  intros x3 y3 _ _ HRc. apply (rres_bind (Rt k)); [apply rres_unwrap, Rt_put, HRc|].
  intros x4 y4 _ _ HRd. apply (rres_bind (Rt k)); [apply Rt_decf, HRd|].
  intros x5 y5 _ _ HRe. apply (rres_bind (Rt k)); [apply Rt_poph, HRe|].
  intros x6 y6 _ _ HRf.
  apply (rres_bind (fun x y => fst x = fst y /\ Rt k (snd x) (snd y))); [apply Rt_pope, HRf|].
  intros [t7 x7] [t7' y7] _ _ [_ HRg]. cbn [snd] in HRg.
  apply Rt_popr, HRg.
Qed.

Theorem undo_move_Rt m b1 b2 :
  Rt k b1 b2 -> rres (Rt k) (undo_move T m b1) (undo_move T m b2).
Proof.
  intro HR. destruct m as [f t cap|f t cap pp|f t|f t]; cbn [undo_move].
  - apply undo_std_Rt, HR.
  - apply undo_promo_Rt, HR.
  - apply undo_ep_Rt, HR.
  - apply undo_castle_Rt, HR.
Qed.

End Turn.

Lemma set_turn_same b : set_turn b (turn b) = b.
Proof. destruct b; reflexivity. Qed.

Lemma toggle_turn_set b : toggle_turn b = set_turn b (opp_c (turn b)).
Proof. reflexivity. Qed.

Section TurnFacts.
Variable T : ztable.

(** apply_move and undo_move leave the turn field alone ... *)
Lemma apply_move_turn m b b' : apply_move T m b = Ok b' -> turn b' = turn b.
Proof.
  intro HA. pose proof (apply_move_Rt T (turn b) m b (set_turn b (turn b)) eq_refl) as HR.
  rewrite set_turn_same, HA in HR. cbn [rres] in HR. unfold Rt in HR. rewrite HR. reflexivity.
Qed.

Lemma undo_move_turn m b b' : undo_move T m b = Ok b' -> turn b' = turn b.
Proof.
  intro HA. pose proof (undo_move_Rt T (turn b) m b (set_turn b (turn b)) eq_refl) as HR.
  rewrite set_turn_same, HA in HR. cbn [rres] in HR. unfold Rt in HR. rewrite HR. reflexivity.
Qed.

(** ... and commute with setting it *)
Lemma apply_move_set_turn m b b' c :
  apply_move T m b = Ok b' -> apply_move T m (set_turn b c) = Ok (set_turn b' c).
Proof.
  intro HA. pose proof (apply_move_Rt T c m b (set_turn b c) eq_refl) as HR.
  destruct (rres_ok_l _ _ _ _ HR HA) as [y [HY HRy]]. rewrite HY. unfold Rt in HRy. rewrite HRy. reflexivity.
Qed.

Lemma undo_move_set_turn m b b' c :
  undo_move T m b = Ok b' -> undo_move T m (set_turn b c) = Ok (set_turn b' c).
Proof.
  intro HA. pose proof (undo_move_Rt T c m b (set_turn b c) eq_refl) as HR.
  destruct (rres_ok_l _ _ _ _ HR HA) as [y [HY HRy]]. rewrite HY. unfold Rt in HRy. rewrite HRy. reflexivity.
Qed.

(* the engine's make/unmake bracket: apply; toggle; ...; undo; toggle *)
Lemma undo_toggled m b b' :
  apply_move T m b = Ok b' -> undo_move T m b' = Ok b ->
  undo_move T m (toggle_turn b') = Ok (toggle_turn b) /\ toggle_turn (toggle_turn b) = b.
Proof.
  intros HA HU. split; [|apply toggle_turn_involutive].
  rewrite !toggle_turn_set, (apply_move_turn _ _ _ HA). apply undo_move_set_turn, HU.
Qed.

End TurnFacts.

(* ------------------------------------------------------------------ *)
(** * clock bounds that survive n further applications *)

Definition fine (n : N) (b : board) : Prop :=
  hm_stack b <> [] /\ hd 0 (hm_stack b) + n < U8_MAX /\ fullmove b + n < FULLMOVE_MAX.

(* the task's [clock_le]: a numeric bound on the half-move clock *)
Definition clock_le (n : N) (b : board) : Prop := hm_stack b <> [] /\ hd 0 (hm_stack b) <= n.

Lemma fine_ctr n b : fine n b -> ctr_fine b.
Proof. unfold fine, ctr_fine. intros (Hn & Hh & Hf). repeat split; [exact Hn|lia|lia]. Qed.

Lemma fine_le n n' b : n' <= n -> fine n b -> fine n' b.
Proof. unfold fine. intros Hle (Hn & Hh & Hf). repeat split; [exact Hn|lia|lia]. Qed.

Lemma clock_le_fine n k b : clock_le n b -> n + k < U8_MAX -> fullmove b + k < FULLMOVE_MAX -> fine k b.
Proof. unfold clock_le, fine. intros (Hn & Hh) Hb Hf. repeat split; [exact Hn|lia|lia]. Qed.

Lemma fine_of_ctr n b b' : ctr b' = ctr b -> fine n b -> fine n b'.
Proof.
  intros HC. destruct (ctr_inj _ _ HC) as (Hh & Hf & _ & _). unfold fine. rewrite Hh, Hf. tauto.
Qed.

(* no draw by repetition or by the half-move rule is in force at the node *)
Definition quiet (b : board) : Prop :=
  seen_stack b <> [] /\ hd 0 (seen_stack b) <> 3 /\ hd 0 (hm_stack b) < 100.

Lemma quiet_of_ctr b b' : ctr b' = ctr b -> quiet b -> quiet b'.
Proof.
  intros HC. destruct (ctr_inj _ _ HC) as (Hh & _ & _ & Hs). unfold quiet. rewrite Hh, Hs. tauto.
Qed.

(* far enough from every limit for a search of depth d *)
Definition far (d : nat) (b : board) : Prop :=
  hm_stack b <> [] /\ hd 0 (hm_stack b) + N.of_nat d < 100 /\
  seen_stack b <> [] /\ hd 0 (seen_stack b) <> 3 /\
  fullmove b + N.of_nat d < FULLMOVE_MAX.

Lemma far_of_ctr d b b' : ctr b' = ctr b -> far d b -> far d b'.
Proof.
  intros HC. destruct (ctr_inj _ _ HC) as (Hh & Hf & _ & Hs). unfold far. rewrite Hh, Hf, Hs. tauto.
Qed.

Lemma far_fine0 d b : far d b -> fine 0 b.
Proof. unfold far, fine, U8_MAX. intros (Hn & Hh & _ & _ & Hf). repeat split; [exact Hn|lia|lia]. Qed.

Lemma far_fine1 d b : far (S d) b -> fine 1 b.
Proof. unfold far, fine, U8_MAX. intros (Hn & Hh & _ & _ & Hf). repeat split; [exact Hn|lia|lia]. Qed.

Lemma far_quiet d b : far d b -> quiet b.
Proof. unfold far, quiet. intros (Hn & Hh & Hs & Hs3 & Hf). repeat split; [exact Hs|exact Hs3|lia]. Qed.

Lemma far_le d d' b : (d' <= d)%nat -> far d b -> far d' b.
Proof. unfold far. intros Hle (Hn & Hh & Hs & Hs3 & Hf). repeat split; try assumption; lia. Qed.

Lemma threshold_100 : HALFMOVE_DRAW_THRESHOLD = 100.
Proof. reflexivity. Qed.
Lemma repetition_3 : REPETITION_DRAW_COUNT = 3 /\ SCORE_REPETITION_COUNT = 3.
Proof. split; reflexivity. Qed.

Section ClockFrame.
Variable T : ztable.

Lemma apply_move_clock m b b' :
  apply_move T m b = Ok b' ->
  hm_stack b' <> [] /\ hd 0 (hm_stack b') <= hd 0 (hm_stack b) + 1 /\ fullmove b' = fullmove b + 1
  /\ seen_stack b' = seen_stack b.
Proof.
  intro HA. destruct (apply_move_ctr T m b b' HA) as (p & c & _ & HC & _).
  unfold ctr in HC. injection HC as Hh Hf Hp Hs. rewrite Hh, Hf, Hs.
  split; [discriminate|]. split; [|split; reflexivity].
  cbn [hd]. destruct (mv_resets (bget b (mv_from m)) m); lia.
Qed.

Lemma apply_move_fine m b b' n : apply_move T m b = Ok b' -> fine (n + 1) b -> fine n b'.
Proof.
  intros HA (Hn & Hh & Hf). destruct (apply_move_clock m b b' HA) as (Hn' & Hh' & Hf' & _).
  unfold fine. rewrite Hf'. repeat split; [exact Hn'|lia|lia].
Qed.

Lemma apply_move_clock_le m b b' n : apply_move T m b = Ok b' -> clock_le n b -> clock_le (n + 1) b'.
Proof.
  intros HA (Hn & Hh). destruct (apply_move_clock m b b' HA) as (Hn' & Hh' & _).
  split; [exact Hn'|lia].
Qed.

Lemma far_child d m b a : far (S d) b -> apply_move T m b = Ok a -> far d (toggle_turn a).
Proof.
  intros (Hn & Hh & Hs & Hs3 & Hf) HA.
  destruct (apply_move_clock m b a HA) as (Hn' & Hh' & Hf' & Hs').
  unfold far, toggle_turn. bsimpl. rewrite Hs', Hf'. repeat split; try assumption; lia.
Qed.

(* any board with the counters of the one produced by apply can be undone as far as the
   counters are concerned, and the undo gives the original counters back *)
Lemma undo_ready m b a a' :
  apply_move T m b = Ok a -> ctr a' = ctr a -> hm_stack a' <> [] /\ fullmove a' <> 0.
Proof.
  intros HA HC. destruct (ctr_inj _ _ HC) as (Hh & Hf & _ & _).
  destruct (apply_move_clock m b a HA) as (Hn & _ & Hf' & _). rewrite Hh, Hf, Hf'. split; [exact Hn|lia].
Qed.

Lemma apply_undo_ctr m b a a' u :
  apply_move T m b = Ok a -> ctr a' = ctr a -> undo_move T m a' = Ok u -> ctr u = ctr b.
Proof.
  intros HA HC HU. destruct (apply_move_ctr T m b a HA) as (p & c & _ & HCa & _).
  destruct (undo_move_ctr T m a' u HU) as (HCu & _).
  destruct (ctr_inj _ _ HC) as (Hh & Hf & Hp & Hs).
  rewrite HCu, Hh, Hf, Hp, Hs. unfold ctr in HCa. injection HCa as Ih If Ip Is.
  rewrite Ih, If, Ip, Is. cbn [tl]. unfold ctr.
  replace (fullmove b + 1 - 1) with (fullmove b) by lia. reflexivity.
Qed.

End ClockFrame.

(* ------------------------------------------------------------------ *)
(** * the generator, the score and the searches on related boards *)

(* related results: same value; the boards handed back are related again, and each has the
   counters (clocks, repetition data) of the board that was passed in *)
Definition out_rel {A} (n : nat) (b1 b2 : board) (x y : A * board) : Prop :=
  fst x = fst y /\ rel n (snd x) (snd y) /\ ctr (snd x) = ctr b1 /\ ctr (snd y) = ctr b2.

Lemma out_rel_trans {A} n b1 b2 u1 u2 (x y : A * board) :
  ctr u1 = ctr b1 -> ctr u2 = ctr b2 -> out_rel n u1 u2 x y -> out_rel n b1 b2 x y.
Proof.
  intros HC1 HC2 (HE & HR & HX & HY). split; [exact HE|]. split; [exact HR|]. split; congruence.
Qed.

Lemma out_rel_intro {A} n b1 b2 (a a' : A) x y :
  a = a' -> rel n x y -> ctr x = ctr b1 -> ctr y = ctr b2 -> out_rel n b1 b2 (a, x) (a', y).
Proof. intros HE HR HX HY. split; [exact HE|]. split; [exact HR|]. split; assumption. Qed.

Ltac out_done := apply out_rel_intro; first [reflexivity | assumption].

Section Main.
Variable T : ztable.
Variables rook_t bishop_t : N -> N -> N.

Notation remove_invalid := (remove_invalid T rook_t bishop_t).
Notation gen_moves := (gen_moves T rook_t bishop_t).
Notation effect_of := (effect_of T rook_t bishop_t).
Notation annotate := (annotate T rook_t bishop_t).
Notation gen_annotated := (gen_annotated T rook_t bishop_t).
Notation game_ending := (game_ending T rook_t bishop_t).
Notation score := (score T rook_t bishop_t).

Lemma apply_rel_fine n m b1 b2 :
  rel (S n) b1 b2 -> fine 0 b1 -> fine 0 b2 ->
  rres (RS (S (S n)) (S (S n)) QT) (unwrap (apply_move T m b1)) (unwrap (apply_move T m b2)).
Proof.
  intros HP HF1 HF2. apply rres_unwrap, apply_move_rel, RS0_intro;
    [exact HP | exact (fine_ctr _ _ HF1) | exact (fine_ctr _ _ HF2)].
Qed.

(* the make / unmake bracket: [x1], [x2] are what came back from whatever ran in between *)
Lemma undo_rel_after n m b1 b2 a1 a2 x1 x2 :
  apply_move T m b1 = Ok a1 -> apply_move T m b2 = Ok a2 ->
  rel (S (S n)) x1 x2 -> ctr x1 = ctr a1 -> ctr x2 = ctr a2 ->
  rres (fun u1 u2 => rel (S n) u1 u2 /\ ctr u1 = ctr b1 /\ ctr u2 = ctr b2)
       (unwrap (undo_move T m x1)) (unwrap (undo_move T m x2)).
Proof.
  intros HA1 HA2 HR HC1 HC2.
  destruct (undo_ready T m b1 a1 x1 HA1 HC1) as [Hh1 Hf1].
  destruct (undo_ready T m b2 a2 x2 HA2 HC2) as [Hh2 Hf2].
  pose proof (undo_move_rel T n m x1 x2 (RSa_intro _ _ _ HR Hh1 Hf1 Hh2 Hf2)) as HU.
  destruct (undo_move T m x1) as [u1|e1|] eqn:EU1; destruct (undo_move T m x2) as [u2|e2|] eqn:EU2;
    cbn [rres unwrap] in HU |- *; try contradiction; try exact I.
  split; [exact (RS_rel2 _ _ _ _ _ HU)|].
  split; [exact (apply_undo_ctr T m b1 a1 x1 u1 HA1 HC1 EU1) | exact (apply_undo_ctr T m b2 a2 x2 u2 HA2 HC2 EU2)].
Qed.

Lemma remove_invalid_rel n c cands : forall b1 b2,
  rel (S n) b1 b2 -> fine 0 b1 -> fine 0 b2 ->
  rres (out_rel (S n) b1 b2) (remove_invalid b1 c cands) (remove_invalid b2 c cands).
Proof.
  induction cands as [|m rest IH]; intros b1 b2 HP HF1 HF2.
  - cbn [MoveGen.remove_invalid rres]. out_done.
  - cbn [MoveGen.remove_invalid].
    apply (rres_bind (RS (S (S n)) (S (S n)) QT)); [apply apply_rel_fine; assumption|].
    intros a1 a2 HA1 HA2 HRa. apply unwrap_ok_eq in HA1. apply unwrap_ok_eq in HA2. cbv zeta.
    pose proof (RS_rel2 _ _ _ _ _ HRa) as HPa. pose proof (rel_sets _ _ _ HPa) as HSa.
    rewrite (pieces_congr _ _ c HSa), (attack_targets_congr rook_t bishop_t a1 a2 (opp_c c) HSa).
    apply (rres_bind (fun u1 u2 => rel (S n) u1 u2 /\ ctr u1 = ctr b1 /\ ctr u2 = ctr b2)).
    { apply (undo_rel_after n m b1 b2 a1 a2 a1 a2); try assumption; reflexivity. }
    intros u1 u2 _ _ (HRu & HC1 & HC2).
    apply (rres_bind (out_rel (S n) u1 u2)).
    { apply IH; [exact HRu | exact (fine_of_ctr _ _ _ HC1 HF1) | exact (fine_of_ctr _ _ _ HC2 HF2)]. }
    intros [r1 c1] [r2 c2] _ _ HO. apply (out_rel_trans _ _ _ _ _ _ _ HC1 HC2) in HO.
    destruct HO as (HE & HR & HX & HY). cbn [fst snd] in HE, HR, HX, HY. subst r2.
    cbn [rres].
    destruct (overlaps (kg (pieces a2 c)) (attack_targets rook_t bishop_t a2 (opp_c c))); out_done.
Qed.

(** C02-style congruence for the legal-move generator, relational form: same outcome kind,
    same list in the same order *)
Lemma gen_moves_rel n b1 b2 c :
  rel (S n) b1 b2 -> fine 0 b1 -> fine 0 b2 ->
  rres (out_rel (S n) b1 b2) (gen_moves b1 c) (gen_moves b2 c).
Proof.
  intros HP HF1 HF2. unfold MoveGen.gen_moves.
  rewrite (pseudo_moves_same_pos rook_t bishop_t b1 b2 c (rel_same_pos _ _ _ HP)).
  destruct (pseudo_moves rook_t bishop_t b2 c) as [cands|e|] eqn:EP; cbn [bind]; [|reflexivity|exact I].
  apply remove_invalid_rel; assumption.
Qed.

Lemma effect_of_rel n b1 b2 c m :
  rel (S n) b1 b2 -> fine 1 b1 -> fine 1 b2 ->
  rres (out_rel (S n) b1 b2) (effect_of b1 c m) (effect_of b2 c m).
Proof.
  intros HP HF1 HF2. unfold MoveGen.effect_of.
  apply (rres_bind (RS (S (S n)) (S (S n)) QT)).
  { apply apply_rel_fine; [exact HP | apply (fine_le 1); [lia|exact HF1] | apply (fine_le 1); [lia|exact HF2]]. }
  intros a1 a2 HA1 HA2 HRa. apply unwrap_ok_eq in HA1. apply unwrap_ok_eq in HA2.
  pose proof (RS_rel2 _ _ _ _ _ HRa) as HPa.
  apply (rres_bind (out_rel (S (S n)) a1 a2)).
  { apply gen_moves_rel; [exact HPa | exact (apply_move_fine T m b1 a1 0 HA1 HF1)
                         | exact (apply_move_fine T m b2 a2 0 HA2 HF2)]. }
  intros [r1 g1] [r2 g2] _ _ (HE & HRg & HX & HY). cbn [fst snd] in HE, HRg, HX, HY. subst r2.
  cbv beta iota zeta.
  rewrite (in_check_congr rook_t bishop_t g1 g2 (opp_c c) (rel_sets _ _ _ HRg)).
  apply (rres_bind (fun u1 u2 => rel (S n) u1 u2 /\ ctr u1 = ctr b1 /\ ctr u2 = ctr b2)).
  { apply (undo_rel_after n m b1 b2 a1 a2 g1 g2); assumption. }
  intros u1 u2 _ _ (HRu & HC1 & HC2). cbn [rres]. out_done.
Qed.

Lemma annotate_rel n c ms : forall b1 b2,
  rel (S n) b1 b2 -> fine 1 b1 -> fine 1 b2 ->
  rres (out_rel (S n) b1 b2) (annotate b1 c ms) (annotate b2 c ms).
Proof.
  induction ms as [|m rest IH]; intros b1 b2 HP HF1 HF2.
  - cbn [MoveGen.annotate rres]. out_done.
  - cbn [MoveGen.annotate].
    apply (rres_bind (out_rel (S n) b1 b2)); [apply effect_of_rel; assumption|].
    intros [e1 u1] [e2 u2] _ _ (HE & HRu & HC1 & HC2). cbn [fst snd] in HE, HRu, HC1, HC2. subst e2.
    cbv beta iota.
    apply (rres_bind (out_rel (S n) u1 u2)).
    { apply IH; [exact HRu | exact (fine_of_ctr _ _ _ HC1 HF1) | exact (fine_of_ctr _ _ _ HC2 HF2)]. }
    intros [r1 c1] [r2 c2] _ _ HO. apply (out_rel_trans _ _ _ _ _ _ _ HC1 HC2) in HO.
    destruct HO as (HE & HR & HX & HY). cbn [fst snd] in HE, HR, HX, HY. subst r2.
    cbn [rres]. out_done.
Qed.

Lemma gen_annotated_rel n b1 b2 c :
  rel (S n) b1 b2 -> fine 1 b1 -> fine 1 b2 ->
  rres (out_rel (S n) b1 b2) (gen_annotated b1 c) (gen_annotated b2 c).
Proof.
  intros HP HF1 HF2. unfold MoveGen.gen_annotated.
  apply (rres_bind (out_rel (S n) b1 b2)).
  { apply gen_moves_rel; try assumption; apply (fine_le 1); try assumption; lia. }
  intros [ms1 u1] [ms2 u2] _ _ (HE & HRu & HC1 & HC2). cbn [fst snd] in HE, HRu, HC1, HC2. subst ms2.
  cbv beta iota.
  apply (rres_mono (out_rel (S n) u1 u2)); [intros x y; apply out_rel_trans; assumption|].
  apply annotate_rel; [exact HRu | exact (fine_of_ctr _ _ _ HC1 HF1) | exact (fine_of_ctr _ _ _ HC2 HF2)].
Qed.

(* ---- the static score ---- *)

Lemma max_seen_quiet b : quiet b -> exists s, max_seen b = Ok s /\ (s =? 3) = false.
Proof.
  intros (Hn & Hs & _). unfold max_seen. destruct (seen_stack b) as [|s r]; [contradiction|].
  exists s. split; [reflexivity|]. apply N.eqb_neq. exact Hs.
Qed.

Lemma halfmove_quiet b : fine 0 b -> quiet b -> exists h, halfmove b = Ok h /\ (100 <=? h) = false.
Proof.
  intros (Hn & _) (_ & _ & Hh). unfold halfmove. destruct (hm_stack b) as [|h r]; [contradiction|].
  exists h. split; [reflexivity|]. apply N.leb_gt. exact Hh.
Qed.

Lemma game_ending_rel n b1 b2 c :
  rel (S n) b1 b2 -> fine 0 b1 -> fine 0 b2 -> quiet b1 -> quiet b2 ->
  rres (out_rel (S n) b1 b2) (game_ending b1 c) (game_ending b2 c).
Proof.
  intros HP HF1 HF2 HQ1 HQ2. unfold Eval.game_ending.
  destruct (max_seen_quiet b1 HQ1) as [s1 [Es1 Ns1]]. destruct (max_seen_quiet b2 HQ2) as [s2 [Es2 Ns2]].
  rewrite Es1, Es2. cbn [bind]. unfold REPETITION_DRAW_COUNT. rewrite Ns1, Ns2.
  destruct (halfmove_quiet b1 HF1 HQ1) as [h1 [Eh1 Nh1]]. destruct (halfmove_quiet b2 HF2 HQ2) as [h2 [Eh2 Nh2]].
  rewrite Eh1, Eh2. cbn [bind]. unfold HALFMOVE_DRAW_THRESHOLD. rewrite Nh1, Nh2.
  apply (rres_bind (out_rel (S n) b1 b2)); [apply gen_moves_rel; assumption|].
  intros [ms1 u1] [ms2 u2] _ _ (HE & HRu & HC1 & HC2). cbn [fst snd] in HE, HRu, HC1, HC2. subst ms2.
  cbv beta iota zeta.
  pose proof (rel_sets _ _ _ HRu) as HS. pose proof HRu as (_ & _ & Ht & _).
  rewrite Ht, (in_check_congr rook_t bishop_t u1 u2 (turn u2) HS).
  destruct (is_nil ms1); cbn [rres]; out_done.
Qed.

Lemma score_rel n b1 b2 c d :
  rel (S n) b1 b2 -> fine 0 b1 -> fine 0 b2 -> quiet b1 -> quiet b2 ->
  rres (out_rel (S n) b1 b2) (score b1 c d) (score b2 c d).
Proof.
  intros HP HF1 HF2 HQ1 HQ2. unfold Eval.score.
  destruct (max_seen_quiet b1 HQ1) as [s1 [Es1 Ns1]]. destruct (max_seen_quiet b2 HQ2) as [s2 [Es2 Ns2]].
  rewrite Es1, Es2. cbn [bind]. unfold SCORE_REPETITION_COUNT. rewrite Ns1, Ns2.
  apply (rres_bind (out_rel (S n) b1 b2)); [apply game_ending_rel; assumption|].
  intros [e1 u1] [e2 u2] _ _ (HE & HRu & HC1 & HC2). cbn [fst snd] in HE, HRu, HC1, HC2. subst e2.
  cbv beta iota.
  destruct e1 as [[| |]|].
  - destruct c; [destruct (add16 WHITE_WINS (Z.of_N d)) | destruct (sub16 BLACK_WINS (Z.of_N d))];
      cbn [bind rres]; try exact I; try reflexivity; out_done.
  - cbn [rres]. out_done.
  - cbn [rres]. out_done.
  - rewrite (material_score_congr u1 u2 (rel_sets _ _ _ HRu)).
    destruct (material_score u2); cbn [bind rres]; try exact I; try reflexivity; out_done.
Qed.

(* ---- the alpha-beta search ---- *)

(* the two inner loops of [Search.ab] as one top-level function: [rec] is the child search
   (board, moving window bound), [upd] is max / min, [stop] the cut-off test *)
Section Loop.
Variable rec : board -> Z -> res (Z * board).
Variable upd : Z -> Z -> Z.
Variable stop : Z -> bool.

Fixpoint lp_gen (ms : list (cmove * effect)) (bd : board) (value w : Z) {struct ms} : res (Z * board) :=
  match ms with
  | [] => Ok (value, bd)
  | me :: rest =>
      let* b2 := unwrap (apply_move T (fst me) bd) in
      let* (v, b4) := rec (toggle_turn b2) w in
      let value' := upd value v in
      let* b5 := unwrap (undo_move T (fst me) b4) in
      let b6 := toggle_turn b5 in
      let w' := upd w value' in
      if stop w' then Ok (value', b6) else lp_gen rest b6 value' w'
  end.
End Loop.

Notation ab := (Search.ab T rook_t bishop_t).

Lemma ab_0 b alpha beta mx : ab O b alpha beta mx = score b (turn b) 0.
Proof. reflexivity. Qed.

Lemma ab_S d b alpha beta mx :
  ab (S d) b alpha beta mx =
  let* (cands, b1) := gen_annotated b (turn b) in
  let sorted := sort_moves b1 cands in
  if is_nil sorted then score b1 (turn b1) (N.of_nat (S d))
  else if mx then
    lp_gen (fun bd al => ab d bd al beta false) Z.max (fun al' => (beta <=? al')%Z) sorted b1 I16_MIN alpha
  else
    lp_gen (fun bd be => ab d bd alpha be true) Z.min (fun be' => (be' <=? alpha)%Z) sorted b1 I16_MAX beta.
Proof. reflexivity. Qed.

Lemma lp_gen_rel d n rec upd stop :
  (forall k a1 a2 w, rel (S k) a1 a2 -> far d a1 -> far d a2 ->
     rres (out_rel (S k) a1 a2) (rec a1 w) (rec a2 w)) ->
  forall ms b1 b2 value w,
  rel (S n) b1 b2 -> far (S d) b1 -> far (S d) b2 ->
  rres (out_rel (S n) b1 b2) (lp_gen rec upd stop ms b1 value w) (lp_gen rec upd stop ms b2 value w).
Proof.
  intros Hrec. induction ms as [|me rest IH]; intros b1 b2 value w HP HF1 HF2.
  - cbn [lp_gen rres]. out_done.
  - cbn [lp_gen].
    apply (rres_bind (RS (S (S n)) (S (S n)) QT)).
    { apply apply_rel_fine; [exact HP | exact (far_fine0 _ _ HF1) | exact (far_fine0 _ _ HF2)]. }
    intros a1 a2 HA1 HA2 HRa. apply unwrap_ok_eq in HA1. apply unwrap_ok_eq in HA2.
    pose proof (RS_rel2 _ _ _ _ _ HRa) as HPa.
    apply (rres_bind (out_rel (S (S n)) (toggle_turn a1) (toggle_turn a2))).
    { apply Hrec; [apply rel_toggle, HPa | exact (far_child T _ _ _ _ HF1 HA1) | exact (far_child T _ _ _ _ HF2 HA2)]. }
    intros [v1 x1] [v2 x2] _ _ (HE & HRx & HX & HY). cbn [fst snd] in HE, HRx, HX, HY. subst v2.
    cbv beta iota zeta.
    apply (rres_bind (fun u1 u2 => rel (S n) u1 u2 /\ ctr u1 = ctr b1 /\ ctr u2 = ctr b2)).
    { apply (undo_rel_after n (fst me) b1 b2 a1 a2 x1 x2); assumption. }
    intros u1 u2 _ _ (HRu & HC1 & HC2).
    destruct (stop (upd w (upd value v1))).
    + cbn [rres]. apply out_rel_intro; [reflexivity | apply rel_toggle, HRu | exact HC1 | exact HC2].
    + apply (rres_mono (out_rel (S n) (toggle_turn u1) (toggle_turn u2)));
        [intros x y; apply out_rel_trans; assumption|].
      apply IH; [apply rel_toggle, HRu | exact (far_of_ctr _ b1 _ HC1 HF1) | exact (far_of_ctr _ b2 _ HC2 HF2)].
Qed.

Lemma sort_moves_congr b1 b2 l : same_sets b1 b2 -> sort_moves b1 l = sort_moves b2 l.
Proof.
  intro HS. unfold sort_moves. replace (sort_key b1) with (sort_key b2); [reflexivity|].
  unfold sort_key, type_prio. rewrite (bget_congr _ _ HS). reflexivity.
Qed.

(** C08/C09's premise, relational form: on boards with the same observable position the
    search has the same outcome kind and the same value *)
Lemma ab_rel d : forall n b1 b2 alpha beta mx,
  rel (S n) b1 b2 -> far d b1 -> far d b2 ->
  rres (out_rel (S n) b1 b2) (ab d b1 alpha beta mx) (ab d b2 alpha beta mx).
Proof.
  induction d as [|d IH]; intros n b1 b2 alpha beta mx HP HF1 HF2.
  - rewrite !ab_0. pose proof HP as (_ & _ & Ht & _). rewrite Ht.
    apply score_rel; try assumption;
      [exact (far_fine0 _ _ HF1) | exact (far_fine0 _ _ HF2) | exact (far_quiet _ _ HF1) | exact (far_quiet _ _ HF2)].
  - rewrite !ab_S. pose proof HP as (_ & _ & Ht & _). rewrite Ht.
    apply (rres_bind (out_rel (S n) b1 b2)).
    { apply gen_annotated_rel; try assumption; [exact (far_fine1 _ _ HF1) | exact (far_fine1 _ _ HF2)]. }
    intros [l1 u1] [l2 u2] _ _ (HE & HRu & HC1 & HC2). cbn [fst snd] in HE, HRu, HC1, HC2. subst l2.
    cbv beta iota zeta.
    pose proof (far_of_ctr _ b1 _ HC1 HF1) as HFu1. pose proof (far_of_ctr _ b2 _ HC2 HF2) as HFu2.
    apply (rres_mono (out_rel (S n) u1 u2)); [intros x y; apply out_rel_trans; assumption|].
    rewrite (sort_moves_congr u1 u2 l1 (rel_sets _ _ _ HRu)).
    destruct (is_nil (sort_moves u2 l1)).
    + pose proof HRu as (_ & _ & Htu & _). rewrite Htu. apply score_rel; try assumption;
        [exact (far_fine0 _ _ HFu1) | exact (far_fine0 _ _ HFu2) | exact (far_quiet _ _ HFu1) | exact (far_quiet _ _ HFu2)].
    + destruct mx.
      * apply (lp_gen_rel d); try assumption.
        intros k a1 a2 w HPa Fa1 Fa2. apply IH; assumption.
      * apply (lp_gen_rel d); try assumption.
        intros k a1 a2 w HPa Fa1 Fa2. apply IH; assumption.
Qed.

(* ---- the statements in the [same_pos] vocabulary ---- *)

Lemma out_rel_same_pos {A} n b1 b2 (x y : A * board) :
  out_rel (S n) b1 b2 x y -> fst x = fst y /\ same_pos (snd x) (snd y).
Proof. intros (HE & HR & _). split; [exact HE | exact (rel_same_pos _ _ _ HR)]. Qed.

Ltac from_rel HREL HG :=
  let y := fresh "y" in let HG2 := fresh "HG2" in let HO := fresh "HO" in
  let HE := fresh "HE" in let HS := fresh "HS" in
  destruct (rres_ok_l _ _ _ _ HREL HG) as [[y ?b2'] [HG2 HO]];
  destruct (out_rel_same_pos _ _ _ _ _ HO) as [HE HS]; cbn [fst snd] in HE, HS; subst y;
  eexists; split; [exact HG2 | exact HS].

(** 3. the generator: the same legal list, in the same order *)
Theorem remove_invalid_congr b1 b2 c cands ms b1' :
  same_pos b1 b2 -> fine 0 b1 -> fine 0 b2 ->
  remove_invalid b1 c cands = Ok (ms, b1') ->
  exists b2', remove_invalid b2 c cands = Ok (ms, b2') /\ same_pos b1' b2'.
Proof.
  intros HP HF1 HF2 HG. apply same_pos_rel in HP.
  from_rel (remove_invalid_rel 0 c cands b1 b2 HP HF1 HF2) HG.
Qed.

Theorem gen_moves_congr b1 b2 c ms b1' :
  same_pos b1 b2 -> fine 0 b1 -> fine 0 b2 ->
  gen_moves b1 c = Ok (ms, b1') -> exists b2', gen_moves b2 c = Ok (ms, b2') /\ same_pos b1' b2'.
Proof.
  intros HP HF1 HF2 HG. apply same_pos_rel in HP.
  from_rel (gen_moves_rel 0 b1 b2 c HP HF1 HF2) HG.
Qed.

Theorem gen_moves_kind b1 b2 c :
  same_pos b1 b2 -> fine 0 b1 -> fine 0 b2 -> kind (gen_moves b1 c) = kind (gen_moves b2 c).
Proof.
  intros HP HF1 HF2. apply same_pos_rel in HP. exact (rres_kind _ _ _ (gen_moves_rel 0 b1 b2 c HP HF1 HF2)).
Qed.

Theorem gen_annotated_congr b1 b2 c l b1' :
  same_pos b1 b2 -> fine 1 b1 -> fine 1 b2 ->
  gen_annotated b1 c = Ok (l, b1') -> exists b2', gen_annotated b2 c = Ok (l, b2') /\ same_pos b1' b2'.
Proof.
  intros HP HF1 HF2 HG. apply same_pos_rel in HP.
  from_rel (gen_annotated_rel 0 b1 b2 c HP HF1 HF2) HG.
Qed.

(** 4. game ending and static score *)
Theorem game_ending_congr b1 b2 c e b1' :
  same_pos b1 b2 -> fine 0 b1 -> fine 0 b2 -> quiet b1 -> quiet b2 ->
  game_ending b1 c = Ok (e, b1') -> exists b2', game_ending b2 c = Ok (e, b2') /\ same_pos b1' b2'.
Proof.
  intros HP HF1 HF2 HQ1 HQ2 HG. apply same_pos_rel in HP.
  from_rel (game_ending_rel 0 b1 b2 c HP HF1 HF2 HQ1 HQ2) HG.
Qed.

Theorem score_congr b1 b2 c d v b1' :
  same_pos b1 b2 -> fine 0 b1 -> fine 0 b2 -> quiet b1 -> quiet b2 ->
  score b1 c d = Ok (v, b1') -> exists b2', score b2 c d = Ok (v, b2') /\ same_pos b1' b2'.
Proof.
  intros HP HF1 HF2 HQ1 HQ2 HG. apply same_pos_rel in HP.
  from_rel (score_rel 0 b1 b2 c d HP HF1 HF2 HQ1 HQ2) HG.
Qed.

(** 5. the alpha-beta value *)
Theorem ab_congr d b1 b2 alpha beta mx v b1' :
  same_pos b1 b2 -> far d b1 -> far d b2 ->
  ab d b1 alpha beta mx = Ok (v, b1') ->
  exists b2', ab d b2 alpha beta mx = Ok (v, b2') /\ same_pos b1' b2'.
Proof.
  intros HP HF1 HF2 HG. apply same_pos_rel in HP.
  from_rel (ab_rel d 0 b1 b2 alpha beta mx HP HF1 HF2) HG.
Qed.

Theorem ab_kind d b1 b2 alpha beta mx :
  same_pos b1 b2 -> far d b1 -> far d b2 ->
  kind (ab d b1 alpha beta mx) = kind (ab d b2 alpha beta mx).
Proof.
  intros HP HF1 HF2. apply same_pos_rel in HP.
  exact (rres_kind _ _ _ (ab_rel d 0 b1 b2 alpha beta mx HP HF1 HF2)).
Qed.

(* the value as a partial function of the board *)
Definition ab_value (d : nat) (b : board) (alpha beta : Z) (mx : bool) : option Z :=
  match ab d b alpha beta mx with Ok (v, _) => Some v | _ => None end.

Corollary ab_value_congr d b1 b2 alpha beta mx :
  same_pos b1 b2 -> far d b1 -> far d b2 -> ab_value d b1 alpha beta mx = ab_value d b2 alpha beta mx.
Proof.
  intros HP HF1 HF2. apply same_pos_rel in HP.
  pose proof (ab_rel d 0 b1 b2 alpha beta mx HP HF1 HF2) as HR. unfold ab_value.
  destruct (ab d b1 alpha beta mx) as [[v1 x1]|e1|]; destruct (ab d b2 alpha beta mx) as [[v2 x2]|e2|];
    cbn [rres] in HR; try contradiction; try reflexivity.
  destruct HR as [HE _]. cbn [fst] in HE. rewrite HE. reflexivity.
Qed.

(* ---- the minimax oracle ---- *)

Notation mm := (Search.mm T rook_t bishop_t).

Lemma mm_0 b mx : mm O b mx = let* (s, _) := score b (turn b) 0 in Ok s.
Proof. reflexivity. Qed.

Lemma mm_S d b mx :
  mm (S d) b mx =
  let* (ms, b1) := gen_moves b (turn b) in
  if is_nil ms then let* (s, _) := score b1 (turn b1) (N.of_nat (S d)) in Ok s
  else
    fold_left (fun acc m =>
        let* a := acc in
        let* b2 := unwrap (apply_move T m b1) in
        let* v := mm d (toggle_turn b2) (negb mx) in
        Ok (if mx then Z.max a v else Z.min a v))
      ms (Ok (if mx then I16_MIN else I16_MAX)).
Proof. reflexivity. Qed.

Lemma mm_rel d : forall n b1 b2 mx,
  rel (S n) b1 b2 -> far d b1 -> far d b2 -> rres eq (mm d b1 mx) (mm d b2 mx).
Proof.
  induction d as [|d IH]; intros n b1 b2 mx HP HF1 HF2.
  - rewrite !mm_0. pose proof HP as (_ & _ & Ht & _). rewrite Ht.
    apply (rres_bind (out_rel (S n) b1 b2)).
    { apply score_rel; try assumption;
        [exact (far_fine0 _ _ HF1) | exact (far_fine0 _ _ HF2) | exact (far_quiet _ _ HF1) | exact (far_quiet _ _ HF2)]. }
    intros [s1 x1] [s2 x2] _ _ (HE & _). cbn [fst] in HE. cbn [rres]. exact HE.
  - rewrite !mm_S. pose proof HP as (_ & _ & Ht & _). rewrite Ht.
    apply (rres_bind (out_rel (S n) b1 b2)).
    { apply gen_moves_rel; [exact HP | exact (far_fine0 _ _ HF1) | exact (far_fine0 _ _ HF2)]. }
    intros [ms1 u1] [ms2 u2] _ _ (HE & HRu & HC1 & HC2). cbn [fst snd] in HE, HRu, HC1, HC2. subst ms2.
    cbv beta iota.
    pose proof (far_of_ctr _ b1 _ HC1 HF1) as HFu1. pose proof (far_of_ctr _ b2 _ HC2 HF2) as HFu2.
    destruct (is_nil ms1).
    + pose proof HRu as (_ & _ & Htu & _). rewrite Htu.
      apply (rres_bind (out_rel (S n) u1 u2)).
      { apply score_rel; try assumption;
          [exact (far_fine0 _ _ HFu1) | exact (far_fine0 _ _ HFu2) | exact (far_quiet _ _ HFu1) | exact (far_quiet _ _ HFu2)]. }
      intros [s1 x1] [s2 x2] _ _ (HE & _). cbn [fst] in HE. cbn [rres]. exact HE.
    + match goal with
      | |- rres eq (fold_left ?F1 _ _) (fold_left ?F2 _ _) => set (f1 := F1); set (f2 := F2)
      end.
      assert (FL : forall ms acc1 acc2, rres (@eq Z) acc1 acc2 ->
                     rres (@eq Z) (fold_left f1 ms acc1) (fold_left f2 ms acc2)).
      { induction ms as [|m rest IHm]; intros acc1 acc2 HA; cbn [fold_left]; [exact HA|].
        apply IHm. unfold f1, f2.
        apply (rres_bind eq); [exact HA|].
        intros z1 z2 _ _ Hz. subst z2.
        apply (rres_bind (RS (S (S n)) (S (S n)) QT)).
        { apply apply_rel_fine; [exact HRu | exact (far_fine0 _ _ HFu1) | exact (far_fine0 _ _ HFu2)]. }
        intros a1 a2 HA1 HA2 HRa. apply unwrap_ok_eq in HA1. apply unwrap_ok_eq in HA2.
        apply (rres_bind eq).
        { apply (IH (S n)); [apply rel_toggle, (RS_rel2 _ _ _ _ _ HRa)
                            | exact (far_child T _ _ _ _ HFu1 HA1) | exact (far_child T _ _ _ _ HFu2 HA2)]. }
        intros v1 v2 _ _ Hv. subst v2. cbn [rres]. reflexivity. }
      apply FL. cbn [rres]. reflexivity.
Qed.

Theorem mm_congr d b1 b2 mx :
  same_pos b1 b2 -> far d b1 -> far d b2 -> mm d b1 mx = mm d b2 mx.
Proof.
  intros HP HF1 HF2. apply same_pos_rel in HP. pose proof (mm_rel d 0 b1 b2 mx HP HF1 HF2) as HR.
  destruct (mm d b1 mx) as [v1|e1|]; destruct (mm d b2 mx) as [v2|e2|]; cbn [rres] in HR;
    try contradiction; congruence.
Qed.

(* ---- the minimax value of every root move ---- *)

Notation root_values := (Search.root_values T rook_t bishop_t).

Lemma root_values_rel depth n b1 b2 :
  rel (S n) b1 b2 -> far (S (Nat.pred depth)) b1 -> far (S (Nat.pred depth)) b2 ->
  rres eq (root_values depth b1) (root_values depth b2).
Proof.
  intros HP HF1 HF2. unfold Search.root_values.
  pose proof HP as (_ & _ & Ht & _). rewrite Ht.
  apply (rres_bind (out_rel (S n) b1 b2)).
  { apply gen_moves_rel; [exact HP | exact (far_fine0 _ _ HF1) | exact (far_fine0 _ _ HF2)]. }
  intros [ms1 u1] [ms2 u2] _ _ (HE & HRu & HC1 & HC2). cbn [fst snd] in HE, HRu, HC1, HC2. subst ms2.
  cbv beta iota.
  pose proof (far_of_ctr _ b1 _ HC1 HF1) as HFu1. pose proof (far_of_ctr _ b2 _ HC2 HF2) as HFu2.
  pose proof HRu as (_ & _ & Htu & _). rewrite Htu.
  induction ms1 as [|m rest IHm]; cbn [fold_right]; [cbn [rres]; reflexivity|].
  apply (rres_bind eq); [exact IHm|].
  intros r1 r2 _ _ Hr. subst r2.
  apply (rres_bind (RS (S (S n)) (S (S n)) QT)).
  { apply apply_rel_fine; [exact HRu | exact (far_fine0 _ _ HFu1) | exact (far_fine0 _ _ HFu2)]. }
  intros a1 a2 HA1 HA2 HRa. apply unwrap_ok_eq in HA1. apply unwrap_ok_eq in HA2.
  apply (rres_bind eq).
  { apply (mm_rel _ (S n)); [apply rel_toggle, (RS_rel2 _ _ _ _ _ HRa)
                            | exact (far_child T _ _ _ _ HFu1 HA1) | exact (far_child T _ _ _ _ HFu2 HA2)]. }
  intros v1 v2 _ _ Hv. subst v2. cbn [rres]. reflexivity.
Qed.

Theorem root_values_congr depth b1 b2 :
  same_pos b1 b2 -> far (S (Nat.pred depth)) b1 -> far (S (Nat.pred depth)) b2 ->
  root_values depth b1 = root_values depth b2.
Proof.
  intros HP HF1 HF2. apply same_pos_rel in HP. pose proof (root_values_rel depth 0 b1 b2 HP HF1 HF2) as HR.
  destruct (root_values depth b1) as [v1|e1|]; destruct (root_values depth b2) as [v2|e2|]; cbn [rres] in HR;
    try contradiction; congruence.
Qed.

(* ---- the root search ---- *)

Notation root_task := (Search.root_task T rook_t bishop_t).
Notation root_scores := (Search.root_scores T rook_t bishop_t).
Notation search := (Search.search T rook_t bishop_t).

Lemma root_task_rel k n b1 b2 m :
  rel (S n) b1 b2 -> far (S k) b1 -> far (S k) b2 ->
  rres eq (root_task (S k) b1 m) (root_task (S k) b2 m).
Proof.
  intros HP HF1 HF2. unfold Search.root_task. cbn [Nat.pred].
  pose proof HP as (_ & _ & Ht & _). rewrite Ht.
  apply (rres_bind (RS (S (S n)) (S (S n)) QT)).
  { apply apply_rel_fine; [exact HP | exact (far_fine0 _ _ HF1) | exact (far_fine0 _ _ HF2)]. }
  intros a1 a2 HA1 HA2 HRa. apply unwrap_ok_eq in HA1. apply unwrap_ok_eq in HA2.
  apply (rres_bind (out_rel (S (S n)) (toggle_turn a1) (toggle_turn a2))).
  { apply ab_rel; [apply rel_toggle, (RS_rel2 _ _ _ _ _ HRa)
                  | exact (far_child T _ _ _ _ HF1 HA1) | exact (far_child T _ _ _ _ HF2 HA2)]. }
  intros [v1 x1] [v2 x2] _ _ (HE & _). cbn [fst] in HE. cbn [rres]. exact HE.
Qed.

Lemma root_scores_rel k n b1 b2 ms :
  rel (S n) b1 b2 -> far (S k) b1 -> far (S k) b2 ->
  rres eq (root_scores (S k) b1 ms) (root_scores (S k) b2 ms).
Proof.
  intros HP HF1 HF2. induction ms as [|me rest IHm]; cbn [Search.root_scores]; [cbn [rres]; reflexivity|].
  apply (rres_bind eq); [apply (root_task_rel k n); assumption|].
  intros v1 v2 _ _ Hv. subst v2.
  apply (rres_bind eq); [exact IHm|].
  intros r1 r2 _ _ Hr. subst r2. cbn [rres]. reflexivity.
Qed.

(* outcomes of [search] related by kind *)
Definition srel (R : board -> board -> Prop) (r1 r2 : sres (Z * cmove * board)) : Prop :=
  match r1, r2 with
  | SOk (v1, m1, x1), SOk (v2, m2, x2) => v1 = v2 /\ m1 = m2 /\ R x1 x2
  | SErr e1, SErr e2 => e1 = e2
  | SPanic, SPanic => True
  | _, _ => False
  end.

Lemma search_rel depth n b1 b2 :
  rel (S n) b1 b2 -> far (N.to_nat depth) b1 -> far (N.to_nat depth) b2 ->
  srel (rel (S n)) (search depth b1) (search depth b2).
Proof.
  intros HP HF1 HF2. unfold Search.search.
  destruct (N.ltb_spec depth 1) as [Hlt|Hge]; [cbn [srel]; reflexivity|].
  destruct (N.to_nat depth) as [|k] eqn:Ek; [lia|].
  pose proof HP as (_ & _ & Ht & _). rewrite Ht.
  pose proof (gen_annotated_rel n b1 b2 (turn b2) HP (far_fine1 _ _ HF1) (far_fine1 _ _ HF2)) as HG.
  destruct (MoveGen.gen_annotated T rook_t bishop_t b1 (turn b2)) as [[l1 u1]|e1|];
    destruct (MoveGen.gen_annotated T rook_t bishop_t b2 (turn b2)) as [[l2 u2]|e2|];
    cbn [rres] in HG; try contradiction; try exact I.
  destruct HG as (HE & HRu & HC1 & HC2). cbn [fst snd] in HE, HRu, HC1, HC2. subst l2.
  cbv zeta.
  pose proof (far_of_ctr _ b1 _ HC1 HF1) as HFu1. pose proof (far_of_ctr _ b2 _ HC2 HF2) as HFu2.
  rewrite (sort_moves_congr u1 u2 l1 (rel_sets _ _ _ HRu)).
  pose proof (root_scores_rel k n u1 u2 (sort_moves u2 l1) HRu HFu1 HFu2) as HS.
  destruct (Search.root_scores T rook_t bishop_t (S k) u1 (sort_moves u2 l1)) as [sc1|e1|];
    destruct (Search.root_scores T rook_t bishop_t (S k) u2 (sort_moves u2 l1)) as [sc2|e2|];
    cbn [rres] in HS; try contradiction; try exact I.
  subst sc2. pose proof HRu as (_ & _ & Htu & _). rewrite Htu.
  destruct (rev (if maximize (turn u2) then rev (sort_desc sc1) else sort_desc sc1)) as [|[v m] r];
    cbn [srel]; [reflexivity|]. split; [reflexivity|]. split; [reflexivity|exact HRu].
Qed.

(** the root search returns the same score and the same move *)
Theorem search_congr depth b1 b2 v m b1' :
  same_pos b1 b2 -> far (N.to_nat depth) b1 -> far (N.to_nat depth) b2 ->
  search depth b1 = SOk (v, m, b1') -> exists b2', search depth b2 = SOk (v, m, b2') /\ same_pos b1' b2'.
Proof.
  intros HP HF1 HF2 HG. apply same_pos_rel in HP.
  pose proof (search_rel depth 0 b1 b2 HP HF1 HF2) as HR. rewrite HG in HR.
  destruct (search depth b2) as [[[v2 m2] x2]|e2|]; cbn [srel] in HR; try contradiction.
  destruct HR as (-> & -> & HRx). exists x2. split; [reflexivity|]. apply same_pos_rel, HRx.
Qed.

End Main.

(* ------------------------------------------------------------------ *)
(** * the [maximizing] flag of the search is the side to move, at every node *)

Ltac binv H x Hx :=
  match type of H with
  | bind ?r _ = Ok _ => destruct r as [x| |] eqn:Hx; cbn [bind] in H; [|discriminate H|discriminate H]
  end.

Section TurnInv.
Variable T : ztable.
Variables rook_t bishop_t : N -> N -> N.

Notation remove_invalid := (remove_invalid T rook_t bishop_t).
Notation gen_moves := (gen_moves T rook_t bishop_t).
Notation effect_of := (effect_of T rook_t bishop_t).
Notation annotate := (annotate T rook_t bishop_t).
Notation gen_annotated := (gen_annotated T rook_t bishop_t).
Notation game_ending := (game_ending T rook_t bishop_t).
Notation score := (score T rook_t bishop_t).
Notation ab := (Search.ab T rook_t bishop_t).

Lemma remove_invalid_turn c cands : forall b ms b',
  remove_invalid b c cands = Ok (ms, b') -> turn b' = turn b.
Proof.
  induction cands as [|m rest IH]; intros b ms b' HR; cbn [MoveGen.remove_invalid] in HR.
  - inversion HR. reflexivity.
  - binv HR a HA. apply unwrap_ok_eq in HA. cbv zeta in HR.
    binv HR u HU. apply unwrap_ok_eq in HU.
    binv HR x HX. destruct x as [r g]. cbv beta iota in HR. inversion HR; subst b'.
    rewrite (IH _ _ _ HX), (undo_move_turn T _ _ _ HU), (apply_move_turn T _ _ _ HA). reflexivity.
Qed.

Lemma gen_moves_turn b c ms b' : gen_moves b c = Ok (ms, b') -> turn b' = turn b.
Proof.
  unfold MoveGen.gen_moves. intro HR. binv HR cands HC. exact (remove_invalid_turn _ _ _ _ _ HR).
Qed.

Lemma effect_of_turn b c m e b' : effect_of b c m = Ok (e, b') -> turn b' = turn b.
Proof.
  unfold MoveGen.effect_of. intro HR. binv HR a HA. apply unwrap_ok_eq in HA.
  binv HR x HX. destruct x as [r g]. cbv beta iota zeta in HR.
  binv HR u HU. apply unwrap_ok_eq in HU. inversion HR; subst b'.
  rewrite (undo_move_turn T _ _ _ HU), (gen_moves_turn _ _ _ _ HX), (apply_move_turn T _ _ _ HA). reflexivity.
Qed.

Lemma annotate_turn c ms : forall b l b', annotate b c ms = Ok (l, b') -> turn b' = turn b.
Proof.
  induction ms as [|m rest IH]; intros b l b' HR; cbn [MoveGen.annotate] in HR.
  - inversion HR. reflexivity.
  - binv HR x HX. destruct x as [e g]. cbv beta iota in HR.
    binv HR y HY. destruct y as [r g']. cbv beta iota in HR. inversion HR; subst b'.
    rewrite (IH _ _ _ HY), (effect_of_turn _ _ _ _ _ HX). reflexivity.
Qed.

Lemma gen_annotated_turn b c l b' : gen_annotated b c = Ok (l, b') -> turn b' = turn b.
Proof.
  unfold MoveGen.gen_annotated. intro HR. binv HR x HX. destruct x as [ms g]. cbv beta iota in HR.
  rewrite (annotate_turn _ _ _ _ _ HR), (gen_moves_turn _ _ _ _ HX). reflexivity.
Qed.

Lemma game_ending_turn b c e b' : game_ending b c = Ok (e, b') -> turn b' = turn b.
Proof.
  unfold Eval.game_ending. intro HR. binv HR s HS.
  destruct (s =? REPETITION_DRAW_COUNT); [inversion HR; reflexivity|].
  binv HR h HH. destruct (HALFMOVE_DRAW_THRESHOLD <=? h); [inversion HR; reflexivity|].
  binv HR x HX. destruct x as [ms g]. cbv beta iota zeta in HR.
  destruct (is_nil ms); inversion HR; subst b'; exact (gen_moves_turn _ _ _ _ HX).
Qed.

Lemma score_turn b c d v b' : score b c d = Ok (v, b') -> turn b' = turn b.
Proof.
  unfold Eval.score. intro HR. binv HR s HS.
  destruct (s =? SCORE_REPETITION_COUNT); [inversion HR; reflexivity|].
  binv HR x HX. destruct x as [e g]. cbv beta iota in HR.
  pose proof (game_ending_turn _ _ _ _ HX) as HT.
  destruct e as [[| |]|].
  - binv HR z HZ. inversion HR; subst b'. exact HT.
  - inversion HR; subst b'. exact HT.
  - inversion HR; subst b'. exact HT.
  - binv HR z HZ. inversion HR; subst b'. exact HT.
Qed.

Lemma lp_gen_turn rec upd stop :
  (forall x w v x', rec x w = Ok (v, x') -> turn x' = turn x) ->
  forall ms bd value w v b', lp_gen T rec upd stop ms bd value w = Ok (v, b') -> turn b' = turn bd.
Proof.
  intros Hrec. induction ms as [|me rest IH]; intros bd value w v b' HR; cbn [lp_gen] in HR.
  - inversion HR. reflexivity.
  - binv HR a HA. apply unwrap_ok_eq in HA.
    binv HR x HX. destruct x as [v1 x1]. cbv beta iota zeta in HR.
    binv HR u HU. apply unwrap_ok_eq in HU.
    assert (HT : turn (toggle_turn u) = turn bd).
    { unfold toggle_turn at 1. bsimpl.
      rewrite (undo_move_turn T _ _ _ HU), (Hrec _ _ _ _ HX). unfold toggle_turn. bsimpl.
      rewrite (apply_move_turn T _ _ _ HA). apply opp_c_involutive. }
    destruct (stop (upd w (upd value v1))).
    + inversion HR; subst b'. exact HT.
    + rewrite (IH _ _ _ _ _ HR). exact HT.
Qed.

Lemma ab_turn d : forall b alpha beta mx v b', ab d b alpha beta mx = Ok (v, b') -> turn b' = turn b.
Proof.
  induction d as [|d IH]; intros b alpha beta mx v b' HR.
  - rewrite ab_0 in HR. exact (score_turn _ _ _ _ _ HR).
  - rewrite ab_S in HR. binv HR x HX. destruct x as [l g]. cbv beta iota zeta in HR.
    pose proof (gen_annotated_turn _ _ _ _ HX) as HT.
    destruct (is_nil (sort_moves g l)).
    + rewrite (score_turn _ _ _ _ _ HR). exact HT.
    + destruct mx.
      * rewrite (lp_gen_turn _ _ _ (fun x w v0 x' => IH x w beta false v0 x') _ _ _ _ _ _ HR). exact HT.
      * rewrite (lp_gen_turn _ _ _ (fun x w v0 x' => IH x alpha w true v0 x') _ _ _ _ _ _ HR). exact HT.
Qed.

(* the search with the flag recomputed from the board at every node *)
Fixpoint abt (d : nat) (b : board) (alpha beta : Z) {struct d} : res (Z * board) :=
  match d with
  | O => score b (turn b) 0
  | S d' =>
      let* (cands, b1) := gen_annotated b (turn b) in
      let sorted := sort_moves b1 cands in
      if is_nil sorted then score b1 (turn b1) (N.of_nat d)
      else if maximize (turn b) then
        lp_gen T (fun bd al => abt d' bd al beta) Z.max (fun al' => (beta <=? al')%Z) sorted b1 I16_MIN alpha
      else
        lp_gen T (fun bd be => abt d' bd alpha be) Z.min (fun be' => (be' <=? alpha)%Z) sorted b1 I16_MAX beta
  end.

Lemma lp_gen_ext c rec1 rec2 upd stop :
  (forall x w, turn x = opp_c c -> rec1 x w = rec2 x w) ->
  (forall x w v x', rec1 x w = Ok (v, x') -> turn x' = turn x) ->
  forall ms bd value w, turn bd = c ->
  lp_gen T rec1 upd stop ms bd value w = lp_gen T rec2 upd stop ms bd value w.
Proof.
  intros Hext Hturn. induction ms as [|me rest IH]; intros bd value w HT; cbn [lp_gen]; [reflexivity|].
  destruct (unwrap (apply_move T (fst me) bd)) as [a| |] eqn:HA; cbn [bind]; try reflexivity.
  apply unwrap_ok_eq in HA.
  assert (HTa : turn (toggle_turn a) = opp_c c).
  { unfold toggle_turn. bsimpl. rewrite (apply_move_turn T _ _ _ HA), HT. reflexivity. }
  rewrite <- (Hext _ w HTa).
  destruct (rec1 (toggle_turn a) w) as [[v1 x1]| |] eqn:HX; cbn [bind]; try reflexivity.
  cbv beta iota zeta.
  destruct (unwrap (undo_move T (fst me) x1)) as [u| |] eqn:HU; cbn [bind]; try reflexivity.
  apply unwrap_ok_eq in HU.
  destruct (stop (upd w (upd value v1))); [reflexivity|].
  apply IH. unfold toggle_turn. bsimpl.
  rewrite (undo_move_turn T _ _ _ HU), (Hturn _ _ _ _ HX), HTa. apply opp_c_involutive.
Qed.

Lemma maximize_opp c : maximize (opp_c c) = negb (maximize c).
Proof. destruct c; reflexivity. Qed.

(** [Search.ab] started with [maximizing] = "White to move" keeps that relation at every node
    of its recursion: it is the search whose flag is read off the board *)
Theorem ab_abt d : forall b alpha beta, ab d b alpha beta (maximize (turn b)) = abt d b alpha beta.
Proof.
  induction d as [|d IH]; intros b alpha beta; [reflexivity|].
  rewrite ab_S. cbn [abt].
  destruct (gen_annotated b (turn b)) as [[l g]| |] eqn:HX; cbn [bind]; try reflexivity.
  cbv beta iota zeta. pose proof (gen_annotated_turn _ _ _ _ HX) as HT.
  destruct (is_nil (sort_moves g l)); [reflexivity|].
  destruct (maximize (turn b)) eqn:HM.
  - apply (lp_gen_ext (turn b)); [| |exact HT].
    + intros x w Hx. rewrite <- IH, Hx, maximize_opp, HM. reflexivity.
    + intros x w v x'. apply ab_turn.
  - apply (lp_gen_ext (turn b)); [| |exact HT].
    + intros x w Hx. rewrite <- IH, Hx, maximize_opp, HM. reflexivity.
    + intros x w v x'. apply ab_turn.
Qed.

Corollary ab_coherent d b alpha beta mx :
  maximize (turn b) = mx -> ab d b alpha beta mx = abt d b alpha beta.
Proof. intros <-. apply ab_abt. Qed.

End TurnInv.

(* ------------------------------------------------------------------ *)
(** * 6. the key level: a cache keyed by (hash, alpha, beta, depth, maximizing) *)

(* equality of the history-free part of the abstract position *)
Definition same_pos_obs (b1 b2 : board) : Prop :=
  Rules.cells (abstract b1) = Rules.cells (abstract b2) /\
  Rules.prights (abstract b1) = Rules.prights (abstract b2) /\
  Rules.pep (abstract b1) = Rules.pep (abstract b2).

(* the current en-passant target is no square or exactly one board square *)
Definition ep_top_wf (b : board) : Prop :=
  top (ep_stack b) = 0 \/ exists i, i < 64 /\ top (ep_stack b) = bit i.

Definition stacks_ne (b : board) : Prop := ep_stack b <> [] /\ cr_stack b <> [].

Lemma map_squares_ext {A} (f g : N -> A) : map f squares = map g squares -> forall i, i < 64 -> f i = g i.
Proof.
  intros HM i Hi. apply in_squares in Hi. revert Hi. generalize squares as l, HM.
  induction l as [|x r IH]; cbn [map In]; intros HM' Hin; [contradiction|].
  injection HM' as Hx Hr. destruct Hin as [<-|Hin]; [exact Hx | exact (IH Hr Hin)].
Qed.

Lemma abs_ep_inj b1 b2 : ep_top_wf b1 -> ep_top_wf b2 -> abs_ep b1 = abs_ep b2 ->
  top (ep_stack b1) = top (ep_stack b2).
Proof.
  unfold abs_ep. intros [Z1|[i [Li Ei]]] [Z2|[j [Lj Ej]]].
  - intros _. rewrite Z1, Z2. reflexivity.
  - rewrite Z1, Ej. rewrite is_empty_bit. cbn. discriminate.
  - rewrite Z2, Ei. rewrite is_empty_bit. cbn. discriminate.
  - rewrite Ei, Ej, !is_empty_bit, (tz_bit i Li), (tz_bit j Lj). intro HE. inversion HE. reflexivity.
Qed.

Lemma top_hd_error (l l' : list N) : l <> [] -> l' <> [] -> top l = top l' -> hd_error l = hd_error l'.
Proof.
  unfold top. destruct l as [|x r], l' as [|y r']; cbn [hd hd_error]; intros Hl Hl' HE; try contradiction.
  rewrite HE. reflexivity.
Qed.

(** two well-formed boards with the same cell map, rights, en-passant square and side to move
    have the same observable position *)
Theorem obs_same_pos b1 b2 :
  WF b1 -> WF b2 -> same_pos_obs b1 b2 -> turn b1 = turn b2 ->
  stacks_ne b1 -> stacks_ne b2 -> ep_top_wf b1 -> ep_top_wf b2 -> same_pos b1 b2.
Proof.
  intros W1 W2 (Hc & Hr & He) Ht [Ne1 Nc1] [Ne2 Nc2] E1 E2.
  rewrite !cells_abstract in Hc. rewrite !prights_abstract in Hr. rewrite !pep_abstract in He.
  assert (HG : forall i, bget b1 i = bget b2 i).
  { intro i. destruct (N.lt_ge_cases i 64) as [Li|Gi].
    - exact (map_squares_ext _ _ Hc i Li).
    - rewrite (bget_ge64 b1 i W1 Gi), (bget_ge64 b2 i W2 Gi). reflexivity. }
  destruct (WF_sets_ext b1 b2 W1 W2 HG) as [Hw Hb].
  split; [exact Hw|]. split; [exact Hb|]. split; [exact Ht|]. split.
  - apply top_hd_error; try assumption. apply abs_ep_inj; assumption.
  - apply top_hd_error; assumption.
Qed.

(* the converse needs nothing *)
Lemma hd_error_top (l l' : list N) : hd_error l = hd_error l' -> top l = top l'.
Proof. unfold top. destruct l, l'; cbn [hd_error hd]; intro HE; try discriminate; congruence. Qed.

Theorem same_pos_obs_of b1 b2 : same_pos b1 b2 -> same_pos_obs b1 b2.
Proof.
  intros HP. pose proof (same_pos_sets _ _ HP) as HS. destruct HP as (_ & _ & _ & He & Hc).
  unfold same_pos_obs. rewrite !cells_abstract, !prights_abstract, !pep_abstract.
  split; [rewrite (bget_congr _ _ HS); reflexivity|].
  split; [apply hd_error_top, Hc|]. unfold abs_ep. rewrite (hd_error_top _ _ He). reflexivity.
Qed.

Section Keys.
Variable T : ztable.
Variables rook_t bishop_t : N -> N -> N.

(** C05 at this level: boards with the same observable position carry the same key *)
Theorem same_pos_same_key b1 b2 : KeyInv T b1 -> KeyInv T b2 -> same_pos b1 b2 -> hash b1 = hash b2.
Proof.
  intros K1 K2 HP. destruct (same_pos_obs_of _ _ HP) as (Hc & Hr & He).
  apply (key_history_independent T b1 b2 K1 K2 Hc Hr He).
Qed.

(* on the set S of boards the engine visits, equal keys (and equal side to move) mean equal
   observable position: what a cache keyed by the hash silently assumes *)
Definition collision_free (S : board -> Prop) : Prop :=
  forall b1 b2, S b1 -> S b2 -> hash b1 = hash b2 -> turn b1 = turn b2 -> same_pos_obs b1 b2.

Definition searchable (d : nat) (b : board) : Prop :=
  WF b /\ far d b /\ ep_top_wf b /\ stacks_ne b.

(** the [key_det] premise of Interleave.v for the engine's search key
    (hash, alpha, beta, depth, maximizing): on a collision-free set of searchable boards, two
    boards with the same key and the same side to move have the same search outcome *)
Theorem ab_key_det (S : board -> Prop) d b1 b2 alpha beta mx :
  collision_free S -> S b1 -> S b2 -> searchable d b1 -> searchable d b2 ->
  hash b1 = hash b2 -> turn b1 = turn b2 ->
  ab_value T rook_t bishop_t d b1 alpha beta mx = ab_value T rook_t bishop_t d b2 alpha beta mx
  /\ kind (Search.ab T rook_t bishop_t d b1 alpha beta mx) = kind (Search.ab T rook_t bishop_t d b2 alpha beta mx).
Proof.
  intros CF S1 S2 (W1 & F1 & E1 & N1) (W2 & F2 & E2 & N2) HH HT.
  pose proof (obs_same_pos b1 b2 W1 W2 (CF b1 b2 S1 S2 HH HT) HT N1 N2 E1 E2) as HP.
  split; [apply ab_value_congr; assumption | apply ab_kind; assumption].
Qed.

(* with the side to move read off the key's [maximizing] component *)
Corollary ab_key_det_mx (S : board -> Prop) d b1 b2 alpha beta :
  collision_free S -> S b1 -> S b2 -> searchable d b1 -> searchable d b2 ->
  hash b1 = hash b2 -> maximize (turn b1) = maximize (turn b2) ->
  ab_value T rook_t bishop_t d b1 alpha beta (maximize (turn b1))
  = ab_value T rook_t bishop_t d b2 alpha beta (maximize (turn b2)).
Proof.
  intros CF S1 S2 HS1 HS2 HH HM.
  assert (HT : turn b1 = turn b2) by (destruct (turn b1), (turn b2); cbn [maximize] in HM; congruence).
  rewrite HT. apply (ab_key_det S d b1 b2 alpha beta _ CF S1 S2 HS1 HS2 HH HT).
Qed.

End Keys.

(* ------------------------------------------------------------------ *)
(** * non-vacuity: two different histories, one observable position *)

(* the game loop's make: apply, then pass the move *)
Definition play (T : ztable) (ms : list cmove) (b : board) : res board :=
  fold_left (fun r m => let* b0 := r in let* b1 := apply_move T m b0 in Ok (toggle_turn b1)) ms (Ok b).

(* 1.e3 e6 2.e4 e5 *)
Definition line_a : list cmove := [Std 12 20 None; Std 52 44 None; Std 20 28 None; Std 44 36 None].
(* 1.e4 e5 2.Nf3 Nf6 3.Ng1 Ng8 *)
Definition line_b : list cmove :=
  [Std 12 28 None; Std 52 36 None; Std 6 21 None; Std 62 45 None; Std 21 6 None; Std 45 62 None].

Definition board_a : board :=
  match play example_table line_a (start_board example_table) with Ok b => b | _ => board_new end.
Definition board_b : board :=
  match play example_table line_b (start_board example_table) with Ok b => b | _ => board_new end.

Example two_histories :
  play example_table line_a (start_board example_table) = Ok board_a
  /\ play example_table line_b (start_board example_table) = Ok board_b
  /\ same_pos board_a board_b
  /\ hm_stack board_a = [0; 0; 0; 0; 0] /\ hm_stack board_b = [4; 3; 2; 1; 0; 0; 0]
  /\ fullmove board_a = 5 /\ fullmove board_b = 7
  /\ ep_stack board_a = [0; 0; 0; 0; 0] /\ ep_stack board_b = [0; 0; 0; 0; bit 44; bit 20; 0]
  /\ hash board_a = hash board_b
  /\ wf_b board_a = true /\ wf_b board_b = true.
Proof. vm_compute. repeat split; reflexivity. Qed.

Example two_histories_far :
  (far 3 board_a /\ far 3 board_b) /\ (fine 1 board_a /\ fine 1 board_b)
  /\ (quiet board_a /\ quiet board_b) /\ (ep_top_wf board_a /\ ep_top_wf board_b)
  /\ (stacks_ne board_a /\ stacks_ne board_b) /\ (WF board_a /\ WF board_b).
Proof.
  assert (HA : hm_stack board_a = [0; 0; 0; 0; 0] /\ fullmove board_a = 5 /\ seen_stack board_a = [1]
               /\ ep_stack board_a = [0; 0; 0; 0; 0] /\ cr_stack board_a = [15; 15; 15; 15; 15])
    by (vm_compute; repeat split; reflexivity).
  assert (HB : hm_stack board_b = [4; 3; 2; 1; 0; 0; 0] /\ fullmove board_b = 7 /\ seen_stack board_b = [1]
               /\ ep_stack board_b = [0; 0; 0; 0; 17592186044416; 1048576; 0]
               /\ cr_stack board_b = [15; 15; 15; 15; 15; 15; 15])
    by (vm_compute; repeat split; reflexivity).
  destruct HA as (Ah & Af & As & Ae & Ac). destruct HB as (Bh & Bf & Bs & Be & Bc).
  split; [|split; [|split; [|split; [|split]]]].
  - unfold far. rewrite Ah, Af, As, Bh, Bf, Bs. unfold FULLMOVE_MAX. cbn [hd].
    repeat split; try discriminate; lia.
  - unfold fine. rewrite Ah, Af, Bh, Bf. unfold U8_MAX, FULLMOVE_MAX. cbn [hd].
    repeat split; try discriminate; lia.
  - unfold quiet. rewrite Ah, As, Bh, Bs. cbn [hd]. repeat split; try discriminate; lia.
  - unfold ep_top_wf, top. rewrite Ae, Be. cbn [hd]. split; left; reflexivity.
  - unfold stacks_ne. rewrite Ae, Ac, Be, Bc. repeat split; discriminate.
  - split; apply wf_b_WF; vm_compute; reflexivity.
Qed.

(* the theorems fire on them: with the ray-walk sliders, a depth-1 search from either board *)
Example two_histories_search :
  exists v x1 x2,
    Search.ab example_table rook_ref bishop_ref 1 board_a I16_MIN I16_MAX true = Ok (v, x1)
    /\ Search.ab example_table rook_ref bishop_ref 1 board_b I16_MIN I16_MAX true = Ok (v, x2).
Proof. vm_compute. do 3 eexists. split; reflexivity. Qed.

Print Assumptions apply_move_rel.
Print Assumptions undo_move_rel.
Print Assumptions gen_moves_congr.
Print Assumptions gen_annotated_congr.
Print Assumptions score_congr.
Print Assumptions ab_congr.
Print Assumptions mm_congr.
Print Assumptions root_values_congr.
Print Assumptions search_congr.
Print Assumptions ab_key_det.
Print Assumptions two_histories_search.
Print Assumptions ab_abt.
Print Assumptions obs_same_pos.
Print Assumptions undo_move_Rt.
