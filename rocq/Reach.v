(* Reach.v — the CONCRETE reachable-state invariant of the search, [Sound d b], and its
   preservation.  It assembles the invariants that the proof files of the second wave use
   abstractly:

     Inv b             InvProofs2: representation invariant (C12) + the side not to move is not
                       in check + the en-passant target belongs to the side to move
     legal_material    EvalProofs2: one king, pawns + promoted surplus <= 8 (so that the static
                       score cannot overflow an i16)
     far d b           Congr: the half-move clock, the repetition table and the fullmove counter
                       are at least d plies away from a draw threshold / a counter limit
     KeyInv T b        ZobristProofs: the incrementally maintained position key is the key of
                       the position (C05)

   [Sound d b] reads "b may be searched d more plies".  The index is consumed by playing a
   move ([Sound_step]); every node at remaining depth d of a search started from a position
   with [Sound D] therefore has [Sound d].  Proofs only. *)
From Coq Require Import Lia ZArith NArith List Bool.
From ChessV Require Import Abs WfReflect GeomProofs InvProofs InvProofs2 Congr ZobristProofs
  EvalProofs2 Search GenFrame EpFrame GenTotal Material.
From ChessV Require UndoProofs SoundB.
Import ListNotations.
Open Scope N_scope.

#[local] Arguments N.add : simpl never.
#[local] Arguments N.sub : simpl never.
#[local] Arguments N.mul : simpl never.
#[local] Arguments N.eqb : simpl never.
#[local] Arguments N.ltb : simpl never.
#[local] Arguments N.leb : simpl never.
#[local] Arguments N.of_nat : simpl never.
#[local] Arguments N.shiftl : simpl never.
#[local] Arguments N.shiftr : simpl never.
#[local] Arguments N.land : simpl never.
#[local] Arguments N.lor : simpl never.
#[local] Arguments N.lxor : simpl never.
#[local] Arguments N.testbit : simpl never.

Lemma Reach_Ok_inj {A} (x y : A) : @Ok A x = Ok y -> x = y.
Proof. intro HE. exact (f_equal (fun r => match r with Ok a => a | _ => x end) HE). Qed.

Section Reach.
Variable T : ztable.
Variables rook_t bishop_t : N -> N -> N.

Notation Inv := (Inv rook_t bishop_t).
Notation InvC := (InvC rook_t bishop_t).
Notation gen_moves := (gen_moves T rook_t bishop_t).
Notation gen_annotated := (gen_annotated T rook_t bishop_t).
Notation score := (score T rook_t bishop_t).

(** * the invariant *)
Definition Sound (d : nat) (b : board) : Prop :=
  Inv b
  /\ legal_material (white b) /\ legal_material (black b)
  /\ far d b
  /\ KeyInv T b.

Lemma Sound_Inv d b : Sound d b -> Inv b.
Proof. intros (I & _). exact I. Qed.

Lemma Sound_Repr d b : Sound d b -> Repr b.
Proof. intros (I & _). exact (InvC_Repr rook_t bishop_t b (turn b) I). Qed.

Lemma Sound_WF d b : Sound d b -> WF b.
Proof. intro S. exact (Repr_WF b (Sound_Repr d b S)). Qed.

Lemma Sound_ep_wf d b : Sound d b -> ep_wf b (turn b).
Proof. intros (I & _). exact (InvC_ep_wf rook_t bishop_t b (turn b) I). Qed.

Lemma Sound_far d b : Sound d b -> far d b.
Proof. intros (_ & _ & _ & F & _). exact F. Qed.

Lemma Sound_KeyInv d b : Sound d b -> KeyInv T b.
Proof. intros (_ & _ & _ & _ & K). exact K. Qed.

(* the index is a budget: a position that may be searched d+1 plies may be searched d plies *)
Lemma Sound_le d d' b : (d' <= d)%nat -> Sound d b -> Sound d' b.
Proof.
  intros L (I & Mw & Mb & F & K).
  split; [exact I|]. split; [exact Mw|]. split; [exact Mb|]. split; [exact (far_le d d' b L F)|exact K].
Qed.

Lemma Sound_pred d b : Sound (S d) b -> Sound d b.
Proof. apply Sound_le. lia. Qed.

(* the budget is below the half-move draw threshold, hence a u8 *)
Lemma Sound_depth_lt_100 d b : Sound d b -> N.of_nat d < 100.
Proof. intros (_ & _ & _ & (_ & H & _) & _). lia. Qed.

(** * the key invariant does not read the side to move *)
Lemma KeyInv_toggle_turn_r b : KeyInv T b -> KeyInv T (toggle_turn b).
Proof. intro K. apply (KeyInv_iff T). apply (KeyInv_iff T) in K. exact K. Qed.

Lemma KeyInv_set_turn b k : KeyInv T b -> KeyInv T (set_turn b k).
Proof. intro K. apply (KeyInv_iff T). apply (KeyInv_iff T) in K. exact K. Qed.

(** * playing a legal move hands the invariant, with one ply less, to the opponent *)
Theorem Sound_step d b ms b0 m b1 :
  Sound (S d) b -> gen_moves b (turn b) = Ok (ms, b0) -> In m ms -> apply_move T m b = Ok b1 ->
  Sound d (toggle_turn b1).
Proof.
  intros (I & Mw & Mb & F & K) G Hm A.
  pose proof (InvC_Repr rook_t bishop_t b (turn b) I) as R.
  pose proof (Repr_WF b R) as W.
  destruct (gen_moves_InvC_spec T rook_t bishop_t b (turn b) ms b0 I G) as [_ X].
  destruct (X m Hm) as (Sh & Own & b1' & A' & Chk).
  rewrite A in A'. apply Reach_Ok_inj in A'. subst b1'.
  pose proof (apply_move_turn T m b b1 A) as Et.
  pose proof Sh as (_ & Lt & _).
  split.
  - (* Inv *)
    unfold InvProofs2.Inv. unfold toggle_turn. cbn [turn set_turn]. rewrite Et.
    apply InvC_set_turn.
    exact (legal_move_InvC T rook_t bishop_t b (turn b) m b1 I Sh Own A Chk).
  - destruct (legal_material_apply T m b b1 R Sh A Mw Mb) as [Mw1 Mb1].
    split; [exact Mw1|]. split; [exact Mb1|].
    split; [exact (far_child T d m b b1 F A)|].
    apply KeyInv_toggle_turn_r. exact (apply_move_KeyInv T m b b1 A W Lt K).
Qed.

(** * no Panic, no Err *)

(* the annotated generator answers whenever at least one more ply is to be searched *)
Theorem Sound_gen_total d b : Sound (S d) b -> exists l, gen_annotated b (turn b) = Ok (l, b).
Proof.
  intros (I & _ & _ & F & _).
  exact (gen_annotated_total T rook_t bishop_t b (turn b) I (far_fine1 d b F)).
Qed.

Theorem Sound_gen_moves_total d b : Sound d b -> exists ms, gen_moves b (turn b) = Ok (ms, b).
Proof.
  intros (I & _ & _ & F & _).
  exact (gen_moves_total T rook_t bishop_t b (turn b) I (far_fine0 d b F)).
Qed.

(* the leaf scorer answers for every u8 remaining depth, strictly inside the i16 range *)
Theorem Sound_score_total d b r : Sound d b -> r <= 255 ->
  exists v, score b (turn b) r = Ok (v, b) /\ (I16_MIN < v < I16_MAX)%Z.
Proof.
  intros (I & Mw & Mb & F & _) Lr.
  pose proof F as (_ & _ & Ns & _).
  exact (score_total T rook_t bishop_t b (turn b) r I (far_fine0 d b F) Ns Mw Mb Lr).
Qed.

(* in the form used by the indexed search theorems (SearchIx.v) *)
Corollary Sound_score_ix d b : Sound d b ->
  exists v b', score b (turn b) (N.of_nat d) = Ok (v, b').
Proof.
  intro S. pose proof (Sound_depth_lt_100 d b S) as L.
  destruct (Sound_score_total d b (N.of_nat d) S ltac:(lia)) as (v & E & _).
  exists v, b. exact E.
Qed.

Corollary Sound_score_range_ix d b v b' : Sound d b ->
  score b (turn b) (N.of_nat d) = Ok (v, b') -> (I16_MIN < v < I16_MAX)%Z.
Proof.
  intros S E. pose proof (Sound_depth_lt_100 d b S) as L.
  destruct (Sound_score_total d b (N.of_nat d) S ltac:(lia)) as (v0 & E0 & Rg).
  rewrite E in E0. apply Reach_Ok_inj in E0.
  assert (Ev : v = v0) by exact (f_equal fst E0). subst v0. exact Rg.
Qed.

(** * Sound positions are searchable in the sense of Congr.v *)
Lemma Sound_searchable d b : Sound d b -> searchable d b.
Proof.
  intros (I & _ & _ & F & _).
  pose proof (InvC_Repr rook_t bishop_t b (turn b) I) as R.
  pose proof R as ((W & Ne & Nc & _) & _).
  split; [exact W|]. split; [exact F|]. split; [|split; assumption].
  destruct (InvC_ep rook_t bishop_t b (turn b) I) as [Z|(e & Le & Ee & _)].
  - left. exact Z.
  - right. exists e. split; assumption.
Qed.

(** * an executable check *)
Notation farb := SoundB.farb.

Lemma nonempty_iff {A} (l : list A) : nonempty l = true <-> l <> [].
Proof.
  destruct l as [|x r]; cbn [nonempty]; split; intro H.
  - discriminate H.
  - exfalso. apply H. reflexivity.
  - discriminate.
  - reflexivity.
Qed.

Lemma farb_spec d b : farb d b = true <-> far d b.
Proof.
  unfold SoundB.farb, far. rewrite !andb_true_iff, !nonempty_iff, !N.ltb_lt, negb_true_iff, N.eqb_neq. tauto.
Qed.

Notation soundb := (SoundB.soundb T rook_t bishop_t).

Theorem soundb_spec d b : soundb d b = true <-> Sound d b.
Proof.
  unfold SoundB.soundb, Sound. rewrite !andb_true_iff.
  rewrite (invb_spec rook_t bishop_t b), !legal_materialb_spec, farb_spec, N.eqb_eq.
  unfold KeyInv.
  split.
  - intros ((((I & Mw) & Mb) & F) & K).
    split; [exact I|]. split; [exact Mw|]. split; [exact Mb|]. split; [exact F|exact K].
  - intros (I & Mw & Mb & F & K).
    split; [|exact K]. split; [|exact F]. split; [|exact Mb]. split; [exact I|exact Mw].
Qed.

End Reach.

(* ------------------------------------------------------------------ *)
(** * non-vacuity: the initial position may be searched 4 plies (and 90) *)

Example Sound_initial : Sound example_table rook_ref bishop_ref 4 UndoProofs.start_b.
Proof. apply soundb_spec. vm_compute. reflexivity. Qed.

Example Sound_initial_90 : Sound example_table rook_ref bishop_ref 90 UndoProofs.start_b.
Proof. apply soundb_spec. vm_compute. reflexivity. Qed.

(* ... and the demo position of InvProofs.v (en passant, both castles and promotions available) *)
Definition Reach_demo : board := set_hash inv_demo (key_of example_table (abstract inv_demo)).
Example Sound_demo : Sound example_table rook_ref bishop_ref 4 Reach_demo.
Proof. apply soundb_spec. vm_compute. reflexivity. Qed.

(* the step theorem fires: after 1. e4 the position may be searched 3 plies *)
Example Sound_after_e4 :
  exists b1, apply_move example_table (Std 12 28 None) UndoProofs.start_b = Ok b1
             /\ Sound example_table rook_ref bishop_ref 3 (toggle_turn b1).
Proof.
  destruct (apply_move example_table (Std 12 28 None) UndoProofs.start_b) as [b1| |] eqn:A;
    [|vm_compute in A; discriminate A|vm_compute in A; discriminate A].
  exists b1. split; [reflexivity|].
  destruct (gen_moves example_table rook_ref bishop_ref UndoProofs.start_b (turn UndoProofs.start_b))
    as [[ms b0]| |] eqn:G; [|vm_compute in G; discriminate G|vm_compute in G; discriminate G].
  apply (Sound_step example_table rook_ref bishop_ref 3 UndoProofs.start_b ms b0 (Std 12 28 None) b1
           Sound_initial G); [|exact A].
  assert (X : existsb (cmove_eqb (Std 12 28 None)) ms = true).
  { vm_compute in G. apply Reach_Ok_inj in G.
    assert (Em : ms = fst (ms, b0)) by reflexivity. rewrite Em, <- G. vm_compute. reflexivity. }
  apply existsb_exists in X. destruct X as (m & Hm & E).
  destruct m as [f t cap| | |]; try discriminate E. cbn [cmove_eqb] in E.
  rewrite !andb_true_iff, !N.eqb_eq in E. destruct E as [[-> ->] E].
  destruct cap; [discriminate E|]. exact Hm.
Qed.

Print Assumptions Sound_step.
Print Assumptions Sound_gen_total.
Print Assumptions Sound_score_total.
Print Assumptions soundb_spec.
Print Assumptions Sound_initial.
