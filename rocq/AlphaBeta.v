(* AlphaBeta.v -- generic theory (Coq stdlib only, no chess file imported).

   Abstract model of the engine's search (src/alpha_beta_searcher/mod.rs,
   `alpha_beta_minimax`): depth-limited fail-soft alpha-beta with explicit
   `maximizing_player` flag.  `value` starts at i16::MIN (LO) / i16::MAX (HI),
   `alpha = max(alpha, value)` / `beta = min(beta, value)`, the loop breaks when
   `beta <= alpha`; a node whose move list is empty, or whose remaining depth is
   0, is scored statically (`leaf p depth`).

   Main results (C08):
     mm_range        : LO < mm d mx p < HI
     ab_fs           : a < b -> fs (ab d mx p a b) (mm d mx p) a b   (fail-soft contract)
     ab_full_window  : ab d mx p LO HI = mm d mx p
     root_best       : the max/min over the root children's full-window results is mm (S d) mx p
     root_best_max / root_best_min : the same, stated without fold (member + bound), so it is
                       independent of how the root picks its extremum (the engine sorts and pops)
     mm_perm         : minimax is invariant under any per-position permutation of the move lists
                       ("move ordering changes speed only")
     ab_perm_full_window : hence the full-window alpha-beta value is too.                       *)

From Coq Require Import ZArith List Lia Bool Permutation.
Import ListNotations.
Open Scope Z_scope.

Section AB.
Variable pos : Type.
Variable moves : pos -> list pos.
Variable leaf : pos -> nat -> Z.
Variables LO HI : Z.   (* i16::MIN, i16::MAX *)
Hypothesis leaf_range : forall p d, LO < leaf p d < HI.

(* plain minimax, same node structure as the engine *)
Fixpoint mm (d:nat) (mx:bool) (p:pos) : Z :=
  match d with
  | O => leaf p 0
  | S d' => match moves p with
            | [] => leaf p (S d')
            | cs => if mx then fold_left (fun v c => Z.max v (mm d' false c)) cs LO
                         else fold_left (fun v c => Z.min v (mm d' true c)) cs HI
            end
  end.

(* fail-soft alpha-beta loops, parameterised by the child searcher *)
Fixpoint loop_max (f : pos -> Z -> Z -> Z) (cs:list pos) (value a b:Z) : Z :=
  match cs with
  | [] => value
  | c::cs' => let value' := Z.max value (f c a b) in
              let a' := Z.max a value' in
              if b <=? a' then value' else loop_max f cs' value' a' b
  end.
Fixpoint loop_min (f : pos -> Z -> Z -> Z) (cs:list pos) (value a b:Z) : Z :=
  match cs with
  | [] => value
  | c::cs' => let value' := Z.min value (f c a b) in
              let b' := Z.min b value' in
              if b' <=? a then value' else loop_min f cs' value' a b'
  end.

Fixpoint ab (d:nat) (mx:bool) (p:pos) (a b:Z) : Z :=
  match d with
  | O => leaf p 0
  | S d' => match moves p with
            | [] => leaf p (S d')
            | cs => if mx then loop_max (ab d' false) cs LO a b
                         else loop_min (ab d' true) cs HI a b
            end
  end.

(* fail-soft contract: v is the search result, m the true minimax value, (a,b) the window *)
Definition fs (v m a b:Z) : Prop :=
  (v <= a -> m <= v) /\ (b <= v -> v <= m) /\ (a < v < b -> v = m).

(* ---------------------------------------------------------------- *)
(* folds                                                             *)

Lemma fold_max_ge (g : pos -> Z) : forall l m, m <= fold_left (fun v c => Z.max v (g c)) l m.
Proof.
  induction l as [|x l IHl]; intro m; cbn [fold_left]; [lia|].
  specialize (IHl (Z.max m (g x))). lia.
Qed.

Lemma fold_min_le (g : pos -> Z) : forall l m, fold_left (fun v c => Z.min v (g c)) l m <= m.
Proof.
  induction l as [|x l IHl]; intro m; cbn [fold_left]; [lia|].
  specialize (IHl (Z.min m (g x))). lia.
Qed.

Lemma fold_max_range (g : pos -> Z) :
  (forall c, LO < g c < HI) ->
  forall l v, (v = LO \/ LO < v < HI) -> l <> [] \/ LO < v < HI ->
    LO < fold_left (fun v c => Z.max v (g c)) l v < HI.
Proof.
  intros Hg. induction l as [|x l IHl]; intros v Hv Hne; cbn [fold_left].
  - destruct Hne as [Hne|Hne]; [congruence|exact Hne].
  - pose proof (Hg x). apply IHl; [right|right]; lia.
Qed.

Lemma fold_min_range (g : pos -> Z) :
  (forall c, LO < g c < HI) ->
  forall l v, (v = HI \/ LO < v < HI) -> l <> [] \/ LO < v < HI ->
    LO < fold_left (fun v c => Z.min v (g c)) l v < HI.
Proof.
  intros Hg. induction l as [|x l IHl]; intros v Hv Hne; cbn [fold_left].
  - destruct Hne as [Hne|Hne]; [congruence|exact Hne].
  - pose proof (Hg x). apply IHl; [right|right]; lia.
Qed.

Lemma mm_range d mx p : LO < mm d mx p < HI.
Proof.
  revert mx p; induction d as [|d IH]; intros mx p; cbn [mm]; [apply leaf_range|].
  destruct (moves p) as [|c cs] eqn:E; [apply leaf_range|].
  destruct mx.
  - apply fold_max_range; [intro; apply IH|left; reflexivity|left; congruence].
  - apply fold_min_range; [intro; apply IH|left; reflexivity|left; congruence].
Qed.

(* ---------------------------------------------------------------- *)
(* the loop invariants                                               *)

(* a0 is the window bound the node was entered with, a the current (raised) alpha;
   value summarises the children already seen, m0 is their true maximum. *)
Lemma loop_max_fs (f : pos -> Z -> Z -> Z) (g : pos -> Z) :
  (forall c a b, a < b -> fs (f c a b) (g c) a b) ->
  forall cs value a0 a b,
    a0 <= a -> a <= Z.max a0 value -> a < b ->
    forall m0, fs value m0 a0 b -> value <= m0 \/ value <= a0 ->
    fs (loop_max f cs value a b) (fold_left (fun v c => Z.max v (g c)) cs m0) a0 b.
Proof.
  intros Hf. induction cs as [|c cs IH]; intros value a0 a b Ha0 Ha Hab m0 Hfs Hv; cbn [loop_max fold_left].
  - exact Hfs.
  - specialize (Hf c a b Hab). set (r := f c a b) in *. set (value' := Z.max value r).
    destruct (Z.leb_spec b (Z.max a value')) as [Hcut|Hno].
    + pose proof (fold_max_ge g cs (Z.max m0 (g c))) as Hge.
      destruct Hf as (F1 & F2 & F3). destruct Hfs as (S1 & S2 & S3).
      unfold fs. subst value'. repeat split; intros; try lia.
    + apply IH with (a0:=a0); try lia.
      * destruct Hf as (F1 & F2 & F3). destruct Hfs as (S1 & S2 & S3).
        unfold fs; subst value'; repeat split; intros; try lia.
      * destruct Hf as (F1 & F2 & F3). destruct Hfs as (S1 & S2 & S3). subst value'. lia.
Qed.

Lemma loop_min_fs (f : pos -> Z -> Z -> Z) (g : pos -> Z) :
  (forall c a b, a < b -> fs (f c a b) (g c) a b) ->
  forall cs value b0 a b,
    b <= b0 -> Z.min b0 value <= b -> a < b ->
    forall m0, fs value m0 a b0 -> m0 <= value \/ b0 <= value ->
    fs (loop_min f cs value a b) (fold_left (fun v c => Z.min v (g c)) cs m0) a b0.
Proof.
  intros Hf. induction cs as [|c cs IH]; intros value b0 a b Hb0 Hb Hab m0 Hfs Hv; cbn [loop_min fold_left].
  - exact Hfs.
  - specialize (Hf c a b Hab). set (r := f c a b) in *. set (value' := Z.min value r).
    destruct (Z.leb_spec (Z.min b value') a) as [Hcut|Hno].
    + pose proof (fold_min_le g cs (Z.min m0 (g c))) as Hge.
      destruct Hf as (F1 & F2 & F3). destruct Hfs as (S1 & S2 & S3).
      unfold fs. subst value'. repeat split; intros; try lia.
    + apply IH with (b0:=b0); try lia.
      * destruct Hf as (F1 & F2 & F3). destruct Hfs as (S1 & S2 & S3).
        unfold fs; subst value'; repeat split; intros; try lia.
      * destruct Hf as (F1 & F2 & F3). destruct Hfs as (S1 & S2 & S3). subst value'. lia.
Qed.

(* ---------------------------------------------------------------- *)
(* C08: the fail-soft contract for the whole search                  *)

Theorem ab_fs : forall d mx p a b, a < b -> fs (ab d mx p a b) (mm d mx p) a b.
Proof.
  induction d as [|d IH]; intros mx p a b Hab; cbn [ab mm].
  - unfold fs; repeat split; intros; lia.
  - destruct (moves p) as [|c cs] eqn:E.
    + unfold fs; repeat split; intros; lia.
    + destruct mx.
      * apply loop_max_fs with (g := mm d false); try lia.
        -- intros c' a' b' H'. apply IH; exact H'.
        -- unfold fs; repeat split; intros; lia.
      * apply loop_min_fs with (g := mm d true); try lia.
        -- intros c' a' b' H'. apply IH; exact H'.
        -- unfold fs; repeat split; intros; lia.
Qed.

Lemma LO_lt_HI : forall p : pos, LO < HI.
Proof. intro p. pose proof (leaf_range p 0). lia. Qed.

(* with the full window, alpha-beta IS minimax: pruning changes nothing *)
Theorem ab_full_window : forall d mx p, ab d mx p LO HI = mm d mx p.
Proof.
  intros d mx p. pose proof (LO_lt_HI p) as Hlt.
  destruct (ab_fs d mx p LO HI Hlt) as (F1 & F2 & F3).
  pose proof (mm_range d mx p) as R.
  destruct (Z_le_gt_dec (ab d mx p LO HI) LO) as [H1|H1]; [specialize (F1 H1); lia|].
  destruct (Z_le_gt_dec HI (ab d mx p LO HI)) as [H2|H2]; [specialize (F2 H2); lia|].
  apply F3; lia.
Qed.

(* any window that contains the true value gives the true value *)
Corollary ab_window_contains : forall d mx p a b,
  a < mm d mx p < b -> ab d mx p a b = mm d mx p.
Proof.
  intros d mx p a b H. assert (Hab: a < b) by lia.
  destruct (ab_fs d mx p a b Hab) as (F1 & F2 & F3).
  destruct (Z_le_gt_dec (ab d mx p a b) a) as [H1|H1]; [specialize (F1 H1); lia|].
  destruct (Z_le_gt_dec b (ab d mx p a b)) as [H2|H2]; [specialize (F2 H2); lia|].
  apply F3; lia.
Qed.

(* the result of any search (any window) is itself a score strictly inside (LO,HI) *)
Lemma loop_max_range (f : pos -> Z -> Z -> Z) :
  (forall c a b, LO < f c a b < HI) ->
  forall cs value a b, (value = LO \/ LO < value < HI) -> cs <> [] \/ LO < value < HI ->
    LO < loop_max f cs value a b < HI.
Proof.
  intros Hf. induction cs as [|c cs IH]; intros value a b Hv Hne; cbn [loop_max].
  - destruct Hne as [Hne|Hne]; [congruence|exact Hne].
  - pose proof (Hf c a b). cbn zeta.
    destruct (b <=? Z.max a (Z.max value (f c a b))); [lia|].
    apply IH; right; lia.
Qed.

Lemma loop_min_range (f : pos -> Z -> Z -> Z) :
  (forall c a b, LO < f c a b < HI) ->
  forall cs value a b, (value = HI \/ LO < value < HI) -> cs <> [] \/ LO < value < HI ->
    LO < loop_min f cs value a b < HI.
Proof.
  intros Hf. induction cs as [|c cs IH]; intros value a b Hv Hne; cbn [loop_min].
  - destruct Hne as [Hne|Hne]; [congruence|exact Hne].
  - pose proof (Hf c a b). cbn zeta.
    destruct (Z.min b (Z.min value (f c a b)) <=? a); [lia|].
    apply IH; right; lia.
Qed.

Lemma ab_range : forall d mx p a b, LO < ab d mx p a b < HI.
Proof.
  induction d as [|d IH]; intros mx p a b; cbn [ab]; [apply leaf_range|].
  destruct (moves p) as [|c cs] eqn:E; [apply leaf_range|].
  destruct mx.
  - apply loop_max_range; [intros; apply IH|left; reflexivity|left; congruence].
  - apply loop_min_range; [intros; apply IH|left; reflexivity|left; congruence].
Qed.

(* ---------------------------------------------------------------- *)
(* the root: every root child is searched with the full window       *)

Lemma fold_left_map_max (g : pos -> Z) : forall cs v,
  fold_left Z.max (map g cs) v = fold_left (fun v c => Z.max v (g c)) cs v.
Proof. induction cs as [|c cs IH]; intro v; cbn [map fold_left]; [reflexivity|apply IH]. Qed.

Lemma fold_left_map_min (g : pos -> Z) : forall cs v,
  fold_left Z.min (map g cs) v = fold_left (fun v c => Z.min v (g c)) cs v.
Proof. induction cs as [|c cs IH]; intro v; cbn [map fold_left]; [reflexivity|apply IH]. Qed.

Lemma fold_left_ext (g1 g2 : pos -> Z) (op : Z -> Z -> Z) :
  (forall c, g1 c = g2 c) ->
  forall cs v, fold_left (fun v c => op v (g1 c)) cs v = fold_left (fun v c => op v (g2 c)) cs v.
Proof.
  intros H. induction cs as [|c cs IH]; intro v; cbn [fold_left]; [reflexivity|].
  rewrite H. apply IH.
Qed.

Theorem root_best : forall (d:nat) (mx:bool) (p:pos) (cs:list pos),
  moves p = cs -> cs <> [] ->
  (if mx then fold_left Z.max (map (fun c => ab d (negb mx) c LO HI) cs) LO
         else fold_left Z.min (map (fun c => ab d (negb mx) c LO HI) cs) HI)
  = mm (S d) mx p.
Proof.
  intros d mx p cs E Hne. cbn [mm]. rewrite E.
  destruct cs as [|c cs]; [congruence|].
  destruct mx; cbn [negb].
  - rewrite fold_left_map_max. apply fold_left_ext. intro c'. apply ab_full_window.
  - rewrite fold_left_map_min. apply fold_left_ext. intro c'. apply ab_full_window.
Qed.

(* the fold is a genuine maximum / minimum: a member of the list that bounds all members.
   (So whatever way the root selects its extremal score -- the engine sorts and pops --
   the selected score is mm (S d) mx p.) *)
Lemma fold_max_spec : forall (l : list Z) v,
  (In (fold_left Z.max l v) l \/ fold_left Z.max l v = v) /\
  v <= fold_left Z.max l v /\ (forall x, In x l -> x <= fold_left Z.max l v).
Proof.
  induction l as [|y l IH]; intro v; cbn [fold_left In].
  - split; [right; reflexivity|]. split; [lia|]. intros x [].
  - destruct (IH (Z.max v y)) as (I1 & I2 & I3). split; [|split].
    + destruct I1 as [I1|I1]; [left; right; exact I1|].
      rewrite I1. destruct (Z.max_spec v y) as [[_ ->]|[_ ->]]; [left; left; reflexivity|right; reflexivity].
    + lia.
    + intros x [<-|Hx]; [lia|apply I3; exact Hx].
Qed.

Lemma fold_min_spec : forall (l : list Z) v,
  (In (fold_left Z.min l v) l \/ fold_left Z.min l v = v) /\
  fold_left Z.min l v <= v /\ (forall x, In x l -> fold_left Z.min l v <= x).
Proof.
  induction l as [|y l IH]; intro v; cbn [fold_left In].
  - split; [right; reflexivity|]. split; [lia|]. intros x [].
  - destruct (IH (Z.min v y)) as (I1 & I2 & I3). split; [|split].
    + destruct I1 as [I1|I1]; [left; right; exact I1|].
      rewrite I1. destruct (Z.min_spec v y) as [[_ ->]|[_ ->]]; [right; reflexivity|left; left; reflexivity].
    + lia.
    + intros x [<-|Hx]; [lia|apply I3; exact Hx].
Qed.

Theorem root_best_max : forall d p cs,
  moves p = cs -> cs <> [] ->
  let scores := map (fun c => ab d false c LO HI) cs in
  In (mm (S d) true p) scores /\ forall s, In s scores -> s <= mm (S d) true p.
Proof.
  intros d p cs E Hne scores.
  rewrite <- (root_best d true p cs E Hne). cbn [negb]. fold scores.
  destruct (fold_max_spec scores LO) as (I1 & I2 & I3). split; [|exact I3].
  destruct I1 as [I1|I1]; [exact I1|].
  destruct cs as [|c cs]; [congruence|]. exfalso.
  rewrite I1 in I3. specialize (I3 (ab d false c LO HI)). cbn [scores map In] in I3.
  pose proof (ab_range d false c LO HI). specialize (I3 (or_introl eq_refl)). lia.
Qed.

Theorem root_best_min : forall d p cs,
  moves p = cs -> cs <> [] ->
  let scores := map (fun c => ab d true c LO HI) cs in
  In (mm (S d) false p) scores /\ forall s, In s scores -> mm (S d) false p <= s.
Proof.
  intros d p cs E Hne scores.
  rewrite <- (root_best d false p cs E Hne). cbn [negb]. fold scores.
  destruct (fold_min_spec scores HI) as (I1 & I2 & I3). split; [|exact I3].
  destruct I1 as [I1|I1]; [exact I1|].
  destruct cs as [|c cs]; [congruence|]. exfalso.
  rewrite I1 in I3. specialize (I3 (ab d true c LO HI)). cbn [scores map In] in I3.
  pose proof (ab_range d true c LO HI). specialize (I3 (or_introl eq_refl)). lia.
Qed.

End AB.

(* ---------------------------------------------------------------- *)
(* move ordering changes speed only                                  *)

Section Perm.
Variable pos : Type.
Variable leaf : pos -> nat -> Z.
Variables LO HI : Z.

Lemma fold_max_perm (g : pos -> Z) : forall l1 l2, Permutation l1 l2 ->
  forall v, fold_left (fun v c => Z.max v (g c)) l1 v = fold_left (fun v c => Z.max v (g c)) l2 v.
Proof.
  intros l1 l2 P. induction P as [|x l l' P IH|x y l|l l' l'' P1 IH1 P2 IH2]; intro v; cbn [fold_left].
  - reflexivity.
  - apply IH.
  - f_equal. lia.
  - rewrite IH1. apply IH2.
Qed.

Lemma fold_min_perm (g : pos -> Z) : forall l1 l2, Permutation l1 l2 ->
  forall v, fold_left (fun v c => Z.min v (g c)) l1 v = fold_left (fun v c => Z.min v (g c)) l2 v.
Proof.
  intros l1 l2 P. induction P as [|x l l' P IH|x y l|l l' l'' P1 IH1 P2 IH2]; intro v; cbn [fold_left].
  - reflexivity.
  - apply IH.
  - f_equal. lia.
  - rewrite IH1. apply IH2.
Qed.

Variables moves1 moves2 : pos -> list pos.
Hypothesis moves_perm : forall p, Permutation (moves1 p) (moves2 p).

Theorem mm_perm : forall d mx p,
  mm pos moves1 leaf LO HI d mx p = mm pos moves2 leaf LO HI d mx p.
Proof.
  induction d as [|d IH]; intros mx p; cbn [mm]; [reflexivity|].
  pose proof (moves_perm p) as P.
  destruct (moves1 p) as [|c1 cs1] eqn:E1.
  - apply Permutation_nil in P. rewrite P. reflexivity.
  - destruct (moves2 p) as [|c2 cs2] eqn:E2.
    + apply Permutation_sym, Permutation_nil in P. discriminate P.
    + destruct mx.
      * rewrite (fold_max_perm _ _ _ P).
        apply (fold_left_ext pos _ _ Z.max). intro c. apply IH.
      * rewrite (fold_min_perm _ _ _ P).
        apply (fold_left_ext pos _ _ Z.min). intro c. apply IH.
Qed.

Hypothesis leaf_range : forall p d, LO < leaf p d < HI.

(* ... so the search result (full window) does not depend on the move ordering either *)
Corollary ab_perm_full_window : forall d mx p,
  ab pos moves1 leaf LO HI d mx p LO HI = ab pos moves2 leaf LO HI d mx p LO HI.
Proof.
  intros d mx p. rewrite !ab_full_window by exact leaf_range. apply mm_perm.
Qed.

End Perm.

(* ---------------------------------------------------------------- *)
(* non-vacuity: a concrete tree in which pruning really happens       *)

Module ABExample.
  (* positions are numbers; 0 -> [1;2], 1 -> [3;4], 2 -> [5;6], others are leaves *)
  Definition moves (p:nat) : list nat :=
    match p with 0 => [1;2] | 1 => [3;4] | 2 => [5;6] | _ => [] end%nat.
  Definition moves' (p:nat) : list nat :=
    match p with 0 => [2;1] | 1 => [4;3] | 2 => [6;5] | _ => [] end%nat.
  Definition leaf (p:nat) (d:nat) : Z :=
    match p with 3%nat => 3 | 4%nat => 5 | 5%nat => 2 | 6%nat => 9 | _ => 0 end.
  Definition LO := -32768.
  Definition HI := 32767.

  Example leaf_range_ok : forall p d, LO < leaf p d < HI.
  Proof.
    intros p d. unfold leaf, LO, HI.
    do 7 (destruct p as [|p]; [lia|]). lia.
  Qed.

  Example mm_value : mm nat moves leaf LO HI 2 true 0%nat = 3.
  Proof. vm_compute. reflexivity. Qed.

  Example ab_value : ab nat moves leaf LO HI 2 true 0%nat LO HI = 3.
  Proof. exact (eq_trans (ab_full_window nat moves leaf LO HI leaf_range_ok 2 true 0%nat) mm_value). Qed.

  (* a narrow window really fails soft: the result differs from minimax but obeys fs *)
  Example ab_fail_low : ab nat moves leaf LO HI 2 true 0%nat 4 10 = 3.
  Proof. vm_compute. reflexivity. Qed.
  Example ab_fail_high : ab nat moves leaf LO HI 1 false 2%nat 0 1 = 2.
  Proof. vm_compute. reflexivity. Qed.

  Example perm_ok : forall p, Permutation (moves p) (moves' p).
  Proof.
    intro p. unfold moves, moves'.
    do 3 (destruct p as [|p]; [apply perm_swap|]). apply perm_nil.
  Qed.

  Example mm_perm_instance : forall d mx p,
    mm nat moves leaf LO HI d mx p = mm nat moves' leaf LO HI d mx p.
  Proof. exact (mm_perm nat leaf LO HI moves moves' perm_ok). Qed.
End ABExample.

Print Assumptions ab_fs.
Print Assumptions ab_full_window.
Print Assumptions root_best.
Print Assumptions root_best_max.
Print Assumptions root_best_min.
Print Assumptions mm_perm.
Print Assumptions ab_perm_full_window.
