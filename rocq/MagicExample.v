(* MagicExample.v — non-vacuity witness for MagicProofs.magic_lookup_exact: the 128 entries
   produced by one real run of the build script (precompile, random multipliers) satisfy
   entries_valid.  (The check driver evaluates entries_valid on the entries of every fresh build;
   this file fixes one accepted draw so that the theorem's premise is known to be satisfiable.) *)
From Coq Require Import NArith List.
From ChessV Require Import Bits Rays Magic MagicProofs.
Open Scope N_scope.

Definition sample_rook_entries : list mentry :=
  [{| m_mask := 282578800148862; m_magic := 4071263410065510432; m_shift := 52; m_offset := 0 |};
   {| m_mask := 565157600297596; m_magic := 4917930930528583748; m_shift := 53; m_offset := 4096 |};
   {| m_mask := 1130315200595066; m_magic := 144132816240656896; m_shift := 53; m_offset := 6144 |};
   {| m_mask := 2260630401190006; m_magic := 1801444317731002400; m_shift := 53; m_offset := 8192 |};
   {| m_mask := 4521260802379886; m_magic := 2377903901854681088; m_shift := 53; m_offset := 10240 |};
   {| m_mask := 9042521604759646; m_magic := 432354446253527824; m_shift := 53; m_offset := 12288 |};
   {| m_mask := 18085043209519166; m_magic := 36029346858664448; m_shift := 53; m_offset := 14336 |};
   {| m_mask := 36170086419038334; m_magic := 72057869528335616; m_shift := 52; m_offset := 16384 |};
   {| m_mask := 282578800180736; m_magic := 4644339368067170; m_shift := 53; m_offset := 20480 |};
   {| m_mask := 565157600328704; m_magic := 2887511186029414528; m_shift := 54; m_offset := 22528 |};
   {| m_mask := 1130315200625152; m_magic := 1689126886973952; m_shift := 54; m_offset := 23552 |};
   {| m_mask := 2260630401218048; m_magic := 5764889341625114632; m_shift := 54; m_offset := 24576 |};
   {| m_mask := 4521260802403840; m_magic := 1153906684241379456; m_shift := 54; m_offset := 25600 |};
   {| m_mask := 9042521604775424; m_magic := 1459729384113488384; m_shift := 54; m_offset := 26624 |};
   {| m_mask := 18085043209518592; m_magic := 1153203125612709120; m_shift := 54; m_offset := 27648 |};
   {| m_mask := 36170086419037696; m_magic := 72620561175483010; m_shift := 53; m_offset := 28672 |};
   {| m_mask := 282578808340736; m_magic := 581246926964392769; m_shift := 53; m_offset := 30720 |};
   {| m_mask := 565157608292864; m_magic := 709735292616720; m_shift := 54; m_offset := 32768 |};
   {| m_mask := 1130315208328192; m_magic := 306386062442237952; m_shift := 54; m_offset := 33792 |};
   {| m_mask := 2260630408398848; m_magic := 4613942766311876736; m_shift := 54; m_offset := 34816 |};
   {| m_mask := 4521260808540160; m_magic := 5630049961148452; m_shift := 54; m_offset := 35840 |};
   {| m_mask := 9042521608822784; m_magic := 2325124594907751424; m_shift := 54; m_offset := 36864 |};
   {| m_mask := 18085043209388032; m_magic := 2323861805805946896; m_shift := 54; m_offset := 37888 |};
   {| m_mask := 36170086418907136; m_magic := 72165346181678081; m_shift := 53; m_offset := 38912 |};
   {| m_mask := 282580897300736; m_magic := 14988124843600265240; m_shift := 53; m_offset := 40960 |};
   {| m_mask := 565159647117824; m_magic := 1157708919972300932; m_shift := 54; m_offset := 43008 |};
   {| m_mask := 1130317180306432; m_magic := 22518554341409328; m_shift := 54; m_offset := 44032 |};
   {| m_mask := 2260632246683648; m_magic := 612530235548127232; m_shift := 54; m_offset := 45056 |};
   {| m_mask := 4521262379438080; m_magic := 288234776354097152; m_shift := 54; m_offset := 46080 |};
   {| m_mask := 9042522644946944; m_magic := 2201179128832; m_shift := 54; m_offset := 47104 |};
   {| m_mask := 18085043175964672; m_magic := 1193561842372315265; m_shift := 54; m_offset := 48128 |};
   {| m_mask := 36170086385483776; m_magic := 2396055749990236416; m_shift := 53; m_offset := 49152 |};
   {| m_mask := 283115671060736; m_magic := 7207457329019625600; m_shift := 53; m_offset := 51200 |};
   {| m_mask := 565681586307584; m_magic := 844564667580417; m_shift := 54; m_offset := 53248 |};
   {| m_mask := 1130822006735872; m_magic := 282711944085649; m_shift := 54; m_offset := 54272 |};
   {| m_mask := 2261102847592448; m_magic := 1729417476749398528; m_shift := 54; m_offset := 55296 |};
   {| m_mask := 4521664529305600; m_magic := 140771856499713; m_shift := 54; m_offset := 56320 |};
   {| m_mask := 9042787892731904; m_magic := 36033197221351936; m_shift := 54; m_offset := 57344 |};
   {| m_mask := 18085034619584512; m_magic := 562967972168456; m_shift := 54; m_offset := 58368 |};
   {| m_mask := 36170077829103616; m_magic := 4647858044049293995; m_shift := 53; m_offset := 59392 |};
   {| m_mask := 420017753620736; m_magic := 595744262111395840; m_shift := 53; m_offset := 61440 |};
   {| m_mask := 699298018886144; m_magic := 4503737070534676; m_shift := 54; m_offset := 63488 |};
   {| m_mask := 1260057572672512; m_magic := 11541037143279665168; m_shift := 54; m_offset := 64512 |};
   {| m_mask := 2381576680245248; m_magic := 16492957920264208; m_shift := 54; m_offset := 65536 |};
   {| m_mask := 4624614895390720; m_magic := 2253451698405384; m_shift := 54; m_offset := 66560 |};
   {| m_mask := 9110691325681664; m_magic := 563156181188632; m_shift := 54; m_offset := 67584 |};
   {| m_mask := 18082844186263552; m_magic := 85569503437783048; m_shift := 54; m_offset := 68608 |};
   {| m_mask := 36167887395782656; m_magic := 693836986907230212; m_shift := 53; m_offset := 69632 |};
   {| m_mask := 35466950888980736; m_magic := 9241527225466037376; m_shift := 53; m_offset := 71680 |};
   {| m_mask := 34905104758997504; m_magic := 4610288775201280; m_shift := 54; m_offset := 73728 |};
   {| m_mask := 34344362452452352; m_magic := 1164198921031975168; m_shift := 54; m_offset := 74752 |};
   {| m_mask := 33222877839362048; m_magic := 11565261439568978176; m_shift := 54; m_offset := 75776 |};
   {| m_mask := 30979908613181440; m_magic := 4611828972119392384; m_shift := 54; m_offset := 76800 |};
   {| m_mask := 26493970160820224; m_magic := 4900479414462841344; m_shift := 54; m_offset := 77824 |};
   {| m_mask := 17522093256097792; m_magic := 1301542528126813184; m_shift := 54; m_offset := 78848 |};
   {| m_mask := 35607136465616896; m_magic := 1730508470375681536; m_shift := 53; m_offset := 79872 |};
   {| m_mask := 9079539427579068672; m_magic := 71470403317793; m_shift := 52; m_offset := 81920 |};
   {| m_mask := 8935706818303361536; m_magic := 2882876608150012450; m_shift := 53; m_offset := 86016 |};
   {| m_mask := 8792156787827803136; m_magic := 11529286552980037633; m_shift := 53; m_offset := 88064 |};
   {| m_mask := 8505056726876686336; m_magic := 9513009927744914441; m_shift := 53; m_offset := 90112 |};
   {| m_mask := 7930856604974452736; m_magic := 9584223165844031530; m_shift := 53; m_offset := 92160 |};
   {| m_mask := 6782456361169985536; m_magic := 4900760836698014209; m_shift := 53; m_offset := 94208 |};
   {| m_mask := 4485655873561051136; m_magic := 846643332648964; m_shift := 53; m_offset := 96256 |};
   {| m_mask := 9115426935197958144; m_magic := 139653611586; m_shift := 52; m_offset := 98304 |}].

Definition sample_bishop_entries : list mentry :=
  [{| m_mask := 18049651735527936; m_magic := 577028104665502208; m_shift := 58; m_offset := 0 |};
   {| m_mask := 70506452091904; m_magic := 76562602557211716; m_shift := 59; m_offset := 64 |};
   {| m_mask := 275415828992; m_magic := 3535326259540328592; m_shift := 59; m_offset := 96 |};
   {| m_mask := 1075975168; m_magic := 27189827340337664; m_shift := 59; m_offset := 128 |};
   {| m_mask := 38021120; m_magic := 9226789456437116960; m_shift := 59; m_offset := 160 |};
   {| m_mask := 8657588224; m_magic := 27237240020140040; m_shift := 59; m_offset := 192 |};
   {| m_mask := 2216338399232; m_magic := 288305297632657408; m_shift := 59; m_offset := 224 |};
   {| m_mask := 567382630219776; m_magic := 13584483359916544; m_shift := 58; m_offset := 256 |};
   {| m_mask := 9024825867763712; m_magic := 17729658826848; m_shift := 59; m_offset := 320 |};
   {| m_mask := 18049651735527424; m_magic := 35188683899152; m_shift := 59; m_offset := 352 |};
   {| m_mask := 70506452221952; m_magic := 615743701983232; m_shift := 59; m_offset := 384 |};
   {| m_mask := 275449643008; m_magic := 45044818141286465; m_shift := 59; m_offset := 416 |};
   {| m_mask := 9733406720; m_magic := 185228711514081281; m_shift := 59; m_offset := 448 |};
   {| m_mask := 2216342585344; m_magic := 1126484093714688; m_shift := 59; m_offset := 480 |};
   {| m_mask := 567382630203392; m_magic := 18014690634678306; m_shift := 59; m_offset := 512 |};
   {| m_mask := 1134765260406784; m_magic := 109214492176943104; m_shift := 59; m_offset := 544 |};
   {| m_mask := 4512412933816832; m_magic := 2343160503922198560; m_shift := 59; m_offset := 576 |};
   {| m_mask := 9024825867633664; m_magic := 4503621169840192; m_shift := 59; m_offset := 608 |};
   {| m_mask := 18049651768822272; m_magic := 74310562460209168; m_shift := 57; m_offset := 640 |};
   {| m_mask := 70515108615168; m_magic := 2251821410222144; m_shift := 57; m_offset := 768 |};
   {| m_mask := 2491752130560; m_magic := 1166581854260690944; m_shift := 57; m_offset := 896 |};
   {| m_mask := 567383701868544; m_magic := 9583801878539665920; m_shift := 57; m_offset := 1024 |};
   {| m_mask := 1134765256220672; m_magic := 2306969467835532816; m_shift := 59; m_offset := 1152 |};
   {| m_mask := 2269530512441344; m_magic := 290273226166352; m_shift := 59; m_offset := 1184 |};
   {| m_mask := 2256206450263040; m_magic := 9246101142436447232; m_shift := 59; m_offset := 1216 |};
   {| m_mask := 4512412900526080; m_magic := 1733930106486944; m_shift := 59; m_offset := 1248 |};
   {| m_mask := 9024834391117824; m_magic := 590007286723248512; m_shift := 57; m_offset := 1280 |};
   {| m_mask := 18051867805491712; m_magic := 2278188369707010; m_shift := 55; m_offset := 1408 |};
   {| m_mask := 637888545440768; m_magic := 2450240771781115904; m_shift := 55; m_offset := 1920 |};
   {| m_mask := 1135039602493440; m_magic := 6919784264536031488; m_shift := 57; m_offset := 2432 |};
   {| m_mask := 2269529440784384; m_magic := 4645436929868292; m_shift := 59; m_offset := 2560 |};
   {| m_mask := 4539058881568768; m_magic := 9223673577935525896; m_shift := 59; m_offset := 2592 |};
   {| m_mask := 1128098963916800; m_magic := 6764470445933568; m_shift := 59; m_offset := 2624 |};
   {| m_mask := 2256197927833600; m_magic := 289937986463027208; m_shift := 59; m_offset := 2656 |};
   {| m_mask := 4514594912477184; m_magic := 2328503137550208002; m_shift := 57; m_offset := 2688 |};
   {| m_mask := 9592139778506752; m_magic := 9224780549909381184; m_shift := 55; m_offset := 2816 |};
   {| m_mask := 19184279556981248; m_magic := 289360691284939008; m_shift := 55; m_offset := 3328 |};
   {| m_mask := 2339762086609920; m_magic := 1153484768161169536; m_shift := 57; m_offset := 3840 |};
   {| m_mask := 4538784537380864; m_magic := 4505253328749568; m_shift := 59; m_offset := 3968 |};
   {| m_mask := 9077569074761728; m_magic := 9705408938178560785; m_shift := 59; m_offset := 4000 |};
   {| m_mask := 562958610993152; m_magic := 2378331667933184000; m_shift := 59; m_offset := 4032 |};
   {| m_mask := 1125917221986304; m_magic := 76776767066473480; m_shift := 59; m_offset := 4064 |};
   {| m_mask := 2814792987328512; m_magic := 720593607995951107; m_shift := 57; m_offset := 4096 |};
   {| m_mask := 5629586008178688; m_magic := 2882304045119225984; m_shift := 57; m_offset := 4224 |};
   {| m_mask := 11259172008099840; m_magic := 4683823056492220434; m_shift := 57; m_offset := 4352 |};
   {| m_mask := 22518341868716544; m_magic := 18298074673709568; m_shift := 57; m_offset := 4480 |};
   {| m_mask := 9007336962655232; m_magic := 1297602168093672464; m_shift := 59; m_offset := 4608 |};
   {| m_mask := 18014673925310464; m_magic := 578721361191518240; m_shift := 59; m_offset := 4640 |};
   {| m_mask := 2216338399232; m_magic := 576532306747998217; m_shift := 59; m_offset := 4672 |};
   {| m_mask := 4432676798464; m_magic := 144258129687906314; m_shift := 59; m_offset := 4704 |};
   {| m_mask := 11064376819712; m_magic := 288262264270897408; m_shift := 59; m_offset := 4736 |};
   {| m_mask := 22137335185408; m_magic := 4645550511368192; m_shift := 59; m_offset := 4768 |};
   {| m_mask := 44272556441600; m_magic := 2488819409846665224; m_shift := 59; m_offset := 4800 |};
   {| m_mask := 87995357200384; m_magic := 360323292038464512; m_shift := 59; m_offset := 4832 |};
   {| m_mask := 35253226045952; m_magic := 9323863050092633; m_shift := 59; m_offset := 4864 |};
   {| m_mask := 70506452091904; m_magic := 9608117155299341; m_shift := 59; m_offset := 4896 |};
   {| m_mask := 567382630219776; m_magic := 282608881714176; m_shift := 58; m_offset := 4928 |};
   {| m_mask := 1134765260406784; m_magic := 141058705465349; m_shift := 59; m_offset := 4992 |};
   {| m_mask := 2832480465846272; m_magic := 39587074904066; m_shift := 59; m_offset := 5024 |};
   {| m_mask := 5667157807464448; m_magic := 5190398570582376964; m_shift := 59; m_offset := 5056 |};
   {| m_mask := 11333774449049600; m_magic := 72180739610903040; m_shift := 59; m_offset := 5088 |};
   {| m_mask := 22526811443298304; m_magic := 22042515079682; m_shift := 59; m_offset := 5120 |};
   {| m_mask := 9024825867763712; m_magic := 4467034554496; m_shift := 59; m_offset := 5152 |};
   {| m_mask := 18049651735527936; m_magic := 4918572912191083010; m_shift := 58; m_offset := 5184 |}].

Example sample_rook_entries_valid : entries_valid rook_deltas sample_rook_entries = true.
Proof. vm_cast_no_check (eq_refl true). Time Qed.

Example sample_bishop_entries_valid : entries_valid bishop_deltas sample_bishop_entries = true.
Proof. vm_cast_no_check (eq_refl true). Time Qed.

(* the C11 theorems instantiated on that draw *)
Theorem sample_rook_lookup sq occ : sq < 64 ->
  magic_rook sample_rook_entries sq occ = rook_ref sq occ.
Proof. apply rook_lookup_exact, sample_rook_entries_valid. Qed.

Theorem sample_bishop_lookup sq occ : sq < 64 ->
  magic_bishop sample_bishop_entries sq occ = bishop_ref sq occ.
Proof. apply bishop_lookup_exact, sample_bishop_entries_valid. Qed.

Theorem sample_queen_lookup sq occ : sq < 64 ->
  magic_queen sample_rook_entries sample_bishop_entries sq occ
  = N.lor (rook_ref sq occ) (bishop_ref sq occ).
Proof.
  apply queen_lookup_exact; [apply sample_rook_entries_valid|apply sample_bishop_entries_valid].
Qed.

(* the table sizes written by the build script: ROOK_TABLE_SIZE, BISHOP_TABLE_SIZE *)
Example sample_table_sizes :
  table_size sample_rook_entries = 102400 /\ table_size sample_bishop_entries = 5248.
Proof. vm_compute. split; reflexivity. Qed.

Print Assumptions sample_queen_lookup.
