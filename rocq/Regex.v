(* Regex.v — the regular-expression subset used by src/input_handler/mod.rs, with an
   executable anchored matcher (language membership; `^...$` in the source). *)
From Coq Require Export String Ascii Bool List.
Import ListNotations.

Inductive regex :=
| REps
| RCls (chars : string)            (* one character out of a class *)
| RSeq (a b : regex)
| RAlt (a b : regex)
| ROpt (a : regex).

Fixpoint in_class (c : ascii) (cs : string) : bool :=
  match cs with
  | EmptyString => false
  | String d r => Ascii.eqb c d || in_class c r
  end.

(* continuation-passing matcher, structural in the regex *)
Fixpoint matches (r : regex) (s : string) (k : string -> bool) : bool :=
  match r with
  | REps => k s
  | RCls cs => match s with
               | String c rest => if in_class c cs then k rest else false
               | EmptyString => false
               end
  | RSeq a b => matches a s (fun s' => matches b s' k)
  | RAlt a b => matches a s k || matches b s k
  | ROpt a => matches a s k || k s
  end.

Definition is_empty_string (s : string) : bool := match s with EmptyString => true | _ => false end.
Definition full_match (r : regex) (s : string) : bool := matches r s is_empty_string.
