(* ZobristProofs.v — property C05: the incrementally maintained position key
   [hash b] is a pure function of the position ([key_of T (abstract b)]), for EVERY
   Zobrist table T (the "every build" quantifier), through every board primitive and
   through apply_move / undo_move; and for a table with distinct constants the key
   separates positions that differ in one cell, in the castling rights, or in the
   en-passant target. *)
From Coq Require Import Lia.
From ChessV Require Import Abs.
From ChessV Require Export BoardLemmas.
From ChessV Require Rules.


(* ------------------------------------------------------------------ *)
(** * XOR algebra *)

Lemma lxor_inj_l a x y : N.lxor a x = N.lxor a y -> x = y.
Proof.
  intro H. rewrite <- (N.lxor_0_l x), <- (N.lxor_nilpotent a), N.lxor_assoc, H,
    <- N.lxor_assoc, N.lxor_nilpotent, N.lxor_0_l. reflexivity.
Qed.

Lemma lxor_move h' s' h s : N.lxor h' s' = N.lxor h s -> h' = N.lxor (N.lxor h s) s'.
Proof. intro H. rewrite <- H. symmetry. apply lxor_lxor_cancel. Qed.

Lemma lxor_inj_3l a b e p : N.lxor (N.lxor a e) p = N.lxor (N.lxor b e) p -> a = b.
Proof.
  intro H. transitivity (N.lxor (N.lxor (N.lxor a e) p) (N.lxor e p)); [xor_cancel|].
  rewrite H. xor_cancel.
Qed.

Lemma lxor_inj_3m a e1 e2 p : N.lxor (N.lxor a e1) p = N.lxor (N.lxor a e2) p -> e1 = e2.
Proof.
  intro H. transitivity (N.lxor (N.lxor (N.lxor a e1) p) (N.lxor a p)); [xor_cancel|].
  rewrite H. xor_cancel.
Qed.

Section Key.
Variable T : ztable.

(* the constant a cell contributes to the key *)
Definition cellk (i : N) (c : option (piece * color)) : N :=
  match c with Some (pc, col) => zp T pc i col | None => 0 end.

(* the fold of [key_of], over an arbitrary mailbox function and square list *)
Definition xfold (g : N -> option (piece * color)) (l : list N) (h : N) : N :=
  fold_left (fun h i => match g i with
                        | Some (pc, c) => N.lxor h (zp T pc i c)
                        | None => h
                        end) l h.

Lemma xfold_nil g h : xfold g [] h = h.
Proof. reflexivity. Qed.

Lemma xfold_cons g a l h : xfold g (a :: l) h = xfold g l (N.lxor h (cellk a (g a))).
Proof.
  unfold xfold. cbn [fold_left]. unfold cellk. destruct (g a) as [[pc c]|]; [reflexivity|].
  rewrite N.lxor_0_r. reflexivity.
Qed.

Lemma xfold_init g l h : xfold g l h = N.lxor h (xfold g l 0).
Proof.
  revert h. induction l as [|a l IH]; intro h.
  - rewrite !xfold_nil, N.lxor_0_r. reflexivity.
  - rewrite !xfold_cons, (IH (N.lxor h _)), (IH (N.lxor 0 _)), N.lxor_0_l, N.lxor_assoc. reflexivity.
Qed.

Lemma xfold_ext g g' l h : (forall i, In i l -> g' i = g i) -> xfold g' l h = xfold g l h.
Proof.
  revert h. induction l as [|a l IH]; intros h H; [reflexivity|].
  rewrite !xfold_cons, (H a) by (left; reflexivity). apply IH.
  intros i Hi. apply H. right. exact Hi.
Qed.

(* the key lemma: changing one cell XORs the old constant out and the new one in *)
Lemma fold_xor_update g g' l i h :
  NoDup l -> In i l -> (forall j, In j l -> j <> i -> g' j = g j) ->
  xfold g' l h = N.lxor (N.lxor (xfold g l h) (cellk i (g i))) (cellk i (g' i)).
Proof.
  revert h. induction l as [|a l IH]; intros h ND Hin H; [destruct Hin|].
  inversion ND as [|? ? Hnotin ND']; subst.
  rewrite !xfold_cons. destruct Hin as [->|Hin].
  - rewrite (xfold_ext g g' l).
    + rewrite (xfold_init g l (N.lxor h (cellk i (g' i)))), (xfold_init g l (N.lxor h (cellk i (g i)))).
      xor_cancel.
    + intros j Hj. apply H; [right; exact Hj|]. intros ->. contradiction.
  - assert (Hne : a <> i) by (intros ->; contradiction).
    rewrite (H a) by (try (left; reflexivity); exact Hne).
    apply IH; [exact ND' | exact Hin |].
    intros j Hj. apply H. right. exact Hj.
Qed.

(* the placement part of the key *)
Definition pkey (g : N -> option (piece * color)) : N := xfold g squares 0.

Lemma pkey_ext g g' : (forall i, i < 64 -> g' i = g i) -> pkey g' = pkey g.
Proof. intro H. apply xfold_ext. intros i Hi. apply H. apply in_squares, Hi. Qed.

Lemma pkey_update g g' i : i < 64 -> (forall j, j < 64 -> j <> i -> g' j = g j) ->
  pkey g' = N.lxor (N.lxor (pkey g) (cellk i (g i))) (cellk i (g' i)).
Proof.
  intros Li H. apply fold_xor_update; [exact NoDup_squares | apply in_squares, Li |].
  intros j Hj. apply H. apply in_squares, Hj.
Qed.

Lemma pkey_empty : pkey (fun _ => None) = 0.
Proof. reflexivity. Qed.

(* [key_of] in closed form *)
Definition epc (e : option N) : N := match e with Some i => ze T i | None => 0 end.

Lemma key_of_eq p :
  key_of T p = N.lxor (N.lxor (N.lxor (zc T ALL_RIGHTS) (zc T (Rules.prights p))) (epc (Rules.pep p)))
                      (pkey (Rules.at_ p)).
Proof. unfold pkey. rewrite <- xfold_init. unfold xfold, key_of. reflexivity. Qed.

Lemma at_abstract b i : i < 64 -> Rules.at_ (abstract b) i = bget b i.
Proof. intro H. unfold Rules.at_, abstract. cbn [Rules.cells]. apply nth_map_squares. exact H. Qed.

Lemma epc_abs_ep b : epc (abs_ep b) = epk T (top (ep_stack b)).
Proof. unfold abs_ep, epk. destruct (is_empty (top (ep_stack b))); reflexivity. Qed.

(* the stack part of the key of a board *)
Definition skey (b : board) : N :=
  N.lxor (N.lxor (zc T ALL_RIGHTS) (zc T (top (cr_stack b)))) (epk T (top (ep_stack b))).

Lemma prights_abstract b : Rules.prights (abstract b) = top (cr_stack b).
Proof. reflexivity. Qed.
Lemma pep_abstract b : Rules.pep (abstract b) = abs_ep b.
Proof. reflexivity. Qed.
Lemma cells_abstract b : Rules.cells (abstract b) = map (bget b) squares.
Proof. reflexivity. Qed.
Lemma pturn_abstract b : Rules.pturn (abstract b) = turn b.
Proof. reflexivity. Qed.

Lemma key_of_abstract b : key_of T (abstract b) = N.lxor (skey b) (pkey (bget b)).
Proof.
  rewrite key_of_eq, prights_abstract, pep_abstract, epc_abs_ep.
  rewrite (pkey_ext (bget b) (Rules.at_ (abstract b))); [reflexivity|].
  intros i Hi. apply at_abstract, Hi.
Qed.

(* ------------------------------------------------------------------ *)
(** * the invariant *)

Definition KeyInv (b : board) : Prop := hash b = key_of T (abstract b).

Lemma KeyInv_iff b : KeyInv b <-> hash b = N.lxor (skey b) (pkey (bget b)).
Proof. unfold KeyInv. rewrite key_of_abstract. reflexivity. Qed.

Theorem KeyInv_new : KeyInv board_new.
Proof.
  apply KeyInv_iff.
  rewrite (pkey_ext (fun _ => None) (bget board_new)) by (intros; reflexivity).
  rewrite pkey_empty. unfold skey. cbn [board_new cr_stack ep_stack top hd hash].
  rewrite epk_0. xor_cancel.
Qed.

(* a step that keeps the piece-set invariant and the key invariant *)
Definition Step (b b' : board) : Prop :=
  (WF b -> WF b') /\ (WF b -> KeyInv b -> KeyInv b').

Lemma Step_refl b : Step b b.
Proof. split; tauto. Qed.

Lemma Step_trans b1 b2 b3 : Step b1 b2 -> Step b2 b3 -> Step b1 b3.
Proof. intros [W1 K1] [W2 K2]. split; auto. Qed.

(* operations that leave the piece sets alone *)
Lemma sets_same_step b b' :
  white b' = white b -> black b' = black b ->
  N.lxor (hash b') (skey b') = N.lxor (hash b) (skey b) -> Step b b'.
Proof.
  intros Hw Hb Hx. split; [apply WF_same_sets; assumption|].
  intros _. rewrite !KeyInv_iff. intro K.
  rewrite (bget_same_sets b b' Hw Hb). apply lxor_move in Hx. rewrite Hx, K. xor_cancel.
Qed.

(* ---- put / remove ---- *)

Theorem put_KeyInv b i p c b' : put T b i p c = Ok b' -> WF b -> i < 64 -> KeyInv b -> KeyInv b'.
Proof.
  intros H W Li. rewrite !KeyInv_iff. intro K.
  pose proof (put_bget T _ _ _ _ _ H W Li) as G.
  pose proof (put_hash T _ _ _ _ _ H) as Hh.
  pose proof (put_frame T _ _ _ _ _ H) as (_ & Fe & Fc & _).
  pose proof (proj1 (put_ok_iff T b i p c W) (ex_intro _ b' H)) as Hn.
  rewrite (pkey_update (bget b) (bget b') i Li).
  - rewrite (G i), N.eqb_refl, Hn, Hh, K. unfold skey. rewrite Fe, Fc. cbn [cellk]. xor_cancel.
  - intros j _ Hne. rewrite (G j). apply N.eqb_neq in Hne. rewrite Hne. reflexivity.
Qed.

Lemma put_step b i p c b' : put T b i p c = Ok b' -> i < 64 -> Step b b'.
Proof.
  intros H Li. split; intro W.
  - apply (put_WF T _ _ _ _ _ H W Li).
  - apply (put_KeyInv _ _ _ _ _ H W Li).
Qed.

Theorem bremove_KeyInv b i pc b' : bremove T b i = Some (pc, b') -> WF b -> KeyInv b -> KeyInv b'.
Proof.
  intros H W. destruct pc as [p c]. rewrite !KeyInv_iff. intro K.
  pose proof (bremove_lt64 T _ _ _ _ H W) as Li.
  pose proof (bremove_bget T _ _ _ _ _ H W) as [Hg G].
  pose proof (bremove_hash T _ _ _ _ _ H) as Hh.
  pose proof (bremove_frame T _ _ _ _ _ H) as (_ & Fe & Fc & _).
  rewrite (pkey_update (bget b) (bget b') i Li).
  - rewrite (G i), N.eqb_refl, Hg, Hh, K. unfold skey. rewrite Fe, Fc. cbn [cellk]. xor_cancel.
  - intros j _ Hne. rewrite (G j). apply N.eqb_neq in Hne. rewrite Hne. reflexivity.
Qed.

Lemma bremove_step b i pc b' : bremove T b i = Some (pc, b') -> Step b b'.
Proof.
  intros H. split; intro W.
  - destruct pc as [p c]. apply (bremove_WF T _ _ _ _ _ H W).
  - apply (bremove_KeyInv _ _ _ _ H W).
Qed.

(* ---- stack operations: no invariant on the board is needed ---- *)

Lemma push_ep_step b t b' : push_ep T b t = Ok b' -> Step b b'.
Proof.
  intro H. apply push_ep_spec in H. destruct H as (_ & He & Hh & Hw & Hb & _ & Hc & _).
  apply sets_same_step; [exact Hw | exact Hb |].
  unfold skey, top. rewrite Hh, He, Hc. cbn [hd]. xor_cancel.
Qed.

Lemma pop_ep_step b t b' : pop_ep T b = Ok (t, b') -> Step b b'.
Proof.
  intro H. apply pop_ep_spec in H. destruct H as (He & _ & Hh & Hw & Hb & _ & Hc & _).
  apply sets_same_step; [exact Hw | exact Hb |].
  unfold skey, top. rewrite Hh, He, Hc. cbn [hd]. xor_cancel.
Qed.

Lemma lose_rights_step b l b' : lose_rights T b l = Ok b' -> Step b b'.
Proof.
  intro H. apply lose_rights_spec in H. destruct H as (_ & _ & Hh & Hw & Hb & _ & He & _).
  apply sets_same_step; [exact Hw | exact Hb |].
  unfold skey, top. rewrite Hh, He. xor_cancel.
Qed.

Lemma pop_rights_step b b' : pop_rights T b = Ok b' -> Step b b'.
Proof.
  intro H. apply pop_rights_spec in H. destruct H as (_ & _ & Hh & Hw & Hb & _ & He & _).
  apply sets_same_step; [exact Hw | exact Hb |].
  unfold skey, top. rewrite Hh, He. xor_cancel.
Qed.

Lemma preserve_rights_step b b' : preserve_rights b = Ok b' -> Step b b'.
Proof.
  intro H. apply preserve_rights_spec in H. destruct H as (_ & Hc & Hh & Hw & Hb & _ & He & _).
  apply sets_same_step; [exact Hw | exact Hb |].
  unfold skey, top. rewrite Hh, He, Hc. cbn [hd]. reflexivity.
Qed.

Lemma inc_fullmove_step b b' : inc_fullmove b = Ok b' -> Step b b'.
Proof.
  intro H. apply inc_fullmove_spec in H. destruct H as (_ & _ & Hh & Hw & Hb & _ & He & Hc & _).
  apply sets_same_step; [exact Hw | exact Hb |]. unfold skey. rewrite Hh, He, Hc. reflexivity.
Qed.

Lemma dec_fullmove_step b b' : dec_fullmove b = Ok b' -> Step b b'.
Proof.
  intro H. apply dec_fullmove_spec in H. destruct H as (_ & _ & Hh & Hw & Hb & _ & He & Hc & _).
  apply sets_same_step; [exact Hw | exact Hb |]. unfold skey. rewrite Hh, He, Hc. reflexivity.
Qed.

Lemma inc_halfmove_step b b' : inc_halfmove b = Ok b' -> Step b b'.
Proof.
  intro H. apply inc_halfmove_spec in H. destruct H as (_ & _ & _ & Hh & Hw & Hb & _ & He & Hc & _).
  apply sets_same_step; [exact Hw | exact Hb |]. unfold skey. rewrite Hh, He, Hc. reflexivity.
Qed.

Lemma pop_halfmove_step b b' : pop_halfmove b = Ok b' -> Step b b'.
Proof.
  intro H. apply pop_halfmove_spec in H. destruct H as (_ & Hh & Hw & Hb & _ & He & Hc & _).
  apply sets_same_step; [exact Hw | exact Hb |]. unfold skey. rewrite Hh, He, Hc. reflexivity.
Qed.

Lemma push_halfmove_step b n : Step b (push_halfmove b n).
Proof. apply sets_same_step; reflexivity. Qed.

Lemma reset_halfmove_step b : Step b (reset_halfmove b).
Proof. apply sets_same_step; reflexivity. Qed.

Lemma toggle_turn_step b : Step b (toggle_turn b).
Proof. apply sets_same_step; reflexivity. Qed.

Lemma count_position_step b n b' : count_position b = Ok (n, b') -> Step b b'.
Proof.
  intro H. apply count_position_spec in H.
  destruct H as (_ & _ & _ & _ & Hh & Hw & Hb & _ & He & Hc & _).
  apply sets_same_step; [exact Hw | exact Hb |]. unfold skey. rewrite Hh, He, Hc. reflexivity.
Qed.

Lemma uncount_position_step b n b' : uncount_position b = Ok (n, b') -> Step b b'.
Proof.
  intro H. apply uncount_position_spec in H.
  destruct H as (_ & _ & _ & Hh & Hw & Hb & _ & He & Hc & _).
  apply sets_same_step; [exact Hw | exact Hb |]. unfold skey. rewrite Hh, He, Hc. reflexivity.
Qed.

(* the stand-alone statements (no WF needed: these operations do not touch the placement) *)
Theorem push_ep_KeyInv b t b' : push_ep T b t = Ok b' -> KeyInv b -> KeyInv b'.
Proof.
  intro H. apply push_ep_spec in H. destruct H as (_ & He & Hh & Hw & Hb & _ & Hc & _).
  rewrite !KeyInv_iff. intro K. rewrite (bget_same_sets b b' Hw Hb), Hh, K.
  unfold skey, top. rewrite He, Hc. cbn [hd]. xor_cancel.
Qed.

Theorem pop_ep_KeyInv b t b' : pop_ep T b = Ok (t, b') -> KeyInv b -> KeyInv b'.
Proof.
  intro H. apply pop_ep_spec in H. destruct H as (He & _ & Hh & Hw & Hb & _ & Hc & _).
  rewrite !KeyInv_iff. intro K. rewrite (bget_same_sets b b' Hw Hb), Hh, K.
  unfold skey, top. rewrite He, Hc. cbn [hd]. xor_cancel.
Qed.

Theorem lose_rights_KeyInv b l b' : lose_rights T b l = Ok b' -> KeyInv b -> KeyInv b'.
Proof.
  intro H. apply lose_rights_spec in H. destruct H as (_ & _ & Hh & Hw & Hb & _ & He & _).
  rewrite !KeyInv_iff. intro K. rewrite (bget_same_sets b b' Hw Hb), Hh, K.
  unfold skey, top. rewrite He. xor_cancel.
Qed.

Theorem pop_rights_KeyInv b b' : pop_rights T b = Ok b' -> KeyInv b -> KeyInv b'.
Proof.
  intro H. apply pop_rights_spec in H. destruct H as (_ & _ & Hh & Hw & Hb & _ & He & _).
  rewrite !KeyInv_iff. intro K. rewrite (bget_same_sets b b' Hw Hb), Hh, K.
  unfold skey, top. rewrite He. xor_cancel.
Qed.

Theorem preserve_rights_KeyInv b b' : preserve_rights b = Ok b' -> KeyInv b -> KeyInv b'.
Proof.
  intro H. apply preserve_rights_spec in H. destruct H as (_ & Hc & Hh & Hw & Hb & _ & He & _).
  rewrite !KeyInv_iff. intro K. rewrite (bget_same_sets b b' Hw Hb), Hh, K.
  unfold skey, top. rewrite He, Hc. cbn [hd]. reflexivity.
Qed.

(* clock / turn / repetition-count operations: hash, stacks tops and placement untouched *)
Lemma same_key_fields_KeyInv b b' :
  white b' = white b -> black b' = black b -> hash b' = hash b ->
  ep_stack b' = ep_stack b -> cr_stack b' = cr_stack b -> KeyInv b -> KeyInv b'.
Proof.
  intros Hw Hb Hh He Hc. rewrite !KeyInv_iff. intro K.
  rewrite (bget_same_sets b b' Hw Hb), Hh, K. unfold skey. rewrite He, Hc. reflexivity.
Qed.

Theorem clock_ops_KeyInv b : KeyInv b ->
  (forall b', inc_fullmove b = Ok b' -> KeyInv b')
  /\ (forall b', dec_fullmove b = Ok b' -> KeyInv b')
  /\ (forall b', inc_halfmove b = Ok b' -> KeyInv b')
  /\ (forall b', pop_halfmove b = Ok b' -> KeyInv b')
  /\ KeyInv (reset_halfmove b)
  /\ (forall n, KeyInv (push_halfmove b n))
  /\ KeyInv (toggle_turn b)
  /\ (forall n b', count_position b = Ok (n, b') -> KeyInv b')
  /\ (forall n b', uncount_position b = Ok (n, b') -> KeyInv b').
Proof.
  intro K.
  split; [intros b' H; apply inc_fullmove_spec in H; apply (same_key_fields_KeyInv b b'); tauto|].
  split; [intros b' H; apply dec_fullmove_spec in H; apply (same_key_fields_KeyInv b b'); tauto|].
  split; [intros b' H; apply inc_halfmove_spec in H; apply (same_key_fields_KeyInv b b'); tauto|].
  split; [intros b' H; apply pop_halfmove_spec in H; apply (same_key_fields_KeyInv b b'); tauto|].
  split; [apply (same_key_fields_KeyInv b); try reflexivity; exact K|].
  split; [intro n; apply (same_key_fields_KeyInv b); try reflexivity; exact K|].
  split; [apply (same_key_fields_KeyInv b); try reflexivity; exact K|].
  split; [intros n b' H; apply count_position_spec in H; apply (same_key_fields_KeyInv b b'); tauto|].
  intros n b' H; apply uncount_position_spec in H; apply (same_key_fields_KeyInv b b'); tauto.
Qed.


(* ------------------------------------------------------------------ *)
(** * apply_move / undo_move *)

Lemma Step_under_WF b b' : (WF b -> Step b b') -> Step b b'.
Proof. intro H. split; intro W; destruct (H W) as [A B]; auto. Qed.

Lemma unwrap_ok_inv {A} (r : res A) y : unwrap r = Ok y -> r = Ok y.
Proof. destruct r; cbn; intro H; try discriminate; exact H. Qed.

Tactic Notation "bind_step" hyp(H) ident(a) ident(E) :=
  match type of H with
  | bind ?r _ = Ok _ =>
      destruct r as [a| |] eqn:E; cbn [bind] in H; [|discriminate H|discriminate H]
  end.

Ltac chain S L :=
  let S' := fresh "S" in pose proof (Step_trans _ _ _ S L) as S'; clear S; rename S' into S.

Lemma std_tail b2 (r3 : res board) ept lost t p c b' :
  (forall b3, r3 = Ok b3 -> Step b2 b3) ->
  (let* b3 := r3 in
   let* b4 := inc_fullmove b3 in
   let* b5 := push_ep T b4 ept in
   let* b6 := lose_rights T b5 lost in
   unwrap (put T b6 t p c)) = Ok b' ->
  t < 64 -> Step b2 b'.
Proof.
  intros H3 H Lt.
  bind_step H b3 E3. pose proof (H3 _ eq_refl) as S.
  bind_step H b4 E4. chain S (inc_fullmove_step _ _ E4).
  bind_step H b5 E5. chain S (push_ep_step _ _ _ E5).
  bind_step H b6 E6. chain S (lose_rights_step _ _ _ E6).
  apply unwrap_ok_inv in H. chain S (put_step _ _ _ _ _ H Lt). exact S.
Qed.

Lemma apply_std_step b f t cap b' : apply_std T b f t cap = Ok b' -> t < 64 -> Step b b'.
Proof.
  unfold apply_std. intros H Lt.
  destruct (bremove T b f) as [[[p c] b1]|] eqn:E1; [|discriminate].
  pose proof (bremove_step _ _ _ _ E1) as S.
  destruct (bremove T b1 t) as [[pc2 b2]|] eqn:E2; cbv beta iota zeta in H.
  - chain S (bremove_step _ _ _ _ E2).
    destruct (negb _); [discriminate|].
    eapply Step_trans; [exact S|]. eapply std_tail; [|exact H|exact Lt].
    intros b3 H3. inversion H3. apply reset_halfmove_step.
  - destruct (negb _); [discriminate|].
    eapply Step_trans; [exact S|]. eapply std_tail; [|exact H|exact Lt].
    intros b3 H3. destruct (piece_eqb p Pawn).
    + inversion H3. apply reset_halfmove_step.
    + apply (inc_halfmove_step _ _ H3).
Qed.

Lemma undo_std_step b f t cap b' : undo_std T b f t cap = Ok b' -> f < 64 -> Step b b'.
Proof.
  unfold undo_std. intros H Lf. apply Step_under_WF. intro W.
  destruct (bremove T b t) as [[[p c] b1]|] eqn:E1; [|discriminate].
  pose proof (bremove_lt64 T _ _ _ _ E1 W) as Lt.
  pose proof (bremove_step _ _ _ _ E1) as S.
  bind_step H b2 E2.
  assert (S2 : Step b1 b2).
  { destruct cap as [cp|].
    - apply (put_step _ _ _ _ _ E2 Lt).
    - inversion E2. apply Step_refl. }
  chain S S2.
  bind_step H b3 E3. chain S (pop_halfmove_step _ _ E3).
  bind_step H b4 E4. chain S (dec_fullmove_step _ _ E4).
  bind_step H x5 E5. destruct x5 as [t5 b5]. chain S (pop_ep_step _ _ _ E5).
  bind_step H b6 E6. chain S (pop_rights_step _ _ E6).
  apply unwrap_ok_inv in H. chain S (put_step _ _ _ _ _ H Lf). exact S.
Qed.

Lemma apply_promo_step b f t cap pp b' : apply_promo T b f t cap pp = Ok b' -> t < 64 -> Step b b'.
Proof.
  unfold apply_promo. intros H Lt.
  bind_step H b1 E1. pose proof (apply_std_step _ _ _ _ _ E1 Lt) as S.
  destruct (bremove T b1 t) as [[[p c] b2]|] eqn:E2; [|discriminate].
  destruct p; try discriminate.
  chain S (bremove_step _ _ _ _ E2). chain S (put_step _ _ _ _ _ H Lt). exact S.
Qed.

Lemma undo_promo_step b f t cap pp b' : undo_promo T b f t cap pp = Ok b' -> f < 64 -> Step b b'.
Proof.
  unfold undo_promo. intros H Lf. apply Step_under_WF. intro W.
  destruct (bremove T b t) as [[[p c] b1]|] eqn:E1; [|discriminate].
  pose proof (bremove_lt64 T _ _ _ _ E1 W) as Lt.
  pose proof (bremove_step _ _ _ _ E1) as S.
  destruct (piece_eqb p pp); [|discriminate].
  bind_step H b2 E2. chain S (put_step _ _ _ _ _ E2 Lt).
  chain S (undo_std_step _ _ _ _ _ H Lf). exact S.
Qed.

Lemma apply_ep_step b f t b' : apply_ep T b f t = Ok b' -> t < 64 -> Step b b'.
Proof.
  unfold apply_ep. intros H Lt.
  destruct (bremove T b f) as [[[p c] b1]|] eqn:E1; [|discriminate].
  pose proof (bremove_step _ _ _ _ E1) as S.
  destruct (negb _); [discriminate|].
  destruct (bremove T b1 (ep_captured_square c t)) as [[pc2 b2]|] eqn:E2; [|discriminate].
  chain S (bremove_step _ _ _ _ E2). cbv zeta in H.
  chain S (reset_halfmove_step b2).
  bind_step H b4 E4. chain S (inc_fullmove_step _ _ E4).
  bind_step H b5 E5. chain S (push_ep_step _ _ _ E5).
  bind_step H b6 E6. chain S (preserve_rights_step _ _ E6).
  chain S (put_step _ _ _ _ _ H Lt). exact S.
Qed.

Lemma undo_ep_step b f t b' : undo_ep T b f t = Ok b' -> f < 64 -> 8 <= t -> t < 56 -> Step b b'.
Proof.
  unfold undo_ep. intros H Lf Lt1 Lt2.
  destruct (bremove T b t) as [[[p c] b1]|] eqn:E1; [|discriminate].
  pose proof (bremove_step _ _ _ _ E1) as S.
  destruct (negb _); [discriminate|].
  bind_step H b2 E2. apply unwrap_ok_inv in E2. chain S (put_step _ _ _ _ _ E2 Lf).
  bind_step H b3 E3. chain S (pop_halfmove_step _ _ E3).
  bind_step H b4 E4. chain S (dec_fullmove_step _ _ E4).
  bind_step H x5 E5. destruct x5 as [t5 b5]. chain S (pop_ep_step _ _ _ E5).
  bind_step H b6 E6. chain S (pop_rights_step _ _ E6).
  assert (Lc : ep_captured_square c t < 64).
  { unfold ep_captured_square. destruct c.
    - destruct (N.leb_spec 56 t); lia.
    - destruct (N.ltb_spec t 8); lia. }
  chain S (put_step _ _ _ _ _ H Lc). exact S.
Qed.

Lemma castle_shape_squares f t c rf rt : castle_shape f t = Ok (c, rf, rt) -> rf < 64 /\ rt < 64.
Proof.
  unfold castle_shape.
  destruct (bit t =? shl (bit f) 2); [|destruct (bit t =? shr (bit f) 2)];
    destruct (mem f RANK_1), (mem f RANK_8); intro H; try discriminate; inversion H; subst; split; reflexivity.
Qed.

Lemma remove_unwrap_step b i b' : remove_unwrap T b i = Ok b' -> Step b b'.
Proof.
  unfold remove_unwrap. destruct (bremove T b i) as [[pc b1]|] eqn:E; [|discriminate].
  intro H. inversion H. subst b1. apply (bremove_step _ _ _ _ E).
Qed.

Lemma apply_castle_step b f t b' : apply_castle T b f t = Ok b' -> t < 64 -> Step b b'.
Proof.
  unfold apply_castle. intros H Lt.
  bind_step H x E0. destruct x as [[c rf] rt].
  destruct (castle_shape_squares _ _ _ _ _ E0) as [Lrf Lrt].
  repeat (match type of H with (if ?x then _ else _) = _ => destruct x; [discriminate|] end).
  bind_step H b1 E1. pose proof (remove_unwrap_step _ _ _ E1) as S.
  bind_step H b2 E2. apply unwrap_ok_inv in E2. chain S (put_step _ _ _ _ _ E2 Lt).
  bind_step H b3 E3. chain S (remove_unwrap_step _ _ _ E3).
  bind_step H b4 E4. apply unwrap_ok_inv in E4. chain S (put_step _ _ _ _ _ E4 Lrt).
  cbv zeta in H.
  bind_step H b5 E5. chain S (inc_halfmove_step _ _ E5).
  bind_step H b6 E6. chain S (inc_fullmove_step _ _ E6).
  bind_step H b7 E7. chain S (push_ep_step _ _ _ E7).
  chain S (lose_rights_step _ _ _ H). exact S.
Qed.

Lemma undo_castle_step b f t b' : undo_castle T b f t = Ok b' -> f < 64 -> Step b b'.
Proof.
  unfold undo_castle. intros H Lf.
  bind_step H x E0. destruct x as [[c rf] rt].
  destruct (castle_shape_squares _ _ _ _ _ E0) as [Lrf Lrt].
  repeat (match type of H with (if ?x then _ else _) = _ => destruct x; [discriminate|] end).
  bind_step H b1 E1. pose proof (remove_unwrap_step _ _ _ E1) as S.
  bind_step H b2 E2. apply unwrap_ok_inv in E2. chain S (put_step _ _ _ _ _ E2 Lf).
  bind_step H b3 E3. chain S (remove_unwrap_step _ _ _ E3).
  bind_step H b4 E4. apply unwrap_ok_inv in E4. chain S (put_step _ _ _ _ _ E4 Lrf).
  bind_step H b5 E5. chain S (dec_fullmove_step _ _ E5).
  bind_step H b6 E6. chain S (pop_halfmove_step _ _ E6).
  bind_step H x7 E7. destruct x7 as [t7 b7]. chain S (pop_ep_step _ _ _ E7).
  chain S (pop_rights_step _ _ H). exact S.
Qed.

(* side condition of undo: the en-passant capture square must be a board square *)
Definition undo_squares_ok (m : cmove) : Prop :=
  mv_from m < 64 /\ match m with EnPassant _ t => 8 <= t /\ t < 56 | _ => True end.

Lemma apply_move_step m b b' : apply_move T m b = Ok b' -> mv_to m < 64 -> Step b b'.
Proof.
  destruct m as [f t cap|f t cap pp|f t|f t]; cbn [apply_move mv_to]; intros H Lt.
  - apply (apply_std_step _ _ _ _ _ H Lt).
  - apply (apply_promo_step _ _ _ _ _ _ H Lt).
  - apply (apply_ep_step _ _ _ _ H Lt).
  - apply (apply_castle_step _ _ _ _ H Lt).
Qed.

Lemma undo_move_step m b b' : undo_move T m b = Ok b' -> undo_squares_ok m -> Step b b'.
Proof.
  destruct m as [f t cap|f t cap pp|f t|f t]; cbn [undo_move]; intros H [Lf X]; cbn [mv_from] in Lf.
  - apply (undo_std_step _ _ _ _ _ H Lf).
  - apply (undo_promo_step _ _ _ _ _ _ H Lf).
  - destruct X as [X1 X2]. apply (undo_ep_step _ _ _ _ H Lf X1 X2).
  - apply (undo_castle_step _ _ _ _ H Lf).
Qed.

(** C05, main statement: the key stays the key of the position through every move made
    and every move taken back, whatever the table. *)
Theorem apply_move_KeyInv m b b' :
  apply_move T m b = Ok b' -> WF b -> mv_to m < 64 -> KeyInv b -> KeyInv b'.
Proof. intros H W Lt. apply (proj2 (apply_move_step m b b' H Lt) W). Qed.

Theorem apply_move_WF m b b' :
  apply_move T m b = Ok b' -> WF b -> mv_to m < 64 -> WF b'.
Proof. intros H W Lt. apply (proj1 (apply_move_step m b b' H Lt) W). Qed.

Theorem undo_move_KeyInv m b b' :
  undo_move T m b = Ok b' -> WF b -> undo_squares_ok m -> KeyInv b -> KeyInv b'.
Proof. intros H W Hs. apply (proj2 (undo_move_step m b b' H Hs) W). Qed.

Theorem undo_move_WF m b b' :
  undo_move T m b = Ok b' -> WF b -> undo_squares_ok m -> WF b'.
Proof. intros H W Hs. apply (proj1 (undo_move_step m b b' H Hs) W). Qed.


(* ------------------------------------------------------------------ *)
(** * history independence *)

Lemma key_of_congr p1 p2 :
  Rules.cells p1 = Rules.cells p2 -> Rules.prights p1 = Rules.prights p2 ->
  Rules.pep p1 = Rules.pep p2 -> key_of T p1 = key_of T p2.
Proof.
  intros Hc Hr He. rewrite !key_of_eq, Hr, He.
  rewrite (pkey_ext (Rules.at_ p2) (Rules.at_ p1)); [reflexivity|].
  intros i _. unfold Rules.at_. rewrite Hc. reflexivity.
Qed.

(** Two boards reached by any two histories, with the same placement, rights and
    en-passant target, carry the same key. *)
Theorem key_history_independent b1 b2 :
  KeyInv b1 -> KeyInv b2 ->
  Rules.cells (abstract b1) = Rules.cells (abstract b2) ->
  Rules.prights (abstract b1) = Rules.prights (abstract b2) ->
  Rules.pep (abstract b1) = Rules.pep (abstract b2) ->
  hash b1 = hash b2.
Proof.
  unfold KeyInv. intros K1 K2 Hc Hr He. rewrite K1, K2. apply key_of_congr; assumption.
Qed.

(* ------------------------------------------------------------------ *)
(** * separation *)

Definition table_ok : Prop :=
  (forall p i c, i < 64 -> zp T p i c <> 0)
  /\ (forall p i c p' i' c', i < 64 -> i' < 64 -> zp T p i c = zp T p' i' c' -> p = p' /\ i = i' /\ c = c')
  /\ (forall i, i < 64 -> ze T i <> 0)
  /\ (forall i j, i < 64 -> j < 64 -> ze T i = ze T j -> i = j)
  /\ (forall r r', r < 16 -> r' < 16 ->
        N.lxor (zc T 15) (zc T r) = N.lxor (zc T 15) (zc T r') -> r = r').

Lemma cellk_inj i c1 c2 : table_ok -> i < 64 -> cellk i c1 = cellk i c2 -> c1 = c2.
Proof.
  intros (NZ & INJ & _) Li. destruct c1 as [[p1 k1]|], c2 as [[p2 k2]|]; cbn [cellk]; intro H.
  - destruct (INJ _ _ _ _ _ _ Li Li H) as (-> & _ & ->). reflexivity.
  - exfalso. apply (NZ _ _ _ Li H).
  - exfalso. symmetry in H. apply (NZ _ _ _ Li H).
  - reflexivity.
Qed.

(** positions that differ in exactly one cell have different keys *)
Theorem key_separates_cell p1 p2 i :
  table_ok -> i < 64 ->
  Rules.at_ p1 i <> Rules.at_ p2 i ->
  (forall j, j < 64 -> j <> i -> Rules.at_ p2 j = Rules.at_ p1 j) ->
  Rules.prights p1 = Rules.prights p2 -> Rules.pep p1 = Rules.pep p2 ->
  key_of T p1 <> key_of T p2.
Proof.
  intros OK Li Hd Hs Hr He HK. apply Hd. apply (cellk_inj i _ _ OK Li).
  rewrite !key_of_eq, Hr, He in HK. apply lxor_inj_l in HK.
  rewrite (pkey_update (Rules.at_ p1) (Rules.at_ p2) i Li Hs) in HK.
  rewrite <- (N.lxor_0_r (pkey (Rules.at_ p1))) in HK at 1.
  rewrite N.lxor_assoc in HK. apply lxor_inj_l in HK.
  symmetry in HK. apply N.lxor_eq in HK. exact HK.
Qed.

(** positions that differ only in the castling rights have different keys *)
Theorem key_separates_rights p1 p2 :
  table_ok ->
  (forall j, j < 64 -> Rules.at_ p2 j = Rules.at_ p1 j) ->
  Rules.pep p1 = Rules.pep p2 ->
  Rules.prights p1 < 16 -> Rules.prights p2 < 16 -> Rules.prights p1 <> Rules.prights p2 ->
  key_of T p1 <> key_of T p2.
Proof.
  intros (_ & _ & _ & _ & RI) Hs He L1 L2 Hd HK. apply Hd. apply (RI _ _ L1 L2).
  rewrite !key_of_eq, He, (pkey_ext _ _ Hs) in HK. unfold ALL_RIGHTS in HK.
  apply lxor_inj_3l in HK. exact HK.
Qed.

Definition ep_wf (e : option N) : Prop := match e with Some i => i < 64 | None => True end.

(** positions that differ only in the en-passant target have different keys *)
Theorem key_separates_ep p1 p2 :
  table_ok ->
  (forall j, j < 64 -> Rules.at_ p2 j = Rules.at_ p1 j) ->
  Rules.prights p1 = Rules.prights p2 ->
  ep_wf (Rules.pep p1) -> ep_wf (Rules.pep p2) -> Rules.pep p1 <> Rules.pep p2 ->
  key_of T p1 <> key_of T p2.
Proof.
  intros (_ & _ & ENZ & EI & _) Hs Hr W1 W2 Hd HK. apply Hd.
  rewrite !key_of_eq, Hr, (pkey_ext _ _ Hs) in HK.
  apply lxor_inj_3m in HK. rename HK into HE.
  destruct (Rules.pep p1) as [e1|], (Rules.pep p2) as [e2|]; cbn [epc ep_wf] in *.
  - f_equal. apply (EI _ _ W1 W2 HE).
  - exfalso. apply (ENZ _ W1 HE).
  - exfalso. symmetry in HE. apply (ENZ _ W2 HE).
  - reflexivity.
Qed.

End Key.

(* ------------------------------------------------------------------ *)
(** * an executable check of [table_ok] *)

Fixpoint nodupb (l : list N) : bool :=
  match l with
  | [] => true
  | x :: r => negb (existsb (N.eqb x) r) && nodupb r
  end.

Lemma nodupb_NoDup l : nodupb l = true -> NoDup l.
Proof.
  induction l as [|x r IH]; cbn [nodupb]; intro H; [constructor|].
  apply andb_true_iff in H. destruct H as [H1 H2]. constructor; [|apply IH, H2].
  intro Hin. apply negb_true_iff in H1.
  assert (E : existsb (N.eqb x) r = true)
    by (apply existsb_exists; exists x; split; [exact Hin | apply N.eqb_refl]).
  congruence.
Qed.

Lemma NoDup_map_injective {A} (f : A -> N) l a b :
  NoDup (map f l) -> In a l -> In b l -> f a = f b -> a = b.
Proof.
  induction l as [|x r IH]; cbn [map]; intros ND Ha Hb E; [destruct Ha|].
  inversion ND as [|? ? Hnot ND']; subst.
  destruct Ha as [->|Ha], Hb as [->|Hb].
  - reflexivity.
  - exfalso. apply Hnot. rewrite E. apply in_map, Hb.
  - exfalso. apply Hnot. rewrite <- E. apply in_map, Ha.
  - apply IH; assumption.
Qed.

Definition all_pcs : list (piece * N * color) :=
  flat_map (fun p => flat_map (fun i => [(p, i, Black); (p, i, White)]) squares)
           [Pawn; Knight; Bishop; Rook; Queen; King].

Lemma in_all_pcs p i c : i < 64 -> In (p, i, c) all_pcs.
Proof.
  intro Li. unfold all_pcs. apply in_flat_map. exists p. split; [destruct p; cbn; tauto|].
  apply in_flat_map. exists i. split; [apply in_squares, Li|]. destruct c; cbn; tauto.
Qed.

Definition rights16 : list N := [0;1;2;3;4;5;6;7;8;9;10;11;12;13;14;15].

Lemma in_rights16 r : r < 16 -> In r rights16.
Proof.
  intro H. assert (E : rights16 = map N.of_nat (seq 0 16)) by reflexivity.
  rewrite E. apply in_map_iff. exists (N.to_nat r). split; [apply Nnat.N2Nat.id|].
  apply in_seq. lia.
Qed.

Definition zp3 (T : ztable) (x : piece * N * color) : N :=
  match x with (p, i, c) => zp T p i c end.

Definition table_okb (T : ztable) : bool :=
  nodupb (0 :: map (zp3 T) all_pcs)
  && nodupb (0 :: map (ze T) squares)
  && nodupb (map (fun r => N.lxor (zc T 15) (zc T r)) rights16).

Theorem table_okb_ok T : table_okb T = true -> table_ok T.
Proof.
  unfold table_okb. rewrite !andb_true_iff. intros [[HP HE] HR].
  apply nodupb_NoDup in HP, HE, HR.
  apply NoDup_cons_iff in HP, HE. destruct HP as [HP0 HP1]. destruct HE as [HE0 HE1].
  split; [|split; [|split; [|split]]].
  - intros p i c Li E. apply HP0. rewrite <- E.
    apply (in_map (zp3 T) all_pcs (p, i, c)). apply in_all_pcs, Li.
  - intros p i c p' i' c' Li Li' E.
    assert (X : (p, i, c) = (p', i', c')).
    { apply (NoDup_map_injective (zp3 T) _ _ _ HP1); [apply in_all_pcs, Li | apply in_all_pcs, Li' | exact E]. }
    inversion X. tauto.
  - intros i Li E. apply HE0. rewrite <- E. apply in_map. apply in_squares, Li.
  - intros i j Li Lj E.
    apply (NoDup_map_injective _ _ _ _ HE1); [apply in_squares, Li | apply in_squares, Lj | exact E].
  - intros r r' Lr Lr' E.
    apply (NoDup_map_injective _ _ _ _ HR); [apply in_rights16, Lr | apply in_rights16, Lr' | exact E].
Qed.

(* ------------------------------------------------------------------ *)
(** * non-vacuity *)

Example example_table_ok : table_okb example_table = true.
Proof. vm_compute. reflexivity. Qed.

Example example_table_ok_prop : table_ok example_table.
Proof. apply table_okb_ok, example_table_ok. Qed.

(* a small position set up with [put], then 1. e4 : hypotheses of apply_move_KeyInv hold,
   the move succeeds, and the resulting hash is the key of the resulting position *)
Definition example_board : res board :=
  let* b1 := put example_table board_new 4 King White in
  let* b2 := put example_table b1 60 King Black in
  let* b3 := put example_table b2 12 Pawn White in
  put example_table b3 51 Pawn Black.

Example apply_move_example :
  match example_board with
  | Ok b =>
      wf_b b = true /\ hash b = key_of example_table (abstract b) /\
      match apply_move example_table (Std 12 28 None) b with
      | Ok b' => hash b' = key_of example_table (abstract b') /\ hash b' <> hash b
                 /\ undo_move example_table (Std 12 28 None) b' = Ok b
      | _ => False
      end
  | _ => False
  end.
Proof. vm_compute. repeat split; try reflexivity; discriminate. Qed.

Example key_separates_example :
  match example_board with
  | Ok b =>
      match apply_move example_table (Std 12 28 None) b with
      | Ok b' => Rules.at_ (abstract b) 63 = Rules.at_ (abstract b') 63
                 /\ Rules.pep (abstract b) <> Rules.pep (abstract b')
      | _ => False
      end
  | _ => False
  end.
Proof. vm_compute. split; [reflexivity | discriminate]. Qed.

Print Assumptions KeyInv_new.
Print Assumptions apply_move_KeyInv.
Print Assumptions undo_move_KeyInv.
Print Assumptions key_history_independent.
Print Assumptions key_separates_cell.
Print Assumptions key_separates_rights.
Print Assumptions key_separates_ep.
Print Assumptions table_okb_ok.
