(* PseudoProofs2.v — C01, pseudo-legal layer, pawns, part 1: the engine side.
   Pushes, double pushes, captures, promotions: `pawn_all` (the expansion of the pawn
   move and capture targets) characterised by coordinates; NoDup.  No axioms. *)
From Coq Require Import Lia ZArith NArith List Bool.
From ChessV Require Import Bits Types Board Moves Rays MoveGen Rules Abs GeomProofs.
From ChessV Require Import BitsLemmas BoardLemmas WfReflect PseudoBase.
Import ListNotations.
Open Scope N_scope.
Open Scope list_scope.

(* ------------------------------------------------------------------ *)
(** * geometry: complete sweeps over colour x square x square *)

Lemma step1_spec c x t : x < 64 -> t < 64 ->
  mem t (pawn_step c (bit x)) = ((fileZ t =? fileZ x) && (rankZ t =? rankZ x + forward c))%Z.
Proof.
  intros Lx Lt. apply eqb_prop.
  apply (GeomAux_sweep_c64x64 (fun c x t =>
    Bool.eqb (mem t (pawn_step c (bit x))) ((fileZ t =? fileZ x) && (rankZ t =? rankZ x + forward c))%Z));
    [vm_compute; reflexivity | exact Lx | exact Lt].
Qed.

Lemma step2_spec c x t : x < 64 -> t < 64 ->
  mem t (pawn_step c (pawn_step c (bit x))) = ((fileZ t =? fileZ x) && (rankZ t =? rankZ x + 2 * forward c))%Z.
Proof.
  intros Lx Lt. apply eqb_prop.
  apply (GeomAux_sweep_c64x64 (fun c x t =>
    Bool.eqb (mem t (pawn_step c (pawn_step c (bit x)))) ((fileZ t =? fileZ x) && (rankZ t =? rankZ x + 2 * forward c))%Z));
    [vm_compute; reflexivity | exact Lx | exact Lt].
Qed.

Lemma attack_west_spec c x t : x < 64 -> t < 64 ->
  mem t (pawn_attack_west c (bit x)) = ((fileZ t =? fileZ x + 1) && (rankZ t =? rankZ x + forward c))%Z.
Proof.
  intros Lx Lt. apply eqb_prop.
  apply (GeomAux_sweep_c64x64 (fun c x t =>
    Bool.eqb (mem t (pawn_attack_west c (bit x))) ((fileZ t =? fileZ x + 1) && (rankZ t =? rankZ x + forward c))%Z));
    [vm_compute; reflexivity | exact Lx | exact Lt].
Qed.

Lemma attack_east_spec c x t : x < 64 -> t < 64 ->
  mem t (pawn_attack_east c (bit x)) = ((fileZ t =? fileZ x - 1) && (rankZ t =? rankZ x + forward c))%Z.
Proof.
  intros Lx Lt. apply eqb_prop.
  apply (GeomAux_sweep_c64x64 (fun c x t =>
    Bool.eqb (mem t (pawn_attack_east c (bit x))) ((fileZ t =? fileZ x - 1) && (rankZ t =? rankZ x + forward c))%Z));
    [vm_compute; reflexivity | exact Lx | exact Lt].
Qed.

Definition dbl_mask (c : color) : N := match c with White => RANK_4 | Black => RANK_5 end.
Definition promo_rank (c : color) : N := match c with White => RANK_8 | Black => RANK_1 end.

Lemma mem_dbl_mask c t : t < 64 ->
  mem t (dbl_mask c) = (rankZ t =? start_rank c + 2 * forward c)%Z.
Proof.
  intro Lt. apply eqb_prop.
  apply (GeomAux_sweep_c64 (fun c t => Bool.eqb (mem t (dbl_mask c)) (rankZ t =? start_rank c + 2 * forward c)%Z));
    [vm_compute; reflexivity | exact Lt].
Qed.

Lemma mem_promo_rank c t : t < 64 -> mem t (promo_rank c) = (rankZ t =? last_rank c)%Z.
Proof.
  intro Lt. apply eqb_prop.
  apply (GeomAux_sweep_c64 (fun c t => Bool.eqb (mem t (promo_rank c)) (rankZ t =? last_rank c)%Z));
    [vm_compute; reflexivity | exact Lt].
Qed.

Lemma coords_eq s t : s < 64 -> t < 64 -> fileZ s = fileZ t -> rankZ s = rankZ t -> s = t.
Proof.
  intros _ _ F R. rewrite <- (sq_file_rank s), <- (sq_file_rank t), F, R. reflexivity.
Qed.

Lemma coords_range t : t < 64 -> (0 <= fileZ t < 8 /\ 0 <= rankZ t < 8)%Z.
Proof. intro L. apply on_board_bounds. apply file_rank_bounds. exact L. Qed.

Lemma pawn_step_fits c y : fits64 y -> fits64 (pawn_step c y).
Proof. intro F. destruct c; cbn [pawn_step]; [apply fits64_shr, F | apply fits64_shl]. Qed.

Lemma pawn_attack_west_fits c y : fits64 y -> fits64 (pawn_attack_west c y).
Proof. intro F. destruct c; cbn [pawn_attack_west]; apply fits64_andn; [apply fits64_shr, F | apply fits64_shl]. Qed.

Lemma pawn_attack_east_fits c y : fits64 y -> fits64 (pawn_attack_east c y).
Proof. intro F. destruct c; cbn [pawn_attack_east]; apply fits64_andn; [apply fits64_shr, F | apply fits64_shl]. Qed.

Lemma forward_cases c : forward c = 1%Z \/ forward c = (-1)%Z.
Proof. destruct c; cbn; tauto. Qed.

(* ------------------------------------------------------------------ *)
(** * the engine's target lists, entry by entry *)

Definition single (c : color) (x : N) : N := pawn_step c (bit x).
Definition move_mask (b : board) (c : color) : N :=
  andn (N.lor (pawn_step c (pw (pieces b c))) (dbl_mask c)) (occupied b).
Definition push_set (b : board) (c : color) (x : N) : N :=
  N.lor (N.land (single c x) (move_mask b c)) (N.land (pawn_step c (single c x)) (move_mask b c)).
Definition attack_set (c : color) (x : N) : N :=
  N.lor (pawn_attack_east c (bit x)) (pawn_attack_west c (bit x)).

Definition pmt_entry (b : board) (c : color) (x : N) : list (N * N) :=
  if mem x (pw (pieces b c)) then
    if overlaps (single c x) (occupied b) then []
    else if is_empty (push_set b c x) then [] else [(x, push_set b c x)]
  else [].

Lemma pawn_move_targets_eq b c : pawn_move_targets b c = flat_map (pmt_entry b c) squares.
Proof. destruct c; reflexivity. Qed.

Definition pawn_caps (b : board) (c : color) : ptl :=
  flat_map (fun pt =>
              if overlaps (snd pt) (occ (pieces b (opp_c c)))
              then [(fst pt, N.land (snd pt) (occ (pieces b (opp_c c))))] else [])
           (pawn_attack_targets b c).

Definition pcap_entry (b : board) (c : color) (x : N) : list (N * N) :=
  if mem x (pw (pieces b c)) then
    if overlaps (attack_set c x) (occ (pieces b (opp_c c)))
    then [(x, N.land (attack_set c x) (occ (pieces b (opp_c c))))] else []
  else [].

Lemma flat_map_flat_map {A B C} (g : B -> list C) (h : A -> list B) l :
  flat_map g (flat_map h l) = flat_map (fun x => flat_map g (h x)) l.
Proof.
  induction l as [|a l IH]; [reflexivity|]. cbn [flat_map]. rewrite flat_map_app, IH. reflexivity.
Qed.

Lemma pawn_caps_eq b c : pawn_caps b c = flat_map (pcap_entry b c) squares.
Proof.
  unfold pawn_caps, pawn_attack_targets. rewrite flat_map_flat_map. apply flat_map_ext. intro x.
  unfold pcap_entry. destruct (mem x (pw (pieces b c))); [|reflexivity].
  cbn [flat_map fst snd]. rewrite app_nil_r. reflexivity.
Qed.

Definition pawn_all (b : board) (c : color) : list cmove :=
  expand b c (pawn_move_targets b c ++ pawn_caps b c).

Lemma pmt_select b c x : pmt_entry b c x = [] \/ exists v, pmt_entry b c x = [(x, v)].
Proof.
  unfold pmt_entry. destruct (mem x (pw (pieces b c))); [|left; reflexivity].
  destruct (overlaps (single c x) (occupied b)); [left; reflexivity|].
  destruct (is_empty (push_set b c x)); [left; reflexivity|]. right. eexists. reflexivity.
Qed.

Lemma pcap_select b c x : pcap_entry b c x = [] \/ exists v, pcap_entry b c x = [(x, v)].
Proof.
  unfold pcap_entry. destruct (mem x (pw (pieces b c))); [|left; reflexivity].
  destruct (overlaps (attack_set c x) (occ (pieces b (opp_c c)))); [|left; reflexivity].
  right. eexists. reflexivity.
Qed.

Lemma in_pmt b c pt :
  In pt (pawn_move_targets b c) <->
  fst pt < 64 /\ mem (fst pt) (pw (pieces b c)) = true
  /\ overlaps (single c (fst pt)) (occupied b) = false
  /\ snd pt = push_set b c (fst pt) /\ push_set b c (fst pt) <> 0.
Proof.
  rewrite pawn_move_targets_eq, (PB_in_fst_select _ squares pt (pmt_select b c)), BitsLemmas.in_squares.
  destruct pt as [x v]. cbn [fst snd]. unfold pmt_entry.
  destruct (mem x (pw (pieces b c))); [|split; [intros [_ H]; discriminate | intros (_ & H & _); discriminate]].
  destruct (overlaps (single c x) (occupied b)); [split; [intros [_ H]; discriminate | intros (_ & _ & H & _); discriminate]|].
  destruct (is_empty (push_set b c x)) eqn:E.
  - apply is_empty_spec in E. split; [intros [_ H]; discriminate | intros (_ & _ & _ & _ & H); contradiction].
  - apply is_empty_false in E. split.
    + intros [L H]. inversion H; subst. tauto.
    + intros (L & _ & _ & -> & _). tauto.
Qed.

Lemma in_pcaps b c pt :
  In pt (pawn_caps b c) <->
  fst pt < 64 /\ mem (fst pt) (pw (pieces b c)) = true
  /\ overlaps (attack_set c (fst pt)) (occ (pieces b (opp_c c))) = true
  /\ snd pt = N.land (attack_set c (fst pt)) (occ (pieces b (opp_c c))).
Proof.
  rewrite pawn_caps_eq, (PB_in_fst_select _ squares pt (pcap_select b c)), BitsLemmas.in_squares.
  destruct pt as [x v]. cbn [fst snd]. unfold pcap_entry.
  destruct (mem x (pw (pieces b c))); [|split; [intros [_ H]; discriminate | intros (_ & H & _); discriminate]].
  destruct (overlaps (attack_set c x) (occ (pieces b (opp_c c)))).
  - split.
    + intros [L H]. inversion H; subst. tauto.
    + intros (L & _ & _ & ->). tauto.
  - split; [intros [_ H]; discriminate | intros (_ & _ & H & _); discriminate].
Qed.

Lemma NoDup_pmt b c : NoDup (map fst (pawn_move_targets b c)).
Proof. rewrite pawn_move_targets_eq. apply PB_NoDup_fst_select; [apply NoDup_squares | apply pmt_select]. Qed.

Lemma NoDup_pcaps b c : NoDup (map fst (pawn_caps b c)).
Proof. rewrite pawn_caps_eq. apply PB_NoDup_fst_select; [apply NoDup_squares | apply pcap_select]. Qed.

(* ------------------------------------------------------------------ *)
(** * coordinates of the targets *)

Section Pawns.
Variable b : board.
Variable c : color.
Hypothesis W : WF b.

Definition push1 (x t : N) : Prop :=
  fileZ t = fileZ x /\ rankZ t = (rankZ x + forward c)%Z /\ mem t (occupied b) = false.
Definition push2 (x t : N) : Prop :=
  fileZ t = fileZ x /\ rankZ t = (rankZ x + 2 * forward c)%Z /\ rankZ x = start_rank c
  /\ mem t (occupied b) = false /\ mem (sq (fileZ x) (rankZ x + forward c)) (occupied b) = false.
Definition capt (x t : N) : Prop :=
  (fileZ t = (fileZ x + 1)%Z \/ fileZ t = (fileZ x - 1)%Z) /\ rankZ t = (rankZ x + forward c)%Z
  /\ mem t (occ (pieces b (opp_c c))) = true.

Lemma pawns_le : pw (pieces b c) <= ALL64.
Proof. apply fits64_le. apply (WFs_fits_locate _ Pawn (WF_pieces b c W)). Qed.

Lemma pawn_is_occupied i : mem i (pw (pieces b c)) = true -> mem i (occupied b) = true.
Proof.
  intro H. rewrite (mem_occupied_c b i c).
  rewrite (WFs_locate_occ _ i Pawn (WF_pieces b c W) H). reflexivity.
Qed.

Lemma opp_is_occupied i : mem i (occ (pieces b (opp_c c))) = true -> mem i (occupied b) = true.
Proof. intro H. rewrite (mem_occupied_c b i c), H. apply orb_true_r. Qed.

Lemma mem_step_pawns s : mem s (pawn_step c (pw (pieces b c))) = true <->
  exists i, i < 64 /\ mem i (pw (pieces b c)) = true /\ mem s (pawn_step c (bit i)) = true.
Proof. apply (lor_hom_lift_mem (pawn_step c) _ s (pawn_step_hom c) pawns_le). Qed.

Lemma single_lt x s : x < 64 -> mem s (single c x) = true -> s < 64.
Proof.
  intros Lx. apply mem_lt64. apply pawn_step_fits, fits64_bit, Lx.
Qed.

(* the single-step square of x is free iff the engine's overlap test fails *)
Lemma single_free x : x < 64 ->
  (overlaps (single c x) (occupied b) = false <->
   forall s, s < 64 -> fileZ s = fileZ x -> rankZ s = (rankZ x + forward c)%Z -> mem s (occupied b) = false).
Proof.
  intro Lx. split.
  - intros H s Ls Fs Rs. destruct (mem s (occupied b)) eqn:M; [|reflexivity].
    assert (overlaps (single c x) (occupied b) = true) as X; [|congruence].
    apply overlaps_spec. exists s. split; [|exact M]. unfold single.
    rewrite (step1_spec c x s Lx Ls), Fs, Rs, !Z.eqb_refl. reflexivity.
  - intro H. destruct (overlaps (single c x) (occupied b)) eqn:E; [|reflexivity].
    apply overlaps_spec in E. destruct E as [s [M1 M2]].
    pose proof (single_lt x s Lx M1) as Ls. unfold single in M1.
    rewrite (step1_spec c x s Lx Ls) in M1. apply andb_true_iff in M1. destruct M1 as [F R].
    apply Z.eqb_eq in F, R. rewrite (H s Ls F R) in M2. discriminate.
Qed.

Lemma push_targets x t : x < 64 -> t < 64 -> mem x (pw (pieces b c)) = true ->
  (overlaps (single c x) (occupied b) = false /\ mem t (push_set b c x) = true) <-> (push1 x t \/ push2 x t).
Proof.
  intros Lx Lt Mx. rewrite (single_free x Lx). unfold push_set, move_mask.
  rewrite mem_lor, !mem_land, mem_andn, mem_lor, orb_true_iff, !andb_true_iff, negb_true_iff.
  unfold single. rewrite (step1_spec c x t Lx Lt), (step2_spec c x t Lx Lt), (mem_dbl_mask c t Lt).
  rewrite !andb_true_iff, !Z.eqb_eq.
  destruct (coords_range x Lx) as [Fx Rx]. destruct (coords_range t Lt) as [Ft Rt].
  split.
  - intros [Free [[[F R] [_ O]] | [[F R] [D O]]]].
    + left. unfold push1. tauto.
    + right. unfold push2.
      assert (OB : on_board (fileZ x) (rankZ x + forward c) = true).
      { apply on_board_bounds. destruct (forward_cases c) as [E|E]; rewrite E in *; lia. }
      destruct (sq_on_board _ _ OB) as (L1 & F1 & R1).
      assert (Free1 : mem (sq (fileZ x) (rankZ x + forward c)) (occupied b) = false) by (apply Free; assumption).
      split; [exact F|]. split; [exact R|].
      apply orb_true_iff in D. destruct D as [D|D].
      * exfalso. apply mem_step_pawns in D. destruct D as [i (Li & Mi & Si)].
        rewrite (step1_spec c i t Li Lt) in Si. apply andb_true_iff in Si. destruct Si as [Fi Ri].
        apply Z.eqb_eq in Fi, Ri.
        assert (i = sq (fileZ x) (rankZ x + forward c)) as ->.
        { apply coords_eq; [exact Li | exact L1 | rewrite F1; lia | rewrite R1; lia]. }
        rewrite (pawn_is_occupied _ Mi) in Free1. discriminate.
      * apply Z.eqb_eq in D. split; [lia|]. tauto.
  - intros [(F & R & O) | (F & R & S & O & O1)].
    + split.
      * intros s Ls Fs Rs. assert (s = t) as -> by (apply coords_eq; [assumption..|lia|lia]). exact O.
      * left. split; [tauto|]. split; [|exact O]. apply orb_true_iff. left.
        apply mem_step_pawns. exists x. split; [exact Lx|]. split; [exact Mx|].
        rewrite (step1_spec c x t Lx Lt), F, R, !Z.eqb_refl. reflexivity.
    + assert (OB : on_board (fileZ x) (rankZ x + forward c) = true).
      { apply on_board_bounds. destruct (forward_cases c) as [E|E]; rewrite E in *; lia. }
      destruct (sq_on_board _ _ OB) as (L1 & F1 & R1).
      split.
      * intros s Ls Fs Rs.
        assert (s = sq (fileZ x) (rankZ x + forward c)) as ->; [|exact O1].
        apply coords_eq; [exact Ls | exact L1 | rewrite F1; exact Fs | rewrite R1; exact Rs].
      * right. split; [tauto|]. split; [|exact O]. apply orb_true_iff. right. apply Z.eqb_eq. lia.
Qed.

Lemma capture_targets x t : x < 64 -> t < 64 ->
  (mem t (attack_set c x) = true /\ mem t (occ (pieces b (opp_c c))) = true) <-> capt x t.
Proof.
  intros Lx Lt. unfold attack_set, capt.
  rewrite mem_lor, (attack_east_spec c x t Lx Lt), (attack_west_spec c x t Lx Lt).
  rewrite orb_true_iff, !andb_true_iff, !Z.eqb_eq. tauto.
Qed.

(* ------------------------------------------------------------------ *)
(** * membership in the expansions *)

Lemma in_expand_pmt m :
  In m (expand b c (pawn_move_targets b c)) <->
  exists x t, x < 64 /\ t < 64 /\ mem x (pw (pieces b c)) = true /\ (push1 x t \/ push2 x t)
              /\ m = Std x t (pget (pieces b (opp_c c)) t).
Proof.
  rewrite in_expand_iff. split.
  - intros [[x v] [t (Hpt & Lt & Mt & E)]]. apply in_pmt in Hpt. cbn [fst snd] in *.
    destruct Hpt as (Lx & Mx & Ov & -> & _). exists x, t.
    split; [exact Lx|]. split; [exact Lt|]. split; [exact Mx|]. split; [|exact E].
    apply (push_targets x t Lx Lt Mx). tauto.
  - intros [x [t (Lx & Lt & Mx & P & E)]]. apply (push_targets x t Lx Lt Mx) in P. destruct P as [Ov Mt].
    exists (x, push_set b c x), t. cbn [fst snd]. split; [|tauto].
    apply in_pmt. cbn [fst snd]. split; [exact Lx|]. split; [exact Mx|]. split; [exact Ov|].
    split; [reflexivity|]. intro Z. rewrite Z, mem_0 in Mt. discriminate.
Qed.

Lemma in_expand_pcaps m :
  In m (expand b c (pawn_caps b c)) <->
  exists x t, x < 64 /\ t < 64 /\ mem x (pw (pieces b c)) = true /\ capt x t
              /\ m = Std x t (pget (pieces b (opp_c c)) t).
Proof.
  rewrite in_expand_iff. split.
  - intros [[x v] [t (Hpt & Lt & Mt & E)]]. apply in_pcaps in Hpt. cbn [fst snd] in *.
    destruct Hpt as (Lx & Mx & Ov & ->). exists x, t.
    split; [exact Lx|]. split; [exact Lt|]. split; [exact Mx|]. split; [|exact E].
    apply (capture_targets x t Lx Lt). rewrite mem_land in Mt. apply andb_true_iff in Mt. exact Mt.
  - intros [x [t (Lx & Lt & Mx & P & E)]]. apply (capture_targets x t Lx Lt) in P. destruct P as [M1 M2].
    exists (x, N.land (attack_set c x) (occ (pieces b (opp_c c)))), t. cbn [fst snd].
    split; [|rewrite mem_land, M1, M2; tauto].
    apply in_pcaps. cbn [fst snd]. split; [exact Lx|]. split; [exact Mx|]. split; [|reflexivity].
    apply overlaps_spec. exists t. tauto.
Qed.

Theorem in_pawn_all m :
  In m (pawn_all b c) <->
  exists x t, x < 64 /\ t < 64 /\ mem x (pw (pieces b c)) = true
              /\ (push1 x t \/ push2 x t \/ capt x t)
              /\ m = Std x t (pget (pieces b (opp_c c)) t).
Proof.
  unfold pawn_all. rewrite expand_app, in_app_iff, in_expand_pmt, in_expand_pcaps. split.
  - intros [[x [t H]]|[x [t H]]]; exists x, t; tauto.
  - intros [x [t (Lx & Lt & Mx & [P|[P|P]] & E)]]; [left|left|right]; exists x, t; tauto.
Qed.

Theorem NoDup_pawn_all : NoDup (pawn_all b c).
Proof.
  unfold pawn_all. rewrite expand_app. apply PB_NoDup_app.
  - apply NoDup_expand, NoDup_pmt.
  - apply NoDup_expand, NoDup_pcaps.
  - intros m H1 H2. apply in_expand_pmt in H1. apply in_expand_pcaps in H2.
    destruct H1 as [x [t (_ & _ & _ & P & E1)]]. destruct H2 as [x' [t' (_ & _ & _ & (_ & _ & Q) & E2)]].
    rewrite E1 in E2. inversion E2; subst x' t'.
    apply opp_is_occupied in Q. unfold push1, push2 in P.
    destruct P as [(_ & _ & O)|(_ & _ & _ & O & _)]; congruence.
Qed.

End Pawns.

Print Assumptions in_pawn_all.
Print Assumptions NoDup_pawn_all.
