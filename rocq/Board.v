(* Board.v — PieceSet, MoveInfo, PositionInfo, Board (src/board/*.rs), state-threading.
   Executable definitions only.  Every Vec::pop().unwrap(), last().unwrap(), u8/u16
   arithmetic overflow (the harness builds with overflow checks) is an explicit Panic. *)
From ChessV Require Export Types.

(* ---- Zobrist constants: parameters of the model (every build draws its own) ---- *)
Record ztable := {
  zp : piece -> N -> color -> N;   (* ZOBRIST_PIECES_TABLE[piece][square][color] *)
  zc : N -> N;                     (* ZOBRIST_CASTLING_RIGHTS_TABLE[rights] *)
  ze : N -> N                      (* ZOBRIST_EN_PASSANT_TABLE[square] *)
}.

(* ---- PieceSet ---- *)
Record pset := { pw : N; kn : N; bi : N; rk : N; qn : N; kg : N; occ : N }.
Definition pset_empty : pset := {| pw := 0; kn := 0; bi := 0; rk := 0; qn := 0; kg := 0; occ := 0 |}.

Definition locate (s : pset) (p : piece) : N :=
  match p with Pawn => pw s | Knight => kn s | Bishop => bi s | Rook => rk s | Queen => qn s | King => kg s end.

Definition upd (s : pset) (p : piece) (f : N -> N) : pset :=
  match p with
  | Pawn   => {| pw := f (pw s); kn := kn s; bi := bi s; rk := rk s; qn := qn s; kg := kg s; occ := f (occ s) |}
  | Knight => {| pw := pw s; kn := f (kn s); bi := bi s; rk := rk s; qn := qn s; kg := kg s; occ := f (occ s) |}
  | Bishop => {| pw := pw s; kn := kn s; bi := f (bi s); rk := rk s; qn := qn s; kg := kg s; occ := f (occ s) |}
  | Rook   => {| pw := pw s; kn := kn s; bi := bi s; rk := f (rk s); qn := qn s; kg := kg s; occ := f (occ s) |}
  | Queen  => {| pw := pw s; kn := kn s; bi := bi s; rk := rk s; qn := f (qn s); kg := kg s; occ := f (occ s) |}
  | King   => {| pw := pw s; kn := kn s; bi := bi s; rk := rk s; qn := qn s; kg := f (kg s); occ := f (occ s) |}
  end.

(* PieceSet::get — first bitboard in enum order that overlaps the square *)
Definition pget (s : pset) (i : N) : option piece :=
  if mem i (pw s) then Some Pawn
  else if mem i (kn s) then Some Knight
  else if mem i (bi s) then Some Bishop
  else if mem i (rk s) then Some Rook
  else if mem i (qn s) then Some Queen
  else if mem i (kg s) then Some King
  else None.

Definition pput (s : pset) (i : N) (p : piece) : res pset :=
  if mem i (occ s) then Err SquareOccupied
  else Ok (upd s p (fun x => N.lor x (bit i))).

Definition premove (s : pset) (i : N) : option (piece * pset) :=
  match pget s i with
  | None => None
  | Some p => Some (p, upd s p (fun x => N.lxor x (bit i)))
  end.

(* ---- Board ---- *)
Record board := {
  white : pset;
  black : pset;
  turn : color;
  ep_stack : list N;            (* en_passant_target_stack, top first; Bitboards, 0 = none *)
  cr_stack : list N;            (* castle_rights_stack, top first *)
  hm_stack : list N;            (* halfmove_clock_stack (u8), top first *)
  fullmove : N;                 (* fullmove_clock (u16 after the D4 repair) *)
  pos_count : list ((N * color) * N);   (* position_count map, (key, side) -> u8 *)
  seen_stack : list N;          (* max_seen_position_count_stack, top first *)
  hash : N                      (* current_position_hash *)
}.

Definition FULLMOVE_MAX : N := 65535.
Definition U8_MAX : N := 255.

Definition board_new : board :=
  {| white := pset_empty; black := pset_empty; turn := White;
     ep_stack := [0]; cr_stack := [ALL_RIGHTS]; hm_stack := [0]; fullmove := 1;
     pos_count := []; seen_stack := [1]; hash := 0 |}.

Definition set_white (b : board) (s : pset) : board :=
  {| white := s; black := black b; turn := turn b; ep_stack := ep_stack b; cr_stack := cr_stack b;
     hm_stack := hm_stack b; fullmove := fullmove b; pos_count := pos_count b;
     seen_stack := seen_stack b; hash := hash b |}.
Definition set_black (b : board) (s : pset) : board :=
  {| white := white b; black := s; turn := turn b; ep_stack := ep_stack b; cr_stack := cr_stack b;
     hm_stack := hm_stack b; fullmove := fullmove b; pos_count := pos_count b;
     seen_stack := seen_stack b; hash := hash b |}.
Definition set_turn (b : board) (c : color) : board :=
  {| white := white b; black := black b; turn := c; ep_stack := ep_stack b; cr_stack := cr_stack b;
     hm_stack := hm_stack b; fullmove := fullmove b; pos_count := pos_count b;
     seen_stack := seen_stack b; hash := hash b |}.
Definition set_ep (b : board) (l : list N) : board :=
  {| white := white b; black := black b; turn := turn b; ep_stack := l; cr_stack := cr_stack b;
     hm_stack := hm_stack b; fullmove := fullmove b; pos_count := pos_count b;
     seen_stack := seen_stack b; hash := hash b |}.
Definition set_cr (b : board) (l : list N) : board :=
  {| white := white b; black := black b; turn := turn b; ep_stack := ep_stack b; cr_stack := l;
     hm_stack := hm_stack b; fullmove := fullmove b; pos_count := pos_count b;
     seen_stack := seen_stack b; hash := hash b |}.
Definition set_hm (b : board) (l : list N) : board :=
  {| white := white b; black := black b; turn := turn b; ep_stack := ep_stack b; cr_stack := cr_stack b;
     hm_stack := l; fullmove := fullmove b; pos_count := pos_count b;
     seen_stack := seen_stack b; hash := hash b |}.
Definition set_fullmove (b : board) (n : N) : board :=
  {| white := white b; black := black b; turn := turn b; ep_stack := ep_stack b; cr_stack := cr_stack b;
     hm_stack := hm_stack b; fullmove := n; pos_count := pos_count b;
     seen_stack := seen_stack b; hash := hash b |}.
Definition set_counts (b : board) (m : list ((N * color) * N)) (s : list N) : board :=
  {| white := white b; black := black b; turn := turn b; ep_stack := ep_stack b; cr_stack := cr_stack b;
     hm_stack := hm_stack b; fullmove := fullmove b; pos_count := m;
     seen_stack := s; hash := hash b |}.
Definition set_hash (b : board) (h : N) : board :=
  {| white := white b; black := black b; turn := turn b; ep_stack := ep_stack b; cr_stack := cr_stack b;
     hm_stack := hm_stack b; fullmove := fullmove b; pos_count := pos_count b;
     seen_stack := seen_stack b; hash := h |}.

Definition pieces (b : board) (c : color) : pset := match c with White => white b | Black => black b end.
Definition set_pieces (b : board) (c : color) (s : pset) : board :=
  match c with White => set_white b s | Black => set_black b s end.
Definition occupied (b : board) : N := N.lor (occ (white b)) (occ (black b)).
Definition is_occupied (b : board) (i : N) : bool := mem i (occupied b).

(* Board::get *)
Definition bget (b : board) (i : N) : option (piece * color) :=
  if mem i (occ (white b)) then option_map (fun p => (p, White)) (pget (white b) i)
  else if mem i (occ (black b)) then option_map (fun p => (p, Black)) (pget (black b) i)
  else None.

Section WithTable.
Variable T : ztable.

Definition toggle_piece (b : board) (i : N) (p : piece) (c : color) : board :=
  set_hash b (N.lxor (hash b) (zp T p i c)).

(* trailing_zeros of a non-zero u64 *)
Definition tz (x : N) : N := hd 64 (bits_of x).

Definition toggle_ep (b : board) (sq : N) : board :=
  if is_empty sq then b else set_hash b (N.lxor (hash b) (ze T (tz sq))).

Definition toggle_rights (b : board) (r : N) : board :=
  set_hash b (N.lxor (hash b) (zc T r)).

(* Board::put *)
Definition put (b : board) (i : N) (p : piece) (c : color) : res board :=
  if is_occupied b i then Err SquareOccupied
  else
    let* s := pput (pieces b c) i p in
    Ok (toggle_piece (set_pieces b c s) i p c).

(* Board::remove *)
Definition bremove (b : board) (i : N) : option ((piece * color) * board) :=
  match bget b i with
  | None => None
  | Some (p, c) =>
      match premove (pieces b c) i with
      | None => None
      | Some (_, s) => Some ((p, c), toggle_piece (set_pieces b c s) i p c)
      end
  end.

Definition toggle_turn (b : board) : board := set_turn b (opp_c (turn b)).

(* MoveInfo::peek_en_passant_target — last().unwrap() *)
Definition peek_ep (b : board) : res N :=
  match ep_stack b with x :: _ => Ok x | [] => Panic end.

(* Board::push_en_passant_target (after the D1 repair: the previous target's key is retired) *)
Definition push_ep (b : board) (target : N) : res board :=
  let* prev := peek_ep b in
  let b1 := toggle_ep b prev in
  let b2 := toggle_ep b1 target in
  Ok (set_ep b2 (target :: ep_stack b2)).

(* Board::pop_en_passant_target (after the D1 repair: the uncovered target's key is restored) *)
Definition pop_ep (b : board) : res (N * board) :=
  match ep_stack b with
  | [] => Panic
  | t :: rest =>
      let b1 := toggle_ep (set_ep b rest) t in
      let* restored := peek_ep b1 in
      Ok (t, toggle_ep b1 restored)
  end.

Definition peek_rights (b : board) : res N :=
  match cr_stack b with x :: _ => Ok x | [] => Panic end.

(* Board::lose_castle_rights *)
Definition lose_rights (b : board) (lost : N) : res board :=
  let* old := peek_rights b in
  let new := N.lxor old (N.land old lost) in
  let b1 := set_cr b (new :: cr_stack b) in
  Ok (toggle_rights (toggle_rights b1 old) new).

(* Board::pop_castle_rights *)
Definition pop_rights (b : board) : res board :=
  match cr_stack b with
  | [] => Panic
  | old :: rest =>
      let b1 := set_cr b rest in
      let* new := peek_rights b1 in
      Ok (toggle_rights (toggle_rights b1 old) new)
  end.

(* Board::preserve_castle_rights *)
Definition preserve_rights (b : board) : res board :=
  let* r := peek_rights b in
  Ok (set_cr b (r :: cr_stack b)).

Definition inc_fullmove (b : board) : res board :=
  if fullmove b =? FULLMOVE_MAX then Panic else Ok (set_fullmove b (fullmove b + 1)).
Definition dec_fullmove (b : board) : res board :=
  if fullmove b =? 0 then Panic else Ok (set_fullmove b (fullmove b - 1)).

Definition halfmove (b : board) : res N :=
  match hm_stack b with x :: _ => Ok x | [] => Panic end.
Definition push_halfmove (b : board) (n : N) : board := set_hm b (n :: hm_stack b).
Definition inc_halfmove (b : board) : res board :=
  let* old := halfmove b in
  if old =? U8_MAX then Panic else Ok (push_halfmove b (old + 1)).
Definition reset_halfmove (b : board) : board := push_halfmove b 0.
Definition pop_halfmove (b : board) : res board :=
  match hm_stack b with _ :: rest => Ok (set_hm b rest) | [] => Panic end.

(* ---- PositionInfo: repetition bookkeeping (after the D11 repair: keyed by (key, side)) ---- *)
Definition key_eqb (a b : N * color) : bool := (fst a =? fst b) && color_eqb (snd a) (snd b).

Fixpoint cnt_get (m : list ((N * color) * N)) (k : N * color) : option N :=
  match m with
  | [] => None
  | (k', v) :: m' => if key_eqb k' k then Some v else cnt_get m' k
  end.
Fixpoint cnt_set (m : list ((N * color) * N)) (k : N * color) (v : N) : list ((N * color) * N) :=
  match m with
  | [] => [(k, v)]
  | (k', v') :: m' => if key_eqb k' k then (k', v) :: m' else (k', v') :: cnt_set m' k v
  end.

Definition count_position (b : board) : res (N * board) :=
  let k := (hash b, turn b) in
  match cnt_get (pos_count b) k with
  | None => Ok (1, set_counts b (cnt_set (pos_count b) k 1) (1 :: seen_stack b))
  | Some v =>
      if v =? U8_MAX then Panic
      else Ok (v + 1, set_counts b (cnt_set (pos_count b) k (v + 1)) ((v + 1) :: seen_stack b))
  end.

Definition uncount_position (b : board) : res (N * board) :=
  let k := (hash b, turn b) in
  match cnt_get (pos_count b) k with
  | None => Panic     (* .get(..).unwrap() on a key never inserted *)
  | Some v =>
      if v =? 0 then Panic
      else Ok (v - 1, set_counts b (cnt_set (pos_count b) k (v - 1)) (tl (seen_stack b)))
  end.

Definition max_seen (b : board) : res N :=
  match seen_stack b with x :: _ => Ok x | [] => Panic end.

End WithTable.
