(* PseudoProofs3.v — C01, pseudo-legal layer, castling.
   The engine's `castle_moves` checks: king not attacked, right held, transit square empty
   and not attacked, transit / target (and the b-file square, queenside) not occupied.
   It does NOT check the target square for attack (left to the legality filter), nor the
   rook (from the invariant), nor the king's home square (from the invariant).
   `Rules.castle_moves_r` checks all of these.  Result: under `PInv`,
     rules  ⊆  engine,   and   engine \ rules  =  castles whose king target is attacked.
   Uses AttackProofs.attack_targets_spec.  No axioms. *)
From Coq Require Import Lia ZArith NArith List Bool.
From ChessV Require Import Bits Types Board Moves Rays MoveGen Rules Abs GeomProofs.
From ChessV Require Import BitsLemmas BoardLemmas WfReflect PseudoBase.
From ChessV Require AttackProofs.
Import ListNotations.
Open Scope N_scope.
Open Scope list_scope.

Definition ks_transit (c : color) : N := match c with White => 5 | Black => 61 end.
Definition ks_target (c : color) : N := match c with White => 6 | Black => 62 end.
Definition qs_transit (c : color) : N := match c with White => 3 | Black => 59 end.
Definition qs_target (c : color) : N := match c with White => 2 | Black => 58 end.
Definition qs_knight (c : color) : N := match c with White => 1 | Black => 57 end.

Lemma in_if_single {A} (cnd : bool) (x m : A) : In m (if cnd then [x] else []) <-> cnd = true /\ m = x.
Proof.
  destruct cnd; cbn [In]; split.
  - intros [<-|[]]. tauto.
  - intros [_ ->]. left. reflexivity.
  - intros [].
  - intros [H _]. discriminate.
Qed.

Lemma is_empty_cell_iff (x : cell) : is_empty_cell x = true <-> x = None.
Proof. destruct x; cbn; split; intro H; congruence. Qed.

Lemma ltb_0_iff x : (0 <? x) = true <-> x <> 0.
Proof. rewrite N.ltb_lt. lia. Qed.

Lemma atc_const b f r s : on_board f r = true -> sq f r = s -> atc (abstract b) f r = bget b s.
Proof. intros OB <-. apply atc_abs. exact OB. Qed.

Lemma home_sq_lt c : home_sq c < 64.  Proof. destruct c; reflexivity. Qed.
Lemma ks_transit_lt c : ks_transit c < 64.  Proof. destruct c; reflexivity. Qed.
Lemma qs_transit_lt c : qs_transit c < 64.  Proof. destruct c; reflexivity. Qed.

Section Castles.
Variables rook_t bishop_t : N -> N -> N.
Hypothesis rook_t_ref : forall x o, x < 64 -> rook_t x o = rook_ref x o.
Hypothesis bishop_t_ref : forall x o, x < 64 -> bishop_t x o = bishop_ref x o.
Variable b : board.
Variable c : color.
Hypothesis PI : PInv b c.

Definition att (j : N) : bool := attacked_by (abstract b) (opp_c c) (fileZ j) (rankZ j).
Definition amap : N := attack_targets rook_t bishop_t b (opp_c c).

Let W : WF b := proj1 PI.

Lemma amap_empty j : j < 64 -> bget b j = None -> mem j amap = att j.
Proof.
  intros Lj E. unfold amap, att.
  apply (AttackProofs.attack_targets_spec rook_t bishop_t rook_t_ref bishop_t_ref b (opp_c c) j W Lj).
  apply (bget_none_iff b j W) in E. rewrite (mem_occupied_c b j c) in E.
  apply orb_false_elim in E. tauto.
Qed.

Lemma amap_own j p : j < 64 -> bget b j = Some (p, c) -> mem j amap = att j.
Proof.
  intros Lj E. unfold amap, att.
  apply (AttackProofs.attack_targets_spec rook_t bishop_t rook_t_ref bishop_t_ref b (opp_c c) j W Lj).
  apply (WF_disjoint b j c W). apply (bget_own_iff b j c W). exists p. exact E.
Qed.

Lemma home_lt : home_sq c < 64.
Proof. apply home_sq_lt. Qed.

(* with the king at home, the engine's "king attacked" test is the rules' *)
Lemma king_test : bget b (home_sq c) = Some (King, c) ->
  overlaps (kg (pieces b c)) amap = att (home_sq c).
Proof.
  intro K. rewrite <- (amap_own _ King home_lt K).
  pose proof (proj1 (bget_mem b (home_sq c) King c W) K) as MK. cbn [locate] in MK.
  pose proof PI as (_ & _ & _ & _ & _ & _ & U).
  destruct (overlaps (kg (pieces b c)) amap) eqn:O.
  - apply overlaps_spec in O. destruct O as [i [M1 M2]].
    rewrite (U i (home_sq c) M1 MK) in M2. symmetry. exact M2.
  - destruct (mem (home_sq c) amap) eqn:M; [|reflexivity].
    assert (overlaps (kg (pieces b c)) amap = true) as X; [|congruence].
    apply overlaps_spec. exists (home_sq c). tauto.
Qed.

(* ------------------------------------------------------------------ *)
(** * the two lists as conditions *)

Definition rules_ks : Prop :=
  N.land (top (cr_stack b)) (ks_bit c) <> 0
  /\ bget b (home_sq c) = Some (King, c) /\ att (home_sq c) = false
  /\ bget b (ks_rook_sq c) = Some (Rook, c)
  /\ bget b (ks_transit c) = None /\ bget b (ks_target c) = None
  /\ att (ks_transit c) = false /\ att (ks_target c) = false.

Definition rules_qs : Prop :=
  N.land (top (cr_stack b)) (qs_bit c) <> 0
  /\ bget b (home_sq c) = Some (King, c) /\ att (home_sq c) = false
  /\ bget b (qs_rook_sq c) = Some (Rook, c)
  /\ bget b (qs_transit c) = None /\ bget b (qs_target c) = None /\ bget b (qs_knight c) = None
  /\ att (qs_transit c) = false /\ att (qs_target c) = false.

Lemma in_castle_moves_r m :
  In m (castle_moves_r (abstract b) c) <->
  (rules_ks /\ m = Castle (home_sq c) (ks_target c)) \/ (rules_qs /\ m = Castle (home_sq c) (qs_target c)).
Proof.
  unfold castle_moves_r, rules_ks, rules_qs, att, has_right. cbv zeta.
  rewrite in_app_iff, !in_if_single.
  destruct c; cbn [opp_c home_sq ks_target qs_target ks_transit qs_transit qs_knight ks_rook_sq qs_rook_sq ks_bit qs_bit];
    rewrite !andb_true_iff, !negb_true_iff, !is_pc_iff, !is_empty_cell_iff, !N.eqb_neq.
  - rewrite (atc_const b 4 7 60 eq_refl eq_refl), (atc_const b 7 7 63 eq_refl eq_refl),
            (atc_const b 5 7 61 eq_refl eq_refl), (atc_const b 6 7 62 eq_refl eq_refl),
            (atc_const b 0 7 56 eq_refl eq_refl), (atc_const b 3 7 59 eq_refl eq_refl),
            (atc_const b 2 7 58 eq_refl eq_refl), (atc_const b 1 7 57 eq_refl eq_refl).
    change (sq 4 7) with 60. change (sq 6 7) with 62. change (sq 2 7) with 58.
    change (fileZ 60) with 4%Z. change (rankZ 60) with 7%Z.
    change (fileZ 61) with 5%Z. change (rankZ 61) with 7%Z.
    change (fileZ 62) with 6%Z. change (rankZ 62) with 7%Z.
    change (fileZ 59) with 3%Z. change (rankZ 59) with 7%Z.
    change (fileZ 58) with 2%Z. change (rankZ 58) with 7%Z.
    change (prights (abstract b)) with (top (cr_stack b)).
    split; (intros [[HH EE]|[HH EE]]; [left|right]; (split; [|exact EE]);
      repeat match goal with HX : _ /\ _ |- _ => destruct HX end; repeat split; assumption).
  - rewrite (atc_const b 4 0 4 eq_refl eq_refl), (atc_const b 7 0 7 eq_refl eq_refl),
            (atc_const b 5 0 5 eq_refl eq_refl), (atc_const b 6 0 6 eq_refl eq_refl),
            (atc_const b 0 0 0 eq_refl eq_refl), (atc_const b 3 0 3 eq_refl eq_refl),
            (atc_const b 2 0 2 eq_refl eq_refl), (atc_const b 1 0 1 eq_refl eq_refl).
    change (sq 4 0) with 4. change (sq 6 0) with 6. change (sq 2 0) with 2.
    change (fileZ 4) with 4%Z. change (rankZ 4) with 0%Z.
    change (fileZ 5) with 5%Z. change (rankZ 5) with 0%Z.
    change (fileZ 6) with 6%Z. change (rankZ 6) with 0%Z.
    change (fileZ 3) with 3%Z. change (rankZ 3) with 0%Z.
    change (fileZ 2) with 2%Z. change (rankZ 2) with 0%Z.
    change (prights (abstract b)) with (top (cr_stack b)).
    split; (intros [[HH EE]|[HH EE]]; [left|right]; (split; [|exact EE]);
      repeat match goal with HX : _ /\ _ |- _ => destruct HX end; repeat split; assumption).
Qed.

Definition eng_ks : Prop :=
  N.land (ks_bit c) (top (cr_stack b)) <> 0
  /\ bget b (ks_transit c) = None /\ mem (ks_transit c) amap = false
  /\ mem (ks_transit c) (occupied b) = false /\ mem (ks_target c) (occupied b) = false.

Definition eng_qs : Prop :=
  N.land (qs_bit c) (top (cr_stack b)) <> 0
  /\ bget b (qs_transit c) = None /\ mem (qs_transit c) amap = false
  /\ mem (qs_transit c) (occupied b) = false /\ mem (qs_knight c) (occupied b) = false
  /\ mem (qs_target c) (occupied b) = false.

Lemma castle_moves_checked : overlaps (kg (pieces b c)) amap = true ->
  castle_moves rook_t bishop_t b c = Ok [].
Proof.
  intro O. unfold castle_moves. fold amap. cbv zeta. rewrite O. reflexivity.
Qed.

Lemma in_castle_moves l m : overlaps (kg (pieces b c)) amap = false ->
  castle_moves rook_t bishop_t b c = Ok l ->
  (In m l <->
   (eng_ks /\ m = Castle (home_sq c) (ks_target c)) \/ (eng_qs /\ m = Castle (home_sq c) (qs_target c))).
Proof.
  intros O H. unfold castle_moves in H. fold amap in H. cbv zeta in H. rewrite O in H.
  pose proof PI as (_ & _ & S & _). rewrite (peek_rights_top b S) in H. cbn [bind] in H.
  apply Ok_inj in H. subst l. unfold eng_ks, eng_qs.
  rewrite in_app_iff, !in_if_single.
  destruct c; cbn [home_sq ks_target qs_target ks_transit qs_transit qs_knight ks_bit qs_bit];
    rewrite !andb_true_iff, !negb_true_iff, !is_none_iff, !ltb_0_iff;
    unfold E1, E8, F1, F8, G1, G8, D1, D8, C1, C8, B1, B8; tauto.
Qed.

(* ------------------------------------------------------------------ *)
(** * the comparison *)

Lemma none_unocc j : bget b j = None -> mem j (occupied b) = false.
Proof. apply (bget_none_iff b j W). Qed.

Lemma rules_ks_eng : overlaps (kg (pieces b c)) amap = false -> rules_ks -> eng_ks.
Proof.
  intros _ (R & K & AK & Rk & T1 & T2 & A1 & A2). unfold eng_ks.
  split; [rewrite N.land_comm; exact R|]. split; [exact T1|].
  split; [rewrite amap_empty; [exact A1 | apply ks_transit_lt | exact T1]|].
  split; apply none_unocc; assumption.
Qed.

Lemma rules_qs_eng : overlaps (kg (pieces b c)) amap = false -> rules_qs -> eng_qs.
Proof.
  intros _ (R & K & AK & Rk & T1 & T2 & T3 & A1 & A2). unfold eng_qs.
  split; [rewrite N.land_comm; exact R|]. split; [exact T1|].
  split; [rewrite amap_empty; [exact A1 | apply qs_transit_lt | exact T1]|].
  repeat split; apply none_unocc; assumption.
Qed.

Lemma eng_ks_rules : overlaps (kg (pieces b c)) amap = false -> eng_ks -> att (ks_target c) = false -> rules_ks.
Proof.
  intros O (R & T1 & A1 & _ & O2) A2. unfold rules_ks.
  pose proof PI as (_ & _ & _ & _ & [Z|[K Rk]] & _ & _); [rewrite N.land_comm in Z; contradiction|].
  split; [rewrite N.land_comm; exact R|]. split; [exact K|].
  split; [rewrite <- (king_test K); exact O|]. split; [exact Rk|]. split; [exact T1|].
  split; [apply (bget_none_iff b _ W); exact O2|].
  split; [rewrite <- (amap_empty _ (ks_transit_lt c) T1); exact A1 | exact A2].
Qed.

Lemma eng_qs_rules : overlaps (kg (pieces b c)) amap = false -> eng_qs -> att (qs_target c) = false -> rules_qs.
Proof.
  intros O (R & T1 & A1 & _ & O3 & O2) A2. unfold rules_qs.
  pose proof PI as (_ & _ & _ & _ & _ & [Z|[K Rk]] & _); [rewrite N.land_comm in Z; contradiction|].
  split; [rewrite N.land_comm; exact R|]. split; [exact K|].
  split; [rewrite <- (king_test K); exact O|]. split; [exact Rk|]. split; [exact T1|].
  split; [apply (bget_none_iff b _ W); exact O2|].
  split; [apply (bget_none_iff b _ W); exact O3|].
  split; [rewrite <- (amap_empty _ (qs_transit_lt c) T1); exact A1 | exact A2].
Qed.

Theorem castle_moves_total : exists l, castle_moves rook_t bishop_t b c = Ok l.
Proof.
  unfold castle_moves. cbv zeta. destruct (overlaps _ _); [eexists; reflexivity|].
  pose proof PI as (_ & _ & S & _). rewrite (peek_rights_top b S). cbn [bind]. eexists. reflexivity.
Qed.

(* every castle the rules allow is emitted *)
Theorem castle_rules_incl l m : castle_moves rook_t bishop_t b c = Ok l ->
  In m (castle_moves_r (abstract b) c) -> In m l.
Proof.
  intros H Hin. apply in_castle_moves_r in Hin.
  destruct (overlaps (kg (pieces b c)) amap) eqn:O.
  - exfalso. destruct Hin as [[(_ & K & AK & _) _]|[(_ & K & AK & _) _]];
      rewrite <- (king_test K) in AK; congruence.
  - apply (in_castle_moves l m O H). destruct Hin as [[R E]|[R E]]; [left|right]; split; try exact E.
    + apply rules_ks_eng; assumption.
    + apply rules_qs_eng; assumption.
Qed.

(* every emitted castle is one the rules allow, unless the king would land on an attacked square *)
Theorem castle_engine_incl l m : castle_moves rook_t bishop_t b c = Ok l -> In m l ->
  att (mv_to m) = false -> In m (castle_moves_r (abstract b) c).
Proof.
  intros H Hin A.
  destruct (overlaps (kg (pieces b c)) amap) eqn:O.
  - rewrite (castle_moves_checked O) in H. apply Ok_inj in H. subst l. destruct Hin.
  - apply (in_castle_moves l m O H) in Hin. apply in_castle_moves_r.
    destruct Hin as [[R ->]|[R ->]]; cbn [mv_to] in A; [left|right]; split; try reflexivity.
    + apply eng_ks_rules; assumption.
    + apply eng_qs_rules; assumption.
Qed.

(* the rules' castles never land on an attacked square *)
Theorem castle_rules_target_safe m : In m (castle_moves_r (abstract b) c) -> att (mv_to m) = false.
Proof.
  intro Hin. apply in_castle_moves_r in Hin.
  destruct Hin as [[R ->]|[R ->]]; cbn [mv_to]; [destruct R as (_ & _ & _ & _ & _ & _ & _ & A) | destruct R as (_ & _ & _ & _ & _ & _ & _ & _ & A)]; exact A.
Qed.

(* the engine's castles are Castle moves from the home square, and distinct *)
Theorem castle_moves_shape l m : castle_moves rook_t bishop_t b c = Ok l -> In m l ->
  m = Castle (home_sq c) (ks_target c) \/ m = Castle (home_sq c) (qs_target c).
Proof.
  intros H Hin. destruct (overlaps (kg (pieces b c)) amap) eqn:O.
  - rewrite (castle_moves_checked O) in H. apply Ok_inj in H. subst l. destruct Hin.
  - apply (in_castle_moves l m O H) in Hin. tauto.
Qed.

Theorem castle_moves_NoDup l : castle_moves rook_t bishop_t b c = Ok l -> NoDup l.
Proof.
  intro H. unfold castle_moves in H. cbv zeta in H.
  destruct (overlaps _ _); [apply Ok_inj in H; subst l; constructor|].
  pose proof PI as (_ & _ & S & _). rewrite (peek_rights_top b S) in H. cbn [bind] in H.
  apply Ok_inj in H. subst l. apply PB_NoDup_app.
  - match goal with |- NoDup (if ?x then _ else _) => destruct x end; repeat constructor. intros [].
  - match goal with |- NoDup (if ?x then _ else _) => destruct x end; repeat constructor. intros [].
  - intros m H1 H2. apply in_if_single in H1. apply in_if_single in H2.
    destruct H1 as [_ E1']. destruct H2 as [_ E2']. rewrite E1' in E2'. destruct c; discriminate.
Qed.

(* the set-level statement: engine = rules ∪ {castles into an attacked square} *)
Definition castle_into_attack (l : list cmove) (m : cmove) : Prop := In m l /\ att (mv_to m) = true.

Theorem castle_moves_exact l m : castle_moves rook_t bishop_t b c = Ok l ->
  (In m l <-> In m (castle_moves_r (abstract b) c) \/ castle_into_attack l m).
Proof.
  intro H. unfold castle_into_attack. split.
  - intro Hin. destruct (att (mv_to m)) eqn:A; [right; tauto|].
    left. apply (castle_engine_incl l m H Hin A).
  - intros [Hin|[Hin _]]; [apply (castle_rules_incl l m H Hin) | exact Hin].
Qed.

End Castles.

(* ------------------------------------------------------------------ *)
(** * non-vacuity *)

Fixpoint PP3_put_all (b : board) (l : list (N * piece * color)) : board :=
  match l with
  | [] => b
  | (i, p, c) :: rest =>
      match put example_table b i p c with Ok b' => PP3_put_all b' rest | _ => b end
  end.

(* White Ke1 Ra1 Rh1, Black Ke8 and a rook on g8 attacking g1: the engine still emits O-O,
   the rules do not; O-O-O is emitted by both *)
Definition PP3_board : board :=
  PP3_put_all board_new [(4, King, White); (0, Rook, White); (7, Rook, White); (60, King, Black); (62, Rook, Black)].

Example PP3_board_inv : pinvb (set_cr PP3_board [3 + 8]) White = true.
Proof. vm_compute. reflexivity. Qed.

Example PP3_castles :
  castle_moves rook_ref bishop_ref (set_cr PP3_board [3 + 8]) White = Ok [Castle 4 6; Castle 4 2]
  /\ castle_moves_r (abstract (set_cr PP3_board [3 + 8])) White = [Castle 4 2]
  /\ attacked_by (abstract (set_cr PP3_board [3 + 8])) Black (fileZ 6) (rankZ 6) = true.
Proof. vm_compute. repeat split; reflexivity. Qed.

Print Assumptions castle_moves_exact.
Print Assumptions castle_rules_incl.
Print Assumptions castle_moves_NoDup.
