(* TurnFrame.v — making and unmaking a move never reads or writes the side-to-move field.

   The searcher (src/alpha_beta_searcher/mod.rs, Search.ab) does
       apply; toggle_turn; recurse; undo; toggle_turn
   so the undo runs on a board whose turn field differs from the one apply produced.  To
   conclude that the caller's board is restored we need: apply_move / undo_move commute with
   set_turn (and hence with toggle_turn) and preserve the turn field.  Proofs only. *)
From Coq Require Import Lia List.
From ChessV Require Import BoardLemmas Moves.
Import ListNotations.
Open Scope N_scope.

#[local] Arguments N.add : simpl never.
#[local] Arguments N.sub : simpl never.
#[local] Arguments N.eqb : simpl never.
#[local] Arguments N.ltb : simpl never.
#[local] Arguments N.leb : simpl never.
#[local] Arguments N.land : simpl never.
#[local] Arguments N.lor : simpl never.
#[local] Arguments N.lxor : simpl never.

Definition rmap {A B} (f : A -> B) (r : res A) : res B :=
  match r with Ok a => Ok (f a) | Err e => Err e | Panic => Panic end.

Definition st (c : color) (b : board) : board := set_turn b c.
Definition st2 {A} (c : color) (r : A * board) : A * board := (fst r, set_turn (snd r) c).

Lemma set_turn_same b : set_turn b (turn b) = b.
Proof. destruct b. reflexivity. Qed.

Lemma set_turn_set_turn b c d : set_turn (set_turn b c) d = set_turn b d.
Proof. reflexivity. Qed.

Lemma turn_set_turn b c : turn (set_turn b c) = c.
Proof. reflexivity. Qed.

Lemma toggle_turn_set_turn b : toggle_turn b = set_turn b (opp_c (turn b)).
Proof. reflexivity. Qed.

Section WithTable.
Variable T : ztable.

Lemma bget_turn b c i : bget (set_turn b c) i = bget b i.
Proof. reflexivity. Qed.

Lemma pieces_turn b c k : pieces (set_turn b c) k = pieces b k.
Proof. destruct k; reflexivity. Qed.

Lemma toggle_ep_turn b c x : toggle_ep T (set_turn b c) x = set_turn (toggle_ep T b x) c.
Proof. unfold toggle_ep. destruct (is_empty x); reflexivity. Qed.

Lemma bremove_turn b c i :
  bremove T (set_turn b c) i = option_map (st2 c) (bremove T b i).
Proof.
  unfold bremove. rewrite bget_turn. destruct (bget b i) as [[p k]|]; [|reflexivity].
  rewrite pieces_turn. destruct (premove (pieces b k) i) as [[q s]|]; [|reflexivity].
  cbn [option_map]. unfold st2. cbn [fst snd]. destruct k; reflexivity.
Qed.

Lemma put_turn b c i p k : put T (set_turn b c) i p k = rmap (st c) (put T b i p k).
Proof.
  unfold put. change (is_occupied (set_turn b c) i) with (is_occupied b i).
  destruct (is_occupied b i); [reflexivity|].
  rewrite pieces_turn. destruct (pput (pieces b k) i p) as [s|e|]; cbn [bind rmap]; try reflexivity.
  destruct k; reflexivity.
Qed.

Lemma remove_unwrap_turn b c i : remove_unwrap T (set_turn b c) i = rmap (st c) (remove_unwrap T b i).
Proof. unfold remove_unwrap. rewrite bremove_turn. destruct (bremove T b i) as [[pc b']|]; reflexivity. Qed.

Lemma pop_halfmove_turn b c : pop_halfmove (set_turn b c) = rmap (st c) (pop_halfmove b).
Proof. unfold pop_halfmove. change (hm_stack (set_turn b c)) with (hm_stack b). destruct (hm_stack b); reflexivity. Qed.

Lemma inc_halfmove_turn b c : inc_halfmove (set_turn b c) = rmap (st c) (inc_halfmove b).
Proof.
  unfold inc_halfmove, halfmove. change (hm_stack (set_turn b c)) with (hm_stack b).
  destruct (hm_stack b) as [|x r]; [reflexivity|]. cbn [bind]. destruct (x =? U8_MAX); reflexivity.
Qed.

Lemma dec_fullmove_turn b c : dec_fullmove (set_turn b c) = rmap (st c) (dec_fullmove b).
Proof. unfold dec_fullmove. change (fullmove (set_turn b c)) with (fullmove b). destruct (fullmove b =? 0); reflexivity. Qed.

Lemma inc_fullmove_turn b c : inc_fullmove (set_turn b c) = rmap (st c) (inc_fullmove b).
Proof. unfold inc_fullmove. change (fullmove (set_turn b c)) with (fullmove b). destruct (fullmove b =? FULLMOVE_MAX); reflexivity. Qed.

Lemma pop_ep_turn b c : pop_ep T (set_turn b c) = rmap (st2 c) (pop_ep T b).
Proof.
  unfold pop_ep. change (ep_stack (set_turn b c)) with (ep_stack b).
  destruct (ep_stack b) as [|t rest]; [reflexivity|]. cbv zeta.
  change (set_ep (set_turn b c) rest) with (set_turn (set_ep b rest) c). rewrite toggle_ep_turn.
  set (b1 := toggle_ep T (set_ep b rest) t).
  change (peek_ep (set_turn b1 c)) with (peek_ep b1).
  destruct (peek_ep b1) as [x|e|]; cbn [bind rmap]; try reflexivity.
  rewrite toggle_ep_turn. reflexivity.
Qed.

Lemma push_ep_turn b c t : push_ep T (set_turn b c) t = rmap (st c) (push_ep T b t).
Proof.
  unfold push_ep. change (peek_ep (set_turn b c)) with (peek_ep b).
  destruct (peek_ep b) as [x|e|]; cbn [bind rmap]; try reflexivity. cbv zeta.
  rewrite !toggle_ep_turn. reflexivity.
Qed.

Lemma pop_rights_turn b c : pop_rights T (set_turn b c) = rmap (st c) (pop_rights T b).
Proof.
  unfold pop_rights. change (cr_stack (set_turn b c)) with (cr_stack b).
  destruct (cr_stack b) as [|old rest]; [reflexivity|]. cbv zeta.
  change (peek_rights (set_cr (set_turn b c) rest)) with (peek_rights (set_cr b rest)).
  destruct (peek_rights (set_cr b rest)) as [x|e|]; reflexivity.
Qed.

Lemma lose_rights_turn b c l : lose_rights T (set_turn b c) l = rmap (st c) (lose_rights T b l).
Proof.
  unfold lose_rights. change (peek_rights (set_turn b c)) with (peek_rights b).
  destruct (peek_rights b) as [x|e|]; reflexivity.
Qed.

Lemma preserve_rights_turn b c : preserve_rights (set_turn b c) = rmap (st c) (preserve_rights b).
Proof.
  unfold preserve_rights. change (peek_rights (set_turn b c)) with (peek_rights b).
  destruct (peek_rights b) as [x|e|]; reflexivity.
Qed.

(* one monadic step: rewrite with the commutation lemma, then split on the outcome *)
Ltac tstep lem :=
  rewrite lem;
  match goal with
  | |- context [bind (rmap _ ?r) _] =>
      let x := fresh "x" in destruct r as [x| |]; cbn [bind rmap unwrap]; try reflexivity
  | |- context [unwrap (rmap _ ?r)] =>
      let x := fresh "x" in destruct r as [x| |]; cbn [bind rmap unwrap]; try reflexivity
  end.

Lemma unwrap_put_turn b c i p k :
  unwrap (put T (set_turn b c) i p k) = rmap (st c) (unwrap (put T b i p k)).
Proof. rewrite put_turn. destruct (put T b i p k); reflexivity. Qed.

Lemma undo_std_turn b c f t cap :
  undo_std T (set_turn b c) f t cap = rmap (st c) (undo_std T b f t cap).
Proof.
  unfold undo_std. rewrite bremove_turn.
  destruct (bremove T b t) as [[[p k] b1]|]; [|reflexivity].
  cbn [option_map]. unfold st2 at 1. cbn [fst snd].
  assert (Tail : forall b2,
    (let* b3 := pop_halfmove (set_turn b2 c) in
     let* b4 := dec_fullmove b3 in
     let* (_, b5) := pop_ep T b4 in
     let* b6 := pop_rights T b5 in unwrap (put T b6 f p k))
    = rmap (st c)
       (let* b3 := pop_halfmove b2 in
        let* b4 := dec_fullmove b3 in
        let* (_, b5) := pop_ep T b4 in
        let* b6 := pop_rights T b5 in unwrap (put T b6 f p k))).
  { intro b2. tstep pop_halfmove_turn. unfold st at 1. tstep dec_fullmove_turn. unfold st at 1.
    tstep pop_ep_turn. destruct x1 as [t' b5]. unfold st2 at 1. cbn [fst snd].
    tstep pop_rights_turn. unfold st at 1. apply unwrap_put_turn. }
  destruct cap as [cp|].
  - tstep put_turn. unfold st at 1. apply Tail.
  - cbn [bind]. apply Tail.
Qed.

Lemma undo_promo_turn b c f t cap pp :
  undo_promo T (set_turn b c) f t cap pp = rmap (st c) (undo_promo T b f t cap pp).
Proof.
  unfold undo_promo. rewrite bremove_turn.
  destruct (bremove T b t) as [[[p k] b1]|]; [|reflexivity].
  cbn [option_map]. unfold st2 at 1. cbn [fst snd].
  destruct (piece_eqb p pp); [|reflexivity].
  tstep put_turn. unfold st at 1. apply undo_std_turn.
Qed.

Lemma undo_ep_turn b c f t :
  undo_ep T (set_turn b c) f t = rmap (st c) (undo_ep T b f t).
Proof.
  unfold undo_ep. rewrite bremove_turn.
  destruct (bremove T b t) as [[[p k] b1]|]; [|reflexivity].
  cbn [option_map]. unfold st2 at 1. cbn [fst snd].
  destruct (negb (piece_eqb p Pawn)); [reflexivity|].
  rewrite unwrap_put_turn.
  destruct (unwrap (put T b1 f p k)) as [b2| |]; cbn [bind rmap]; try reflexivity. unfold st at 1.
  tstep pop_halfmove_turn. unfold st at 1. tstep dec_fullmove_turn. unfold st at 1.
  tstep pop_ep_turn. destruct x1 as [t' b5]. unfold st2 at 1. cbn [fst snd].
  tstep pop_rights_turn. unfold st at 1. apply put_turn.
Qed.

Lemma undo_castle_turn b c f t :
  undo_castle T (set_turn b c) f t = rmap (st c) (undo_castle T b f t).
Proof.
  unfold undo_castle.
  destruct (castle_shape f t) as [[[k rf] rt]|e|]; cbn [bind rmap]; try reflexivity.
  rewrite !bget_turn.
  destruct (negb (opt_pc_eqb (bget b t) (Some (King, k)))); [reflexivity|].
  destruct (negb (is_none (bget b f))); [reflexivity|].
  destruct (negb (opt_pc_eqb (bget b rt) (Some (Rook, k)))); [reflexivity|].
  destruct (negb (is_none (bget b rf))); [reflexivity|].
  tstep remove_unwrap_turn. unfold st at 1.
  rewrite unwrap_put_turn.
  destruct (unwrap (put T x f King k)) as [b2| |]; cbn [bind rmap]; try reflexivity. unfold st at 1.
  tstep remove_unwrap_turn. unfold st at 1.
  rewrite unwrap_put_turn.
  destruct (unwrap (put T x0 rf Rook k)) as [b4| |]; cbn [bind rmap]; try reflexivity. unfold st at 1.
  tstep dec_fullmove_turn. unfold st at 1. tstep pop_halfmove_turn. unfold st at 1.
  tstep pop_ep_turn. destruct x3 as [t' b7]. unfold st2 at 1. cbn [fst snd].
  apply pop_rights_turn.
Qed.

(* undo never looks at the side to move *)
Theorem undo_move_turn m b c :
  undo_move T m (set_turn b c) = rmap (st c) (undo_move T m b).
Proof.
  destruct m as [f t cap|f t cap pp|f t|f t]; cbn [undo_move].
  - apply undo_std_turn.
  - apply undo_promo_turn.
  - apply undo_ep_turn.
  - apply undo_castle_turn.
Qed.

(* ... and never changes it *)
Corollary undo_move_keeps_turn m b b' : undo_move T m b = Ok b' -> turn b' = turn b.
Proof.
  intro H. pose proof (undo_move_turn m b (turn b)) as E.
  rewrite set_turn_same, H in E. cbn [rmap] in E. unfold st in E. inversion E as [E'].
  rewrite E'. reflexivity.
Qed.

(* what the searcher needs: unmaking on the toggled board gives the toggled result *)
Corollary undo_move_toggle m b b' :
  undo_move T m b = Ok b' -> undo_move T m (toggle_turn b) = Ok (toggle_turn b').
Proof.
  intro H. rewrite !toggle_turn_set_turn, undo_move_turn, H. cbn [rmap]. unfold st.
  rewrite (undo_move_keeps_turn m b b' H). reflexivity.
Qed.

(* the same for apply *)
Lemma apply_std_turn b c f t cap :
  apply_std T (set_turn b c) f t cap = rmap (st c) (apply_std T b f t cap).
Proof.
  unfold apply_std. rewrite bremove_turn.
  destruct (bremove T b f) as [[[p k] b1]|]; [|reflexivity].
  cbn [option_map]. unfold st2 at 1. cbn [fst snd].
  rewrite bremove_turn.
  assert (Tail : forall captured b2,
    (if negb (opt_pc_eqb captured (option_map (fun cp => (cp, opp_c k)) cap)) then Err UnexpectedCapture
     else
       let ept := ep_target_of p k f t in
       let lost := N.lor (lost_if_moved p k f) (lost_if_taken captured t) in
       let* b3 := (match captured with
                   | Some _ => Ok (reset_halfmove (set_turn b2 c))
                   | None => if piece_eqb p Pawn then Ok (reset_halfmove (set_turn b2 c)) else inc_halfmove (set_turn b2 c)
                   end) in
       let* b4 := inc_fullmove b3 in
       let* b5 := push_ep T b4 ept in
       let* b6 := lose_rights T b5 lost in
       unwrap (put T b6 t p k))
    = rmap (st c)
      (if negb (opt_pc_eqb captured (option_map (fun cp => (cp, opp_c k)) cap)) then Err UnexpectedCapture
       else
         let ept := ep_target_of p k f t in
         let lost := N.lor (lost_if_moved p k f) (lost_if_taken captured t) in
         let* b3 := (match captured with
                     | Some _ => Ok (reset_halfmove b2)
                     | None => if piece_eqb p Pawn then Ok (reset_halfmove b2) else inc_halfmove b2
                     end) in
         let* b4 := inc_fullmove b3 in
         let* b5 := push_ep T b4 ept in
         let* b6 := lose_rights T b5 lost in
         unwrap (put T b6 t p k))).
  { intros captured b2. destruct (negb _); [reflexivity|]. cbv zeta.
    assert (Tail2 : forall b3,
      (let* b4 := inc_fullmove (set_turn b3 c) in
       let* b5 := push_ep T b4 (ep_target_of p k f t) in
       let* b6 := lose_rights T b5 (N.lor (lost_if_moved p k f) (lost_if_taken captured t)) in
       unwrap (put T b6 t p k))
      = rmap (st c)
        (let* b4 := inc_fullmove b3 in
         let* b5 := push_ep T b4 (ep_target_of p k f t) in
         let* b6 := lose_rights T b5 (N.lor (lost_if_moved p k f) (lost_if_taken captured t)) in
         unwrap (put T b6 t p k))).
    { intro b3. tstep inc_fullmove_turn. unfold st at 1. tstep push_ep_turn. unfold st at 1.
      tstep lose_rights_turn. unfold st at 1. apply unwrap_put_turn. }
    destruct captured as [pc|].
    - cbn [bind]. apply (Tail2 (reset_halfmove b2)).
    - destruct (piece_eqb p Pawn).
      + cbn [bind]. apply (Tail2 (reset_halfmove b2)).
      + tstep inc_halfmove_turn. unfold st at 1. apply Tail2. }
  destruct (bremove T b1 t) as [[pc b2]|].
  - exact (Tail (Some pc) b2).
  - exact (Tail None b1).
Qed.

Lemma apply_promo_turn b c f t cap pp :
  apply_promo T (set_turn b c) f t cap pp = rmap (st c) (apply_promo T b f t cap pp).
Proof.
  unfold apply_promo. tstep apply_std_turn. unfold st at 1. rewrite bremove_turn.
  destruct (bremove T x t) as [[[p k] b2]|]; [|reflexivity].
  cbn [option_map]. unfold st2 at 1. cbn [fst snd].
  destruct p; try reflexivity. apply put_turn.
Qed.

Lemma apply_ep_turn b c f t :
  apply_ep T (set_turn b c) f t = rmap (st c) (apply_ep T b f t).
Proof.
  unfold apply_ep. rewrite bremove_turn.
  destruct (bremove T b f) as [[[p k] b1]|]; [|reflexivity].
  cbn [option_map]. unfold st2 at 1. cbn [fst snd].
  destruct (negb (piece_eqb p Pawn)); [reflexivity|].
  rewrite bremove_turn.
  destruct (bremove T b1 (ep_captured_square k t)) as [[pc b2]|]; [|reflexivity].
  cbn [option_map]. unfold st2 at 1. cbn [fst snd]. cbv zeta.
  change (reset_halfmove (set_turn b2 c)) with (set_turn (reset_halfmove b2) c).
  tstep inc_fullmove_turn. unfold st at 1. tstep push_ep_turn. unfold st at 1.
  tstep preserve_rights_turn. unfold st at 1. apply put_turn.
Qed.

Lemma apply_castle_turn b c f t :
  apply_castle T (set_turn b c) f t = rmap (st c) (apply_castle T b f t).
Proof.
  unfold apply_castle.
  destruct (castle_shape f t) as [[[k rf] rt]|e|]; cbn [bind rmap]; try reflexivity.
  rewrite !bget_turn.
  destruct (negb (opt_pc_eqb (bget b f) (Some (King, k)))); [reflexivity|].
  destruct (negb (is_none (bget b t))); [reflexivity|].
  destruct (negb (opt_pc_eqb (bget b rf) (Some (Rook, k)))); [reflexivity|].
  destruct (negb (is_none (bget b rt))); [reflexivity|].
  tstep remove_unwrap_turn. unfold st at 1.
  rewrite unwrap_put_turn.
  destruct (unwrap (put T x t King k)) as [b2| |]; cbn [bind rmap]; try reflexivity. unfold st at 1.
  tstep remove_unwrap_turn. unfold st at 1.
  rewrite unwrap_put_turn.
  destruct (unwrap (put T x0 rt Rook k)) as [b4| |]; cbn [bind rmap]; try reflexivity. unfold st at 1.
  cbv zeta.
  tstep inc_halfmove_turn. unfold st at 1. tstep inc_fullmove_turn. unfold st at 1.
  tstep push_ep_turn. unfold st at 1. apply lose_rights_turn.
Qed.

Theorem apply_move_turn m b c :
  apply_move T m (set_turn b c) = rmap (st c) (apply_move T m b).
Proof.
  destruct m as [f t cap|f t cap pp|f t|f t]; cbn [apply_move].
  - apply apply_std_turn.
  - apply apply_promo_turn.
  - apply apply_ep_turn.
  - apply apply_castle_turn.
Qed.

Corollary apply_move_keeps_turn m b b' : apply_move T m b = Ok b' -> turn b' = turn b.
Proof.
  intro H. pose proof (apply_move_turn m b (turn b)) as E.
  rewrite set_turn_same, H in E. cbn [rmap] in E. unfold st in E. inversion E as [E'].
  rewrite E'. reflexivity.
Qed.

Corollary apply_move_toggle m b b' :
  apply_move T m b = Ok b' -> apply_move T m (toggle_turn b) = Ok (toggle_turn b').
Proof.
  intro H. rewrite !toggle_turn_set_turn, apply_move_turn, H. cbn [rmap]. unfold st.
  rewrite (apply_move_keeps_turn m b b' H). reflexivity.
Qed.

End WithTable.

(* non-vacuity: a real make / toggle / unmake / toggle round trip *)
Example TF_roundtrip :
  match put example_table board_new 12 Pawn White with
  | Ok b =>
      match apply_move example_table (Std 12 28 None) b with
      | Ok b1 =>
          turn b1 = turn b /\
          match undo_move example_table (Std 12 28 None) (toggle_turn b1) with
          | Ok b2 => toggle_turn b2 = b
          | _ => False
          end
      | _ => False
      end
  | _ => False
  end.
Proof. vm_compute. split; reflexivity. Qed.

Print Assumptions undo_move_toggle.
Print Assumptions apply_move_toggle.
