(* PseudoProofs1.v — C01, pseudo-legal layer, knights and kings (non-castle):
   the engine's table-driven generation (`table_targets` + `expand`) emits exactly the
   moves of `Rules.step_moves` from the squares holding that piece, without duplicates.
   No axioms. *)
From Coq Require Import Lia ZArith NArith List Bool.
From ChessV Require Import Bits Types Board Moves Rays MoveGen Rules Abs GeomProofs.
From ChessV Require Import BitsLemmas BoardLemmas WfReflect PseudoBase.
Import ListNotations.
Open Scope N_scope.
Open Scope list_scope.

(* ------------------------------------------------------------------ *)
(** * the engine side *)

Lemma table_targets_select tbl b c p x :
  (fun sq0 : N =>
     if mem sq0 (locate (pieces b c) p)
     then let cand := andn (tbl sq0) (occ (pieces b c)) in if is_empty cand then [] else [(sq0, cand)]
     else []) x = []
  \/ exists v, (fun sq0 : N =>
     if mem sq0 (locate (pieces b c) p)
     then let cand := andn (tbl sq0) (occ (pieces b c)) in if is_empty cand then [] else [(sq0, cand)]
     else []) x = [(x, v)].
Proof.
  cbv beta zeta. destruct (mem x (locate (pieces b c) p)); [|left; reflexivity].
  destruct (is_empty (andn (tbl x) (occ (pieces b c)))); [left; reflexivity|].
  right. eexists. reflexivity.
Qed.

Lemma in_table_targets tbl b c p pt :
  In pt (table_targets tbl b c p) <->
  fst pt < 64 /\ mem (fst pt) (locate (pieces b c) p) = true
  /\ snd pt = andn (tbl (fst pt)) (occ (pieces b c)) /\ snd pt <> 0.
Proof.
  unfold table_targets.
  rewrite (PB_in_fst_select _ ordered_squares pt (table_targets_select tbl b c p)).
  rewrite in_ordered_squares. cbv beta zeta.
  destruct pt as [i v]. cbn [fst snd].
  destruct (mem i (locate (pieces b c) p)); [|split; [intros [_ H]; discriminate | intros (_ & H & _); discriminate]].
  destruct (is_empty (andn (tbl i) (occ (pieces b c)))) eqn:E.
  - split; [intros [_ H]; discriminate|]. intros (_ & _ & -> & H). apply is_empty_spec in E. contradiction.
  - apply is_empty_false in E. split.
    + intros [L H]. inversion H; subst. tauto.
    + intros (L & _ & -> & _). tauto.
Qed.

Lemma NoDup_table_targets tbl b c p : NoDup (map fst (table_targets tbl b c p)).
Proof.
  unfold table_targets. apply PB_NoDup_fst_select; [apply NoDup_ordered_squares|].
  apply table_targets_select.
Qed.

Lemma in_expand_table tbl b c p m :
  In m (expand b c (table_targets tbl b c p)) <->
  exists i t, i < 64 /\ mem i (locate (pieces b c) p) = true /\ t < 64
              /\ mem t (tbl i) = true /\ mem t (occ (pieces b c)) = false
              /\ m = Std i t (pget (pieces b (opp_c c)) t).
Proof.
  rewrite in_expand_iff. split.
  - intros [[i v] [t (Hpt & Lt & Mt & E)]]. apply in_table_targets in Hpt. cbn [fst snd] in *.
    destruct Hpt as (Li & Mi & -> & _). rewrite mem_andn in Mt. apply andb_true_iff in Mt.
    destruct Mt as [M1 M2]. apply negb_true_iff in M2.
    exists i, t. tauto.
  - intros [i [t (Li & Mi & Lt & M1 & M2 & E)]].
    exists (i, andn (tbl i) (occ (pieces b c))), t. cbn [fst snd].
    assert (Mt : mem t (andn (tbl i) (occ (pieces b c))) = true) by (rewrite mem_andn, M1, M2; reflexivity).
    split; [|tauto]. apply in_table_targets. cbn [fst snd]. split; [exact Li|]. split; [exact Mi|].
    split; [reflexivity|]. intro Z. rewrite Z, mem_0 in Mt. discriminate.
Qed.

Theorem NoDup_expand_table tbl b c p : NoDup (expand b c (table_targets tbl b c p)).
Proof. apply NoDup_expand, NoDup_table_targets. Qed.

(* every such move is a Std move of a piece p of colour c *)
Lemma expand_table_origin tbl b c p m : WF b ->
  In m (expand b c (table_targets tbl b c p)) ->
  exists f t cap, m = Std f t cap /\ bget b f = Some (p, c).
Proof.
  intros W H. apply in_expand_table in H. destruct H as [i [t (Li & Mi & _ & _ & _ & E)]].
  exists i, t, (pget (pieces b (opp_c c)) t). split; [exact E|]. apply (bget_mem b i p c W). exact Mi.
Qed.

(* ------------------------------------------------------------------ *)
(** * the rules side *)

Lemma step_moves_cells P c from offs :
  step_moves P c from offs =
  flat_map (fun o =>
    if on_board (fileZ from + fst o) (rankZ from + snd o)
    then cell_moves c from (sq (fileZ from + fst o) (rankZ from + snd o))
                    (atc P (fileZ from + fst o) (rankZ from + snd o))
    else []) offs.
Proof. reflexivity. Qed.

Lemma in_step_moves b c from offs m : WF b ->
  (In m (step_moves (abstract b) c from offs) <->
   exists df dr, In (df, dr) offs /\ on_board (fileZ from + df) (rankZ from + dr) = true
     /\ mem (sq (fileZ from + df) (rankZ from + dr)) (occ (pieces b c)) = false
     /\ m = Std from (sq (fileZ from + df) (rankZ from + dr))
                (pget (pieces b (opp_c c)) (sq (fileZ from + df) (rankZ from + dr)))).
Proof.
  intro W. rewrite step_moves_cells, in_flat_map. split.
  - intros [[df dr] [Ho Hin]]. cbn [fst snd] in Hin.
    destruct (on_board (fileZ from + df) (rankZ from + dr)) eqn:OB; [|destruct Hin].
    rewrite (atc_abs b _ _ OB), (cell_moves_bget b c from _ W) in Hin.
    destruct (mem (sq (fileZ from + df) (rankZ from + dr)) (occ (pieces b c))) eqn:M; [destruct Hin|].
    destruct Hin as [<-|[]]. exists df, dr. tauto.
  - intros [df [dr (Ho & OB & M & E)]]. exists (df, dr). split; [exact Ho|]. cbn [fst snd].
    rewrite OB, (atc_abs b _ _ OB), (cell_moves_bget b c from _ W), M. left. symmetry. exact E.
Qed.

(* ------------------------------------------------------------------ *)
(** * the refinement, for any table that agrees with a list of offsets *)

Section Stepper.
Variable tbl : N -> N.
Variable offs : list (Z * Z).
Hypothesis tbl_spec : forall i j, i < 64 ->
  (mem j (tbl i) = true <->
   exists df dr, In (df, dr) offs /\ on_board (fileZ i + df) (rankZ i + dr) = true
                 /\ j = sq (fileZ i + df) (rankZ i + dr)).

Theorem stepper_exact b c p m : WF b ->
  (In m (expand b c (table_targets tbl b c p)) <->
   In m (on_squares (abstract b) c p (fun i => step_moves (abstract b) c i offs))).
Proof.
  intro W. rewrite in_expand_table, in_on_squares. split.
  - intros [i [t (Li & Mi & Lt & M1 & M2 & E)]]. exists i. split; [exact Li|].
    split; [apply (bget_mem b i p c W), Mi|].
    apply (in_step_moves b c i offs m W).
    apply (tbl_spec i t Li) in M1. destruct M1 as [df [dr (Ho & OB & Et)]]. subst t.
    exists df, dr. tauto.
  - intros [i (Li & Eb & Hin)]. apply (in_step_moves b c i offs m W) in Hin.
    destruct Hin as [df [dr (Ho & OB & M & E)]].
    exists i, (sq (fileZ i + df) (rankZ i + dr)). split; [exact Li|].
    split; [apply (bget_mem b i p c W), Eb|].
    split; [apply (sq_on_board _ _ OB)|].
    split; [apply (tbl_spec i _ Li); exists df, dr; tauto|]. tauto.
Qed.
End Stepper.

(* ------------------------------------------------------------------ *)
(** * knights and kings *)

Theorem knight_moves_exact b c m : WF b ->
  (In m (expand b c (table_targets knight_targets b c Knight)) <->
   In m (on_squares (abstract b) c Knight (fun i => step_moves (abstract b) c i knight_offsets))).
Proof.
  apply stepper_exact. intros i j Li. apply knight_targets_mem. exact Li.
Qed.

Theorem king_moves_exact b c m : WF b ->
  (In m (expand b c (table_targets king_targets b c King)) <->
   In m (on_squares (abstract b) c King (fun i => step_moves (abstract b) c i king_offsets))).
Proof.
  apply stepper_exact. intros i j Li. apply king_targets_mem. exact Li.
Qed.

Theorem knight_moves_NoDup b c : NoDup (expand b c (table_targets knight_targets b c Knight)).
Proof. apply NoDup_expand_table. Qed.

Theorem king_moves_NoDup b c : NoDup (expand b c (table_targets king_targets b c King)).
Proof. apply NoDup_expand_table. Qed.

(* ------------------------------------------------------------------ *)
(** * non-vacuity: a knight on g1 and a king on e1 with an own pawn on e2 and an enemy pawn on f3 *)

Definition PP1_board : board :=
  match put example_table board_new 6 Knight White with
  | Ok b1 => match put example_table b1 4 King White with
             | Ok b2 => match put example_table b2 12 Pawn White with
                        | Ok b3 => match put example_table b3 21 Pawn Black with
                                   | Ok b4 => set_cr b4 [0]
                                   | _ => board_new end
                        | _ => board_new end
             | _ => board_new end
  | _ => board_new end.

Example PP1_board_inv : pinvb PP1_board White = true.
Proof. vm_compute. reflexivity. Qed.

Example PP1_knight_moves :
  expand PP1_board White (table_targets knight_targets PP1_board White Knight)
  = [Std 6 21 (Some Pawn); Std 6 23 None]
  /\ on_squares (abstract PP1_board) White Knight (fun i => step_moves (abstract PP1_board) White i knight_offsets)
     = [Std 6 23 None; Std 6 21 (Some Pawn)].
Proof. vm_compute. split; reflexivity. Qed.

Example PP1_king_moves :
  expand PP1_board White (table_targets king_targets PP1_board White King)
  = [Std 4 3 None; Std 4 5 None; Std 4 11 None; Std 4 13 None]
  /\ on_squares (abstract PP1_board) White King (fun i => step_moves (abstract PP1_board) White i king_offsets)
     = [Std 4 5 None; Std 4 13 None; Std 4 11 None; Std 4 3 None].
Proof. vm_compute. split; reflexivity. Qed.

Print Assumptions knight_moves_exact.
Print Assumptions king_moves_exact.
Print Assumptions knight_moves_NoDup.
