(* PerftSpec.v — rules-level facts used by the bridge of Perft.v (C10).  Rules.v only.

   [Rules.perft] flips the side-to-move field of the position after every move and always
   generates for [pturn].  The engine's counter passes the colour explicitly and leaves the
   field alone.  [perft_c] is the rules-level count with an explicit colour; it does not
   depend on the side-to-move field ([perft_c_with_turn]) and coincides with [Rules.perft]
   when started with the colour to move ([perft_is_perft_c]). *)
From Coq Require Import Lia List ZArith.
From ChessV Require Import Types.
From ChessV Require Rules.
Import ListNotations.
Import Rules.

#[local] Arguments N.add : simpl never.


Fixpoint perft_c (k : nat) (p : position) (c : color) : N :=
  match k with
  | O => 1
  | S k' => fold_left (fun acc m => acc + perft_c k' (successor p m) (opp_c c)) (legal_moves_for p c) 0
  end.

Definition with_turn (t : color) (p : position) : position :=
  {| cells := cells p; pturn := t; prights := prights p; pep := pep p; phalf := phalf p; pfull := pfull p |}.

Lemma flip_turn_with_turn p : flip_turn p = with_turn (opp_c (pturn p)) p.
Proof. reflexivity. Qed.

Lemma with_turn_same p : with_turn (pturn p) p = p.
Proof. destruct p; reflexivity. Qed.

(* ------------------------------------------------------------------ *)
(** * nothing below the move lists reads the side-to-move field *)

Lemma at_wt t p i : at_ (with_turn t p) i = at_ p i.
Proof. reflexivity. Qed.
Lemma atc_wt t p f r : atc (with_turn t p) f r = atc p f r.
Proof. reflexivity. Qed.

Lemma ray_wt t p fuel : forall f r df dr, ray (with_turn t p) fuel f r df dr = ray p fuel f r df dr.
Proof.
  induction fuel as [|k IH]; intros f r df dr; cbn [ray]; [reflexivity|].
  rewrite atc_wt. destruct (on_board (f + df) (r + dr)); [|reflexivity].
  destruct (atc p (f + df) (r + dr)); [reflexivity|]. rewrite IH. reflexivity.
Qed.

Lemma ray_hit_wt t p f r df dr : ray_hit (with_turn t p) f r df dr = ray_hit p f r df dr.
Proof. unfold ray_hit. rewrite ray_wt. destruct (rev (ray p 8 f r df dr)) as [|[f' r'] l]; reflexivity. Qed.

Lemma existsb_ext_all {A} (f g : A -> bool) l : (forall a, f a = g a) -> existsb f l = existsb g l.
Proof. intro H. induction l as [|a l IH]; cbn [existsb]; [reflexivity|]. rewrite H, IH. reflexivity. Qed.

Lemma orb_cong a a' b b' : a = a' -> b = b' -> a || b = a' || b'.
Proof. intros -> ->. reflexivity. Qed.

Lemma attacked_by_wt t p c f r : attacked_by (with_turn t p) c f r = attacked_by p c f r.
Proof.
  unfold attacked_by.
  apply orb_cong; [apply orb_cong; [apply orb_cong; [apply orb_cong|]|]|];
    apply existsb_ext_all; intro d; cbv zeta; rewrite ?atc_wt, ?ray_hit_wt; reflexivity.
Qed.

Lemma king_attacked_wt t p c : king_attacked (with_turn t p) c = king_attacked p c.
Proof.
  unfold king_attacked.
  assert (K : king_square (with_turn t p) c = king_square p c).
  { unfold king_square. f_equal. }
  rewrite K. destruct (king_square p c); [apply attacked_by_wt|reflexivity].
Qed.

Lemma step_moves_wt t p c from offs : step_moves (with_turn t p) c from offs = step_moves p c from offs.
Proof. reflexivity. Qed.

Lemma slide_moves_wt t p c from dirs : slide_moves (with_turn t p) c from dirs = slide_moves p c from dirs.
Proof. unfold slide_moves. apply flat_map_ext. intro d. rewrite ray_wt. reflexivity. Qed.

Lemma pawn_moves_r_wt t p c from : pawn_moves_r (with_turn t p) c from = pawn_moves_r p c from.
Proof. reflexivity. Qed.

Lemma castle_moves_r_wt t p c : castle_moves_r (with_turn t p) c = castle_moves_r p c.
Proof.
  unfold castle_moves_r. cbv zeta. rewrite !attacked_by_wt. reflexivity.
Qed.

Lemma pseudo_legal_wt t p c : pseudo_legal (with_turn t p) c = pseudo_legal p c.
Proof.
  unfold pseudo_legal. rewrite castle_moves_r_wt.
  apply (f_equal (fun l => l ++ castle_moves_r p c)). apply flat_map_ext. intro i.
  rewrite at_wt. destruct (at_ p i) as [[pc col]|]; [|reflexivity].
  destruct (color_eqb col c); [|reflexivity].
  destruct pc.
  - exact (pawn_moves_r_wt t p c i).
  - exact (step_moves_wt t p c i knight_offsets).
  - exact (slide_moves_wt t p c i diag_dirs).
  - exact (slide_moves_wt t p c i ortho_dirs).
  - exact (slide_moves_wt t p c i (ortho_dirs ++ diag_dirs)).
  - exact (step_moves_wt t p c i king_offsets).
Qed.

(* ------------------------------------------------------------------ *)
(** * every pseudo-legal move starts on an occupied square *)

Lemma pawn_arrivals_from c from tf tr cap m : In m (pawn_arrivals c from tf tr cap) -> mv_from m = from.
Proof.
  unfold pawn_arrivals. destruct (tr =? last_rank c)%Z.
  - intro H. apply in_map_iff in H. destruct H as (pp & <- & _). reflexivity.
  - intros [<-|[]]. reflexivity.
Qed.

Lemma step_moves_from p c from offs m : In m (step_moves p c from offs) -> mv_from m = from.
Proof.
  unfold step_moves. intro H. apply in_flat_map in H. destruct H as (o & _ & H).
  destruct (on_board _ _); [|destruct H].
  destruct (atc p _ _) as [[pc col]|].
  - destruct (color_eqb col c); [destruct H|]. destruct H as [<-|[]]. reflexivity.
  - destruct H as [<-|[]]. reflexivity.
Qed.

Lemma slide_moves_from p c from dirs m : In m (slide_moves p c from dirs) -> mv_from m = from.
Proof.
  unfold slide_moves. intro H. apply in_flat_map in H. destruct H as (d & _ & H).
  apply in_flat_map in H. destruct H as (x & _ & H).
  destruct (atc p _ _) as [[pc col]|].
  - destruct (color_eqb col c); [destruct H|]. destruct H as [<-|[]]. reflexivity.
  - destruct H as [<-|[]]. reflexivity.
Qed.

Lemma pawn_moves_r_from p c from m : In m (pawn_moves_r p c from) -> mv_from m = from.
Proof.
  unfold pawn_moves_r. intro H. apply in_app_or in H. destruct H as [H|H].
  - destruct (on_board _ _ && _); [|destruct H]. apply in_app_or in H. destruct H as [H|H].
    + apply pawn_arrivals_from in H. exact H.
    + destruct (_ && _); [|destruct H]. destruct H as [<-|[]]. reflexivity.
  - apply in_flat_map in H. destruct H as (df & _ & H).
    destruct (on_board _ _); [|destruct H]. apply in_app_or in H. destruct H as [H|H].
    + destruct (is_enemy _ _); [|destruct H]. apply pawn_arrivals_from in H. exact H.
    + destruct (pep p) as [e|]; [|destruct H]. destruct (_ && _ && _); [|destruct H].
      destruct H as [<-|[]]. reflexivity.
Qed.

Lemma is_pc_some c pc col : is_pc c pc col = true -> c <> None.
Proof. intros H E. subst c. discriminate H. Qed.

Lemma castle_moves_r_from p c m : In m (castle_moves_r p c) -> at_ p (mv_from m) <> None.
Proof.
  unfold castle_moves_r. cbv zeta. intro H. apply in_app_or in H.
  destruct H as [H|H];
    match type of H with In _ (if ?cond then _ else _) => destruct cond eqn:E; [|destruct H] end;
    destruct H as [<-|[]]; cbn [mv_from];
    repeat (apply andb_true_iff in E; destruct E as [E ?]);
    match goal with K : is_pc (atc p 4 ?r) King c && _ = true |- _ =>
      apply andb_true_iff in K; destruct K as [K _]; apply is_pc_some in K;
      destruct c; exact K end.
Qed.

Lemma pseudo_legal_from p c m : In m (pseudo_legal p c) -> at_ p (mv_from m) <> None.
Proof.
  unfold pseudo_legal. intro H. apply in_app_or in H. destruct H as [H|H]; [|apply (castle_moves_r_from p c m H)].
  apply in_flat_map in H. destruct H as (i & _ & H).
  destruct (at_ p i) as [[pc col]|] eqn:E; [|destruct H].
  destruct (color_eqb col c); [|destruct H].
  assert (F : mv_from m = i).
  { destruct pc.
    - exact (pawn_moves_r_from p c i m H).
    - exact (step_moves_from p c i knight_offsets m H).
    - exact (slide_moves_from p c i diag_dirs m H).
    - exact (slide_moves_from p c i ortho_dirs m H).
    - exact (slide_moves_from p c i (ortho_dirs ++ diag_dirs) m H).
    - exact (step_moves_from p c i king_offsets m H). }
  rewrite F, E. discriminate.
Qed.

(* ------------------------------------------------------------------ *)
(** * successor and the legal-move list commute with setting the side-to-move field *)

Lemma successor_wt t p m : at_ p (mv_from m) <> None ->
  successor (with_turn t p) m = with_turn t (successor p m).
Proof.
  intro H. unfold successor. cbv zeta. rewrite at_wt.
  destruct (at_ p (mv_from m)) as [[pc col]|]; [reflexivity|contradiction].
Qed.

Lemma legal_moves_for_wt t p c : legal_moves_for (with_turn t p) c = legal_moves_for p c.
Proof.
  unfold legal_moves_for. rewrite pseudo_legal_wt. apply filter_ext_in. intros m Hin.
  rewrite (successor_wt t p m (pseudo_legal_from p c m Hin)), king_attacked_wt. reflexivity.
Qed.

Lemma legal_moves_for_from p c m : In m (legal_moves_for p c) -> at_ p (mv_from m) <> None.
Proof. unfold legal_moves_for. intro H. apply filter_In in H. apply (pseudo_legal_from p c m (proj1 H)). Qed.

Lemma fold_left_add_ext_in {A} (f g : A -> N) l acc :
  (forall a, In a l -> f a = g a) ->
  fold_left (fun x m => x + f m) l acc = fold_left (fun x m => x + g m) l acc.
Proof.
  revert acc. induction l as [|a l IH]; intros acc H; cbn [fold_left]; [reflexivity|].
  rewrite (H a (or_introl eq_refl)). apply IH. intros a' Hin. apply H. right. exact Hin.
Qed.

Theorem perft_c_with_turn k : forall t p c, perft_c k (with_turn t p) c = perft_c k p c.
Proof.
  induction k as [|k IH]; intros t p c; cbn [perft_c]; [reflexivity|].
  rewrite legal_moves_for_wt. apply fold_left_add_ext_in. intros m Hin.
  rewrite (successor_wt t p m (legal_moves_for_from p c m Hin)). apply IH.
Qed.

(* the rules' own perft is the explicit-colour count started with the side to move *)
Theorem perft_is_perft_c k : forall p, perft k p = perft_c k p (pturn p).
Proof.
  induction k as [|k IH]; intro p; cbn [perft perft_c]; [reflexivity|].
  unfold legal_moves. apply fold_left_add_ext_in. intros m _.
  rewrite IH. unfold succ_turn. rewrite flip_turn_with_turn.
  change (pturn (with_turn (opp_c (pturn (successor p m))) (successor p m))) with (opp_c (pturn p)).
  apply perft_c_with_turn.
Qed.

(* non-vacuity: the published figures, with either value of the side-to-move field *)
Example perft_c_initial :
  perft_c 1 initial_position White = 20 /\ perft_c 2 initial_position White = 400
  /\ perft_c 2 (with_turn Black initial_position) White = 400 /\ perft 2 initial_position = 400.
Proof. vm_compute. repeat split; reflexivity. Qed.

Print Assumptions perft_c_with_turn.
Print Assumptions perft_is_perft_c.
