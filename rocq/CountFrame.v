(* CountFrame.v — frame facts for the four "bookkeeping" fields of a board
   (hm_stack, fullmove, pos_count, seen_stack): which primitive board operations and which
   move applications/undos touch them, and how.  Used by CounterProofs.v (C16) and
   RepetitionProofs.v (C17).  Proofs only; no new model definitions except the projection
   [ctr]. *)
From Coq Require Import Lia.
From ChessV Require Import Moves.

Arguments N.add : simpl never.
Arguments N.sub : simpl never.
Arguments N.mul : simpl never.
Arguments N.eqb : simpl never.
Arguments N.ltb : simpl never.
Arguments N.leb : simpl never.
Arguments N.shiftl : simpl never.
Arguments N.shiftr : simpl never.
Arguments N.land : simpl never.
Arguments N.lor : simpl never.
Arguments N.lxor : simpl never.
Arguments N.ldiff : simpl never.
Arguments N.testbit : simpl never.

(* the bookkeeping fields, as one tuple *)
Definition ctr (b : board) : list N * N * list ((N * color) * N) * list N :=
  (hm_stack b, fullmove b, pos_count b, seen_stack b).

Lemma ctr_inj b1 b2 :
  ctr b1 = ctr b2 ->
  hm_stack b1 = hm_stack b2 /\ fullmove b1 = fullmove b2 /\
  pos_count b1 = pos_count b2 /\ seen_stack b1 = seen_stack b2.
Proof. unfold ctr; intro H; inversion H; auto. Qed.

Definition opt_is_some {A} (o : option A) : bool := match o with Some _ => true | None => false end.

Section WithTable.
Variable T : ztable.

(* ---- operations that do not touch the bookkeeping fields ---- *)
Lemma ctr_set_pieces b c s : ctr (set_pieces b c s) = ctr b.
Proof. destruct c; reflexivity. Qed.
Lemma ctr_toggle_piece b i p c : ctr (toggle_piece T b i p c) = ctr b.
Proof. reflexivity. Qed.
Lemma ctr_toggle_ep b sq : ctr (toggle_ep T b sq) = ctr b.
Proof. unfold toggle_ep; destruct (is_empty sq); reflexivity. Qed.
Lemma ctr_toggle_rights b r : ctr (toggle_rights T b r) = ctr b.
Proof. reflexivity. Qed.
Lemma ctr_toggle_turn b : ctr (toggle_turn b) = ctr b.
Proof. reflexivity. Qed.

Lemma put_ctr b i p c b' : put T b i p c = Ok b' -> ctr b' = ctr b.
Proof.
  unfold put. destruct (is_occupied b i); [discriminate|].
  destruct (pput (pieces b c) i p) as [s|e|]; cbn [bind]; intro H; inversion H; subst.
  rewrite ctr_toggle_piece, ctr_set_pieces. reflexivity.
Qed.

Lemma unwrap_ok {A} (r : res A) a : unwrap r = Ok a -> r = Ok a.
Proof. destruct r; cbn; intro H; inversion H; reflexivity. Qed.

Lemma bremove_ctr b i pc b' :
  bremove T b i = Some (pc, b') -> ctr b' = ctr b /\ bget b i = Some pc.
Proof.
  unfold bremove. destruct (bget b i) as [[p c]|]; [|discriminate].
  destruct (premove (pieces b c) i) as [[q s]|]; [|discriminate].
  intro H; inversion H; subst. split; [|reflexivity].
  rewrite ctr_toggle_piece, ctr_set_pieces. reflexivity.
Qed.

Lemma remove_unwrap_ctr b i b' : remove_unwrap T b i = Ok b' -> ctr b' = ctr b.
Proof.
  unfold remove_unwrap. destruct (bremove T b i) as [[pc b1]|] eqn:E; [|discriminate].
  intro H; inversion H; subst. apply bremove_ctr in E. tauto.
Qed.

Lemma push_ep_ctr b t b' : push_ep T b t = Ok b' -> ctr b' = ctr b.
Proof.
  unfold push_ep, peek_ep. destruct (ep_stack b); [discriminate|]. cbn [bind].
  intro H; inversion H; subst.
  change (ctr (set_ep ?x ?l)) with (ctr x). rewrite !ctr_toggle_ep. reflexivity.
Qed.

Lemma pop_ep_ctr b t b' : pop_ep T b = Ok (t, b') -> ctr b' = ctr b.
Proof.
  unfold pop_ep. destruct (ep_stack b) as [|x rest]; [discriminate|].
  destruct (peek_ep (toggle_ep T (set_ep b rest) x)) as [r|e|]; cbn [bind]; intro H; inversion H; subst.
  rewrite !ctr_toggle_ep. reflexivity.
Qed.

Lemma lose_rights_ctr b l b' : lose_rights T b l = Ok b' -> ctr b' = ctr b.
Proof.
  unfold lose_rights, peek_rights. destruct (cr_stack b); [discriminate|]. cbn [bind].
  intro H; inversion H; subst. reflexivity.
Qed.

Lemma pop_rights_ctr b b' : pop_rights T b = Ok b' -> ctr b' = ctr b.
Proof.
  unfold pop_rights. destruct (cr_stack b) as [|x rest]; [discriminate|].
  destruct (peek_rights (set_cr b rest)) as [r|e|]; cbn [bind]; intro H; inversion H; subst.
  reflexivity.
Qed.

Lemma preserve_rights_ctr b b' : preserve_rights b = Ok b' -> ctr b' = ctr b.
Proof.
  unfold preserve_rights, peek_rights. destruct (cr_stack b); [discriminate|]. cbn [bind].
  intro H; inversion H; subst. reflexivity.
Qed.

(* ---- the counter operations, characterised exactly ---- *)
Lemma inc_fullmove_spec b :
  inc_fullmove b = if fullmove b =? FULLMOVE_MAX then Panic else Ok (set_fullmove b (fullmove b + 1)).
Proof. reflexivity. Qed.

Lemma inc_fullmove_ok b b' :
  inc_fullmove b = Ok b' ->
  fullmove b <> FULLMOVE_MAX /\
  ctr b' = (hm_stack b, fullmove b + 1, pos_count b, seen_stack b).
Proof.
  unfold inc_fullmove. destruct (fullmove b =? FULLMOVE_MAX) eqn:E; [discriminate|].
  intro H; inversion H; subst. apply N.eqb_neq in E. split; [assumption|reflexivity].
Qed.

Lemma inc_fullmove_panic_iff b : inc_fullmove b = Panic <-> fullmove b = FULLMOVE_MAX.
Proof.
  unfold inc_fullmove. destruct (fullmove b =? FULLMOVE_MAX) eqn:E.
  - apply N.eqb_eq in E. tauto.
  - apply N.eqb_neq in E. split; [discriminate|contradiction].
Qed.

Lemma inc_fullmove_never_err b e : inc_fullmove b <> Err e.
Proof. unfold inc_fullmove. destruct (fullmove b =? FULLMOVE_MAX); discriminate. Qed.

Lemma dec_fullmove_ok b b' :
  dec_fullmove b = Ok b' ->
  fullmove b <> 0 /\
  ctr b' = (hm_stack b, fullmove b - 1, pos_count b, seen_stack b).
Proof.
  unfold dec_fullmove. destruct (fullmove b =? 0) eqn:E; [discriminate|].
  intro H; inversion H; subst. apply N.eqb_neq in E. split; [assumption|reflexivity].
Qed.

Lemma dec_fullmove_panic_iff b : dec_fullmove b = Panic <-> fullmove b = 0.
Proof.
  unfold dec_fullmove. destruct (fullmove b =? 0) eqn:E.
  - apply N.eqb_eq in E. tauto.
  - apply N.eqb_neq in E. split; [discriminate|contradiction].
Qed.

Lemma ctr_reset_halfmove b :
  ctr (reset_halfmove b) = (0 :: hm_stack b, fullmove b, pos_count b, seen_stack b).
Proof. reflexivity. Qed.

Lemma inc_halfmove_ok b b' :
  inc_halfmove b = Ok b' ->
  exists h rest, hm_stack b = h :: rest /\ h <> U8_MAX /\
  ctr b' = ((h + 1) :: hm_stack b, fullmove b, pos_count b, seen_stack b).
Proof.
  unfold inc_halfmove, halfmove. destruct (hm_stack b) as [|h rest] eqn:E; [discriminate|].
  cbn [bind]. destruct (h =? U8_MAX) eqn:Eq1; [discriminate|].
  intro H; inversion H; subst. apply N.eqb_neq in Eq1.
  exists h, rest. split; [reflexivity|]. split; [assumption|].
  unfold ctr, push_halfmove; cbn. rewrite E. reflexivity.
Qed.

Lemma inc_halfmove_panic_iff b :
  inc_halfmove b = Panic <-> hm_stack b = [] \/ hd 0 (hm_stack b) = U8_MAX /\ hm_stack b <> [].
Proof.
  unfold inc_halfmove, halfmove. destruct (hm_stack b) as [|h rest]; cbn [bind hd].
  - split; auto.
  - destruct (h =? U8_MAX) eqn:Eq1.
    + apply N.eqb_eq in Eq1. split; [intros _; right; split; [assumption|discriminate]|reflexivity].
    + apply N.eqb_neq in Eq1. split; [discriminate|]. intros [H|[H _]]; [discriminate|contradiction].
Qed.

Lemma inc_halfmove_never_err b e : inc_halfmove b <> Err e.
Proof.
  unfold inc_halfmove, halfmove. destruct (hm_stack b) as [|h rest]; cbn [bind]; [discriminate|].
  destruct (h =? U8_MAX); discriminate.
Qed.

Lemma pop_halfmove_ok b b' :
  pop_halfmove b = Ok b' ->
  hm_stack b <> [] /\
  ctr b' = (tl (hm_stack b), fullmove b, pos_count b, seen_stack b).
Proof.
  unfold pop_halfmove. destruct (hm_stack b) as [|h rest] eqn:E; [discriminate|].
  intro H; inversion H; subst. split; [discriminate|]. reflexivity.
Qed.

Lemma pop_halfmove_panic_iff b : pop_halfmove b = Panic <-> hm_stack b = [].
Proof.
  unfold pop_halfmove. destruct (hm_stack b); split; auto; discriminate.
Qed.

(* ---- whole moves ---- *)
Ltac bstep H E :=
  match type of H with
  | bind ?r _ = Ok _ => destruct r eqn:E; cbn [bind] in H; [|discriminate H|discriminate H]
  end.

(* StandardChessMove::apply: the clock is reset iff the mover is a pawn or the move's capture
   field is set (the capture found on the board must equal that field, else UnexpectedCapture) *)
Lemma apply_std_ctr b f t cap b' :
  apply_std T b f t cap = Ok b' ->
  exists p c, bget b f = Some (p, c) /\
    ctr b' = ((if piece_eqb p Pawn || opt_is_some cap then 0 else hd 0 (hm_stack b) + 1) :: hm_stack b,
              fullmove b + 1, pos_count b, seen_stack b)
    /\ fullmove b <> FULLMOVE_MAX
    /\ (piece_eqb p Pawn || opt_is_some cap = false -> hm_stack b <> [] /\ hd 0 (hm_stack b) <> U8_MAX).
Proof.
  unfold apply_std. destruct (bremove T b f) as [[[p c] b1]|] eqn:Eq1; [|discriminate].
  destruct (bremove_ctr _ _ _ _ Eq1) as [C1 G1].
  intro H. exists p, c. split; [assumption|].
  destruct (bremove T b1 t) as [[pc b2]|] eqn:Eq2.
  - destruct (bremove_ctr _ _ _ _ Eq2) as [C2 G2].
    destruct cap as [cp|]; cbn [option_map opt_pc_eqb] in H.
    2:{ cbn in H. discriminate H. }
    destruct (negb (pc_eqb pc (cp, opp_c c))); [discriminate H|].
    bstep H Eq3. bstep H Eq4. bstep H Eq5. bstep H Eq6.
    apply unwrap_ok in H. apply put_ctr in H. apply lose_rights_ctr in Eq6. apply push_ep_ctr in Eq5.
    apply inc_fullmove_ok in Eq4. destruct Eq4 as [F4 C4].
    inversion Eq3; subst a. rewrite H, Eq6, Eq5, C4. cbn [ctr reset_halfmove push_halfmove set_hm hm_stack fullmove pos_count seen_stack].
    unfold ctr in C1, C2. inversion C1. inversion C2.
    rewrite Bool.orb_true_r. cbn [opt_is_some].
    cbn [reset_halfmove push_halfmove set_hm hm_stack fullmove pos_count seen_stack] in F4.
    repeat split; try congruence; intro; discriminate.
  - destruct cap as [cp|]; cbn [option_map opt_pc_eqb negb] in H; [discriminate H|].
    destruct (piece_eqb p Pawn) eqn:EP; cbn [orb opt_is_some].
    + bstep H Eq3. bstep H Eq4. bstep H Eq5. bstep H Eq6.
      apply unwrap_ok in H. apply put_ctr in H. apply lose_rights_ctr in Eq6. apply push_ep_ctr in Eq5.
      apply inc_fullmove_ok in Eq4. destruct Eq4 as [F4 C4].
      inversion Eq3; subst a. rewrite H, Eq6, Eq5, C4. cbn [ctr reset_halfmove push_halfmove set_hm hm_stack fullmove pos_count seen_stack].
      unfold ctr in C1. inversion C1.
      cbn [reset_halfmove push_halfmove set_hm hm_stack fullmove pos_count seen_stack] in F4.
      repeat split; try congruence; intro; discriminate.
    + bstep H Eq3. bstep H Eq4. bstep H Eq5. bstep H Eq6.
      apply unwrap_ok in H. apply put_ctr in H. apply lose_rights_ctr in Eq6. apply push_ep_ctr in Eq5.
      apply inc_fullmove_ok in Eq4. destruct Eq4 as [F4 C4].
      apply inc_halfmove_ok in Eq3. destruct Eq3 as (h & rest & Eh & Hh & C3).
      unfold ctr in C1. inversion C1 as [[Q1 Q2 Q3 Q4]].
      rewrite H, Eq6, Eq5, C4. unfold ctr in C3. inversion C3 as [[R1 R2 R3 R4]].
      rewrite R1, R2, R3, R4, Q1, Q2, Q3, Q4. rewrite Q1 in Eh. rewrite Eh. cbn [hd].
      repeat split; try congruence; discriminate.
Qed.

Lemma piece_eqb_eq a b : piece_eqb a b = true -> a = b.
Proof. destruct a, b; cbn; intro H; try discriminate H; reflexivity. Qed.
Lemma color_eqb_eq a b : color_eqb a b = true -> a = b.
Proof. destruct a, b; cbn; intro H; try discriminate H; reflexivity. Qed.
Lemma pc_eqb_eq a b : pc_eqb a b = true -> a = b.
Proof.
  destruct a as [p c], b as [q d]. unfold pc_eqb; cbn [fst snd]. intro H.
  apply Bool.andb_true_iff in H. destruct H as [H1 H2].
  apply piece_eqb_eq in H1. apply color_eqb_eq in H2. congruence.
Qed.
Lemma opt_pc_eqb_some a pc : opt_pc_eqb a (Some pc) = true -> a = Some pc.
Proof. destruct a as [x|]; cbn; intro H; [|discriminate H]. apply pc_eqb_eq in H. congruence. Qed.

Lemma apply_promo_ctr b f t cap pp b' :
  apply_promo T b f t cap pp = Ok b' ->
  exists p c, bget b f = Some (p, c) /\
    ctr b' = ((if piece_eqb p Pawn || opt_is_some cap then 0 else hd 0 (hm_stack b) + 1) :: hm_stack b,
              fullmove b + 1, pos_count b, seen_stack b)
    /\ fullmove b <> FULLMOVE_MAX
    /\ (piece_eqb p Pawn || opt_is_some cap = false -> hm_stack b <> [] /\ hd 0 (hm_stack b) <> U8_MAX).
Proof.
  unfold apply_promo. intro H. bstep H Eq1.
  destruct (apply_std_ctr _ _ _ _ _ Eq1) as (p & c & G & C & R).
  exists p, c. split; [assumption|]. split; [|assumption].
  destruct (bremove T a t) as [[[q d] b2]|] eqn:Eq2; [|discriminate H].
  destruct q; try discriminate H.
  apply put_ctr in H. apply bremove_ctr in Eq2. destruct Eq2 as [C2 _]. congruence.
Qed.

Lemma apply_ep_ctr b f t b' :
  apply_ep T b f t = Ok b' ->
  exists c, bget b f = Some (Pawn, c) /\
    ctr b' = (0 :: hm_stack b, fullmove b + 1, pos_count b, seen_stack b)
    /\ fullmove b <> FULLMOVE_MAX.
Proof.
  unfold apply_ep. destruct (bremove T b f) as [[[p c] b1]|] eqn:Eq1; [|discriminate].
  destruct (bremove_ctr _ _ _ _ Eq1) as [C1 G1].
  destruct (piece_eqb p Pawn) eqn:EP; cbn [negb]; [|discriminate].
  apply piece_eqb_eq in EP. subst p.
  destruct (bremove T b1 (ep_captured_square c t)) as [[pc b2]|] eqn:Eq2; [|discriminate].
  destruct (bremove_ctr _ _ _ _ Eq2) as [C2 G2].
  intro H. bstep H Eq4. bstep H Eq5. bstep H Eq6.
  apply put_ctr in H. apply preserve_rights_ctr in Eq6. apply push_ep_ctr in Eq5.
  apply inc_fullmove_ok in Eq4. destruct Eq4 as [F4 C4].
  exists c. split; [assumption|].
  rewrite H, Eq6, Eq5, C4.
  cbn [reset_halfmove push_halfmove set_hm hm_stack fullmove pos_count seen_stack] in *.
  unfold ctr in C1, C2. inversion C1. inversion C2.
  repeat split; congruence.
Qed.

Lemma apply_castle_ctr b f t b' :
  apply_castle T b f t = Ok b' ->
  exists c, bget b f = Some (King, c) /\
    ctr b' = ((hd 0 (hm_stack b) + 1) :: hm_stack b, fullmove b + 1, pos_count b, seen_stack b)
    /\ fullmove b <> FULLMOVE_MAX /\ hm_stack b <> [] /\ hd 0 (hm_stack b) <> U8_MAX.
Proof.
  unfold apply_castle. intro H. bstep H Eq0. destruct a as [[c rf] rt].
  destruct (opt_pc_eqb (bget b f) (Some (King, c))) eqn:G1; cbn [negb] in H; [|discriminate H].
  apply opt_pc_eqb_some in G1.
  destruct (negb (is_none (bget b t))); [discriminate H|].
  destruct (negb (opt_pc_eqb (bget b rf) (Some (Rook, c)))); [discriminate H|].
  destruct (negb (is_none (bget b rt))); [discriminate H|].
  bstep H Eq1. bstep H Eq2. bstep H Eq3. bstep H Eq4. bstep H Eq5. bstep H Eq6. bstep H Eq7.
  apply lose_rights_ctr in H. apply push_ep_ctr in Eq7.
  apply inc_fullmove_ok in Eq6. destruct Eq6 as [F6 C6].
  apply inc_halfmove_ok in Eq5. destruct Eq5 as (h & rest & Eh & Hh & C5).
  apply unwrap_ok in Eq4. apply put_ctr in Eq4. apply remove_unwrap_ctr in Eq3.
  apply unwrap_ok in Eq2. apply put_ctr in Eq2. apply remove_unwrap_ctr in Eq1.
  exists c. split; [assumption|].
  assert (C : ctr a2 = ctr b) by congruence.
  unfold ctr in C. inversion C as [[Q1 Q2 Q3 Q4]].
  unfold ctr in C5. inversion C5 as [[R1 R2 R3 R4]].
  rewrite H, Eq7, C6. rewrite R1, R2, R3, R4, Q1, Q2, Q3, Q4. rewrite Q1 in Eh. rewrite Eh. cbn [hd].
  repeat split; try congruence; discriminate.
Qed.

(* does the move reset the half-move clock: the mover is a pawn, or the move's capture field is set *)
Definition mover_is_pawn (mover : option (piece * color)) : bool :=
  match mover with Some (Pawn, _) => true | _ => false end.
Definition mv_resets (mover : option (piece * color)) (m : cmove) : bool :=
  mover_is_pawn mover || opt_is_some (mv_captures m).

Theorem apply_move_ctr m b b' :
  apply_move T m b = Ok b' ->
  exists p c, bget b (mv_from m) = Some (p, c) /\
    ctr b' = ((if mv_resets (bget b (mv_from m)) m then 0 else hd 0 (hm_stack b) + 1) :: hm_stack b,
              fullmove b + 1, pos_count b, seen_stack b)
    /\ fullmove b <> FULLMOVE_MAX
    /\ (mv_resets (bget b (mv_from m)) m = false -> hm_stack b <> [] /\ hd 0 (hm_stack b) <> U8_MAX).
Proof.
  destruct m as [f t cap|f t cap pp|f t|f t]; cbn [apply_move mv_from]; intro H.
  - destruct (apply_std_ctr _ _ _ _ _ H) as (p & c & G & R). exists p, c. split; [assumption|].
    rewrite G. unfold mv_resets; cbn [mover_is_pawn mv_captures].
    replace (match p with Pawn => true | _ => false end) with (piece_eqb p Pawn) by (destruct p; reflexivity).
    exact R.
  - destruct (apply_promo_ctr _ _ _ _ _ _ H) as (p & c & G & R). exists p, c. split; [assumption|].
    rewrite G. unfold mv_resets; cbn [mover_is_pawn mv_captures].
    replace (match p with Pawn => true | _ => false end) with (piece_eqb p Pawn) by (destruct p; reflexivity).
    exact R.
  - destruct (apply_ep_ctr _ _ _ _ H) as (c & G & C & F). exists Pawn, c. split; [assumption|].
    rewrite G. unfold mv_resets; cbn [mover_is_pawn mv_captures opt_is_some orb].
    repeat split; try assumption; intro; discriminate.
  - destruct (apply_castle_ctr _ _ _ _ H) as (c & G & C & F & N1 & N2). exists King, c. split; [assumption|].
    rewrite G. unfold mv_resets; cbn [mover_is_pawn mv_captures opt_is_some orb].
    repeat split; assumption.
Qed.

(* ---- undo ---- *)
Ltac bstep2 H E x y :=
  match type of H with
  | bind ?r _ = Ok _ => destruct r as [[x y]| |] eqn:E; cbn [bind] in H; [|discriminate H|discriminate H]
  end.

Lemma undo_std_ctr b f t cap b' :
  undo_std T b f t cap = Ok b' ->
  ctr b' = (tl (hm_stack b), fullmove b - 1, pos_count b, seen_stack b)
  /\ fullmove b <> 0 /\ hm_stack b <> [].
Proof.
  unfold undo_std. destruct (bremove T b t) as [[[p c] b1]|] eqn:Eq1; [|discriminate].
  destruct (bremove_ctr _ _ _ _ Eq1) as [C1 _].
  intro H. bstep H Eq2.
  assert (C2 : ctr a = ctr b1).
  { destruct cap as [cp|]; [apply put_ctr in Eq2; assumption|inversion Eq2; reflexivity]. }
  bstep H Eq3. bstep H Eq4. bstep2 H Eq5 x b5. bstep H Eq6.
  apply unwrap_ok in H. apply put_ctr in H. apply pop_rights_ctr in Eq6. apply pop_ep_ctr in Eq5.
  apply dec_fullmove_ok in Eq4. destruct Eq4 as [F4 C4].
  apply pop_halfmove_ok in Eq3. destruct Eq3 as [F3 C3].
  assert (C : ctr a = ctr b) by congruence.
  unfold ctr in C. inversion C as [[Q1 Q2 Q3 Q4]].
  unfold ctr in C3. inversion C3 as [[R1 R2 R3 R4]].
  rewrite H, Eq6, Eq5, C4. rewrite R1, R2, R3, R4, Q1, Q2, Q3, Q4.
  repeat split; congruence.
Qed.

Lemma undo_promo_ctr b f t cap pp b' :
  undo_promo T b f t cap pp = Ok b' ->
  ctr b' = (tl (hm_stack b), fullmove b - 1, pos_count b, seen_stack b)
  /\ fullmove b <> 0 /\ hm_stack b <> [].
Proof.
  unfold undo_promo. destruct (bremove T b t) as [[[p c] b1]|] eqn:Eq1; [|discriminate].
  destruct (bremove_ctr _ _ _ _ Eq1) as [C1 _].
  destruct (piece_eqb p pp); [|discriminate].
  intro H. bstep H Eq2. apply put_ctr in Eq2.
  apply undo_std_ctr in H. destruct H as (C & F & N1).
  assert (C0 : ctr a = ctr b) by congruence.
  unfold ctr in C0. inversion C0 as [[Q1 Q2 Q3 Q4]].
  rewrite C, Q1, Q2, Q3, Q4. repeat split; congruence.
Qed.

Lemma undo_ep_ctr b f t b' :
  undo_ep T b f t = Ok b' ->
  ctr b' = (tl (hm_stack b), fullmove b - 1, pos_count b, seen_stack b)
  /\ fullmove b <> 0 /\ hm_stack b <> [].
Proof.
  unfold undo_ep. destruct (bremove T b t) as [[[p c] b1]|] eqn:Eq1; [|discriminate].
  destruct (bremove_ctr _ _ _ _ Eq1) as [C1 _].
  destruct (negb (piece_eqb p Pawn)); [discriminate|].
  intro H. bstep H Eq2. apply unwrap_ok in Eq2. apply put_ctr in Eq2.
  bstep H Eq3. bstep H Eq4. bstep2 H Eq5 x b5. bstep H Eq6.
  apply put_ctr in H. apply pop_rights_ctr in Eq6. apply pop_ep_ctr in Eq5.
  apply dec_fullmove_ok in Eq4. destruct Eq4 as [F4 C4].
  apply pop_halfmove_ok in Eq3. destruct Eq3 as [F3 C3].
  assert (C : ctr a = ctr b) by congruence.
  unfold ctr in C. inversion C as [[Q1 Q2 Q3 Q4]].
  unfold ctr in C3. inversion C3 as [[R1 R2 R3 R4]].
  rewrite H, Eq6, Eq5, C4. rewrite R1, R2, R3, R4, Q1, Q2, Q3, Q4.
  repeat split; congruence.
Qed.

Lemma undo_castle_ctr b f t b' :
  undo_castle T b f t = Ok b' ->
  ctr b' = (tl (hm_stack b), fullmove b - 1, pos_count b, seen_stack b)
  /\ fullmove b <> 0 /\ hm_stack b <> [].
Proof.
  unfold undo_castle. intro H. bstep H Eq0. destruct a as [[c rf] rt].
  destruct (negb (opt_pc_eqb (bget b t) (Some (King, c)))); [discriminate H|].
  destruct (negb (is_none (bget b f))); [discriminate H|].
  destruct (negb (opt_pc_eqb (bget b rt) (Some (Rook, c)))); [discriminate H|].
  destruct (negb (is_none (bget b rf))); [discriminate H|].
  bstep H Eq1. bstep H Eq2. bstep H Eq3. bstep H Eq4. bstep H Eq5. bstep H Eq6. bstep2 H Eq7 x b7.
  apply pop_rights_ctr in H. apply pop_ep_ctr in Eq7.
  apply pop_halfmove_ok in Eq6. destruct Eq6 as [F6 C6].
  apply dec_fullmove_ok in Eq5. destruct Eq5 as [F5 C5].
  apply unwrap_ok in Eq4. apply put_ctr in Eq4. apply remove_unwrap_ctr in Eq3.
  apply unwrap_ok in Eq2. apply put_ctr in Eq2. apply remove_unwrap_ctr in Eq1.
  assert (C : ctr a2 = ctr b) by congruence.
  unfold ctr in C. inversion C as [[Q1 Q2 Q3 Q4]].
  unfold ctr in C5. inversion C5 as [[R1 R2 R3 R4]].
  rewrite H, Eq7, C6. rewrite R1, R2, R3, R4, Q1, Q2, Q3, Q4.
  repeat split; congruence.
Qed.

Theorem undo_move_ctr m b b' :
  undo_move T m b = Ok b' ->
  ctr b' = (tl (hm_stack b), fullmove b - 1, pos_count b, seen_stack b)
  /\ fullmove b <> 0 /\ hm_stack b <> [].
Proof.
  destruct m as [f t cap|f t cap pp|f t|f t]; cbn [undo_move].
  - apply undo_std_ctr.
  - apply undo_promo_ctr.
  - apply undo_ep_ctr.
  - apply undo_castle_ctr.
Qed.

(* corollaries for the repetition bookkeeping: no move application or undo touches it *)
Corollary apply_move_counts m b b' :
  apply_move T m b = Ok b' -> pos_count b' = pos_count b /\ seen_stack b' = seen_stack b.
Proof.
  intro H. destruct (apply_move_ctr _ _ _ H) as (p & c & _ & C & _).
  unfold ctr in C. inversion C. split; reflexivity.
Qed.
Corollary undo_move_counts m b b' :
  undo_move T m b = Ok b' -> pos_count b' = pos_count b /\ seen_stack b' = seen_stack b.
Proof.
  intro H. destruct (undo_move_ctr _ _ _ H) as (C & _).
  unfold ctr in C. inversion C. split; reflexivity.
Qed.

End WithTable.

(* ---- concrete boards for the Examples of CounterProofs.v / RepetitionProofs.v ---- *)
Definition zero_table : ztable := {| zp := fun _ _ _ => 0; zc := fun _ => 0; ze := fun _ => 0 |}.
(* an arbitrary table with pairwise different small constants *)
Definition demo_table : ztable :=
  {| zp := fun p i c => (piece_idx p + 1) * 1000003 + i * 7919 + color_idx c * 104729 + 1;
     zc := fun r => r * 15485863 + 5;
     ze := fun i => i * 32452843 + 11 |}.

Definition put_all (T : ztable) (l : list (N * piece * color)) (b : board) : res board :=
  fold_left (fun r x => let* b0 := r in let '(i, p, c) := x in put T b0 i p c) l (Ok b).

Definition start_cells : list (N * piece * color) :=
  let back := [Rook; Knight; Bishop; Queen; King; Bishop; Knight; Rook] in
  let idx := [0; 1; 2; 3; 4; 5; 6; 7] in
  map (fun x => (fst x, snd x, White)) (combine idx back)
  ++ map (fun i => (8 + i, Pawn, White)) idx
  ++ map (fun i => (48 + i, Pawn, Black)) idx
  ++ map (fun x => (56 + fst x, snd x, Black)) (combine idx back).

(* Board::starting_position *)
Definition start_board (T : ztable) : board :=
  match put_all T start_cells board_new with Ok b => b | _ => board_new end.

Example start_board_builds :
  exists b, put_all zero_table start_cells board_new = Ok b /\ occupied b = 0xFFFF00000000FFFF.
Proof. eexists. split; [vm_compute; reflexivity|vm_compute; reflexivity]. Qed.

Print Assumptions apply_move_ctr.
Print Assumptions undo_move_ctr.
