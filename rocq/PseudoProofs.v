(* PseudoProofs.v — C01, pseudo-legal layer, assembly.
   Under `PInv b c` the engine's `pseudo_moves` never panics, has no duplicates, and as a set
   is the rules' `pseudo_legal (abstract b) c` plus the castles whose king target square is
   attacked (which the rules exclude at generation time and the engine leaves to the
   legality filter).  The slider lookup is any function agreeing with the ray walk
   (`rook_ref`/`bishop_ref`), so the theorems apply to the magic tables by C11.
   No axioms. *)
From Coq Require Import Lia ZArith NArith List Bool.
From ChessV Require Import Bits Types Board Moves Rays MoveGen Rules Abs GeomProofs.
From ChessV Require Import BitsLemmas BoardLemmas WfReflect PseudoBase.
From ChessV Require Import PseudoProofs1 PseudoProofs2 PseudoProofs2b PseudoProofs3 PseudoProofs4.
From ChessV Require Magic MagicProofs AttackProofs.
Import ListNotations.
Open Scope N_scope.
Open Scope list_scope.

Section Assembly.
Variables rook_t bishop_t : N -> N -> N.
Hypothesis rook_t_ref : forall x o, x < 64 -> rook_t x o = rook_ref x o.
Hypothesis bishop_t_ref : forall x o, x < 64 -> bishop_t x o = bishop_ref x o.

Notation knights b c := (expand b c (table_targets knight_targets b c Knight)).
Notation sliders b c := (expand b c (sliding_targets rook_t bishop_t b c)).
Notation kings b c := (expand b c (table_targets king_targets b c King)).

Lemma pseudo_moves_eq b c lp lc :
  pawn_moves b c = Ok lp -> castle_moves rook_t bishop_t b c = Ok lc ->
  pseudo_moves rook_t bishop_t b c = Ok (knights b c ++ sliders b c ++ kings b c ++ lp ++ lc).
Proof. intros Hp Hc. unfold pseudo_moves. cbv zeta. rewrite Hp, Hc. reflexivity. Qed.

Lemma pseudo_moves_inv b c l : pseudo_moves rook_t bishop_t b c = Ok l ->
  exists lp lc, pawn_moves b c = Ok lp /\ castle_moves rook_t bishop_t b c = Ok lc
                /\ l = knights b c ++ sliders b c ++ kings b c ++ lp ++ lc.
Proof.
  unfold pseudo_moves. cbv zeta. intro H.
  destruct (pawn_moves b c) as [lp| |]; cbn [bind] in H; try discriminate.
  destruct (castle_moves rook_t bishop_t b c) as [lc| |]; cbn [bind] in H; try discriminate.
  apply Ok_inj in H. exists lp, lc. split; [reflexivity|]. split; [reflexivity|]. symmetry. exact H.
Qed.

Theorem pseudo_total b c : PInv b c -> exists l, pseudo_moves rook_t bishop_t b c = Ok l.
Proof.
  intro PI. pose proof PI as (W & S & _ & EI & _).
  destruct (pawn_moves_total b c S EI) as [lp Hp].
  destruct (castle_moves_total rook_t bishop_t b c PI) as [lc Hc].
  eexists. apply (pseudo_moves_eq b c lp lc Hp Hc).
Qed.

(* ------------------------------------------------------------------ *)
(** * the classes of emitted moves are pairwise disjoint *)

Definition cls_piece (b : board) (c : color) (Q : piece -> Prop) (m : cmove) : Prop :=
  exists f t cap p, m = Std f t cap /\ bget b f = Some (p, c) /\ Q p.
Definition cls_pawn (b : board) (c : color) (m : cmove) : Prop :=
  cls_piece b c (fun p => p = Pawn) m
  \/ (exists f t cap pp, m = Promo f t cap pp) \/ (exists f t, m = EnPassant f t).
Definition cls_castle (m : cmove) : Prop := exists f t, m = Castle f t.

Lemma cls_piece_clash b c (Q1 Q2 : piece -> Prop) m : (forall p, Q1 p -> Q2 p -> False) ->
  cls_piece b c Q1 m -> cls_piece b c Q2 m -> False.
Proof.
  intros D [f [t [cap [p (E & B & Hq)]]]] [f' [t' [cap' [p' (E' & B' & Hq')]]]].
  rewrite E in E'. inversion E'; subst f' t' cap'. rewrite B in B'. inversion B'; subst p'.
  exact (D p Hq Hq').
Qed.

Lemma cls_piece_pawn_clash b c (Q : piece -> Prop) m : (forall p, Q p -> p = Pawn -> False) ->
  cls_piece b c Q m -> cls_pawn b c m -> False.
Proof.
  intros D H [H'|[[f [t [cap [pp E]]]]|[f [t E]]]].
  - exact (cls_piece_clash b c Q _ m D H H').
  - destruct H as [f' [t' [cap' [p (E' & _)]]]]. rewrite E in E'. discriminate.
  - destruct H as [f' [t' [cap' [p (E' & _)]]]]. rewrite E in E'. discriminate.
Qed.

Lemma cls_piece_castle_clash b c (Q : piece -> Prop) m : cls_piece b c Q m -> cls_castle m -> False.
Proof. intros [f [t [cap [p (E & _)]]]] [f' [t' E']]. rewrite E in E'. discriminate. Qed.

Lemma cls_pawn_castle_clash b c m : cls_pawn b c m -> cls_castle m -> False.
Proof.
  intros [H|[[f [t [cap [pp E]]]]|[f [t E]]]] [f' [t' E']].
  - exact (cls_piece_castle_clash b c _ m H (ex_intro _ f' (ex_intro _ t' E'))).
  - rewrite E in E'. discriminate.
  - rewrite E in E'. discriminate.
Qed.

Section Classes.
Variable b : board.
Variable c : color.
Hypothesis PI : PInv b c.
Let W : WF b := proj1 PI.

Lemma knights_cls m : In m (knights b c) -> cls_piece b c (fun p => p = Knight) m.
Proof.
  intro H. destruct (expand_table_origin _ b c Knight m W H) as [f [t [cap [E B]]]].
  exists f, t, cap, Knight. tauto.
Qed.

Lemma kings_cls m : In m (kings b c) -> cls_piece b c (fun p => p = King) m.
Proof.
  intro H. destruct (expand_table_origin _ b c King m W H) as [f [t [cap [E B]]]].
  exists f, t, cap, King. tauto.
Qed.

Lemma sliders_cls m : In m (sliders b c) -> cls_piece b c (fun p => is_slider p = true) m.
Proof.
  intro H. destruct (slider_moves_shape rook_t bishop_t b c m W H) as [f [t [cap [p (E & B & S)]]]].
  exists f, t, cap, p. tauto.
Qed.

Lemma pawns_cls lp m : pawn_moves b c = Ok lp -> In m lp -> cls_pawn b c m.
Proof.
  intros Hp H. pose proof PI as (_ & S & _ & EI & _).
  destruct (pawn_moves_shape b c W S EI lp m Hp H) as [[f [t [cap [E B]]]]|[X|X]].
  - left. exists f, t, cap, Pawn. tauto.
  - right. left. exact X.
  - right. right. exact X.
Qed.

Lemma castles_cls lc m : castle_moves rook_t bishop_t b c = Ok lc -> In m lc -> cls_castle m.
Proof.
  intros Hc H. destruct (castle_moves_shape rook_t bishop_t b c PI lc m Hc H) as [->| ->]; eexists; eexists; reflexivity.
Qed.

(* ------------------------------------------------------------------ *)
(** * the rules' list, class by class *)

Lemma rules_classes m :
  (exists pc, In m (on_squares (abstract b) c pc (piece_moves_r (abstract b) c pc))) <->
  In m (on_squares (abstract b) c Knight (fun i => step_moves (abstract b) c i knight_offsets))
  \/ (exists p, is_slider p = true /\ In m (on_squares (abstract b) c p (piece_moves_r (abstract b) c p)))
  \/ In m (on_squares (abstract b) c King (fun i => step_moves (abstract b) c i king_offsets))
  \/ In m (on_squares (abstract b) c Pawn (pawn_moves_r (abstract b) c)).
Proof.
  split.
  - intros [pc H]. destruct pc.
    + right. right. right. exact H.
    + left. exact H.
    + right. left. exists Bishop. split; [reflexivity | exact H].
    + right. left. exists Rook. split; [reflexivity | exact H].
    + right. left. exists Queen. split; [reflexivity | exact H].
    + right. right. left. exact H.
  - intros [H|[[p [_ H]]|[H|H]]].
    + exists Knight. exact H.
    + exists p. exact H.
    + exists King. exact H.
    + exists Pawn. exact H.
Qed.

Definition target_attacked (m : cmove) : bool :=
  attacked_by (abstract b) (opp_c c) (fileZ (mv_to m)) (rankZ (mv_to m)).

(* a castle the engine emits although the king would land on an attacked square *)
Definition castle_into_attack (l : list cmove) (m : cmove) : Prop :=
  In m l /\ cls_castle m /\ target_attacked m = true.

Theorem pseudo_exact l : pseudo_moves rook_t bishop_t b c = Ok l ->
  NoDup l
  /\ forall m, (In m l <-> In m (pseudo_legal (abstract b) c) \/ castle_into_attack l m).
Proof.
  intro H. destruct (pseudo_moves_inv b c l H) as [lp [lc (Hp & Hc & ->)]].
  pose proof PI as (_ & S & _ & EI & _).
  split.
  - (* NoDup *)
    apply PB_NoDup_app; [apply knight_moves_NoDup| |].
    + apply PB_NoDup_app; [apply slider_moves_NoDup| |].
      * apply PB_NoDup_app; [apply king_moves_NoDup| |].
        -- apply PB_NoDup_app; [apply (pawn_moves_NoDup b c W S EI lp Hp) | apply (castle_moves_NoDup rook_t bishop_t b c PI lc Hc) |].
           intros m H1 H2. exact (cls_pawn_castle_clash b c m (pawns_cls lp m Hp H1) (castles_cls lc m Hc H2)).
        -- intros m H1 H2. apply kings_cls in H1. apply in_app_or in H2. destruct H2 as [H2|H2].
           ++ apply (cls_piece_pawn_clash b c _ m) with (2 := H1) (3 := pawns_cls lp m Hp H2).
              intros p -> X. discriminate.
           ++ exact (cls_piece_castle_clash b c _ m H1 (castles_cls lc m Hc H2)).
      * intros m H1 H2. apply sliders_cls in H1. apply in_app_or in H2. destruct H2 as [H2|H2].
        -- apply (cls_piece_clash b c _ _ m) with (2 := H1) (3 := kings_cls m H2).
           intros p X ->. discriminate.
        -- apply in_app_or in H2. destruct H2 as [H2|H2].
           ++ apply (cls_piece_pawn_clash b c _ m) with (2 := H1) (3 := pawns_cls lp m Hp H2).
              intros p X ->. discriminate.
           ++ exact (cls_piece_castle_clash b c _ m H1 (castles_cls lc m Hc H2)).
    + intros m H1 H2. apply knights_cls in H1. apply in_app_or in H2. destruct H2 as [H2|H2].
      * apply (cls_piece_clash b c _ _ m) with (2 := H1) (3 := sliders_cls m H2).
        intros p -> X. discriminate.
      * apply in_app_or in H2. destruct H2 as [H2|H2].
        -- apply (cls_piece_clash b c _ _ m) with (2 := H1) (3 := kings_cls m H2).
           intros p -> X. discriminate.
        -- apply in_app_or in H2. destruct H2 as [H2|H2].
           ++ apply (cls_piece_pawn_clash b c _ m) with (2 := H1) (3 := pawns_cls lp m Hp H2).
              intros p -> X. discriminate.
           ++ exact (cls_piece_castle_clash b c _ m H1 (castles_cls lc m Hc H2)).
  - (* the set *)
    intro m. unfold castle_into_attack.
    rewrite in_pseudo_legal_classes, rules_classes.
    rewrite !in_app_iff.
    rewrite (knight_moves_exact b c m W), (king_moves_exact b c m W),
            (slider_moves_exact rook_t bishop_t rook_t_ref bishop_t_ref b c m W),
            (pawn_moves_exact b c W S EI lp m Hp).
    split.
    + intros [X|[X|[X|[X|X]]]]; try (left; left; tauto).
      destruct (target_attacked m) eqn:A.
      * right. split; [tauto|]. split; [exact (castles_cls lc m Hc X) | reflexivity].
      * left. right. apply (castle_engine_incl rook_t bishop_t rook_t_ref bishop_t_ref b c PI lc m Hc X A).
    + intros [[X|X]|[X _]]; [tauto | | exact X].
      right. right. right. right.
      apply (castle_rules_incl rook_t bishop_t rook_t_ref bishop_t_ref b c PI lc m Hc X).
Qed.

(* the two alternatives are exclusive: the rules never let the king land on an attacked square *)
Theorem pseudo_legal_not_into_attack l m : pseudo_moves rook_t bishop_t b c = Ok l ->
  In m (pseudo_legal (abstract b) c) -> castle_into_attack l m -> False.
Proof.
  intros H Hr (Hl & Hc & A).
  destruct (pseudo_moves_inv b c l H) as [lp [lc (Hp & Hcm & ->)]].
  pose proof PI as (_ & S & _ & EI & _).
  apply in_pseudo_legal_classes in Hr. destruct Hr as [Hr|Hr].
  - apply rules_classes in Hr.
    rewrite <- (knight_moves_exact b c m W), <- (king_moves_exact b c m W),
            <- (slider_moves_exact rook_t bishop_t rook_t_ref bishop_t_ref b c m W),
            <- (pawn_moves_exact b c W S EI lp m Hp) in Hr.
    destruct Hr as [X|[X|[X|X]]].
    + exact (cls_piece_castle_clash b c _ m (knights_cls m X) Hc).
    + exact (cls_piece_castle_clash b c _ m (sliders_cls m X) Hc).
    + exact (cls_piece_castle_clash b c _ m (kings_cls m X) Hc).
    + exact (cls_pawn_castle_clash b c m (pawns_cls lp m Hp X) Hc).
  - pose proof (castle_rules_target_safe b c PI m Hr) as Safe. unfold target_attacked in A.
    unfold att in Safe. congruence.
Qed.

Corollary pseudo_legal_incl l m : pseudo_moves rook_t bishop_t b c = Ok l ->
  In m (pseudo_legal (abstract b) c) -> In m l.
Proof. intros H Hr. apply (proj2 (pseudo_exact l H) m). left. exact Hr. Qed.

(* what the engine emits beyond the rules' list: exactly castles onto an attacked square *)
Corollary pseudo_extra l m : pseudo_moves rook_t bishop_t b c = Ok l ->
  In m l -> ~ In m (pseudo_legal (abstract b) c) ->
  (m = Castle (home_sq c) (ks_target c) \/ m = Castle (home_sq c) (qs_target c))
  /\ attacked_by (abstract b) (opp_c c) (fileZ (mv_to m)) (rankZ (mv_to m)) = true.
Proof.
  intros H Hl Hn. apply (proj2 (pseudo_exact l H) m) in Hl.
  destruct Hl as [Hl|(Hl & Hc & A)]; [contradiction|]. split; [|exact A].
  destruct (pseudo_moves_inv b c l H) as [lp [lc (Hp & Hcm & ->)]].
  repeat (apply in_app_or in Hl; destruct Hl as [Hl|Hl]).
  - exfalso. exact (cls_piece_castle_clash b c _ m (knights_cls m Hl) Hc).
  - exfalso. exact (cls_piece_castle_clash b c _ m (sliders_cls m Hl) Hc).
  - exfalso. exact (cls_piece_castle_clash b c _ m (kings_cls m Hl) Hc).
  - exfalso. exact (cls_pawn_castle_clash b c m (pawns_cls lp m Hp Hl) Hc).
  - exact (castle_moves_shape rook_t bishop_t b c PI lc m Hcm Hl).
Qed.

(* moves whose target is not attacked (in particular all non-castles) are in both or neither *)
Corollary pseudo_exact_safe l m : pseudo_moves rook_t bishop_t b c = Ok l ->
  (cls_castle m -> target_attacked m = false) ->
  (In m l <-> In m (pseudo_legal (abstract b) c)).
Proof.
  intros H Safe. rewrite (proj2 (pseudo_exact l H) m). split; [|tauto].
  intros [X|(_ & Hc & A)]; [exact X|]. rewrite (Safe Hc) in A. discriminate.
Qed.

End Classes.
End Assembly.

(* ------------------------------------------------------------------ *)
(** * instances: the reference lookups and the magic tables *)

Theorem pseudo_exact_ref b c l : PInv b c -> pseudo_moves rook_ref bishop_ref b c = Ok l ->
  NoDup l
  /\ forall m, (In m l <-> In m (pseudo_legal (abstract b) c) \/ castle_into_attack b c l m).
Proof. intros PI H. apply (pseudo_exact rook_ref bishop_ref); auto. Qed.

Theorem pseudo_total_ref b c : PInv b c -> exists l, pseudo_moves rook_ref bishop_ref b c = Ok l.
Proof. intro PI. apply (pseudo_total rook_ref bishop_ref); auto. Qed.

Theorem pseudo_exact_magic res bes b c l :
  Magic.entries_valid rook_deltas res = true -> Magic.entries_valid bishop_deltas bes = true ->
  PInv b c -> pseudo_moves (Magic.magic_rook res) (Magic.magic_bishop bes) b c = Ok l ->
  NoDup l
  /\ forall m, (In m l <-> In m (pseudo_legal (abstract b) c) \/ castle_into_attack b c l m).
Proof.
  intros Vr Vb PI H. apply (pseudo_exact (Magic.magic_rook res) (Magic.magic_bishop bes)); auto.
  - intros x o Lx. apply MagicProofs.rook_lookup_exact; assumption.
  - intros x o Lx. apply MagicProofs.bishop_lookup_exact; assumption.
Qed.

(* ------------------------------------------------------------------ *)
(** * non-vacuity: the initial position, kiwipete, an en-passant position *)

Fixpoint PP_put_all (b : board) (l : list (N * piece * color)) : board :=
  match l with
  | [] => b
  | (i, p, c) :: rest =>
      match put example_table b i p c with Ok b' => PP_put_all b' rest | _ => b end
  end.

Definition PP_back (base : N) (c : color) : list (N * piece * color) :=
  [(base, Rook, c); (base + 1, Knight, c); (base + 2, Bishop, c); (base + 3, Queen, c);
   (base + 4, King, c); (base + 5, Bishop, c); (base + 6, Knight, c); (base + 7, Rook, c)].
Definition PP_pawns (base : N) (c : color) : list (N * piece * color) :=
  map (fun k => (base + k, Pawn, c)) [0; 1; 2; 3; 4; 5; 6; 7].

Definition PP_initial : board :=
  PP_put_all board_new (PP_back 0 White ++ PP_pawns 8 White ++ PP_pawns 48 Black ++ PP_back 56 Black).

(* r3k2r/p1ppqpb1/bn2pnp1/3PN3/1p2P3/2N2Q1p/PPPBBPPP/R3K2R w KQkq - *)
Definition PP_kiwipete : board :=
  PP_put_all board_new
    [(0, Rook, White); (4, King, White); (7, Rook, White);
     (8, Pawn, White); (9, Pawn, White); (10, Pawn, White); (11, Bishop, White); (12, Bishop, White);
     (13, Pawn, White); (14, Pawn, White); (15, Pawn, White);
     (18, Knight, White); (21, Queen, White); (23, Pawn, Black);
     (25, Pawn, Black); (28, Pawn, White);
     (35, Pawn, White); (36, Knight, White);
     (40, Bishop, Black); (41, Knight, Black); (44, Pawn, Black); (45, Knight, Black); (46, Pawn, Black);
     (48, Pawn, Black); (50, Pawn, Black); (51, Pawn, Black); (52, Queen, Black); (53, Pawn, Black);
     (54, Bishop, Black);
     (56, Rook, Black); (60, King, Black); (63, Rook, Black)].

(* after 1. e4 (from a position with the black pawn already on d4): ep target e3, Black to move;
   built with the engine's own stack operations *)
Definition PP_ep : board :=
  match push_ep example_table
          (PP_put_all board_new [(4, King, White); (60, King, Black); (28, Pawn, White); (27, Pawn, Black);
                                 (29, Pawn, Black); (52, Pawn, Black)]) (bit 20) with
  | Ok b1 => match lose_rights example_table b1 ALL_RIGHTS with Ok b2 => b2 | _ => board_new end
  | _ => board_new
  end.

Fixpoint PP_mem (m : cmove) (l : list cmove) : bool :=
  match l with [] => false | x :: r => cmove_eqb m x || PP_mem m r end.
Definition PP_same (l1 l2 : list cmove) : bool :=
  forallb (fun m => PP_mem m l2) l1 && forallb (fun m => PP_mem m l1) l2
  && Nat.eqb (length l1) (length l2).
Definition PP_agree (b : board) (c : color) (n : nat) : bool :=
  match pseudo_moves rook_ref bishop_ref b c with
  | Ok l => PP_same l (pseudo_legal (abstract b) c) && Nat.eqb (length l) n
  | _ => false
  end.

Example PP_initial_ok : pinvb PP_initial White = true /\ PP_agree PP_initial White 20 = true.
Proof. vm_compute. split; reflexivity. Qed.

Example PP_kiwipete_ok :
  pinvb PP_kiwipete White = true /\ PP_agree PP_kiwipete White 48 = true
  /\ pinvb PP_kiwipete Black = true
  /\ match pseudo_moves rook_ref bishop_ref PP_kiwipete White with
     | Ok l => PP_mem (Castle 4 6) l && PP_mem (Castle 4 2) l && PP_mem (Std 21 45 (Some Knight)) l
     | _ => false
     end = true.
Proof. vm_compute. repeat split; reflexivity. Qed.

Example PP_ep_ok :
  pinvb PP_ep Black = true
  /\ match pseudo_moves rook_ref bishop_ref PP_ep Black with
     | Ok l => PP_same l (pseudo_legal (abstract PP_ep) Black)
               && PP_mem (EnPassant 27 20) l && PP_mem (EnPassant 29 20) l && PP_mem (Std 52 36 None) l
     | _ => false
     end = true.
Proof. vm_compute. split; reflexivity. Qed.

Print Assumptions pseudo_exact.
Print Assumptions pseudo_total.
Print Assumptions pseudo_legal_not_into_attack.
Print Assumptions pseudo_exact_magic.
