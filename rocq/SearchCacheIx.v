(* SearchCacheIx.v — the shared result cache and the parallel root tasks of the chess search,
   for the DEPTH-INDEXED invariant of SearchIx.v (the cache part of SearchLink.v, re-proved).

   SearchLink.v proves cached_search_same / pool_any_schedule / pool_root_minimax_chess /
   parallel_cached_search_same under an unindexed invariant `Good : board -> Prop`, a depth
   bound D, and a key hypothesis quantified over every flag mx.  Neither can be instantiated
   by the real reachable-state invariant: it is consumed by every ply (see SearchIx.v), and the
   64-bit position key `hash` does not contain the side to move, so "equal keys => equal values"
   can hold only when the flag `mx` is the side to move of the position.

   Here the same theorems are proved from
     - the five hypotheses of SearchIx.Ix about `Good : nat -> board -> Prop`, and
     - key_det_chess: two positions that may both be searched d plies, with the same key and
       the same side to move, have the same alpha_beta_minimax value when searched with
       maximizing = "White to move".
   The index set handed to the generic theory (InterleaveIx.v) is
       Sp d mx b := Good d b /\ maximize (turn b) = mx ;
   children flip the side to move (child_turn), so Sp (S d) mx b -> Sp d (negb mx) c.
   Consequently the theorems are about searches whose flag is the side to move, which is how
   `search` / `root_task` call alpha_beta_minimax.  Proofs only. *)
From Coq Require Import Lia List ZArith Permutation Bool.
From ChessV Require Import BoardLemmas Game UndoProofs EpFrame GenFrame TurnFrame WfReflect
  SearchFrame SearchLink SearchIx.
From ChessV Require AlphaBeta Interleave InterleaveIx.
Import ListNotations.
Open Scope N_scope.
Open Scope list_scope.

#[local] Arguments N.add : simpl never.
#[local] Arguments N.sub : simpl never.
#[local] Arguments N.mul : simpl never.
#[local] Arguments N.eqb : simpl never.
#[local] Arguments N.ltb : simpl never.
#[local] Arguments N.leb : simpl never.
#[local] Arguments N.land : simpl never.
#[local] Arguments N.lor : simpl never.
#[local] Arguments N.lxor : simpl never.
#[local] Arguments N.of_nat : simpl never.
#[local] Arguments Z.max : simpl never.
#[local] Arguments Z.min : simpl never.
#[local] Arguments Z.leb : simpl never.
#[local] Arguments Z.ltb : simpl never.

Lemma SCI_maximize_opp c : maximize (opp_c c) = negb (maximize c).
Proof. destruct c; reflexivity. Qed.

Section CacheIx.
Variable T : ztable.
Variables rook_t bishop_t : N -> N -> N.

Notation gen_moves := (gen_moves T rook_t bishop_t).
Notation gen_annotated := (gen_annotated T rook_t bishop_t).
Notation score := (score T rook_t bishop_t).
Notation search := (search T rook_t bishop_t).
Notation children := (children T rook_t bishop_t).
Notation leaf := (leaf T rook_t bishop_t).

Notation gab := (AlphaBeta.ab board children leaf I16_MIN I16_MAX).
Notation gmm := (AlphaBeta.mm board children leaf I16_MIN I16_MAX).

(* every child position has the other side to move (no invariant needed) *)
Lemma child_turn b c : In c (children b) -> turn c = opp_c (turn b).
Proof.
  intro Hin. unfold SearchLink.children in Hin.
  destruct (gen_annotated b (turn b)) as [[l b']|e|]; [|destruct Hin|destruct Hin].
  unfold SearchLink.kids in Hin. apply in_flat_map in Hin. destruct Hin as [m [_ Hc]].
  unfold SearchLink.kid in Hc. destruct (apply_move T m b) as [b1|e|] eqn:Ha; [|destruct Hc|destruct Hc].
  destruct Hc as [<-|[]].
  change (turn (toggle_turn b1)) with (opp_c (turn b1)).
  rewrite (apply_move_keeps_turn T m b b1 Ha). reflexivity.
Qed.

Lemma child_maximize b c : In c (children b) -> maximize (turn c) = negb (maximize (turn b)).
Proof. intro Hin. rewrite (child_turn b c Hin). apply SCI_maximize_opp. Qed.

(* the hypotheses of SearchIx.Ix, verbatim *)
Variable Good : nat -> board -> Prop.
Hypothesis Good_inv : forall k b, Good k b -> WF b /\ ep_wf b (turn b).
Hypothesis Good_gen : forall k b, Good (S k) b -> exists l b', gen_annotated b (turn b) = Ok (l, b').
Hypothesis Good_step : forall k b ms m b1,
  Good (S k) b -> gen_moves b (turn b) = Ok (ms, b) -> In m ms -> apply_move T m b = Ok b1 ->
  Good k (toggle_turn b1).
Hypothesis Good_score : forall k b, Good k b -> exists v b', score b (turn b) (N.of_nat k) = Ok (v, b').
Hypothesis score_range : forall k b v b',
  Good k b -> score b (turn b) (N.of_nat k) = Ok (v, b') -> (I16_MIN < v < I16_MAX)%Z.

(* the nodes the cache is about: b may be searched d plies, and mx is its side to move *)
Definition Sp (d : nat) (mx : bool) (b : board) : Prop := Good d b /\ maximize (turn b) = mx.

(* The one assumption about the cache key, stated about the model's own search: two positions
   that may be searched d plies, with the same 64-bit position key and the same side to move,
   have the same alpha_beta_minimax value (same window, same depth, maximizing = White to move).
   The key does not contain the side to move, hence the side condition. *)
Hypothesis key_det_chess : forall p q alpha beta d v w,
  Good d p -> Good d q -> hash p = hash q -> maximize (turn p) = maximize (turn q) ->
  clock_tag p d = clock_tag q d ->
  Search.ab T rook_t bishop_t d p alpha beta (maximize (turn p)) = Ok (v, p) ->
  Search.ab T rook_t bishop_t d q alpha beta (maximize (turn q)) = Ok (w, q) -> v = w.

Let L_ab_link := ab_link_ix T rook_t bishop_t Good Good_inv Good_gen Good_step Good_score score_range.
Let L_mm_link := mm_link_ix T rook_t bishop_t Good Good_inv Good_gen Good_step Good_score score_range.
Let L_children_Good := children_Good_ix T rook_t bishop_t Good Good_inv Good_gen Good_step.

Lemma Sp_moves : forall d mx p c, Sp (S d) mx p -> In c (children p) -> Sp d (negb mx) c.
Proof.
  intros d mx p c [HG Hmx] Hin. split.
  - exact (L_children_Good d p c HG Hin).
  - rewrite (child_maximize p c Hin), Hmx. reflexivity.
Qed.

Lemma key_det_link_ix : forall p a b d mx p' a' b' d' mx',
  Sp d mx p -> Sp d' mx' p' ->
  mkkey p a b d mx = mkkey p' a' b' d' mx' -> gab d mx p a b = gab d' mx' p' a' b'.
Proof.
  intros p a b d mx p' a' b' d' mx' [HG Hm] [HG' Hm'] HE. unfold mkkey in HE.
  assert (Hh : hash p = hash p') by exact (f_equal (fun k : skey => fst (fst (fst (fst (fst k))))) HE).
  assert (Ha : a = a') by exact (f_equal (fun k : skey => snd (fst (fst (fst (fst k))))) HE).
  assert (Hb : b = b') by exact (f_equal (fun k : skey => snd (fst (fst (fst k)))) HE).
  assert (Hdd : d = d') by exact (f_equal (fun k : skey => snd (fst (fst k))) HE).
  assert (Hmx : mx = mx') by exact (f_equal (fun k : skey => snd (fst k)) HE).
  assert (Hck : clock_tag p d = clock_tag p' d') by exact (f_equal (fun k : skey => snd k) HE).
  subst a' b' d'. rewrite <- Hmx. rewrite <- Hmx in Hm'. clear Hmx.
  assert (Hpq : maximize (turn p) = maximize (turn p')) by (rewrite Hm, Hm'; reflexivity).
  pose proof (L_ab_link d p a b (maximize (turn p)) HG) as H1.
  pose proof (L_ab_link d p' a b (maximize (turn p')) HG') as H2.
  pose proof (key_det_chess p p' a b d _ _ HG HG' Hh Hpq Hck H1 H2) as HE'.
  rewrite Hm in HE'. rewrite Hm' in HE'. exact HE'.
Qed.

(* the memoised search as a resumption over the shared cache (Interleave.abp), and the
   sequential / interleaved execution of such resumptions, for the chess instance *)
Notation cabp := (Interleave.abp board skey children leaf I16_MIN I16_MAX mkkey).
Notation crun := (Interleave.run skey skey_eqb).
Notation crun_sched := (Interleave.run_sched skey skey_eqb).
Notation croot_pool := (Interleave.root_pool board skey children leaf I16_MIN I16_MAX mkkey).

(* a cache is sound when every entry is the alpha_beta_minimax value of every node
   (d, side to move, position) with Good d position that maps to its key *)
Definition cache_sound (c : Interleave.cache skey) : Prop :=
  InterleaveIx.rsound board skey children leaf I16_MIN I16_MAX mkkey skey_eqb Sp c.

Lemma cache_sound_nil_ix : cache_sound [].
Proof. apply InterleaveIx.rsound_nil. Qed.

(* C08, the cache: started from ANY sound cache, the memoised search of a position that may be
   searched d plies (flag = side to move) returns exactly the value of the cache-free
   alpha_beta_minimax of the model, for every window, and leaves a sound cache *)
Theorem cached_search_same_ix : forall c d b alpha beta,
  Good d b -> cache_sound c ->
  Search.ab T rook_t bishop_t d b alpha beta (maximize (turn b))
    = Ok (fst (crun c (cabp d (maximize (turn b)) b alpha beta Interleave.Ret)), b)
  /\ cache_sound (snd (crun c (cabp d (maximize (turn b)) b alpha beta Interleave.Ret))).
Proof.
  intros c d b alpha beta HG Hc.
  destruct (InterleaveIx.run_abp_ix board skey children leaf I16_MIN I16_MAX mkkey skey_eqb
              skey_eqb_true Sp Sp_moves key_det_link_ix c d (maximize (turn b)) b alpha beta
              (conj HG eq_refl) Hc) as [Hv Hs].
  split; [|exact Hs]. rewrite Hv. exact (L_ab_link d b alpha beta _ HG).
Qed.

(* ... with the full window it returns the oracle's minimax value *)
Corollary cached_search_minimax_ix : forall c d b,
  Good d b -> cache_sound c ->
  Search.mm T rook_t bishop_t d b (maximize (turn b))
    = Ok (fst (crun c (cabp d (maximize (turn b)) b I16_MIN I16_MAX Interleave.Ret))).
Proof.
  intros c d b HG Hc.
  destruct (cached_search_same_ix c d b I16_MIN I16_MAX HG Hc) as [Hab _].
  destruct (ab_full_window_chess_ix T rook_t bishop_t Good Good_inv Good_gen Good_step Good_score
              score_range d b (maximize (turn b)) HG) as [v [Hab' Hmm]].
  rewrite Hab in Hab'. apply SL_Ok_inj in Hab'. rewrite Hmm. f_equal.
  symmetry. exact (f_equal fst Hab').
Qed.

Lemma children_Forall_Sp d b : Good (S d) b -> Forall (Sp d (negb (maximize (turn b)))) (children b).
Proof.
  intro HG. apply Forall_forall. intros c Hc. exact (Sp_moves d _ b c (conj HG eq_refl) Hc).
Qed.

(* C08/C09, parallelism: the root tasks (one memoised full-window search per child position,
   all sharing one cache) are run under an ARBITRARY schedule `sch` of atomic cache accesses.
   Whenever task i has finished, its result is the value of the sequential cache-free
   alpha_beta_minimax on the i-th child, which is the oracle's minimax value of that child *)
Theorem pool_any_schedule_ix : forall c0 d b sch i c w,
  Good (S d) b -> cache_sound c0 ->
  let mx := negb (maximize (turn b)) in
  nth_error (children b) i = Some c ->
  nth_error (snd (crun_sched sch (croot_pool c0 d mx I16_MIN I16_MAX (children b)))) i
    = Some (Interleave.Ret w) ->
  Search.ab T rook_t bishop_t d c I16_MIN I16_MAX mx = Ok (w, c)
  /\ Search.mm T rook_t bishop_t d c mx = Ok w.
Proof.
  intros c0 d b sch i c w HG Hc mx Hi Ht.
  pose proof (InterleaveIx.pool_task_result_ix board skey children leaf I16_MIN I16_MAX mkkey
                skey_eqb skey_eqb_true Sp Sp_moves key_det_link_ix
                c0 d mx I16_MIN I16_MAX (children b) sch i c w
                (children_Forall_Sp d b HG) Hc Hi Ht) as Hw.
  assert (HGc : Good d c) by (apply (L_children_Good d b c HG); exact (nth_error_In _ _ Hi)).
  rewrite Hw. split; [exact (L_ab_link d c I16_MIN I16_MAX mx HGc)|].
  rewrite (AlphaBeta.ab_full_window board children leaf I16_MIN I16_MAX (leaf_range T rook_t bishop_t)).
  exact (L_mm_link d c mx HGc).
Qed.

(* every schedule can be extended to one in which all root tasks have finished (no schedule can
   block a task), the finished pool then holds the oracle's minimax value of every child, the
   cache is still sound, and the max (White) / min (Black) of those values is the oracle's
   minimax value of the root *)
Theorem pool_root_minimax_chess_ix : forall c0 d b sch,
  Good (S d) b -> cache_sound c0 -> children b <> [] ->
  let mx := maximize (turn b) in
  exists sch' ws,
    let pl := crun_sched (sch ++ sch') (croot_pool c0 d (negb mx) I16_MIN I16_MAX (children b)) in
    snd pl = map Interleave.Ret ws /\ cache_sound (fst pl) /\
    Forall2 (fun c w => Search.mm T rook_t bishop_t d c (negb mx) = Ok w) (children b) ws /\
    Search.mm T rook_t bishop_t (S d) b mx
      = Ok (if mx then fold_left Z.max ws I16_MIN else fold_left Z.min ws I16_MAX).
Proof.
  intros c0 d b sch HG Hc Hne mx.
  pose proof (leaf_range T rook_t bishop_t) as Hlr.
  destruct (InterleaveIx.pool_schedule_extends_ix board skey children leaf I16_MIN I16_MAX mkkey
              skey_eqb skey_eqb_true Sp Sp_moves key_det_link_ix
              c0 d (negb mx) I16_MIN I16_MAX (children b) sch
              (children_Forall_Sp d b HG) Hc) as [sch' [Hpl Hs]].
  cbv zeta in Hpl, Hs.
  exists sch', (map (fun c => gmm d (negb mx) c) (children b)). cbv zeta.
  split; [|split; [exact Hs|split]].
  - rewrite Hpl, map_map. apply map_ext. intro c. f_equal.
    exact (AlphaBeta.ab_full_window board children leaf I16_MIN I16_MAX Hlr d (negb mx) c).
  - assert (HF : Forall (Good d) (children b)).
    { apply Forall_forall. intros c Hin. exact (L_children_Good d b c HG Hin). }
    clear Hpl Hs Hne.
    induction HF as [|c cs HGc HF IH]; cbn [map]; constructor.
    + exact (L_mm_link d c (negb mx) HGc).
    + exact IH.
  - rewrite (L_mm_link (S d) b mx HG).
    rewrite <- (AlphaBeta.root_best board children leaf I16_MIN I16_MAX Hlr d mx b
                  (children b) eq_refl Hne).
    f_equal. destruct mx; f_equal; apply map_ext; intro c;
      exact (AlphaBeta.ab_full_window board children leaf I16_MIN I16_MAX Hlr d _ c).
Qed.

(* C08 for the engine as a whole: the score that the sequential, cache-free `search` of the
   model reports is the score obtained from the parallel, cached root tasks under any schedule
   (completed), starting from any sound cache *)
Theorem parallel_cached_search_same_ix : forall depth b v m b1 c0 sch,
  1 <= depth -> Good (N.to_nat depth) b -> search depth b = SOk (v, m, b1) -> cache_sound c0 ->
  let mx := maximize (turn b) in
  exists sch' ws,
    snd (crun_sched (sch ++ sch')
           (croot_pool c0 (Nat.pred (N.to_nat depth)) (negb mx) I16_MIN I16_MAX (children b)))
      = map Interleave.Ret ws /\
    v = (if mx then fold_left Z.max ws I16_MIN else fold_left Z.min ws I16_MAX).
Proof.
  intros depth b v m b1 c0 sch HL HG Hs Hc mx.
  pose proof (search_score_is_minimax_ix T rook_t bishop_t Good Good_inv Good_gen Good_step Good_score
                score_range depth b v m b1 HL HG Hs) as Hmm.
  pose proof (search_children_nonempty_ix T rook_t bishop_t Good Good_inv Good_step
                depth b v m b1 HL HG Hs) as Hne.
  assert (Ed : N.to_nat depth = S (Nat.pred (N.to_nat depth))) by lia.
  assert (HG' : Good (S (Nat.pred (N.to_nat depth))) b) by (rewrite <- Ed; exact HG).
  destruct (pool_root_minimax_chess_ix c0 (Nat.pred (N.to_nat depth)) b sch HG' Hc Hne)
    as [sch' [ws [Hpl [_ [_ Hroot]]]]].
  cbv zeta in Hpl, Hroot. exists sch', ws. split; [exact Hpl|].
  rewrite Ed in Hmm. rewrite Hroot in Hmm. apply SL_Ok_inj in Hmm.
  symmetry. exact Hmm.
Qed.

End CacheIx.

(* ------------------------------------------------------------------ *)
(** * non-vacuity *)

(* all hypotheses of Section CacheIx (the five of SearchIx.Ix and key_det_chess) are satisfiable
   together: SIx_Good k b := "k <= 3 and b is the checkmated position SF_mated" *)
Example cache_ix_hypotheses_satisfiable :
  (forall k b, SIx_Good k b -> WF b /\ ep_wf b (turn b)) /\
  (forall k b, SIx_Good (S k) b -> exists l b', gen_annotated example_table rook_ref bishop_ref b (turn b) = Ok (l, b')) /\
  (forall k b ms m b1, SIx_Good (S k) b -> gen_moves example_table rook_ref bishop_ref b (turn b) = Ok (ms, b) ->
     In m ms -> apply_move example_table m b = Ok b1 -> SIx_Good k (toggle_turn b1)) /\
  (forall k b, SIx_Good k b -> exists v b', score example_table rook_ref bishop_ref b (turn b) (N.of_nat k) = Ok (v, b')) /\
  (forall k b v b', SIx_Good k b -> score example_table rook_ref bishop_ref b (turn b) (N.of_nat k) = Ok (v, b') ->
     (I16_MIN < v < I16_MAX)%Z) /\
  (forall p q alpha beta d v w, SIx_Good d p -> SIx_Good d q -> hash p = hash q ->
     maximize (turn p) = maximize (turn q) -> clock_tag p d = clock_tag q d ->
     Search.ab example_table rook_ref bishop_ref d p alpha beta (maximize (turn p)) = Ok (v, p) ->
     Search.ab example_table rook_ref bishop_ref d q alpha beta (maximize (turn q)) = Ok (w, q) -> v = w).
Proof.
  destruct ix_hypotheses_satisfiable as [H1 [H2 [H3 [H4 H5]]]].
  split; [exact H1|]. split; [exact H2|]. split; [exact H3|]. split; [exact H4|]. split; [exact H5|].
  intros p q alpha beta d v w [_ ->] [_ ->] _ _ _ Hv Hw. rewrite Hv in Hw. apply SL_Ok_inj in Hw.
  exact (f_equal fst Hw).
Qed.

(* ... so the theorems apply: the memoised search of the mated position from the empty cache,
   a closed statement *)
Example cached_search_same_ix_instance : forall d alpha beta, (d <= 3)%nat ->
  Search.ab example_table rook_ref bishop_ref d SF_mated alpha beta (maximize (turn SF_mated))
  = Ok (fst (Interleave.run skey skey_eqb []
              (Interleave.abp board skey (children example_table rook_ref bishop_ref)
                 (leaf example_table rook_ref bishop_ref) I16_MIN I16_MAX mkkey d
                 (maximize (turn SF_mated)) SF_mated alpha beta Interleave.Ret)), SF_mated).
Proof.
  destruct cache_ix_hypotheses_satisfiable as [H1 [H2 [H3 [H4 [H5 H6]]]]].
  intros d alpha beta Hd.
  exact (proj1 (cached_search_same_ix example_table rook_ref bishop_ref SIx_Good H1 H2 H3 H4 H5 H6
                  [] d SF_mated alpha beta (conj Hd eq_refl)
                  (cache_sound_nil_ix example_table rook_ref bishop_ref SIx_Good))).
Qed.

(* the side-to-move fact used for S_moves, on the mate-in-one position: all 25 children have
   Black to move *)
Example child_turn_instance :
  forallb (fun c => match turn c with Black => true | White => false end)
          (children example_table rook_ref bishop_ref SF_mate1) = true /\
  turn SF_mate1 = White.
Proof. vm_compute. split; reflexivity. Qed.

Print Assumptions cached_search_same_ix.
Print Assumptions cached_search_minimax_ix.
Print Assumptions pool_any_schedule_ix.
Print Assumptions pool_root_minimax_chess_ix.
Print Assumptions parallel_cached_search_same_ix.
