(* BitsLemmas.v — foundation lemmas about the bitboard primitives of Bits.v:
   mem / bit / shl / shr / andn / bits_of / popcount, 64-bit bounds, and the tactics
   [bitblast] and [xor_cancel].  Proofs only; no new executable definitions except the
   Prop [fits64] and two small boolean checkers used for finite sweeps. *)
From Coq Require Import Lia Sorted.
From ChessV Require Export Bits.

#[global] Arguments N.add : simpl never.
#[global] Arguments N.sub : simpl never.
#[global] Arguments N.mul : simpl never.
#[global] Arguments N.eqb : simpl never.
#[global] Arguments N.ltb : simpl never.
#[global] Arguments N.leb : simpl never.
#[global] Arguments N.shiftl : simpl never.
#[global] Arguments N.shiftr : simpl never.
#[global] Arguments N.land : simpl never.
#[global] Arguments N.lor : simpl never.
#[global] Arguments N.lxor : simpl never.
#[global] Arguments N.ldiff : simpl never.
#[global] Arguments N.testbit : simpl never.

(* ------------------------------------------------------------------ *)
(** * membership *)

Lemma mem_testbit i x : mem i x = N.testbit x i.
Proof. reflexivity. Qed.

Lemma testbit_bit i j : N.testbit (bit i) j = (j =? i).
Proof. unfold bit. rewrite N.shiftl_1_l, N.pow2_bits_eqb. apply N.eqb_sym. Qed.

Lemma mem_bit j i : mem j (bit i) = (j =? i).
Proof. apply testbit_bit. Qed.

Lemma mem_bit_same i : mem i (bit i) = true.
Proof. rewrite mem_bit. apply N.eqb_refl. Qed.

Lemma mem_bit_neq j i : j <> i -> mem j (bit i) = false.
Proof. intro H. rewrite mem_bit. apply N.eqb_neq. exact H. Qed.

Lemma mem_0 i : mem i 0 = false.
Proof. apply N.bits_0. Qed.

Lemma mem_lor i x y : mem i (N.lor x y) = mem i x || mem i y.
Proof. apply N.lor_spec. Qed.

Lemma mem_land i x y : mem i (N.land x y) = mem i x && mem i y.
Proof. apply N.land_spec. Qed.

Lemma mem_lxor i x y : mem i (N.lxor x y) = xorb (mem i x) (mem i y).
Proof. apply N.lxor_spec. Qed.

Lemma mem_ldiff i x y : mem i (N.ldiff x y) = mem i x && negb (mem i y).
Proof. apply N.ldiff_spec. Qed.

Lemma mem_andn i x y : mem i (andn x y) = mem i x && negb (mem i y).
Proof. apply N.ldiff_spec. Qed.

Lemma bb_ext x y : (forall i, mem i x = mem i y) -> x = y.
Proof. intro H. apply N.bits_inj. exact H. Qed.

Lemma bit_neq_0 i : bit i <> 0.
Proof.
  intro H. pose proof (mem_bit_same i) as E. rewrite H, mem_0 in E. discriminate.
Qed.

Lemma bit_inj i j : bit i = bit j -> i = j.
Proof.
  intro H. pose proof (mem_bit_same i) as E. rewrite H, mem_bit in E.
  apply N.eqb_eq. exact E.
Qed.

Lemma is_empty_spec x : is_empty x = true <-> x = 0.
Proof. unfold is_empty. apply N.eqb_eq. Qed.

Lemma is_empty_false x : is_empty x = false <-> x <> 0.
Proof. unfold is_empty. apply N.eqb_neq. Qed.

Lemma is_empty_bit i : is_empty (bit i) = false.
Proof. apply is_empty_false, bit_neq_0. Qed.

Lemma nonzero_mem x : x <> 0 -> exists i, mem i x = true.
Proof.
  intro H. exists (N.log2 x). apply N.bit_log2. exact H.
Qed.

Lemma zero_mem x : (forall i, mem i x = false) -> x = 0.
Proof. intro H. apply bb_ext. intro i. rewrite H, mem_0. reflexivity. Qed.

Lemma overlaps_spec x y : overlaps x y = true <-> exists i, mem i x = true /\ mem i y = true.
Proof.
  unfold overlaps. rewrite negb_true_iff, N.eqb_neq. split.
  - intro H. destruct (nonzero_mem _ H) as [i Hi]. exists i.
    rewrite mem_land in Hi. apply andb_true_iff in Hi. exact Hi.
  - intros [i [H1 H2]] E.
    assert (F : mem i (N.land x y) = true) by (rewrite mem_land, H1, H2; reflexivity).
    rewrite E, mem_0 in F. discriminate.
Qed.

Lemma land_0_disjoint x y :
  N.land x y = 0 <-> (forall i, mem i x && mem i y = false).
Proof.
  split.
  - intros E i. rewrite <- mem_land, E. apply mem_0.
  - intro H. apply zero_mem. intro i. rewrite mem_land. apply H.
Qed.

(* ------------------------------------------------------------------ *)
(** * the tactics *)

(* [xor_cancel]: equalities between XOR-combinations of arbitrary N atoms (and 0). *)
Ltac xor_cancel :=
  apply N.bits_inj; let n := fresh "n" in intro n;
  repeat rewrite ?N.lxor_spec, ?N.bits_0;
  repeat match goal with
         | |- context [N.testbit ?x n] => destruct (N.testbit x n)
         end;
  reflexivity.

(* [bitblast]: equation between bitboard expressions built from lor/land/lxor/ldiff/andn,
   [bit i] and 0, using hypotheses of the form [mem i x = b] / [N.testbit x i = b] about
   the bit indices that occur in [bit _] sub-terms.  Reduces to per-bit boolean reasoning. *)
Ltac bitblast_rw :=
  repeat rewrite ?N.lor_spec, ?N.land_spec, ?N.lxor_spec, ?N.ldiff_spec, ?testbit_bit, ?N.bits_0.

Ltac bitblast :=
  unfold andn, mem in *;
  apply N.bits_inj; let n := fresh "n" in intro n;
  bitblast_rw;
  repeat match goal with
         | |- context [N.eqb n ?i] =>
             destruct (N.eqb_spec n i); [subst n | ]
         end;
  repeat match goal with
         | H : N.testbit ?x ?i = _ |- context [N.testbit ?x ?i] => rewrite H
         end;
  repeat match goal with
         | |- context [N.testbit ?x ?m] => destruct (N.testbit x m)
         end;
  try reflexivity; try discriminate; try congruence.

(* ------------------------------------------------------------------ *)
(** * set / clear a bit *)

Lemma lor_bit_lxor_bit x i : mem i x = false -> N.lxor (N.lor x (bit i)) (bit i) = x.
Proof. intro H. bitblast. Qed.

Lemma lxor_bit_lor_bit x i : mem i x = true -> N.lor (N.lxor x (bit i)) (bit i) = x.
Proof. intro H. bitblast. Qed.

Lemma lxor_bit_lxor_bit x i : N.lxor (N.lxor x (bit i)) (bit i) = x.
Proof. bitblast. Qed.

Lemma lxor_lxor_cancel x y : N.lxor (N.lxor x y) y = x.
Proof. xor_cancel. Qed.

Lemma lor_bit_eq_lxor_bit x i : mem i x = false -> N.lor x (bit i) = N.lxor x (bit i).
Proof. intro H. bitblast. Qed.

Lemma lxor_bit_eq_andn_bit x i : mem i x = true -> N.lxor x (bit i) = andn x (bit i).
Proof. intro H. bitblast. Qed.

Lemma lor_bit_idem x i : mem i x = true -> N.lor x (bit i) = x.
Proof. intro H. bitblast. Qed.

Lemma mem_set_bit j x i : mem j (N.lor x (bit i)) = if j =? i then true else mem j x.
Proof.
  rewrite mem_lor, mem_bit. destruct (j =? i); [apply orb_true_r | apply orb_false_r].
Qed.

Lemma mem_flip_bit j x i : mem j (N.lxor x (bit i)) = if j =? i then negb (mem j x) else mem j x.
Proof.
  rewrite mem_lxor, mem_bit. destruct (j =? i); [apply xorb_true_r | apply xorb_false_r].
Qed.

Lemma mem_clear_bit j x i : mem j (andn x (bit i)) = if j =? i then false else mem j x.
Proof.
  rewrite mem_andn, mem_bit. destruct (j =? i); cbn [negb]; [apply andb_false_r | apply andb_true_r].
Qed.

(* ------------------------------------------------------------------ *)
(** * 64-bit bounds *)

Definition fits64 (x : N) : Prop := forall i, 64 <= i -> mem i x = false.

Lemma TWO64_pow : TWO64 = 2 ^ 64.
Proof. reflexivity. Qed.

Lemma ALL64_ones : ALL64 = N.ones 64.
Proof. reflexivity. Qed.

Lemma ALL64_succ : TWO64 = ALL64 + 1.
Proof. reflexivity. Qed.

Lemma mem_ALL64 i : mem i ALL64 = (i <? 64).
Proof.
  unfold mem. rewrite ALL64_ones. destruct (N.ltb_spec i 64) as [H|H].
  - apply N.ones_spec_low. exact H.
  - apply N.ones_spec_high. exact H.
Qed.

Lemma fits64_lt x : fits64 x <-> x < TWO64.
Proof.
  rewrite TWO64_pow. split.
  - intro H.
    assert (E : x = x mod 2 ^ 64).
    { apply N.bits_inj. intro n. destruct (N.lt_ge_cases n 64) as [L|G].
      - rewrite N.mod_pow2_bits_low by exact L. reflexivity.
      - rewrite N.mod_pow2_bits_high by exact G. apply (H n G). }
    rewrite E. apply N.mod_lt. discriminate.
  - intros H i Hi. unfold mem.
    rewrite <- (N.mod_small x (2 ^ 64) H). apply N.mod_pow2_bits_high. exact Hi.
Qed.

Lemma fits64_le x : fits64 x <-> x <= ALL64.
Proof. rewrite fits64_lt, ALL64_succ. lia. Qed.

Lemma mem_ge64 x i : x <= ALL64 -> 64 <= i -> mem i x = false.
Proof. intros H. apply fits64_le in H. apply H. Qed.

Lemma mem_lt64 x i : fits64 x -> mem i x = true -> i < 64.
Proof.
  intros F H. destruct (N.lt_ge_cases i 64) as [L|G]; [exact L|].
  rewrite (F i G) in H. discriminate.
Qed.

Lemma bb_ext64 x y :
  fits64 x -> fits64 y -> (forall i, i < 64 -> mem i x = mem i y) -> x = y.
Proof.
  intros Fx Fy H. apply bb_ext. intro i.
  destruct (N.lt_ge_cases i 64) as [L|G]; [apply H; exact L|].
  rewrite (Fx i G), (Fy i G). reflexivity.
Qed.

Lemma bb_ext64_le x y :
  x <= ALL64 -> y <= ALL64 -> (forall i, i < 64 -> mem i x = mem i y) -> x = y.
Proof. intros Hx Hy. apply bb_ext64; apply fits64_le; assumption. Qed.

Lemma fits64_0 : fits64 0.
Proof. intros i _. apply mem_0. Qed.

Lemma fits64_ALL64 : fits64 ALL64.
Proof. apply fits64_le. apply N.le_refl. Qed.

Lemma fits64_bit i : i < 64 -> fits64 (bit i).
Proof. intros H j Hj. apply mem_bit_neq. lia. Qed.

Lemma bit_le_ALL64 i : i < 64 -> bit i <= ALL64.
Proof. intro H. apply fits64_le, fits64_bit, H. Qed.

Lemma fits64_bit_inv i : fits64 (bit i) -> i < 64.
Proof. intro F. apply (mem_lt64 _ _ F). apply mem_bit_same. Qed.

Lemma fits64_lor x y : fits64 x -> fits64 y -> fits64 (N.lor x y).
Proof. intros Fx Fy i Hi. rewrite mem_lor, (Fx i Hi), (Fy i Hi). reflexivity. Qed.

Lemma fits64_lor_inv x y : fits64 (N.lor x y) -> fits64 x /\ fits64 y.
Proof.
  intro F. split; intros i Hi; specialize (F i Hi); rewrite mem_lor in F;
    apply orb_false_elim in F; tauto.
Qed.

Lemma fits64_lxor x y : fits64 x -> fits64 y -> fits64 (N.lxor x y).
Proof. intros Fx Fy i Hi. rewrite mem_lxor, (Fx i Hi), (Fy i Hi). reflexivity. Qed.

Lemma fits64_land_l x y : fits64 x -> fits64 (N.land x y).
Proof. intros Fx i Hi. rewrite mem_land, (Fx i Hi). reflexivity. Qed.

Lemma fits64_land_r x y : fits64 y -> fits64 (N.land x y).
Proof. intros Fy i Hi. rewrite mem_land, (Fy i Hi). apply andb_false_r. Qed.

Lemma fits64_land x y : fits64 x -> fits64 y -> fits64 (N.land x y).
Proof. intros Fx _. apply fits64_land_l, Fx. Qed.

Lemma fits64_andn x y : fits64 x -> fits64 (andn x y).
Proof. intros Fx i Hi. rewrite mem_andn, (Fx i Hi). reflexivity. Qed.

Lemma fits64_ldiff x y : fits64 x -> fits64 (N.ldiff x y).
Proof. apply fits64_andn. Qed.

Lemma lor_le_ALL64 x y : x <= ALL64 -> y <= ALL64 -> N.lor x y <= ALL64.
Proof. rewrite <- !fits64_le. apply fits64_lor. Qed.
Lemma lxor_le_ALL64 x y : x <= ALL64 -> y <= ALL64 -> N.lxor x y <= ALL64.
Proof. rewrite <- !fits64_le. apply fits64_lxor. Qed.
Lemma land_le_ALL64 x y : x <= ALL64 -> N.land x y <= ALL64.
Proof. rewrite <- !fits64_le. apply fits64_land_l. Qed.
Lemma andn_le_ALL64 x y : x <= ALL64 -> andn x y <= ALL64.
Proof. rewrite <- !fits64_le. apply fits64_andn. Qed.

Lemma land_ALL64_id x : fits64 x -> N.land x ALL64 = x.
Proof.
  intro F. apply bb_ext. intro i. rewrite mem_land, mem_ALL64.
  destruct (N.ltb_spec i 64) as [L|G]; [apply andb_true_r|].
  rewrite (F i G). reflexivity.
Qed.

(* ------------------------------------------------------------------ *)
(** * shifts *)

Lemma mem_shl j x k : mem j (shl x k) = (k <=? j) && (j <? 64) && mem (j - k) x.
Proof.
  unfold shl. rewrite mem_land, mem_ALL64. unfold mem.
  destruct (N.leb_spec k j) as [L|G].
  - rewrite N.shiftl_spec_high' by exact L. cbn [andb]. apply andb_comm.
  - rewrite N.shiftl_spec_low by exact G. reflexivity.
Qed.

Lemma mem_shr j x k : mem j (shr x k) = mem (j + k) x.
Proof. unfold shr, mem. apply N.shiftr_spec'. Qed.

Lemma fits64_shl x k : fits64 (shl x k).
Proof. unfold shl. apply fits64_land_r, fits64_ALL64. Qed.

Lemma fits64_shr x k : fits64 x -> fits64 (shr x k).
Proof. intros F i Hi. rewrite mem_shr. apply F. lia. Qed.

Lemma shl_bit i k : i + k < 64 -> shl (bit i) k = bit (i + k).
Proof.
  intro H. apply bb_ext. intro j. rewrite mem_shl, !mem_bit.
  destruct (N.leb_spec k j) as [L|G]; destruct (N.ltb_spec j 64) as [L2|G2]; cbn [andb];
    destruct (N.eqb_spec (j - k) i); destruct (N.eqb_spec j (i + k)); try reflexivity; lia.
Qed.

Lemma shl_bit_out i k : 64 <= i + k -> shl (bit i) k = 0.
Proof.
  intro H. apply bb_ext. intro j. rewrite mem_shl, mem_bit, mem_0.
  destruct (N.leb_spec k j) as [L|G]; destruct (N.ltb_spec j 64) as [L2|G2]; cbn [andb];
    destruct (N.eqb_spec (j - k) i); try reflexivity; lia.
Qed.

Lemma shr_bit i k : k <= i -> shr (bit i) k = bit (i - k).
Proof.
  intro H. apply bb_ext. intro j. rewrite mem_shr, !mem_bit.
  destruct (N.eqb_spec (j + k) i); destruct (N.eqb_spec j (i - k)); try reflexivity; lia.
Qed.

Lemma shr_bit_out i k : i < k -> shr (bit i) k = 0.
Proof.
  intro H. apply bb_ext. intro j. rewrite mem_shr, mem_bit, mem_0.
  destruct (N.eqb_spec (j + k) i); try reflexivity; lia.
Qed.

(* ------------------------------------------------------------------ *)
(** * the square list, [bits_of], [popcount] *)

Lemma squares_seq : squares = map N.of_nat (seq 0 64).
Proof. reflexivity. Qed.

Lemma length_squares : length squares = 64%nat.
Proof. reflexivity. Qed.

Lemma in_squares i : In i squares <-> i < 64.
Proof.
  rewrite squares_seq, in_map_iff. split.
  - intros [n [E H]]. apply in_seq in H. lia.
  - intro H. exists (N.to_nat i). split; [apply Nnat.N2Nat.id|]. apply in_seq. lia.
Qed.

Lemma nth_squares (n : nat) d : (n < 64)%nat -> nth n squares d = N.of_nat n.
Proof.
  intro H. rewrite squares_seq.
  rewrite (nth_indep _ d (N.of_nat 0)) by (rewrite map_length, seq_length; exact H).
  rewrite map_nth, seq_nth by exact H. reflexivity.
Qed.

Lemma nth_map_squares {A} (f : N -> A) (i : N) (d : A) :
  i < 64 -> nth (N.to_nat i) (map f squares) d = f i.
Proof.
  intro H.
  rewrite (nth_indep _ d (f 0)) by (rewrite map_length, length_squares; lia).
  rewrite map_nth, nth_squares by lia. rewrite Nnat.N2Nat.id. reflexivity.
Qed.

Lemma length_map_squares {A} (f : N -> A) : length (map f squares) = 64%nat.
Proof. rewrite map_length. reflexivity. Qed.

(* a boolean check for "strictly ascending", used for the one finite sweep below *)
Fixpoint ascb (l : list N) : bool :=
  match l with
  | a :: r => match r with b :: _ => (a <? b) && ascb r | [] => true end
  | [] => true
  end.

Lemma ascb_sorted l : ascb l = true -> Sorted N.lt l.
Proof.
  induction l as [|a r IH]; intro H; [constructor|].
  destruct r as [|b r'].
  - constructor; constructor.
  - cbn [ascb] in H. apply andb_true_iff in H. destruct H as [H1 H2].
    constructor; [apply IH; exact H2|]. constructor. apply N.ltb_lt. exact H1.
Qed.

Lemma lt_transitive : Relations_1.Transitive N.lt.
Proof. intros a b c. apply N.lt_trans. Qed.

Lemma squares_ascending : StronglySorted N.lt squares.
Proof.
  apply Sorted_StronglySorted; [exact lt_transitive|].
  apply ascb_sorted. vm_compute. reflexivity.
Qed.

Lemma StronglySorted_filter {A} (R : A -> A -> Prop) (f : A -> bool) l :
  StronglySorted R l -> StronglySorted R (filter f l).
Proof.
  induction 1 as [|a l S IH F]; cbn [filter]; [constructor|].
  destruct (f a); [|exact IH]. constructor; [exact IH|].
  apply Forall_forall. intros x Hx. apply filter_In in Hx. destruct Hx as [Hx _].
  rewrite Forall_forall in F. apply F. exact Hx.
Qed.

Lemma StronglySorted_lt_NoDup l : StronglySorted N.lt l -> NoDup l.
Proof.
  induction 1 as [|a l S IH F]; constructor; [|exact IH].
  intro Hin. rewrite Forall_forall in F. specialize (F a Hin). lia.
Qed.

Lemma NoDup_squares : NoDup squares.
Proof. apply StronglySorted_lt_NoDup, squares_ascending. Qed.

Lemma bits_of_spec i x : In i (bits_of x) <-> (i < 64 /\ mem i x = true).
Proof. unfold bits_of. rewrite filter_In, in_squares. reflexivity. Qed.

Lemma bits_of_ascending x : StronglySorted N.lt (bits_of x).
Proof. apply StronglySorted_filter, squares_ascending. Qed.

Lemma NoDup_bits_of x : NoDup (bits_of x).
Proof. apply StronglySorted_lt_NoDup, bits_of_ascending. Qed.

Lemma bits_of_lt64 i x : In i (bits_of x) -> i < 64.
Proof. intro H. apply bits_of_spec in H. tauto. Qed.

Lemma bits_of_spec_fits i x : fits64 x -> (In i (bits_of x) <-> mem i x = true).
Proof.
  intro F. rewrite bits_of_spec. split; [tauto|].
  intro H. split; [apply (mem_lt64 _ _ F H) | exact H].
Qed.

Lemma bits_of_0 : bits_of 0 = [].
Proof. reflexivity. Qed.

Lemma bits_of_nil x : bits_of x = [] <-> (forall i, i < 64 -> mem i x = false).
Proof.
  split.
  - intros E i Hi. destruct (mem i x) eqn:M; [|reflexivity].
    assert (In i (bits_of x)) as Hin by (apply bits_of_spec; tauto).
    rewrite E in Hin. destruct Hin.
  - intro H. destruct (bits_of x) as [|a r] eqn:E; [reflexivity|].
    assert (In a (bits_of x)) as Hin by (rewrite E; left; reflexivity).
    apply bits_of_spec in Hin. destruct Hin as [L M]. rewrite (H a L) in M. discriminate.
Qed.

Lemma bits_of_nil_fits x : fits64 x -> (bits_of x = [] <-> x = 0).
Proof.
  intro F. rewrite bits_of_nil. split.
  - intro H. apply zero_mem. intro i. destruct (N.lt_ge_cases i 64) as [L|G]; [apply H, L | apply F, G].
  - intros -> i _. apply mem_0.
Qed.

(* extensionality of [bits_of]: it only looks at the low 64 bits *)
Lemma bits_of_ext x y : (forall i, i < 64 -> mem i x = mem i y) -> bits_of x = bits_of y.
Proof.
  intro H. unfold bits_of. apply filter_ext_in. intros a Ha. apply H, in_squares, Ha.
Qed.

(* list equality on N, for the finite sweep *)
Fixpoint listN_eqb (a b : list N) : bool :=
  match a, b with
  | [], [] => true
  | x :: a', y :: b' => (x =? y) && listN_eqb a' b'
  | _, _ => false
  end.

Lemma listN_eqb_eq a b : listN_eqb a b = true -> a = b.
Proof.
  revert b. induction a as [|x a IH]; intros [|y b] H; cbn [listN_eqb] in H;
    try discriminate; [reflexivity|].
  apply andb_true_iff in H. destruct H as [H1 H2].
  apply N.eqb_eq in H1. subst y. f_equal. apply IH. exact H2.
Qed.

Lemma bits_of_bit i : i < 64 -> bits_of (bit i) = [i].
Proof.
  intro H.
  assert (S : forallb (fun i => listN_eqb (bits_of (bit i)) [i]) squares = true)
    by (vm_compute; reflexivity).
  rewrite forallb_forall in S. apply listN_eqb_eq. apply S. apply in_squares. exact H.
Qed.

(* CAUTION (kernel blow-up): [bits_of x] for a variable [x] is a filter over 64 literal
   squares; if the kernel is ever led to compare two weak-head-normalised copies of it, the
   comparison is exponential (a Qed that never returns).  [unfold popcount in H] followed by
   applying a lemma to [H] triggers exactly that.  Always go through these two equations
   with [rewrite] instead of [unfold ... in]. *)
Lemma popcount_unfold x : popcount x = N.of_nat (length (bits_of x)).
Proof. unfold popcount. reflexivity. Qed.

Lemma popcount_0 : popcount 0 = 0.
Proof. reflexivity. Qed.

Lemma popcount_bit i : i < 64 -> popcount (bit i) = 1.
Proof. intro H. unfold popcount. rewrite (bits_of_bit i H). reflexivity. Qed.

Lemma popcount_0_iff x : fits64 x -> (popcount x = 0 <-> x = 0).
Proof.
  intro F. unfold popcount. rewrite <- (bits_of_nil_fits x F).
  destruct (bits_of x); cbn [length]; split; intro H; try reflexivity; try discriminate; lia.
Qed.

Lemma length_filter_le {A} (f : A -> bool) l : (length (filter f l) <= length l)%nat.
Proof.
  induction l as [|a l IH]; cbn [filter length]; [lia|].
  destruct (f a); cbn [length]; lia.
Qed.

Lemma popcount_le_64 x : popcount x <= 64.
Proof.
  unfold popcount, bits_of.
  pose proof (length_filter_le (fun i => mem i x) squares) as H.
  rewrite length_squares in H. lia.
Qed.

(* head of [bits_of]: the least member *)
Lemma hd_bits_of_least x a r :
  bits_of x = a :: r -> a < 64 /\ mem a x = true /\ (forall j, j < 64 -> mem j x = true -> a <= j).
Proof.
  intro E.
  assert (Hin : In a (bits_of x)) by (rewrite E; left; reflexivity).
  apply bits_of_spec in Hin. destruct Hin as [L M]. split; [exact L|]. split; [exact M|].
  intros j Lj Mj.
  assert (Hj : In j (bits_of x)) by (apply bits_of_spec; tauto).
  pose proof (bits_of_ascending x) as S. rewrite E in S, Hj. inversion S as [|? ? _ F]; subst.
  destruct Hj as [->|Hj]; [lia|]. rewrite Forall_forall in F. specialize (F j Hj). lia.
Qed.

Lemma length_1_singleton (l : list N) : N.of_nat (length l) = 1 -> exists a, l = [a].
Proof.
  destruct l as [|a [|b r]]; cbn [length]; intro H; try lia. exists a. reflexivity.
Qed.

(* one-bit boards: the form a "Square" has in the engine *)
Lemma popcount_1_bit x : fits64 x -> popcount x = 1 -> exists i, i < 64 /\ x = bit i.
Proof.
  intros F H. rewrite popcount_unfold in H.
  destruct (length_1_singleton _ H) as [a E].
  exists a. destruct (hd_bits_of_least x a [] E) as (L & M & _). split; [exact L|].
  apply bb_ext64; [exact F | apply fits64_bit, L |].
  intros j Lj. rewrite mem_bit. destruct (N.eqb_spec j a) as [->|Hne]; [exact M|].
  destruct (mem j x) eqn:Mj; [|reflexivity].
  assert (Hj : In j (bits_of x)) by (apply bits_of_spec; tauto).
  rewrite E in Hj. destruct Hj as [Hj|[]]. congruence.
Qed.

(* setting / clearing one bit changes the population count by one *)
Lemma length_filter_flip {A} (f f' : A -> bool) l i :
  NoDup l -> In i l -> f i = false -> f' i = true -> (forall j, j <> i -> f' j = f j) ->
  length (filter f' l) = S (length (filter f l)).
Proof.
  induction l as [|a l IH]; intros ND Hin Hf Hf' Hs; [destruct Hin|].
  inversion ND as [|? ? Hnot ND']; subst. cbn [filter].
  destruct Hin as [->|Hin].
  - rewrite Hf, Hf'. cbn [length]. f_equal. f_equal. apply filter_ext_in.
    intros j Hj. apply Hs. intros ->. contradiction.
  - assert (Hne : a <> i) by (intros ->; contradiction).
    rewrite (Hs a Hne). destruct (f a); cbn [length]; rewrite (IH ND' Hin Hf Hf' Hs); reflexivity.
Qed.

Lemma popcount_set_bit x i : i < 64 -> mem i x = false ->
  popcount (N.lor x (bit i)) = popcount x + 1.
Proof.
  intros Li Hm. rewrite !popcount_unfold. unfold bits_of.
  rewrite (length_filter_flip (fun j => mem j x) (fun j => mem j (N.lor x (bit i))) squares i
             NoDup_squares (proj2 (in_squares i) Li) Hm).
  - lia.
  - rewrite mem_set_bit, N.eqb_refl. reflexivity.
  - intros j Hne. rewrite mem_set_bit. apply N.eqb_neq in Hne. rewrite Hne. reflexivity.
Qed.

Lemma popcount_flip_set_bit x i : i < 64 -> mem i x = true ->
  popcount (N.lxor x (bit i)) + 1 = popcount x.
Proof.
  intros Li Hm. rewrite !popcount_unfold. unfold bits_of.
  rewrite (length_filter_flip (fun j => mem j (N.lxor x (bit i))) (fun j => mem j x) squares i
             NoDup_squares (proj2 (in_squares i) Li)).
  - lia.
  - rewrite mem_flip_bit, N.eqb_refl, Hm. reflexivity.
  - exact Hm.
  - intros j Hne. rewrite mem_flip_bit. apply N.eqb_neq in Hne. rewrite Hne. reflexivity.
Qed.

Lemma popcount_ext x y : (forall i, i < 64 -> mem i x = mem i y) -> popcount x = popcount y.
Proof. intro H. rewrite !popcount_unfold, (bits_of_ext x y H). reflexivity. Qed.

(* sanity checks for the tactics *)
Example bitblast_test1 x i : mem i x = false -> N.land (N.lor x (bit i)) (bit i) = bit i.
Proof. intro H. bitblast. Qed.
Example bitblast_test2 x y i j : i <> j -> mem j y = true ->
  andn (N.lor (N.lor x (bit i)) (bit j)) y = andn (N.lor x (bit i)) y.
Proof. intros Hne H. bitblast. Qed.
Example xor_cancel_test a b c d : N.lxor (N.lxor (N.lxor a b) (N.lxor c d)) (N.lxor b 0) = N.lxor (N.lxor d c) a.
Proof. xor_cancel. Qed.

Print Assumptions bits_of_bit.
Print Assumptions fits64_lt.
