(* ClockKey.v — D13: why the result-cache key carries the half-move clock.  Two boards with the
   same placement, rights, en-passant target, side to move and therefore the same 64-bit position
   key, searched to the same depth with the same window, have DIFFERENT alpha_beta_minimax values
   when one of them is two plies from the move-count draw: the key (hash, alpha, beta, depth,
   side) of the code before the repair served one of them the other's value.  With the clock tag
   of SearchLink.mkkey the two keys differ. *)
From Coq Require Import NArith ZArith List Bool.
From ChessV Require Import Bits Types Board Moves MoveGen Eval Search Abs SanProofs SearchLink.
From ChessV Require Import Rays BoardLemmas.
From ChessV Require Rules.
Import ListNotations.
Open Scope N_scope.

(* 4k3/8/8/8/8/8/8/4K2R w - -, half-move clock 0 and 98 *)
Definition ck_base : board :=
  mk_board 0 [0] [(4, King, White); (60, King, Black); (7, Rook, White)].
Definition ck_fresh : board := ck_base.
Definition ck_late : board := push_halfmove ck_base 98.

Definition ab_val (b : board) : option Z :=
  match Search.ab example_table rook_ref bishop_ref 2 b I16_MIN I16_MAX true with
  | Ok (v, _) => Some v
  | _ => None
  end.

Theorem key_without_clock_refuted :
  hash ck_fresh = hash ck_late
  /\ (Rules.cells (abstract ck_fresh) = Rules.cells (abstract ck_late)
      /\ Rules.prights (abstract ck_fresh) = Rules.prights (abstract ck_late)
      /\ Rules.pep (abstract ck_fresh) = Rules.pep (abstract ck_late))
  /\ turn ck_fresh = turn ck_late
  /\ (exists v w, ab_val ck_fresh = Some v /\ ab_val ck_late = Some w /\ v <> w /\ w = 0%Z)
  /\ mkkey ck_fresh I16_MIN I16_MAX 2 true <> mkkey ck_late I16_MIN I16_MAX 2 true.
Proof.
  split; [vm_compute; reflexivity|].
  split; [vm_compute; repeat split; reflexivity|].
  split; [vm_compute; reflexivity|].
  split.
  - assert (E1 : exists v, ab_val ck_fresh = Some v /\ (0 < v)%Z).
    { vm_compute. eexists. split; [reflexivity|reflexivity]. }
    assert (E2 : ab_val ck_late = Some 0%Z) by (vm_compute; reflexivity).
    destruct E1 as (v & Ev & Hv). exists v, 0%Z.
    split; [exact Ev|]. split; [exact E2|]. split; [|reflexivity].
    intro H. rewrite H in Hv. discriminate Hv.
  - vm_compute. intro H. discriminate H.
Qed.

Print Assumptions key_without_clock_refuted.
