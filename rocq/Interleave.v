(* Interleave.v -- generic theory (Coq stdlib + AlphaBeta.v only, no chess file imported).

   The engine's search probes a shared result cache at the entry of every node (`check_cache`)
   and stores at every return (`set_cache`); root moves are searched by parallel workers that
   share the cache (src/alpha_beta_searcher/mod.rs).  Here the memoised search is a *resumption*
   (`prog`): a tree of atomic cache operations `Read`/`Write` (each engine cache access takes the
   RwLock for exactly one `get`/`insert`), so that any interleaving of several searches over one
   cache is a schedule `list nat` of task indices.

   Hypothesis `key_det`: the cache key determines the search result (NO injectivity assumed).

   Main results:
     abp_good    : the memoised search is `good` for the pure alpha-beta value (both branches)
     run_good    : sequential run from ANY sound cache returns that value and leaves a sound cache
     run_abp / run_abp_minimax : ... in particular fst (run c (abp d mx p a b Ret)) = ab d mx p a b
                   (C08: a re-used context gives the same value; with the full window = minimax)
     pool_schedule_independent : for EVERY schedule, cache stays sound, every finished task holds
                   the pure value of its own root, every task stays `good` (C09)
     pool_results_agree  : two arbitrary schedules never disagree on a finished task
     pool_completion     : from any reachable pool state, running the remaining tasks one after
                   the other finishes with the right values
     pool_schedule_extends : every schedule can be extended to a complete one (all tasks `Ret`
                   with the pure values) -- no deadlock / starvation at this granularity
     key_without_depth_refuted : with a key that ignores depth and side (the engine's original
                   `(hash, alpha, beta)`), `key_det` fails and the memoised run returns a wrong value *)

From Coq Require Import ZArith List Lia Bool.
From ChessV Require Import AlphaBeta.
Import ListNotations.
Open Scope Z_scope.

(* ---------------------------------------------------------------- *)
(* small list helpers                                                *)

Fixpoint set_nth {A:Type} (i:nat) (x:A) (l:list A) : list A :=
  match l with
  | [] => []
  | h::t => match i with O => x::t | S i' => h :: set_nth i' x t end
  end.

Lemma Forall2_set_nth {A B:Type} (R : A -> B -> Prop) : forall vs ts, Forall2 R vs ts ->
  forall i t t', nth_error ts i = Some t -> (forall v, R v t -> R v t') ->
  Forall2 R vs (set_nth i t' ts).
Proof.
  intros vs ts H. induction H as [|v t0 vs ts Hvt H IH]; intros i t t' Hn Hr.
  - destruct i; discriminate Hn.
  - destruct i as [|i]; cbn [set_nth nth_error] in *.
    + inversion Hn; subst t0. constructor; [apply Hr; exact Hvt|exact H].
    + constructor; [exact Hvt|]. apply IH with (t:=t); assumption.
Qed.

Lemma Forall2_nth_r {A B:Type} (R : A -> B -> Prop) : forall vs ts, Forall2 R vs ts ->
  forall i t, nth_error ts i = Some t -> exists v, R v t.
Proof.
  intros vs ts H. induction H as [|v t0 vs ts Hvt H IH]; intros i t Hn.
  - destruct i; discriminate Hn.
  - destruct i as [|i]; cbn [nth_error] in Hn.
    + inversion Hn; subst t0. exists v. exact Hvt.
    + apply (IH i t Hn).
Qed.

Lemma Forall2_map_l {A B C:Type} (R : B -> C -> Prop) (f : A -> B) : forall cs ts,
  Forall2 R (map f cs) ts <-> Forall2 (fun c t => R (f c) t) cs ts.
Proof.
  induction cs as [|c cs IH]; intros ts; cbn [map]; split; intro H; inversion H; subst; constructor;
    try assumption; apply IH; assumption.
Qed.

Lemma Forall2_map_same {A B:Type} (R : A -> B -> Prop) (f : A -> B) : forall cs,
  (forall c, R c (f c)) -> Forall2 R cs (map f cs).
Proof. induction cs as [|c cs IH]; intro H; cbn [map]; constructor; auto. Qed.

Lemma nth_error_mid {A:Type} (l1 : list A) x l2 : nth_error (l1 ++ x :: l2) (length l1) = Some x.
Proof. induction l1 as [|h l1 IH]; cbn; [reflexivity|exact IH]. Qed.

Lemma set_nth_mid {A:Type} (l1 : list A) x y l2 : set_nth (length l1) y (l1 ++ x :: l2) = l1 ++ y :: l2.
Proof. induction l1 as [|h l1 IH]; cbn; [reflexivity|rewrite IH; reflexivity]. Qed.

Section IL.
Variable pos key : Type.
Variable moves : pos -> list pos.
Variable leaf : pos -> nat -> Z.
Variables LO HI : Z.
Variable mkkey : pos -> Z -> Z -> nat -> bool -> key.
Variable key_eqb : key -> key -> bool.
(* only the soundness half of the comparison is needed (a comparison that misses
   some equal keys merely loses cache hits) *)
Hypothesis key_eqb_true : forall a b, key_eqb a b = true -> a = b.

Local Notation ab := (AlphaBeta.ab pos moves leaf LO HI).
Local Notation mm := (AlphaBeta.mm pos moves leaf LO HI).
Local Notation loop_max := (AlphaBeta.loop_max pos).
Local Notation loop_min := (AlphaBeta.loop_min pos).

(* the key determines the value -- the key function need NOT be injective *)
Hypothesis key_det : forall p a b d mx p' a' b' d' mx',
  mkkey p a b d mx = mkkey p' a' b' d' mx' -> ab d mx p a b = ab d' mx' p' a' b'.

(* ---------------------------------------------------------------- *)
(* resumptions                                                       *)

Inductive prog : Type :=
| Ret (v:Z)
| Read (k:key) (f: option Z -> prog)
| Write (k:key) (v:Z) (p:prog).

(* the two loops in continuation-passing style; f is the (memoised) child searcher,
   fin what happens with the node's final value (store, then return to the caller) *)
Fixpoint lp_max (f : pos -> Z -> Z -> (Z -> prog) -> prog) (fin : Z -> prog)
                (cs:list pos) (value a b:Z) {struct cs} : prog :=
  match cs with
  | [] => fin value
  | c::cs' => f c a b (fun r =>
                let value' := Z.max value r in
                let a' := Z.max a value' in
                if b <=? a' then fin value' else lp_max f fin cs' value' a' b)
  end.

Fixpoint lp_min (f : pos -> Z -> Z -> (Z -> prog) -> prog) (fin : Z -> prog)
                (cs:list pos) (value a b:Z) {struct cs} : prog :=
  match cs with
  | [] => fin value
  | c::cs' => f c a b (fun r =>
                let value' := Z.min value r in
                let b' := Z.min b value' in
                if b' <=? a then fin value' else lp_min f fin cs' value' a b')
  end.

(* alpha_beta_minimax as a resumption: probe at entry, store at every return *)
Fixpoint abp (d:nat) (mx:bool) (p:pos) (a b:Z) (k: Z -> prog) {struct d} : prog :=
  Read (mkkey p a b d mx) (fun r =>
   match r with
   | Some v => k v
   | None =>
     match d with
     | O => Write (mkkey p a b d mx) (leaf p 0) (k (leaf p 0))
     | S d' =>
       match moves p with
       | [] => Write (mkkey p a b d mx) (leaf p (S d')) (k (leaf p (S d')))
       | cs =>
         if mx then lp_max (abp d' false) (fun s => Write (mkkey p a b d mx) s (k s)) cs LO a b
               else lp_min (abp d' true) (fun s => Write (mkkey p a b d mx) s (k s)) cs HI a b
       end
     end
   end).

(* ---------------------------------------------------------------- *)
(* caches                                                            *)

Definition cache := list (key * Z).

Fixpoint lookup (c:cache) (k:key) : option Z :=
  match c with
  | [] => None
  | (k',v)::c' => if key_eqb k k' then Some v else lookup c' k
  end.

Definition write (c:cache) (k:key) (v:Z) : cache := (k,v)::c.

(* w is a correct entry for key k: it is the pure value of EVERY node that maps to k *)
Definition valid (k:key) (w:Z) : Prop :=
  forall p a b d mx, mkkey p a b d mx = k -> w = ab d mx p a b.

Definition sound (c:cache) : Prop := forall k v, lookup c k = Some v -> valid k v.

Lemma sound_nil : sound [].
Proof. intros k v H. discriminate H. Qed.

Lemma sound_write c k v : sound c -> valid k v -> sound (write c k v).
Proof.
  intros Hc Hv k' v' H. unfold write in H. cbn [lookup] in H.
  destruct (key_eqb k' k) eqn:E.
  - apply key_eqb_true in E. subst k'. inversion H; subst v'. exact Hv.
  - apply Hc. exact H.
Qed.

Lemma valid_self p a b d mx : valid (mkkey p a b d mx) (ab d mx p a b).
Proof. intros p' a' b' d' mx' E. apply key_det. symmetry. exact E. Qed.

(* ---------------------------------------------------------------- *)
(* good v p : under every legal answer to its reads (a miss, or a hit with a valid entry)
   p writes only valid entries and finally returns v.                                     *)

Fixpoint good (v:Z) (p:prog) : Prop :=
  match p with
  | Ret w => w = v
  | Read k f => good v (f None) /\ (forall w, valid k w -> good v (f (Some w)))
  | Write k w p' => valid k w /\ good v p'
  end.

Lemma lp_max_good (f : pos -> Z -> Z -> (Z -> prog) -> prog) (g : pos -> Z -> Z -> Z) :
  (forall c a b k v, (forall r, r = g c a b -> good v (k r)) -> good v (f c a b k)) ->
  forall fin v cs value a b,
    (forall r, r = loop_max g cs value a b -> good v (fin r)) ->
    good v (lp_max f fin cs value a b).
Proof.
  intros Hf fin v. induction cs as [|c cs IH]; intros value a b H; cbn [lp_max].
  - apply H. reflexivity.
  - apply Hf. intros r ->. cbn zeta. cbn [AlphaBeta.loop_max] in H. cbn zeta in H.
    destruct (b <=? Z.max a (Z.max value (g c a b))) eqn:Ecut.
    + apply H. reflexivity.
    + apply IH. exact H.
Qed.

Lemma lp_min_good (f : pos -> Z -> Z -> (Z -> prog) -> prog) (g : pos -> Z -> Z -> Z) :
  (forall c a b k v, (forall r, r = g c a b -> good v (k r)) -> good v (f c a b k)) ->
  forall fin v cs value a b,
    (forall r, r = loop_min g cs value a b -> good v (fin r)) ->
    good v (lp_min f fin cs value a b).
Proof.
  intros Hf fin v. induction cs as [|c cs IH]; intros value a b H; cbn [lp_min].
  - apply H. reflexivity.
  - apply Hf. intros r ->. cbn zeta. cbn [AlphaBeta.loop_min] in H. cbn zeta in H.
    destruct (Z.min b (Z.min value (g c a b)) <=? a) eqn:Ecut.
    + apply H. reflexivity.
    + apply IH. exact H.
Qed.

Theorem abp_good : forall d mx p a b k v,
  (forall r, r = ab d mx p a b -> good v (k r)) -> good v (abp d mx p a b k).
Proof.
  induction d as [|d IH]; intros mx p a b k v Hk.
  - cbn [abp good]. split.
    + split; [exact (valid_self p a b 0%nat mx)|apply Hk; reflexivity].
    + intros w Hw. apply Hk. apply Hw. reflexivity.
  - cbn [abp good]. split.
    2:{ intros w Hw. apply Hk. apply Hw. reflexivity. }
    assert (Hfin: forall r, r = ab (S d) mx p a b ->
                  good v (Write (mkkey p a b (S d) mx) r (k r))).
    { intros r ->. cbn [good]. split; [apply valid_self|apply Hk; reflexivity]. }
    revert Hfin. cbn [AlphaBeta.ab]. destruct (moves p) as [|c0 cs0] eqn:E; intro Hfin.
    + apply Hfin. reflexivity.
    + destruct mx.
      * apply lp_max_good with (g := ab d false).
        -- intros c a' b' k' v' H'. apply IH. exact H'.
        -- exact Hfin.
      * apply lp_min_good with (g := ab d true).
        -- intros c a' b' k' v' H'. apply IH. exact H'.
        -- exact Hfin.
Qed.

Corollary abp_good_ret d mx p a b : good (ab d mx p a b) (abp d mx p a b Ret).
Proof. apply abp_good. intros r ->. reflexivity. Qed.

(* ---------------------------------------------------------------- *)
(* sequential execution                                              *)

Fixpoint run (c:cache) (p:prog) {struct p} : Z * cache :=
  match p with
  | Ret v => (v, c)
  | Read k f => run c (f (lookup c k))
  | Write k v p' => run (write c k v) p'
  end.

Theorem run_good : forall p c v, sound c -> good v p ->
  fst (run c p) = v /\ sound (snd (run c p)).
Proof.
  induction p as [w|k f IH|k w p' IH]; intros c v Hc Hg; cbn [run good] in *.
  - split; [exact Hg|exact Hc].
  - destruct Hg as [Hn Hs]. destruct (lookup c k) as [w|] eqn:E.
    + apply IH; [exact Hc|]. apply Hs. apply (Hc k w E).
    + apply IH; assumption.
  - destruct Hg as [Hv Hg]. apply IH; [|exact Hg]. apply sound_write; assumption.
Qed.

(* C08, history quantifier: whatever (sound) cache earlier searches left behind,
   the memoised search returns the pure alpha-beta value *)
Corollary run_abp : forall c d mx p a b, sound c ->
  fst (run c (abp d mx p a b Ret)) = ab d mx p a b /\ sound (snd (run c (abp d mx p a b Ret))).
Proof. intros. apply run_good; [assumption|apply abp_good_ret]. Qed.

Corollary run_abp_fresh : forall d mx p a b,
  fst (run [] (abp d mx p a b Ret)) = ab d mx p a b.
Proof. intros. apply run_abp. apply sound_nil. Qed.

Corollary run_abp_reused : forall c d mx p a b, sound c ->
  fst (run c (abp d mx p a b Ret)) = fst (run [] (abp d mx p a b Ret)).
Proof. intros c d mx p a b Hc. rewrite run_abp_fresh. apply run_abp. exact Hc. Qed.

(* ---------------------------------------------------------------- *)
(* pools: one shared cache, several tasks, arbitrary interleaving    *)

Definition pool := (cache * list prog)%type.

(* exactly one Read or Write of task i; no-op if task i has returned or i is out of range *)
Definition step_task (i:nat) (pl:pool) : pool :=
  match nth_error (snd pl) i with
  | Some (Read k f) => (fst pl, set_nth i (f (lookup (fst pl) k)) (snd pl))
  | Some (Write k v p') => (write (fst pl) k v, set_nth i p' (snd pl))
  | _ => pl
  end.

Definition run_sched (sch:list nat) (pl:pool) : pool :=
  fold_left (fun pl i => step_task i pl) sch pl.

Definition pool_inv (vs:list Z) (pl:pool) : Prop :=
  sound (fst pl) /\ Forall2 good vs (snd pl).

Lemma step_task_inv vs i pl : pool_inv vs pl -> pool_inv vs (step_task i pl).
Proof.
  intros [Hc Hg]. unfold step_task.
  destruct (nth_error (snd pl) i) as [t|] eqn:En; [|split; assumption].
  destruct t as [w|k f|k w p']; [split; assumption| |]; split; cbn [fst snd].
  - exact Hc.
  - apply Forall2_set_nth with (t := Read k f); [exact Hg|exact En|].
    intros v Hv. cbn [good] in Hv. destruct Hv as [Hn Hs].
    destruct (lookup (fst pl) k) as [w|] eqn:E; [apply Hs; apply (Hc k w E)|exact Hn].
  - destruct (Forall2_nth_r good vs (snd pl) Hg i (Write k w p') En) as [v0 Hv0].
    cbn [good] in Hv0. apply sound_write; [exact Hc|apply Hv0].
  - apply Forall2_set_nth with (t := Write k w p'); [exact Hg|exact En|].
    intros v Hv. cbn [good] in Hv. apply Hv.
Qed.

Lemma run_sched_inv vs : forall sch pl, pool_inv vs pl -> pool_inv vs (run_sched sch pl).
Proof.
  induction sch as [|i sch IH]; intros pl H; cbn [run_sched fold_left]; [exact H|].
  apply IH. apply step_task_inv. exact H.
Qed.

Lemma run_sched_app sch1 sch2 pl : run_sched (sch1 ++ sch2) pl = run_sched sch2 (run_sched sch1 pl).
Proof. unfold run_sched. apply fold_left_app. Qed.

(* the initial pool of the root: one task per root child, all with the same window *)
Definition root_pool (c0:cache) (d:nat) (mx:bool) (a b:Z) (cs:list pos) : pool :=
  (c0, map (fun c => abp d mx c a b Ret) cs).

Lemma root_pool_inv c0 d mx a b cs : sound c0 ->
  pool_inv (map (fun c => ab d mx c a b) cs) (root_pool c0 d mx a b cs).
Proof.
  intro Hc. split; [exact Hc|]. cbn [root_pool snd].
  apply (proj2 (Forall2_map_l good (fun c => ab d mx c a b) cs _)).
  apply Forall2_map_same. intro c. apply abp_good_ret.
Qed.

(* C09: every interleaving *)
Theorem pool_schedule_independent : forall c0 d mx a b cs (sch : list nat),
  sound c0 ->
  let pl := run_sched sch (root_pool c0 d mx a b cs) in
  sound (fst pl) /\
  Forall2 (fun c t => good (ab d mx c a b) t /\ (forall w, t = Ret w -> w = ab d mx c a b))
          cs (snd pl).
Proof.
  intros c0 d mx a b cs sch Hc pl.
  destruct (run_sched_inv _ sch _ (root_pool_inv c0 d mx a b cs Hc)) as [Hs Hg].
  fold pl in Hs, Hg. split; [exact Hs|].
  apply (proj1 (Forall2_map_l good (fun c => ab d mx c a b) cs (snd pl))) in Hg. revert Hg. generalize (snd pl). generalize cs. clear.
  intros cs1 ts1 H. induction H as [|c t cs2 ts2 Hct H IH]; constructor; [|exact IH].
  split; [exact Hct|]. intros w ->. exact Hct.
Qed.

(* pointwise form: task i of the pool is the search of the i-th root child *)
Corollary pool_task_result : forall c0 d mx a b cs sch i c w,
  sound c0 -> nth_error cs i = Some c ->
  nth_error (snd (run_sched sch (root_pool c0 d mx a b cs))) i = Some (Ret w) ->
  w = ab d mx c a b.
Proof.
  intros c0 d mx a b cs sch i c w Hc Hi Ht.
  destruct (pool_schedule_independent c0 d mx a b cs sch Hc) as [_ H].
  revert i Hi Ht. induction H as [|c' t cs' ts [_ Hr] H IH]; intros i Hi Ht.
  - destruct i; discriminate Hi.
  - destruct i as [|i]; cbn [nth_error] in *.
    + inversion Hi; subst c'. inversion Ht; subst t. apply Hr. reflexivity.
    + apply (IH i Hi Ht).
Qed.

(* two arbitrary schedules (even from two different sound initial caches) never disagree *)
Corollary pool_results_agree : forall c1 c2 d mx a b cs sch1 sch2 i w1 w2,
  sound c1 -> sound c2 -> (i < length cs)%nat ->
  nth_error (snd (run_sched sch1 (root_pool c1 d mx a b cs))) i = Some (Ret w1) ->
  nth_error (snd (run_sched sch2 (root_pool c2 d mx a b cs))) i = Some (Ret w2) ->
  w1 = w2.
Proof.
  intros c1 c2 d mx a b cs sch1 sch2 i w1 w2 H1 H2 Hi T1 T2.
  destruct (nth_error cs i) as [c|] eqn:E.
  - rewrite (pool_task_result c1 d mx a b cs sch1 i c w1 H1 E T1).
    rewrite (pool_task_result c2 d mx a b cs sch2 i c w2 H2 E T2). reflexivity.
  - apply nth_error_None in E. lia.
Qed.

(* ---------------------------------------------------------------- *)
(* completion: run the remaining tasks one after the other           *)

Fixpoint finish (c:cache) (ts:list prog) : list Z * cache :=
  match ts with
  | [] => ([], c)
  | t::ts' => let r := run c t in
              let r' := finish (snd r) ts' in
              (fst r :: fst r', snd r')
  end.

Lemma finish_good : forall vs ts, Forall2 good vs ts -> forall c, sound c ->
  fst (finish c ts) = vs /\ sound (snd (finish c ts)).
Proof.
  intros vs ts H. induction H as [|v t vs ts Hvt H IH]; intros c Hc; cbn [finish fst snd].
  - split; [reflexivity|exact Hc].
  - destruct (run_good t c v Hc Hvt) as [R1 R2].
    destruct (IH _ R2) as [F1 F2]. rewrite R1, F1. split; [reflexivity|exact F2].
Qed.

Theorem pool_completion : forall c0 d mx a b cs sch, sound c0 ->
  let pl := run_sched sch (root_pool c0 d mx a b cs) in
  fst (finish (fst pl) (snd pl)) = map (fun c => ab d mx c a b) cs /\
  sound (snd (finish (fst pl) (snd pl))).
Proof.
  intros c0 d mx a b cs sch Hc pl.
  destruct (run_sched_inv _ sch _ (root_pool_inv c0 d mx a b cs Hc)) as [Hs Hg].
  apply finish_good; assumption.
Qed.

(* ... and that sequential completion IS a schedule: number of steps of a sequential run *)
Fixpoint steps (c:cache) (p:prog) {struct p} : nat :=
  match p with
  | Ret _ => O
  | Read k f => S (steps c (f (lookup c k)))
  | Write k v p' => S (steps (write c k v) p')
  end.

Lemma solo_run : forall t c ts1 ts2,
  run_sched (repeat (length ts1) (steps c t)) (c, ts1 ++ t :: ts2) =
  (snd (run c t), ts1 ++ Ret (fst (run c t)) :: ts2).
Proof.
  induction t as [w|k f IH|k w p' IH]; intros c ts1 ts2; cbn [steps run repeat].
  - reflexivity.
  - cbn [run_sched fold_left]. unfold step_task at 2. cbn [fst snd].
    rewrite nth_error_mid, set_nth_mid. apply IH.
  - cbn [run_sched fold_left]. unfold step_task at 2. cbn [fst snd].
    rewrite nth_error_mid, set_nth_mid. apply IH.
Qed.

Fixpoint complete_sched (n:nat) (c:cache) (ts:list prog) : list nat :=
  match ts with
  | [] => []
  | t::ts' => repeat n (steps c t) ++ complete_sched (S n) (snd (run c t)) ts'
  end.

Lemma complete_sched_run : forall ts c ts1,
  run_sched (complete_sched (length ts1) c ts) (c, ts1 ++ ts) =
  (snd (finish c ts), ts1 ++ map Ret (fst (finish c ts))).
Proof.
  induction ts as [|t ts IH]; intros c ts1; cbn [complete_sched finish fst snd map].
  - reflexivity.
  - rewrite run_sched_app, solo_run.
    replace (ts1 ++ Ret (fst (run c t)) :: ts) with ((ts1 ++ [Ret (fst (run c t))]) ++ ts)
      by (rewrite <- app_assoc; reflexivity).
    replace (S (length ts1)) with (length (ts1 ++ [Ret (fst (run c t))]))
      by (rewrite app_length; cbn [length]; lia).
    rewrite IH. rewrite <- app_assoc. reflexivity.
Qed.

(* every schedule can be extended to a complete one, and the completed pool holds exactly the
   pure values: no interleaving can block or starve a task at this granularity *)
Theorem pool_schedule_extends : forall c0 d mx a b cs sch, sound c0 ->
  exists sch',
    let pl := run_sched (sch ++ sch') (root_pool c0 d mx a b cs) in
    snd pl = map (fun c => Ret (ab d mx c a b)) cs /\ sound (fst pl).
Proof.
  intros c0 d mx a b cs sch Hc.
  set (pl0 := run_sched sch (root_pool c0 d mx a b cs)).
  exists (complete_sched 0 (fst pl0) (snd pl0)). cbn zeta.
  rewrite run_sched_app. fold pl0.
  pose proof (complete_sched_run (snd pl0) (fst pl0) []) as H. cbn [length app] in H.
  replace (fst pl0, snd pl0) with pl0 in H by (destruct pl0; reflexivity).
  rewrite H. cbn [fst snd].
  destruct (pool_completion c0 d mx a b cs sch Hc) as [F1 F2]. fold pl0 in F1, F2.
  rewrite F1. split; [apply map_map|exact F2].
Qed.

(* ---------------------------------------------------------------- *)
(* with a full window and scores inside (LO,HI): memoised search = minimax *)

Hypothesis leaf_range : forall p d, LO < leaf p d < HI.

Corollary run_abp_minimax : forall c d mx p, sound c ->
  fst (run c (abp d mx p LO HI Ret)) = mm d mx p.
Proof.
  intros c d mx p Hc. destruct (run_abp c d mx p LO HI Hc) as [-> _].
  apply ab_full_window. exact leaf_range.
Qed.

(* the root of the engine: whatever the interleaving, the completed pool holds the minimax
   values of the root children, whose max/min is the minimax value of the root (root_best) *)
Corollary pool_root_minimax : forall c0 d mx p cs sch, sound c0 ->
  moves p = cs -> cs <> [] ->
  exists sch',
    let pl := run_sched (sch ++ sch') (root_pool c0 d (negb mx) LO HI cs) in
    snd pl = map (fun c => Ret (mm d (negb mx) c)) cs /\
    (if mx then fold_left Z.max (map (fun c => mm d (negb mx) c) cs) LO
           else fold_left Z.min (map (fun c => mm d (negb mx) c) cs) HI) = mm (S d) mx p.
Proof.
  intros c0 d mx p cs sch Hc E Hne.
  destruct (pool_schedule_extends c0 d (negb mx) LO HI cs sch Hc) as [sch' [H1 H2]].
  exists sch'. cbn zeta. split.
  - rewrite H1. apply map_ext. intro c. f_equal. apply ab_full_window. exact leaf_range.
  - rewrite <- (root_best pos moves leaf LO HI leaf_range d mx p cs E Hne).
    destruct mx; f_equal; apply map_ext; intro c; symmetry; apply ab_full_window; exact leaf_range.
Qed.

End IL.

Arguments Ret {key} v.
Arguments Read {key} k f.
Arguments Write {key} k v p.

(* ---------------------------------------------------------------- *)
(* Examples                                                          *)

Module ILExample.
  (* positions are numbers; 0 -> [1;2], 1 -> [2], 2 -> [3]: position 2 is reached at two
     different remaining depths (a transposition) *)
  Definition moves (p:nat) : list nat :=
    match p with 0 => [1;2] | 1 => [2] | 2 => [3] | _ => [] end%nat.
  Definition leaf (p:nat) (d:nat) : Z :=
    match p with 2%nat => 5 | 3%nat => 9 | _ => 0 end.
  Definition LO := -32768.
  Definition HI := 32767.

  (* --- a key that contains everything the value depends on: hypotheses satisfiable --- *)
  Definition fullkey := (nat * Z * Z * nat * bool)%type.
  Definition mkfull (p:nat) (a b:Z) (d:nat) (mx:bool) : fullkey := (p,a,b,d,mx).
  Definition fullkey_eqb (x y:fullkey) : bool :=
    match x, y with
    | (p,a,b,d,mx), (p',a',b',d',mx') =>
        Nat.eqb p p' && Z.eqb a a' && Z.eqb b b' && Nat.eqb d d' && Bool.eqb mx mx'
    end.

  Example fullkey_eqb_true : forall x y, fullkey_eqb x y = true -> x = y.
  Proof.
    intros [[[[p a] b] d] mx] [[[[p' a'] b'] d'] mx'] H. unfold fullkey_eqb in H.
    repeat (apply andb_true_iff in H; destruct H as [H ?]).
    apply Nat.eqb_eq in H. apply Z.eqb_eq in H3. apply Z.eqb_eq in H2.
    apply Nat.eqb_eq in H1. apply eqb_prop in H0. subst. reflexivity.
  Qed.

  Example full_key_det : forall p a b d mx p' a' b' d' mx',
    mkfull p a b d mx = mkfull p' a' b' d' mx' ->
    ab nat moves leaf LO HI d mx p a b = ab nat moves leaf LO HI d' mx' p' a' b'.
  Proof. intros p a b d mx p' a' b' d' mx' E. inversion E; subst. reflexivity. Qed.

  Definition tasks_full : list (prog fullkey) :=
    map (fun c => abp nat fullkey moves leaf LO HI mkfull 1 false c LO HI Ret) [1;2]%nat.

  (* an interleaved schedule of the two root tasks, run to completion *)
  Example pool_run_full :
    snd (run_sched fullkey fullkey_eqb [0;1;1;0;0;1;1;0;0;1;1;1]%nat ([], tasks_full))
    = [Ret 5; Ret 9].
  Proof. vm_compute. reflexivity. Qed.

  Example pure_values : map (fun c => ab nat moves leaf LO HI 1 false c LO HI) [1;2]%nat = [5; 9].
  Proof. vm_compute. reflexivity. Qed.

  (* the general theorem instantiated: every schedule, every sound start cache *)
  Example pool_full_instance :=
    pool_schedule_independent nat fullkey moves leaf LO HI mkfull fullkey_eqb
      fullkey_eqb_true full_key_det.

  (* --- the engine's original key (hash, alpha, beta): depth and side are ignored --- *)
  Definition badkey := (nat * Z * Z)%type.
  Definition mkbad (p:nat) (a b:Z) (d:nat) (mx:bool) : badkey := (p,a,b).
  Definition badkey_eqb (x y:badkey) : bool :=
    match x, y with (p,a,b), (p',a',b') => Nat.eqb p p' && Z.eqb a a' && Z.eqb b b' end.

  Definition tasks_bad : list (prog badkey) :=
    map (fun c => abp nat badkey moves leaf LO HI mkbad 1 false c LO HI Ret) [1;2]%nat.

  (* the task for root child 1 stores position 2 searched at depth 0 under the key (2,LO,HI); the
     task for root child 2 (position 2 at depth 1) then hits that entry and returns 5, not 9 *)
  Example key_without_depth_refuted :
    fst (finish badkey badkey_eqb [] tasks_bad) = [5; 5] /\
    map (fun c => ab nat moves leaf LO HI 1 false c LO HI) [1;2]%nat = [5; 9] /\
    (* the same within a single re-used context: search position 2 at depth 0, then at depth 1 *)
    (let c1 := snd (run badkey badkey_eqb [] (abp nat badkey moves leaf LO HI mkbad 0 true 2%nat LO HI Ret)) in
     fst (run badkey badkey_eqb c1 (abp nat badkey moves leaf LO HI mkbad 1 false 2%nat LO HI Ret)) = 5 /\
     ab nat moves leaf LO HI 1 false 2%nat LO HI = 9) /\
    (* and the results now depend on the schedule (and are wrong either way; right is [5; 9]) *)
    snd (run_sched badkey badkey_eqb [1;1;1;1;1;0;0;0;0;0;0;0]%nat ([], tasks_bad)) = [Ret 9; Ret 9] /\
    snd (run_sched badkey badkey_eqb [0;0;0;0;0;0;0;1;1;1;1;1]%nat ([], tasks_bad)) = [Ret 5; Ret 5].
  Proof. vm_compute. repeat split; reflexivity. Qed.

  (* so the hypothesis key_det is not satisfied by that key *)
  Example bad_key_not_det :
    ~ (forall p a b d mx p' a' b' d' mx',
        mkbad p a b d mx = mkbad p' a' b' d' mx' ->
        ab nat moves leaf LO HI d mx p a b = ab nat moves leaf LO HI d' mx' p' a' b').
  Proof.
    intro H. specialize (H 2%nat LO HI 0%nat true 2%nat LO HI 1%nat false eq_refl).
    vm_compute in H. discriminate H.
  Qed.
End ILExample.

Print Assumptions abp_good.
Print Assumptions run_good.
Print Assumptions run_abp.
Print Assumptions pool_schedule_independent.
Print Assumptions pool_results_agree.
Print Assumptions pool_completion.
Print Assumptions pool_schedule_extends.
Print Assumptions pool_root_minimax.
Print Assumptions ILExample.key_without_depth_refuted.
