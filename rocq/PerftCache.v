(* PerftCache.v — C10 + C02 together: the position counter run with the CACHED generator
   (as the Rust code does: `move_generator.generate_moves`, one generator with its LRU cache
   for a whole subtree, a new generator per root move in the parallel routine, the caller's
   long-lived generator at the root) returns the same figure as with the uncached generator,
   for ANY initial state of the cache that is sound (e.g. new, or reached by any earlier run of
   requests, Cache.grun_sound) and for any eviction policy.

   Hypotheses: those of Perft.v (invariant [Good], board restoration) and those of Cache.v
   (no key collision on the requested boards, generator congruence), plus [Good_S]: the boards
   the counter visits are among the requested ones. *)
From Coq Require Import Lia List Permutation.
From ChessV Require Import MoveGen Abs BoardLemmas UndoProofs Memo TurnFrame Cache Perft.
Import ListNotations.

#[local] Arguments N.add : simpl never.
#[local] Arguments N.of_nat : simpl never.

Lemma map_ok_transfer {A} (f g : A -> res N) l ws :
  (forall a w, In a l -> f a = Ok w -> g a = Ok w) -> map f l = map Ok ws -> map g l = map Ok ws.
Proof.
  revert ws. induction l as [|a l IH]; intros ws H E; destruct ws as [|w ws]; cbn [map] in *;
    try discriminate E; [reflexivity|].
  injection E as Ea El. f_equal.
  - apply H; [left; reflexivity|exact Ea].
  - apply IH; [intros a' w' Hin; apply H; right; exact Hin|exact El].
Qed.

Section PerftCache.
Variable T : ztable.
Variables rook_t bishop_t : N -> N -> N.

Notation gen := (gen_moves T rook_t bishop_t).
Notation gmc := (generate_moves_cached T rook_t bishop_t).

(* the eviction policy: anything that only forgets *)
Variable ev : gen_state -> gen_state.
Hypothesis ev_evicts : forall s, evict_state s (ev s).

(* count_positions_inner with the generator state threaded *)
Fixpoint count_loop_c (rec : gen_state -> board -> res (N * board * gen_state))
         (ms : list cmove) (b : board) (acc : N) (s : gen_state) : res (N * board * gen_state) :=
  match ms with
  | [] => Ok (acc, b, s)
  | m :: rest =>
      let* b1 := unwrap (apply_move T m b) in
      let* (n, b2, s1) := rec s b1 in
      let* b3 := unwrap (undo_move T m b2) in
      count_loop_c rec rest b3 (acc + n) s1
  end.

Fixpoint count_inner_c (d : nat) (s : gen_state) (b : board) (c : color)
  : res (N * board * gen_state) :=
  let* (ms, b0, s0) := gmc s b c in
  let s1 := ev s0 in
  let count := N.of_nat (length ms) in
  match d with
  | O => Ok (count, b0, s1)
  | S d' => count_loop_c (fun s' b1 => count_inner_c d' s' b1 (opp_c c)) ms b0 count s1
  end.

(* the closure of the parallel routine: a clone of the board and a NEW generator *)
Definition root_result_c (d' : nat) (c : color) (b : board) (m : cmove) : res N :=
  let* b1 := unwrap (apply_move T m b) in
  let* (n, b2, _) := count_inner_c d' gen_state_new b1 (opp_c c) in
  let* _ := unwrap (undo_move T m b2) in
  Ok n.

(* count_positions: the root list comes from the caller's long-lived generator [s] *)
Definition count_top_c (reduce : list (res N) -> res N) (d : nat) (s : gen_state) (b : board) (c : color)
  : res (N * board * gen_state) :=
  let* (ms, b0, s0) := gmc s b c in
  let s1 := ev s0 in
  let initial_count := N.of_nat (length ms) in
  match d with
  | O => Ok (initial_count, b0, s1)
  | S d' =>
      let* x := reduce (map (root_result_c d' c b0) ms) in
      Ok (initial_count + x, b0, s1)
  end.

(* ---- hypotheses of Perft.v ---- *)
Variable Good : board -> color -> Prop.
Hypothesis Good_WF : forall b c, Good b c -> WF b.
Hypothesis gen_moves_board : forall b c ms b', Good b c -> gen b c = Ok (ms, b') ->
  b' = b /\ Forall sq_ok ms /\ Forall (fun m => ep_ok m b = true) ms.
Hypothesis Good_step : forall b c ms b' m b1, Good b c -> gen b c = Ok (ms, b') -> In m ms ->
  apply_move T m b = Ok b1 -> Good b1 (opp_c c).

(* ---- hypotheses of Cache.v ---- *)
Variable S_board : board -> Prop.
Hypothesis gen_congr : forall b1 b2 c ms, S_board b1 -> S_board b2 ->
  same_pos b1 b2 -> gen_list T rook_t bishop_t b1 c = Ok ms -> gen_list T rook_t bishop_t b2 c = Ok ms.
Hypothesis S_board_turn : forall b t, S_board b -> S_board (set_turn b t).
Hypothesis collision_free : forall b1 b2, S_board b1 -> S_board b2 ->
  hash b1 = hash b2 -> same_pos_noturn b1 b2.
Hypothesis Good_S : forall b c, Good b c -> S_board b.

Notation sound_st := (sound_state T rook_t bishop_t S_board).

(* one cached request from a sound state on a Good board: the uncached generator returns the
   same list, the board comes back, the new state (after any eviction) is sound *)
Lemma gmc_ok s b c ms b0 s0 :
  Good b c -> sound_st s -> gmc s b c = Ok (ms, b0, s0) ->
  gen b c = Ok (ms, b) /\ b0 = b /\ sound_st (ev s0).
Proof.
  intros G Hs E.
  pose proof (generate_moves_cached_sound T rook_t bishop_t S_board s b c Hs (Good_S b c G)) as A.
  rewrite E in A. cbn [answer_of] in A. unfold gen_list in A.
  destruct (gen b c) as [[ms' b1]| |] eqn:Eg; try discriminate A. inversion A. subst ms'.
  destruct (gen_moves_board b c ms b1 G Eg) as (-> & _).
  split; [reflexivity|].
  assert (Q : serve T rook_t bishop_t s (QMoves b c) = Ok (AMoves ms, s0)).
  { cbn [serve]. rewrite E. reflexivity. }
  destruct (serve_sound T rook_t bishop_t S_board gen_congr S_board_turn collision_free
              s (QMoves b c) (AMoves ms) s0 (ev s0) Hs (Good_S b c G) Q (ev_evicts s0)) as [_ Hs'].
  split; [|exact Hs'].
  unfold generate_moves_cached in E. destruct (mv_lookup s (hash b, c)) as [l|].
  - inversion E. reflexivity.
  - rewrite Eg in E. cbn [bind] in E. inversion E. reflexivity.
Qed.

Lemma count_loop_c_sim (rec_c : gen_state -> board -> res (N * board * gen_state))
      (rec : board -> res (N * board)) b :
  WF b -> forall ms, Forall (mok b) ms ->
  (forall m b1 s n b2 s', In m ms -> apply_move T m b = Ok b1 -> sound_st s ->
     rec_c s b1 = Ok (n, b2, s') -> rec b1 = Ok (n, b2) /\ b2 = b1 /\ sound_st s') ->
  forall acc s n b' s', sound_st s ->
  count_loop_c rec_c ms b acc s = Ok (n, b', s') ->
  count_loop T rec ms b acc = Ok (n, b') /\ sound_st s'.
Proof.
  intros W ms. induction ms as [|m ms IH]; intros Hok Hrec acc s n b' s' Hs E;
    cbn [count_loop_c count_loop] in *.
  - inversion E. subst. split; [reflexivity|exact Hs].
  - inversion Hok as [|m' ms' Hm Hms]; subst.
    destruct (apply_move T m b) as [b1| |] eqn:Ea; cbn [unwrap bind] in *; try discriminate E.
    destruct (rec_c s b1) as [[[n1 b2] s1]| |] eqn:Er; cbn [bind] in E; try discriminate E.
    destruct (Hrec m b1 s n1 b2 s1 (or_introl eq_refl) Ea Hs Er) as (Er' & -> & Hs1).
    rewrite Er'. cbn [bind].
    assert (Eu : undo_move T m b1 = Ok b).
    { destruct Hm as [Hsq Hep]. apply (undo_apply T m b b1 W Hsq Hep Ea). }
    rewrite Eu in *. cbn [unwrap bind] in *.
    refine (IH Hms _ (acc + n1) s1 n b' s' Hs1 E).
    intros m0 b0 s0 n0 b3 s3 Hin. apply Hrec. right. exact Hin.
Qed.

(* C10 with C02: the sequential routine with a cached generator *)
Theorem count_inner_c_eq : forall d s b c n b' s',
  Good b c -> sound_st s -> count_inner_c d s b c = Ok (n, b', s') ->
  count_inner T rook_t bishop_t d b c = Ok (n, b') /\ sound_st s'.
Proof.
  induction d as [|d IH]; intros s b c n b' s' G Hs E; cbn [count_inner_c count_inner] in *;
    destruct (gmc s b c) as [[[ms b0] s0]| |] eqn:Eg; cbn [bind] in E; try discriminate E;
    destruct (gmc_ok s b c ms b0 s0 G Hs Eg) as (Eu & -> & Hs0); rewrite Eu; cbn [bind].
  - inversion E. subst. split; [reflexivity|exact Hs0].
  - destruct (gen_moves_board b c ms b G Eu) as (_ & Hsq & Hep).
    apply (count_loop_c_sim (fun s' b1 => count_inner_c d s' b1 (opp_c c))
             (fun b1 => count_inner T rook_t bishop_t d b1 (opp_c c)) b (Good_WF b c G) ms) with (s := ev s0);
      [| |exact Hs0|exact E].
    + rewrite Forall_forall in *. intros m Hin. split; [apply Hsq|apply Hep]; exact Hin.
    + intros m b1 s1 n1 b2 s2 Hin Ea Hs1 Er.
      pose proof (Good_step b c ms b m b1 G Eu Hin Ea) as G1.
      destruct (IH s1 b1 (opp_c c) n1 b2 s2 G1 Hs1 Er) as [Er' Hs2].
      split; [exact Er'|]. split; [|exact Hs2].
      apply (count_inner_exact T rook_t bishop_t Good Good_WF gen_moves_board Good_step
               d b1 (opp_c c) n1 b2 G1 Er').
Qed.

Corollary count_inner_c_exact : forall d s b c n b' s',
  Good b c -> sound_st s -> count_inner_c d s b c = Ok (n, b', s') ->
  b' = b /\ n = nsum T rook_t bishop_t d b c /\ sound_st s'.
Proof.
  intros d s b c n b' s' G Hs E. destruct (count_inner_c_eq d s b c n b' s' G Hs E) as [E' Hs'].
  destruct (count_inner_exact T rook_t bishop_t Good Good_WF gen_moves_board Good_step d b c n b' G E') as [-> ->].
  split; [reflexivity|]. split; [reflexivity|exact Hs'].
Qed.

(* one root closure with a new cached generator = the uncached closure *)
Lemma root_result_c_ok d c b m n : Good b c ->
  forall ms b', gen b c = Ok (ms, b') -> In m ms ->
  root_result_c d c b m = Ok n ->
  root_result T (fun b1 => count_inner T rook_t bishop_t d b1 (opp_c c)) b m = Ok n.
Proof.
  intros G ms b' Eg Hin. unfold root_result_c, root_result.
  destruct (apply_move T m b) as [b1| |] eqn:Ea; cbn [unwrap bind]; try discriminate.
  destruct (count_inner_c d gen_state_new b1 (opp_c c)) as [[[n1 b2] s1]| |] eqn:Er; cbn [bind]; try discriminate.
  destruct (count_inner_c_eq d gen_state_new b1 (opp_c c) n1 b2 s1
              (Good_step b c ms b' m b1 G Eg Hin Ea)
              (sound_state_new T rook_t bishop_t S_board) Er) as [Er' _].
  rewrite Er'. cbn [bind]. intro E. exact E.
Qed.

(* C10 with C02: the parallel routine, root list from a long-lived sound generator state,
   a new generator per root move, any fair reduction *)
Theorem count_top_c_exact : forall reduce d s b c n b' s',
  fair_reduce reduce -> Good b c -> sound_st s ->
  count_top_c reduce d s b c = Ok (n, b', s') ->
  b' = b /\ n = nsum T rook_t bishop_t d b c /\ sound_st s'.
Proof.
  intros reduce d s b c n b' s' F G Hs E. unfold count_top_c in E.
  destruct (gmc s b c) as [[[ms b0] s0]| |] eqn:Eg; cbn [bind] in E; try discriminate E.
  destruct (gmc_ok s b c ms b0 s0 G Hs Eg) as (Eu & -> & Hs0).
  assert (X : count_top_gen T rook_t bishop_t reduce d b c = Ok (n, b') /\ s' = ev s0).
  { unfold count_top_gen. rewrite Eu. cbn [bind]. destruct d as [|d].
    - injection E as En Eb Es. subst n b' s'. split; reflexivity.
    - destruct (reduce (map (root_result_c d c b) ms)) as [x| |] eqn:Er; cbn [bind] in E; try discriminate E.
      injection E as En Eb Es. subst n b' s'. split; [|reflexivity].
      apply (fair_reduce_inv reduce _ x F) in Er. destruct Er as (ws & Ews & ->).
      assert (Y : map (root_result T (fun b1 => count_inner T rook_t bishop_t d b1 (opp_c c)) b) ms = map Ok ws).
      { apply (map_ok_transfer (root_result_c d c b)); [|exact Ews].
        intros m w Hin Ew. apply (root_result_c_ok d c b m w G ms b Eu Hin Ew). }
      rewrite Y, (fair_reduce_ok reduce ws F). reflexivity. }
  destruct X as [X ->].
  destruct (count_top_exact T rook_t bishop_t Good Good_WF gen_moves_board Good_step
              reduce d b c n b' F G X) as [-> ->].
  split; [reflexivity|]. split; [reflexivity|exact Hs0].
Qed.

(* ---- the command-line driver (src/game/position_counter.rs, run_count_positions with the `all`
   strategy): for depth = 1..d it counts from the SAME board with the SAME long-lived generator,
   whose cache therefore carries over from one depth to the next; it prints each figure and
   their total ---- *)
Fixpoint cli_counts (reduce : list (res N) -> res N) (depths : list nat) (s : gen_state) (b : board) (c : color)
  : res (list N * gen_state) :=
  match depths with
  | [] => Ok ([], s)
  | d :: rest =>
      let* (n, _, s1) := count_top_c reduce d s b c in
      let* (ns, s2) := cli_counts reduce rest s1 b c in
      Ok (n :: ns, s2)
  end.

Definition cli_total (ns : list N) : N := fold_left N.add ns 0%N.

(** whatever the earlier depths left in the generator's cache, every figure printed is the exact
    number of move paths (lengths 1..depth+1) and the cache stays sound *)
Theorem cli_counts_exact : forall reduce depths s b c ns s',
  fair_reduce reduce -> Good b c -> sound_st s ->
  cli_counts reduce depths s b c = Ok (ns, s') ->
  ns = map (fun d => nsum T rook_t bishop_t d b c) depths /\ sound_st s'.
Proof.
  intros reduce depths. induction depths as [|d rest IH]; intros s b c ns s' F G Hs E; cbn [cli_counts] in E.
  - injection E as <- <-. split; [reflexivity|exact Hs].
  - destruct (count_top_c reduce d s b c) as [[[n b1] s1]| |] eqn:E1; cbn [bind] in E; try discriminate E.
    destruct (count_top_c_exact reduce d s b c n b1 s1 F G Hs E1) as (_ & -> & Hs1).
    destruct (cli_counts reduce rest s1 b c) as [[ns2 s2]| |] eqn:E2; cbn [bind] in E; try discriminate E.
    injection E as <- <-.
    destruct (IH s1 b c ns2 s2 F G Hs1 E2) as [-> Hs2].
    split; [reflexivity|exact Hs2].
Qed.

End PerftCache.

(* non-vacuity: the cached counter from the initial position, eviction policy "keep 3 entries" *)
Example count_inner_c_1 :
  on_initial (fun b =>
    match count_inner_c example_table rook_ref bishop_ref (trim 3) 1 gen_state_new b White with
    | Ok (n, b', s') => n = 420 /\ b' = b /\ length (mv_cache s') = 3%nat
    | _ => False
    end).
Proof. vm_compute. repeat split; reflexivity. Qed.

Example count_top_c_1 :
  on_initial (fun b =>
    match count_top_c example_table rook_ref bishop_ref (fun s => s) sum_res 1 gen_state_new b White with
    | Ok (n, b', s') => n = 420 /\ b' = b /\ length (mv_cache s') = 1%nat
    | _ => False
    end).
Proof. vm_compute. repeat split; reflexivity. Qed.

Print Assumptions count_inner_c_eq.
Print Assumptions count_top_c_exact.
