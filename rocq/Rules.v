(* Rules.v — SPEC LAYER: chess as the FIDE Laws state it, over a mailbox position with
   (file, rank) coordinates.  No bitboards, no engine code.  Executable; this is the oracle
   of the refinement theorems and of the correspondence runs.  Its adequacy is validated
   against published perft counts (a test of the oracle, not a proof). *)
From Coq Require Export ZArith.
From ChessV Require Export Types.

Definition cell := option (piece * color).

Record position := {
  cells : list cell;            (* 64 cells, index = rank*8 + file, a1 = 0 *)
  pturn : color;
  prights : N;                  (* subset of {WK, WQ, BK, BQ} as engine bit mask *)
  pep : option N;               (* en-passant target square (the skipped square), if any *)
  phalf : N;                    (* plies since the last capture or pawn move *)
  pfull : N                     (* move counter: +1 per move made *)
}.

Definition at_ (p : position) (i : N) : cell := nth (N.to_nat i) (cells p) None.

Definition on_board (f r : Z) : bool := ((0 <=? f) && (f <? 8) && (0 <=? r) && (r <? 8))%Z.
Definition sq (f r : Z) : N := Z.to_N (r * 8 + f).
Definition fileZ (i : N) : Z := Z.of_N (i mod 8).
Definition rankZ (i : N) : Z := Z.of_N (i / 8).
Definition atc (p : position) (f r : Z) : cell := if on_board f r then at_ p (sq f r) else None.

Definition is_pc (c : cell) (pc : piece) (col : color) : bool := opt_pc_eqb c (Some (pc, col)).
Definition forward (c : color) : Z := match c with White => 1 | Black => -1 end.

Definition knight_offsets : list (Z * Z) :=
  [(1, 2); (2, 1); (2, -1); (1, -2); (-1, -2); (-2, -1); (-2, 1); (-1, 2)]%Z.
Definition king_offsets : list (Z * Z) :=
  [(1, 0); (1, 1); (0, 1); (-1, 1); (-1, 0); (-1, -1); (0, -1); (1, -1)]%Z.
Definition ortho_dirs : list (Z * Z) := [(1, 0); (-1, 0); (0, 1); (0, -1)]%Z.
Definition diag_dirs : list (Z * Z) := [(1, 1); (1, -1); (-1, 1); (-1, -1)]%Z.

(* the squares of a ray from (f, r), exclusive, in direction (df, dr), up to and including
   the first occupied square *)
Fixpoint ray (p : position) (fuel : nat) (f r df dr : Z) : list (Z * Z) :=
  match fuel with
  | O => []
  | S k =>
      let f' := (f + df)%Z in
      let r' := (r + dr)%Z in
      if on_board f' r' then
        match atc p f' r' with
        | None => (f', r') :: ray p k f' r' df dr
        | Some _ => [(f', r')]
        end
      else []
  end.

(* the first occupied square met along a ray, if any *)
Definition ray_hit (p : position) (f r df dr : Z) : cell :=
  match rev (ray p 8 f r df dr) with
  | [] => None
  | (f', r') :: _ => atc p f' r'
  end.

(* is square (f, r) attacked by a piece of colour c? *)
Definition attacked_by (p : position) (c : color) (f r : Z) : bool :=
  existsb (fun df => is_pc (atc p (f + df) (r - forward c)) Pawn c) [1; -1]%Z
  || existsb (fun o => is_pc (atc p (f + fst o) (r + snd o)) Knight c) knight_offsets
  || existsb (fun o => is_pc (atc p (f + fst o) (r + snd o)) King c) king_offsets
  || existsb (fun d => let h := ray_hit p f r (fst d) (snd d) in is_pc h Rook c || is_pc h Queen c) ortho_dirs
  || existsb (fun d => let h := ray_hit p f r (fst d) (snd d) in is_pc h Bishop c || is_pc h Queen c) diag_dirs.

Definition king_square (p : position) (c : color) : option N :=
  find (fun i => is_pc (at_ p i) King c) squares.

Definition king_attacked (p : position) (c : color) : bool :=
  match king_square p c with
  | Some k => attacked_by p (opp_c c) (fileZ k) (rankZ k)
  | None => false
  end.

Definition cap_of (c : cell) : option piece := option_map fst c.
Definition is_enemy (c : cell) (me : color) : bool :=
  match c with Some (_, col) => color_eqb col (opp_c me) | None => false end.
Definition is_empty_cell (c : cell) : bool := match c with None => true | _ => false end.

Definition promotion_pieces : list piece := [Queen; Rook; Bishop; Knight].
Definition last_rank (c : color) : Z := match c with White => 7 | Black => 0 end.
Definition start_rank (c : color) : Z := match c with White => 1 | Black => 6 end.

(* a pawn arriving on (tf, tr): one Std move, or the four promotions on the last rank *)
Definition pawn_arrivals (c : color) (from : N) (tf tr : Z) (cap : option piece) : list cmove :=
  if (tr =? last_rank c)%Z then map (fun pp => Promo from (sq tf tr) cap pp) promotion_pieces
  else [Std from (sq tf tr) cap].

Definition step_moves (p : position) (c : color) (from : N) (offs : list (Z * Z)) : list cmove :=
  let f := fileZ from in
  let r := rankZ from in
  flat_map (fun o =>
    let tf := (f + fst o)%Z in
    let tr := (r + snd o)%Z in
    if on_board tf tr then
      match atc p tf tr with
      | None => [Std from (sq tf tr) None]
      | Some (pc, col) => if color_eqb col c then [] else [Std from (sq tf tr) (Some pc)]
      end
    else []) offs.

Definition slide_moves (p : position) (c : color) (from : N) (dirs : list (Z * Z)) : list cmove :=
  let f := fileZ from in
  let r := rankZ from in
  flat_map (fun d =>
    flat_map (fun t =>
      match atc p (fst t) (snd t) with
      | None => [Std from (sq (fst t) (snd t)) None]
      | Some (pc, col) => if color_eqb col c then [] else [Std from (sq (fst t) (snd t)) (Some pc)]
      end) (ray p 8 f r (fst d) (snd d))) dirs.

Definition pawn_moves_r (p : position) (c : color) (from : N) : list cmove :=
  let f := fileZ from in
  let r := rankZ from in
  let r1 := (r + forward c)%Z in
  let r2 := (r + 2 * forward c)%Z in
  (* pushes *)
  (if on_board f r1 && is_empty_cell (atc p f r1) then
     pawn_arrivals c from f r1 None
     ++ (if (r =? start_rank c)%Z && is_empty_cell (atc p f r2) then [Std from (sq f r2) None] else [])
   else [])
  (* captures, en passant *)
  ++ flat_map (fun df =>
       let tf := (f + df)%Z in
       if on_board tf r1 then
         (if is_enemy (atc p tf r1) c then pawn_arrivals c from tf r1 (cap_of (atc p tf r1)) else [])
         ++ (match pep p with
             | Some t => if (t =? sq tf r1) && is_pc (atc p tf r) Pawn (opp_c c) && is_empty_cell (atc p tf r1)
                         then [EnPassant from t] else []
             | None => []
             end)
       else []) [1; -1]%Z.

Definition has_right (p : position) (bitmask : N) : bool := negb (N.land (prights p) bitmask =? 0).

(* castling: right held, king and rook at home, squares between empty, king not in check
   and not passing over or landing on an attacked square *)
Definition castle_moves_r (p : position) (c : color) : list cmove :=
  let r := match c with White => 0 | Black => 7 end%Z in
  let enemy := opp_c c in
  let king_ok := is_pc (atc p 4 r) King c && negb (attacked_by p enemy 4 r) in
  (if has_right p (match c with White => WK | Black => BK end) && king_ok
      && is_pc (atc p 7 r) Rook c
      && is_empty_cell (atc p 5 r) && is_empty_cell (atc p 6 r)
      && negb (attacked_by p enemy 5 r) && negb (attacked_by p enemy 6 r)
   then [Castle (sq 4 r) (sq 6 r)] else [])
  ++
  (if has_right p (match c with White => WQ | Black => BQ end) && king_ok
      && is_pc (atc p 0 r) Rook c
      && is_empty_cell (atc p 3 r) && is_empty_cell (atc p 2 r) && is_empty_cell (atc p 1 r)
      && negb (attacked_by p enemy 3 r) && negb (attacked_by p enemy 2 r)
   then [Castle (sq 4 r) (sq 2 r)] else []).

Definition pseudo_legal (p : position) (c : color) : list cmove :=
  flat_map (fun i =>
    match at_ p i with
    | Some (pc, col) =>
        if color_eqb col c then
          match pc with
          | Pawn => pawn_moves_r p c i
          | Knight => step_moves p c i knight_offsets
          | Bishop => slide_moves p c i diag_dirs
          | Rook => slide_moves p c i ortho_dirs
          | Queen => slide_moves p c i (ortho_dirs ++ diag_dirs)
          | King => step_moves p c i king_offsets
          end
        else []
    | None => []
    end) squares
  ++ castle_moves_r p c.

(* ---- successor ---- *)
Fixpoint set_nth {A} (l : list A) (n : nat) (v : A) : list A :=
  match l, n with
  | [], _ => []
  | _ :: t, O => v :: t
  | h :: t, S k => h :: set_nth t k v
  end.
Definition set_cell (cs : list cell) (i : N) (v : cell) : list cell := set_nth cs (N.to_nat i) v.

Definition rights_lost_by_square (i : N) : N :=
  (* a king or rook leaving, or a rook being captured on, its home square *)
  if i =? 0 then WQ else if i =? 7 then WK else if i =? 56 then BQ else if i =? 63 then BK
  else if i =? 4 then N.lor WK WQ else if i =? 60 then N.lor BK BQ else 0.

Definition moved_piece (p : position) (m : cmove) : cell := at_ p (mv_from m).

(* the position after the mover (the piece on the origin square) plays m; the side to
   move is NOT flipped here (the engine's callers flip it; `succ_turn` does both) *)
Definition successor (p : position) (m : cmove) : position :=
  let from := mv_from m in
  let to := mv_to m in
  let mover := at_ p from in
  let c := match mover with Some (_, col) => col | None => pturn p end in
  let cs0 := set_cell (cells p) from None in
  let cs :=
    match m with
    | Std _ _ _ => set_cell cs0 to mover
    | Promo _ _ _ pp => set_cell cs0 to (Some (pp, c))
    | EnPassant _ _ =>
        set_cell (set_cell cs0 to mover) (sq (fileZ to) (rankZ from)) None
    | Castle _ _ =>
        let r := rankZ from in
        let cs1 := set_cell cs0 to mover in
        if (fileZ to =? 6)%Z
        then set_cell (set_cell cs1 (sq 7 r) None) (sq 5 r) (Some (Rook, c))
        else set_cell (set_cell cs1 (sq 0 r) None) (sq 3 r) (Some (Rook, c))
    end in
  let is_pawn := match mover with Some (Pawn, _) => true | _ => false end in
  let is_capture := match mv_captures m with Some _ => true | None => false end in
  let dbl := is_pawn && (Z.abs (rankZ to - rankZ from) =? 2)%Z in
  (* a home rook's right is only lost if that right's rook/king is what moved or was taken:
     the square test suffices because a held right implies the home pieces are in place *)
  let lost := N.lor (rights_lost_by_square from) (rights_lost_by_square to) in
  {| cells := cs;
     pturn := pturn p;
     prights := N.ldiff (prights p) lost;
     pep := if dbl then Some (sq (fileZ from) ((rankZ from + rankZ to) / 2)) else None;
     phalf := if is_pawn || is_capture then 0 else phalf p + 1;
     pfull := pfull p + 1 |}.

Definition flip_turn (p : position) : position :=
  {| cells := cells p; pturn := opp_c (pturn p); prights := prights p; pep := pep p;
     phalf := phalf p; pfull := pfull p |}.
Definition succ_turn (p : position) (m : cmove) : position := flip_turn (successor p m).

(* a move is legal iff it is pseudo-legal and does not leave the mover's king attacked *)
Definition legal_moves_for (p : position) (c : color) : list cmove :=
  filter (fun m => negb (king_attacked (successor p m) c)) (pseudo_legal p c).
Definition legal_moves (p : position) : list cmove := legal_moves_for p (pturn p).

Definition is_nil_list {A} (l : list A) : bool := match l with [] => true | _ => false end.
Definition is_checkmate (p : position) (c : color) : bool := king_attacked p c && is_nil_list (legal_moves_for p c).
Definition is_stalemate (p : position) (c : color) : bool := negb (king_attacked p c) && is_nil_list (legal_moves_for p c).

(* check / checkmate / neither, for the position a move produces (mover = c) *)
Definition move_effect (p : position) (c : color) (m : cmove) : effect :=
  let p' := successor p m in
  if is_checkmate p' (opp_c c) then ECheckmate else if king_attacked p' (opp_c c) then ECheck else ENone.

(* number of legal move sequences of length d *)
Fixpoint perft (d : nat) (p : position) : N :=
  match d with
  | O => 1
  | S k => fold_left (fun acc m => acc + perft k (succ_turn p m)) (legal_moves p) 0
  end.

Definition initial_cells : list cell :=
  let back c := [Some (Rook, c); Some (Knight, c); Some (Bishop, c); Some (Queen, c);
                 Some (King, c); Some (Bishop, c); Some (Knight, c); Some (Rook, c)] in
  back White ++ repeat (Some (Pawn, White)) 8 ++ repeat None 32 ++ repeat (Some (Pawn, Black)) 8 ++ back Black.
Definition initial_position : position :=
  {| cells := initial_cells; pturn := White; prights := 15; pep := None; phalf := 0; pfull := 1 |}.
