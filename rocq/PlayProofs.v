(* PlayProofs.v — properties C14 and C15 for the human-vs-computer LOOP (`chess play`), over the
   session model Play.v (pass_turn, play_step, play_out, play_end, play_run).

     play_step_human          on the human's turn one pass of the loop is the line-level step of Pvp.v
     play_step_never_crashes  one pass never panics
     play_step_spec           what one pass did (play_clause): a typed line is played exactly
                              (accepted_state + names) or rejected without effect; the engine makes a
                              legal move of the rules, or fails with the state unchanged and then the
                              rules give no move
     play_step_spec_cases     the same, written out outcome by outcome
     play_step_accepts_iff    C14: the line is accepted iff it names a legal move
     play_step_engine_iff     C15: the engine moves iff the rules give a move
     play_step_inv            the session invariant (wide search invariant at the game's own depth D,
                              counters within a budget) is re-established after every pass; the
                              half-move clock is NOT bounded by 100 in this loop
     play_run_spec            the loop: never PCrash, SoundW D at every state shown, every consecutive
                              pair of states is one pass (play_chain), PMate / PStalemate only with
                              the rules' verdict, PRunning only when the events ran out (and then the
                              last verdict is none or a count-based draw)
   Proofs only; no axioms. *)
From Coq Require Import Lia ZArith NArith List Bool String Ascii.
From ChessV Require Import Bits Types Board Moves MoveGen Rules Abs Eval Search Game Pvp Watch Play.
From ChessV Require Import BoardLemmas InvProofs InvProofs2 GenFrame EpFrame GenExact SearchFrame
  Congr GenTotal Reach ReachWide VerdictExact CounterProofs C14Closed C15Closed PvpProofs WatchProofs.
From ChessV Require Import MagicExample.
From ChessV Require UndoProofs SoundB.
Import ListNotations.
Open Scope N_scope.
Open Scope list_scope.

#[local] Arguments N.add : simpl never.
#[local] Arguments N.sub : simpl never.
#[local] Arguments N.mul : simpl never.
#[local] Arguments N.eqb : simpl never.
#[local] Arguments N.ltb : simpl never.
#[local] Arguments N.leb : simpl never.
#[local] Arguments N.of_nat : simpl never.
#[local] Arguments N.shiftl : simpl never.
#[local] Arguments N.shiftr : simpl never.
#[local] Arguments N.land : simpl never.
#[local] Arguments N.lor : simpl never.
#[local] Arguments N.lxor : simpl never.
#[local] Arguments N.testbit : simpl never.

Section PlayP.
Variable T : ztable.
Variables rook_t bishop_t : N -> N -> N.
Hypothesis rook_t_ref : forall x o, x < 64 -> rook_t x o = rook_ref x o.
Hypothesis bishop_t_ref : forall x o, x < 64 -> bishop_t x o = bishop_ref x o.

Notation SoundW := (SoundW T rook_t bishop_t).
Notation Inv := (InvProofs2.Inv rook_t bishop_t).
Notation gen_moves := (gen_moves T rook_t bishop_t).
Notation game_ending := (game_ending T rook_t bishop_t).
Notation engine_move := (engine_move T rook_t bishop_t).
Notation exec_command := (exec_command T rook_t bishop_t).
Notation pvp_step := (pvp_step T rook_t bishop_t).
Notation play_step := (play_step T rook_t bishop_t).
Notation play_run := (play_run T rook_t bishop_t).
Notation played := (played T rook_t bishop_t).
Notation accepted_state := (accepted_state T rook_t bishop_t).
Notation legal b := (Rules.legal_moves_for (abstract b) (turn b)).
Notation depth_of g := (N.to_nat (gdepth g)).

(* ================================================================================== *)
(** * 1. one pass through the loop body                                                 *)
(* ================================================================================== *)

(* what one pass did, outcome by outcome *)
Definition play_clause (player : color) (g : game) (raw : string) (g' : game) (out : play_out) : Prop :=
  match out with
  | HumanPlayed m => turn (gboard g) = player /\ accepted_state g m g' /\ names g raw m
  | HumanRefused | HumanUnparsed => turn (gboard g) = player /\ g' = g
  | EnginePlayed m => turn (gboard g) <> player /\ exists g1, played g m g1 /\ g' = pass_turn g1
  | EngineError => turn (gboard g) <> player /\ g' = g /\ legal (gboard g) = []
  end.

(* the wide invariant at a positive depth leaves room for the one move of the line-level C14 *)
Lemma SoundW_fine1 : forall d b, (1 <= d)%nat -> SoundW d b -> Congr.fine 1 b.
Proof.
  intros d b L (_ & _ & _ & (Hn & Hh & _ & Hf) & _).
  unfold Congr.fine. split; [exact Hn|]. split; lia.
Qed.

Lemma depth_pos : forall g, 1 <= gdepth g -> (1 <= depth_of g)%nat.
Proof. intros g L. lia. Qed.

(* on the human's turn one pass is the step of the player-vs-player loop *)
Lemma play_step_human : forall player g raw choice,
  turn (gboard g) = player ->
  play_step player g raw choice =
  match pvp_step g raw with
  | (g', Played m) => Some (g', HumanPlayed m)
  | (g', Refused) => Some (g', HumanRefused)
  | (g', Unparsed) => Some (g', HumanUnparsed)
  | (_, Crashed) => None
  end.
Proof.
  intros player g raw choice Et. unfold Play.play_step, Pvp.pvp_step.
  rewrite <- Et, color_eqb_refl.
  destruct (parse_input raw) as [c|]; [|reflexivity].
  destruct (exec_command c g) as [[m g1]| | |e|]; reflexivity.
Qed.

Lemma play_step_engine : forall player g raw choice,
  turn (gboard g) <> player ->
  play_step player g raw choice =
  match engine_move g choice with
  | GOk (m, g1) => Some (pass_turn g1, EnginePlayed m)
  | GPanic => None
  | _ => Some (g, EngineError)
  end.
Proof.
  intros player g raw choice Nt. unfold Play.play_step.
  assert (E : color_eqb player (turn (gboard g)) = false).
  { apply color_eqb_neq. intro X. apply Nt. symmetry. exact X. }
  rewrite E. reflexivity.
Qed.

(** one pass: it never panics, and does what play_clause says *)
Theorem play_step_spec : forall player g raw choice,
  1 <= gdepth g -> SoundW (depth_of g) (gboard g) ->
  exists g' out, play_step player g raw choice = Some (g', out)
                 /\ play_clause player g raw g' out.
Proof.
  intros player g raw choice L Hs.
  pose proof (SoundW_Inv T rook_t bishop_t _ _ Hs) as I.
  pose proof (SoundW_fine1 _ _ (depth_pos g L) Hs) as F1.
  destruct (color_eqb player (turn (gboard g))) eqn:Ec.
  - (* the human *)
    apply color_eqb_eq in Ec. symmetry in Ec.
    rewrite (play_step_human player g raw choice Ec).
    destruct (pvp_step g raw) as [g' out] eqn:S.
    destruct (pvp_step_spec T rook_t bishop_t rook_t_ref bishop_t_ref g raw g' out I F1 S) as [NC C14].
    destruct C14 as [(m & -> & Acc & Nm)|(-> & [->| ->])].
    + exists g', (HumanPlayed m). split; [reflexivity|]. cbn [play_clause]. auto.
    + exists g, HumanRefused. split; [reflexivity|]. cbn [play_clause]. auto.
    + exists g, HumanUnparsed. split; [reflexivity|]. cbn [play_clause]. auto.
  - (* the engine *)
    apply color_eqb_neq in Ec.
    assert (Nt : turn (gboard g) <> player) by (intro X; apply Ec; symmetry; exact X).
    rewrite (play_step_engine player g raw choice Nt).
    destruct (engine_move_spec T rook_t bishop_t rook_t_ref bishop_t_ref g choice L Hs)
      as (Hmv & Hno & _).
    destruct (legal (gboard g)) as [|m0 l0] eqn:El.
    + rewrite (Hno eq_refl). exists g, EngineError. split; [reflexivity|].
      cbn [play_clause]. auto.
    + assert (Hne : m0 :: l0 <> []) by discriminate.
      destruct (Hmv Hne) as (m & g1 & Em & Pl). rewrite Em.
      exists (pass_turn g1), (EnginePlayed m). split; [reflexivity|].
      cbn [play_clause]. split; [exact Nt|]. exists g1. auto.
Qed.

Theorem play_step_never_crashes : forall player g raw choice,
  1 <= gdepth g -> SoundW (depth_of g) (gboard g) ->
  play_step player g raw choice <> None.
Proof.
  intros player g raw choice L Hs.
  destruct (play_step_spec player g raw choice L Hs) as (g' & out & E & _).
  rewrite E. discriminate.
Qed.

(* the clause of an actual step *)
Lemma play_step_clause : forall player g raw choice g' out,
  1 <= gdepth g -> SoundW (depth_of g) (gboard g) ->
  play_step player g raw choice = Some (g', out) -> play_clause player g raw g' out.
Proof.
  intros player g raw choice g' out L Hs E.
  destruct (play_step_spec player g raw choice L Hs) as (g2 & out2 & E2 & C).
  rewrite E in E2. inversion E2; subst g2 out2. exact C.
Qed.

(** the same, outcome by outcome (the Congr.fine 1 hypothesis of the line-level C14 follows from
    SoundW at a positive depth: SoundW_fine1) *)
Theorem play_step_spec_cases : forall player g raw choice,
  1 <= gdepth g -> SoundW (depth_of g) (gboard g) ->
  exists g' out, play_step player g raw choice = Some (g', out)
  /\ (forall m, out = HumanPlayed m ->
        turn (gboard g) = player /\ accepted_state g m g' /\ names g raw m)
  /\ (out = HumanRefused \/ out = HumanUnparsed -> turn (gboard g) = player /\ g' = g)
  /\ (forall m, out = EnginePlayed m ->
        turn (gboard g) <> player
        /\ exists g1, played g m g1 /\ g' = pass_turn g1)
  /\ (out = EngineError ->
        turn (gboard g) <> player /\ g' = g /\ legal (gboard g) = []).
Proof.
  intros player g raw choice L Hs.
  destruct (play_step_spec player g raw choice L Hs) as (g' & out & E & C).
  exists g', out. split; [exact E|].
  split; [intros m ->; exact C|].
  split; [intros [->| ->]; exact C|].
  split; [intros m ->; exact C|intros ->; exact C].
Qed.

(** C14 for the pass: the typed line is accepted iff it names a legal move *)
Theorem play_step_accepts_iff : forall player g raw choice,
  1 <= gdepth g -> SoundW (depth_of g) (gboard g) -> turn (gboard g) = player ->
  ((exists m g', play_step player g raw choice = Some (g', HumanPlayed m)) <->
   (exists m, In m (legal_moves (abstract (gboard g))) /\ names g raw m)).
Proof.
  intros player g raw choice L Hs Et.
  pose proof (SoundW_Inv T rook_t bishop_t _ _ Hs) as I.
  pose proof (SoundW_fine1 _ _ (depth_pos g L) Hs) as F1.
  rewrite <- (pvp_step_accepts_iff T rook_t bishop_t rook_t_ref bishop_t_ref g raw I F1).
  rewrite (play_step_human player g raw choice Et).
  destruct (pvp_step g raw) as [g1 out]. cbn [snd]. split.
  - intros (m & g' & E). destruct out as [m1| | |]; inversion E. exists m. reflexivity.
  - intros (m & ->). exists m, g1. reflexivity.
Qed.

(* the two kinds of rejection, as the input layer decides them *)
Theorem play_step_unparsed_iff : forall player g raw choice,
  1 <= gdepth g -> SoundW (depth_of g) (gboard g) -> turn (gboard g) = player ->
  ((exists g', play_step player g raw choice = Some (g', HumanUnparsed)) <->
   full_match COORDINATE_RE (trim raw) = false /\ full_match ALGEBRAIC_RE (trim raw) = false).
Proof.
  intros player g raw choice L Hs Et.
  pose proof (SoundW_Inv T rook_t bishop_t _ _ Hs) as I.
  pose proof (SoundW_fine1 _ _ (depth_pos g L) Hs) as F1.
  rewrite <- (pvp_step_unparsed_iff T rook_t bishop_t g raw I F1).
  rewrite (play_step_human player g raw choice Et).
  destruct (pvp_step g raw) as [g1 out]. cbn [snd]. split.
  - intros (g' & E). destruct out as [m1| | |]; inversion E. reflexivity.
  - intros ->. exists g1. reflexivity.
Qed.

(** C15 for the pass: the engine makes a move iff the rules give one (and then it is one of them,
    by play_clause) *)
Theorem play_step_engine_iff : forall player g raw choice,
  1 <= gdepth g -> SoundW (depth_of g) (gboard g) -> turn (gboard g) <> player ->
  ((exists m g', play_step player g raw choice = Some (g', EnginePlayed m)) <->
   legal (gboard g) <> [])
  /\ (play_step player g raw choice = Some (g, EngineError) <-> legal (gboard g) = []).
Proof.
  intros player g raw choice L Hs Nt.
  destruct (play_step_spec player g raw choice L Hs) as (g' & out & E & C).
  rewrite E. destruct out as [m|  | |m| ]; cbn [play_clause] in C.
  - destruct C as (X & _). contradiction.
  - destruct C as (X & _). contradiction.
  - destruct C as (X & _). contradiction.
  - destruct C as (_ & g1 & Pl & _).
    assert (Hne : legal (gboard g) <> []).
    { destruct Pl as (Hl & _). intro X. rewrite X in Hl. destruct Hl. }
    split; split.
    + intros _. exact Hne.
    + intros _. exists m, g'. reflexivity.
    + intro X. inversion X.
    + intro X. contradiction.
  - destruct C as (_ & -> & Hnil). split; split.
    + intros (m & g2 & X). inversion X.
    + intro X. contradiction.
    + intros _. exact Hnil.
    + intros _. reflexivity.
Qed.

(* ================================================================================== *)
(** * 2. the session invariant                                                          *)
(* ================================================================================== *)

(* the invariant of the loop with n more events to come: the wide search invariant at the game's
   own depth D >= 1, and room for n moves plus a D-ply search below the limits of the two counters.
   The half-move clock is not bounded by 100: a Draw verdict does not stop this loop. *)
Definition play_inv (n : nat) (g : game) : Prop :=
  1 <= gdepth g
  /\ SoundW (depth_of g) (gboard g)
  /\ hd 0 (hm_stack (gboard g)) + N.of_nat n + N.of_nat (depth_of g) < U8_MAX
  /\ fullmove (gboard g) + N.of_nat n + N.of_nat (depth_of g) < FULLMOVE_MAX.

Lemma play_inv_pred : forall n g, play_inv (S n) g -> play_inv n g.
Proof.
  intros n g (L & Hs & Hh & Hf). rewrite Nat2N.inj_succ in Hh, Hf.
  split; [exact L|]. split; [exact Hs|]. split; lia.
Qed.

(* a legal move of the rules, applied and the turn passed, re-establishes the invariant at the
   same depth (both counters grow by at most 1) *)
Lemma move_inv : forall n g m b1 g',
  play_inv (S n) g ->
  In m (legal (gboard g)) ->
  apply_move T m (gboard g) = Ok b1 ->
  gboard g' = toggle_turn b1 -> gdepth g' = gdepth g ->
  play_inv n g'.
Proof.
  intros n g m b1 g' (L & Hs & Hh & Hf) Hl Ha Eb Ed.
  rewrite Nat2N.inj_succ in Hh, Hf.
  unfold play_inv. rewrite Ed, Eb.
  destruct (apply_move_clock T m (gboard g) b1 Ha) as (Hn' & Hh' & Hf' & Hs').
  assert (Hclk : hd 0 (hm_stack (toggle_turn b1)) <= hd 0 (hm_stack (gboard g)) + 1).
  { unfold toggle_turn. cbn [hm_stack set_turn]. exact Hh'. }
  assert (Hfm : fullmove (toggle_turn b1) = fullmove (gboard g) + 1).
  { unfold toggle_turn. cbn [fullmove set_turn]. exact Hf'. }
  split; [exact L|].
  split; [|split; [lia|rewrite Hfm; lia]].
  destruct (depth_of g) as [|k] eqn:Ek; [lia|].
  destruct (SoundW_gen_moves_total T rook_t bishop_t _ _ Hs) as [ms G].
  assert (Hm : In m ms).
  { apply (gen_legal T rook_t bishop_t rook_t_ref bishop_t_ref _ _ _ _ Hs G). exact Hl. }
  destruct (SoundW_step T rook_t bishop_t k (gboard g) ms (gboard g) m b1 Hs G Hm Ha)
    as (I1 & Mw1 & Mb1 & (Hn1 & _ & Hs1 & _) & K1).
  split; [exact I1|]. split; [exact Mw1|]. split; [exact Mb1|]. split; [|exact K1].
  unfold wide. split; [exact Hn1|]. split; [lia|]. split; [exact Hs1|rewrite Hfm; lia].
Qed.

(** the invariant is re-established by every pass through the loop body *)
Theorem play_step_inv : forall n player g raw g' out,
  play_inv (S n) g -> play_clause player g raw g' out ->
  play_inv n g' /\ gdepth g' = gdepth g.
Proof.
  intros n player g raw g' out PI C.
  destruct out as [m| | |m|]; cbn [play_clause] in C.
  - destruct C as (_ & (Hl & _ & Hd & _ & _ & b1 & Ha & Eb) & _).
    rewrite legal_moves_abstract in Hl.
    split; [exact (move_inv n g m b1 g' PI Hl Ha Eb Hd)|exact Hd].
  - destruct C as (_ & ->). split; [apply play_inv_pred; exact PI|reflexivity].
  - destruct C as (_ & ->). split; [apply play_inv_pred; exact PI|reflexivity].
  - destruct C as (_ & g1 & (Hl & _ & Hd & Ha & _) & ->).
    split; [exact (move_inv n g m (gboard g1) (pass_turn g1) PI Hl Ha eq_refl Hd)|exact Hd].
  - destruct C as (_ & -> & _). split; [apply play_inv_pred; exact PI|reflexivity].
Qed.

(* the verdict at the top of the loop is total and is the rules' (no bound on the clock needed) *)
Lemma play_verdict : forall g d, SoundW d (gboard g) ->
  exists e, game_ending (gboard g) (turn (gboard g)) = Ok (e, gboard g) /\ ending_is g e.
Proof.
  intros g d Hs.
  pose proof (SoundW_Inv T rook_t bishop_t _ _ Hs) as I.
  pose proof Hs as (_ & _ & _ & (Hn & Hh & Hsn & Hf) & _).
  assert (F0 : Congr.fine 0 (gboard g)).
  { unfold Congr.fine. split; [exact Hn|]. split; lia. }
  destruct (GenTotal.game_ending_total T rook_t bishop_t (gboard g) (turn (gboard g)) I F0 Hsn) as [e G].
  exists e. split; [exact G|].
  unfold ending_is. cbv zeta.
  destruct (N.eq_dec (top (seen_stack (gboard g))) REPETITION_DRAW_COUNT) as [Es|Ns].
  - left. rewrite (game_ending_draws T rook_t bishop_t (gboard g) _ Hsn Hn (or_introl Es)) in G.
    inversion G. split; [reflexivity|left; exact Es].
  - destruct (N.le_gt_cases HALFMOVE_DRAW_THRESHOLD (top (hm_stack (gboard g)))) as [Lc|Lc].
    + left. rewrite (game_ending_draws T rook_t bishop_t (gboard g) _ Hsn Hn (or_intror Lc)) in G.
      inversion G. split; [reflexivity|right; exact Lc].
    + right. split; [exact Ns|]. split; [exact Lc|].
      apply (game_ending_exact T rook_t bishop_t rook_t_ref bishop_t_ref (gboard g) e (gboard g) I Ns Lc G).
Qed.

(* ================================================================================== *)
(** * 3. the loop                                                                       *)
(* ================================================================================== *)

(* the states shown, chained from the state g through the events: each is the result of the
   model's pass on the corresponding event, and the pass did what play_clause says *)
Inductive play_chain (player : color) : game -> list (string * nat) -> list (game * play_out) -> Prop :=
| pc_nil : forall g evs, play_chain player g evs []
| pc_cons : forall g raw choice rest g' out steps,
    play_step player g raw choice = Some (g', out) ->
    play_clause player g raw g' out ->
    play_chain player g' rest steps ->
    play_chain player g ((raw, choice) :: rest) ((g', out) :: steps).

(* the last state shown (the initial one when there was no pass) *)
Definition last_game (g : game) (steps : list (game * play_out)) : game := last (map fst steps) g.

Lemma last_game_cons : forall g g' out rest, last_game g ((g', out) :: rest) = last_game g' rest.
Proof.
  intros g g' out rest. unfold last_game. cbn [map fst].
  destruct (map fst rest) as [|x l] eqn:E; [reflexivity|].
  change (last (g' :: x :: l) g) with (last (x :: l) g).
  apply last_default. discriminate.
Qed.

(* the verdict that lets the loop go on: none, or a count-based draw *)
Definition goes_on (g : game) : Prop := ending_is g None \/ ending_is g (Some Draw).

(* the statement proved by induction on the list of events *)
Lemma play_run_inv : forall player events g steps w,
  play_inv (length events) g ->
  play_run player g events = (steps, w) ->
  w <> PCrash
  /\ Forall (fun s => SoundW (depth_of g) (gboard (fst s)) /\ gdepth (fst s) = gdepth g) steps
  /\ play_chain player g events steps
  /\ (length steps <= length events)%nat
  /\ (w = PMate -> ending_is (last_game g steps) (Some Checkmate))
  /\ (w = PStalemate -> ending_is (last_game g steps) (Some Stalemate))
  /\ (w = PRunning -> length steps = length events /\ goes_on (last_game g steps)).
Proof.
  intros player events. induction events as [|[raw choice] rest IH]; intros g steps w PI H.
  - (* no event left *)
    pose proof PI as (L & Hs & _).
    destruct (play_verdict g _ Hs) as (e & G & Ee).
    cbn [Play.play_run] in H. rewrite G in H.
    destruct e as [[| |]|]; inversion H; subst steps w.
    + split; [discriminate|]. split; [constructor|]. split; [constructor|].
      split; [cbn [length]; lia|]. split; [intros _; exact Ee|]. split; intro X; discriminate X.
    + split; [discriminate|]. split; [constructor|]. split; [constructor|].
      split; [cbn [length]; lia|]. split; [intro X; discriminate X|].
      split; [intros _; exact Ee|intro X; discriminate X].
    + split; [discriminate|]. split; [constructor|]. split; [constructor|].
      split; [cbn [length]; lia|]. split; [intro X; discriminate X|].
      split; [intro X; discriminate X|]. intros _. split; [reflexivity|right; exact Ee].
    + split; [discriminate|]. split; [constructor|]. split; [constructor|].
      split; [cbn [length]; lia|]. split; [intro X; discriminate X|].
      split; [intro X; discriminate X|]. intros _. split; [reflexivity|left; exact Ee].
  - (* one more pass *)
    pose proof PI as (L & Hs & _).
    destruct (play_verdict g _ Hs) as (e & G & Ee).
    cbn [Play.play_run] in H. rewrite G in H.
    assert (Stop : forall w0, ([], w0) = (steps, w) ->
              (w0 = PMate -> e = Some Checkmate) -> (w0 = PStalemate -> e = Some Stalemate) ->
              w0 <> PCrash -> w0 <> PRunning ->
              w <> PCrash
              /\ Forall (fun s => SoundW (depth_of g) (gboard (fst s)) /\ gdepth (fst s) = gdepth g) steps
              /\ play_chain player g ((raw, choice) :: rest) steps
              /\ (length steps <= length ((raw, choice) :: rest))%nat
              /\ (w = PMate -> ending_is (last_game g steps) (Some Checkmate))
              /\ (w = PStalemate -> ending_is (last_game g steps) (Some Stalemate))
              /\ (w = PRunning -> length steps = length ((raw, choice) :: rest)
                                  /\ goes_on (last_game g steps))).
    { intros w0 X M1 M2 NC NR. inversion X; subst steps w.
      split; [exact NC|]. split; [constructor|]. split; [constructor|].
      split; [cbn [length]; lia|].
      split; [intro Y; rewrite <- (M1 Y); exact Ee|].
      split; [intro Y; rewrite <- (M2 Y); exact Ee|intro Y; contradiction]. }
    assert (Go : (e = None \/ e = Some Draw) ->
              match play_step player g raw choice with
              | None => ([], PCrash)
              | Some (g', out) =>
                  let (steps0, w0) := play_run player g' rest in ((g', out) :: steps0, w0)
              end = (steps, w) ->
              w <> PCrash
              /\ Forall (fun s => SoundW (depth_of g) (gboard (fst s)) /\ gdepth (fst s) = gdepth g) steps
              /\ play_chain player g ((raw, choice) :: rest) steps
              /\ (length steps <= length ((raw, choice) :: rest))%nat
              /\ (w = PMate -> ending_is (last_game g steps) (Some Checkmate))
              /\ (w = PStalemate -> ending_is (last_game g steps) (Some Stalemate))
              /\ (w = PRunning -> length steps = length ((raw, choice) :: rest)
                                  /\ goes_on (last_game g steps))).
    { intros _ H2.
      destruct (play_step_spec player g raw choice L Hs) as (g' & out & Es & C).
      rewrite Es in H2. cbn [length] in PI.
      destruct (play_step_inv _ player g raw g' out PI C) as (PI' & Ed).
      destruct (play_run player g' rest) as [steps0 w0] eqn:R.
      inversion H2; subst steps w.
      destruct (IH g' steps0 w0 PI' R) as (NC & FA & CH & LN & MT & ST & RN).
      assert (Edd : depth_of g' = depth_of g) by (rewrite Ed; reflexivity).
      split; [exact NC|].
      split.
      { constructor.
        - cbn [fst]. pose proof PI' as (_ & Hs' & _). rewrite Edd in Hs'. split; [exact Hs'|exact Ed].
        - rewrite Edd, Ed in FA. exact FA. }
      split; [apply (pc_cons player g raw choice rest g' out steps0 Es C CH)|].
      split; [cbn [length]; lia|].
      rewrite last_game_cons.
      split; [exact MT|]. split; [exact ST|].
      intro X. destruct (RN X) as (R1 & R2). split; [cbn [length]; rewrite R1; reflexivity|exact R2]. }
    destruct e as [[| |]|].
    + apply (Stop PMate H); try (intro X; discriminate X); auto.
    + apply (Stop PStalemate H); try (intro X; discriminate X); auto.
    + apply Go; [right; reflexivity|exact H].
    + apply Go; [left; reflexivity|exact H].
Qed.

(** the loop-level C14 + C15 *)
Theorem play_run_spec : forall player g events steps w,
  1 <= gdepth g ->
  SoundW (depth_of g) (gboard g) ->
  hd 0 (hm_stack (gboard g)) + N.of_nat (length events) + N.of_nat (depth_of g) < U8_MAX ->
  fullmove (gboard g) + N.of_nat (length events) + N.of_nat (depth_of g) < FULLMOVE_MAX ->
  play_run player g events = (steps, w) ->
  w <> PCrash
  /\ Forall (fun s => SoundW (depth_of g) (gboard (fst s))) steps
  /\ Forall (fun s => gdepth (fst s) = gdepth g) steps
  /\ play_chain player g events steps
  /\ (length steps <= length events)%nat
  /\ (w = PMate -> ending_is (last_game g steps) (Some Checkmate))
  /\ (w = PStalemate -> ending_is (last_game g steps) (Some Stalemate))
  /\ (w = PRunning -> length steps = length events /\ goes_on (last_game g steps)).
Proof.
  intros player g events steps w L Hs Hh Hf H.
  assert (PI : play_inv (length events) g).
  { split; [exact L|]. split; [exact Hs|]. split; [exact Hh|exact Hf]. }
  destruct (play_run_inv player events g steps w PI H) as (NC & FA & CH & LN & MT & ST & RN).
  split; [exact NC|].
  split; [revert FA; apply Forall_impl; intros s (A & _); exact A|].
  split; [revert FA; apply Forall_impl; intros s (_ & A); exact A|].
  split; [exact CH|]. split; [exact LN|]. split; [exact MT|]. split; [exact ST|exact RN].
Qed.

(* what the two final verdicts say in the rules' terms: no count-based draw is in force and the
   side to move is checkmated / stalemated by the rules *)
Lemma ending_is_checkmate : forall g, ending_is g (Some Checkmate) ->
  top (seen_stack (gboard g)) <> REPETITION_DRAW_COUNT
  /\ top (hm_stack (gboard g)) < HALFMOVE_DRAW_THRESHOLD
  /\ is_checkmate (abstract (gboard g)) (turn (gboard g)) = true.
Proof.
  intros g [[E _]|(Ns & Lc & E)]; [discriminate E|].
  split; [exact Ns|]. split; [exact Lc|].
  destruct (is_checkmate (abstract (gboard g)) (turn (gboard g))); [reflexivity|].
  destruct (is_stalemate (abstract (gboard g)) (turn (gboard g))); discriminate E.
Qed.

Lemma ending_is_stalemate : forall g, ending_is g (Some Stalemate) ->
  top (seen_stack (gboard g)) <> REPETITION_DRAW_COUNT
  /\ top (hm_stack (gboard g)) < HALFMOVE_DRAW_THRESHOLD
  /\ is_checkmate (abstract (gboard g)) (turn (gboard g)) = false
  /\ is_stalemate (abstract (gboard g)) (turn (gboard g)) = true.
Proof.
  intros g [[E _]|(Ns & Lc & E)]; [discriminate E|].
  split; [exact Ns|]. split; [exact Lc|].
  destruct (is_checkmate (abstract (gboard g)) (turn (gboard g))); [discriminate E|].
  split; [reflexivity|].
  destruct (is_stalemate (abstract (gboard g)) (turn (gboard g))); [reflexivity|discriminate E].
Qed.

(* the clauses read most often, separately *)
Corollary play_run_never_crashes : forall player g events,
  1 <= gdepth g ->
  SoundW (depth_of g) (gboard g) ->
  hd 0 (hm_stack (gboard g)) + N.of_nat (length events) + N.of_nat (depth_of g) < U8_MAX ->
  fullmove (gboard g) + N.of_nat (length events) + N.of_nat (depth_of g) < FULLMOVE_MAX ->
  snd (play_run player g events) <> PCrash.
Proof.
  intros player g events L Hs Hh Hf.
  destruct (play_run player g events) as [steps w] eqn:E. cbn [snd].
  apply (play_run_spec player g events steps w L Hs Hh Hf E).
Qed.

(* the chain, read as a list of facts about consecutive states *)
Lemma play_chain_nth : forall player g events steps, play_chain player g events steps ->
  forall i g' out, nth_error steps i = Some (g', out) ->
    exists prev raw choice,
      nth_error (g :: map fst steps) i = Some prev
      /\ nth_error events i = Some (raw, choice)
      /\ play_step player prev raw choice = Some (g', out)
      /\ play_clause player prev raw g' out.
Proof.
  intros player g events steps CH.
  induction CH as [g evs|g raw choice rest g0 out0 steps Es C CH IH]; intros i g' out E.
  - destruct i; discriminate E.
  - destruct i as [|j].
    + cbn [nth_error] in E. inversion E; subst g0 out0.
      exists g, raw, choice. cbn [nth_error]. auto.
    + cbn [nth_error] in E. destruct (IH j g' out E) as (prev & raw' & ch' & Ep & Ee & R).
      exists prev, raw', ch'. split; [cbn [map fst nth_error]; exact Ep|].
      split; [cbn [nth_error]; exact Ee|exact R].
Qed.

End PlayP.

(* ================================================================================== *)
(** * 4. non-vacuity                                                                    *)
(* ================================================================================== *)

Definition play_start : game := {| gboard := UndoProofs.start_b; ghist := []; gdepth := 1 |}.

Open Scope string_scope.

Definition play_events : list (string * nat) := [("e4", 0%nat); ("", 0%nat); ("zz", 0%nat); ("Nf3", 0%nat)].

(* the hypotheses of play_run_spec hold of the standard starting game at depth 1, for these events *)
Example play_start_hyps :
  1 <= gdepth play_start
  /\ SoundW example_table rook_ref bishop_ref (N.to_nat (gdepth play_start)) (gboard play_start)
  /\ hd 0 (hm_stack (gboard play_start)) + N.of_nat (length play_events)
     + N.of_nat (N.to_nat (gdepth play_start)) < U8_MAX
  /\ fullmove (gboard play_start) + N.of_nat (length play_events)
     + N.of_nat (N.to_nat (gdepth play_start)) < FULLMOVE_MAX.
Proof.
  split; [vm_compute; discriminate|].
  split; [apply soundWb_spec; vm_compute; reflexivity|].
  split; vm_compute; reflexivity.
Qed.

Definition out_tag (o : play_out) : nat :=
  match o with
  | HumanPlayed _ => 0 | HumanRefused => 1 | HumanUnparsed => 2 | EnginePlayed _ => 3 | EngineError => 4
  end%nat.

(* the human (White) plays e4, the engine answers, "zz" is not a move, Nf3 is played: four passes,
   three moves in the history, and the events ran out *)
Example play_start_run :
  let r := play_run example_table rook_ref bishop_ref White play_start play_events in
  (map (fun s => out_tag (snd s)) (fst r), snd r, map (fun s => length (ghist (fst s))) (fst r))
  = ([0; 3; 2; 0]%nat, PRunning, [1; 2; 2; 3]%nat).
Proof. vm_compute. reflexivity. Qed.

Print Assumptions play_step_spec.
Print Assumptions play_step_never_crashes.
Print Assumptions play_step_spec_cases.
Print Assumptions play_step_accepts_iff.
Print Assumptions play_step_unparsed_iff.
Print Assumptions play_step_engine_iff.
Print Assumptions play_step_inv.
Print Assumptions play_run_spec.
Print Assumptions play_run_never_crashes.
Print Assumptions play_chain_nth.
Print Assumptions play_start_hyps.
Print Assumptions play_start_run.
