(* Moves.v — apply/undo of the four move kinds (src/chess_move/*.rs), same order of
   board operations as the Rust code.  Executable definitions only. *)
From ChessV Require Export Board.

Section WithTable.
Variable T : ztable.

Definition A1 : N := 0.  Definition B1 : N := 1.  Definition C1 : N := 2.  Definition D1 : N := 3.
Definition E1 : N := 4.  Definition F1 : N := 5.  Definition G1 : N := 6.  Definition H1 : N := 7.
Definition A8 : N := 56. Definition B8 : N := 57. Definition C8 : N := 58. Definition D8 : N := 59.
Definition E8 : N := 60. Definition F8 : N := 61. Definition G8 : N := 62. Definition H8 : N := 63.

(* get_en_passant_target_square: a Bitboard (0 = none) *)
Definition ep_target_of (p : piece) (c : color) (from to : N) : N :=
  match p with
  | Pawn =>
      match c with
      | White => if mem from RANK_2 && mem to RANK_4 then shl (bit from) 8 else 0
      | Black => if mem from RANK_7 && mem to RANK_5 then shr (bit from) 8 else 0
      end
  | _ => 0
  end.

Definition lost_if_moved (p : piece) (c : color) (from : N) : N :=
  match p, c with
  | Rook, White => if from =? A1 then WQ else if from =? H1 then WK else 0
  | Rook, Black => if from =? A8 then BQ else if from =? H8 then BK else 0
  | King, White => if from =? E1 then N.lor WK WQ else 0
  | King, Black => if from =? E8 then N.lor BK BQ else 0
  | _, _ => 0
  end.

Definition lost_if_taken (captured : option (piece * color)) (to : N) : N :=
  match captured with
  | Some (Rook, White) => if to =? A1 then WQ else if to =? H1 then WK else 0
  | Some (Rook, Black) => if to =? A8 then BQ else if to =? H8 then BK else 0
  | _ => 0
  end.

(* StandardChessMove::apply (after the D2 repair: pawn moves reset the half-move clock) *)
Definition apply_std (b : board) (from to : N) (cap : option piece) : res board :=
  match bremove T b from with
  | None => Err FromSquareEmpty
  | Some ((p, c), b1) =>
      let '(captured, b2) :=
        match bremove T b1 to with
        | None => (None, b1)
        | Some (pc, b2) => (Some pc, b2)
        end in
      if negb (opt_pc_eqb captured (option_map (fun cp => (cp, opp_c c)) cap)) then Err UnexpectedCapture
      else
        let ept := ep_target_of p c from to in
        let lost := N.lor (lost_if_moved p c from) (lost_if_taken captured to) in
        let* b3 := (match captured with
                    | Some _ => Ok (reset_halfmove b2)
                    | None => if piece_eqb p Pawn then Ok (reset_halfmove b2) else inc_halfmove b2
                    end) in
        let* b4 := inc_fullmove b3 in
        let* b5 := push_ep T b4 ept in
        let* b6 := lose_rights T b5 lost in
        unwrap (put T b6 to p c)
  end.

(* StandardChessMove::undo *)
Definition undo_std (b : board) (from to : N) (cap : option piece) : res board :=
  match bremove T b to with
  | None => Err ToSquareEmptyUndo
  | Some ((p, c), b1) =>
      let* b2 := (match cap with
                  | Some cp => put T b1 to cp (opp_c c)
                  | None => Ok b1
                  end) in
      let* b3 := pop_halfmove b2 in
      let* b4 := dec_fullmove b3 in
      let* (_, b5) := pop_ep T b4 in
      let* b6 := pop_rights T b5 in
      unwrap (put T b6 from p c)
  end.

(* PawnPromotionChessMove::apply / undo *)
Definition apply_promo (b : board) (from to : N) (cap : option piece) (pp : piece) : res board :=
  let* b1 := apply_std b from to cap in
  match bremove T b1 to with
  | Some ((Pawn, c), b2) => put T b2 to pp c
  | _ => Err PromotionNonPawn
  end.

Definition undo_promo (b : board) (from to : N) (cap : option piece) (pp : piece) : res board :=
  match bremove T b to with
  | Some ((p, c), b1) =>
      if piece_eqb p pp then
        let* b2 := put T b1 to Pawn c in
        undo_std b2 from to cap
      else Err PromotionNonPawn
  | None => Err PromotionNonPawn
  end.

(* EnPassantChessMove::apply / undo *)
Definition ep_captured_square (c : color) (to : N) : N :=
  (* `to_square >> 8` / `<< 8` as a square index; 64 when the shift drops the bit *)
  match c with
  | White => if to <? 8 then 64 else to - 8
  | Black => if 56 <=? to then 64 else to + 8
  end.

Definition apply_ep (b : board) (from to : N) : res board :=
  match bremove T b from with
  | None => Err FromSquareEmpty
  | Some ((p, c), b1) =>
      if negb (piece_eqb p Pawn) then Err EpNonPawnApply
      else
        match bremove T b1 (ep_captured_square c to) with
        | None => Err EpNoCapture
        | Some (_, b2) =>
            let b3 := reset_halfmove b2 in
            let* b4 := inc_fullmove b3 in
            let* b5 := push_ep T b4 0 in
            let* b6 := preserve_rights b5 in
            put T b6 to p c
        end
  end.

Definition undo_ep (b : board) (from to : N) : res board :=
  match bremove T b to with
  | None => Err ToSquareEmptyUndo
  | Some ((p, c), b1) =>
      if negb (piece_eqb p Pawn) then Err EpNonPawnUndo
      else
        let* b2 := unwrap (put T b1 from p c) in
        let* b3 := pop_halfmove b2 in
        let* b4 := dec_fullmove b3 in
        let* (_, b5) := pop_ep T b4 in
        let* b6 := pop_rights T b5 in
        put T b6 (ep_captured_square c to) Pawn (opp_c c)
  end.

(* CastleChessMove::apply / undo *)
Definition castle_shape (from to : N) : res (color * N * N) :=   (* colour, rook_from, rook_to *)
  let kingside :=
    if bit to =? shl (bit from) 2 then Some true
    else if bit to =? shr (bit from) 2 then Some false
    else None in
  match kingside with
  | None => Err InvalidCastleMove
  | Some ks =>
      match mem from RANK_1, mem from RANK_8 with
      | true, false => Ok (White, (if ks then H1 else A1), (if ks then F1 else D1))
      | false, true => Ok (Black, (if ks then H8 else A8), (if ks then F8 else D8))
      | _, _ => Err InvalidCastleMove
      end
  end.

Definition is_none {A} (o : option A) : bool := match o with None => true | Some _ => false end.

Definition remove_unwrap (b : board) (i : N) : res board :=
  match bremove T b i with Some (_, b') => Ok b' | None => Panic end.

Definition apply_castle (b : board) (from to : N) : res board :=
  let* (c, rf, rt) := castle_shape from to in
  if negb (opt_pc_eqb (bget b from) (Some (King, c))) then Err InvalidCastleState
  else if negb (is_none (bget b to)) then Err InvalidCastleState
  else if negb (opt_pc_eqb (bget b rf) (Some (Rook, c))) then Err InvalidCastleState
  else if negb (is_none (bget b rt)) then Err InvalidCastleState
  else
    let* b1 := remove_unwrap b from in
    let* b2 := unwrap (put T b1 to King c) in
    let* b3 := remove_unwrap b2 rf in
    let* b4 := unwrap (put T b3 rt Rook c) in
    let lost := match c with White => N.lor WK WQ | Black => N.lor BK BQ end in
    let* b5 := inc_halfmove b4 in
    let* b6 := inc_fullmove b5 in
    let* b7 := push_ep T b6 0 in
    lose_rights T b7 lost.

Definition undo_castle (b : board) (from to : N) : res board :=
  let* (c, rf, rt) := castle_shape from to in
  if negb (opt_pc_eqb (bget b to) (Some (King, c))) then Err InvalidCastleState
  else if negb (is_none (bget b from)) then Err InvalidCastleState
  else if negb (opt_pc_eqb (bget b rt) (Some (Rook, c))) then Err InvalidCastleState
  else if negb (is_none (bget b rf)) then Err InvalidCastleState
  else
    let* b1 := remove_unwrap b to in
    let* b2 := unwrap (put T b1 from King c) in
    let* b3 := remove_unwrap b2 rt in
    let* b4 := unwrap (put T b3 rf Rook c) in
    let* b5 := dec_fullmove b4 in
    let* b6 := pop_halfmove b5 in
    let* (_, b7) := pop_ep T b6 in
    pop_rights T b7.

Definition apply_move (m : cmove) (b : board) : res board :=
  match m with
  | Std f t c => apply_std b f t c
  | Promo f t c p => apply_promo b f t c p
  | EnPassant f t => apply_ep b f t
  | Castle f t => apply_castle b f t
  end.

Definition undo_move (m : cmove) (b : board) : res board :=
  match m with
  | Std f t c => undo_std b f t c
  | Promo f t c p => undo_promo b f t c p
  | EnPassant f t => undo_ep b f t
  | Castle f t => undo_castle b f t
  end.

End WithTable.
