(* CounterProofs.v — property C16:
   "The half-move clock always equals the number of plies since the last capture or pawn
    move, the move counter advances by exactly one per move made and retreats by one per
    undo, and neither wraps or aborts however long the game.  The game is reported drawn on
    move count exactly when the half-move clock has reached 100 (fifty moves by each side),
    never earlier."
   Proofs about Moves.apply_move / undo_move (model of src/chess_move/*.rs),
   Board.inc_fullmove / inc_halfmove / ... (src/board/move_info.rs), Eval.game_ending
   (src/evaluate/mod.rs), against the clock rule of Rules.successor. *)
From Coq Require Import Lia.
From ChessV Require Import Eval Abs CountFrame.
From ChessV Require Rules.

Arguments N.add : simpl never.
Arguments N.sub : simpl never.
Arguments N.mul : simpl never.
Arguments N.eqb : simpl never.
Arguments N.ltb : simpl never.
Arguments N.leb : simpl never.
Arguments N.shiftl : simpl never.
Arguments N.shiftr : simpl never.
Arguments N.land : simpl never.
Arguments N.lor : simpl never.
Arguments N.lxor : simpl never.
Arguments N.ldiff : simpl never.
Arguments N.testbit : simpl never.

(* ------------------------------------------------------------------------------------ *)
(* 1. one move applied / undone                                                         *)
(* ------------------------------------------------------------------------------------ *)

(* [resets b m]: does playing m on b reset the half-move clock?  The mover (the piece on the
   origin square) is a pawn, or the move is a capture.  "Is a capture" is read off the
   move's capture field; [apply_captures_from_board] below shows that whenever the
   application succeeds this field agrees with what is found on the board. *)
Definition resets (b : board) (m : cmove) : bool := mv_resets (bget b (mv_from m)) m.

(* the capture as the board sees it *)
Definition board_captures (b : board) (m : cmove) : bool :=
  match m with
  | Std _ t _ | Promo _ t _ _ => is_some (bget b t)
  | EnPassant _ _ => true
  | Castle _ _ => false
  end.
Definition resets_board (b : board) (m : cmove) : bool :=
  mover_is_pawn (bget b (mv_from m)) || board_captures b m.

Section WithTable.
Variable T : ztable.

Theorem apply_clocks m b b' :
  apply_move T m b = Ok b' ->
  fullmove b' = fullmove b + 1 /\
  hm_stack b' = (if resets b m then 0 else top (hm_stack b) + 1) :: hm_stack b.
Proof.
  intro H. destruct (apply_move_ctr T _ _ _ H) as (p & c & _ & C & _).
  unfold ctr in C. inversion C. split; [reflexivity|assumption].
Qed.

(* what success of apply_move says about the counters beforehand: they were not at their
   type's maximum, and a non-resetting move found a clock to increment *)
Theorem apply_clocks_pre m b b' :
  apply_move T m b = Ok b' ->
  fullmove b <> FULLMOVE_MAX /\
  (resets b m = false -> hm_stack b <> [] /\ top (hm_stack b) <> U8_MAX).
Proof.
  intro H. destruct (apply_move_ctr T _ _ _ H) as (p & c & _ & _ & F & R). split; assumption.
Qed.

Corollary apply_halfmove m b b' :
  apply_move T m b = Ok b' ->
  halfmove b' = Ok (if resets b m then 0 else top (hm_stack b) + 1).
Proof. intro H. apply apply_clocks in H. destruct H as [_ H]. unfold halfmove. rewrite H. reflexivity. Qed.

Theorem undo_clocks m b' b :
  undo_move T m b' = Ok b ->
  fullmove b = fullmove b' - 1 /\ hm_stack b = tl (hm_stack b') /\
  0 < fullmove b' /\ hm_stack b' <> [].
Proof.
  intro H. destruct (undo_move_ctr T _ _ _ H) as (C & F & N1).
  unfold ctr in C. inversion C. repeat split; try assumption. lia.
Qed.

(* undo after apply restores both counters exactly *)
Corollary apply_undo_clocks m b b1 b2 :
  apply_move T m b = Ok b1 -> undo_move T m b1 = Ok b2 ->
  fullmove b2 = fullmove b /\ hm_stack b2 = hm_stack b.
Proof.
  intros H1 H2. apply apply_clocks in H1. apply undo_clocks in H2.
  destruct H1 as [F1 S1]. destruct H2 as (F2 & S2 & _ & _).
  rewrite F2, S2, F1, S1. split; [lia|reflexivity].
Qed.

(* ---- the capture field agrees with the board (from <> to) ---- *)
Lemma mem_lxor_bit_other t f x : t <> f -> mem t (N.lxor x (bit f)) = mem t x.
Proof.
  intro Hn. unfold mem, bit. rewrite N.lxor_spec, N.shiftl_1_l, N.pow2_bits_eqb.
  destruct (N.eqb_spec f t) as [->|_]; [contradiction|]. apply xorb_false_r.
Qed.

Lemma bget_upd_other b c p g t :
  (forall x, mem t (g x) = mem t x) ->
  bget (set_pieces b c (upd (pieces b c) p g)) t = bget b t.
Proof.
  intro Hg. destruct c, p; unfold bget, pget;
  cbn [set_pieces set_white set_black pieces upd white black occ pw kn bi rk qn kg];
  rewrite ?Hg; reflexivity.
Qed.

Lemma bremove_other b f pc b1 t :
  bremove T b f = Some (pc, b1) -> t <> f -> bget b1 t = bget b t.
Proof.
  unfold bremove. destruct (bget b f) as [[p c]|]; [|discriminate].
  unfold premove. destruct (pget (pieces b c) f) as [q|]; [|discriminate].
  intros H Hn. inversion H; subst.
  change (bget (toggle_piece T ?x f p c) t) with (bget x t).
  apply bget_upd_other. intro x. apply mem_lxor_bit_other. assumption.
Qed.

Lemma bremove_none_iff b i : bremove T b i = None <-> bget b i = None.
Proof.
  unfold bremove. destruct (bget b i) as [[p c]|] eqn:G; [|tauto].
  split; [|discriminate]. unfold premove.
  assert (P : pget (pieces b c) i = Some p).
  { unfold bget in G. destruct (mem i (occ (white b))).
    - destruct (pget (white b) i) eqn:Q; cbn in G; inversion G; subst. assumption.
    - destruct (mem i (occ (black b))); [|discriminate G].
      destruct (pget (black b) i) eqn:Q; cbn in G; inversion G; subst. assumption. }
  rewrite P. discriminate.
Qed.

Lemma apply_std_capture b f t cap b' :
  apply_std T b f t cap = Ok b' -> f <> t -> is_some cap = is_some (bget b t).
Proof.
  unfold apply_std. destruct (bremove T b f) as [[[p c] b1]|] eqn:Eq1; [|discriminate].
  intros H Hn.
  assert (G : bget b1 t = bget b t) by (eapply bremove_other; [eassumption|congruence]).
  destruct (bremove T b1 t) as [[pc b2]|] eqn:Eq2.
  - destruct (bremove_ctr T _ _ _ _ Eq2) as [_ G2]. rewrite <- G, G2.
    destruct cap as [cp|]; [reflexivity|]. cbn in H. discriminate H.
  - apply bremove_none_iff in Eq2. rewrite <- G, Eq2.
    destruct cap as [cp|]; [|reflexivity]. cbn in H. discriminate H.
Qed.

Theorem apply_captures_from_board m b b' :
  apply_move T m b = Ok b' -> mv_from m <> mv_to m ->
  is_some (mv_captures m) = board_captures b m.
Proof.
  destruct m as [f t cap|f t cap pp|f t|f t]; cbn [apply_move mv_from mv_to mv_captures board_captures];
  intros H Hn; try reflexivity.
  - eapply apply_std_capture; eassumption.
  - unfold apply_promo in H. destruct (apply_std T b f t cap) as [b1| |] eqn:Eq1; try discriminate H.
    eapply apply_std_capture; eassumption.
Qed.

(* the statement of [apply_clocks] with the capture read off the board *)
Corollary apply_clocks_board m b b' :
  apply_move T m b = Ok b' -> mv_from m <> mv_to m ->
  fullmove b' = fullmove b + 1 /\
  hm_stack b' = (if resets_board b m then 0 else top (hm_stack b) + 1) :: hm_stack b.
Proof.
  intros H Hn. unfold resets_board. rewrite <- (apply_captures_from_board _ _ _ H Hn).
  exact (apply_clocks _ _ _ H).
Qed.

End WithTable.

(* ------------------------------------------------------------------------------------ *)
(* 2. agreement with the clock rule of the rules spec (Rules.successor)                 *)
(* ------------------------------------------------------------------------------------ *)

Lemma nth_squares (n : nat) : (n < 64)%nat -> nth n squares 0 = N.of_nat n.
Proof.
  intro H. do 64 (destruct n as [|n]; [reflexivity|]). lia.
Qed.

Lemma at_abstract b i : i < 64 -> Rules.at_ (abstract b) i = bget b i.
Proof.
  intro H. unfold Rules.at_, abstract; cbn [Rules.cells].
  assert (L : (N.to_nat i < 64)%nat) by lia.
  rewrite (nth_indep (map (bget b) squares) None (bget b 0)) by (rewrite map_length; exact L).
  rewrite map_nth. rewrite nth_squares by exact L. rewrite N2Nat.id. reflexivity.
Qed.

(* the spec's reset condition, as Rules.successor computes it *)
Definition spec_resets (p : Rules.position) (m : cmove) : bool :=
  (match Rules.at_ p (mv_from m) with Some (Pawn, _) => true | _ => false end)
  || (match mv_captures m with Some _ => true | None => false end).

Lemma successor_phalf p m :
  Rules.phalf (Rules.successor p m) = if spec_resets p m then 0 else Rules.phalf p + 1.
Proof. reflexivity. Qed.
Lemma successor_pfull p m : Rules.pfull (Rules.successor p m) = Rules.pfull p + 1.
Proof. reflexivity. Qed.

Lemma spec_resets_abstract b m : mv_from m < 64 -> spec_resets (abstract b) m = resets b m.
Proof.
  intro H. unfold spec_resets, resets, mv_resets, mover_is_pawn, is_some.
  rewrite at_abstract by exact H. reflexivity.
Qed.

Section WithTable2.
Variable T : ztable.

(* one engine move = one application of the spec's clock rule *)
Theorem apply_abs_clocks m b b' :
  apply_move T m b = Ok b' -> mv_from m < 64 ->
  Rules.phalf (abstract b') = Rules.phalf (Rules.successor (abstract b) m) /\
  Rules.pfull (abstract b') = Rules.pfull (Rules.successor (abstract b) m).
Proof.
  intros H Hf. rewrite successor_phalf, successor_pfull, spec_resets_abstract by exact Hf.
  apply apply_clocks in H. destruct H as [F S].
  unfold abstract; cbn [Rules.phalf Rules.pfull]. rewrite S, F. split; reflexivity.
Qed.

(* the side-to-move flip that the callers perform does not touch the counters *)
Lemma toggle_turn_clocks b :
  fullmove (toggle_turn b) = fullmove b /\ hm_stack (toggle_turn b) = hm_stack b.
Proof. split; reflexivity. Qed.

Corollary apply_abs_clocks_turn m b b' :
  apply_move T m b = Ok b' -> mv_from m < 64 ->
  Rules.phalf (abstract (toggle_turn b')) = Rules.phalf (Rules.succ_turn (abstract b) m) /\
  Rules.pfull (abstract (toggle_turn b')) = Rules.pfull (Rules.succ_turn (abstract b) m).
Proof. intros H Hf. exact (apply_abs_clocks _ _ _ H Hf). Qed.

(* ------------------------------------------------------------------------------------ *)
(* 3. whole games                                                                       *)
(* ------------------------------------------------------------------------------------ *)

(* the game loop: apply the move, flip the side to move *)
Fixpoint play (ms : list cmove) (b : board) : res board :=
  match ms with
  | [] => Ok b
  | m :: rest => let* b1 := apply_move T m b in play rest (toggle_turn b1)
  end.

(* for each ply, whether THE SPEC (Rules.successor on the abstraction of the board reached)
   says the clock is reset: the mover is a pawn or the move is a capture *)
Fixpoint reset_flags (ms : list cmove) (b : board) : list bool :=
  match ms with
  | [] => []
  | m :: rest =>
      spec_resets (abstract b) m ::
      match apply_move T m b with
      | Ok b1 => reset_flags rest (toggle_turn b1)
      | _ => []
      end
  end.

(* "the number of plies since the last capture or pawn move": flags most recent first;
   [h0] is the clock the game started from, which still counts if nothing reset it *)
Fixpoint since_last (recent_first : list bool) (h0 : N) : N :=
  match recent_first with
  | [] => h0
  | true :: _ => 0
  | false :: older => since_last older h0 + 1
  end.

(* the same number, computed oldest first, one ply at a time *)
Definition clock_step (h : N) (r : bool) : N := if r then 0 else h + 1.

Lemma since_last_snoc l r h0 : since_last (rev (l ++ [r])) h0 = clock_step (since_last (rev l) h0) r.
Proof. rewrite rev_app_distr. cbn [rev app since_last]. destruct r; reflexivity. Qed.

Lemma since_last_fold l h0 : since_last (rev l) h0 = fold_left clock_step l h0.
Proof.
  revert h0. induction l as [|r l IH] using rev_ind; intro h0; [reflexivity|].
  rewrite since_last_snoc, fold_left_app. cbn [fold_left]. rewrite IH. reflexivity.
Qed.

(* since_last really is a count: the length of the run of non-resetting plies at the recent
   end, plus the starting clock when no ply reset it *)
Fixpoint run_length (recent_first : list bool) : nat :=
  match recent_first with
  | false :: older => S (run_length older)
  | _ => O
  end.
Lemma since_last_count l h0 :
  since_last l h0 = N.of_nat (run_length l) + (if existsb (fun r => r) l then 0 else h0).
Proof.
  induction l as [|r l IH]; cbn [since_last run_length existsb].
  - cbn. lia.
  - destruct r; cbn [orb]; [cbn; lia|]. rewrite IH. lia.
Qed.

Lemma play_app ms1 ms2 b :
  play (ms1 ++ ms2) b = let* b1 := play ms1 b in play ms2 b1.
Proof.
  revert b. induction ms1 as [|m ms1 IH]; intro b; cbn [app play bind]; [reflexivity|].
  destruct (apply_move T m b) as [b1|e|]; cbn [bind]; [apply IH|reflexivity|reflexivity].
Qed.

Theorem clocks_faithful ms : forall b b',
  play ms b = Ok b' ->
  Forall (fun m => mv_from m < 64) ms ->
  fullmove b' = fullmove b + N.of_nat (length ms) /\
  top (hm_stack b') = since_last (rev (reset_flags ms b)) (top (hm_stack b)) /\
  length (hm_stack b') = (length (hm_stack b) + length ms)%nat.
Proof.
  induction ms as [|m ms IH]; intros b b' H HF.
  - cbn in H. inversion H; subst. cbn [length reset_flags rev since_last]. repeat split; lia.
  - cbn [play] in H. destruct (apply_move T m b) as [b1|e|] eqn:Eq1; cbn [bind] in H; try discriminate H.
    inversion HF as [|m' ms' Hm HF']; subst.
    destruct (IH _ _ H HF') as (F & S & L).
    destruct (apply_clocks _ _ _ _ Eq1) as [F1 S1].
    change (fullmove (toggle_turn b1)) with (fullmove b1) in F.
    change (hm_stack (toggle_turn b1)) with (hm_stack b1) in S, L.
    split; [cbn [length]; lia|]. split.
    + rewrite S. cbn [reset_flags]. rewrite Eq1.
      rewrite !since_last_fold. cbn [fold_left]. f_equal.
      rewrite S1. rewrite spec_resets_abstract by exact Hm. reflexivity.
    + rewrite L, S1. cbn [length]. lia.
Qed.

(* the same, phrased on the abstract position: the spec's clock rule folded over the game *)
Theorem play_spec_fold ms : forall b b',
  play ms b = Ok b' ->
  Forall (fun m => mv_from m < 64) ms ->
  Rules.phalf (abstract b') = fold_left clock_step (reset_flags ms b) (Rules.phalf (abstract b)) /\
  Rules.pfull (abstract b') = fold_left (fun n _ => n + 1) ms (Rules.pfull (abstract b)).
Proof.
  intros b b' H HF. destruct (clocks_faithful _ _ _ H HF) as (F & S & _).
  unfold abstract; cbn [Rules.phalf Rules.pfull]. split.
  - rewrite S. apply since_last_fold.
  - rewrite F. clear. generalize (fullmove b). induction ms as [|m ms IH]; intro n; cbn [length fold_left].
    + lia.
    + rewrite <- IH. lia.
Qed.

End WithTable2.

(* ------------------------------------------------------------------------------------ *)
(* 4. the draw on move count                                                            *)
(* ------------------------------------------------------------------------------------ *)

(* tied to the constants the translator extracted from src/evaluate/mod.rs: a change there
   breaks these two lemmas *)
Lemma HALFMOVE_DRAW_THRESHOLD_is_100 : HALFMOVE_DRAW_THRESHOLD = 100.
Proof. reflexivity. Qed.
Lemma REPETITION_DRAW_COUNT_is_3 : REPETITION_DRAW_COUNT = 3.
Proof. reflexivity. Qed.

Section WithGen.
Variable T : ztable.
Variables rook_t bishop_t : N -> N -> N.

(* the part of game_ending after the two draw tests *)
Definition mate_branch (b : board) (c : color) : res (option ending * board) :=
  let* (cands, b1) := gen_moves T rook_t bishop_t b c in
  let chk := in_check rook_t bishop_t b1 (turn b1) in
  if is_nil cands then Ok (Some (if chk then Checkmate else Stalemate), b1)
  else Ok (None, b1).

Lemma mate_branch_not_draw b c b1 : mate_branch b c <> Ok (Some Draw, b1).
Proof.
  unfold mate_branch. destruct (gen_moves T rook_t bishop_t b c) as [[cands b2]|e|]; cbn [bind]; try discriminate.
  destruct (is_nil cands); [|discriminate].
  destruct (in_check rook_t bishop_t b2 (turn b2)); discriminate.
Qed.

Theorem draw_iff_100 b c s h :
  max_seen b = Ok s -> s <> REPETITION_DRAW_COUNT -> halfmove b = Ok h ->
  (100 <= h -> game_ending T rook_t bishop_t b c = Ok (Some Draw, b)) /\
  (h < 100 -> game_ending T rook_t bishop_t b c = mate_branch b c
              /\ forall b1, game_ending T rook_t bishop_t b c <> Ok (Some Draw, b1)).
Proof.
  intros Hs Hne Hh. unfold game_ending. rewrite Hs; cbn [bind].
  apply N.eqb_neq in Hne. rewrite Hne. rewrite Hh; cbn [bind].
  rewrite HALFMOVE_DRAW_THRESHOLD_is_100. split; intro Hc.
  - apply N.leb_le in Hc. rewrite Hc. reflexivity.
  - apply N.leb_gt in Hc. rewrite Hc. split; [reflexivity|].
    intro b1. apply mate_branch_not_draw.
Qed.

(* "exactly when ... never earlier", as one equivalence *)
Corollary draw_on_clock_iff b c s h :
  max_seen b = Ok s -> s <> REPETITION_DRAW_COUNT -> halfmove b = Ok h ->
  ((exists b1, game_ending T rook_t bishop_t b c = Ok (Some Draw, b1)) <-> 100 <= h).
Proof.
  intros Hs Hne Hh. destruct (draw_iff_100 b c s h Hs Hne Hh) as [D1 D2]. split.
  - intros [b1 H]. destruct (N.le_gt_cases 100 h) as [L|L]; [assumption|].
    destruct (D2 L) as [_ D]. exfalso. exact (D b1 H).
  - intro L. exists b. apply D1. assumption.
Qed.

(* with the clock read off a game: drawn on move count iff at least 100 plies have passed
   since the last capture or pawn move *)
Corollary draw_after_play ms b b' c s :
  play T ms b = Ok b' -> Forall (fun m => mv_from m < 64) ms -> hm_stack b <> [] ->
  max_seen b' = Ok s -> s <> REPETITION_DRAW_COUNT ->
  ((exists b1, game_ending T rook_t bishop_t b' c = Ok (Some Draw, b1))
   <-> 100 <= since_last (rev (reset_flags T ms b)) (top (hm_stack b))).
Proof.
  intros H HF Hne Hs Hs3. destruct (clocks_faithful T _ _ _ H HF) as (_ & S & L).
  rewrite <- S. apply (draw_on_clock_iff b' c s); try assumption.
  unfold halfmove, top. destruct (hm_stack b') as [|x r]; [|reflexivity].
  destruct (hm_stack b); [contradiction|cbn [length] in L; lia].
Qed.

(* a game that is not over on move count can always take one more non-resetting move:
   the u8 clock is below 100, far from 255 *)
Corollary clock_below_255_unless_drawn b c s h e b1 :
  max_seen b = Ok s -> s <> REPETITION_DRAW_COUNT -> halfmove b = Ok h ->
  game_ending T rook_t bishop_t b c = Ok (e, b1) -> e <> Some Draw ->
  h < 100 /\ exists b2, inc_halfmove b = Ok b2.
Proof.
  intros Hs Hne Hh He Hd.
  assert (L : h < 100).
  { destruct (N.le_gt_cases 100 h) as [L|L]; [|assumption].
    destruct (draw_iff_100 b c s h Hs Hne Hh) as [D1 _]. rewrite (D1 L) in He.
    inversion He; subst. contradiction. }
  split; [assumption|]. unfold inc_halfmove. rewrite Hh; cbn [bind].
  assert (E : (h =? U8_MAX) = false) by (apply N.eqb_neq; unfold U8_MAX; lia).
  rewrite E. eexists; reflexivity.
Qed.

End WithGen.

(* ------------------------------------------------------------------------------------ *)
(* 5. Examples: the hypotheses are satisfiable, on the starting position                 *)
(* ------------------------------------------------------------------------------------ *)
Ltac vm_conj :=
  repeat (lazymatch goal with |- _ /\ _ => split; [vm_compute; reflexivity|] end);
  vm_compute; reflexivity.

Definition ok_or (d : board) (r : res board) : board := match r with Ok b => b | _ => d end.

Definition ex_b0 : board := start_board zero_table.
Definition ex_Nf3 : cmove := Std 6 21 None.     (* g1-f3 *)
Definition ex_e5 : cmove := Std 52 36 None.     (* e7-e5 *)
Definition ex_Nf6 : cmove := Std 62 45 None.    (* g8-f6 *)
Definition ex_b1 : board := ok_or board_new (apply_move zero_table ex_Nf3 ex_b0).
Definition ex_b2 : board := ok_or board_new (apply_move zero_table ex_e5 (toggle_turn ex_b1)).

(* 1.Nf3 e5: the clock reads 0, 1, 0 and the move counter 1, 2, 3 *)
Example ex_clock_0_1_0 :
  apply_move zero_table ex_Nf3 ex_b0 = Ok ex_b1 /\
  apply_move zero_table ex_e5 (toggle_turn ex_b1) = Ok ex_b2 /\
  (hm_stack ex_b0, fullmove ex_b0) = ([0], 1) /\
  (hm_stack ex_b1, fullmove ex_b1) = ([1; 0], 2) /\
  (hm_stack ex_b2, fullmove ex_b2) = ([0; 1; 0], 3) /\
  resets ex_b0 ex_Nf3 = false /\ resets (toggle_turn ex_b1) ex_e5 = true.
Proof. vm_conj. Qed.

(* hypotheses of apply_clocks / undo_clocks / apply_undo_clocks *)
Example ex_apply_undo :
  apply_move zero_table ex_Nf3 ex_b0 = Ok ex_b1 /\
  (exists b2, undo_move zero_table ex_Nf3 ex_b1 = Ok b2 /\ (hm_stack b2, fullmove b2) = ([0], 1)).
Proof.
  split; [vm_compute; reflexivity|].
  exists (ok_or board_new (undo_move zero_table ex_Nf3 ex_b1)). vm_conj.
Qed.

(* hypotheses of clocks_faithful / play_spec_fold / draw_after_play: 1.Nf3 Nf6 *)
Example ex_play :
  exists b', play zero_table [ex_Nf3; ex_Nf6] ex_b0 = Ok b' /\
    reset_flags zero_table [ex_Nf3; ex_Nf6] ex_b0 = [false; false] /\
    top (hm_stack b') = 2 /\ fullmove b' = 3 /\ max_seen b' = Ok 1.
Proof. exists (ok_or board_new (play zero_table [ex_Nf3; ex_Nf6] ex_b0)). vm_conj. Qed.
Example ex_play_squares : Forall (fun m => mv_from m < 64) [ex_Nf3; ex_Nf6].
Proof. repeat constructor. Qed.

(* why apply_captures_from_board needs from <> to: the null move g1-g1 is accepted by
   StandardChessMove::apply, finds g1 occupied beforehand, and is not a capture *)
Example ex_null_move :
  exists b1, apply_move zero_table (Std 6 6 None) ex_b0 = Ok b1 /\
    board_captures ex_b0 (Std 6 6 None) = true /\ hm_stack b1 = [1; 0].
Proof. exists (ok_or board_new (apply_move zero_table (Std 6 6 None) ex_b0)). vm_conj. Qed.

(* hypotheses of draw_iff_100, both sides of the threshold, with the ray-walk sliders *)
Example ex_draw_at_100 :
  max_seen (set_hm ex_b0 [100]) = Ok 1 /\ halfmove (set_hm ex_b0 [100]) = Ok 100 /\
  game_ending zero_table rook_ref bishop_ref (set_hm ex_b0 [100]) White = Ok (Some Draw, set_hm ex_b0 [100]).
Proof. vm_conj. Qed.

Example ex_no_draw_at_99 :
  max_seen (set_hm ex_b0 [99]) = Ok 1 /\ halfmove (set_hm ex_b0 [99]) = Ok 99 /\
  option_map fst (match game_ending zero_table rook_ref bishop_ref (set_hm ex_b0 [99]) White with
                  | Ok x => Some x | _ => None end) = Some None.
Proof. vm_conj. Qed.

Print Assumptions apply_clocks.
Print Assumptions undo_clocks.
Print Assumptions apply_clocks_board.
Print Assumptions apply_abs_clocks.
Print Assumptions clocks_faithful.
Print Assumptions draw_iff_100.
Print Assumptions draw_after_play.
