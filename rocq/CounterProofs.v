(* CounterProofs.v — property C16:
   "The half-move clock always equals the number of plies since the last capture or pawn
    move, the move counter advances by exactly one per move made and retreats by one per
    undo, and neither wraps or aborts however long the game.  The game is reported drawn on
    move count exactly when the half-move clock has reached 100 (fifty moves by each side),
    never earlier."
   Proofs about Moves.apply_move / undo_move (model of src/chess_move/*.rs),
   Board.inc_fullmove / inc_halfmove / ... (src/board/move_info.rs), Eval.game_ending
   (src/evaluate/mod.rs), against the clock rule of Rules.successor. *)
From Coq Require Import Lia.
From ChessV Require Import Eval Abs CountFrame.
From ChessV Require Rules.

Arguments N.add : simpl never.
Arguments N.sub : simpl never.
Arguments N.mul : simpl never.
Arguments N.eqb : simpl never.
Arguments N.ltb : simpl never.
Arguments N.leb : simpl never.
Arguments N.shiftl : simpl never.
Arguments N.shiftr : simpl never.
Arguments N.land : simpl never.
Arguments N.lor : simpl never.
Arguments N.lxor : simpl never.
Arguments N.ldiff : simpl never.
Arguments N.testbit : simpl never.

(* ------------------------------------------------------------------------------------ *)
(* 1. one move applied / undone                                                         *)
(* ------------------------------------------------------------------------------------ *)

(* [resets b m]: does playing m on b reset the half-move clock?  The mover (the piece on the
   origin square) is a pawn, or the move is a capture.  "Is a capture" is read off the
   move's capture field; [apply_captures_from_board] below shows that whenever the
   application succeeds this field agrees with what is found on the board. *)
Definition resets (b : board) (m : cmove) : bool := mv_resets (bget b (mv_from m)) m.

(* the capture as the board sees it *)
Definition board_captures (b : board) (m : cmove) : bool :=
  match m with
  | Std _ t _ | Promo _ t _ _ => opt_is_some (bget b t)
  | EnPassant _ _ => true
  | Castle _ _ => false
  end.
Definition resets_board (b : board) (m : cmove) : bool :=
  mover_is_pawn (bget b (mv_from m)) || board_captures b m.

Section WithTable.
Variable T : ztable.

Theorem apply_clocks m b b' :
  apply_move T m b = Ok b' ->
  fullmove b' = fullmove b + 1 /\
  hm_stack b' = (if resets b m then 0 else top (hm_stack b) + 1) :: hm_stack b.
Proof.
  intro H. destruct (apply_move_ctr T _ _ _ H) as (p & c & _ & C & _).
  unfold ctr in C. inversion C. split; [reflexivity|assumption].
Qed.

(* what success of apply_move says about the counters beforehand: they were not at their
   type's maximum, and a non-resetting move found a clock to increment *)
Theorem apply_clocks_pre m b b' :
  apply_move T m b = Ok b' ->
  fullmove b <> FULLMOVE_MAX /\
  (resets b m = false -> hm_stack b <> [] /\ top (hm_stack b) <> U8_MAX).
Proof.
  intro H. destruct (apply_move_ctr T _ _ _ H) as (p & c & _ & _ & F & R). split; assumption.
Qed.

Corollary apply_halfmove m b b' :
  apply_move T m b = Ok b' ->
  halfmove b' = Ok (if resets b m then 0 else top (hm_stack b) + 1).
Proof. intro H. apply apply_clocks in H. destruct H as [_ H]. unfold halfmove. rewrite H. reflexivity. Qed.

Theorem undo_clocks m b' b :
  undo_move T m b' = Ok b ->
  fullmove b = fullmove b' - 1 /\ hm_stack b = tl (hm_stack b') /\
  0 < fullmove b' /\ hm_stack b' <> [].
Proof.
  intro H. destruct (undo_move_ctr T _ _ _ H) as (C & F & N1).
  unfold ctr in C. inversion C. repeat split; try assumption. lia.
Qed.

(* undo after apply restores both counters exactly *)
Corollary apply_undo_clocks m b b1 b2 :
  apply_move T m b = Ok b1 -> undo_move T m b1 = Ok b2 ->
  fullmove b2 = fullmove b /\ hm_stack b2 = hm_stack b.
Proof.
  intros H1 H2. apply apply_clocks in H1. apply undo_clocks in H2.
  destruct H1 as [F1 S1]. destruct H2 as (F2 & S2 & _ & _).
  rewrite F2, S2, F1, S1. split; [lia|reflexivity].
Qed.

(* ---- the capture field agrees with the board (from <> to) ---- *)
Lemma mem_lxor_bit_other t f x : t <> f -> mem t (N.lxor x (bit f)) = mem t x.
Proof.
  intro Hn. unfold mem, bit. rewrite N.lxor_spec, N.shiftl_1_l, N.pow2_bits_eqb.
  destruct (N.eqb_spec f t) as [->|_]; [contradiction|]. apply xorb_false_r.
Qed.

Lemma bget_upd_other b c p g t :
  (forall x, mem t (g x) = mem t x) ->
  bget (set_pieces b c (upd (pieces b c) p g)) t = bget b t.
Proof.
  intro Hg. destruct c, p; unfold bget, pget;
  cbn [set_pieces set_white set_black pieces upd white black occ pw kn bi rk qn kg];
  rewrite ?Hg; reflexivity.
Qed.

Lemma bremove_other b f pc b1 t :
  bremove T b f = Some (pc, b1) -> t <> f -> bget b1 t = bget b t.
Proof.
  unfold bremove. destruct (bget b f) as [[p c]|]; [|discriminate].
  unfold premove. destruct (pget (pieces b c) f) as [q|]; [|discriminate].
  intros H Hn. inversion H; subst.
  change (bget (toggle_piece T ?x f p c) t) with (bget x t).
  apply bget_upd_other. intro x. apply mem_lxor_bit_other. assumption.
Qed.

Lemma bremove_none_iff b i : bremove T b i = None <-> bget b i = None.
Proof.
  unfold bremove. destruct (bget b i) as [[p c]|] eqn:G; [|tauto].
  split; [|discriminate]. unfold premove.
  assert (P : pget (pieces b c) i = Some p).
  { unfold bget in G. destruct (mem i (occ (white b))).
    - destruct (pget (white b) i) eqn:Q; cbn in G; inversion G; subst. assumption.
    - destruct (mem i (occ (black b))); [|discriminate G].
      destruct (pget (black b) i) eqn:Q; cbn in G; inversion G; subst. assumption. }
  rewrite P. discriminate.
Qed.

Lemma apply_std_capture b f t cap b' :
  apply_std T b f t cap = Ok b' -> f <> t -> opt_is_some cap = opt_is_some (bget b t).
Proof.
  unfold apply_std. destruct (bremove T b f) as [[[p c] b1]|] eqn:Eq1; [|discriminate].
  intros H Hn.
  assert (G : bget b1 t = bget b t) by (eapply bremove_other; [eassumption|congruence]).
  destruct (bremove T b1 t) as [[pc b2]|] eqn:Eq2.
  - destruct (bremove_ctr T _ _ _ _ Eq2) as [_ G2]. rewrite <- G, G2.
    destruct cap as [cp|]; [reflexivity|]. cbn in H. discriminate H.
  - apply bremove_none_iff in Eq2. rewrite <- G, Eq2.
    destruct cap as [cp|]; [|reflexivity]. cbn in H. discriminate H.
Qed.

Theorem apply_captures_from_board m b b' :
  apply_move T m b = Ok b' -> mv_from m <> mv_to m ->
  opt_is_some (mv_captures m) = board_captures b m.
Proof.
  destruct m as [f t cap|f t cap pp|f t|f t]; cbn [apply_move mv_from mv_to mv_captures board_captures];
  intros H Hn; try reflexivity.
  - eapply apply_std_capture; eassumption.
  - unfold apply_promo in H. destruct (apply_std T b f t cap) as [b1| |] eqn:Eq1; try discriminate H.
    eapply apply_std_capture; eassumption.
Qed.

(* the statement of [apply_clocks] with the capture read off the board *)
Corollary apply_clocks_board m b b' :
  apply_move T m b = Ok b' -> mv_from m <> mv_to m ->
  fullmove b' = fullmove b + 1 /\
  hm_stack b' = (if resets_board b m then 0 else top (hm_stack b) + 1) :: hm_stack b.
Proof.
  intros H Hn. unfold resets_board. rewrite <- (apply_captures_from_board _ _ _ H Hn).
  exact (apply_clocks _ _ _ H).
Qed.

End WithTable.

(* ------------------------------------------------------------------------------------ *)
(* 2. agreement with the clock rule of the rules spec (Rules.successor)                 *)
(* ------------------------------------------------------------------------------------ *)

Lemma nth_squares (n : nat) : (n < 64)%nat -> nth n squares 0 = N.of_nat n.
Proof.
  intro H. do 64 (destruct n as [|n]; [reflexivity|]). lia.
Qed.

Lemma at_abstract b i : i < 64 -> Rules.at_ (abstract b) i = bget b i.
Proof.
  intro H. unfold Rules.at_, abstract; cbn [Rules.cells].
  assert (L : (N.to_nat i < 64)%nat) by lia.
  rewrite (nth_indep (map (bget b) squares) None (bget b 0)) by (rewrite map_length; exact L).
  rewrite map_nth. rewrite nth_squares by exact L. rewrite N2Nat.id. reflexivity.
Qed.

(* the spec's reset condition, as Rules.successor computes it *)
Definition spec_resets (p : Rules.position) (m : cmove) : bool :=
  (match Rules.at_ p (mv_from m) with Some (Pawn, _) => true | _ => false end)
  || (match mv_captures m with Some _ => true | None => false end).

Lemma successor_phalf p m :
  Rules.phalf (Rules.successor p m) = if spec_resets p m then 0 else Rules.phalf p + 1.
Proof. reflexivity. Qed.
Lemma successor_pfull p m : Rules.pfull (Rules.successor p m) = Rules.pfull p + 1.
Proof. reflexivity. Qed.

Lemma spec_resets_abstract b m : mv_from m < 64 -> spec_resets (abstract b) m = resets b m.
Proof.
  intro H. unfold spec_resets, resets, mv_resets, mover_is_pawn, opt_is_some.
  rewrite at_abstract by exact H. reflexivity.
Qed.

Section WithTable2.
Variable T : ztable.

(* one engine move = one application of the spec's clock rule *)
Theorem apply_abs_clocks m b b' :
  apply_move T m b = Ok b' -> mv_from m < 64 ->
  Rules.phalf (abstract b') = Rules.phalf (Rules.successor (abstract b) m) /\
  Rules.pfull (abstract b') = Rules.pfull (Rules.successor (abstract b) m).
Proof.
  intros H Hf. rewrite successor_phalf, successor_pfull, spec_resets_abstract by exact Hf.
  apply apply_clocks in H. destruct H as [F S].
  unfold abstract; cbn [Rules.phalf Rules.pfull]. rewrite S, F. split; reflexivity.
Qed.

(* the side-to-move flip that the callers perform does not touch the counters *)
Lemma toggle_turn_clocks b :
  fullmove (toggle_turn b) = fullmove b /\ hm_stack (toggle_turn b) = hm_stack b.
Proof. split; reflexivity. Qed.

Corollary apply_abs_clocks_turn m b b' :
  apply_move T m b = Ok b' -> mv_from m < 64 ->
  Rules.phalf (abstract (toggle_turn b')) = Rules.phalf (Rules.succ_turn (abstract b) m) /\
  Rules.pfull (abstract (toggle_turn b')) = Rules.pfull (Rules.succ_turn (abstract b) m).
Proof. intros H Hf. exact (apply_abs_clocks _ _ _ H Hf). Qed.

(* ------------------------------------------------------------------------------------ *)
(* 3. whole games                                                                       *)
(* ------------------------------------------------------------------------------------ *)

(* the game loop: apply the move, flip the side to move *)
Fixpoint play (ms : list cmove) (b : board) : res board :=
  match ms with
  | [] => Ok b
  | m :: rest => let* b1 := apply_move T m b in play rest (toggle_turn b1)
  end.

(* for each ply, whether THE SPEC (Rules.successor on the abstraction of the board reached)
   says the clock is reset: the mover is a pawn or the move is a capture *)
Fixpoint reset_flags (ms : list cmove) (b : board) : list bool :=
  match ms with
  | [] => []
  | m :: rest =>
      spec_resets (abstract b) m ::
      match apply_move T m b with
      | Ok b1 => reset_flags rest (toggle_turn b1)
      | _ => []
      end
  end.

(* "the number of plies since the last capture or pawn move": flags most recent first;
   [h0] is the clock the game started from, which still counts if nothing reset it *)
Fixpoint since_last (recent_first : list bool) (h0 : N) : N :=
  match recent_first with
  | [] => h0
  | true :: _ => 0
  | false :: older => since_last older h0 + 1
  end.

(* the same number, computed oldest first, one ply at a time *)
Definition clock_step (h : N) (r : bool) : N := if r then 0 else h + 1.

Lemma since_last_snoc l r h0 : since_last (rev (l ++ [r])) h0 = clock_step (since_last (rev l) h0) r.
Proof. rewrite rev_app_distr. cbn [rev app since_last]. destruct r; reflexivity. Qed.

Lemma since_last_fold l h0 : since_last (rev l) h0 = fold_left clock_step l h0.
Proof.
  revert h0. induction l as [|r l IH] using rev_ind; intro h0; [reflexivity|].
  rewrite since_last_snoc, fold_left_app. cbn [fold_left]. rewrite IH. reflexivity.
Qed.

(* since_last really is a count: the length of the run of non-resetting plies at the recent
   end, plus the starting clock when no ply reset it *)
Fixpoint run_length (recent_first : list bool) : nat :=
  match recent_first with
  | false :: older => S (run_length older)
  | _ => O
  end.
Lemma since_last_count l h0 :
  since_last l h0 = N.of_nat (run_length l) + (if existsb (fun r => r) l then 0 else h0).
Proof.
  induction l as [|r l IH]; cbn [since_last run_length existsb].
  - cbn. lia.
  - destruct r; cbn [orb]; [cbn; lia|]. rewrite IH. lia.
Qed.

Lemma play_app ms1 ms2 b :
  play (ms1 ++ ms2) b = let* b1 := play ms1 b in play ms2 b1.
Proof.
  revert b. induction ms1 as [|m ms1 IH]; intro b; cbn [app play bind]; [reflexivity|].
  destruct (apply_move T m b) as [b1|e|]; cbn [bind]; [apply IH|reflexivity|reflexivity].
Qed.

Theorem clocks_faithful ms : forall b b',
  play ms b = Ok b' ->
  Forall (fun m => mv_from m < 64) ms ->
  fullmove b' = fullmove b + N.of_nat (length ms) /\
  top (hm_stack b') = since_last (rev (reset_flags ms b)) (top (hm_stack b)) /\
  length (hm_stack b') = (length (hm_stack b) + length ms)%nat.
Proof.
  induction ms as [|m ms IH]; intros b b' H HF.
  - cbn in H. inversion H; subst. cbn [length reset_flags rev since_last]. repeat split; lia.
  - cbn [play] in H. destruct (apply_move T m b) as [b1|e|] eqn:Eq1; cbn [bind] in H; try discriminate H.
    inversion HF as [|m' ms' Hm HF']; subst.
    destruct (IH _ _ H HF') as (F & S & L).
    destruct (apply_clocks _ _ _ _ Eq1) as [F1 S1].
    change (fullmove (toggle_turn b1)) with (fullmove b1) in F.
    change (hm_stack (toggle_turn b1)) with (hm_stack b1) in S, L.
    split; [cbn [length]; lia|]. split.
    + rewrite S. cbn [reset_flags]. rewrite Eq1.
      rewrite !since_last_fold. cbn [fold_left]. f_equal.
      rewrite S1. rewrite spec_resets_abstract by exact Hm. reflexivity.
    + rewrite L, S1. cbn [length]. lia.
Qed.

(* the same, phrased on the abstract position: the spec's clock rule folded over the game *)
Theorem play_spec_fold ms : forall b b',
  play ms b = Ok b' ->
  Forall (fun m => mv_from m < 64) ms ->
  Rules.phalf (abstract b') = fold_left clock_step (reset_flags ms b) (Rules.phalf (abstract b)) /\
  Rules.pfull (abstract b') = fold_left (fun n _ => n + 1) ms (Rules.pfull (abstract b)).
Proof.
  intros b b' H HF. destruct (clocks_faithful _ _ _ H HF) as (F & S & _).
  unfold abstract; cbn [Rules.phalf Rules.pfull]. split.
  - rewrite S. apply since_last_fold.
  - rewrite F. clear. generalize (fullmove b). induction ms as [|m ms IH]; intro n; cbn [length fold_left].
    + lia.
    + rewrite <- IH. lia.
Qed.

End WithTable2.

(* ------------------------------------------------------------------------------------ *)
(* 3b. the game-level statement against the spec's own successor function               *)
(* ------------------------------------------------------------------------------------ *)
(* Folding Rules.succ_turn itself over the game needs the placement refinement (the cells
   of the abstraction of the engine's next board are the cells of the spec's successor),
   which is the business of the move-application refinement proof, not of C16.  It enters
   here as the section hypothesis [placement_refines], for any invariant [good] that proof
   maintains; everything about the two clocks is proved here. *)
Definition agree (p q : Rules.position) : Prop :=
  Rules.cells p = Rules.cells q /\ Rules.pturn p = Rules.pturn q /\
  Rules.phalf p = Rules.phalf q /\ Rules.pfull p = Rules.pfull q.

Lemma agree_succ_turn p q m : agree p q -> agree (Rules.succ_turn p m) (Rules.succ_turn q m).
Proof.
  destruct p as [cs tn rg ep hf fl], q as [cs' tn' rg' ep' hf' fl'].
  unfold agree; cbn [Rules.cells Rules.pturn Rules.phalf Rules.pfull].
  intros (-> & -> & -> & ->). repeat split.
Qed.

Lemma agree_trans p q r : agree p q -> agree q r -> agree p r.
Proof. unfold agree. intros (A & B & C & D) (A' & B' & C' & D'). repeat split; congruence. Qed.

Section SpecFold.
Variable T : ztable.
Variable good : board -> Prop.
Hypothesis placement_refines : forall b m b1,
  good b -> apply_move T m b = Ok b1 ->
  good (toggle_turn b1) /\
  Rules.cells (abstract (toggle_turn b1)) = Rules.cells (Rules.succ_turn (abstract b) m) /\
  Rules.pturn (abstract (toggle_turn b1)) = Rules.pturn (Rules.succ_turn (abstract b) m).

Theorem clocks_faithful_spec ms : forall b b' p,
  good b -> agree (abstract b) p ->
  play T ms b = Ok b' -> Forall (fun m => mv_from m < 64) ms ->
  agree (abstract b') (fold_left Rules.succ_turn ms p).
Proof.
  induction ms as [|m ms IH]; intros b b' p G A H HF.
  - cbn in H. inversion H; subst. exact A.
  - cbn [play] in H. destruct (apply_move T m b) as [b1|e|] eqn:Eq1; cbn [bind] in H; try discriminate H.
    inversion HF as [|m' ms' Hm HF']; subst.
    destruct (placement_refines _ _ _ G Eq1) as (G1 & Cc & Ct).
    destruct (apply_abs_clocks_turn T _ _ _ Eq1 Hm) as [Ch Cf].
    cbn [fold_left]. apply (IH (toggle_turn b1) b' (Rules.succ_turn p m) G1); try assumption.
    apply (agree_trans _ (Rules.succ_turn (abstract b) m)).
    + repeat split; assumption.
    + apply agree_succ_turn. exact A.
Qed.

Corollary clocks_faithful_spec_clocks ms b b' :
  good b -> play T ms b = Ok b' -> Forall (fun m => mv_from m < 64) ms ->
  top (hm_stack b') = Rules.phalf (fold_left Rules.succ_turn ms (abstract b)) /\
  fullmove b' = Rules.pfull (fold_left Rules.succ_turn ms (abstract b)).
Proof.
  intros G H HF.
  destruct (clocks_faithful_spec ms b b' (abstract b) G) as (_ & _ & Ch & Cf); try assumption.
  - repeat split.
  - split; [exact Ch|exact Cf].
Qed.

End SpecFold.

(* ------------------------------------------------------------------------------------ *)
(* 4. the draw on move count                                                            *)
(* ------------------------------------------------------------------------------------ *)

(* tied to the constants the translator extracted from src/evaluate/mod.rs: a change there
   breaks these two lemmas *)
Lemma HALFMOVE_DRAW_THRESHOLD_is_100 : HALFMOVE_DRAW_THRESHOLD = 100.
Proof. reflexivity. Qed.
Lemma REPETITION_DRAW_COUNT_is_3 : REPETITION_DRAW_COUNT = 3.
Proof. reflexivity. Qed.

Section WithGen.
Variable T : ztable.
Variables rook_t bishop_t : N -> N -> N.

(* the part of game_ending after the two draw tests *)
Definition mate_branch (b : board) (c : color) : res (option ending * board) :=
  let* (cands, b1) := gen_moves T rook_t bishop_t b c in
  let chk := in_check rook_t bishop_t b1 (turn b1) in
  if is_nil cands then Ok (Some (if chk then Checkmate else Stalemate), b1)
  else Ok (None, b1).

Lemma mate_branch_not_draw b c b1 : mate_branch b c <> Ok (Some Draw, b1).
Proof.
  unfold mate_branch. destruct (gen_moves T rook_t bishop_t b c) as [[cands b2]|e|]; cbn [bind]; try discriminate.
  destruct (is_nil cands); [|discriminate].
  destruct (in_check rook_t bishop_t b2 (turn b2)); discriminate.
Qed.

Theorem draw_iff_100 b c s h :
  max_seen b = Ok s -> s <> REPETITION_DRAW_COUNT -> halfmove b = Ok h ->
  (100 <= h -> game_ending T rook_t bishop_t b c = Ok (Some Draw, b)) /\
  (h < 100 -> game_ending T rook_t bishop_t b c = mate_branch b c
              /\ forall b1, game_ending T rook_t bishop_t b c <> Ok (Some Draw, b1)).
Proof.
  intros Hs Hne Hh. unfold game_ending. rewrite Hs; cbn [bind].
  apply N.eqb_neq in Hne. rewrite Hne. rewrite Hh; cbn [bind].
  rewrite HALFMOVE_DRAW_THRESHOLD_is_100. split; intro Hc.
  - apply N.leb_le in Hc. rewrite Hc. reflexivity.
  - apply N.leb_gt in Hc. rewrite Hc. split; [reflexivity|].
    intro b1. apply mate_branch_not_draw.
Qed.

(* "exactly when ... never earlier", as one equivalence *)
Corollary draw_on_clock_iff b c s h :
  max_seen b = Ok s -> s <> REPETITION_DRAW_COUNT -> halfmove b = Ok h ->
  ((exists b1, game_ending T rook_t bishop_t b c = Ok (Some Draw, b1)) <-> 100 <= h).
Proof.
  intros Hs Hne Hh. destruct (draw_iff_100 b c s h Hs Hne Hh) as [D1 D2]. split.
  - intros [b1 H]. destruct (N.le_gt_cases 100 h) as [L|L]; [assumption|].
    destruct (D2 L) as [_ D]. exfalso. exact (D b1 H).
  - intro L. exists b. apply D1. assumption.
Qed.

(* with the clock read off a game: drawn on move count iff at least 100 plies have passed
   since the last capture or pawn move *)
Corollary draw_after_play ms b b' c s :
  play T ms b = Ok b' -> Forall (fun m => mv_from m < 64) ms -> hm_stack b <> [] ->
  max_seen b' = Ok s -> s <> REPETITION_DRAW_COUNT ->
  ((exists b1, game_ending T rook_t bishop_t b' c = Ok (Some Draw, b1))
   <-> 100 <= since_last (rev (reset_flags T ms b)) (top (hm_stack b))).
Proof.
  intros H HF Hne Hs Hs3. destruct (clocks_faithful T _ _ _ H HF) as (_ & S & L).
  rewrite <- S. apply (draw_on_clock_iff b' c s); try assumption.
  unfold halfmove, top. destruct (hm_stack b') as [|x r]; [|reflexivity].
  destruct (hm_stack b); [contradiction|cbn [length] in L; lia].
Qed.

(* a game that is not over on move count can always take one more non-resetting move:
   the u8 clock is below 100, far from 255 *)
Corollary clock_below_255_unless_drawn b c s h e b1 :
  max_seen b = Ok s -> s <> REPETITION_DRAW_COUNT -> halfmove b = Ok h ->
  game_ending T rook_t bishop_t b c = Ok (e, b1) -> e <> Some Draw ->
  h < 100 /\ exists b2, inc_halfmove b = Ok b2.
Proof.
  intros Hs Hne Hh He Hd.
  assert (L : h < 100).
  { destruct (N.le_gt_cases 100 h) as [L|L]; [|assumption].
    destruct (draw_iff_100 b c s h Hs Hne Hh) as [D1 _]. rewrite (D1 L) in He.
    inversion He; subst. contradiction. }
  split; [assumption|]. unfold inc_halfmove. rewrite Hh; cbn [bind].
  assert (E : (h =? U8_MAX) = false) by (apply N.eqb_neq; unfold U8_MAX; lia).
  rewrite E. eexists; reflexivity.
Qed.

End WithGen.

(* ------------------------------------------------------------------------------------ *)
(* 4b. "neither wraps or aborts however long the game"                                   *)
(* ------------------------------------------------------------------------------------ *)
(* The counters are a u16 and a u8 with checked arithmetic (inc_fullmove, inc_halfmove are
   characterised exactly in CountFrame.v: they Panic iff the value is 65535 resp. 255, or
   the clock stack is empty).  So the statement cannot hold "however long": it holds while
   fullmove < 65535, and the clock is kept below 255 by the 100-ply draw.  What we prove:
   (a) apply_move's outcome KIND does not depend on the counters as long as they are in
       range: a Panic (or Err) of apply_move with in-range counters happens with any other
       in-range counters too — e.g. the fresh ones — so it is not the counters' doing
       (apply_move_counter_independent, apply_no_counter_panic);
   (b) in a game of fewer than 65534 plies from fullmove = 1, not yet drawn on move count,
       the counters are in range (game_counters_in_range). *)

(* b with its two counters replaced *)
Definition rectr (b : board) (l : list N) (n : N) : board := set_fullmove (set_hm b l) n.

Lemma rectr_self b : rectr b (hm_stack b) (fullmove b) = b.
Proof. destruct b; reflexivity. Qed.
Lemma rectr_rectr b l n l2 n2 : rectr (rectr b l n) l2 n2 = rectr b l2 n2.
Proof. reflexivity. Qed.

(* counters in range: the move counter can be incremented, there is a clock and it can be
   incremented *)
Definition ctr_ok (l : list N) (n : N) : Prop :=
  n <> FULLMOVE_MAX /\ exists h r, l = h :: r /\ h <> U8_MAX.

(* same outcome, and on success the same board up to the two counters *)
Definition sim (r r' : res board) : Prop :=
  match r, r' with
  | Ok x, Ok x' => rectr x [] 0 = rectr x' [] 0
  | Err e, Err e' => e = e'
  | Panic, Panic => True
  | _, _ => False
  end.

Lemma sim_ok_inv x x' : rectr x [] 0 = rectr x' [] 0 -> x' = rectr x (hm_stack x') (fullmove x').
Proof. destruct x, x'; unfold rectr; cbn. intro H; inversion H; subst. reflexivity. Qed.

Definition lift (l : list N) (n : N) (r : res board) : res board :=
  match r with Ok b => Ok (rectr b l n) | Err e => Err e | Panic => Panic end.

Section CounterIndependence.
Variable T : ztable.

Lemma C_bget b l n i : bget (rectr b l n) i = bget b i.
Proof. reflexivity. Qed.
Lemma C_pieces b l n c : pieces (rectr b l n) c = pieces b c.
Proof. destruct c; reflexivity. Qed.

Lemma C_put b l n i p c : put T (rectr b l n) i p c = lift l n (put T b i p c).
Proof.
  unfold put. change (is_occupied (rectr b l n) i) with (is_occupied b i).
  destruct (is_occupied b i); [reflexivity|]. rewrite C_pieces.
  destruct (pput (pieces b c) i p) as [s|e|]; cbn [bind lift]; try reflexivity.
  f_equal. destruct c; reflexivity.
Qed.

Lemma C_bremove b l n i :
  bremove T (rectr b l n) i =
  match bremove T b i with Some (pc, b1) => Some (pc, rectr b1 l n) | None => None end.
Proof.
  unfold bremove. rewrite C_bget. destruct (bget b i) as [[p c]|]; [|reflexivity].
  rewrite C_pieces. destruct (premove (pieces b c) i) as [[q s]|]; [|reflexivity].
  f_equal. f_equal. destruct c; reflexivity.
Qed.

Lemma C_remove_unwrap b l n i : remove_unwrap T (rectr b l n) i = lift l n (remove_unwrap T b i).
Proof.
  unfold remove_unwrap. rewrite C_bremove. destruct (bremove T b i) as [[pc b1]|]; reflexivity.
Qed.

Lemma C_push_ep b l n t : push_ep T (rectr b l n) t = lift l n (push_ep T b t).
Proof.
  unfold push_ep, peek_ep. change (ep_stack (rectr b l n)) with (ep_stack b).
  destruct (ep_stack b) as [|x r]; [reflexivity|]. cbn [bind lift]. f_equal.
  unfold toggle_ep. destruct (is_empty x), (is_empty t); reflexivity.
Qed.

Lemma C_lose_rights b l n lost : lose_rights T (rectr b l n) lost = lift l n (lose_rights T b lost).
Proof.
  unfold lose_rights, peek_rights. change (cr_stack (rectr b l n)) with (cr_stack b).
  destruct (cr_stack b) as [|x r]; reflexivity.
Qed.

Lemma C_preserve_rights b l n : preserve_rights (rectr b l n) = lift l n (preserve_rights b).
Proof.
  unfold preserve_rights, peek_rights. change (cr_stack (rectr b l n)) with (cr_stack b).
  destruct (cr_stack b) as [|x r]; reflexivity.
Qed.

Lemma C_inc_fullmove b l n :
  inc_fullmove (rectr b l n) = if n =? FULLMOVE_MAX then Panic else Ok (rectr b l (n + 1)).
Proof. reflexivity. Qed.
Lemma C_inc_halfmove b l n :
  inc_halfmove (rectr b l n) =
  match l with [] => Panic | h :: _ => if h =? U8_MAX then Panic else Ok (rectr b ((h + 1) :: l) n) end.
Proof. destruct l as [|h r]; [reflexivity|]. unfold inc_halfmove, halfmove. cbn [rectr set_fullmove set_hm hm_stack bind]. destruct (h =? U8_MAX); reflexivity. Qed.
Lemma C_reset_halfmove b l n : reset_halfmove (rectr b l n) = rectr b (0 :: l) n.
Proof. reflexivity. Qed.

Lemma unwrap_lift l n r : unwrap (lift l n r) = lift l n (unwrap r).
Proof. destruct r; reflexivity. Qed.

Lemma sim_lift l n l' n' r : sim (lift l n r) (lift l' n' r).
Proof. destruct r; cbn; auto. Qed.

Lemma ctr_ok_inv l n : ctr_ok l n ->
  (n =? FULLMOVE_MAX) = false /\ exists h r, l = h :: r /\ (h =? U8_MAX) = false.
Proof.
  intros [Hn (h & r & Hl & Hh)]. split; [apply N.eqb_neq; exact Hn|].
  exists h, r. split; [exact Hl|apply N.eqb_neq; exact Hh].
Qed.

Lemma apply_std_sim b l n l' n' f t cap :
  ctr_ok l n -> ctr_ok l' n' ->
  sim (apply_std T (rectr b l n) f t cap) (apply_std T (rectr b l' n') f t cap).
Proof.
  intros K K'. destruct (ctr_ok_inv _ _ K) as (Hn & h & r & -> & Hh).
  destruct (ctr_ok_inv _ _ K') as (Hn' & h' & r' & -> & Hh').
  unfold apply_std. rewrite !C_bremove.
  destruct (bremove T b f) as [[[p c] b1]|]; [|reflexivity].
  rewrite !C_bremove.
  assert (tailsim : forall l2 n2 l2' n2' (y : board) (cpt : option (piece * color)),
    (n2 =? FULLMOVE_MAX) = false -> (n2' =? FULLMOVE_MAX) = false ->
    sim (let* b4 := inc_fullmove (rectr y l2 n2) in
         let* b5 := push_ep T b4 (ep_target_of p c f t) in
         let* b6 := lose_rights T b5 (N.lor (lost_if_moved p c f) (lost_if_taken cpt t)) in
         unwrap (put T b6 t p c))
        (let* b4 := inc_fullmove (rectr y l2' n2') in
         let* b5 := push_ep T b4 (ep_target_of p c f t) in
         let* b6 := lose_rights T b5 (N.lor (lost_if_moved p c f) (lost_if_taken cpt t)) in
         unwrap (put T b6 t p c))).
  { intros l2 n2 l2' n2' y cpt E E'. rewrite !C_inc_fullmove, E, E'. cbn [bind].
    rewrite !C_push_ep. destruct (push_ep T y (ep_target_of p c f t)) as [y5|e|]; cbn [lift bind]; try (cbn [sim]; auto; fail).
    rewrite !C_lose_rights. destruct (lose_rights T y5 _) as [y6|e|]; cbn [lift bind]; try (cbn [sim]; auto; fail).
    rewrite !C_put, !unwrap_lift. apply sim_lift. }
  destruct (bremove T b1 t) as [[pc b2]|].
  - destruct (negb (opt_pc_eqb (Some pc) (option_map (fun cp => (cp, opp_c c)) cap))); [reflexivity|].
    cbn [bind]. rewrite !C_reset_halfmove. apply tailsim; assumption.
  - destruct (negb (opt_pc_eqb None (option_map (fun cp => (cp, opp_c c)) cap))); [reflexivity|].
    destruct (piece_eqb p Pawn).
    + cbn [bind]. rewrite !C_reset_halfmove. apply tailsim; assumption.
    + rewrite !C_inc_halfmove, Hh, Hh'. cbn [bind]. apply tailsim; assumption.
Qed.

Lemma apply_promo_sim b l n l' n' f t cap pp :
  ctr_ok l n -> ctr_ok l' n' ->
  sim (apply_promo T (rectr b l n) f t cap pp) (apply_promo T (rectr b l' n') f t cap pp).
Proof.
  intros K K'. pose proof (apply_std_sim b l n l' n' f t cap K K') as S.
  unfold apply_promo.
  destruct (apply_std T (rectr b l n) f t cap) as [x|e|],
           (apply_std T (rectr b l' n') f t cap) as [x'|e'|]; cbn [sim] in S; try contradiction;
  cbn [bind]; try (cbn [sim]; auto; fail).
  apply sim_ok_inv in S. rewrite S. rewrite C_bremove.
  destruct (bremove T x t) as [[[q d] y]|]; [|reflexivity].
  destruct q; try reflexivity.
  rewrite C_put. rewrite <- (rectr_self y) at 1. rewrite C_put. apply sim_lift.
Qed.

Lemma apply_ep_sim b l n l' n' f t :
  ctr_ok l n -> ctr_ok l' n' ->
  sim (apply_ep T (rectr b l n) f t) (apply_ep T (rectr b l' n') f t).
Proof.
  intros K K'. destruct (ctr_ok_inv _ _ K) as (Hn & _).
  destruct (ctr_ok_inv _ _ K') as (Hn' & _).
  unfold apply_ep. rewrite !C_bremove.
  destruct (bremove T b f) as [[[p c] b1]|]; [|reflexivity].
  destruct (negb (piece_eqb p Pawn)); [reflexivity|].
  rewrite !C_bremove. destruct (bremove T b1 (ep_captured_square c t)) as [[pc b2]|]; [|reflexivity].
  rewrite !C_reset_halfmove, !C_inc_fullmove, Hn, Hn'. cbn [bind].
  rewrite !C_push_ep. destruct (push_ep T b2 0) as [y5|e|]; cbn [lift bind]; try (cbn [sim]; auto; fail).
  rewrite !C_preserve_rights. destruct (preserve_rights y5) as [y6|e|]; cbn [lift bind]; try (cbn [sim]; auto; fail).
  rewrite !C_put. apply sim_lift.
Qed.

Lemma apply_castle_sim b l n l' n' f t :
  ctr_ok l n -> ctr_ok l' n' ->
  sim (apply_castle T (rectr b l n) f t) (apply_castle T (rectr b l' n') f t).
Proof.
  intros K K'. destruct (ctr_ok_inv _ _ K) as (Hn & h & r & -> & Hh).
  destruct (ctr_ok_inv _ _ K') as (Hn' & h' & r' & -> & Hh').
  unfold apply_castle. destruct (castle_shape f t) as [[[c rf] rt]|e|]; cbn [bind]; try (cbn [sim]; auto; fail).
  rewrite !C_bget.
  destruct (negb (opt_pc_eqb (bget b f) (Some (King, c)))); [reflexivity|].
  destruct (negb (is_none (bget b t))); [reflexivity|].
  destruct (negb (opt_pc_eqb (bget b rf) (Some (Rook, c)))); [reflexivity|].
  destruct (negb (is_none (bget b rt))); [reflexivity|].
  rewrite !C_remove_unwrap. destruct (remove_unwrap T b f) as [y1|e|]; cbn [lift bind]; try (cbn [sim]; auto; fail).
  rewrite !C_put, !unwrap_lift. destruct (unwrap (put T y1 t King c)) as [y2|e|]; cbn [lift bind]; try (cbn [sim]; auto; fail).
  rewrite !C_remove_unwrap. destruct (remove_unwrap T y2 rf) as [y3|e|]; cbn [lift bind]; try (cbn [sim]; auto; fail).
  rewrite !C_put, !unwrap_lift. destruct (unwrap (put T y3 rt Rook c)) as [y4|e|]; cbn [lift bind]; try (cbn [sim]; auto; fail).
  rewrite !C_inc_halfmove, Hh, Hh'. cbn [bind].
  rewrite !C_inc_fullmove, Hn, Hn'. cbn [bind].
  rewrite !C_push_ep. destruct (push_ep T y4 0) as [y7|e|]; cbn [lift bind]; try (cbn [sim]; auto; fail).
  rewrite !C_lose_rights. apply sim_lift.
Qed.

(* (a) the outcome of apply_move does not depend on in-range counters *)
Theorem apply_move_counter_independent m b l n l' n' :
  ctr_ok l n -> ctr_ok l' n' ->
  sim (apply_move T m (rectr b l n)) (apply_move T m (rectr b l' n')).
Proof.
  intros K K'. destruct m as [f t cap|f t cap pp|f t|f t]; cbn [apply_move].
  - apply apply_std_sim; assumption.
  - apply apply_promo_sim; assumption.
  - apply apply_ep_sim; assumption.
  - apply apply_castle_sim; assumption.
Qed.

(* a Panic of apply_move with counters in range is not a counter overflow: the same move on
   the same board with ANY in-range counters (e.g. the fresh [0] and 1) panics as well.
   (The remaining Panic sources are an empty en-passant / castle-rights stack and the
   unwrap()s of Board::put / Board::remove, none of which reads the counters.) *)
Theorem apply_no_counter_panic m b :
  apply_move T m b = Panic ->
  fullmove b <> FULLMOVE_MAX -> hm_stack b <> [] -> top (hm_stack b) <> U8_MAX ->
  forall l' n', ctr_ok l' n' -> apply_move T m (rectr b l' n') = Panic.
Proof.
  intros H Hf Hne Hh l' n' K'.
  assert (K : ctr_ok (hm_stack b) (fullmove b)).
  { split; [exact Hf|]. destruct (hm_stack b) as [|h r]; [contradiction|]. exists h, r. split; [reflexivity|exact Hh]. }
  pose proof (apply_move_counter_independent m b _ _ l' n' K K') as S.
  rewrite rectr_self, H in S. destruct (apply_move T m (rectr b l' n')); cbn [sim] in S; try contradiction.
  reflexivity.
Qed.

Corollary apply_no_counter_panic_fresh m b :
  apply_move T m b = Panic ->
  fullmove b <> FULLMOVE_MAX -> hm_stack b <> [] -> top (hm_stack b) <> U8_MAX ->
  apply_move T m (rectr b [0] 1) = Panic.
Proof.
  intros H Hf Hne Hh. apply (apply_no_counter_panic m b H Hf Hne Hh).
  split; [discriminate|]. exists 0, []. split; [reflexivity|discriminate].
Qed.

End CounterIndependence.

Section GameRange.
Variable T : ztable.
Variables rook_t bishop_t : N -> N -> N.

(* (b) in a game of fewer than 65534 plies from move counter 1 that is not yet drawn on move
   count, both counters are in range, so by (a) no abort of the next move is theirs *)
Theorem game_counters_in_range ms b b1 c s e bx :
  play T ms b = Ok b1 -> hm_stack b <> [] ->
  fullmove b = 1 -> N.of_nat (length ms) < 65534 ->
  max_seen b1 = Ok s -> s <> REPETITION_DRAW_COUNT ->
  game_ending T rook_t bishop_t b1 c = Ok (e, bx) -> e <> Some Draw ->
  ctr_ok (hm_stack b1) (fullmove b1) /\ fullmove b1 = 1 + N.of_nat (length ms) /\ top (hm_stack b1) < 100.
Proof.
  intros H Hne Hf Hlen Hs Hs3 He Hd.
  assert (F : fullmove b1 = fullmove b + N.of_nat (length ms) /\ length (hm_stack b1) = (length (hm_stack b) + length ms)%nat).
  { clear - H. revert b b1 H. induction ms as [|m ms IH]; intros b b1 H.
    - cbn in H. inversion H; subst. cbn [length]. split; lia.
    - cbn [play] in H. destruct (apply_move T m b) as [b2|er|] eqn:A; cbn [bind] in H; try discriminate H.
      destruct (IH _ _ H) as [F L]. destruct (apply_clocks T _ _ _ A) as [F1 S1].
      change (fullmove (toggle_turn b2)) with (fullmove b2) in F.
      change (hm_stack (toggle_turn b2)) with (hm_stack b2) in L.
      rewrite S1 in L. cbn [length] in *. split; lia. }
  destruct F as [F L].
  destruct (hm_stack b1) as [|h r] eqn:E1.
  { destruct (hm_stack b); [contradiction|cbn [length] in L; lia]. }
  assert (Hh : halfmove b1 = Ok h) by (unfold halfmove; rewrite E1; reflexivity).
  destruct (clock_below_255_unless_drawn T rook_t bishop_t b1 c s h e bx Hs Hs3 Hh He Hd) as [L100 _].
  split; [|split].
  - split; [unfold FULLMOVE_MAX; lia|]. exists h, r. split; [reflexivity|unfold U8_MAX; lia].
  - lia.
  - cbn [top hd]. exact L100.
Qed.

End GameRange.

(* ------------------------------------------------------------------------------------ *)
(* 5. Examples: the hypotheses are satisfiable, on the starting position                 *)
(* ------------------------------------------------------------------------------------ *)
Ltac vm_conj :=
  repeat (lazymatch goal with |- _ /\ _ => split; [vm_compute; reflexivity|] end);
  vm_compute; reflexivity.

Definition ok_or (d : board) (r : res board) : board := match r with Ok b => b | _ => d end.

Definition ex_b0 : board := start_board zero_table.
Definition ex_Nf3 : cmove := Std 6 21 None.     (* g1-f3 *)
Definition ex_e5 : cmove := Std 52 36 None.     (* e7-e5 *)
Definition ex_Nf6 : cmove := Std 62 45 None.    (* g8-f6 *)
Definition ex_b1 : board := ok_or board_new (apply_move zero_table ex_Nf3 ex_b0).
Definition ex_b2 : board := ok_or board_new (apply_move zero_table ex_e5 (toggle_turn ex_b1)).

(* 1.Nf3 e5: the clock reads 0, 1, 0 and the move counter 1, 2, 3 *)
Example ex_clock_0_1_0 :
  apply_move zero_table ex_Nf3 ex_b0 = Ok ex_b1 /\
  apply_move zero_table ex_e5 (toggle_turn ex_b1) = Ok ex_b2 /\
  (hm_stack ex_b0, fullmove ex_b0) = ([0], 1) /\
  (hm_stack ex_b1, fullmove ex_b1) = ([1; 0], 2) /\
  (hm_stack ex_b2, fullmove ex_b2) = ([0; 1; 0], 3) /\
  resets ex_b0 ex_Nf3 = false /\ resets (toggle_turn ex_b1) ex_e5 = true.
Proof. vm_conj. Qed.

(* hypotheses of apply_clocks / undo_clocks / apply_undo_clocks *)
Example ex_apply_undo :
  apply_move zero_table ex_Nf3 ex_b0 = Ok ex_b1 /\
  (exists b2, undo_move zero_table ex_Nf3 ex_b1 = Ok b2 /\ (hm_stack b2, fullmove b2) = ([0], 1)).
Proof.
  split; [vm_compute; reflexivity|].
  exists (ok_or board_new (undo_move zero_table ex_Nf3 ex_b1)). vm_conj.
Qed.

(* hypotheses of clocks_faithful / play_spec_fold / draw_after_play: 1.Nf3 Nf6 *)
Example ex_play :
  exists b', play zero_table [ex_Nf3; ex_Nf6] ex_b0 = Ok b' /\
    reset_flags zero_table [ex_Nf3; ex_Nf6] ex_b0 = [false; false] /\
    top (hm_stack b') = 2 /\ fullmove b' = 3 /\ max_seen b' = Ok 1.
Proof. exists (ok_or board_new (play zero_table [ex_Nf3; ex_Nf6] ex_b0)). vm_conj. Qed.
Example ex_play_squares : Forall (fun m => mv_from m < 64) [ex_Nf3; ex_Nf6].
Proof. repeat constructor. Qed.

(* why apply_captures_from_board needs from <> to: the null move g1-g1 is accepted by
   StandardChessMove::apply, finds g1 occupied beforehand, and is not a capture *)
Example ex_null_move :
  exists b1, apply_move zero_table (Std 6 6 None) ex_b0 = Ok b1 /\
    board_captures ex_b0 (Std 6 6 None) = true /\ hm_stack b1 = [1; 0].
Proof. exists (ok_or board_new (apply_move zero_table (Std 6 6 None) ex_b0)). vm_conj. Qed.

(* hypotheses of draw_iff_100, both sides of the threshold, with the ray-walk sliders *)
Example ex_draw_at_100 :
  max_seen (set_hm ex_b0 [100]) = Ok 1 /\ halfmove (set_hm ex_b0 [100]) = Ok 100 /\
  game_ending zero_table rook_ref bishop_ref (set_hm ex_b0 [100]) White = Ok (Some Draw, set_hm ex_b0 [100]).
Proof. vm_conj. Qed.

Example ex_no_draw_at_99 :
  max_seen (set_hm ex_b0 [99]) = Ok 1 /\ halfmove (set_hm ex_b0 [99]) = Ok 99 /\
  option_map fst (match game_ending zero_table rook_ref bishop_ref (set_hm ex_b0 [99]) White with
                  | Ok x => Some x | _ => None end) = Some None.
Proof. vm_conj. Qed.

(* hypotheses of apply_no_counter_panic: a Panic that is not the counters' (the en-passant
   stack is empty), with the counters in range; and the conclusion checked on it *)
Example ex_foreign_panic :
  apply_move zero_table ex_Nf3 (set_ep ex_b0 []) = Panic /\
  fullmove (set_ep ex_b0 []) = 1 /\ hm_stack (set_ep ex_b0 []) = [0] /\
  apply_move zero_table ex_Nf3 (rectr (set_ep ex_b0 []) [7; 3] 500) = Panic.
Proof. vm_conj. Qed.
(* ... whereas the counters at their maximum do abort an otherwise fine move *)
Example ex_counter_panic :
  apply_move zero_table ex_Nf3 (rectr ex_b0 [0] 65535) = Panic /\
  apply_move zero_table ex_Nf3 (rectr ex_b0 [255] 1) = Panic /\
  apply_move zero_table ex_e5 (rectr (toggle_turn ex_b1) [255] 1) = Ok (rectr ex_b2 [0; 255] 2).
Proof. vm_conj. Qed.

(* hypotheses of game_counters_in_range *)
Example ex_in_range :
  exists b1, play zero_table [ex_Nf3; ex_Nf6] ex_b0 = Ok b1 /\ hm_stack ex_b0 <> [] /\ fullmove ex_b0 = 1 /\
    max_seen b1 = Ok 1 /\
    match game_ending zero_table rook_ref bishop_ref b1 White with Ok (e, _) => e = None | _ => False end.
Proof.
  exists (ok_or board_new (play zero_table [ex_Nf3; ex_Nf6] ex_b0)).
  split; [vm_compute; reflexivity|]. split; [vm_compute; discriminate|]. vm_conj.
Qed.

Print Assumptions apply_clocks.
Print Assumptions undo_clocks.
Print Assumptions apply_clocks_board.
Print Assumptions apply_abs_clocks.
Print Assumptions clocks_faithful.
Print Assumptions clocks_faithful_spec.
Print Assumptions draw_iff_100.
Print Assumptions draw_after_play.
Print Assumptions apply_move_counter_independent.
Print Assumptions apply_no_counter_panic.
Print Assumptions game_counters_in_range.
