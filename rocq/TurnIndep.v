(* TurnIndep.v — move application and undo never look at the side-to-move field and never
   change it: they commute with [set_turn] / [toggle_turn].  Consequence for the search and the
   move generator, which call undo on a board whose side has been toggled and toggle afterwards:
   [undo_toggled].  Proofs only.  Companion of UndoProofs.v. *)
From Coq Require Import Lia.
From ChessV Require Import Moves.
From ChessV Require Export UndoProofs.

Definition rmap {A B} (f : A -> B) (r : res A) : res B :=
  match r with Ok a => Ok (f a) | Err e => Err e | Panic => Panic end.

Lemma rmap_ok {A B} (f : A -> B) r y : rmap f r = Ok y -> exists x, r = Ok x /\ y = f x.
Proof. destruct r; cbn; intro H; try discriminate. inversion H. eexists; split; reflexivity. Qed.

Section WithTable.
Variable T : ztable.
Variable c0 : color.

Definition st (b : board) : board := set_turn b c0.

Lemma bget_st b i : bget (st b) i = bget b i.
Proof. reflexivity. Qed.

Lemma bremove_st b i :
  bremove T (st b) i = option_map (fun x => (fst x, st (snd x))) (bremove T b i).
Proof.
  unfold bremove. rewrite bget_st. destruct (bget b i) as [[p d]|]; [|reflexivity].
  destruct d; cbn [pieces st set_turn white black];
    match goal with |- context [premove ?s i] => destruct (premove s i) as [[q s']|] end; reflexivity.
Qed.

Lemma put_st b i p d : put T (st b) i p d = rmap st (put T b i p d).
Proof.
  unfold put. change (is_occupied (st b) i) with (is_occupied b i).
  destruct (is_occupied b i); [reflexivity|].
  destruct d; cbn [pieces st set_turn white black];
    match goal with |- context [pput ?s i p] => destruct (pput s i p) end; reflexivity.
Qed.

Lemma remove_unwrap_st b i : remove_unwrap T (st b) i = rmap st (remove_unwrap T b i).
Proof. unfold remove_unwrap. rewrite bremove_st. destruct (bremove T b i) as [[pc b']|]; reflexivity. Qed.

Lemma reset_halfmove_st b : reset_halfmove (st b) = st (reset_halfmove b).
Proof. reflexivity. Qed.

Lemma inc_halfmove_st b : inc_halfmove (st b) = rmap st (inc_halfmove b).
Proof.
  rewrite !inc_halfmove_eq. change (hm_stack (st b)) with (hm_stack b).
  destruct (hm_stack b) as [|old rest]; [reflexivity|]. destruct (old =? U8_MAX); reflexivity.
Qed.

Lemma pop_halfmove_st b : pop_halfmove (st b) = rmap st (pop_halfmove b).
Proof. unfold pop_halfmove. change (hm_stack (st b)) with (hm_stack b). destruct (hm_stack b); reflexivity. Qed.

Lemma inc_fullmove_st b : inc_fullmove (st b) = rmap st (inc_fullmove b).
Proof. unfold inc_fullmove. change (fullmove (st b)) with (fullmove b). destruct (fullmove b =? FULLMOVE_MAX); reflexivity. Qed.

Lemma dec_fullmove_st b : dec_fullmove (st b) = rmap st (dec_fullmove b).
Proof. unfold dec_fullmove. change (fullmove (st b)) with (fullmove b). destruct (fullmove b =? 0); reflexivity. Qed.

Lemma push_ep_st b t : push_ep T (st b) t = rmap st (push_ep T b t).
Proof. rewrite !push_ep_eq. change (ep_stack (st b)) with (ep_stack b). destruct (ep_stack b); reflexivity. Qed.

Lemma pop_ep_st b : pop_ep T (st b) = rmap (fun x => (fst x, st (snd x))) (pop_ep T b).
Proof. rewrite !pop_ep_eq. change (ep_stack (st b)) with (ep_stack b). destruct (ep_stack b) as [|t [|r rest]]; reflexivity. Qed.

Lemma lose_rights_st b l : lose_rights T (st b) l = rmap st (lose_rights T b l).
Proof. rewrite !lose_rights_eq. change (cr_stack (st b)) with (cr_stack b). destruct (cr_stack b); reflexivity. Qed.

Lemma pop_rights_st b : pop_rights T (st b) = rmap st (pop_rights T b).
Proof. rewrite !pop_rights_eq. change (cr_stack (st b)) with (cr_stack b). destruct (cr_stack b) as [|t [|r rest]]; reflexivity. Qed.

Lemma preserve_rights_st b : preserve_rights (st b) = rmap st (preserve_rights b).
Proof. rewrite !preserve_rights_eq. change (cr_stack (st b)) with (cr_stack b). destruct (cr_stack b); reflexivity. Qed.

Ltac fin := cbn [rmap bind unwrap option_map fst snd]; try reflexivity.

(* the common tail of apply_std / apply_ep / apply_castle *)
Ltac tail_fm := rewrite inc_fullmove_st; destruct (inc_fullmove _); fin.
Ltac tail_ep := rewrite push_ep_st; destruct (push_ep _ _ _); fin.
Ltac tail_put := rewrite put_st; destruct (put _ _ _ _ _); fin.

Lemma apply_std_st b from to cap : apply_std T (st b) from to cap = rmap st (apply_std T b from to cap).
Proof.
  unfold apply_std. rewrite bremove_st.
  destruct (bremove T b from) as [[[p c] b1]|]; fin.
  rewrite bremove_st.
  destruct (bremove T b1 to) as [[pc b2]|]; fin.
  - destruct (negb (opt_pc_eqb (Some pc) (option_map (fun cp => (cp, opp_c c)) cap))); fin.
    rewrite reset_halfmove_st. tail_fm. tail_ep.
    rewrite lose_rights_st; destruct (lose_rights _ _ _); fin. tail_put.
  - destruct (negb (opt_pc_eqb None (option_map (fun cp => (cp, opp_c c)) cap))); fin.
    destruct (piece_eqb p Pawn); fin.
    + rewrite reset_halfmove_st. tail_fm. tail_ep.
      rewrite lose_rights_st; destruct (lose_rights _ _ _); fin. tail_put.
    + rewrite inc_halfmove_st; destruct (inc_halfmove _); fin. tail_fm. tail_ep.
      rewrite lose_rights_st; destruct (lose_rights _ _ _); fin. tail_put.
Qed.

Ltac pops :=
  rewrite pop_halfmove_st; destruct (pop_halfmove _); fin;
  rewrite dec_fullmove_st; destruct (dec_fullmove _); fin;
  rewrite pop_ep_st; destruct (pop_ep _ _) as [[t0 bx]| |]; fin;
  rewrite pop_rights_st; destruct (pop_rights _ _); fin.

Lemma undo_std_st b from to cap : undo_std T (st b) from to cap = rmap st (undo_std T b from to cap).
Proof.
  unfold undo_std. rewrite bremove_st.
  destruct (bremove T b to) as [[[p c] b1]|]; fin.
  destruct cap as [cp|]; fin.
  - tail_put. pops. tail_put.
  - pops. tail_put.
Qed.

Lemma apply_promo_st b from to cap pp :
  apply_promo T (st b) from to cap pp = rmap st (apply_promo T b from to cap pp).
Proof.
  unfold apply_promo. rewrite apply_std_st. destruct (apply_std T b from to cap) as [b1| |]; fin.
  rewrite bremove_st. destruct (bremove T b1 to) as [[[p c] b2]|]; fin.
  destruct p; fin. tail_put.
Qed.

Lemma undo_promo_st b from to cap pp :
  undo_promo T (st b) from to cap pp = rmap st (undo_promo T b from to cap pp).
Proof.
  unfold undo_promo. rewrite bremove_st. destruct (bremove T b to) as [[[p c] b1]|]; fin.
  destruct (piece_eqb p pp); fin. tail_put. apply undo_std_st.
Qed.

Lemma apply_ep_st b from to : apply_ep T (st b) from to = rmap st (apply_ep T b from to).
Proof.
  unfold apply_ep. rewrite bremove_st. destruct (bremove T b from) as [[[p c] b1]|]; fin.
  destruct (negb (piece_eqb p Pawn)); fin.
  rewrite bremove_st. destruct (bremove T b1 (ep_captured_square c to)) as [[pc b2]|]; fin.
  rewrite reset_halfmove_st. tail_fm. tail_ep.
  rewrite preserve_rights_st; destruct (preserve_rights _); fin. tail_put.
Qed.

Lemma undo_ep_st b from to : undo_ep T (st b) from to = rmap st (undo_ep T b from to).
Proof.
  unfold undo_ep. rewrite bremove_st. destruct (bremove T b to) as [[[p c] b1]|]; fin.
  destruct (negb (piece_eqb p Pawn)); fin.
  tail_put. pops. tail_put.
Qed.

Lemma apply_castle_st b from to : apply_castle T (st b) from to = rmap st (apply_castle T b from to).
Proof.
  unfold apply_castle. destruct (castle_shape from to) as [[[c rf] rt]| |]; fin.
  rewrite !bget_st.
  destruct (negb (opt_pc_eqb (bget b from) (Some (King, c)))); fin.
  destruct (negb (is_none (bget b to))); fin.
  destruct (negb (opt_pc_eqb (bget b rf) (Some (Rook, c)))); fin.
  destruct (negb (is_none (bget b rt))); fin.
  rewrite remove_unwrap_st; destruct (remove_unwrap _ _ _); fin. tail_put.
  rewrite remove_unwrap_st; destruct (remove_unwrap _ _ _); fin. tail_put.
  rewrite inc_halfmove_st; destruct (inc_halfmove _); fin. tail_fm. tail_ep.
  apply lose_rights_st.
Qed.

Lemma undo_castle_st b from to : undo_castle T (st b) from to = rmap st (undo_castle T b from to).
Proof.
  unfold undo_castle. destruct (castle_shape from to) as [[[c rf] rt]| |]; fin.
  rewrite !bget_st.
  destruct (negb (opt_pc_eqb (bget b to) (Some (King, c)))); fin.
  destruct (negb (is_none (bget b from))); fin.
  destruct (negb (opt_pc_eqb (bget b rt) (Some (Rook, c)))); fin.
  destruct (negb (is_none (bget b rf))); fin.
  rewrite remove_unwrap_st; destruct (remove_unwrap _ _ _); fin. tail_put.
  rewrite remove_unwrap_st; destruct (remove_unwrap _ _ _); fin. tail_put.
  rewrite dec_fullmove_st; destruct (dec_fullmove _); fin.
  rewrite pop_halfmove_st; destruct (pop_halfmove _); fin.
  rewrite pop_ep_st; destruct (pop_ep _ _) as [[t0 bx]| |]; fin.
  apply pop_rights_st.
Qed.

Theorem apply_move_st m b : apply_move T m (st b) = rmap st (apply_move T m b).
Proof.
  destruct m; cbn [apply_move];
    [apply apply_std_st | apply apply_promo_st | apply apply_ep_st | apply apply_castle_st].
Qed.

Theorem undo_move_st m b : undo_move T m (st b) = rmap st (undo_move T m b).
Proof.
  destruct m; cbn [undo_move];
    [apply undo_std_st | apply undo_promo_st | apply undo_ep_st | apply undo_castle_st].
Qed.

End WithTable.

Lemma set_turn_same b : set_turn b (turn b) = b.
Proof. destruct b; reflexivity. Qed.

Section WithTable2.
Variable T : ztable.

(* neither operation changes the side to move (no invariant needed) *)
Theorem apply_move_turn m b b' : apply_move T m b = Ok b' -> turn b' = turn b.
Proof.
  intro H. pose proof (apply_move_st T (turn b) m b) as E. unfold st in E.
  rewrite set_turn_same, H in E. cbn [rmap] in E. inversion E as [E']. rewrite E' at 1. reflexivity.
Qed.

Theorem undo_move_turn m b b' : undo_move T m b = Ok b' -> turn b' = turn b.
Proof.
  intro H. pose proof (undo_move_st T (turn b) m b) as E. unfold st in E.
  rewrite set_turn_same, H in E. cbn [rmap] in E. inversion E as [E']. rewrite E' at 1. reflexivity.
Qed.

Theorem apply_move_toggle_turn m b b' :
  apply_move T m b = Ok b' -> apply_move T m (toggle_turn b) = Ok (toggle_turn b').
Proof.
  intro H. unfold toggle_turn. rewrite (apply_move_turn m b b' H).
  pose proof (apply_move_st T (opp_c (turn b)) m b) as E. unfold st in E. rewrite E, H. reflexivity.
Qed.

Theorem undo_move_toggle_turn m b b' :
  undo_move T m b = Ok b' -> undo_move T m (toggle_turn b) = Ok (toggle_turn b').
Proof.
  intro H. unfold toggle_turn. rewrite (undo_move_turn m b b' H).
  pose proof (undo_move_st T (opp_c (turn b)) m b) as E. unfold st in E. rewrite E, H. reflexivity.
Qed.

(* the shape used by the search (Search.ab) and by effect_of: apply, toggle, ... (the callee
   gives the toggled board back) ..., undo ON THE TOGGLED BOARD, toggle *)
Theorem undo_toggled : forall m b b',
  WF b -> sq_ok m -> ep_ok m b = true -> apply_move T m b = Ok b' ->
  exists b5, undo_move T m (toggle_turn b') = Ok b5 /\ toggle_turn b5 = b.
Proof.
  intros m b b' W S Hv H. exists (toggle_turn b).
  split; [|apply toggle_turn_involutive].
  apply undo_move_toggle_turn. apply (undo_apply T m b b' W S Hv H).
Qed.

(* and with the [unwrap]s of the code *)
Corollary make_unmake_unwrap : forall m b b1,
  WF b -> sq_ok m -> ep_ok m b = true -> unwrap (apply_move T m b) = Ok b1 ->
  unwrap (undo_move T m b1) = Ok b /\ WF b1.
Proof.
  intros m b b1 W S Hv H. apply unwrap_ok_inv in H.
  rewrite (undo_apply T m b b1 W S Hv H). split; [reflexivity|]. apply (apply_move_WF T m b b1 W S H).
Qed.

Corollary make_toggle_unmake_unwrap : forall m b b1,
  WF b -> sq_ok m -> ep_ok m b = true -> unwrap (apply_move T m b) = Ok b1 ->
  exists b5, unwrap (undo_move T m (toggle_turn b1)) = Ok b5 /\ toggle_turn b5 = b.
Proof.
  intros m b b1 W S Hv H. apply unwrap_ok_inv in H.
  destruct (undo_toggled m b b1 W S Hv H) as (b5 & U & E). exists b5. rewrite U. split; [reflexivity|exact E].
Qed.

End WithTable2.

Example ex_undo_toggled :
  match apply_move example_table (Castle 4 6) demo_b with
  | Ok b' => match undo_move example_table (Castle 4 6) (toggle_turn b') with
             | Ok b5 => toggle_turn b5 = demo_b /\ turn b5 = Black
             | _ => False
             end
  | _ => False
  end.
Proof. vm_compute. split; reflexivity. Qed.

Print Assumptions apply_move_st.
Print Assumptions undo_move_st.
Print Assumptions undo_toggled.
