(* KeyHistory.v — C05 as a statement over arbitrary operation histories: whatever sequence of
   board-editing operations, moves and take-backs produced a board from Board::new(), its
   incrementally maintained key is the history-free XOR key_of of its observable position. *)
From Coq Require Import Lia.
From ChessV Require Import Abs WfReflect ZobristProofs.
From ChessV Require Rules.

Inductive hop :=
| HPut (i : N) (p : piece) (c : color)
| HRemove (i : N)
| HLose (lost : N)
| HPopRights
| HPushEp (t : N)
| HPopEp
| HApply (m : cmove)
| HUndo (m : cmove)
| HToggle.

(* squares named by an operation are on the board (what the Rust types guarantee: a Bitboard
   argument of put is a single-square u64; moves carry single-square bitboards) *)
Definition hop_ok (o : hop) : Prop :=
  match o with
  | HPut i _ _ => i < 64
  | HApply m => mv_to m < 64
  | HUndo m => undo_squares_ok m
  | _ => True
  end.

Section WithTable.
Variable T : ztable.

(* one operation; a failing operation (Err / None / Panic) leaves the history at that point:
   [None] means the run stops there *)
Definition hstep (b : board) (o : hop) : option board :=
  match o with
  | HPut i p c => match put T b i p c with Ok b' => Some b' | Err _ => Some b | Panic => None end
  | HRemove i => match bremove T b i with Some (_, b') => Some b' | None => Some b end
  | HLose l => match lose_rights T b l with Ok b' => Some b' | _ => None end
  | HPopRights => match pop_rights T b with Ok b' => Some b' | _ => None end
  | HPushEp t => match push_ep T b t with Ok b' => Some b' | _ => None end
  | HPopEp => match pop_ep T b with Ok (_, b') => Some b' | _ => None end
  | HApply m => match apply_move T m b with Ok b' => Some b' | _ => None end
  | HUndo m => match undo_move T m b with Ok b' => Some b' | _ => None end
  | HToggle => Some (toggle_turn b)
  end.

Fixpoint hrun (ops : list hop) (b : board) : option board :=
  match ops with
  | [] => Some b
  | o :: rest => match hstep b o with Some b' => hrun rest b' | None => None end
  end.

Lemma hstep_inv b o b' :
  hop_ok o -> hstep b o = Some b' -> WF b -> KeyInv T b -> WF b' /\ KeyInv T b'.
Proof.
  intros Hok Hs W K. destruct o as [i p c|i|l| |t| |m|m| ]; cbn [hstep hop_ok] in *.
  - destruct (put T b i p c) as [b1|e|] eqn:E; inversion Hs; subst; [|tauto].
    split; [eapply put_WF; eauto | eapply put_KeyInv; eauto].
  - destruct (bremove T b i) as [[pc b1]|] eqn:E; inversion Hs; subst; [|tauto].
    destruct pc as [p c]. split; [eapply bremove_WF; eauto | eapply bremove_KeyInv; eauto].
  - destruct (lose_rights T b l) as [b1|e|] eqn:E; inversion Hs; subst.
    split; [eapply lose_rights_WF; eauto | eapply lose_rights_KeyInv; eauto].
  - destruct (pop_rights T b) as [b1|e|] eqn:E; inversion Hs; subst.
    split; [eapply pop_rights_WF; eauto | eapply pop_rights_KeyInv; eauto].
  - destruct (push_ep T b t) as [b1|e|] eqn:E; inversion Hs; subst.
    split; [eapply push_ep_WF; eauto | eapply push_ep_KeyInv; eauto].
  - destruct (pop_ep T b) as [[t b1]|e|] eqn:E; inversion Hs; subst.
    split; [eapply pop_ep_WF; eauto | eapply pop_ep_KeyInv; eauto].
  - destruct (apply_move T m b) as [b1|e|] eqn:E; inversion Hs; subst.
    split; [eapply apply_move_WF; eauto | eapply apply_move_KeyInv; eauto].
  - destruct (undo_move T m b) as [b1|e|] eqn:E; inversion Hs; subst.
    split; [eapply undo_move_WF; eauto | eapply undo_move_KeyInv; eauto].
  - inversion Hs; subst. split; [apply toggle_turn_WF; exact W|].
    destruct (clock_ops_KeyInv T b K) as (_ & _ & _ & _ & _ & _ & Kt & _). exact Kt.
Qed.

(** C05: after ANY history of operations from the empty board the key is key_of of the position *)
Theorem hash_is_key_of : forall ops b b',
  Forall hop_ok ops -> WF b -> KeyInv T b -> hrun ops b = Some b' -> WF b' /\ KeyInv T b'.
Proof.
  induction ops as [|o rest IH]; intros b b' Hok W K Hr; cbn [hrun] in Hr.
  - inversion Hr; subst. tauto.
  - destruct (hstep b o) as [b1|] eqn:E; [|discriminate].
    inversion Hok as [|? ? Ho Hrest]; subst.
    destruct (hstep_inv b o b1 Ho E W K) as [W1 K1].
    exact (IH b1 b' Hrest W1 K1 Hr).
Qed.

Corollary hash_is_key_of_new : forall ops b',
  Forall hop_ok ops -> hrun ops board_new = Some b' -> hash b' = key_of T (abstract b').
Proof.
  intros ops b' Hok Hr.
  exact (proj2 (hash_is_key_of ops board_new b' Hok WF_new (KeyInv_new T) Hr)).
Qed.

(** two histories ending in the same observable position end with the same key *)
Corollary histories_same_position_same_key : forall ops1 ops2 b1 b2,
  Forall hop_ok ops1 -> Forall hop_ok ops2 ->
  hrun ops1 board_new = Some b1 -> hrun ops2 board_new = Some b2 ->
  Rules.cells (abstract b1) = Rules.cells (abstract b2) ->
  Rules.prights (abstract b1) = Rules.prights (abstract b2) ->
  Rules.pep (abstract b1) = Rules.pep (abstract b2) ->
  hash b1 = hash b2.
Proof.
  intros ops1 ops2 b1 b2 H1 H2 R1 R2 Hc Hr He.
  apply (key_history_independent T b1 b2); try assumption.
  - exact (proj2 (hash_is_key_of ops1 board_new b1 H1 WF_new (KeyInv_new T) R1)).
  - exact (proj2 (hash_is_key_of ops2 board_new b2 H2 WF_new (KeyInv_new T) R2)).
Qed.

End WithTable.

(* non-vacuity: a history with puts, a rights loss, an ep push, a move and its undo *)
Example history_example :
  match hrun example_table
     [HPut 4 King White; HPut 60 King Black; HPut 12 Pawn White; HPut 51 Pawn Black;
      HLose 3; HApply (Std 12 28 None); HToggle; HApply (Std 51 35 None); HUndo (Std 51 35 None);
      HPushEp (bit 20); HPopEp; HRemove 60; HPut 60 King Black] board_new with
  | Some b => hash b = key_of example_table (abstract b) /\ hash b <> 0
  | None => False
  end.
Proof. vm_compute. split; [reflexivity|discriminate]. Qed.

Print Assumptions hash_is_key_of.
Print Assumptions histories_same_position_same_key.
