(* SearchLink.v — C08: the chess search of the model IS the generic alpha-beta / minimax.

   AlphaBeta.v and Interleave.v are generic (positions are an abstract type).  Here they are
   instantiated with  pos := board,
     children b := the positions after every legal move of b, in the engine's search order,
     leaf b d   := the engine's static score of b with remaining depth d,
     LO, HI     := i16::MIN, i16::MAX,
   and the board-threading searcher of Search.v is shown to compute exactly the generic value:

     ab_link   : Search.ab d b alpha beta mx = Ok (AlphaBeta.ab ... d mx b alpha beta, b)
     mm_link   : Search.mm d b mx            = Ok (AlphaBeta.mm ... d mx b)
     ab_full_window_chess : hence Search.ab with the full window returns Search.mm's value
     ab_fail_soft_chess   : with any window, the fail-soft contract w.r.t. Search.mm's value
     search_score_is_minimax / search_move_attains / search_in_root_values : the root (`search`)
     cached_search_same, cached_search_minimax, pool_any_schedule, pool_root_minimax_chess,
     parallel_cached_search_same : the memoised search through any sound cache, and every
       schedule of the parallel root tasks, return Search.ab's / Search.mm's values
       (via InterleaveRel.v; one extra hypothesis key_det_chess about the 64-bit key).

   All statements are relative to an invariant `Good` of positions and a depth bound `D` with
   the hypotheses of SearchFrame's Section Total, plus `score_range` (static scores lie strictly
   inside (i16::MIN, i16::MAX); EvalProofs supplies it).  Proofs only. *)
From Coq Require Import Lia List ZArith Permutation Bool.
From ChessV Require Import BoardLemmas Game UndoProofs EpFrame GenFrame TurnFrame WfReflect SearchFrame.
From ChessV Require AlphaBeta Interleave InterleaveRel.
Import ListNotations.
Open Scope N_scope.
Open Scope list_scope.

#[local] Arguments N.add : simpl never.
#[local] Arguments N.sub : simpl never.
#[local] Arguments N.mul : simpl never.
#[local] Arguments N.eqb : simpl never.
#[local] Arguments N.ltb : simpl never.
#[local] Arguments N.leb : simpl never.
#[local] Arguments N.land : simpl never.
#[local] Arguments N.lor : simpl never.
#[local] Arguments N.lxor : simpl never.
#[local] Arguments N.of_nat : simpl never.
#[local] Arguments Z.max : simpl never.
#[local] Arguments Z.min : simpl never.
#[local] Arguments Z.leb : simpl never.
#[local] Arguments Z.ltb : simpl never.

Lemma SL_Ok_inj {A} (x y : A) : @Ok A x = Ok y -> x = y.
Proof. intro HE. exact (f_equal (fun r => match r with Ok a => a | _ => x end) HE). Qed.

(* ------------------------------------------------------------------ *)
(** * the instance *)

(* a score strictly inside (i16::MIN, i16::MAX) is kept, anything else is replaced by 0;
   under `score_range` this is the identity on every score the search ever sees *)
Definition in_open (v : Z) : bool := ((I16_MIN <? v) && (v <? I16_MAX))%Z.
Definition clamp (v : Z) : Z := if in_open v then v else 0%Z.

Lemma clamp_range v : (I16_MIN < clamp v < I16_MAX)%Z.
Proof.
  unfold clamp, in_open. destruct (Z.ltb_spec I16_MIN v); destruct (Z.ltb_spec v I16_MAX);
    cbn [andb]; unfold I16_MIN, I16_MAX in *; lia.
Qed.

Lemma clamp_id v : (I16_MIN < v < I16_MAX)%Z -> clamp v = v.
Proof.
  intros [Hlo Hhi]. unfold clamp, in_open.
  destruct (Z.ltb_spec I16_MIN v); [|lia]. destruct (Z.ltb_spec v I16_MAX); [|lia]. reflexivity.
Qed.

Section Link.
Variable T : ztable.
Variables rook_t bishop_t : N -> N -> N.

Notation gen_moves := (gen_moves T rook_t bishop_t).
Notation gen_annotated := (gen_annotated T rook_t bishop_t).
Notation score := (score T rook_t bishop_t).
Notation root_task := (root_task T rook_t bishop_t).
Notation root_scores := (root_scores T rook_t bishop_t).
Notation search := (search T rook_t bishop_t).

(* the position after move m of b, turn passed; nothing when the move cannot be made *)
Definition kid (b : board) (m : cmove) : list board :=
  match apply_move T m b with Ok b1 => [toggle_turn b1] | _ => [] end.

Definition kids (b : board) (ms : list cmove) : list board := flat_map (kid b) ms.

(* the child positions in the engine's search order (sort_moves of the annotated legal list) *)
Definition children (b : board) : list board :=
  match gen_annotated b (turn b) with
  | Ok (l, _) => kids b (map fst (sort_moves b l))
  | _ => []
  end.

(* the same positions in generation order (what the oracle Search.mm iterates over) *)
Definition children_gen (b : board) : list board :=
  match gen_annotated b (turn b) with
  | Ok (l, _) => kids b (map fst l)
  | _ => []
  end.

Definition leaf (b : board) (d : nat) : Z :=
  match score b (turn b) (N.of_nat d) with
  | Ok (v, _) => clamp v
  | _ => 0%Z
  end.

Notation gab := (AlphaBeta.ab board children leaf I16_MIN I16_MAX).
Notation gmm := (AlphaBeta.mm board children leaf I16_MIN I16_MAX).
Notation gmm_gen := (AlphaBeta.mm board children_gen leaf I16_MIN I16_MAX).

(* the generic theorems' only hypothesis holds for every board, Good or not *)
Lemma leaf_range : forall b d, (I16_MIN < leaf b d < I16_MAX)%Z.
Proof.
  intros b d. unfold leaf. destruct (score b (turn b) (N.of_nat d)) as [[v b']|e|].
  - apply clamp_range.
  - unfold I16_MIN, I16_MAX. lia.
  - unfold I16_MIN, I16_MAX. lia.
Qed.

Lemma kids_perm b l1 l2 : Permutation l1 l2 -> Permutation (kids b l1) (kids b l2).
Proof.
  intro HP. unfold kids.
  induction HP as [|x l l' HP IH|x y l|l l' l'' HP1 IH1 HP2 IH2]; cbn [flat_map].
  - constructor.
  - apply Permutation_app_head. exact IH.
  - rewrite !app_assoc. apply Permutation_app_tail. apply Permutation_app_comm.
  - exact (perm_trans IH1 IH2).
Qed.

(* move ordering: the two child functions differ by a permutation, at every board *)
Lemma children_perm : forall b, Permutation (children b) (children_gen b).
Proof.
  intro b. unfold children, children_gen.
  destruct (gen_annotated b (turn b)) as [[l b']|e|]; [|constructor|constructor].
  apply kids_perm, Permutation_map, sort_moves_perm.
Qed.

(* ------------------------------------------------------------------ *)
(** * under the invariant *)

Variable Good : board -> Prop.
Variable D : N.
(* the four hypotheses of SearchFrame.Total, verbatim *)
Hypothesis Good_inv : forall b, Good b -> WF b /\ ep_wf b (turn b).
Hypothesis Good_gen : forall b, Good b -> exists l b', gen_annotated b (turn b) = Ok (l, b').
Hypothesis Good_step : forall b ms m b1,
  Good b -> gen_moves b (turn b) = Ok (ms, b) -> In m ms -> apply_move T m b = Ok b1 ->
  Good (toggle_turn b1).
Hypothesis Good_score : forall b d, Good b -> d <= D -> exists v b', score b (turn b) d = Ok (v, b').
(* NEW hypothesis (not in SearchFrame.Total): every static score of a Good position lies strictly
   between i16::MIN and i16::MAX.  Needed because the search initialises `value` with
   i16::MIN / i16::MAX: a leaf scoring exactly i16::MIN would be indistinguishable from "no
   child seen yet" and alpha-beta = minimax would fail at the window edge. *)
Hypothesis score_range : forall b d v b',
  Good b -> d <= D -> score b (turn b) d = Ok (v, b') -> (I16_MIN < v < I16_MAX)%Z.

Notation step_ok := (step_ok T Good).

Let L_steps := legal_steps T rook_t bishop_t Good Good_inv Good_step.

Lemma leaf_good b d v b' :
  Good b -> N.of_nat d <= D -> score b (turn b) (N.of_nat d) = Ok (v, b') -> leaf b d = v /\ b' = b.
Proof.
  intros HG HD Hs. destruct (Good_inv b HG) as [HW HEp]. split.
  - unfold leaf. rewrite Hs. apply clamp_id. exact (score_range b _ v b' HG HD Hs).
  - exact (score_board T rook_t bishop_t _ _ _ _ _ HW HEp Hs).
Qed.

(* the static score of a Good position, as the engine computes it, is the generic leaf value *)
Lemma score_leaf b d :
  Good b -> N.of_nat d <= D -> score b (turn b) (N.of_nat d) = Ok (leaf b d, b).
Proof.
  intros HG HD. destruct (Good_score b (N.of_nat d) HG HD) as [v [b' Hs]].
  destruct (leaf_good b d v b' HG HD Hs) as [Hl Hb]. rewrite Hs, Hl, Hb. reflexivity.
Qed.

Lemma kid_step b m : step_ok b m ->
  exists b1, apply_move T m b = Ok b1 /\ Good (toggle_turn b1) /\ kid b m = [toggle_turn b1].
Proof.
  intros (_ & _ & b1 & Ha & HG1). exists b1. split; [exact Ha|]. split; [exact HG1|].
  unfold kid. rewrite Ha. reflexivity.
Qed.

(* the generated list of a Good position: board handed back, every move is a good step *)
Lemma good_gen b : Good b ->
  exists l, gen_annotated b (turn b) = Ok (l, b) /\ gen_moves b (turn b) = Ok (map fst l, b)
            /\ forall m, In m (map fst l) -> step_ok b m.
Proof.
  intro HG. destruct (Good_gen b HG) as [l [b' Hg]]. destruct (Good_inv b HG) as [HW HEp].
  destruct (L_steps b l b' HG Hg) as [Hb Hst]. subst b'.
  exists l. split; [exact Hg|]. split; [|exact Hst].
  exact (proj2 (gen_annotated_board T rook_t bishop_t _ _ _ _ HW HEp Hg)).
Qed.

Lemma children_good b l : Good b -> gen_annotated b (turn b) = Ok (l, b) ->
  children b = kids b (map fst (sort_moves b l)) /\ children_gen b = kids b (map fst l).
Proof. intros HG Hg. unfold children, children_gen. rewrite Hg. split; reflexivity. Qed.

Lemma kids_nil_iff b ms : (forall m, In m ms -> step_ok b m) -> (kids b ms = [] <-> ms = []).
Proof.
  intro Hst. split.
  - destruct ms as [|m rest]; [reflexivity|]. intro HK. exfalso.
    destruct (kid_step b m (Hst m (or_introl eq_refl))) as [b1 [_ [_ Hk]]].
    unfold kids in HK. cbn [flat_map] in HK. rewrite Hk in HK. discriminate HK.
  - intros ->. reflexivity.
Qed.

Lemma kids_good b ms c : (forall m, In m ms -> step_ok b m) -> In c (kids b ms) -> Good c.
Proof.
  intros Hst Hin. unfold kids in Hin. apply in_flat_map in Hin. destruct Hin as [m [Hm Hc]].
  destruct (kid_step b m (Hst m Hm)) as [b1 [_ [HG1 Hk]]]. rewrite Hk in Hc.
  destruct Hc as [<-|[]]. exact HG1.
Qed.

(* every child of a Good position is Good *)
Lemma children_Good b c : Good b -> In c (children b) -> Good c.
Proof.
  intros HG Hin. destruct (good_gen b HG) as [l [Hg [_ Hst]]].
  rewrite (proj1 (children_good b l HG Hg)) in Hin.
  apply (kids_good b (map fst (sort_moves b l))); [|exact Hin].
  intros m Hm. apply Hst.
  exact (Permutation_in _ (Permutation_map fst (sort_moves_perm b l)) Hm).
Qed.

(* ------------------------------------------------------------------ *)
(** * the loops *)

(* the engine's maximising loop (make, recurse, unmake; board threaded) over a list of good
   steps computes the generic loop over the child positions and hands the board back *)
Lemma lp_max_link (rec : board -> Z -> Z -> bool -> res (Z * board)) (g : board -> Z -> Z -> Z) bound :
  (forall c al be, Good c -> rec c al be false = Ok (g c al be, c)) ->
  forall ms b value al, WF b -> Forall (fun me => step_ok b (fst me)) ms ->
    lp_max T rec bound ms b value al
    = Ok (AlphaBeta.loop_max board g (kids b (map fst ms)) value al bound, b).
Proof.
  intros Hrec. induction ms as [|me rest IH]; intros b value al HW HF.
  - reflexivity.
  - inversion HF as [|? ? Hme HFrest]; subst.
    pose proof Hme as (HSq & HPq & _).
    destruct (kid_step b (fst me) Hme) as [b2 [Ha [HG2 Hk]]].
    cbn [lp_max map]. unfold kids. cbn [flat_map]. rewrite Hk. cbn [app].
    rewrite Ha. cbn [unwrap bind].
    rewrite (Hrec (toggle_turn b2) al bound HG2). cbn [bind]. cbv beta iota zeta.
    rewrite (undo_after_toggle T _ _ _ HW HSq HPq Ha). cbn [unwrap bind].
    rewrite toggle_turn_involutive.
    cbn [AlphaBeta.loop_max]. cbv zeta.
    destruct (_ <=? _)%Z; [reflexivity|]. exact (IH b _ _ HW HFrest).
Qed.

Lemma lp_min_link (rec : board -> Z -> Z -> bool -> res (Z * board)) (g : board -> Z -> Z -> Z) bound :
  (forall c al be, Good c -> rec c al be true = Ok (g c al be, c)) ->
  forall ms b value be, WF b -> Forall (fun me => step_ok b (fst me)) ms ->
    lp_min T rec bound ms b value be
    = Ok (AlphaBeta.loop_min board g (kids b (map fst ms)) value bound be, b).
Proof.
  intros Hrec. induction ms as [|me rest IH]; intros b value be HW HF.
  - reflexivity.
  - inversion HF as [|? ? Hme HFrest]; subst.
    pose proof Hme as (HSq & HPq & _).
    destruct (kid_step b (fst me) Hme) as [b2 [Ha [HG2 Hk]]].
    cbn [lp_min map]. unfold kids. cbn [flat_map]. rewrite Hk. cbn [app].
    rewrite Ha. cbn [unwrap bind].
    rewrite (Hrec (toggle_turn b2) bound be HG2). cbn [bind]. cbv beta iota zeta.
    rewrite (undo_after_toggle T _ _ _ HW HSq HPq Ha). cbn [unwrap bind].
    rewrite toggle_turn_involutive.
    cbn [AlphaBeta.loop_min]. cbv zeta.
    destruct (_ <=? _)%Z; [reflexivity|]. exact (IH b _ _ HW HFrest).
Qed.

(* ------------------------------------------------------------------ *)
(** * alpha_beta_minimax = the generic fail-soft alpha-beta *)

(* C08 core: on a Good position, for every window and either side, the board-threading
   alpha_beta_minimax of the engine returns exactly the value of the generic alpha-beta over
   (children, leaf), and hands back the caller's board.  Every generic theorem about
   AlphaBeta.ab is thereby a theorem about the engine's search. *)
Theorem ab_link : forall d b alpha beta mx,
  Good b -> N.of_nat d <= D ->
  Search.ab T rook_t bishop_t d b alpha beta mx = Ok (gab d mx b alpha beta, b).
Proof.
  induction d as [|d' IH]; intros b alpha beta mx HG HD.
  - rewrite ab_0. cbn [AlphaBeta.ab]. exact (score_leaf b 0 HG HD).
  - rewrite ab_S. destruct (Good_inv b HG) as [HW HEp].
    destruct (good_gen b HG) as [l [Hg [_ Hst]]].
    rewrite Hg. cbn [bind]. cbv beta iota zeta.
    assert (HF : Forall (fun me => step_ok b (fst me)) (sort_moves b l)).
    { apply Forall_forall. intros me Hin. apply Hst. apply in_map.
      exact (Permutation_in _ (sort_moves_perm b l) Hin). }
    assert (HD' : N.of_nat d' <= D) by lia.
    cbn [AlphaBeta.ab]. rewrite (proj1 (children_good b l HG Hg)).
    destruct (sort_moves b l) as [|me rest] eqn:Es.
    + cbn [is_nil map]. unfold kids. cbn [flat_map]. exact (score_leaf b (S d') HG HD).
    + cbn [is_nil].
      destruct (kids b (map fst (me :: rest))) as [|c cs] eqn:Ek.
      { exfalso. apply (kids_nil_iff b (map fst (me :: rest))) in Ek; [discriminate Ek|].
        intros m Hm. apply in_map_iff in Hm. destruct Hm as [me' [<- Hin]].
        rewrite Forall_forall in HF. exact (HF me' Hin). }
      rewrite <- Ek. destruct mx.
      * apply (lp_max_link (Search.ab T rook_t bishop_t d') (gab d' false) beta); [|exact HW|exact HF].
        intros c0 al be HG0. exact (IH c0 al be false HG0 HD').
      * apply (lp_min_link (Search.ab T rook_t bishop_t d') (gab d' true) alpha); [|exact HW|exact HF].
        intros c0 al be HG0. exact (IH c0 al be true HG0 HD').
Qed.


(* ------------------------------------------------------------------ *)
(** * the oracle Search.mm = the generic minimax *)

Lemma mm_0 b mx : Search.mm T rook_t bishop_t 0 b mx = let* (s, _) := score b (turn b) 0 in Ok s.
Proof. reflexivity. Qed.

Lemma mm_S d' b mx :
  Search.mm T rook_t bishop_t (S d') b mx =
  let* (ms, b1) := gen_moves b (turn b) in
  if is_nil ms then let* (s, _) := score b1 (turn b1) (N.of_nat (S d')) in Ok s
  else
    fold_left (fun acc m =>
        let* a := acc in
        let* b2 := unwrap (apply_move T m b1) in
        let* v := Search.mm T rook_t bishop_t d' (toggle_turn b2) (negb mx) in
        Ok (if mx then Z.max a v else Z.min a v))
      ms (Ok (if mx then I16_MIN else I16_MAX)).
Proof. reflexivity. Qed.

Lemma mm_fold_link (rec : board -> bool -> res Z) (g : board -> Z) (mx : bool) :
  (forall c, Good c -> rec c (negb mx) = Ok (g c)) ->
  forall ms b a0, (forall m, In m ms -> step_ok b m) ->
    fold_left (fun acc m =>
        let* a := acc in
        let* b2 := unwrap (apply_move T m b) in
        let* v := rec (toggle_turn b2) (negb mx) in
        Ok (if mx then Z.max a v else Z.min a v)) ms (Ok a0)
    = Ok (fold_left (fun v c => if mx then Z.max v (g c) else Z.min v (g c)) (kids b ms) a0).
Proof.
  intros Hrec. induction ms as [|m rest IH]; intros b a0 Hst.
  - reflexivity.
  - destruct (kid_step b m (Hst m (or_introl eq_refl))) as [b2 [Ha [HG2 Hk]]].
    cbn [fold_left]. unfold kids. cbn [flat_map]. rewrite Hk. cbn [app fold_left].
    cbn [bind]. rewrite Ha. cbn [unwrap bind]. rewrite (Hrec _ HG2). cbn [bind].
    apply IH. intros m' Hm'. apply Hst. right. exact Hm'.
Qed.

Lemma mm_link_gen : forall d b mx,
  Good b -> N.of_nat d <= D -> Search.mm T rook_t bishop_t d b mx = Ok (gmm_gen d mx b).
Proof.
  induction d as [|d' IH]; intros b mx HG HD.
  - rewrite mm_0. cbn [AlphaBeta.mm]. pose proof (score_leaf b 0 HG HD) as Hs0.
    change (N.of_nat 0) with 0 in Hs0. rewrite Hs0. reflexivity.
  - rewrite mm_S. destruct (good_gen b HG) as [l [Hg [Hgm Hst]]].
    rewrite Hgm. cbn [bind]. cbv beta iota zeta.
    assert (HD' : N.of_nat d' <= D) by lia.
    cbn [AlphaBeta.mm]. rewrite (proj2 (children_good b l HG Hg)).
    destruct (map fst l) as [|m rest] eqn:Es.
    + cbn [is_nil]. unfold kids. cbn [flat_map]. rewrite (score_leaf b (S d') HG HD). reflexivity.
    + cbn [is_nil].
      destruct (kids b (m :: rest)) as [|c cs] eqn:Ek.
      { exfalso. apply (kids_nil_iff b (m :: rest)) in Ek; [discriminate Ek|exact Hst]. }
      rewrite <- Ek. destruct mx.
      * exact (mm_fold_link (Search.mm T rook_t bishop_t d') (gmm_gen d' false) true
                 (fun c0 HG0 => IH c0 false HG0 HD') (m :: rest) b I16_MIN Hst).
      * exact (mm_fold_link (Search.mm T rook_t bishop_t d') (gmm_gen d' true) false
                 (fun c0 HG0 => IH c0 true HG0 HD') (m :: rest) b I16_MAX Hst).
Qed.

(* move ordering changes speed only: minimax over the sorted and over the generated child order *)
Lemma gmm_order : forall d mx b, gmm d mx b = gmm_gen d mx b.
Proof. exact (AlphaBeta.mm_perm board leaf I16_MIN I16_MAX children children_gen children_perm). Qed.

(* the oracle of Search.v (plain minimax over the legal moves in generation order, no window,
   no pruning, no sorting) computes the generic minimax value over (children, leaf) *)
Theorem mm_link : forall d b mx,
  Good b -> N.of_nat d <= D -> Search.mm T rook_t bishop_t d b mx = Ok (gmm d mx b).
Proof. intros d b mx HG HD. rewrite gmm_order. exact (mm_link_gen d b mx HG HD). Qed.

(* pruning changes speed only: with the full window alpha_beta_minimax returns the oracle's value *)
Theorem ab_full_window_chess : forall d b mx,
  Good b -> N.of_nat d <= D ->
  exists v, Search.ab T rook_t bishop_t d b I16_MIN I16_MAX mx = Ok (v, b)
            /\ Search.mm T rook_t bishop_t d b mx = Ok v.
Proof.
  intros d b mx HG HD. exists (gmm d mx b). split.
  - rewrite (ab_link d b I16_MIN I16_MAX mx HG HD).
    rewrite (AlphaBeta.ab_full_window board children leaf I16_MIN I16_MAX leaf_range). reflexivity.
  - exact (mm_link d b mx HG HD).
Qed.

(* ... and with ANY window the result obeys the fail-soft contract w.r.t. the oracle's value:
   exact inside the window, a bound on the right side outside *)
Theorem ab_fail_soft_chess : forall d b alpha beta mx,
  Good b -> N.of_nat d <= D -> (alpha < beta)%Z ->
  exists v w, Search.ab T rook_t bishop_t d b alpha beta mx = Ok (v, b)
              /\ Search.mm T rook_t bishop_t d b mx = Ok w
              /\ AlphaBeta.fs v w alpha beta.
Proof.
  intros d b alpha beta mx HG HD Hab.
  exists (gab d mx b alpha beta), (gmm d mx b). split; [exact (ab_link d b alpha beta mx HG HD)|].
  split; [exact (mm_link d b mx HG HD)|].
  exact (AlphaBeta.ab_fs board children leaf I16_MIN I16_MAX d mx b alpha beta Hab).
Qed.

(* ------------------------------------------------------------------ *)
(** * the root *)

Lemma root_task_link depth b m :
  Good b -> N.of_nat (Nat.pred depth) <= D -> step_ok b m ->
  exists b2, apply_move T m b = Ok b2 /\ Good (toggle_turn b2) /\ kid b m = [toggle_turn b2] /\
    root_task depth b m = Ok (gmm (Nat.pred depth) (negb (maximize (turn b))) (toggle_turn b2)).
Proof.
  intros HG HD Hst. destruct (kid_step b m Hst) as [b2 [Ha [HG2 Hk]]].
  exists b2. split; [exact Ha|]. split; [exact HG2|]. split; [exact Hk|].
  rewrite root_task_unfold, Ha. cbn [unwrap bind].
  rewrite (ab_link _ _ I16_MIN I16_MAX (negb (maximize (turn b))) HG2 HD). cbn [bind].
  rewrite (AlphaBeta.ab_full_window board children leaf I16_MIN I16_MAX leaf_range). reflexivity.
Qed.

Lemma in_map_snd_inv {A B} (l : list (A * B)) y : In y (map snd l) -> exists x, In (x, y) l.
Proof.
  intro Hin. apply in_map_iff in Hin. destruct Hin as [[x y'] [Hy Hin]]. cbn [snd] in Hy. subst y'.
  exists x. exact Hin.
Qed.

(* everything about the answer of `search`, in terms of the generic minimax *)
Lemma search_root_value : forall depth b v m b1,
  Good b -> 1 <= depth -> depth <= D -> search depth b = SOk (v, m, b1) ->
  b1 = b /\ v = gmm (N.to_nat depth) (maximize (turn b)) b /\
  exists b2, apply_move T m b = Ok b2 /\ Good (toggle_turn b2) /\
    v = gmm (Nat.pred (N.to_nat depth)) (negb (maximize (turn b))) (toggle_turn b2).
Proof.
  intros depth b v m b1 HG HL HD Hs.
  destruct (search_value_in_root_scores T rook_t bishop_t depth b v m b1 Hs)
    as [cands [scored [Hg0 [Hrs [Hin [_ Hbest]]]]]].
  destruct (good_gen b HG) as [l [Hg [_ Hst]]].
  rewrite Hg in Hg0. apply SL_Ok_inj in Hg0.
  assert (El : cands = l) by (symmetry; exact (f_equal fst Hg0)).
  assert (Eb : b1 = b) by (symmetry; exact (f_equal snd Hg0)).
  clear Hg0. subst cands b1.
  destruct (root_scores_spec T rook_t bishop_t _ _ _ _ Hrs) as [Hmap Hall].
  set (pd := Nat.pred (N.to_nat depth)) in *.
  assert (Ed : N.to_nat depth = S pd) by (unfold pd; lia).
  assert (HDp : N.of_nat (Nat.pred (N.to_nat depth)) <= D) by lia.
  set (mx := maximize (turn b)) in *.
  assert (Ech : children b = kids b (map fst (sort_moves b l))) by exact (proj1 (children_good b l HG Hg)).
  (* every scored pair is the minimax value of one child *)
  assert (HA : forall v' m', In (v', m') scored ->
            exists b2, apply_move T m' b = Ok b2 /\ Good (toggle_turn b2) /\
                       In (toggle_turn b2) (children b) /\ v' = gmm pd (negb mx) (toggle_turn b2)).
  { intros v' m' Hin'.
    assert (Hm' : In m' (map fst (sort_moves b l))).
    { rewrite <- Hmap. apply in_map_iff. exists (v', m'). split; [reflexivity|exact Hin']. }
    assert (Hs' : step_ok b m').
    { apply Hst. exact (Permutation_in _ (Permutation_map fst (sort_moves_perm b l)) Hm'). }
    destruct (root_task_link (N.to_nat depth) b m' HG HDp Hs') as [b2 [Ha [HG2 [Hk Hrt]]]].
    exists b2. split; [exact Ha|]. split; [exact HG2|]. split.
    - rewrite Ech. unfold kids. apply in_flat_map. exists m'. split; [exact Hm'|].
      rewrite Hk. left. reflexivity.
    - pose proof (Hall v' m' Hin') as Hrt'. rewrite Hrt in Hrt'. apply SL_Ok_inj in Hrt'.
      symmetry. exact Hrt'. }
  (* every child's minimax value is one of the scored values *)
  assert (HB : forall c, In c (children b) -> exists v' m', In (v', m') scored /\ v' = gmm pd (negb mx) c).
  { intros c Hc. rewrite Ech in Hc. unfold kids in Hc. apply in_flat_map in Hc.
    destruct Hc as [m' [Hm' Hc]]. rewrite <- Hmap in Hm'.
    destruct (in_map_snd_inv scored m' Hm') as [v' Hin'].
    exists v', m'. split; [exact Hin'|].
    destruct (HA v' m' Hin') as [b2 [Ha [_ [_ Hv']]]].
    unfold kid in Hc. rewrite Ha in Hc. destruct Hc as [<-|[]]. exact Hv'. }
  destruct (HA v m Hin) as [b2 [Ha [HG2 [Hc2 Hv]]]].
  split; [reflexivity|]. split; [|exists b2; split; [exact Ha|]; split; [exact HG2|exact Hv]].
  assert (Hne : children b <> []) by (intro HE; rewrite HE in Hc2; exact Hc2).
  rewrite Ed.
  pose proof (AlphaBeta.ab_full_window board children leaf I16_MIN I16_MAX leaf_range) as Hfw.
  destruct mx eqn:Emx; cbn [negb] in *.
  - destruct (AlphaBeta.root_best_max board children leaf I16_MIN I16_MAX leaf_range pd b
                (children b) eq_refl Hne) as [Hmem Hub]. cbv zeta in Hmem, Hub.
    assert (Hle : (v <= gmm (S pd) true b)%Z).
    { apply Hub. apply in_map_iff. exists (toggle_turn b2). split; [|exact Hc2].
      rewrite Hfw. symmetry. exact Hv. }
    apply in_map_iff in Hmem. destruct Hmem as [c [HEc Hc]]. rewrite Hfw in HEc.
    destruct (HB c Hc) as [v' [m' [Hin' Hv']]].
    pose proof (Hbest v' m' Hin') as Hb'. cbv beta iota in Hb'. lia.
  - destruct (AlphaBeta.root_best_min board children leaf I16_MIN I16_MAX leaf_range pd b
                (children b) eq_refl Hne) as [Hmem Hlb]. cbv zeta in Hmem, Hlb.
    assert (Hge : (gmm (S pd) false b <= v)%Z).
    { apply Hlb. apply in_map_iff. exists (toggle_turn b2). split; [|exact Hc2].
      rewrite Hfw. symmetry. exact Hv. }
    apply in_map_iff in Hmem. destruct Hmem as [c [HEc Hc]]. rewrite Hfw in HEc.
    destruct (HB c Hc) as [v' [m' [Hin' Hv']]].
    pose proof (Hbest v' m' Hin') as Hb'. cbv beta iota in Hb'. lia.
Qed.

(* C08, first clause: the score reported by a depth-N search is the exact depth-N minimax value
   of the position, as computed by the oracle Search.mm (no window, no pruning, no sorting,
   no cache) for the side to move *)
Theorem search_score_is_minimax : forall depth b v m b1,
  Good b -> 1 <= depth <= D -> search depth b = SOk (v, m, b1) ->
  Search.mm T rook_t bishop_t (N.to_nat depth) b (maximize (turn b)) = Ok v.
Proof.
  intros depth b v m b1 HG [HL HD] Hs.
  destruct (search_root_value depth b v m b1 HG HL HD Hs) as [_ [Hv _]].
  rewrite Hv. apply mm_link; [exact HG|lia].
Qed.

(* C08, second clause: the returned move attains that value — it can be made, and the oracle's
   minimax value of the position after it (one ply less, other side to move) is the reported
   score *)
Theorem search_move_attains : forall depth b v m b1,
  Good b -> 1 <= depth <= D -> search depth b = SOk (v, m, b1) ->
  exists b2, apply_move T m b = Ok b2 /\
    Search.mm T rook_t bishop_t (Nat.pred (N.to_nat depth)) (toggle_turn b2)
              (negb (maximize (turn b))) = Ok v.
Proof.
  intros depth b v m b1 HG [HL HD] Hs.
  destruct (search_root_value depth b v m b1 HG HL HD Hs) as [_ [_ [b2 [Ha [HG2 Hv]]]]].
  exists b2. split; [exact Ha|]. rewrite Hv. apply mm_link; [exact HG2|lia].
Qed.


(* ------------------------------------------------------------------ *)
(** * the oracle's table of root moves (Search.root_values) *)

Definition child_of (b : board) (m : cmove) : board :=
  match apply_move T m b with Ok b1 => toggle_turn b1 | _ => b end.

Lemma root_values_unfold depth b :
  Search.root_values T rook_t bishop_t depth b =
  let* (ms, b1) := gen_moves b (turn b) in
  fold_right (fun m acc =>
      let* r := acc in
      let* b2 := unwrap (apply_move T m b1) in
      let* v := Search.mm T rook_t bishop_t (Nat.pred depth) (toggle_turn b2) (negb (maximize (turn b1))) in
      Ok ((m, v) :: r)) (Ok []) ms.
Proof. reflexivity. Qed.

Lemma root_values_fold pd mx b : N.of_nat pd <= D ->
  forall ms, (forall m, In m ms -> step_ok b m) ->
  fold_right (fun m acc =>
      let* r := acc in
      let* b2 := unwrap (apply_move T m b) in
      let* v := Search.mm T rook_t bishop_t pd (toggle_turn b2) mx in
      Ok ((m, v) :: r)) (Ok []) ms
  = Ok (map (fun m => (m, gmm pd mx (child_of b m))) ms).
Proof.
  intros HD. induction ms as [|m rest IH]; intro Hst.
  - reflexivity.
  - cbn [fold_right map]. rewrite (IH (fun m' Hm' => Hst m' (or_intror Hm'))). cbn [bind].
    destruct (kid_step b m (Hst m (or_introl eq_refl))) as [b2 [Ha [HG2 _]]].
    unfold child_of. rewrite Ha. cbn [unwrap bind]. rewrite (mm_link pd _ mx HG2 HD). reflexivity.
Qed.

(* the oracle's table lists, for every legal move, the minimax value of the position after it *)
Theorem root_values_link : forall depth b l,
  Good b -> N.of_nat (Nat.pred depth) <= D -> gen_annotated b (turn b) = Ok (l, b) ->
  Search.root_values T rook_t bishop_t depth b
  = Ok (map (fun m => (m, gmm (Nat.pred depth) (negb (maximize (turn b))) (child_of b m))) (map fst l)).
Proof.
  intros depth b l HG HD Hg. destruct (Good_inv b HG) as [HW HEp].
  rewrite root_values_unfold.
  rewrite (proj2 (gen_annotated_board T rook_t bishop_t _ _ _ _ HW HEp Hg)). cbn [bind]. cbv beta iota.
  apply root_values_fold; [exact HD|]. exact (proj2 (L_steps b l b HG Hg)).
Qed.

(* C08, second clause against the oracle's table: the pair (returned move, reported score) is a
   row of Search.root_values, and no row is better for the side to move *)
Theorem search_in_root_values : forall depth b v m b1,
  Good b -> 1 <= depth <= D -> search depth b = SOk (v, m, b1) ->
  exists rv, Search.root_values T rook_t bishop_t (N.to_nat depth) b = Ok rv /\ In (m, v) rv /\
    forall m' v', In (m', v') rv -> if maximize (turn b) then (v' <= v)%Z else (v <= v')%Z.
Proof.
  intros depth b v m b1 HG [HL HD] Hs.
  destruct (Good_inv b HG) as [HW HEp].
  destruct (search_root_value depth b v m b1 HG HL HD Hs) as [_ [Hv [b2 [Ha [HG2 Hv2]]]]].
  destruct (search_legal T rook_t bishop_t depth b v m b1 HW HEp Hs) as [_ [_ [l [Hg [Hin _]]]]].
  set (pd := Nat.pred (N.to_nat depth)) in *.
  assert (Ed : N.to_nat depth = S pd) by (unfold pd; lia).
  assert (HDp : N.of_nat (Nat.pred (N.to_nat depth)) <= D) by lia.
  eexists. split; [exact (root_values_link (N.to_nat depth) b l HG HDp Hg)|]. fold pd. split.
  - apply in_map_iff. exists m. split; [|exact Hin]. unfold child_of. rewrite Ha, Hv2. reflexivity.
  - intros m' v' Hin'. apply in_map_iff in Hin'. destruct Hin' as [m0 [HE Hm0]].
    assert (Em : m0 = m') by exact (f_equal fst HE).
    assert (Ev : gmm pd (negb (maximize (turn b))) (child_of b m0) = v') by exact (f_equal snd HE).
    subst m0. clear HE.
    destruct (kid_step b m' (proj2 (L_steps b l b HG Hg) m' Hm0)) as [b3 [Ha3 [HG3 Hk3]]].
    assert (Hc : In (child_of b m') (children b)).
    { rewrite (proj1 (children_good b l HG Hg)). unfold kids. apply in_flat_map. exists m'. split.
      - exact (Permutation_in _ (Permutation_sym (Permutation_map fst (sort_moves_perm b l))) Hm0).
      - rewrite Hk3. unfold child_of. rewrite Ha3. left. reflexivity. }
    assert (Hne : children b <> []) by (intro HE; rewrite HE in Hc; exact Hc).
    pose proof (AlphaBeta.ab_full_window board children leaf I16_MIN I16_MAX leaf_range) as Hfw.
    rewrite Ed in Hv. destruct (maximize (turn b)); cbn [negb] in *.
    + destruct (AlphaBeta.root_best_max board children leaf I16_MIN I16_MAX leaf_range pd b
                  (children b) eq_refl Hne) as [_ Hub]. cbv zeta in Hub.
      rewrite Hv, <- Ev. apply Hub. apply in_map_iff. exists (child_of b m'). split; [apply Hfw|exact Hc].
    + destruct (AlphaBeta.root_best_min board children leaf I16_MIN I16_MAX leaf_range pd b
                  (children b) eq_refl Hne) as [_ Hlb]. cbv zeta in Hlb.
      rewrite Hv, <- Ev. apply Hlb. apply in_map_iff. exists (child_of b m'). split; [apply Hfw|exact Hc].
Qed.

(* ------------------------------------------------------------------ *)
(** * the shared result cache and the parallel root tasks *)

(* the key of the engine's result cache: (position key, alpha, beta, remaining depth, side,
   half-move clock when the move-count draw is within the remaining depth and 0 otherwise) —
   the last component since the repair of D13 (the position key does not cover the clock).
   halfmove_clock() of the code panics on an empty clock stack; the key function here is total
   (hd 0): every invariant under which the cache theorems are stated has a non-empty stack. *)
Definition skey : Type := (N * Z * Z * nat * bool * N)%type.
Definition clock_tag (b : board) (d : nat) : N :=
  let c := hd 0 (hm_stack b) in if 100 <=? c + N.of_nat d then c else 0.
Definition mkkey (b : board) (alpha beta : Z) (d : nat) (mx : bool) : skey :=
  (hash b, alpha, beta, d, mx, clock_tag b d).
Definition skey_eqb (x y : skey) : bool :=
  match x, y with
  | (h, a, b, d, mx, c), (h', a', b', d', mx', c') =>
      (h =? h') && (a =? a')%Z && (b =? b')%Z && Nat.eqb d d' && Bool.eqb mx mx' && (c =? c')
  end.

Lemma skey_eqb_true : forall x y, skey_eqb x y = true -> x = y.
Proof.
  intros [[[[[h a] b] d] mx] c] [[[[[h' a'] b'] d'] mx'] c'] HE. unfold skey_eqb in HE.
  apply andb_true_iff in HE. destruct HE as [HE Hc].
  apply andb_true_iff in HE. destruct HE as [HE Hmx].
  apply andb_true_iff in HE. destruct HE as [HE Hd].
  apply andb_true_iff in HE. destruct HE as [HE Hb].
  apply andb_true_iff in HE. destruct HE as [Hh Ha].
  apply N.eqb_eq in Hh. apply Z.eqb_eq in Ha. apply Z.eqb_eq in Hb.
  apply Nat.eqb_eq in Hd. apply eqb_prop in Hmx. apply N.eqb_eq in Hc. subst. reflexivity.
Qed.

(* The one assumption about the cache key, stated about the model's own search: on Good
   positions and within the depth bound, two positions with the same 64-bit position key have
   the same alpha_beta_minimax value (for the same window, depth and side).  It follows from
   position congruence (Congr.v, ab_congr) once the key is collision-free on Good positions;
   it cannot hold on all boards (64 bits), nor beyond a bounded depth (the key ignores the
   half-move clock and the repetition table). *)
Hypothesis key_det_chess : forall p q alpha beta d mx v w,
  Good p -> Good q -> N.of_nat d <= D -> hash p = hash q ->
  Search.ab T rook_t bishop_t d p alpha beta mx = Ok (v, p) ->
  Search.ab T rook_t bishop_t d q alpha beta mx = Ok (w, q) -> v = w.

Lemma key_det_link : forall p a b d mx p' a' b' d' mx',
  Good p -> Good p' -> (d <= N.to_nat D)%nat -> (d' <= N.to_nat D)%nat ->
  mkkey p a b d mx = mkkey p' a' b' d' mx' -> gab d mx p a b = gab d' mx' p' a' b'.
Proof.
  intros p a b d mx p' a' b' d' mx' HG HG' Hd Hd' HE. unfold mkkey in HE.
  assert (Hh : hash p = hash p') by exact (f_equal (fun k : skey => fst (fst (fst (fst (fst k))))) HE).
  assert (Ha : a = a') by exact (f_equal (fun k : skey => snd (fst (fst (fst (fst k))))) HE).
  assert (Hb : b = b') by exact (f_equal (fun k : skey => snd (fst (fst (fst k)))) HE).
  assert (Hdd : d = d') by exact (f_equal (fun k : skey => snd (fst (fst k))) HE).
  assert (Hmx : mx = mx') by exact (f_equal (fun k : skey => snd (fst k)) HE).
  subst a' b' d' mx'.
  assert (HD : N.of_nat d <= D) by lia.
  exact (key_det_chess p p' a b d mx _ _ HG HG' HD Hh
           (ab_link d p a b mx HG HD) (ab_link d p' a b mx HG' HD)).
Qed.

(* the memoised search as a resumption over the shared cache (Interleave.abp), and the
   sequential / interleaved execution of such resumptions, for the chess instance *)
Notation cabp := (Interleave.abp board skey children leaf I16_MIN I16_MAX mkkey).
Notation crun := (Interleave.run skey skey_eqb).
Notation crun_sched := (Interleave.run_sched skey skey_eqb).
Notation croot_pool := (Interleave.root_pool board skey children leaf I16_MIN I16_MAX mkkey).

(* a cache is sound when every entry is the alpha_beta_minimax value of every Good position,
   at depth <= D, that maps to its key.  The empty cache is sound, and every cache produced by
   running searches from a sound cache is sound (below). *)
Definition cache_sound (c : Interleave.cache skey) : Prop :=
  InterleaveRel.rsound board skey children leaf I16_MIN I16_MAX mkkey skey_eqb Good (N.to_nat D) c.

Lemma cache_sound_nil : cache_sound [].
Proof. apply InterleaveRel.rsound_nil. Qed.

(* C08, the cache: started from ANY sound cache (whatever earlier searches left behind), the
   memoised search of a Good position returns exactly the value of the cache-free
   alpha_beta_minimax of the model, for every window, and leaves a sound cache *)
Theorem cached_search_same : forall c d mx b alpha beta,
  Good b -> N.of_nat d <= D -> cache_sound c ->
  Search.ab T rook_t bishop_t d b alpha beta mx
    = Ok (fst (crun c (cabp d mx b alpha beta Interleave.Ret)), b)
  /\ cache_sound (snd (crun c (cabp d mx b alpha beta Interleave.Ret))).
Proof.
  intros c d mx b alpha beta HG HD Hc.
  assert (Hd : (d <= N.to_nat D)%nat) by lia.
  destruct (InterleaveRel.run_abp_rel board skey children leaf I16_MIN I16_MAX mkkey skey_eqb
              skey_eqb_true Good (N.to_nat D) children_Good key_det_link c d mx b alpha beta HG Hd Hc)
    as [Hv Hs].
  split; [|exact Hs]. rewrite Hv. exact (ab_link d b alpha beta mx HG HD).
Qed.

(* ... with the full window it returns the oracle's minimax value *)
Corollary cached_search_minimax : forall c d mx b,
  Good b -> N.of_nat d <= D -> cache_sound c ->
  Search.mm T rook_t bishop_t d b mx = Ok (fst (crun c (cabp d mx b I16_MIN I16_MAX Interleave.Ret))).
Proof.
  intros c d mx b HG HD Hc.
  destruct (cached_search_same c d mx b I16_MIN I16_MAX HG HD Hc) as [Hab _].
  destruct (ab_full_window_chess d b mx HG HD) as [v [Hab' Hmm]].
  rewrite Hab in Hab'. apply SL_Ok_inj in Hab'. rewrite Hmm. f_equal.
  symmetry. exact (f_equal fst Hab').
Qed.

Lemma children_Forall_Good b : Good b -> Forall Good (children b).
Proof. intro HG. apply Forall_forall. intros c Hc. exact (children_Good b c HG Hc). Qed.

(* C08/C09, parallelism: the root tasks (one memoised full-window search per child position,
   all sharing one cache) are run under an ARBITRARY schedule `sch` of atomic cache accesses.
   Whenever task i has finished, its result is the value of the sequential cache-free
   alpha_beta_minimax on the i-th child, which is the oracle's minimax value of that child *)
Theorem pool_any_schedule : forall c0 d mx b sch i c w,
  Good b -> N.of_nat d <= D -> cache_sound c0 ->
  nth_error (children b) i = Some c ->
  nth_error (snd (crun_sched sch (croot_pool c0 d mx I16_MIN I16_MAX (children b)))) i
    = Some (Interleave.Ret w) ->
  Search.ab T rook_t bishop_t d c I16_MIN I16_MAX mx = Ok (w, c)
  /\ Search.mm T rook_t bishop_t d c mx = Ok w.
Proof.
  intros c0 d mx b sch i c w HG HD Hc Hi Ht.
  assert (Hd : (d <= N.to_nat D)%nat) by lia.
  pose proof (InterleaveRel.pool_task_result_rel board skey children leaf I16_MIN I16_MAX mkkey
                skey_eqb skey_eqb_true Good (N.to_nat D) children_Good key_det_link
                c0 d mx I16_MIN I16_MAX (children b) sch i c w
                (children_Forall_Good b HG) Hd Hc Hi Ht) as Hw.
  assert (HGc : Good c) by (apply (children_Good b c HG); exact (nth_error_In _ _ Hi)).
  rewrite Hw. split; [exact (ab_link d c I16_MIN I16_MAX mx HGc HD)|].
  rewrite (AlphaBeta.ab_full_window board children leaf I16_MIN I16_MAX leaf_range).
  exact (mm_link d c mx HGc HD).
Qed.

(* every schedule can be extended to one in which all root tasks have finished (no schedule can
   block a task), the finished pool then holds the oracle's minimax value of every child, the
   cache is still sound, and the max (White) / min (Black) of those values is the oracle's
   minimax value of the root *)
Theorem pool_root_minimax_chess : forall c0 d b sch,
  Good b -> N.of_nat (S d) <= D -> cache_sound c0 -> children b <> [] ->
  let mx := maximize (turn b) in
  exists sch' ws,
    let pl := crun_sched (sch ++ sch') (croot_pool c0 d (negb mx) I16_MIN I16_MAX (children b)) in
    snd pl = map Interleave.Ret ws /\ cache_sound (fst pl) /\
    Forall2 (fun c w => Search.mm T rook_t bishop_t d c (negb mx) = Ok w) (children b) ws /\
    Search.mm T rook_t bishop_t (S d) b mx
      = Ok (if mx then fold_left Z.max ws I16_MIN else fold_left Z.min ws I16_MAX).
Proof.
  intros c0 d b sch HG HD Hc Hne mx.
  assert (HD' : N.of_nat d <= D) by lia.
  assert (Hd : (d <= N.to_nat D)%nat) by lia.
  destruct (InterleaveRel.pool_schedule_extends_rel board skey children leaf I16_MIN I16_MAX mkkey
              skey_eqb skey_eqb_true Good (N.to_nat D) children_Good key_det_link
              c0 d (negb mx) I16_MIN I16_MAX (children b) sch
              (children_Forall_Good b HG) Hd Hc) as [sch' [Hpl Hs]].
  cbv zeta in Hpl, Hs.
  exists sch', (map (fun c => gmm d (negb mx) c) (children b)). cbv zeta.
  split; [|split; [exact Hs|split]].
  - rewrite Hpl, map_map. apply map_ext. intro c. f_equal.
    exact (AlphaBeta.ab_full_window board children leaf I16_MIN I16_MAX leaf_range d (negb mx) c).
  - pose proof (children_Forall_Good b HG) as HF. clear Hpl Hs Hne.
    induction HF as [|c cs HGc HF IH]; cbn [map]; constructor.
    + exact (mm_link d c (negb mx) HGc HD').
    + exact IH.
  - rewrite (mm_link (S d) b mx HG HD).
    rewrite <- (AlphaBeta.root_best board children leaf I16_MIN I16_MAX leaf_range d mx b
                  (children b) eq_refl Hne).
    f_equal. destruct mx; f_equal; apply map_ext; intro c;
      exact (AlphaBeta.ab_full_window board children leaf I16_MIN I16_MAX leaf_range d _ c).
Qed.

(* C08 for the engine as a whole: the score that the sequential, cache-free `search` of the
   model reports is the score obtained from the parallel, cached root tasks under any schedule
   (completed), starting from any sound cache *)
Theorem parallel_cached_search_same : forall depth b v m b1 c0 sch,
  Good b -> 1 <= depth <= D -> search depth b = SOk (v, m, b1) -> cache_sound c0 ->
  let mx := maximize (turn b) in
  exists sch' ws,
    snd (crun_sched (sch ++ sch')
           (croot_pool c0 (Nat.pred (N.to_nat depth)) (negb mx) I16_MIN I16_MAX (children b)))
      = map Interleave.Ret ws /\
    v = (if mx then fold_left Z.max ws I16_MIN else fold_left Z.min ws I16_MAX).
Proof.
  intros depth b v m b1 c0 sch HG [HL HD] Hs Hc mx.
  pose proof (search_score_is_minimax depth b v m b1 HG (conj HL HD) Hs) as Hmm.
  assert (Ed : N.to_nat depth = S (Nat.pred (N.to_nat depth))) by lia.
  assert (Hne : children b <> []).
  { destruct (search_root_value depth b v m b1 HG HL HD Hs) as [_ [_ [b2 [Ha _]]]].
    destruct (search_legal T rook_t bishop_t depth b v m b1 (proj1 (Good_inv b HG)) (proj2 (Good_inv b HG)) Hs)
      as [_ [_ [cands [Hg [Hin _]]]]].
    rewrite (proj1 (children_good b cands HG Hg)). intro HE.
    apply (kids_nil_iff b) in HE.
    - apply map_eq_nil in HE.
      pose proof (sort_moves_perm b cands) as HP. rewrite HE in HP.
      apply Permutation_nil in HP. subst cands. exact Hin.
    - intros m' Hm'. destruct (L_steps b cands b HG Hg) as [_ Hst]. apply Hst.
      exact (Permutation_in _ (Permutation_map fst (sort_moves_perm b cands)) Hm'). }
  destruct (pool_root_minimax_chess c0 (Nat.pred (N.to_nat depth)) b sch HG ltac:(lia) Hc Hne)
    as [sch' [ws [Hpl [_ [_ Hroot]]]]].
  cbv zeta in Hpl, Hroot. exists sch', ws. split; [exact Hpl|].
  rewrite Ed in Hmm. rewrite Hroot in Hmm. apply SL_Ok_inj in Hmm.
  symmetry. exact Hmm.
Qed.

End Link.

(* ------------------------------------------------------------------ *)
(** * non-vacuity *)

(* the mate-in-one position of SearchFrame.v: the search and the oracle agree (Ra8 mates) *)
Example search_and_oracle_agree :
  search example_table rook_ref bishop_ref 1 SF_mate1 = SOk (WHITE_WINS, Std 0 56 None, SF_mate1) /\
  Search.mm example_table rook_ref bishop_ref 1 SF_mate1 (maximize (turn SF_mate1)) = Ok WHITE_WINS /\
  search example_table rook_ref bishop_ref 2 SF_mate1 = SOk ((WHITE_WINS + 1)%Z, Std 0 56 None, SF_mate1) /\
  Search.mm example_table rook_ref bishop_ref 2 SF_mate1 (maximize (turn SF_mate1)) = Ok (WHITE_WINS + 1)%Z.
Proof. vm_compute. repeat split; reflexivity. Qed.

(* the generic instance computes the same numbers on that position *)
Example generic_instance_agrees :
  AlphaBeta.mm board (children example_table rook_ref bishop_ref) (leaf example_table rook_ref bishop_ref)
    I16_MIN I16_MAX 1 true SF_mate1 = WHITE_WINS /\
  AlphaBeta.ab board (children example_table rook_ref bishop_ref) (leaf example_table rook_ref bishop_ref)
    I16_MIN I16_MAX 1 true SF_mate1 I16_MIN I16_MAX = WHITE_WINS /\
  length (children example_table rook_ref bishop_ref SF_mate1) = 25%nat.
Proof. vm_compute. repeat split; reflexivity. Qed.

(* the memoised search and an interleaved run of the root tasks, executed on that position:
   from the empty cache the memoised depth-1 search finds the mate; and with the 25 depth-0 root
   tasks sharing one cache, after the interleaved schedule [1;0;1;0;0] (read 1, read 0, write 1,
   write 0, no-op) task 0 (Ra8#, sorted first) holds the mate score and the cache has two entries *)
Example cached_run_executes :
  fst (Interleave.run skey skey_eqb []
         (Interleave.abp board skey (children example_table rook_ref bishop_ref)
            (leaf example_table rook_ref bishop_ref) I16_MIN I16_MAX mkkey 1 true SF_mate1
            I16_MIN I16_MAX Interleave.Ret)) = WHITE_WINS /\
  (let pl := Interleave.run_sched skey skey_eqb [1; 0; 1; 0; 0]%nat
               (Interleave.root_pool board skey (children example_table rook_ref bishop_ref)
                  (leaf example_table rook_ref bishop_ref) I16_MIN I16_MAX mkkey [] 0 false
                  I16_MIN I16_MAX (children example_table rook_ref bishop_ref SF_mate1)) in
   nth_error (snd pl) 0 = Some (Interleave.Ret WHITE_WINS) /\ length (fst pl) = 2%nat).
Proof. vm_compute. repeat split; reflexivity. Qed.

(* all hypotheses of Section Link (the four of SearchFrame.Total, score_range, key_det_chess) are
   satisfiable together: Good := "is the checkmated position SF_mated", D := 3 *)
Definition SL_Good (b : board) : Prop := b = SF_mated.

Example link_hypotheses_satisfiable :
  (forall b, SL_Good b -> WF b /\ ep_wf b (turn b)) /\
  (forall b, SL_Good b -> exists l b', gen_annotated example_table rook_ref bishop_ref b (turn b) = Ok (l, b')) /\
  (forall b ms m b1, SL_Good b -> gen_moves example_table rook_ref bishop_ref b (turn b) = Ok (ms, b) ->
     In m ms -> apply_move example_table m b = Ok b1 -> SL_Good (toggle_turn b1)) /\
  (forall b d, SL_Good b -> d <= 3 -> exists v b', score example_table rook_ref bishop_ref b (turn b) d = Ok (v, b')) /\
  (forall b d v b', SL_Good b -> d <= 3 -> score example_table rook_ref bishop_ref b (turn b) d = Ok (v, b') ->
     (I16_MIN < v < I16_MAX)%Z) /\
  (forall p q alpha beta d mx v w, SL_Good p -> SL_Good q -> N.of_nat d <= 3 -> hash p = hash q ->
     Search.ab example_table rook_ref bishop_ref d p alpha beta mx = Ok (v, p) ->
     Search.ab example_table rook_ref bishop_ref d q alpha beta mx = Ok (w, q) -> v = w).
Proof.
  destruct total_hypotheses_satisfiable as [Hinv [Hgen [Hscore Hnone]]].
  split; [|split; [|split; [|split; [|split]]]].
  - intros b ->. exact Hinv.
  - intros b ->. exact Hgen.
  - intros b ms m b1 -> Hg Hin _. rewrite Hnone in Hg. apply SL_Ok_inj in Hg.
    assert (Em : ms = []) by (symmetry; exact (f_equal fst Hg)). subst ms. destruct Hin.
  - intros b d -> Hd. exact (Hscore d Hd).
  - intros b d v b' -> Hd Hs.
    assert (Hc : In d [0; 1; 2; 3]) by (cbn [In]; lia).
    assert (Hall : forallb (fun d => match score example_table rook_ref bishop_ref SF_mated (turn SF_mated) d with
                                     | Ok (v, _) => in_open v | _ => false end) [0; 1; 2; 3] = true)
      by (vm_compute; reflexivity).
    rewrite forallb_forall in Hall. specialize (Hall d Hc). rewrite Hs in Hall.
    unfold in_open in Hall. apply andb_true_iff in Hall. destruct Hall as [Hlo Hhi].
    apply Z.ltb_lt in Hlo. apply Z.ltb_lt in Hhi. split; assumption.
  - intros p q alpha beta d mx v w -> -> _ _ Hv Hw. rewrite Hv in Hw. apply SL_Ok_inj in Hw.
    exact (f_equal fst Hw).
Qed.

(* ... so the theorems apply: e.g. ab_link instantiated there, a closed statement *)
Example ab_link_instance : forall d alpha beta mx, N.of_nat d <= 3 ->
  Search.ab example_table rook_ref bishop_ref d SF_mated alpha beta mx
  = Ok (AlphaBeta.ab board (children example_table rook_ref bishop_ref)
          (leaf example_table rook_ref bishop_ref) I16_MIN I16_MAX d mx SF_mated alpha beta, SF_mated).
Proof.
  destruct link_hypotheses_satisfiable as [H1 [H2 [H3 [H4 [H5 _]]]]].
  intros d alpha beta mx Hd.
  exact (ab_link example_table rook_ref bishop_ref SL_Good 3 H1 H2 H3 H4 H5 d SF_mated alpha beta mx eq_refl Hd).
Qed.

Print Assumptions ab_link.
Print Assumptions mm_link.
Print Assumptions ab_full_window_chess.
Print Assumptions search_score_is_minimax.
Print Assumptions search_move_attains.
Print Assumptions search_in_root_values.
Print Assumptions cached_search_same.
Print Assumptions pool_any_schedule.
Print Assumptions pool_root_minimax_chess.
Print Assumptions parallel_cached_search_same.
