(* Play.v — the loop of src/game/human_vs_computer.rs (the `chess play` command): the human's turns
   go through the input layer and the command dispatch of Pvp.v, the engine's turns through
   Watch.engine_move; the verdict at the top of the loop stops the game on checkmate and
   stalemate only (a draw on move count or repetition does not stop this loop).  One event per
   pass through the loop body: the line typed (used on the human's turns) and the random book index
   (used on the engine's turns).  Executable only; PlayProofs.v proves the statements. *)
From Coq Require Import NArith List String.
From ChessV Require Export Pvp Watch.
Import ListNotations.
Open Scope N_scope.

Section WithGen.
Variable T : ztable.
Variables rook_t bishop_t : N -> N -> N.

Inductive play_end :=
  | PMate            (* "checkmate!" *)
  | PStalemate       (* "stalemate!" *)
  | PCrash           (* a panic *)
  | PRunning.        (* the events ran out first *)

(* what one pass through the loop body did *)
Inductive play_out :=
  | HumanPlayed (m : cmove) | HumanRefused | HumanUnparsed
  | EnginePlayed (m : cmove) | EngineError.

Definition pass_turn (g1 : game) : game :=
  {| gboard := toggle_turn (gboard g1); ghist := ghist g1; gdepth := gdepth g1 |}.

(* one pass: the human (colour [player]) types [raw] when it is their turn, otherwise the engine
   moves with book index [choice]; an error of either side leaves the game as it was ("error: .."
   is printed and the loop goes round again) *)
Definition play_step (player : color) (g : game) (raw : string) (choice : nat) : option (game * play_out) :=
  if color_eqb player (turn (gboard g)) then
    match parse_input raw with
    | None => Some (g, HumanUnparsed)
    | Some c =>
        match exec_command T rook_t bishop_t c g with
        | GOk (m, g1) => Some (pass_turn g1, HumanPlayed m)
        | GPanic => None
        | _ => Some (g, HumanRefused)
        end
    end
  else
    match engine_move T rook_t bishop_t g choice with
    | GOk (m, g1) => Some (pass_turn g1, EnginePlayed m)
    | GPanic => None
    | _ => Some (g, EngineError)
    end.

Fixpoint play_run (player : color) (g : game) (events : list (string * nat))
  : list (game * play_out) * play_end :=
  match game_ending T rook_t bishop_t (gboard g) (turn (gboard g)) with
  | Ok (Some Checkmate, _) => ([], PMate)
  | Ok (Some Stalemate, _) => ([], PStalemate)
  | Ok (_, _) =>
      match events with
      | [] => ([], PRunning)
      | (raw, choice) :: rest =>
          match play_step player g raw choice with
          | None => ([], PCrash)
          | Some (g', out) => let (steps, w) := play_run player g' rest in ((g', out) :: steps, w)
          end
      end
  | _ => ([], PCrash)
  end.

End WithGen.
