(* SanClosed.v — C13 closed: the hypotheses of SanProofs.san_c13 (the candidate list "looks
   like the legal moves of a position") hold of the list the generator returns on every board
   satisfying the reachable-state invariant [InvProofs2.Inv].

     generated_list_position_like    cands_fit, one_king_origin, all_quiet_pawns_unrivalled and
                                     legal_like (pawn_caps_same_rank) for [gen_moves b (turn b)];
     generated_list_position_likeb   the executable check [position_likeb] answers true;
     san_exact                       the labels [san_all] attaches to the annotated legal list
                                     are exactly [spec_label] (never Err / Panic), pairwise
                                     distinct, and the annotation fed into the suffix is the
                                     rules' [move_effect];
     spec_label_same_set             the FIDE label only depends on the SET of legal moves, so
                                     it may be read over [Rules.legal_moves (abstract b)].

   The two facts about pawns come from the exact description of the engine's pawn list
   (PseudoProofs2b.in_pawn_moves): two quiet pawn moves to one square would be a single and
   a double step of the same file, and the double step needs the single-step square empty; a
   capture goes to an occupied square, a push to an empty one; the en-passant target square
   has the enemy pawn right behind it.  Capturing pawn moves start one rank behind their
   destination.
   Proofs only; no axioms. *)
From Coq Require Import Lia ZArith NArith List Bool String.
From ChessV Require Import Bits Types Board Moves Rays MoveGen Rules Abs San.
From ChessV Require Import BitsLemmas BoardLemmas WfReflect GeomProofs PseudoBase.
From ChessV Require Import PseudoProofs2 PseudoProofs2b PseudoProofs4 PseudoProofs PseudoLink.
From ChessV Require Import InvProofs InvProofs2 GenFrame GenExact VerdictExact BridgeClosed.
From ChessV Require Import RegexProofs UciProofs SanProofs.
From ChessV Require UndoProofs EpFrame SuccProofs1 SuccProofs Congr GenTotal UciGen.
Import ListNotations.
Open Scope N_scope.
Open Scope list_scope.

#[local] Arguments N.add : simpl never.
#[local] Arguments N.sub : simpl never.
#[local] Arguments N.mul : simpl never.
#[local] Arguments N.div : simpl never.
#[local] Arguments N.modulo : simpl never.
#[local] Arguments N.eqb : simpl never.
#[local] Arguments N.ltb : simpl never.
#[local] Arguments N.leb : simpl never.
#[local] Arguments N.shiftl : simpl never.
#[local] Arguments N.shiftr : simpl never.
#[local] Arguments N.land : simpl never.
#[local] Arguments N.lor : simpl never.
#[local] Arguments N.lxor : simpl never.
#[local] Arguments N.ldiff : simpl never.
#[local] Arguments N.testbit : simpl never.

(* ------------------------------------------------------------------ *)
(** * the geometry of a pawn candidate *)

Lemma pawn_arrivals_fields c x tf tr cap m :
  In m (pawn_arrivals c x tf tr cap) -> mv_from m = x /\ mv_to m = sq tf tr /\ mv_captures m = cap.
Proof.
  unfold pawn_arrivals. destruct (tr =? last_rank c)%Z.
  - intro H. apply in_map_iff in H. destruct H as [pp [<- _]]. repeat split.
  - intros [<-|[]]. repeat split.
Qed.

Definition pawn_geo (b : board) (c : color) (m : cmove) : Prop :=
  exists x t, mv_from m = x /\ mv_to m = t /\ x < 64 /\ t < 64 /\ bget b x = Some (Pawn, c) /\
  ( (mv_captures m = None /\ fileZ t = fileZ x /\ rankZ t = (rankZ x + forward c)%Z
     /\ mem t (occupied b) = false)
  \/ (mv_captures m = None /\ fileZ t = fileZ x /\ rankZ t = (rankZ x + 2 * forward c)%Z
      /\ mem t (occupied b) = false
      /\ mem (sq (fileZ x) (rankZ x + forward c)) (occupied b) = false)
  \/ (is_some (mv_captures m) = true /\ rankZ t = (rankZ x + forward c)%Z
      /\ mem t (occupied b) = true)
  \/ (is_some (mv_captures m) = true /\ rankZ t = (rankZ x + forward c)%Z
      /\ top (ep_stack b) = bit t) ).

Lemma pawn_spec_geo b c x m : WF b -> x < 64 -> mem x (pw (pieces b c)) = true ->
  pawn_spec b c x m -> pawn_geo b c m.
Proof.
  intros W Lx Mx P.
  assert (Bx : bget b x = Some (Pawn, c)) by (apply (bget_mem b x Pawn c W); exact Mx).
  destruct P as [[t (Lt & (F & R & O) & Hm)]|[[t (Lt & (F & R & _ & O & O1) & ->)]
               |[[t (Lt & (F & R & O) & Hm)]|[e (Le & Z & (F & R) & ->)]]]].
  - destruct (pawn_arrivals_fields _ _ _ _ _ _ Hm) as (E1' & E2' & E3'). rewrite sq_file_rank in E2'.
    exists x, t. repeat (split; [assumption|]). left. tauto.
  - exists x, t. cbn [mv_from mv_to mv_captures]. repeat (split; [reflexivity || assumption|]).
    right. left. tauto.
  - destruct (pawn_arrivals_fields _ _ _ _ _ _ Hm) as (E1' & E2' & E3'). rewrite sq_file_rank in E2'.
    exists x, t. repeat (split; [assumption|]). right. right. left.
    split; [|split; [exact R|]].
    + rewrite E3'. destruct (pget_occ_some _ _ (WF_pieces b (opp_c c) W) O) as [p Ep].
      rewrite Ep. reflexivity.
    + apply (opp_is_occupied b c t O).
  - exists x, e. cbn [mv_from mv_to mv_captures]. repeat (split; [reflexivity || assumption|]).
    right. right. right. split; [reflexivity|]. split; [exact R|exact Z].
Qed.

Section San.
Variable T : ztable.
Variables rook_t bishop_t : N -> N -> N.
Hypothesis rook_t_ref : forall x o, x < 64 -> rook_t x o = rook_ref x o.
Hypothesis bishop_t_ref : forall x o, x < 64 -> bishop_t x o = bishop_ref x o.

Notation InvC := (InvC rook_t bishop_t).
Notation Inv := (Inv rook_t bishop_t).
Notation pseudo_moves := (pseudo_moves rook_t bishop_t).
Notation gen_moves := (gen_moves T rook_t bishop_t).
Notation gen_annotated := (gen_annotated T rook_t bishop_t).

(* a candidate whose origin square holds a pawn is one of the pawn generator's moves *)
Lemma pawn_origin_geo b c l m col :
  InvC b c -> pseudo_moves b c = Ok l -> In m l ->
  bget b (mv_from m) = Some (Pawn, col) -> pawn_geo b c m.
Proof.
  intros I H Hin Bm. pose proof (InvC_PInv _ _ b c I) as PI.
  pose proof PI as (W & S & _ & EI & _).
  pose proof (GenTotal.cand_shape_ok rook_t bishop_t b c l m I H Hin) as Sh.
  destruct (pseudo_moves_inv rook_t bishop_t b c l H) as [lp [lc (Hp & Hc & ->)]].
  assert (Hlp : In m lp).
  { repeat (apply in_app_or in Hin; destruct Hin as [Hin|Hin]); [exfalso.. | exact Hin | exfalso].
    - destruct (knights_cls b c PI m Hin) as [f [t [cap [p (-> & Bf & ->)]]]].
      cbn [mv_from] in Bm. rewrite Bm in Bf. discriminate.
    - destruct (sliders_cls rook_t bishop_t b c PI m Hin) as [f [t [cap [p (-> & Bf & Sl)]]]].
      cbn [mv_from] in Bm. rewrite Bm in Bf. inversion Bf. subst p. discriminate.
    - destruct (kings_cls b c PI m Hin) as [f [t [cap [p (-> & Bf & ->)]]]].
      cbn [mv_from] in Bm. rewrite Bm in Bf. discriminate.
    - destruct (castles_cls rook_t bishop_t b c PI lc m Hc Hin) as [f [t ->]].
      destruct Sh as (_ & _ & p & c0 & Bf & -> & _). cbn [mv_from] in Bm, Bf. rewrite Bm in Bf. discriminate. }
  apply (in_pawn_moves b c W S EI lp m Hp) in Hlp. destruct Hlp as [x (Lx & Mx & P)].
  apply (pawn_spec_geo b c x m W Lx Mx P).
Qed.

Lemma sq_of x f r : x < 64 -> fileZ x = f -> rankZ x = r -> sq f r = x.
Proof. intros _ <- <-. apply sq_file_rank. Qed.

(* two different pawn candidates to one square: not both quiet ... *)
Lemma quiet_pawn_no_rival b c m o :
  WF b -> ep_inv b c ->
  pawn_geo b c m -> pawn_geo b c o -> mv_captures m = None ->
  mv_to o = mv_to m -> mv_from o <> mv_from m -> False.
Proof.
  intros W EI (xm & tm & Fm & Tm & Lxm & Ltm & Bxm & Gm) (xo & to & Fo & To & Lxo & Lto & Bxo & Go) Cm Et Nf.
  rewrite Fm, Fo in Nf. rewrite Tm in Et. rewrite Et in To. subst to. clear Et.
  assert (Om : mem tm (occupied b) = false /\ fileZ tm = fileZ xm /\
               ((rankZ tm = rankZ xm + forward c)%Z \/
                ((rankZ tm = rankZ xm + 2 * forward c)%Z
                 /\ mem (sq (fileZ xm) (rankZ xm + forward c)) (occupied b) = false))).
  { destruct Gm as [G|[G|[G|G]]].
    - tauto.
    - tauto.
    - destruct G as (X & _). rewrite Cm in X. discriminate.
    - destruct G as (X & _). rewrite Cm in X. discriminate. }
  destruct Om as (Ot & Ff & Rm).
  assert (Occ : forall x, x < 64 -> bget b x = Some (Pawn, c) -> mem x (occupied b) = true).
  { intros x Lx Bx. destruct (mem x (occupied b)) eqn:E; [reflexivity|].
    apply (bget_none_iff b x W) in E. congruence. }
  pose proof (forward_cases c) as FC.
  destruct Go as [G|[G|[G|G]]].
  - destruct G as (_ & Fo' & Ro & _).
    destruct Rm as [Rm|[Rm Mid]].
    + apply Nf. apply coords_eq; [assumption..|lia|lia].
    + (* m double, o single: o stands on m's middle square *)
      assert (sq (fileZ xm) (rankZ xm + forward c) = xo) as E.
      { apply (sq_of xo); [exact Lxo|lia|lia]. }
      rewrite E in Mid. rewrite (Occ xo Lxo Bxo) in Mid. discriminate.
  - destruct G as (_ & Fo' & Ro & _ & Mid').
    destruct Rm as [Rm|[Rm Mid]].
    + assert (sq (fileZ xo) (rankZ xo + forward c) = xm) as E.
      { apply (sq_of xm); [exact Lxm|lia|lia]. }
      rewrite E in Mid'. rewrite (Occ xm Lxm Bxm) in Mid'. discriminate.
    + apply Nf. apply coords_eq; [assumption..|lia|lia].
  - destruct G as (_ & _ & O). congruence.
  - destruct G as (_ & Ro & Z).
    destruct EI as [Z0|(e & Le & Ze & _ & Gv)].
    { rewrite Z0 in Z. exact (bit_neq_0 tm (eq_sym Z)). }
    rewrite Ze in Z. apply bit_inj in Z. subst e.
    rewrite (ep_captured_square_rules c xo tm Lxo Ltm Ro) in Gv.
    destruct Rm as [Rm|[Rm Mid]].
    + assert (sq (fileZ tm) (rankZ xo) = xm) as E.
      { apply (sq_of xm); [exact Lxm|lia|lia]. }
      rewrite E, Bxm in Gv. inversion Gv as [Ec]. exact (opp_c_neq c (eq_sym Ec)).
    + assert (sq (fileZ tm) (rankZ xo) = sq (fileZ xm) (rankZ xm + forward c)) as E.
      { f_equal; lia. }
      rewrite E in Gv. apply (bget_none_iff b _ W) in Mid. rewrite Mid in Gv. discriminate.
Qed.

(* ... and two capturing ones start on the same rank *)
Lemma pawn_caps_rank b c m o :
  pawn_geo b c m -> pawn_geo b c o ->
  is_some (mv_captures m) = true -> is_some (mv_captures o) = true ->
  mv_to m = mv_to o -> mv_from m / 8 = mv_from o / 8.
Proof.
  intros (xm & tm & Fm & Tm & Lxm & Ltm & Bxm & Gm) (xo & to & Fo & To & Lxo & Lto & Bxo & Go) Cm Co Et.
  rewrite Fm, Fo. rewrite Tm in Et. rewrite <- Et in To. subst to. clear Et.
  assert (Rm : (rankZ tm = rankZ xm + forward c)%Z).
  { destruct Gm as [G|[G|[G|G]]]; try tauto; destruct G as (X & _); rewrite X in Cm; discriminate. }
  assert (Ro : (rankZ tm = rankZ xo + forward c)%Z).
  { destruct Go as [G|[G|[G|G]]]; try tauto; destruct G as (X & _); rewrite X in Co; discriminate. }
  assert (E : rankZ xm = rankZ xo) by lia. unfold rankZ in E. lia.
Qed.

(* ------------------------------------------------------------------ *)
(** * the hypotheses of san_c13 for the generated list *)

Section OneList.
Variables (b : board) (ms : list cmove) (b' : board).
Hypothesis I : Inv b.
Hypothesis G : gen_moves b (turn b) = Ok (ms, b').

Let W : WF b := InvC_WF rook_t bishop_t b (turn b) I.

Lemma gen_list_in_cands :
  exists cands, pseudo_moves b (turn b) = Ok cands /\ forall m, In m ms -> In m cands.
Proof.
  destruct (gen_moves_spec T rook_t bishop_t b (turn b) ms b' W (InvC_ep_wf _ _ b (turn b) I) G)
    as (_ & cands & Hc & _ & _ & Ems).
  exists cands. split; [exact Hc|]. intros m Hm. rewrite Ems in Hm. apply filter_In in Hm. tauto.
Qed.

Lemma gen_list_own m : In m ms -> exists p, bget b (mv_from m) = Some (p, turn b).
Proof.
  intro Hm. destruct (gen_moves_InvC_spec T rook_t bishop_t b (turn b) ms b' I G) as [_ X].
  destruct (X m Hm) as (_ & O & _). exact O.
Qed.

Lemma gen_list_pawn_geo m col : In m ms -> bget b (mv_from m) = Some (Pawn, col) -> pawn_geo b (turn b) m.
Proof.
  intros Hm Bm. destruct gen_list_in_cands as (cands & Hc & Sub).
  apply (pawn_origin_geo b (turn b) cands m col I Hc (Sub m Hm) Bm).
Qed.

Lemma gen_list_cands_fit : cands_fit b ms.
Proof. intros o Ho. apply (generated_moves_fit T rook_t bishop_t b ms b' I G o Ho). Qed.

Lemma gen_list_one_king_origin : one_king_origin b ms.
Proof.
  apply one_king_origin_of_board; [exact W | | exact gen_list_own].
  apply Repr_one_king_pop. apply (InvC_Repr _ _ b (turn b) I).
Qed.

Lemma gen_list_quiet_pawns : all_quiet_pawns_unrivalled b ms.
Proof.
  intros m Hm col Bm Cm.
  destruct (rivals b ms m Pawn) as [|o rest] eqn:Er; [reflexivity|exfalso].
  assert (Ho : In o (rivals b ms m Pawn)) by (rewrite Er; left; reflexivity).
  unfold rivals in Ho. apply filter_In in Ho. destruct Ho as [Ho Cond].
  rewrite !andb_true_iff in Cond. destruct Cond as [[Nf Et] Bo].
  apply negb_true_iff, N.eqb_neq in Nf. apply N.eqb_eq in Et.
  destruct (bget b (mv_from o)) as [[q co]|] eqn:Bo'; [|discriminate Bo].
  apply piece_eqb_eq in Bo. subst q.
  pose proof (InvC_PInv _ _ b (turn b) I) as (_ & _ & _ & EI & _).
  apply (quiet_pawn_no_rival b (turn b) m o W EI
           (gen_list_pawn_geo m col Hm Bm) (gen_list_pawn_geo o co Ho Bo') Cm Et Nf).
Qed.

Lemma gen_list_pawn_caps : pawn_caps_same_rank b ms.
Proof.
  intros o1 o2 c1 c2 H1 H2 B1' B2' C1' C2' Et.
  apply (pawn_caps_rank b (turn b) o1 o2 (gen_list_pawn_geo o1 c1 H1 B1') (gen_list_pawn_geo o2 c2 H2 B2')
           C1' C2' Et).
Qed.

(** the Prop-level hypotheses of SanProofs *)
Theorem generated_list_position_like :
  cands_fit b ms /\ one_king_origin b ms /\ all_quiet_pawns_unrivalled b ms /\ legal_like b ms.
Proof.
  split; [exact gen_list_cands_fit|]. split; [exact gen_list_one_king_origin|].
  split; [exact gen_list_quiet_pawns|]. split; [exact gen_list_cands_fit|exact gen_list_pawn_caps].
Qed.

(** the executable check of SanProofs (what the correspondence runner evaluates) says yes *)
Theorem generated_list_position_likeb : position_likeb b ms = true.
Proof.
  unfold position_likeb. rewrite !andb_true_iff.
  pose proof (InvC_Repr _ _ b (turn b) I) as R.
  split; [split; [split; [split; [split|]|]|]|].
  - apply repr_ok_iff in R. unfold repr_ok in R. rewrite !andb_true_iff in R. tauto.
  - apply N.eqb_eq. apply Repr_one_king_pop. exact R.
  - unfold cands_fitb. apply forallb_forall. intros o Ho. apply fitsb_spec. apply (gen_list_cands_fit o Ho).
  - unfold same_sideb. apply forallb_forall. intros o Ho. destruct (gen_list_own o Ho) as [p Ep].
    rewrite Ep. apply color_eqb_refl.
  - unfold quiet_pawnsb. apply forallb_forall. intros m Hm.
    unfold is_pawn_at. destruct (bget b (mv_from m)) as [[[] col]|] eqn:Bm; try reflexivity.
    destruct (mv_captures m) eqn:Cm; [reflexivity|]. cbn [is_some negb andb implb].
    rewrite (gen_list_quiet_pawns m Hm col Bm Cm). reflexivity.
  - unfold pawn_capsb. apply forallb_forall. intros o1 H1. apply forallb_forall. intros o2 H2.
    unfold is_pawn_at.
    destruct (bget b (mv_from o1)) as [[[] c1]|] eqn:B1'; try reflexivity.
    destruct (bget b (mv_from o2)) as [[[] c2]|] eqn:B2'; try reflexivity.
    destruct (is_some (mv_captures o1)) eqn:C1'; [|reflexivity].
    destruct (is_some (mv_captures o2)) eqn:C2'; [|reflexivity].
    destruct (N.eqb_spec (mv_to o1) (mv_to o2)) as [Et|]; [|reflexivity].
    cbn [andb implb]. apply N.eqb_eq.
    apply (gen_list_pawn_caps o1 o2 c1 c2 H1 H2 B1' B2' C1' C2' Et).
Qed.

End OneList.

(* ------------------------------------------------------------------ *)
(** * the FIDE label depends on the legal moves only as a set *)

Lemma filter_nil_same {A} (f : A -> bool) l l' :
  (forall x, In x l <-> In x l') -> MoveGen.is_nil (filter f l) = MoveGen.is_nil (filter f l').
Proof.
  intro E.
  assert (K : forall l1 l2 : list A, (forall x, In x l1 -> In x l2) ->
              MoveGen.is_nil (filter f l2) = true -> MoveGen.is_nil (filter f l1) = true).
  { intros l1 l2 Sub H. destruct (filter f l1) as [|a r] eqn:Ef; [reflexivity|exfalso].
    assert (Ha : In a (filter f l1)) by (rewrite Ef; left; reflexivity).
    apply filter_In in Ha. destruct Ha as [Ha Fa].
    assert (Ha2 : In a (filter f l2)) by (apply filter_In; split; [apply Sub, Ha|exact Fa]).
    destruct (filter f l2); [destruct Ha2|discriminate H]. }
  destruct (MoveGen.is_nil (filter f l)) eqn:E1', (MoveGen.is_nil (filter f l')) eqn:E2'; try reflexivity.
  - rewrite (K l' l (fun x => proj2 (E x)) E1') in E2'. discriminate.
  - rewrite (K l l' (fun x => proj1 (E x)) E2') in E1'. discriminate.
Qed.

Lemma existsb_filter_same {A} (g f : A -> bool) l l' :
  (forall x, In x l <-> In x l') -> existsb g (filter f l) = existsb g (filter f l').
Proof.
  intro E.
  assert (K : forall l1 l2 : list A, (forall x, In x l1 -> In x l2) ->
              existsb g (filter f l1) = true -> existsb g (filter f l2) = true).
  { intros l1 l2 Sub H. apply existsb_exists in H. destruct H as [a [Ha Ga]].
    apply filter_In in Ha. destruct Ha as [Ha Fa]. apply existsb_exists. exists a.
    split; [apply filter_In; split; [apply Sub, Ha|exact Fa]|exact Ga]. }
  destruct (existsb g (filter f l)) eqn:E1', (existsb g (filter f l')) eqn:E2'; try reflexivity.
  - rewrite (K l l' (fun x => proj1 (E x)) E1') in E2'. discriminate.
  - rewrite (K l' l (fun x => proj2 (E x)) E2') in E1'. discriminate.
Qed.

Theorem spec_label_same_set p l l' m e :
  (forall x, In x l <-> In x l') -> spec_label p l m e = spec_label p l' m e.
Proof.
  intro E. unfold spec_label. destruct m as [f t cap|f t cap pp|f t|f t]; [| | |reflexivity];
    cbv zeta;
    rewrite (filter_nil_same _ l l' E);
    rewrite (existsb_filter_same (fun o => mv_from o mod 8 =? _ mod 8) _ l l' E);
    rewrite (existsb_filter_same (fun o => mv_from o / 8 =? _ / 8) _ l l' E);
    reflexivity.
Qed.

(* ------------------------------------------------------------------ *)
(** * C13 closed *)

(** what Game.apply_by_notation enumerates on a board satisfying the invariant: every legal
    move, annotated with the rules' effect, labelled with the FIDE label computed over the
    rules' own legal-move list, no two labels alike; the enumeration never fails once the
    annotated generator has returned *)
Theorem san_exact b cands b1 :
  Inv b -> gen_annotated b (turn b) = Ok (cands, b1) ->
  b1 = b
  /\ NoDup (map fst cands)
  /\ (forall m, In m (map fst cands) <-> In m (legal_moves (abstract b)))
  /\ exists r,
       san_all b1 (map fst cands) cands = Ok r
       /\ r = map (fun me => (fst me,
                              spec_label (abstract b) (legal_moves (abstract b)) (fst me)
                                         (move_effect (abstract b) (turn b) (fst me)))) cands
       /\ NoDup (map snd r).
Proof.
  intros I H.
  destruct (effects_exact_turn T rook_t bishop_t rook_t_ref bishop_t_ref b cands b1 I H)
    as (Eb & ND & E & Ee).
  subst b1. split; [reflexivity|]. split; [exact ND|]. split; [exact E|].
  pose proof (InvC_WF _ _ b (turn b) I) as W.
  destruct (gen_annotated_board T rook_t bishop_t b (turn b) cands b W (InvC_ep_wf _ _ b (turn b) I) H)
    as [_ G].
  destruct (generated_list_position_like b (map fst cands) b I G) as (Hf & Hk & Hq & Hll).
  assert (Hsub : forall m e, In (m, e) cands -> In m (map fst cands)).
  { intros m e Hin. apply in_map_iff. exists (m, e). split; [reflexivity|exact Hin]. }
  pose proof (san_all_matches_spec b (map fst cands) cands Hf Hk Hq Hsub) as Hs.
  eexists. split; [exact Hs|]. split.
  - apply map_ext_in. intros [m e] Hin. cbn [fst snd]. f_equal.
    rewrite (Ee m e Hin). apply spec_label_same_set. exact E.
  - apply (san_all_labels_nodup b (map fst cands) cands _ Hll Hsub ND Hs).
Qed.

(* the literal shape of SanProofs.san_c13, with its first hypothesis discharged *)
Corollary san_c13_closed b cands b1 r :
  Inv b -> gen_annotated b (turn b) = Ok (cands, b1) ->
  san_all b1 (map fst cands) cands = Ok r ->
  r = map (fun me => (fst me, spec_label (abstract b) (map fst cands) (fst me) (snd me))) cands
  /\ NoDup (map snd r).
Proof.
  intros I H Hr.
  destruct (effects_exact_turn T rook_t bishop_t rook_t_ref bishop_t_ref b cands b1 I H)
    as (Eb & ND & _ & _).
  subst b1. pose proof (InvC_WF _ _ b (turn b) I) as W.
  destruct (gen_annotated_board T rook_t bishop_t b (turn b) cands b W (InvC_ep_wf _ _ b (turn b) I) H)
    as [_ G].
  apply (san_c13 b (map fst cands) cands r (generated_list_position_likeb b (map fst cands) b I G)); [|exact ND|exact Hr].
  intros m e Hin. apply in_map_iff. exists (m, e). split; [reflexivity|exact Hin].
Qed.

End San.

(* ------------------------------------------------------------------ *)
(** * non-vacuity *)

Example SC_kiwipete :
  InvProofs2.invb rook_ref bishop_ref PP_kiwipete = true
  /\ match gen_annotated example_table rook_ref bishop_ref PP_kiwipete (turn PP_kiwipete) with
     | Ok (cands, b1) =>
         position_likeb PP_kiwipete (map fst cands)
         && match san_all b1 (map fst cands) cands with
            | Ok r => Nat.eqb (length r) 48
                      && existsb (fun ms => String.eqb (snd ms) "O-O") r
                      && existsb (fun ms => String.eqb (snd ms) "Qxf6") r
                      && existsb (fun ms => String.eqb (snd ms) "dxe6") r
            | _ => false
            end
     | _ => false
     end = true.
Proof. vm_compute. split; reflexivity. Qed.

Print Assumptions generated_list_position_like.
Print Assumptions generated_list_position_likeb.
Print Assumptions san_exact.
Print Assumptions san_c13_closed.
