(* Pvp.v — src/input_handler/mod.rs (parse_player_move_input), src/game/command.rs (MakeMove) and
   the loop of src/game/player_vs_player.rs, over the regexes translated from the source
   (gen/InputRegex.v).  Executable only; PvpProofs.v proves the statements. *)
From Coq Require Import NArith List String Ascii.
From ChessV Require Export Game Regex.
From ChessV.gen Require Export InputRegex.
Import ListNotations.
Open Scope N_scope.

(* str::trim_start().trim_end() on ASCII input: space, \t, \n, \v, \f, \r *)
Definition is_space (c : ascii) : bool :=
  let n := N_of_ascii c in (n =? 32) || ((9 <=? n) && (n <=? 13)).
Fixpoint trim_start (s : string) : string :=
  match s with
  | String c r => if is_space c then trim_start r else s
  | EmptyString => EmptyString
  end.
Fixpoint rev_string (s acc : string) : string :=
  match s with EmptyString => acc | String c r => rev_string r (String c acc) end.
Definition trim_end (s : string) : string := rev_string (trim_start (rev_string s EmptyString)) EmptyString.
Definition trim (s : string) : string := trim_end (trim_start s).

(* the command the input layer hands to the game *)
Inductive command := CmdCoord (from to : string) | CmdAlg (s : string).

(* parse_player_move_input after read_line: the coordinate pattern is tried first; both patterns
   are anchored, so capture group 1 of the notation pattern is the whole (trimmed) line and the two
   groups of the coordinate pattern are its two halves *)
Definition parse_input (raw : string) : option command :=
  let s := trim raw in
  if full_match COORDINATE_RE s then
    match s with
    | String f1 (String r1 (String f2 (String r2 EmptyString))) =>
        Some (CmdCoord (String f1 (String r1 EmptyString)) (String f2 (String r2 EmptyString)))
    | _ => None   (* unreachable: the pattern matches exactly four characters *)
    end
  else if full_match ALGEBRAIC_RE s then Some (CmdAlg s)
  else None.

Section WithGen.
Variable T : ztable.
Variables rook_t bishop_t : N -> N -> N.

(* MakeMove::execute: square_string_to_bitboard on the two captured halves (it panics on anything
   but ^[a-hA-H][1-8]$), then the Game entry points *)
Definition exec_command (c : command) (g : game) : gres (cmove * game) :=
  match c with
  | CmdCoord (String f1 (String r1 EmptyString)) (String f2 (String r2 EmptyString)) =>
      match parse_square f1 r1, parse_square f2 r2 with
      | Ok f, Ok t => apply_by_coords T rook_t bishop_t g f t
      | _, _ => GPanic
      end
  | CmdCoord _ _ => GPanic
  | CmdAlg s => apply_by_notation T rook_t bishop_t g s
  end.

(* what one pass through the loop body does with one line of input *)
Inductive step_out := Played (m : cmove) | Refused | Unparsed | Crashed.

Definition pvp_step (g : game) (raw : string) : game * step_out :=
  match parse_input raw with
  | None => (g, Unparsed)
  | Some c =>
      match exec_command c g with
      | GOk (m, g') =>
          ({| gboard := toggle_turn (gboard g'); ghist := ghist g'; gdepth := gdepth g' |}, Played m)
      | GPanic => (g, Crashed)
      | _ => (g, Refused)
      end
  end.

(* the verdict printed at the top of the loop (check_game_over_for_current_turn) *)
Definition pvp_over (g : game) : res (option ending) :=
  let* (e, _) := game_ending T rook_t bishop_t (gboard g) (turn (gboard g)) in Ok e.

(* the loop on a finite list of input lines: the states shown before each prompt (the first is the
   state given), and how it stopped: Some verdict, or None when the input ran out first *)
Fixpoint pvp_run (g : game) (inputs : list string) : list game * res (option ending) :=
  match pvp_over g with
  | Ok (Some e) => ([g], Ok (Some e))
  | Ok None =>
      match inputs with
      | [] => ([g], Ok None)
      | raw :: rest =>
          match pvp_step g raw with
          | (_, Crashed) => ([g], Panic)
          | (g', _) => let (gs, r) := pvp_run g' rest in (g :: gs, r)
          end
      end
  | _ => ([g], Panic)
  end.

End WithGen.
