(* Abs.v — the mailbox view of a model board, the history-free position key, and the
   decidable representation invariants (C12's clauses).  Executable only. *)
From ChessV Require Export MoveGen.
From ChessV Require Rules.

(* top of a stack with the value the empty stack cannot yield in a well-formed board *)
Definition top (l : list N) : N := hd 0 l.

Definition abs_ep (b : board) : option N :=
  let t := top (ep_stack b) in if is_empty t then None else Some (tz t).

Definition abstract (b : board) : Rules.position :=
  {| Rules.cells := map (bget b) squares;
     Rules.pturn := turn b;
     Rules.prights := top (cr_stack b);
     Rules.pep := abs_ep b;
     Rules.phalf := top (hm_stack b);
     Rules.pfull := fullmove b |}.

(* XOR of one constant per occupied square, per rights set, per ep square *)
Definition key_of (T : ztable) (p : Rules.position) : N :=
  fold_left (fun h i =>
      match Rules.at_ p i with
      | Some (pc, c) => N.lxor h (zp T pc i c)
      | None => h
      end) squares
    (N.lxor (N.lxor (zc T ALL_RIGHTS) (zc T (Rules.prights p)))
            (match Rules.pep p with Some e => ze T e | None => 0 end)).

(* ---- representation invariants, decidable ---- *)
Definition all_piece_kinds : list piece := [Pawn; Knight; Bishop; Rook; Queen; King].

Fixpoint pairwise_disjoint (l : list N) : bool :=
  match l with
  | [] => true
  | x :: r => forallb (fun y => N.land x y =? 0) r && pairwise_disjoint r
  end.

Definition pset_ok (s : pset) : bool :=
  let bbsl := map (locate s) all_piece_kinds in
  pairwise_disjoint bbsl
  && (fold_left N.lor bbsl 0 =? occ s)
  && (occ s <=? ALL64).

Definition nonempty {A} (l : list A) : bool := match l with [] => false | _ => true end.

(* wf: what the bitboard representation itself promises *)
Definition wf_b (b : board) : bool :=
  pset_ok (white b) && pset_ok (black b)
  && (N.land (occ (white b)) (occ (black b)) =? 0)
  && nonempty (ep_stack b) && nonempty (cr_stack b) && nonempty (hm_stack b) && nonempty (seen_stack b).

Definition right_ok (b : board) (bitmask king_sq rook_sq : N) (c : color) : bool :=
  (N.land (top (cr_stack b)) bitmask =? 0)
  || (opt_pc_eqb (bget b king_sq) (Some (King, c)) && opt_pc_eqb (bget b rook_sq) (Some (Rook, c))).

Definition ep_ok (b : board) : bool :=
  let t := top (ep_stack b) in
  if is_empty t then true
  else
    (popcount t =? 1) &&
    (let i := tz t in
     if rank_of i =? 2 then
       opt_pc_eqb (bget b (i + 8)) (Some (Pawn, White)) && is_none (bget b i) && is_none (bget b (i - 8))
     else if rank_of i =? 5 then
       opt_pc_eqb (bget b (i - 8)) (Some (Pawn, Black)) && is_none (bget b i) && is_none (bget b (i + 8))
     else false).

(* every clause of C12's statement *)
Definition repr_ok (b : board) : bool :=
  wf_b b
  && (popcount (kg (white b)) =? 1) && (popcount (kg (black b)) =? 1)
  && (N.land (N.lor (pw (white b)) (pw (black b))) (N.lor RANK_1 RANK_8) =? 0)
  && right_ok b WK 4 7 White && right_ok b WQ 4 0 White
  && right_ok b BK 60 63 Black && right_ok b BQ 60 56 Black
  && ep_ok b.

Section WithSliders.
Variables rook_t bishop_t : N -> N -> N.
(* Inv: repr_ok and the side NOT to move is not in check, and the ep pawn belongs to it *)
Definition inv_ok (b : board) : bool :=
  repr_ok b
  && negb (in_check rook_t bishop_t b (opp_c (turn b)))
  && (let t := top (ep_stack b) in
      is_empty t || (rank_of (tz t) =? (match turn b with White => 5 | Black => 2 end))).
End WithSliders.
