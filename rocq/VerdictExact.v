(* VerdictExact.v — C06, top level: check / checkmate / stalemate verdicts and the check
   annotations of the legal moves, against the FIDE-rules spec.

   On every board satisfying the reachable-state invariant ([InvProofs2.Inv] / [InvC]):

     in_check_turn_exact   the engine reports the side to move in check exactly when the rules
                           say its king is attacked (and the same for either colour);
     game_ending_exact     where no count-based draw fires (repetition count <> 3, half-move
                           clock < 100) and the colour handed in is the side to move (as every
                           caller does), [game_ending] hands the board back and answers
                           Checkmate iff [Rules.is_checkmate], Stalemate iff
                           [Rules.is_stalemate], nothing otherwise;
     game_ending_draws     the two count-based draws, for completeness;
     effect_of_exact /     every move of the annotated legal list carries
     effects_exact         [Rules.move_effect] (check / checkmate / neither, decided on the
                           rules' successor position), the board is handed back, and the list
                           of moves is the rules' legal list (no duplicates, same set);
     *_total               ... and none of these fails when the clocks are away from their
                           maxima ([Congr.fine]).

   Built on GenExact.v (C01 top level).  Proofs only; no axioms. *)
From Coq Require Import Lia ZArith NArith List Bool.
From ChessV Require Import Bits Types Board Moves Rays MoveGen Eval Rules Abs.
From ChessV Require Import BitsLemmas BoardLemmas WfReflect PseudoProofs.
From ChessV Require Import InvProofs InvProofs2 GenFrame GenExact.
From ChessV Require UndoProofs EpFrame SuccProofs1 SuccProofs AttackProofs Congr GenTotal Magic MagicProofs.
Import ListNotations.
Open Scope N_scope.
Open Scope list_scope.

#[local] Arguments N.add : simpl never.
#[local] Arguments N.sub : simpl never.
#[local] Arguments N.mul : simpl never.
#[local] Arguments N.eqb : simpl never.
#[local] Arguments N.ltb : simpl never.
#[local] Arguments N.leb : simpl never.
#[local] Arguments N.shiftl : simpl never.
#[local] Arguments N.shiftr : simpl never.
#[local] Arguments N.land : simpl never.
#[local] Arguments N.lor : simpl never.
#[local] Arguments N.lxor : simpl never.
#[local] Arguments N.ldiff : simpl never.
#[local] Arguments N.testbit : simpl never.

(* the rules' verdict on a position with colour c to move, where no count-based draw applies *)
Definition verdict (p : position) (c : color) : option ending :=
  if is_checkmate p c then Some Checkmate
  else if is_stalemate p c then Some Stalemate
  else None.

(* the same from its two ingredients *)
Definition verdict_of (attacked no_moves : bool) : option ending :=
  if no_moves then Some (if attacked then Checkmate else Stalemate) else None.

Lemma verdict_unfold p c :
  verdict p c = verdict_of (king_attacked p c) (is_nil_list (legal_moves_for p c)).
Proof.
  unfold verdict, verdict_of, is_checkmate, is_stalemate.
  generalize (king_attacked p c) as a. generalize (is_nil_list (legal_moves_for p c)) as n.
  intros [|] [|]; reflexivity.
Qed.

Definition effect_from (attacked no_moves : bool) : effect :=
  if attacked && no_moves then ECheckmate else if attacked then ECheck else ENone.

Lemma move_effect_unfold p c m :
  move_effect p c m =
  effect_from (king_attacked (successor p m) (opp_c c))
              (is_nil_list (legal_moves_for (successor p m) (opp_c c))).
Proof. unfold move_effect, effect_from, is_checkmate. reflexivity. Qed.

Lemma is_nil_same {A} (l1 l2 : list A) :
  (forall x, In x l1 <-> In x l2) -> MoveGen.is_nil l1 = is_nil_list l2.
Proof.
  intro E. destruct l1 as [|a l1], l2 as [|a2 l2]; try reflexivity.
  - exfalso. apply (proj2 (E a2)). left. reflexivity.
  - exfalso. apply (proj1 (E a)). left. reflexivity.
Qed.

Lemma max_seen_top b s : max_seen b = Ok s -> s = top (seen_stack b).
Proof. unfold max_seen, top. destruct (seen_stack b); intro H; inversion H. reflexivity. Qed.

Lemma halfmove_top b h : halfmove b = Ok h -> h = top (hm_stack b).
Proof. unfold halfmove, top. destruct (hm_stack b); intro H; inversion H. reflexivity. Qed.

Section Verdict.
Variable T : ztable.
Variables rook_t bishop_t : N -> N -> N.
Hypothesis rook_t_ref : forall x o, x < 64 -> rook_t x o = rook_ref x o.
Hypothesis bishop_t_ref : forall x o, x < 64 -> bishop_t x o = bishop_ref x o.

Notation InvC := (InvC rook_t bishop_t).
Notation Inv := (Inv rook_t bishop_t).
Notation gen_moves := (gen_moves T rook_t bishop_t).
Notation in_check := (in_check rook_t bishop_t).
Notation effect_of := (effect_of T rook_t bishop_t).
Notation annotate := (annotate T rook_t bishop_t).
Notation gen_annotated := (gen_annotated T rook_t bishop_t).
Notation game_ending := (game_ending T rook_t bishop_t).

(* ------------------------------------------------------------------ *)
(** * in check *)

Theorem in_check_exact_InvC b c c0 : InvC b c -> in_check b c0 = king_attacked (abstract b) c0.
Proof.
  intro I. apply (in_check_Repr rook_t bishop_t rook_t_ref bishop_t_ref b c0).
  apply (InvC_Repr _ _ b c I).
Qed.

Theorem in_check_turn_exact b : Inv b -> in_check b (turn b) = king_attacked (abstract b) (turn b).
Proof. intro I. apply (in_check_exact_InvC b (turn b) (turn b) I). Qed.

(* ------------------------------------------------------------------ *)
(** * game_ending *)

Theorem game_ending_exact_c b c e b' :
  InvC b c -> turn b = c ->
  top (seen_stack b) <> REPETITION_DRAW_COUNT -> top (hm_stack b) < HALFMOVE_DRAW_THRESHOLD ->
  game_ending b c = Ok (e, b') ->
  b' = b /\ e = verdict (abstract b) c.
Proof.
  intros I Et Hs Hh H. unfold Eval.game_ending in H.
  bind_inv H seen Es. apply max_seen_top in Es. subst seen.
  apply N.eqb_neq in Hs. rewrite Hs in H.
  bind_inv H hm Eh. apply halfmove_top in Eh. subst hm.
  assert (Hh' : (HALFMOVE_DRAW_THRESHOLD <=? top (hm_stack b)) = false) by (apply N.leb_gt; exact Hh).
  rewrite Hh' in H.
  bind_inv H cb Eg. destruct cb as [cands b1]. cbv beta iota zeta in H.
  destruct (gen_exact T rook_t bishop_t rook_t_ref bishop_t_ref b c cands b1 I Eg) as (-> & _ & E).
  rewrite Et in H. rewrite (in_check_exact_InvC b c c I) in H.
  rewrite (is_nil_same _ _ E) in H.
  rewrite verdict_unfold. unfold verdict_of.
  destruct (is_nil_list (legal_moves_for (abstract b) c)); inversion H; split; reflexivity.
Qed.

(** the statement for the side to move *)
Theorem game_ending_exact b e b' :
  Inv b ->
  top (seen_stack b) <> REPETITION_DRAW_COUNT -> top (hm_stack b) < HALFMOVE_DRAW_THRESHOLD ->
  game_ending b (turn b) = Ok (e, b') ->
  b' = b /\ e = (if is_checkmate (abstract b) (turn b) then Some Checkmate
                 else if is_stalemate (abstract b) (turn b) then Some Stalemate
                 else None).
Proof. intros I. apply (game_ending_exact_c b (turn b) e b' I eq_refl). Qed.

(* the verdicts one by one *)
Corollary game_ending_checkmate_iff b e b' :
  Inv b ->
  top (seen_stack b) <> REPETITION_DRAW_COUNT -> top (hm_stack b) < HALFMOVE_DRAW_THRESHOLD ->
  game_ending b (turn b) = Ok (e, b') ->
  (e = Some Checkmate <-> is_checkmate (abstract b) (turn b) = true)
  /\ (e = Some Stalemate <-> is_stalemate (abstract b) (turn b) = true)
  /\ (e = Some Checkmate <->
      king_attacked (abstract b) (turn b) = true /\ legal_moves (abstract b) = [])
  /\ (e = Some Stalemate <->
      king_attacked (abstract b) (turn b) = false /\ legal_moves (abstract b) = []).
Proof.
  intros I Hs Hh H. destruct (game_ending_exact b e b' I Hs Hh H) as [_ ->].
  rewrite legal_moves_abstract.
  unfold is_checkmate, is_stalemate.
  generalize (king_attacked (abstract b) (turn b)) as a.
  generalize (legal_moves_for (abstract b) (turn b)) as l.
  intros [|x l] [|]; cbn [is_nil_list andb negb];
    (split; [|split; [|split]]); split; intro X; try discriminate X; try reflexivity;
    try (destruct X as [X1 X2]; discriminate); try (split; reflexivity).
Qed.

(** the count-based draws (reported before any move generation) *)
Theorem game_ending_draws b c :
  seen_stack b <> [] -> hm_stack b <> [] ->
  top (seen_stack b) = REPETITION_DRAW_COUNT \/ HALFMOVE_DRAW_THRESHOLD <= top (hm_stack b) ->
  game_ending b c = Ok (Some Draw, b).
Proof.
  intros Ns Nh D. unfold Eval.game_ending, max_seen, halfmove, top in *.
  destruct (seen_stack b) as [|s rs]; [congruence|]. destruct (hm_stack b) as [|h rh]; [congruence|].
  cbn [hd] in D. cbn [bind].
  destruct (N.eqb_spec s REPETITION_DRAW_COUNT) as [_|Ne]; [reflexivity|].
  cbn [bind]. destruct D as [D|D]; [contradiction|].
  apply N.leb_le in D. rewrite D. reflexivity.
Qed.

Theorem game_ending_total_exact b :
  Inv b -> Congr.fine 0 b ->
  top (seen_stack b) <> REPETITION_DRAW_COUNT -> top (hm_stack b) < HALFMOVE_DRAW_THRESHOLD ->
  game_ending b (turn b) = Ok (verdict (abstract b) (turn b), b).
Proof.
  intros I F Hs Hh.
  destruct (GenTotal.game_ending_total T rook_t bishop_t b (turn b) I F
              (GenTotal.InvC_seen_nonempty rook_t bishop_t b (turn b) I)) as [e G].
  destruct (game_ending_exact_c b (turn b) e b I eq_refl Hs Hh G) as [_ ->]. exact G.
Qed.

(* ------------------------------------------------------------------ *)
(** * the annotation of one legal move *)

Theorem effect_of_exact b c ms b0 m e b' :
  InvC b c -> gen_moves b c = Ok (ms, b0) -> In m ms ->
  effect_of b c m = Ok (e, b') ->
  b' = b /\ e = move_effect (abstract b) c m.
Proof.
  intros I G Hm H. pose proof (InvC_Repr _ _ b c I) as R.
  destruct (gen_move_successor T rook_t bishop_t b c ms b0 m I G Hm)
    as (b1 & A & Es & I1).
  destruct (gen_moves_InvC_spec T rook_t bishop_t b c ms b0 I G) as [_ X].
  destruct (X m Hm) as (S & _).
  unfold MoveGen.effect_of in H. rewrite A in H. cbn [unwrap bind] in H.
  bind_inv H rb Gr. destruct rb as [replies b1']. cbv beta iota zeta in H.
  destruct (gen_exact T rook_t bishop_t rook_t_ref bishop_t_ref b1 (opp_c c) replies b1' I1 Gr)
    as (-> & _ & E).
  rewrite (undo_apply_gen T m b b1 R S A) in H. cbn [unwrap bind] in H.
  rewrite (in_check_exact_InvC b1 (opp_c c) (opp_c c) I1) in H.
  rewrite (is_nil_same _ _ E) in H. rewrite Es in H.
  rewrite move_effect_unfold. unfold effect_from.
  inversion H. split; reflexivity.
Qed.

(* ------------------------------------------------------------------ *)
(** * the annotated list *)

Lemma annotate_exact b c ms b0 : InvC b c -> gen_moves b c = Ok (ms, b0) ->
  forall sub l b', incl sub ms -> annotate b c sub = Ok (l, b') ->
  b' = b /\ map fst l = sub /\ forall m e, In (m, e) l -> e = move_effect (abstract b) c m.
Proof.
  intros I G. induction sub as [|m rest IH]; intros l b' Hincl H.
  - cbn [MoveGen.annotate] in H. inversion H. split; [reflexivity|]. split; [reflexivity|].
    intros m e [].
  - cbn [MoveGen.annotate] in H.
    bind_inv H eb Ef. destruct eb as [e1 b1]. cbv beta iota in H.
    destruct (effect_of_exact b c ms b0 m e1 b1 I G (Hincl m (or_introl eq_refl)) Ef) as [-> Ee].
    bind_inv H rb Ea. destruct rb as [rest' b2]. cbv beta iota in H.
    destruct (IH rest' b2 (fun x Hx => Hincl x (or_intror Hx)) Ea) as (-> & Em & Er).
    inversion H; subst l b'. split; [reflexivity|]. split.
    + cbn [map fst]. rewrite Em. reflexivity.
    + intros m' e' [X|X]; [injection X as Xm Xe; rewrite <- Xm, <- Xe; exact Ee | apply (Er m' e' X)].
Qed.

(** C06, annotations: the annotated generator hands the board back; its moves are the rules'
    legal moves (no duplicates, same set); every one carries the rules' [move_effect] *)
Theorem effects_exact_c b c l b' :
  InvC b c -> gen_annotated b c = Ok (l, b') ->
  b' = b
  /\ NoDup (map fst l)
  /\ (forall m, In m (map fst l) <-> In m (legal_moves_for (abstract b) c))
  /\ forall m e, In (m, e) l -> e = move_effect (abstract b) c m.
Proof.
  intros I H. unfold MoveGen.gen_annotated in H.
  bind_inv H mb G. destruct mb as [ms b1]. cbv beta iota in H.
  destruct (gen_exact T rook_t bishop_t rook_t_ref bishop_t_ref b c ms b1 I G) as (Eb & ND & E).
  subst b1.
  destruct (annotate_exact b c ms b I G ms l b' (incl_refl ms) H) as (Eb' & Em & Ee).
  split; [exact Eb'|]. rewrite Em. split; [exact ND|]. split; [exact E|exact Ee].
Qed.

Theorem effects_exact b l b' :
  Inv b -> gen_annotated b (turn b) = Ok (l, b') ->
  forall m e, In (m, e) l -> e = move_effect (abstract b) (turn b) m.
Proof. intros I H. apply (effects_exact_c b (turn b) l b' I H). Qed.

Corollary effects_exact_turn b l b' :
  Inv b -> gen_annotated b (turn b) = Ok (l, b') ->
  b' = b
  /\ NoDup (map fst l)
  /\ (forall m, In m (map fst l) <-> In m (legal_moves (abstract b)))
  /\ forall m e, In (m, e) l -> e = move_effect (abstract b) (turn b) m.
Proof. intros I H. rewrite legal_moves_abstract. apply (effects_exact_c b (turn b) l b' I H). Qed.

(* every legal move is listed, with its effect (needs one more ply of clock room) *)
Theorem effects_total b :
  Inv b -> Congr.fine 1 b ->
  exists l, gen_annotated b (turn b) = Ok (l, b)
            /\ forall m, In m (legal_moves (abstract b)) ->
                         In (m, move_effect (abstract b) (turn b) m) l.
Proof.
  intros I F.
  destruct (GenTotal.gen_annotated_total T rook_t bishop_t b (turn b) I F) as [l G].
  exists l. split; [exact G|]. intros m Hm.
  destruct (effects_exact_turn b l b I G) as (_ & _ & E & Ee).
  apply E in Hm. apply in_map_iff in Hm. destruct Hm as [[m' e] [Em Hin]]. cbn [fst] in Em. subst m'.
  rewrite <- (Ee m e Hin). exact Hin.
Qed.

End Verdict.

(* ------------------------------------------------------------------ *)
(** * instance: the magic tables *)

Theorem game_ending_exact_magic T res bes b e b' :
  Magic.entries_valid rook_deltas res = true -> Magic.entries_valid bishop_deltas bes = true ->
  InvProofs2.Inv (Magic.magic_rook res) (Magic.magic_bishop bes) b ->
  top (seen_stack b) <> REPETITION_DRAW_COUNT -> top (hm_stack b) < HALFMOVE_DRAW_THRESHOLD ->
  Eval.game_ending T (Magic.magic_rook res) (Magic.magic_bishop bes) b (turn b) = Ok (e, b') ->
  b' = b /\ e = verdict (abstract b) (turn b).
Proof.
  intros Vr Vb I. apply game_ending_exact; [| |exact I].
  - intros x o Lx. apply MagicProofs.rook_lookup_exact; assumption.
  - intros x o Lx. apply MagicProofs.bishop_lookup_exact; assumption.
Qed.

(* ------------------------------------------------------------------ *)
(** * non-vacuity *)

(* fool's mate: 1. f3 e5 2. g4 Qh4# — White to move, checkmated *)
Definition VE_fools_mate : board :=
  PP_put_all board_new
    (PP_back 0 White
     ++ [(8, Pawn, White); (9, Pawn, White); (10, Pawn, White); (11, Pawn, White); (12, Pawn, White);
         (21, Pawn, White); (30, Pawn, White); (15, Pawn, White)]
     ++ [(48, Pawn, Black); (49, Pawn, Black); (50, Pawn, Black); (51, Pawn, Black); (36, Pawn, Black);
         (53, Pawn, Black); (54, Pawn, Black); (55, Pawn, Black)]
     ++ [(56, Rook, Black); (57, Knight, Black); (58, Bishop, Black); (31, Queen, Black);
         (60, King, Black); (61, Bishop, Black); (62, Knight, Black); (63, Rook, Black)]).

Example VE_fools_mate_ok :
  invb rook_ref bishop_ref VE_fools_mate = true
  /\ top (seen_stack VE_fools_mate) <> REPETITION_DRAW_COUNT
  /\ top (hm_stack VE_fools_mate) < HALFMOVE_DRAW_THRESHOLD
  /\ game_ending example_table rook_ref bishop_ref VE_fools_mate (turn VE_fools_mate)
     = Ok (Some Checkmate, VE_fools_mate)
  /\ verdict (abstract VE_fools_mate) (turn VE_fools_mate) = Some Checkmate.
Proof. vm_compute. repeat split; try reflexivity; discriminate. Qed.

(* stalemate: white Kh1 (to move), black Kf2, Qg3 *)
Definition VE_stalemate : board :=
  set_cr (PP_put_all board_new [(7, King, White); (13, King, Black); (22, Queen, Black)]) [0].

Example VE_stalemate_ok :
  invb rook_ref bishop_ref VE_stalemate = true
  /\ game_ending example_table rook_ref bishop_ref VE_stalemate (turn VE_stalemate)
     = Ok (Some Stalemate, VE_stalemate)
  /\ verdict (abstract VE_stalemate) (turn VE_stalemate) = Some Stalemate.
Proof. vm_compute. repeat split; reflexivity. Qed.

(* annotations: in kiwipete every one of the 48 annotated moves carries the rules' effect, and
   checks occur (Qxf7+? no: Qf3xf6 is not check; Bxa6 is quiet; Ne5xf7 is not check; Qf3-f7?
   not legal) — we just compare the whole list with the rules *)
Definition VE_effects_agree (b : board) : bool :=
  match gen_annotated example_table rook_ref bishop_ref b (turn b) with
  | Ok (l, _) =>
      forallb (fun me => match snd me, move_effect (abstract b) (turn b) (fst me) with
                         | ENone, ENone | ECheck, ECheck | ECheckmate, ECheckmate => true
                         | _, _ => false end) l
  | _ => false
  end.

(* before Qh4#: Black to move in the fool's-mate line; Qd8-h4 is annotated checkmate *)
Definition VE_before_mate : board :=
  set_turn
    (PP_put_all board_new
      (PP_back 0 White
       ++ [(8, Pawn, White); (9, Pawn, White); (10, Pawn, White); (11, Pawn, White); (12, Pawn, White);
           (21, Pawn, White); (30, Pawn, White); (15, Pawn, White)]
       ++ [(48, Pawn, Black); (49, Pawn, Black); (50, Pawn, Black); (51, Pawn, Black); (36, Pawn, Black);
           (53, Pawn, Black); (54, Pawn, Black); (55, Pawn, Black)]
       ++ PP_back 56 Black)) Black.

Example VE_before_mate_ok :
  invb rook_ref bishop_ref VE_before_mate = true
  /\ VE_effects_agree VE_before_mate = true
  /\ match gen_annotated example_table rook_ref bishop_ref VE_before_mate Black with
     | Ok (l, _) => existsb (fun me => cmove_eqb (fst me) (Std 59 31 None)
                                        && match snd me with ECheckmate => true | _ => false end) l
     | _ => false
     end = true.
Proof. vm_compute. repeat split; reflexivity. Qed.

Example VE_kiwipete_effects : VE_effects_agree PP_kiwipete = true.
Proof. vm_compute. reflexivity. Qed.

Print Assumptions in_check_turn_exact.
Print Assumptions game_ending_exact.
Print Assumptions effects_exact.
Print Assumptions effects_total.
Print Assumptions game_ending_total_exact.
