(* RulesNoDup.v — the move lists of the FIDE-rules spec (Rules.v) never contain a move twice.

   Main results, for EVERY position (no well-formedness hypothesis of any kind) and colour:
     pseudo_legal_NoDup     : NoDup (Rules.pseudo_legal p c)
     legal_moves_for_NoDup  : NoDup (Rules.legal_moves_for p c)
     legal_moves_NoDup      : NoDup (Rules.legal_moves p)

   Structure of the argument: the blocks of distinct origin squares are told apart by
   [mv_from]; inside one block the moves are told apart by their target square ([sq] is
   injective on on-board coordinates; distinct offsets / distinct ray directions / distinct
   distances along a ray give distinct coordinates), by the constructor (en passant, castling)
   or by the promotion piece.  Rules.v only; no axioms. *)
From Coq Require Import Lia ZArith NArith List Bool.
From ChessV Require Import Bits Types Rules GeomProofs BitsLemmas PseudoBase PerftSpec.
Import ListNotations.
Local Open Scope Z_scope.

#[local] Arguments N.add : simpl never.
#[local] Arguments N.mul : simpl never.
#[local] Arguments Z.add : simpl never.
#[local] Arguments Z.mul : simpl never.

(* ------------------------------------------------------------------ *)
(** * lists *)

Lemma ND_flat_map_disj {A B} (g : A -> list B) (l : list A) :
  NoDup l -> (forall x, In x l -> NoDup (g x)) ->
  (forall x y m, In x l -> In y l -> In m (g x) -> In m (g y) -> x = y) ->
  NoDup (flat_map g l).
Proof.
  induction l as [|a l IH]; intros ND NB DJ; cbn [flat_map]; [constructor|].
  inversion ND as [|? ? Hn ND']; subst.
  apply PB_NoDup_app.
  - apply NB. left; reflexivity.
  - apply IH; [exact ND'| |].
    + intros x Hx. apply NB. right; exact Hx.
    + intros x y m Hx Hy. apply DJ; right; assumption.
  - intros m Hm1 Hm2. apply in_flat_map in Hm2. destruct Hm2 as [y [Hy Hm2]].
    assert (E : a = y)
      by (apply (DJ a y m); [left; reflexivity | right; exact Hy | exact Hm1 | exact Hm2]).
    subst y. contradiction.
Qed.

Lemma in_if_single {A} (b : bool) (x m : A) : In m (if b then [x] else []) -> b = true /\ m = x.
Proof. destruct b; [intros [<-|[]]; split; reflexivity | intros []]. Qed.

Lemma in_if_list {A} (b : bool) (l : list A) m : In m (if b then l else []) -> b = true /\ In m l.
Proof. destruct b; [intro H; split; [reflexivity|exact H] | intros []]. Qed.

Lemma nodup_if_single {A} (b : bool) (x : A) : NoDup (if b then [x] else []).
Proof. destruct b; [constructor; [intros []|constructor] | constructor]. Qed.

Lemma nodup_if_list {A} (b : bool) (l : list A) : (b = true -> NoDup l) -> NoDup (if b then l else []).
Proof. destruct b; intro H; [apply H; reflexivity | constructor]. Qed.

Ltac nodup_dec :=
  repeat (constructor; [cbn [In]; intuition (try discriminate; try congruence)|]); constructor.

(* ------------------------------------------------------------------ *)
(** * move shapes *)

Definition is_castle (m : cmove) : bool := match m with Castle _ _ => true | _ => false end.
Definition is_ep (m : cmove) : bool := match m with EnPassant _ _ => true | _ => false end.

(* ------------------------------------------------------------------ *)
(** * geometry *)

Lemma sq_inj f r f' r' :
  on_board f r = true -> on_board f' r' = true -> sq f r = sq f' r' -> f = f' /\ r = r'.
Proof.
  intros B1 B2 E.
  destruct (sq_on_board f r B1) as (_ & Ef & Er).
  destruct (sq_on_board f' r' B2) as (_ & Ef' & Er').
  rewrite E in Ef, Er. split; congruence.
Qed.

Lemma NoDup_knight_offsets : NoDup knight_offsets.
Proof. unfold knight_offsets. nodup_dec. Qed.
Lemma NoDup_king_offsets : NoDup king_offsets.
Proof. unfold king_offsets. nodup_dec. Qed.
Lemma NoDup_ortho_dirs : NoDup ortho_dirs.
Proof. unfold ortho_dirs. nodup_dec. Qed.
Lemma NoDup_diag_dirs : NoDup diag_dirs.
Proof. unfold diag_dirs. nodup_dec. Qed.
Lemma NoDup_all_dirs : NoDup (ortho_dirs ++ diag_dirs).
Proof. unfold ortho_dirs, diag_dirs. cbn [app]. nodup_dec. Qed.

Lemma all_dirs_nonzero d : In d (ortho_dirs ++ diag_dirs) -> fst d <> 0 \/ snd d <> 0.
Proof.
  unfold ortho_dirs, diag_dirs. cbn [app In].
  intros [<-|[<-|[<-|[<-|[<-|[<-|[<-|[<-|[]]]]]]]]]; cbn [fst snd]; lia.
Qed.

(* ------------------------------------------------------------------ *)
(** * what one target cell contributes *)

Lemma cellb_in (ce : cell) (c : color) (from t : N) m :
  In m (match ce with
        | None => [Std from t None]
        | Some (pc, col) => if color_eqb col c then [] else [Std from t (Some pc)]
        end) -> exists cap, m = Std from t cap.
Proof.
  destruct ce as [[pc col]|].
  - destruct (color_eqb col c); [intros []|]. intros [<-|[]]. eexists. reflexivity.
  - intros [<-|[]]. eexists. reflexivity.
Qed.

Lemma cellb_to (ce : cell) (c : color) (from t : N) m :
  In m (match ce with
        | None => [Std from t None]
        | Some (pc, col) => if color_eqb col c then [] else [Std from t (Some pc)]
        end) -> mv_to m = t.
Proof. intro H. apply cellb_in in H. destruct H as [cap ->]. reflexivity. Qed.

Lemma cellb_nodup (ce : cell) (c : color) (from t : N) :
  NoDup (match ce with
         | None => [Std from t None]
         | Some (pc, col) => if color_eqb col c then [] else [Std from t (Some pc)]
         end).
Proof.
  destruct ce as [[pc col]|].
  - destruct (color_eqb col c); [constructor|]. constructor; [intros []|constructor].
  - constructor; [intros []|constructor].
Qed.

(* ------------------------------------------------------------------ *)
(** * knight and king *)

Lemma step_moves_shape p c from offs m :
  In m (step_moves p c from offs) -> exists t cap, m = Std from t cap.
Proof.
  unfold step_moves. cbv beta zeta. intro H. apply in_flat_map in H. destruct H as (o & _ & H).
  apply in_if_list in H. destruct H as [_ H]. apply cellb_in in H. destruct H as [cap ->].
  eexists. eexists. reflexivity.
Qed.

Lemma step_moves_NoDup p c from offs : NoDup offs -> NoDup (step_moves p c from offs).
Proof.
  intro ND. unfold step_moves. cbv beta zeta. apply ND_flat_map_disj; [exact ND| |]; cbv beta.
  - intros o _. apply nodup_if_list. intros _. apply cellb_nodup.
  - intros o o' m _ _ Hm Hm'.
    apply in_if_list in Hm. destruct Hm as [B Hm].
    apply in_if_list in Hm'. destruct Hm' as [B' Hm'].
    apply cellb_to in Hm. apply cellb_to in Hm'. rewrite Hm in Hm'.
    destruct (sq_inj _ _ _ _ B B' Hm') as [Ef Er].
    destruct o as [a b], o' as [a' b']. cbn [fst snd] in Ef, Er. f_equal; lia.
Qed.

(* ------------------------------------------------------------------ *)
(** * rays and sliders *)

Lemma ray_in p fuel : forall f r df dr x y,
  In (x, y) (ray p fuel f r df dr) ->
  exists k, 1 <= k <= Z.of_nat fuel /\ x = f + k * df /\ y = r + k * dr /\ on_board x y = true.
Proof.
  induction fuel as [|n IH]; intros f r df dr x y H; cbn [ray] in H; [destruct H|].
  destruct (on_board (f + df) (r + dr)) eqn:B; [|destruct H].
  destruct (atc p (f + df) (r + dr)) as [occ|].
  - destruct H as [E|[]]. injection E as Ex Ey. subst x y.
    exists 1. split; [lia|]. split; [lia|]. split; [lia|exact B].
  - destruct H as [E|H].
    + injection E as Ex Ey. subst x y.
      exists 1. split; [lia|]. split; [lia|]. split; [lia|exact B].
    + apply IH in H. destruct H as (k & Hk & Ex & Ey & Hb).
      exists (k + 1). split; [lia|]. split; [lia|]. split; [lia|exact Hb].
Qed.

Lemma ray_NoDup p fuel : forall f r df dr,
  (df <> 0 \/ dr <> 0) -> NoDup (ray p fuel f r df dr).
Proof.
  induction fuel as [|n IH]; intros f r df dr NZ; cbn [ray]; [constructor|].
  destruct (on_board (f + df) (r + dr)) eqn:B; [|constructor].
  destruct (atc p (f + df) (r + dr)) as [occ|].
  - constructor; [intros []|constructor].
  - constructor; [|apply IH; exact NZ].
    intro H. apply ray_in in H. destruct H as (k & Hk & Ex & Ey & _).
    assert (Kf : k * df = 0) by lia. assert (Kr : k * dr = 0) by lia.
    apply Z.mul_eq_0 in Kf. apply Z.mul_eq_0 in Kr. lia.
Qed.

Lemma ray_dir_disj p fuel fuel' f r d d' x y :
  In d (ortho_dirs ++ diag_dirs) -> In d' (ortho_dirs ++ diag_dirs) ->
  In (x, y) (ray p fuel f r (fst d) (snd d)) ->
  In (x, y) (ray p fuel' f r (fst d') (snd d')) -> d = d'.
Proof.
  intros Hd Hd' H H'.
  apply ray_in in H. destruct H as (k & Hk & Ex & Ey & _).
  apply ray_in in H'. destruct H' as (k' & Hk' & Ex' & Ey' & _).
  unfold ortho_dirs, diag_dirs in Hd, Hd'. cbn [app In] in Hd, Hd'.
  destruct Hd as [<-|[<-|[<-|[<-|[<-|[<-|[<-|[<-|[]]]]]]]]];
  destruct Hd' as [<-|[<-|[<-|[<-|[<-|[<-|[<-|[<-|[]]]]]]]]];
  cbn [fst snd] in Ex, Ey, Ex', Ey'; first [reflexivity | exfalso; lia].
Qed.

Lemma slide_moves_shape p c from dirs m :
  In m (slide_moves p c from dirs) -> exists t cap, m = Std from t cap.
Proof.
  unfold slide_moves. cbv beta zeta. intro H. apply in_flat_map in H. destruct H as (d & _ & H).
  apply in_flat_map in H. destruct H as (t & _ & H). apply cellb_in in H. destruct H as [cap ->].
  eexists. eexists. reflexivity.
Qed.

Lemma slide_moves_NoDup p c from dirs :
  NoDup dirs -> (forall d, In d dirs -> In d (ortho_dirs ++ diag_dirs)) ->
  NoDup (slide_moves p c from dirs).
Proof.
  intros ND SUB. unfold slide_moves. cbv beta zeta.
  apply ND_flat_map_disj; [exact ND| |]; cbv beta.
  - intros d Hd. apply ND_flat_map_disj.
    + apply ray_NoDup. apply all_dirs_nonzero, SUB, Hd.
    + intros t _. apply cellb_nodup.
    + intros [x y] [x' y'] m Ht Ht' Hm Hm'.
      apply cellb_to in Hm. apply cellb_to in Hm'. cbn [fst snd] in Hm, Hm'.
      apply ray_in in Ht. destruct Ht as (k & _ & _ & _ & B).
      apply ray_in in Ht'. destruct Ht' as (k' & _ & _ & _ & B').
      rewrite Hm in Hm'. destruct (sq_inj _ _ _ _ B B' Hm') as [-> ->]. reflexivity.
  - intros d d' m Hd Hd' Hm Hm'.
    apply in_flat_map in Hm. destruct Hm as ([x y] & Ht & Hm).
    apply in_flat_map in Hm'. destruct Hm' as ([x' y'] & Ht' & Hm').
    apply cellb_to in Hm. apply cellb_to in Hm'. cbn [fst snd] in Hm, Hm'.
    pose proof (ray_in _ _ _ _ _ _ _ _ Ht) as (k & _ & _ & _ & B).
    pose proof (ray_in _ _ _ _ _ _ _ _ Ht') as (k' & _ & _ & _ & B').
    rewrite Hm in Hm'. destruct (sq_inj _ _ _ _ B B' Hm') as [Ex Ey]. subst x' y'.
    exact (ray_dir_disj _ _ _ _ _ _ _ _ _ (SUB d Hd) (SUB d' Hd') Ht Ht').
Qed.

(* ------------------------------------------------------------------ *)
(** * pawns *)

Lemma pawn_arrivals_to c from tf tr cap m :
  In m (pawn_arrivals c from tf tr cap) ->
  mv_to m = sq tf tr /\ is_ep m = false /\ is_castle m = false.
Proof.
  unfold pawn_arrivals. destruct (tr =? last_rank c).
  - intro H. apply in_map_iff in H. destruct H as (pp & <- & _). repeat split.
  - intros [<-|[]]. repeat split.
Qed.

Lemma pawn_arrivals_NoDup c from tf tr cap : NoDup (pawn_arrivals c from tf tr cap).
Proof.
  unfold pawn_arrivals. destruct (tr =? last_rank c).
  - apply PB_NoDup_map_inj.
    + intros x y _ _ E. injection E as E'. exact E'.
    + unfold promotion_pieces. nodup_dec.
  - constructor; [intros []|constructor].
Qed.

Definition ppush (p : position) (c : color) (from : N) : list cmove :=
  let f := fileZ from in
  let r := rankZ from in
  let r1 := r + forward c in
  let r2 := r + 2 * forward c in
  if on_board f r1 && is_empty_cell (atc p f r1) then
    pawn_arrivals c from f r1 None
    ++ (if (r =? start_rank c) && is_empty_cell (atc p f r2) then [Std from (sq f r2) None] else [])
  else [].

Definition pcap (p : position) (c : color) (from : N) (df : Z) : list cmove :=
  let f := fileZ from in
  let r := rankZ from in
  let r1 := r + forward c in
  let tf := f + df in
  if on_board tf r1 then
    (if is_enemy (atc p tf r1) c then pawn_arrivals c from tf r1 (cap_of (atc p tf r1)) else [])
    ++ (match pep p with
        | Some t => if (t =? sq tf r1)%N && is_pc (atc p tf r) Pawn (opp_c c) && is_empty_cell (atc p tf r1)
                    then [EnPassant from t] else []
        | None => []
        end)
  else [].

Lemma pawn_moves_r_split p c from :
  pawn_moves_r p c from = ppush p c from ++ flat_map (pcap p c from) [1; -1].
Proof. reflexivity. Qed.

Lemma ppush_in p c from m :
  In m (ppush p c from) ->
  on_board (fileZ from) (rankZ from + forward c) = true /\ is_castle m = false /\ is_ep m = false /\
  (mv_to m = sq (fileZ from) (rankZ from + forward c)
   \/ (rankZ from = start_rank c /\ mv_to m = sq (fileZ from) (rankZ from + 2 * forward c))).
Proof.
  unfold ppush. cbv zeta. intro H. apply in_if_list in H. destruct H as [Hb H].
  apply andb_true_iff in Hb. destruct Hb as [B _]. split; [exact B|].
  apply in_app_or in H. destruct H as [H|H].
  - apply pawn_arrivals_to in H. destruct H as (Et & Eep & Ec).
    split; [exact Ec|]. split; [exact Eep|]. left. exact Et.
  - apply in_if_single in H. destruct H as [Hb ->].
    apply andb_true_iff in Hb. destruct Hb as [Hr _]. apply Z.eqb_eq in Hr.
    cbn [is_castle is_ep mv_to]. split; [reflexivity|]. split; [reflexivity|].
    right. split; [exact Hr|reflexivity].
Qed.

Lemma ppush_NoDup p c from : NoDup (ppush p c from).
Proof.
  unfold ppush. cbv zeta. apply nodup_if_list. intro Hb.
  apply andb_true_iff in Hb. destruct Hb as [B _]. apply on_board_bounds in B.
  apply PB_NoDup_app.
  - apply pawn_arrivals_NoDup.
  - apply nodup_if_single.
  - intros m H1 H2. apply pawn_arrivals_to in H1. destruct H1 as (Et & _ & _).
    apply in_if_single in H2. destruct H2 as [Hb ->].
    apply andb_true_iff in Hb. destruct Hb as [Hr _]. apply Z.eqb_eq in Hr.
    cbn [mv_to] in Et. unfold sq in Et.
    destruct c; unfold forward, start_rank in *; lia.
Qed.

Lemma pcap_in p c from df m :
  In m (pcap p c from df) ->
  on_board (fileZ from + df) (rankZ from + forward c) = true /\
  mv_to m = sq (fileZ from + df) (rankZ from + forward c) /\ is_castle m = false.
Proof.
  unfold pcap. cbv zeta. intro H. apply in_if_list in H. destruct H as [B H]. split; [exact B|].
  apply in_app_or in H. destruct H as [H|H].
  - apply in_if_list in H. destruct H as [_ H]. apply pawn_arrivals_to in H.
    destruct H as (Et & _ & Ec). split; [exact Et|exact Ec].
  - destruct (pep p) as [t|]; [|destruct H]. apply in_if_single in H. destruct H as [Hb ->].
    apply andb_true_iff in Hb. destruct Hb as [Hb _].
    apply andb_true_iff in Hb. destruct Hb as [Hb _]. apply N.eqb_eq in Hb.
    cbn [mv_to is_castle]. split; [exact Hb|reflexivity].
Qed.

Lemma pcap_NoDup p c from df : NoDup (pcap p c from df).
Proof.
  unfold pcap. cbv zeta. apply nodup_if_list. intros _. apply PB_NoDup_app.
  - apply nodup_if_list. intros _. apply pawn_arrivals_NoDup.
  - destruct (pep p) as [t|]; [apply nodup_if_single|constructor].
  - intros m H1 H2. apply in_if_list in H1. destruct H1 as [_ H1].
    apply pawn_arrivals_to in H1. destruct H1 as (_ & Hep & _).
    destruct (pep p) as [t|]; [|destruct H2]. apply in_if_single in H2. destruct H2 as [_ ->].
    cbn [is_ep] in Hep. discriminate Hep.
Qed.

Lemma pawn_moves_r_NoDup p c from : NoDup (pawn_moves_r p c from).
Proof.
  rewrite pawn_moves_r_split. apply PB_NoDup_app.
  - apply ppush_NoDup.
  - apply ND_flat_map_disj.
    + nodup_dec.
    + intros df _. apply pcap_NoDup.
    + intros df df' m _ _ H H'.
      apply pcap_in in H. destruct H as (B & Et & _).
      apply pcap_in in H'. destruct H' as (B' & Et' & _).
      rewrite Et in Et'. destruct (sq_inj _ _ _ _ B B' Et') as [Ef _]. lia.
  - intros m H1 H2. apply ppush_in in H1. destruct H1 as (B & _ & _ & Ht).
    apply in_flat_map in H2. destruct H2 as (df & Hdf & H2).
    apply pcap_in in H2. destruct H2 as (B' & Et' & _).
    assert (Hnz : df <> 0) by (cbn [In] in Hdf; lia).
    destruct Ht as [Et|[Hr Et]]; rewrite Et in Et'.
    + destruct (sq_inj _ _ _ _ B B' Et') as [Ef _]. lia.
    + apply on_board_bounds in B. apply on_board_bounds in B'. unfold sq in Et'.
      destruct c; unfold forward, start_rank in *; lia.
Qed.

Lemma pawn_moves_r_not_castle p c from m : In m (pawn_moves_r p c from) -> is_castle m = false.
Proof.
  rewrite pawn_moves_r_split. intro H. apply in_app_or in H. destruct H as [H|H].
  - apply ppush_in in H. tauto.
  - apply in_flat_map in H. destruct H as (df & _ & H). apply pcap_in in H. tauto.
Qed.

(* ------------------------------------------------------------------ *)
(** * castling *)

Lemma castle_moves_r_shape p c :
  exists b1 b2 r, (r = 0 \/ r = 7) /\
    castle_moves_r p c =
      (if b1 : bool then [Castle (sq 4 r) (sq 6 r)] else [])
      ++ (if b2 : bool then [Castle (sq 4 r) (sq 2 r)] else []).
Proof.
  unfold castle_moves_r. cbv zeta.
  eexists. eexists. exists (match c with White => 0 | Black => 7 end).
  split; [destruct c; first [left; reflexivity | right; reflexivity] | reflexivity].
Qed.

Lemma castle_moves_r_NoDup p c : NoDup (castle_moves_r p c).
Proof.
  destruct (castle_moves_r_shape p c) as (b1 & b2 & r & Hr & ->).
  apply PB_NoDup_app; [apply nodup_if_single | apply nodup_if_single |].
  intros m H1 H2. apply in_if_single in H1. destruct H1 as [_ ->].
  apply in_if_single in H2. destruct H2 as [_ E].
  apply (f_equal mv_to) in E. cbn [mv_to] in E.
  destruct Hr as [-> | ->]; vm_compute in E; discriminate E.
Qed.

Lemma castle_moves_r_is_castle p c m : In m (castle_moves_r p c) -> is_castle m = true.
Proof.
  destruct (castle_moves_r_shape p c) as (b1 & b2 & r & _ & ->).
  intro H. apply in_app_or in H.
  destruct H as [H|H]; apply in_if_single in H; destruct H as [_ ->]; reflexivity.
Qed.

(* ------------------------------------------------------------------ *)
(** * the whole list *)

Definition piece_block (p : position) (c : color) (i : N) : list cmove :=
  match at_ p i with
  | Some (pc, col) =>
      if color_eqb col c then
        match pc with
        | Pawn => pawn_moves_r p c i
        | Knight => step_moves p c i knight_offsets
        | Bishop => slide_moves p c i diag_dirs
        | Rook => slide_moves p c i ortho_dirs
        | Queen => slide_moves p c i (ortho_dirs ++ diag_dirs)
        | King => step_moves p c i king_offsets
        end
      else []
  | None => []
  end.

Lemma pseudo_legal_split p c :
  pseudo_legal p c = flat_map (piece_block p c) squares ++ castle_moves_r p c.
Proof. reflexivity. Qed.

Lemma piece_block_NoDup p c i : NoDup (piece_block p c i).
Proof.
  unfold piece_block. destruct (at_ p i) as [[pc col]|]; [|constructor].
  destruct (color_eqb col c); [|constructor].
  destruct pc.
  - apply pawn_moves_r_NoDup.
  - apply step_moves_NoDup, NoDup_knight_offsets.
  - apply slide_moves_NoDup; [apply NoDup_diag_dirs|].
    intros d Hd. apply in_or_app. right. exact Hd.
  - apply slide_moves_NoDup; [apply NoDup_ortho_dirs|].
    intros d Hd. apply in_or_app. left. exact Hd.
  - apply slide_moves_NoDup; [apply NoDup_all_dirs|]. intros d Hd. exact Hd.
  - apply step_moves_NoDup, NoDup_king_offsets.
Qed.

Lemma piece_block_from p c i m : In m (piece_block p c i) -> mv_from m = i.
Proof.
  unfold piece_block. destruct (at_ p i) as [[pc col]|]; [|intros []].
  destruct (color_eqb col c); [|intros []].
  destruct pc.
  - apply pawn_moves_r_from.
  - apply step_moves_from.
  - apply slide_moves_from.
  - apply slide_moves_from.
  - apply slide_moves_from.
  - apply step_moves_from.
Qed.

Lemma piece_block_not_castle p c i m : In m (piece_block p c i) -> is_castle m = false.
Proof.
  unfold piece_block. destruct (at_ p i) as [[pc col]|]; [|intros []].
  destruct (color_eqb col c); [|intros []].
  destruct pc; intro H.
  - apply pawn_moves_r_not_castle in H. exact H.
  - apply step_moves_shape in H. destruct H as (t & cap & ->). reflexivity.
  - apply slide_moves_shape in H. destruct H as (t & cap & ->). reflexivity.
  - apply slide_moves_shape in H. destruct H as (t & cap & ->). reflexivity.
  - apply slide_moves_shape in H. destruct H as (t & cap & ->). reflexivity.
  - apply step_moves_shape in H. destruct H as (t & cap & ->). reflexivity.
Qed.

Theorem pseudo_legal_NoDup (p : Rules.position) (c : color) : NoDup (Rules.pseudo_legal p c).
Proof.
  rewrite pseudo_legal_split. apply PB_NoDup_app.
  - apply (PB_NoDup_flat_map_key _ (fun i : N => i) mv_from).
    + rewrite map_id. apply NoDup_squares.
    + intros i _. apply piece_block_NoDup.
    + intros i m _ Hm. apply piece_block_from in Hm. exact Hm.
  - apply castle_moves_r_NoDup.
  - intros m H1 H2. apply in_flat_map in H1. destruct H1 as (i & _ & H1).
    apply piece_block_not_castle in H1. apply castle_moves_r_is_castle in H2.
    rewrite H1 in H2. discriminate H2.
Qed.

Corollary legal_moves_for_NoDup (p : Rules.position) (c : color) : NoDup (Rules.legal_moves_for p c).
Proof. unfold legal_moves_for. apply NoDup_filter. apply pseudo_legal_NoDup. Qed.

Corollary legal_moves_NoDup (p : Rules.position) : NoDup (Rules.legal_moves p).
Proof. unfold legal_moves. apply legal_moves_for_NoDup. Qed.

(* the lists are not trivially empty: the 20 opening moves *)
Example legal_moves_initial_length :
  length (Rules.legal_moves Rules.initial_position) = 20%nat.
Proof. vm_compute. reflexivity. Qed.

Print Assumptions pseudo_legal_NoDup.
Print Assumptions legal_moves_NoDup.
