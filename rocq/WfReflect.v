(* WfReflect.v — the executable invariant checks of Abs.v imply the Prop invariants of
   BoardLemmas.v. *)
From Coq Require Import Lia.
From ChessV Require Import Abs.
From ChessV Require Export BoardLemmas.

Lemma nonempty_spec {A} (l : list A) : nonempty l = true <-> l <> [].
Proof. destruct l; cbn; split; intro H; try reflexivity; try discriminate; congruence. Qed.

Lemma pset_ok_WFs s : pset_ok s = true -> WFs s.
Proof.
  unfold pset_ok. cbn [map all_piece_kinds pairwise_disjoint forallb fold_left].
  rewrite !andb_true_iff, !N.eqb_eq, N.leb_le.
  intros [[D O] F].
  repeat match goal with H : _ /\ _ |- _ => destruct H end.
  repeat match goal with H : N.land _ _ = 0 |- _ => rewrite land_0_disjoint in H end.
  split; [|split].
  - intros i p q Hp Hq.
    repeat match goal with H : forall i : N, _ |- _ => specialize (H i) end.
    destruct p, q; try reflexivity; exfalso; cbn [locate] in *;
      repeat match goal with
             | H : _ && _ = false |- _ =>
                 rewrite ?Hp, ?Hq in H; cbn [andb] in H; try discriminate H; clear H
             end.
  - intro i. rewrite <- O, occ_existsb_unfold, !mem_lor, mem_0. cbn [locate] in *.
    destruct (mem i (pw s)), (mem i (kn s)), (mem i (bi s)), (mem i (rk s)), (mem i (qn s)), (mem i (kg s));
      reflexivity.
  - apply fits64_le. exact F.
Qed.

Lemma wf_b_WF b : wf_b b = true ->
  WF b /\ ep_stack b <> [] /\ cr_stack b <> [] /\ hm_stack b <> [] /\ seen_stack b <> [].
Proof.
  unfold wf_b. rewrite !andb_true_iff, !nonempty_spec, N.eqb_eq.
  intros [[[[[[Hw Hb] X] H1] H2] H3] H4].
  split; [|tauto]. split; [apply pset_ok_WFs, Hw|]. split; [apply pset_ok_WFs, Hb|].
  apply land_0_disjoint. exact X.
Qed.

Lemma repr_ok_WF b : repr_ok b = true ->
  WF b /\ ep_stack b <> [] /\ cr_stack b <> [] /\ hm_stack b <> [] /\ seen_stack b <> [].
Proof.
  unfold repr_ok. rewrite !andb_true_iff. intro H. apply wf_b_WF. tauto.
Qed.

(* the converse: the Prop invariants are exactly what the executable check decides *)
Lemma WFs_land_0 s p q : WFs s -> p <> q -> N.land (locate s p) (locate s q) = 0.
Proof.
  intros (D & _) Hne. apply land_0_disjoint. intro i.
  destruct (mem i (locate s p)) eqn:Ep; [|reflexivity].
  destruct (mem i (locate s q)) eqn:Eq; [|reflexivity].
  exfalso. apply Hne. apply (D i p q Ep Eq).
Qed.

Lemma WFs_pset_ok s : WFs s -> pset_ok s = true.
Proof.
  intro W. pose proof W as (D & O & F).
  unfold pset_ok. cbn [map all_piece_kinds pairwise_disjoint forallb fold_left].
  rewrite !(WFs_land_0 s) by (exact W || discriminate).
  rewrite !N.eqb_refl. cbn [andb]. rewrite andb_true_iff, N.eqb_eq, N.leb_le. split.
  - apply bb_ext. intro i. rewrite O, occ_existsb_unfold, !mem_lor, mem_0.
    destruct (mem i (locate s Pawn)), (mem i (locate s Knight)), (mem i (locate s Bishop)),
      (mem i (locate s Rook)), (mem i (locate s Queen)), (mem i (locate s King)); reflexivity.
  - apply fits64_le. exact F.
Qed.

Lemma WF_wf_b b : WF b -> ep_stack b <> [] -> cr_stack b <> [] -> hm_stack b <> [] -> seen_stack b <> [] ->
  wf_b b = true.
Proof.
  intros (Ww & Wb & X) H1 H2 H3 H4. unfold wf_b.
  rewrite (WFs_pset_ok _ Ww), (WFs_pset_ok _ Wb).
  rewrite (proj2 (nonempty_spec _) H1), (proj2 (nonempty_spec _) H2),
          (proj2 (nonempty_spec _) H3), (proj2 (nonempty_spec _) H4).
  rewrite (proj2 (land_0_disjoint _ _) X). reflexivity.
Qed.

Lemma wf_b_iff b : wf_b b = true <->
  (WF b /\ ep_stack b <> [] /\ cr_stack b <> [] /\ hm_stack b <> [] /\ seen_stack b <> []).
Proof.
  split; [apply wf_b_WF|]. intros (W & H1 & H2 & H3 & H4). apply WF_wf_b; assumption.
Qed.

Example wf_b_new : wf_b board_new = true.
Proof. vm_compute. reflexivity. Qed.

Print Assumptions wf_b_iff.
