(* SuccProofs.v — C03: after a legal move is made the observable position (piece on every
   square, castling rights, en-passant target, clocks) is exactly the rules' successor,
   the side to move is untouched, and the application cannot fail.
   Proofs only.  Part 1 (SuccProofs1.v) describes what the model's apply_* do. *)
From Coq Require Import Lia ZArith NArith List Bool.
From ChessV Require Import Bits Types Board Moves Rules Abs.
From ChessV Require Import BitsLemmas BoardLemmas WfReflect CountFrame CounterProofs GeomProofs UciProofs SuccProofs1.

#[local] Arguments N.add : simpl never.
#[local] Arguments N.sub : simpl never.
#[local] Arguments N.mul : simpl never.
#[local] Arguments N.eqb : simpl never.
#[local] Arguments N.ltb : simpl never.
#[local] Arguments N.leb : simpl never.
#[local] Arguments N.shiftl : simpl never.
#[local] Arguments N.shiftr : simpl never.
#[local] Arguments N.land : simpl never.
#[local] Arguments N.lor : simpl never.
#[local] Arguments N.lxor : simpl never.
#[local] Arguments N.ldiff : simpl never.
#[local] Arguments N.testbit : simpl never.

(* ------------------------------------------------------------------ *)
(** * lists of 64 cells as functions *)

Lemma length_set_nth {A} (l : list A) n v : length (set_nth l n v) = length l.
Proof.
  revert n. induction l as [|h r IH]; intros [|n]; cbn [set_nth length]; try reflexivity.
  rewrite IH. reflexivity.
Qed.

Lemma nth_set_nth {A} (l : list A) n v k d : (n < length l)%nat ->
  nth k (set_nth l n v) d = if Nat.eqb k n then v else nth k l d.
Proof.
  revert n k. induction l as [|h r IH]; intros n k L; cbn [length] in L; [lia|].
  destruct n as [|n], k as [|k]; cbn [set_nth nth Nat.eqb]; try reflexivity.
  apply IH. lia.
Qed.

(* cs is a 64-cell list whose i-th cell is g i *)
Definition cells_are (cs : list cell) (g : N -> cell) : Prop :=
  length cs = 64%nat /\ forall j, j < 64 -> nth (N.to_nat j) cs None = g j.

Lemma cells_are_abstract b : cells_are (map (bget b) squares) (bget b).
Proof.
  split; [apply length_map_squares|]. intros j Lj. apply nth_map_squares, Lj.
Qed.

Lemma cells_are_set cs g i v : cells_are cs g -> i < 64 ->
  cells_are (set_cell cs i v) (fun j => if j =? i then v else g j).
Proof.
  intros [L G] Li. unfold set_cell. split; [rewrite length_set_nth; exact L|].
  intros j Lj. rewrite nth_set_nth by lia. rewrite (G j Lj).
  destruct (N.eqb_spec j i) as [->|Hne].
  - rewrite Nat.eqb_refl. reflexivity.
  - replace (Nat.eqb (N.to_nat j) (N.to_nat i)) with false; [reflexivity|].
    symmetry. apply Nat.eqb_neq. lia.
Qed.

Lemma cells_are_ext cs g g' : cells_are cs g -> (forall j, j < 64 -> g j = g' j) -> cells_are cs g'.
Proof. intros [L G] X. split; [exact L|]. intros j Lj. rewrite (G j Lj). apply X, Lj. Qed.

Lemma cells_are_eq cs cs' g : cells_are cs g -> cells_are cs' g -> cs = cs'.
Proof.
  intros [L G] [L' G']. apply (nth_ext cs cs' None None); [congruence|].
  intros n Ln. rewrite L in Ln.
  specialize (G (N.of_nat n)). specialize (G' (N.of_nat n)). rewrite Nat2N.id in G, G'.
  rewrite G, G' by lia. reflexivity.
Qed.

Lemma position_ext (p q : position) :
  cells p = cells q -> pturn p = pturn q -> prights p = prights q -> pep p = pep q ->
  phalf p = phalf q -> pfull p = pfull q -> p = q.
Proof. destruct p, q; cbn. intros; subst; reflexivity. Qed.

(* ------------------------------------------------------------------ *)
(** * castling rights: losing by piece (model) and by square (rules) *)

(* is `cell` the king or rook whose home square is i? *)
Definition is_home (i : N) (cl : cell) : bool :=
  match cl with
  | Some (Rook, White) => (i =? 0) || (i =? 7)
  | Some (Rook, Black) => (i =? 56) || (i =? 63)
  | Some (King, White) => i =? 4
  | Some (King, Black) => i =? 60
  | _ => false
  end.

Ltac split_sq i :=
  destruct (N.eqb_spec i 0) as [->|?]; [|
  destruct (N.eqb_spec i 7) as [->|?]; [|
  destruct (N.eqb_spec i 56) as [->|?]; [|
  destruct (N.eqb_spec i 63) as [->|?]; [|
  destruct (N.eqb_spec i 4) as [->|?]; [|
  destruct (N.eqb_spec i 60) as [->|?]]]]]].

Lemma lost_if_moved_home p c i :
  lost_if_moved p c i = if is_home i (Some (p, c)) then rights_lost_by_square i else 0.
Proof.
  unfold lost_if_moved, is_home, rights_lost_by_square, A1, H1, A8, H8, E1, E8.
  split_sq i; destruct p, c; try reflexivity;
    repeat match goal with Hn : ?x <> ?y |- _ => apply N.eqb_neq in Hn; rewrite Hn; clear Hn end;
    reflexivity.
Qed.

Lemma lost_if_taken_home cl i : (forall c, cl <> Some (King, c)) ->
  lost_if_taken cl i = if is_home i cl then rights_lost_by_square i else 0.
Proof.
  intro Nk. destruct cl as [[p c]|]; [|reflexivity].
  destruct p; try (destruct c; reflexivity).
  - (* Rook *) rewrite <- lost_if_moved_home. destruct c; reflexivity.
  - exfalso. apply (Nk c). reflexivity.
Qed.

(* a held right implies its king and rook are on their home squares *)
Definition rights_home (b : board) : Prop :=
  right_ok b WK 4 7 White = true /\ right_ok b WQ 4 0 White = true /\
  right_ok b BK 60 63 Black = true /\ right_ok b BQ 60 56 Black = true.

Definition rights_homeb (b : board) : bool :=
  right_ok b WK 4 7 White && right_ok b WQ 4 0 White && right_ok b BK 60 63 Black && right_ok b BQ 60 56 Black.

Lemma rights_homeb_spec b : rights_homeb b = true <-> rights_home b.
Proof. unfold rights_homeb, rights_home. rewrite !andb_true_iff. tauto. Qed.

Lemma repr_ok_rights_home b : repr_ok b = true -> rights_home b.
Proof. unfold repr_ok, rights_home. rewrite !andb_true_iff. tauto. Qed.

Lemma right_ok_inv b m k r c : right_ok b m k r c = true ->
  N.land (top (cr_stack b)) m = 0 \/ (bget b k = Some (King, c) /\ bget b r = Some (Rook, c)).
Proof.
  unfold right_ok. rewrite orb_true_iff, andb_true_iff, N.eqb_eq, !opt_pc_eqb_eq. tauto.
Qed.

Lemma land_lor_0 a x y : N.land a x = 0 -> N.land a y = 0 -> N.land a (N.lor x y) = 0.
Proof. intros X Y. rewrite N.land_lor_distr_r, X, Y. reflexivity. Qed.

(* a home square that does not hold its home piece carries no held right *)
Lemma not_home_no_right b i : rights_home b -> is_home i (bget b i) = false ->
  N.land (top (cr_stack b)) (rights_lost_by_square i) = 0.
Proof.
  intros (Rwk & Rwq & Rbk & Rbq) Hh.
  apply right_ok_inv in Rwk, Rwq, Rbk, Rbq.
  unfold rights_lost_by_square.
  split_sq i; try reflexivity;
    repeat match goal with Hn : ?x <> ?y |- _ => apply N.eqb_neq in Hn; rewrite ?Hn; clear Hn end;
    cbn [N.eqb];
    try apply N.land_0_r.
  - destruct Rwq as [Z|[_ G]]; [exact Z|]. rewrite G in Hh. discriminate Hh.
  - destruct Rwk as [Z|[_ G]]; [exact Z|]. rewrite G in Hh. discriminate Hh.
  - destruct Rbq as [Z|[_ G]]; [exact Z|]. rewrite G in Hh. discriminate Hh.
  - destruct Rbk as [Z|[_ G]]; [exact Z|]. rewrite G in Hh. discriminate Hh.
  - apply land_lor_0.
    + destruct Rwk as [Z|[G _]]; [exact Z|]. rewrite G in Hh. discriminate Hh.
    + destruct Rwq as [Z|[G _]]; [exact Z|]. rewrite G in Hh. discriminate Hh.
  - apply land_lor_0.
    + destruct Rbk as [Z|[G _]]; [exact Z|]. rewrite G in Hh. discriminate Hh.
    + destruct Rbq as [Z|[G _]]; [exact Z|]. rewrite G in Hh. discriminate Hh.
Qed.

Lemma moved_agrees b i p c : rights_home b -> bget b i = Some (p, c) ->
  N.land (top (cr_stack b)) (lost_if_moved p c i) = N.land (top (cr_stack b)) (rights_lost_by_square i).
Proof.
  intros R G. rewrite lost_if_moved_home. destruct (is_home i (Some (p, c))) eqn:Hh; [reflexivity|].
  rewrite <- G in Hh. rewrite (not_home_no_right b i R Hh). apply N.land_0_r.
Qed.

Lemma taken_agrees b i : rights_home b -> (forall c, bget b i <> Some (King, c)) ->
  N.land (top (cr_stack b)) (lost_if_taken (bget b i) i) = N.land (top (cr_stack b)) (rights_lost_by_square i).
Proof.
  intros R Nk. rewrite (lost_if_taken_home _ _ Nk). destruct (is_home i (bget b i)) eqn:Hh; [reflexivity|].
  rewrite (not_home_no_right b i R Hh). apply N.land_0_r.
Qed.

Lemma new_rights_ldiff old l : new_rights old l = N.ldiff old l.
Proof.
  unfold new_rights. apply N.bits_inj. intro n.
  rewrite N.lxor_spec, N.land_spec, N.ldiff_spec.
  destruct (N.testbit old n), (N.testbit l n); reflexivity.
Qed.

Lemma ldiff_by_land old l l' : N.land old l = N.land old l' -> N.ldiff old l = N.ldiff old l'.
Proof.
  intro E. apply N.bits_inj. intro n. rewrite !N.ldiff_spec.
  assert (X : N.testbit (N.land old l) n = N.testbit (N.land old l') n) by (rewrite E; reflexivity).
  rewrite !N.land_spec in X.
  destruct (N.testbit old n), (N.testbit l n), (N.testbit l' n); cbn in *; congruence.
Qed.

Lemma new_rights_agree old lm lt rf rt :
  N.land old lm = N.land old rf -> N.land old lt = N.land old rt ->
  new_rights old (N.lor lm lt) = N.ldiff old (N.lor rf rt).
Proof.
  intros X Y. rewrite new_rights_ldiff. apply ldiff_by_land.
  rewrite !N.land_lor_distr_r, X, Y. reflexivity.
Qed.

(* ------------------------------------------------------------------ *)
(** * the en-passant target *)

Definition ep_view (t : N) : option N := if is_empty t then None else Some (tz t).

Lemma abs_ep_view b : abs_ep b = ep_view (top (ep_stack b)).
Proof. reflexivity. Qed.

(* a pawn that changes rank by two does so forwards from its start rank *)
Definition pawn_step_ok (c : color) (f t : N) : bool :=
  negb (Z.abs (rankZ t - rankZ f) =? 2)%Z
  || ((rankZ f =? start_rank c)%Z && (rankZ t =? rankZ f + 2 * forward c)%Z).

Definition rules_ep (is_pawn : bool) (f t : N) : option N :=
  if is_pawn && (Z.abs (rankZ t - rankZ f) =? 2)%Z
  then Some (sq (fileZ f) ((rankZ f + rankZ t) / 2)) else None.

Definition optN_eqb (a b : option N) : bool :=
  match a, b with Some x, Some y => x =? y | None, None => true | _, _ => false end.
Lemma optN_eqb_eq a b : optN_eqb a b = true -> a = b.
Proof.
  destruct a, b; cbn; intro H; try discriminate H; try reflexivity. apply N.eqb_eq in H. congruence.
Qed.

Lemma ep_pawn_agree c f t : f < 64 -> t < 64 -> pawn_step_ok c f t = true ->
  ep_view (ep_target_of Pawn c f t) = rules_ep true f t.
Proof.
  intros Lf Lt Hs. apply optN_eqb_eq.
  pose proof (GeomAux_sweep_c64x64 (fun c f t =>
     implb (pawn_step_ok c f t) (optN_eqb (ep_view (ep_target_of Pawn c f t)) (rules_ep true f t)))) as S.
  cbv beta in S. specialize (S ltac:(vm_compute; reflexivity) c f t Lf Lt).
  rewrite Hs in S. exact S.
Qed.

Lemma ep_nonpawn_agree p c f t : p <> Pawn -> ep_view (ep_target_of p c f t) = None.
Proof. intro Np. rewrite (ep_target_of_nonpawn p c f t Np). reflexivity. Qed.

(* ------------------------------------------------------------------ *)
(** * Rules.successor, field by field *)

Definition mover_color (p : position) (from : N) : color :=
  match at_ p from with Some (_, col) => col | None => pturn p end.
Definition mover_is_pawn (p : position) (from : N) : bool :=
  match at_ p from with Some (Pawn, _) => true | _ => false end.

(* the cell on square j after m, as the rules define it *)
Definition succ_cell (p : position) (m : cmove) (j : N) : cell :=
  let from := mv_from m in
  let to := mv_to m in
  let mover := at_ p from in
  let c := mover_color p from in
  match m with
  | Std _ _ _ => if j =? to then mover else if j =? from then None else at_ p j
  | Promo _ _ _ pp => if j =? to then Some (pp, c) else if j =? from then None else at_ p j
  | EnPassant _ _ =>
      if j =? sq (fileZ to) (rankZ from) then None
      else if j =? to then mover else if j =? from then None else at_ p j
  | Castle _ _ =>
      let r := rankZ from in
      if (fileZ to =? 6)%Z then
        if j =? sq 5 r then Some (Rook, c) else if j =? sq 7 r then None
        else if j =? to then mover else if j =? from then None else at_ p j
      else
        if j =? sq 3 r then Some (Rook, c) else if j =? sq 0 r then None
        else if j =? to then mover else if j =? from then None else at_ p j
  end.

Lemma cells_are_at p : length (cells p) = 64%nat -> cells_are (cells p) (at_ p).
Proof. intro L. split; [exact L|]. intros j _. reflexivity. Qed.

Lemma sq_rank_lt k i : (0 <= k < 8)%Z -> i < 64 -> sq k (rankZ i) < 64.
Proof.
  intros Hk Li. apply sq_on_board. apply on_board_bounds.
  pose proof (file_rank_bounds i Li) as B. apply on_board_bounds in B. lia.
Qed.

Lemma sq_file_rank_lt i k : i < 64 -> k < 64 -> sq (fileZ i) (rankZ k) < 64.
Proof.
  intros Li Lk. apply sq_on_board. apply on_board_bounds.
  pose proof (file_rank_bounds i Li) as B. apply on_board_bounds in B.
  pose proof (file_rank_bounds k Lk) as B'. apply on_board_bounds in B'. lia.
Qed.

(* the rules' successor cells, read as a function on squares *)
Theorem successor_cells p m :
  length (cells p) = 64%nat -> mv_from m < 64 -> mv_to m < 64 ->
  cells_are (cells (successor p m)) (succ_cell p m).
Proof.
  intros L Lf Lt. pose proof (cells_are_at p L) as C0.
  destruct m as [f t cap|f t cap pp|f t|f t]; cbn [mv_from mv_to] in Lf, Lt.
  - change (cells (successor p (Std f t cap))) with (set_cell (set_cell (cells p) f None) t (at_ p f)).
    eapply cells_are_ext; [apply cells_are_set; [apply cells_are_set; [exact C0|exact Lf]|exact Lt]|].
    intros j _. reflexivity.
  - change (cells (successor p (Promo f t cap pp)))
      with (set_cell (set_cell (cells p) f None) t (Some (pp, mover_color p f))).
    eapply cells_are_ext; [apply cells_are_set; [apply cells_are_set; [exact C0|exact Lf]|exact Lt]|].
    intros j _. reflexivity.
  - change (cells (successor p (EnPassant f t)))
      with (set_cell (set_cell (set_cell (cells p) f None) t (at_ p f)) (sq (fileZ t) (rankZ f)) None).
    eapply cells_are_ext;
      [apply cells_are_set; [apply cells_are_set; [apply cells_are_set; [exact C0|exact Lf]|exact Lt]|]|].
    + apply sq_file_rank_lt; assumption.
    + intros j _. reflexivity.
  - unfold succ_cell. cbn [mv_from mv_to]. cbv zeta.
    change (cells (successor p (Castle f t)))
      with (if (fileZ t =? 6)%Z
            then set_cell (set_cell (set_cell (set_cell (cells p) f None) t (at_ p f)) (sq 7 (rankZ f)) None)
                          (sq 5 (rankZ f)) (Some (Rook, mover_color p f))
            else set_cell (set_cell (set_cell (set_cell (cells p) f None) t (at_ p f)) (sq 0 (rankZ f)) None)
                          (sq 3 (rankZ f)) (Some (Rook, mover_color p f))).
    destruct (fileZ t =? 6)%Z.
    + eapply cells_are_ext;
        [apply cells_are_set; [apply cells_are_set;
           [apply cells_are_set; [apply cells_are_set; [exact C0|exact Lf]|exact Lt]|]|]|].
      * apply sq_rank_lt; [lia|exact Lf].
      * apply sq_rank_lt; [lia|exact Lf].
      * intros j _. reflexivity.
    + eapply cells_are_ext;
        [apply cells_are_set; [apply cells_are_set;
           [apply cells_are_set; [apply cells_are_set; [exact C0|exact Lf]|exact Lt]|]|]|].
      * apply sq_rank_lt; [lia|exact Lf].
      * apply sq_rank_lt; [lia|exact Lf].
      * intros j _. reflexivity.
Qed.

Lemma succ_pturn p m : pturn (successor p m) = pturn p.
Proof. reflexivity. Qed.
Lemma succ_prights p m : prights (successor p m) =
  N.ldiff (prights p) (N.lor (rights_lost_by_square (mv_from m)) (rights_lost_by_square (mv_to m))).
Proof. reflexivity. Qed.
Lemma succ_pep p m : pep (successor p m) = rules_ep (mover_is_pawn p (mv_from m)) (mv_from m) (mv_to m).
Proof. reflexivity. Qed.

(* ------------------------------------------------------------------ *)
(** * the precondition: the shape of a generated move *)

Definition shape_ok (b : board) (m : cmove) : Prop :=
  mv_from m < 64 /\ mv_to m < 64 /\
  exists p c, bget b (mv_from m) = Some (p, c) /\
    match m with
    | Std f t cap =>
        bget b t = option_map (fun cp => (cp, opp_c c)) cap /\ cap <> Some King
        /\ (p = Pawn -> pawn_step_ok c f t = true)
    | Promo f t cap pp =>
        p = Pawn /\ bget b t = option_map (fun cp => (cp, opp_c c)) cap /\ cap <> Some King
        /\ pawn_step_ok c f t = true
    | EnPassant f t =>
        p = Pawn /\ rankZ t = (rankZ f + forward c)%Z /\ bget b t = None
        /\ bget b (ep_captured_square c t) <> None /\ fileZ t <> fileZ f
    | Castle f t =>
        p = King /\ (f = 4 \/ f = 60) /\
        exists rf rt, castle_shape f t = Ok (c, rf, rt) /\ bget b t = None
          /\ bget b rf = Some (Rook, c) /\ bget b rt = None
    end.

Definition move_ok (b : board) (m : cmove) : Prop := rights_home b /\ shape_ok b m.

Definition shape_okb (b : board) (m : cmove) : bool :=
  (mv_from m <? 64) && (mv_to m <? 64) &&
  match bget b (mv_from m) with
  | None => false
  | Some (p, c) =>
      match m with
      | Std f t cap =>
          opt_pc_eqb (bget b t) (option_map (fun cp => (cp, opp_c c)) cap)
          && negb (opt_piece_eqb cap (Some King))
          && (negb (piece_eqb p Pawn) || pawn_step_ok c f t)
      | Promo f t cap pp =>
          piece_eqb p Pawn
          && opt_pc_eqb (bget b t) (option_map (fun cp => (cp, opp_c c)) cap)
          && negb (opt_piece_eqb cap (Some King))
          && pawn_step_ok c f t
      | EnPassant f t =>
          piece_eqb p Pawn && (rankZ t =? rankZ f + forward c)%Z && is_none (bget b t)
          && negb (is_none (bget b (ep_captured_square c t))) && negb (fileZ t =? fileZ f)%Z
      | Castle f t =>
          piece_eqb p King && ((f =? 4) || (f =? 60))
          && match castle_shape f t with
             | Ok (c', rf, rt) =>
                 color_eqb c' c && is_none (bget b t)
                 && opt_pc_eqb (bget b rf) (Some (Rook, c)) && is_none (bget b rt)
             | _ => false
             end
      end
  end.

Definition move_okb (b : board) (m : cmove) : bool := rights_homeb b && shape_okb b m.

Lemma negb_opt_piece_eqb a b : negb (opt_piece_eqb a b) = true <-> a <> b.
Proof.
  rewrite negb_true_iff. split.
  - intros H E. apply opt_piece_eqb_eq in E. congruence.
  - intro H. destruct (opt_piece_eqb a b) eqn:E; [|reflexivity]. apply opt_piece_eqb_eq in E. contradiction.
Qed.

Lemma negb_is_none {A} (o : option A) : negb (is_none o) = true <-> o <> None.
Proof. destruct o; cbn; split; intro H; congruence. Qed.

Lemma pawn_imp p (x : bool) : negb (piece_eqb p Pawn) || x = true <-> (p = Pawn -> x = true).
Proof.
  destruct p; cbn; split; intro H; try reflexivity; try (intro; discriminate); try exact H; auto.
Qed.

Ltac conj_done := repeat match goal with |- _ /\ _ => split end; assumption.

Theorem shape_okb_spec b m : shape_okb b m = true <-> shape_ok b m.
Proof.
  unfold shape_okb, shape_ok. rewrite !andb_true_iff, !N.ltb_lt. split.
  - intros [[Lf Lt] H]. split; [exact Lf|]. split; [exact Lt|].
    destruct (bget b (mv_from m)) as [[p c]|]; [|discriminate H].
    exists p, c. split; [reflexivity|].
    destruct m as [f t cap|f t cap pp|f t|f t].
    + rewrite !andb_true_iff in H. destruct H as [[X1 X2] X3].
      apply opt_pc_eqb_eq in X1. apply negb_opt_piece_eqb in X2. pose proof (proj1 (pawn_imp _ _) X3) as X4. conj_done.
    + rewrite !andb_true_iff in H. destruct H as [[[X0 X1] X2] X3].
      apply BoardLemmas.piece_eqb_eq in X0.
      apply opt_pc_eqb_eq in X1. apply negb_opt_piece_eqb in X2. conj_done.
    + rewrite !andb_true_iff in H. destruct H as [[[[X0 X1] X2] X3] X4].
      apply BoardLemmas.piece_eqb_eq in X0. apply Z.eqb_eq in X1.
      apply is_none_true in X2. apply negb_is_none in X3.
      apply negb_true_iff, Z.eqb_neq in X4. conj_done.
    + rewrite !andb_true_iff in H. destruct H as [[X0 X1] X2].
      apply BoardLemmas.piece_eqb_eq in X0. rewrite orb_true_iff, !N.eqb_eq in X1.
      split; [exact X0|]. split; [exact X1|].
      destruct (castle_shape f t) as [[[c' rf] rt]| |]; try discriminate X2.
      rewrite !andb_true_iff in X2. destruct X2 as [[[Y0 Y1] Y2] Y3].
      apply BoardLemmas.color_eqb_eq in Y0. subst c'.
      apply is_none_true in Y1, Y3. apply opt_pc_eqb_eq in Y2.
      exists rf, rt. split; [reflexivity|conj_done].
  - intros (Lf & Lt & p & c & G & H). split; [split; assumption|]. rewrite G.
    destruct m as [f t cap|f t cap pp|f t|f t].
    + destruct H as (X1 & X2 & X3). rewrite !andb_true_iff.
      apply opt_pc_eqb_eq in X1. apply negb_opt_piece_eqb in X2. apply (proj2 (pawn_imp _ _)) in X3. conj_done.
    + destruct H as (X0 & X1 & X2 & X3). rewrite !andb_true_iff.
      apply BoardLemmas.piece_eqb_eq in X0.
      apply opt_pc_eqb_eq in X1. apply negb_opt_piece_eqb in X2. conj_done.
    + destruct H as (X0 & X1 & X2 & X3 & X4). rewrite !andb_true_iff.
      apply BoardLemmas.piece_eqb_eq in X0. apply Z.eqb_eq in X1.
      apply is_none_true in X2. apply negb_is_none in X3.
      apply Z.eqb_neq in X4. apply negb_true_iff in X4. conj_done.
    + destruct H as (X0 & X1 & rf & rt & Es & Y1 & Y2 & Y3). rewrite !andb_true_iff.
      apply BoardLemmas.piece_eqb_eq in X0. rewrite <- !N.eqb_eq, <- orb_true_iff in X1.
      split; [split; assumption|]. rewrite Es. rewrite !andb_true_iff.
      apply is_none_true in Y1, Y3. apply opt_pc_eqb_eq in Y2.
      split; [split; [split|]|]; try assumption. apply BoardLemmas.color_eqb_refl.
Qed.

Theorem move_okb_spec b m : move_okb b m = true <-> move_ok b m.
Proof.
  unfold move_okb, move_ok. rewrite andb_true_iff, rights_homeb_spec, shape_okb_spec. tauto.
Qed.

(* a move of the right shape changes square *)
Lemma shape_ok_from_neq_to b m : shape_ok b m -> mv_from m <> mv_to m.
Proof.
  intros (Lf & Lt & p & c & G & H) E.
  destruct m as [f t cap|f t cap pp|f t|f t]; cbn [mv_from mv_to] in *; subst t.
  - destruct H as (X & _). rewrite G in X. destruct cap; [|discriminate X].
    cbn in X. inversion X as [[Y Z]]. destruct c; discriminate Z.
  - destruct H as (_ & X & _). rewrite G in X. destruct cap; [|discriminate X].
    cbn in X. inversion X as [[Y Z]]. destruct c; discriminate Z.
  - destruct H as (_ & _ & X & _). congruence.
  - destruct H as (_ & _ & rf & rt & _ & X & _). congruence.
Qed.

(* ------------------------------------------------------------------ *)
(** * the model's apply against the rules' successor *)

Lemma rules_ep_false f t : rules_ep false f t = None.
Proof. reflexivity. Qed.

Lemma rules_ep_single c f t : rankZ t = (rankZ f + forward c)%Z -> rules_ep true f t = None.
Proof.
  intro E. unfold rules_ep. cbn [andb].
  replace (Z.abs (rankZ t - rankZ f) =? 2)%Z with false; [reflexivity|].
  symmetry. apply Z.eqb_neq. destruct c; cbn [forward] in E; lia.
Qed.

Lemma found_on_neq b f t : f <> t -> found_on b f t = bget b t.
Proof. intro N. unfold found_on. replace (t =? f) with false; [reflexivity|]. symmetry. apply N.eqb_neq. congruence. Qed.

Lemma not_king_cell (cl : cell) cap c0 :
  cl = option_map (fun cp => (cp, c0)) cap -> cap <> Some King -> forall c, cl <> Some (King, c).
Proof. intros E Nk c X. destruct cap as [cp|]; subst cl; cbn in X; [|discriminate X]. inversion X. congruence. Qed.

Lemma new_rights_none old rf rt :
  N.land old 0 = N.land old rf -> N.land old 0 = N.land old rt -> old = N.ldiff old (N.lor rf rt).
Proof.
  intros X Y. rewrite <- (new_rights_agree old 0 0 rf rt X Y).
  rewrite new_rights_ldiff. change (N.lor 0 0) with 0. symmetry. apply N.ldiff_0_r.
Qed.

Section WithTable.
Variable T : ztable.

(* everything observable about one kind of move, put together *)
Lemma assemble m b b' :
  mv_from m < 64 -> mv_to m < 64 -> apply_move T m b = Ok b' ->
  (forall j, j < 64 -> bget b' j = succ_cell (abstract b) m j) ->
  turn b' = turn b ->
  top (cr_stack b') = N.ldiff (top (cr_stack b))
                        (N.lor (rights_lost_by_square (mv_from m)) (rights_lost_by_square (mv_to m))) ->
  ep_view (top (ep_stack b')) = rules_ep (mover_is_pawn (abstract b) (mv_from m)) (mv_from m) (mv_to m) ->
  abstract b' = successor (abstract b) m.
Proof.
  intros Lf Lt H Hc Ht Hr He.
  destruct (apply_abs_clocks T m b b' H Lf) as [Ph Pf].
  apply position_ext; [|exact Ht|exact Hr|exact He|exact Ph|exact Pf].
  apply (cells_are_eq _ _ (succ_cell (abstract b) m)).
  - eapply cells_are_ext; [apply cells_are_abstract|exact Hc].
  - apply successor_cells; [apply length_map_squares|exact Lf|exact Lt].
Qed.

Ltac neq_to_eqb :=
  repeat match goal with
  | Hn : ?x <> ?y |- _ =>
      let E := fresh "Nb" in
      assert (E : (x =? y) = false) by (apply N.eqb_neq; exact Hn); clear Hn
  end.

Theorem apply_is_successor : forall m b b',
  WF b -> move_ok b m -> apply_move T m b = Ok b' ->
  abstract b' = successor (abstract b) m.
Proof.
  intros m b b' W [R S] H. pose proof (shape_ok_from_neq_to b m S) as Nft.
  destruct S as (Lf & Lt & p & c & G & S).
  apply (assemble m b b' Lf Lt H);
    destruct m as [f t cap|f t cap pp|f t|f t]; cbn [mv_from mv_to apply_move] in *;
    unfold succ_cell, mover_is_pawn, mover_color; cbn [mv_from mv_to]; cbv zeta;
    try rewrite (at_abstract b f Lf).
  (* ---- cells ---- *)
  - intros j Lj. rewrite (at_abstract b j Lj).
    destruct (apply_std_obs T _ _ _ _ _ W Lt H) as (p' & c' & G' & _ & _ & Gc & _).
    rewrite Gc, G'. reflexivity.
  - intros j Lj. rewrite (at_abstract b j Lj).
    destruct (apply_promo_obs T _ _ _ _ _ _ W Lt H) as (c' & G' & _ & _ & Gc & _).
    rewrite Gc, G'. reflexivity.
  - intros j Lj. rewrite (at_abstract b j Lj).
    destruct (apply_ep_obs T _ _ _ _ W Lt H) as (c' & G' & _ & _ & Gc & _).
    destruct S as (-> & Er & Gt & Gv).
    assert (c' = c) by congruence. subst c'.
    rewrite Gc, (ep_captured_square_rules c f t Lf Lt Er), G.
    destruct (N.eqb_spec j t) as [->|N1]; [|reflexivity].
    replace (t =? sq (fileZ t) (rankZ f)) with false; [reflexivity|].
    symmetry. apply N.eqb_neq. intro E.
    assert (X : rankZ (sq (fileZ t) (rankZ f)) = rankZ f).
    { apply sq_on_board. apply on_board_bounds.
      pose proof (file_rank_bounds f Lf) as B1. pose proof (file_rank_bounds t Lt) as B2.
      apply on_board_bounds in B1, B2. lia. }
    rewrite <- E in X. destruct c; cbn [forward] in Er; lia.
  - intros j Lj. rewrite (at_abstract b j Lj).
    destruct (apply_castle_obs T _ _ _ _ W Lt H) as (c' & rf & rt & Es & Gk & _ & _ & _ & _ & Gc & _).
    assert (c' = c) by congruence. subst c'. rewrite Gc, G.
    destruct S as (-> & Hf & _).
    rewrite (castle_shape_exact f t Lf Lt) in Es. unfold castle_shape_spec in Es.
    destruct Hf as [-> | ->].
    + destruct (N.eqb_spec t (4 + 2)) as [->|N1].
      * inversion Es; subst c rf rt. reflexivity.
      * destruct (N.eqb_spec 4 (t + 2)) as [E|N2]; [|discriminate Es].
        assert (t = 2) by lia. subst t. inversion Es; subst c rf rt. reflexivity.
    + destruct (N.eqb_spec t (60 + 2)) as [->|N1].
      * inversion Es; subst c rf rt. reflexivity.
      * destruct (N.eqb_spec 60 (t + 2)) as [E|N2]; [|discriminate Es].
        assert (t = 58) by lia. subst t. inversion Es; subst c rf rt. reflexivity.
  (* ---- side to move ---- *)
  - destruct (apply_std_obs T _ _ _ _ _ W Lt H) as (p' & c' & _ & _ & _ & _ & Tn & _). exact Tn.
  - destruct (apply_promo_obs T _ _ _ _ _ _ W Lt H) as (c' & _ & _ & _ & _ & Tn & _). exact Tn.
  - destruct (apply_ep_obs T _ _ _ _ W Lt H) as (c' & _ & _ & _ & _ & Tn & _). exact Tn.
  - destruct (apply_castle_obs T _ _ _ _ W Lt H) as (c' & rf & rt & _ & _ & _ & _ & _ & _ & _ & Tn & _). exact Tn.
  (* ---- castling rights ---- *)
  - destruct (apply_std_obs T _ _ _ _ _ W Lt H) as (p' & c' & G' & _ & _ & _ & _ & _ & Cr).
    assert (p' = p /\ c' = c) as [-> ->] by (split; congruence).
    rewrite Cr. cbn [top hd]. rewrite (found_on_neq b f t Nft).
    destruct S as (Gt & Nk & _).
    apply new_rights_agree; [apply (moved_agrees b f p c R G)|].
    apply (taken_agrees b t R). exact (not_king_cell _ _ _ Gt Nk).
  - destruct (apply_promo_obs T _ _ _ _ _ _ W Lt H) as (c' & G' & _ & _ & _ & _ & _ & Cr).
    destruct S as (-> & Gt & Nk & _).
    assert (c' = c) by congruence. subst c'.
    rewrite Cr. cbn [top hd]. rewrite (found_on_neq b f t Nft).
    apply new_rights_agree; [apply (moved_agrees b f Pawn c R G)|].
    apply (taken_agrees b t R). exact (not_king_cell _ _ _ Gt Nk).
  - destruct (apply_ep_obs T _ _ _ _ W Lt H) as (c' & G' & _ & _ & _ & _ & _ & Cr).
    destruct S as (-> & Er & Gt & Gv).
    rewrite Cr. cbn [top hd]. apply new_rights_none.
    + apply (moved_agrees b f Pawn c R G).
    + pose proof (taken_agrees b t R) as X. rewrite Gt in X. apply X. intros c0 E. discriminate E.
  - destruct (apply_castle_obs T _ _ _ _ W Lt H) as (c' & rf & rt & Es & Gk & Gt & _ & _ & _ & _ & _ & _ & Cr).
    assert (c' = c) by congruence. subst c'.
    destruct S as (-> & Hf & _).
    rewrite Cr. cbn [top hd].
    assert (Xt : N.land (top (cr_stack b)) (lost_if_taken None t)
                 = N.land (top (cr_stack b)) (rights_lost_by_square t)).
    { pose proof (taken_agrees b t R) as X. rewrite Gt in X. apply X. intros c0 E. discriminate E. }
    assert (Ec : (f = 4 /\ c = White) \/ (f = 60 /\ c = Black)).
    { rewrite (castle_shape_exact f t Lf Lt) in Es. unfold castle_shape_spec in Es.
      destruct Hf as [-> | ->]; [left|right]; (split; [reflexivity|]);
        destruct (t =? _); [| destruct (_ =? t + 2); [|discriminate Es] | | destruct (_ =? t + 2); [|discriminate Es]];
        cbn in Es; inversion Es; reflexivity. }
    destruct Ec as [[-> ->]|[-> ->]].
    + change (N.lor WK WQ) with (N.lor (lost_if_moved King White 4) (lost_if_taken None t)).
      apply new_rights_agree; [apply (moved_agrees b 4 King White R G)|exact Xt].
    + change (N.lor BK BQ) with (N.lor (lost_if_moved King Black 60) (lost_if_taken None t)).
      apply new_rights_agree; [apply (moved_agrees b 60 King Black R G)|exact Xt].
  (* ---- en-passant target ---- *)
  - destruct (apply_std_obs T _ _ _ _ _ W Lt H) as (p' & c' & G' & _ & _ & _ & _ & Ep & _).
    assert (p' = p /\ c' = c) as [-> ->] by (split; congruence).
    rewrite Ep, G. cbn [top hd]. destruct S as (_ & _ & Ps).
    destruct p; try (rewrite rules_ep_false; apply ep_nonpawn_agree; discriminate).
    apply ep_pawn_agree; [exact Lf|exact Lt|apply Ps; reflexivity].
  - destruct (apply_promo_obs T _ _ _ _ _ _ W Lt H) as (c' & G' & _ & _ & _ & _ & Ep & _).
    destruct S as (-> & _ & _ & Ps).
    assert (c' = c) by congruence. subst c'.
    rewrite Ep, G. cbn [top hd]. apply ep_pawn_agree; assumption.
  - destruct (apply_ep_obs T _ _ _ _ W Lt H) as (c' & G' & _ & _ & _ & _ & Ep & _).
    destruct S as (-> & Er & _).
    rewrite Ep, G. cbn [top hd]. rewrite (rules_ep_single c f t Er). reflexivity.
  - destruct (apply_castle_obs T _ _ _ _ W Lt H) as (c' & rf & rt & _ & _ & _ & _ & _ & _ & _ & _ & Ep & _).
    destruct S as (-> & _).
    rewrite Ep, G. cbn [top hd]. reflexivity.
Qed.

End WithTable.

(* ------------------------------------------------------------------ *)
(** * the clauses of the statement, one by one *)

Section Clauses.
Variable T : ztable.

Lemma shape_lt b m : move_ok b m -> mv_from m < 64 /\ mv_to m < 64.
Proof. intros [_ (Lf & Lt & _)]. split; assumption. Qed.

(* every square, read through the rules' successor *)
Theorem apply_succ_cells m b b' :
  WF b -> move_ok b m -> apply_move T m b = Ok b' ->
  forall j, j < 64 -> bget b' j = succ_cell (abstract b) m j.
Proof.
  intros W Hok Happ. pose proof (apply_is_successor T m b b' W Hok Happ) as Hmain.
  intros j Lj. destruct (shape_lt b _ Hok) as [Lf Lt].
  rewrite <- (at_abstract b' j Lj), Hmain.
  destruct (successor_cells (abstract b) m (length_map_squares _) Lf Lt) as [_ X]. apply X, Lj.
Qed.

Theorem apply_succ_rights m b b' :
  WF b -> move_ok b m -> apply_move T m b = Ok b' ->
  top (cr_stack b') = N.ldiff (top (cr_stack b))
    (N.lor (rights_lost_by_square (mv_from m)) (rights_lost_by_square (mv_to m))).
Proof. intros W Hok Happ. pose proof (apply_is_successor T m b b' W Hok Happ) as Hmain. change (top (cr_stack b')) with (prights (abstract b')). rewrite Hmain. reflexivity. Qed.

Theorem apply_succ_ep m b b' :
  WF b -> move_ok b m -> apply_move T m b = Ok b' ->
  abs_ep b' = rules_ep (match bget b (mv_from m) with Some (Pawn, _) => true | _ => false end)
                       (mv_from m) (mv_to m).
Proof.
  intros W Hok Happ. pose proof (apply_is_successor T m b b' W Hok Happ) as Hmain.
  destruct (shape_lt b _ Hok) as [Lf _].
  change (abs_ep b') with (pep (abstract b')). rewrite Hmain, succ_pep.
  unfold mover_is_pawn. rewrite (at_abstract b _ Lf). reflexivity.
Qed.

(* "the captured piece (and only it) disappears": an ordinary move vacates the origin, puts
   the mover on the destination (replacing what stood there) and leaves every other square *)
Corollary only_captured_piece_disappears m b b' f t cap :
  WF b -> move_ok b m -> apply_move T m b = Ok b' ->
  m = Std f t cap ->
  forall j, j < 64 ->
    bget b' j = if j =? t then bget b f else if j =? f then None else bget b j.
Proof.
  intros W Hok Happ. pose proof (apply_is_successor T m b b' W Hok Happ) as Hmain.
  intros -> j Lj. destruct (shape_lt b _ Hok) as [Lf Lt]. cbn [mv_from mv_to] in Lf, Lt.
  rewrite (apply_succ_cells _ b b' W Hok Happ j Lj). unfold succ_cell. cbn [mv_from mv_to]. cbv zeta.
  rewrite (at_abstract b f Lf), (at_abstract b j Lj). reflexivity.
Qed.

(* "en passant removes the pawn beside the destination" *)
Corollary ep_removes_pawn_beside_destination m b b' f t :
  WF b -> move_ok b m -> apply_move T m b = Ok b' ->
  m = EnPassant f t ->
  bget b' (sq (fileZ t) (rankZ f)) = None /\ bget b' t = bget b f /\ bget b' f = None /\
  forall j, j < 64 -> j <> sq (fileZ t) (rankZ f) -> j <> t -> j <> f -> bget b' j = bget b j.
Proof.
  intros W Hok Happ. pose proof (apply_is_successor T m b b' W Hok Happ) as Hmain.
  intros ->. destruct (shape_lt b _ Hok) as [Lf Lt]. cbn [mv_from mv_to] in Lf, Lt.
  pose proof (sq_file_rank_lt t f Lt Lf) as Lv.
  pose proof (shape_ok_from_neq_to b _ (proj2 Hok)) as Nft. cbn [mv_from mv_to] in Nft.
  assert (Nvt : t <> sq (fileZ t) (rankZ f)).
  { destruct (proj2 Hok) as (_ & _ & p & c & _ & _ & Er & _). intro E.
    assert (X : rankZ (sq (fileZ t) (rankZ f)) = rankZ f).
    { apply sq_on_board. apply on_board_bounds.
      pose proof (file_rank_bounds f Lf) as B1. pose proof (file_rank_bounds t Lt) as B2.
      apply on_board_bounds in B1, B2. lia. }
    rewrite <- E in X. destruct c; cbn [forward] in Er; lia. }
  assert (C : forall j, j < 64 -> bget b' j =
     if j =? sq (fileZ t) (rankZ f) then None
     else if j =? t then bget b f else if j =? f then None else bget b j).
  { intros j Lj. rewrite (apply_succ_cells _ b b' W Hok Happ j Lj). unfold succ_cell. cbn [mv_from mv_to]. cbv zeta.
    rewrite (at_abstract b f Lf), (at_abstract b j Lj). reflexivity. }
  split; [rewrite (C _ Lv), N.eqb_refl; reflexivity|]. split; [|split].
  - rewrite (C t Lt). apply N.eqb_neq in Nvt. rewrite Nvt, N.eqb_refl. reflexivity.
  - rewrite (C f Lf). destruct (f =? sq (fileZ t) (rankZ f)); [reflexivity|].
    apply N.eqb_neq in Nft. rewrite Nft, N.eqb_refl. reflexivity.
  - intros j Lj N1 N2 N3. rewrite (C j Lj). apply N.eqb_neq in N1, N2, N3. rewrite N1, N2, N3. reflexivity.
Qed.

(* "castling also moves the matching rook" *)
Corollary castle_moves_matching_rook m b b' f t :
  WF b -> move_ok b m -> apply_move T m b = Ok b' ->
  m = Castle f t ->
  exists c, bget b f = Some (King, c) /\
    bget b' t = Some (King, c) /\ bget b' f = None /\
    let r := rankZ f in
    if (fileZ t =? 6)%Z
    then bget b' (sq 7 r) = None /\ bget b' (sq 5 r) = Some (Rook, c)
    else bget b' (sq 0 r) = None /\ bget b' (sq 3 r) = Some (Rook, c).
Proof.
  intros W Hok Happ. pose proof (apply_is_successor T m b b' W Hok Happ) as Hmain.
  intros ->. destruct (shape_lt b _ Hok) as [Lf Lt]. cbn [mv_from mv_to] in Lf, Lt.
  destruct (proj2 Hok) as (_ & _ & p & c & G & -> & Hf & rf & rt & Es & _). cbn [mv_from] in G.
  exists c. split; [exact G|].
  assert (C : forall j, j < 64 -> bget b' j = succ_cell (abstract b) (Castle f t) j)
    by exact (apply_succ_cells _ b b' W Hok Happ).
  unfold succ_cell, mover_color in C. cbn [mv_from mv_to] in C. cbv zeta in C.
  rewrite (at_abstract b f Lf), G in C.
  rewrite (castle_shape_exact f t Lf Lt) in Es. unfold castle_shape_spec in Es.
  assert (Ht : (f = 4 /\ (t = 6 \/ t = 2)) \/ (f = 60 /\ (t = 62 \/ t = 58))).
  { destruct Hf as [-> | ->]; [left|right]; (split; [reflexivity|]).
    - destruct (N.eqb_spec t (4 + 2)) as [X|X]; [left; lia|].
      destruct (N.eqb_spec 4 (t + 2)) as [Y|Y]; [right; lia|discriminate Es].
    - destruct (N.eqb_spec t (60 + 2)) as [X|X]; [left; lia|].
      destruct (N.eqb_spec 60 (t + 2)) as [Y|Y]; [right; lia|discriminate Es]. }
  cbv zeta.
  destruct Ht as [[-> [-> | ->]]|[-> [-> | ->]]];
    repeat split; rewrite C by (vm_compute; reflexivity); reflexivity.
Qed.

(* "promotion replaces the pawn by the chosen piece" *)
Corollary promotion_replaces_pawn m b b' f t cap pp :
  WF b -> move_ok b m -> apply_move T m b = Ok b' ->
  m = Promo f t cap pp ->
  exists c, bget b f = Some (Pawn, c) /\ bget b' t = Some (pp, c) /\ bget b' f = None /\
    forall j, j < 64 -> j <> t -> j <> f -> bget b' j = bget b j.
Proof.
  intros W Hok Happ. pose proof (apply_is_successor T m b b' W Hok Happ) as Hmain.
  intros ->. destruct (shape_lt b _ Hok) as [Lf Lt]. cbn [mv_from mv_to] in Lf, Lt.
  pose proof (shape_ok_from_neq_to b _ (proj2 Hok)) as Nft. cbn [mv_from mv_to] in Nft.
  destruct (proj2 Hok) as (_ & _ & p & c & G & Ep & _). subst p. cbn [mv_from] in G.
  exists c. split; [exact G|].
  assert (C : forall j, j < 64 -> bget b' j =
     if j =? t then Some (pp, c) else if j =? f then None else bget b j).
  { intros j Lj. rewrite (apply_succ_cells _ b b' W Hok Happ j Lj). unfold succ_cell, mover_color. cbn [mv_from mv_to]. cbv zeta.
    rewrite (at_abstract b f Lf), (at_abstract b j Lj), G. reflexivity. }
  split; [rewrite (C t Lt), N.eqb_refl; reflexivity|]. split.
  - rewrite (C f Lf). apply N.eqb_neq in Nft. rewrite Nft, N.eqb_refl. reflexivity.
  - intros j Lj N1 N2. rewrite (C j Lj). apply N.eqb_neq in N1, N2. rewrite N1, N2. reflexivity.
Qed.

(* "a double pawn step sets the en-passant target to the skipped square" *)
Corollary double_step_sets_ep_target m b b' c :
  WF b -> move_ok b m -> apply_move T m b = Ok b' ->
  bget b (mv_from m) = Some (Pawn, c) ->
  Z.abs (rankZ (mv_to m) - rankZ (mv_from m)) = 2%Z ->
  abs_ep b' = Some (sq (fileZ (mv_from m)) ((rankZ (mv_from m) + rankZ (mv_to m)) / 2)).
Proof.
  intros W Hok Happ. pose proof (apply_is_successor T m b b' W Hok Happ) as Hmain.
  intros G D. rewrite (apply_succ_ep _ b b' W Hok Happ), G. unfold rules_ep. rewrite D. reflexivity.
Qed.

(* "... and every other move clears it" *)
Corollary other_moves_clear_ep_target m b b' :
  WF b -> move_ok b m -> apply_move T m b = Ok b' ->
  (forall c, bget b (mv_from m) <> Some (Pawn, c)) \/
  Z.abs (rankZ (mv_to m) - rankZ (mv_from m)) <> 2%Z ->
  abs_ep b' = None.
Proof.
  intros W Hok Happ. pose proof (apply_is_successor T m b b' W Hok Happ) as Hmain.
  intro D. rewrite (apply_succ_ep _ b b' W Hok Happ). unfold rules_ep. destruct D as [D|D].
  - destruct (bget b (mv_from m)) as [[[] c]|]; try reflexivity. exfalso. apply (D c). reflexivity.
  - apply Z.eqb_neq in D. rewrite D, andb_false_r. reflexivity.
Qed.

(* "castling rights are lost exactly when the king or a home rook moves or a home rook is
   captured": bit by bit, a right is held afterwards iff it was held and neither the origin
   nor the destination is a home square of that right *)
Corollary rights_lost_exactly m b b' :
  WF b -> move_ok b m -> apply_move T m b = Ok b' ->
  forall k,
  N.testbit (top (cr_stack b')) k =
  N.testbit (top (cr_stack b)) k
  && negb (N.testbit (rights_lost_by_square (mv_from m)) k || N.testbit (rights_lost_by_square (mv_to m)) k).
Proof. intros W Hok Happ k. rewrite (apply_succ_rights _ b b' W Hok Happ), N.ldiff_spec, N.lor_spec. reflexivity. Qed.

(* "making a move never changes whose turn it is" *)
Corollary turn_unchanged m b b' :
  WF b -> move_ok b m -> apply_move T m b = Ok b' ->
  turn b' = turn b.
Proof. intros W Hok Happ. pose proof (apply_is_successor T m b b' W Hok Happ) as Hmain. change (pturn (abstract b') = pturn (abstract b)). rewrite Hmain. reflexivity. Qed.

End Clauses.

(* ------------------------------------------------------------------ *)
(** * "... and never fails for a legal move" *)

Lemma rank_of_sq_file_rank t f : t < 64 -> f < 64 ->
  rankZ (sq (fileZ t) (rankZ f)) = rankZ f /\ fileZ (sq (fileZ t) (rankZ f)) = fileZ t.
Proof.
  intros Lt Lf.
  assert (B : on_board (fileZ t) (rankZ f) = true).
  { apply on_board_bounds.
    pose proof (file_rank_bounds f Lf) as B1. pose proof (file_rank_bounds t Lt) as B2.
    apply on_board_bounds in B1, B2. lia. }
  destruct (sq_on_board _ _ B) as (_ & X & Y). split; assumption.
Qed.

Section Total.
Variable T : ztable.

Theorem apply_total_shape m b :
  WF b -> shape_ok b m -> counters_ok b -> exists b', apply_move T m b = Ok b'.
Proof.
  intros W S Ck. pose proof (shape_ok_from_neq_to b m S) as Nft.
  destruct S as (Lf & Lt & p & c & G & S).
  destruct m as [f t cap|f t cap pp|f t|f t]; cbn [mv_from mv_to apply_move] in *.
  - destruct S as (Gt & _).
    apply (apply_std_total T b f t cap p c W Lt Ck G). rewrite (found_on_neq b f t Nft). exact Gt.
  - destruct S as (-> & Gt & _).
    apply (apply_promo_total T b f t cap pp c W Lt Ck G). rewrite (found_on_neq b f t Nft). exact Gt.
  - destruct S as (-> & Er & Gt & Gv & Nfile).
    destruct (rank_of_sq_file_rank t f Lt Lf) as [Xr Xf].
    pose proof (ep_captured_square_rules c f t Lf Lt Er) as Ev.
    apply (apply_ep_total T b f t c W Lt Ck G); try assumption; rewrite Ev; intro E.
    + rewrite E in Xf. congruence.
    + rewrite E in Xr. destruct c; cbn [forward] in Er; lia.
  - destruct S as (-> & Hf & rf & rt & Es & Gt & Gr & Grt).
    pose proof Es as Es'. rewrite (castle_shape_exact f t Lf Lt) in Es'. unfold castle_shape_spec in Es'.
    assert (Hc : (f = 4 /\ ((t = 6 /\ rf = 7 /\ rt = 5) \/ (t = 2 /\ rf = 0 /\ rt = 3)))
              \/ (f = 60 /\ ((t = 62 /\ rf = 63 /\ rt = 61) \/ (t = 58 /\ rf = 56 /\ rt = 59)))).
    { destruct Hf as [-> | ->]; [left|right]; (split; [reflexivity|]).
      - destruct (N.eqb_spec t (4 + 2)) as [X|X].
        + cbn in Es'. inversion Es'. left. lia.
        + destruct (N.eqb_spec 4 (t + 2)) as [Y|Y]; [|discriminate Es'].
          cbn in Es'. inversion Es'. right. lia.
      - destruct (N.eqb_spec t (60 + 2)) as [X|X].
        + cbn in Es'. inversion Es'. left. lia.
        + destruct (N.eqb_spec 60 (t + 2)) as [Y|Y]; [|discriminate Es'].
          cbn in Es'. inversion Es'. right. lia. }
    apply (apply_castle_total T b f t c rf rt W Lt); try assumption;
      destruct Hc as [[-> [(-> & -> & ->)|(-> & -> & ->)]]|[-> [(-> & -> & ->)|(-> & -> & ->)]]]; lia.
Qed.

Theorem apply_total m b :
  WF b -> move_ok b m -> counters_ok b -> exists b', apply_move T m b = Ok b'.
Proof. intros W [_ S]. apply apply_total_shape; assumption. Qed.

(* the same with the counters bounded by their types' maxima *)
Corollary apply_total_lt m b :
  WF b -> move_ok b m ->
  ep_stack b <> [] -> cr_stack b <> [] -> hm_stack b <> [] ->
  fullmove b < FULLMOVE_MAX -> top (hm_stack b) < U8_MAX ->
  exists b', apply_move T m b = Ok b'.
Proof.
  intros W Hok X1 X2 X3 X4 X5. apply apply_total; try assumption.
  unfold counters_ok. repeat split; try assumption; lia.
Qed.

(* both halves: the move is made, and what results is the rules' successor *)
Corollary apply_legal_move m b :
  WF b -> move_ok b m -> counters_ok b ->
  exists b', apply_move T m b = Ok b' /\ abstract b' = successor (abstract b) m /\ turn b' = turn b.
Proof.
  intros W Hok Ck. destruct (apply_total m b W Hok Ck) as [b' E]. exists b'.
  split; [exact E|]. split; [apply (apply_is_successor T m b b' W Hok E)|apply (turn_unchanged T m b b' W Hok E)].
Qed.

End Total.

Definition counters_okb (b : board) : bool :=
  nonempty (ep_stack b) && nonempty (cr_stack b) && nonempty (hm_stack b)
  && negb (fullmove b =? FULLMOVE_MAX) && negb (top (hm_stack b) =? U8_MAX).

Lemma counters_okb_spec b : counters_okb b = true <-> counters_ok b.
Proof.
  unfold counters_okb, counters_ok. rewrite !andb_true_iff, !nonempty_spec, !negb_true_iff, !N.eqb_neq. tauto.
Qed.

(* a board on which repr_ok holds satisfies the board-side premises *)
Lemma repr_ok_premises b : repr_ok b = true -> WF b /\ rights_home b.
Proof. intro H. split; [apply (repr_ok_WF b H)|apply (repr_ok_rights_home b H)]. Qed.


(* the callers flip the side to move afterwards: together that is the rules' succ_turn *)
Lemma abstract_toggle_turn b : abstract (toggle_turn b) = flip_turn (abstract b).
Proof. reflexivity. Qed.

Corollary apply_then_flip_is_succ_turn (T : ztable) m b b' :
  WF b -> move_ok b m -> apply_move T m b = Ok b' ->
  abstract (toggle_turn b') = succ_turn (abstract b) m.
Proof.
  intros W Hok H. rewrite abstract_toggle_turn, (apply_is_successor T m b b' W Hok H). reflexivity.
Qed.

(* ------------------------------------------------------------------ *)
(** * non-vacuity: the premises hold, and the conclusion is seen, on concrete boards *)

Ltac vm_split :=
  repeat (lazymatch goal with |- _ /\ _ => split end); vm_compute; reflexivity.

Definition ok_board (r : res board) : board := match r with Ok b => b | _ => board_new end.
Definition made (m : cmove) (b : board) : board := ok_board (apply_move Z0 m b).

(* for each example: the three premises of apply_is_successor / apply_total, decided *)
Definition premises (b : board) (m : cmove) : bool := wf_b b && move_okb b m && counters_okb b.

Lemma premises_spec b m : premises b m = true -> WF b /\ move_ok b m /\ counters_ok b.
Proof.
  unfold premises. rewrite !andb_true_iff. intros [[X1 X2] X3].
  split; [apply (wf_b_WF b X1)|]. split; [apply move_okb_spec, X2|apply counters_okb_spec, X3].
Qed.

(* 1. double step e2-e4 from the starting position: target e3, rights untouched *)
Example ex_double_step :
  let b := initial_board in let m := Std 12 28 None in
  premises b m = true /\ apply_move Z0 m b = Ok (made m b) /\
  abstract (made m b) = successor (abstract b) m /\
  abs_ep (made m b) = Some 20 /\ top (cr_stack (made m b)) = 15 /\ turn (made m b) = White.
Proof. cbv zeta. vm_split. Qed.

(* ... and a single step clears a standing target *)
Example ex_single_step_clears :
  let b := made (Std 12 28 None) initial_board in let m := Std 52 44 None in   (* 1.e4 e6 *)
  premises b m = true /\ abs_ep b = Some 20 /\ abs_ep (made m b) = None /\
  abstract (made m b) = successor (abstract b) m.
Proof. cbv zeta. vm_split. Qed.

(* 2. a promoting pawn takes a home rook on a corner: b7xa8=Q, Black still held O-O-O *)
Definition corner_board : board :=
  set_cr (ok_board (put_all board_new [(4, King, White); (60, King, Black); (49, Pawn, White); (56, Rook, Black)]))
         [BQ].
Example ex_corner_capture_promotion :
  let b := corner_board in let m := Promo 49 56 (Some Rook) Queen in
  premises b m = true /\ apply_move Z0 m b = Ok (made m b) /\
  abstract (made m b) = successor (abstract b) m /\
  top (cr_stack b) = BQ /\ top (cr_stack (made m b)) = 0 /\
  bget (made m b) 56 = Some (Queen, White) /\ bget (made m b) 49 = None.
Proof. cbv zeta. vm_split. Qed.

(* 3. castling after the other rook has moved: only O-O is still held; the h-rook goes to f1 *)
Definition one_rook_board : board :=
  set_cr (ok_board (put_all board_new [(4, King, White); (7, Rook, White); (1, Rook, White); (60, King, Black)]))
         [WK].
Example ex_castle_after_other_rook_moved :
  let b := one_rook_board in let m := Castle 4 6 in
  premises b m = true /\ apply_move Z0 m b = Ok (made m b) /\
  abstract (made m b) = successor (abstract b) m /\
  top (cr_stack (made m b)) = 0 /\
  bget (made m b) 6 = Some (King, White) /\ bget (made m b) 5 = Some (Rook, White) /\
  bget (made m b) 7 = None /\ bget (made m b) 4 = None /\ bget (made m b) 1 = Some (Rook, White).
Proof. cbv zeta. vm_split. Qed.

(* a rook leaving its home square loses just its own side's right *)
Definition two_rook_board : board :=
  ok_board (put_all (set_cr board_new [N.lor WK WQ])
                    [(4, King, White); (7, Rook, White); (0, Rook, White); (60, King, Black)]).
Example ex_rook_move_loses_one_right :
  let b := two_rook_board in let m := Std 0 1 None in
  premises b m = true /\ abstract (made m b) = successor (abstract b) m /\
  top (cr_stack b) = N.lor WK WQ /\ top (cr_stack (made m b)) = WK.
Proof. cbv zeta. vm_split. Qed.

(* 4. en passant: white pawn e5, black pawn d5 has just played d7-d5; exd6 removes d5 *)
Definition ep_board0 : board :=
  set_cr (set_ep (ok_board (put_all board_new
            [(4, King, White); (60, King, Black); (36, Pawn, White); (35, Pawn, Black)])) [bit 43; 0]) [0].
Example ex_en_passant :
  let b := ep_board0 in let m := EnPassant 36 43 in
  premises b m = true /\ apply_move Z0 m b = Ok (made m b) /\
  abstract (made m b) = successor (abstract b) m /\
  abs_ep b = Some 43 /\ abs_ep (made m b) = None /\
  bget (made m b) 43 = Some (Pawn, White) /\ bget (made m b) 35 = None /\ bget (made m b) 36 = None.
Proof. cbv zeta. vm_split. Qed.

(* the theorems instantiate on these boards *)
Example ex_theorem_applies :
  abstract (made (Castle 4 6) one_rook_board) = successor (abstract one_rook_board) (Castle 4 6).
Proof.
  destruct (premises_spec one_rook_board (Castle 4 6) ltac:(vm_compute; reflexivity)) as (W & Hok & _).
  apply (apply_is_successor Z0 _ _ _ W Hok). vm_compute. reflexivity.
Qed.

(* what move_ok excludes, and why: a pawn "double step" that does not start on its start
   rank (e3-e5) is recorded as a double step by the rules' formula but not by the engine *)
Example ex_why_pawn_step_ok :
  let b := ok_board (put_all (set_cr board_new [0]) [(4, King, White); (60, King, Black); (20, Pawn, White)]) in
  let m := Std 20 36 None in
  move_okb b m = false /\ abs_ep (made m b) = None /\ pep (successor (abstract b) m) = Some 28.
Proof. cbv zeta. vm_split. Qed.

(* ... and capturing a king on its home square (never legal) would lose rights only in the rules *)
Example ex_why_no_king_capture :
  let b := ok_board (put_all (set_cr board_new [BK])
              [(4, King, White); (60, King, Black); (63, Rook, Black); (52, Queen, White)]) in
  let m := Std 52 60 (Some King) in
  move_okb b m = false /\ top (cr_stack (made m b)) = BK /\ prights (successor (abstract b) m) = 0.
Proof. cbv zeta. vm_split. Qed.


Print Assumptions apply_is_successor.
Print Assumptions apply_total.
Print Assumptions apply_legal_move.
Print Assumptions move_okb_spec.
Print Assumptions rights_lost_exactly.
Print Assumptions castle_moves_matching_rook.
Print Assumptions apply_then_flip_is_succ_turn.
Print Assumptions ex_theorem_applies.
