(* Material.v — playing a move keeps the material of both sides legal
   (EvalProofs2.legal_material: one king; pawns + promoted surplus <= 8).

   Route: the square-by-square description of apply_move (MoveCells.v) and a count of
   the squares holding a given piece.  Under WF the population count of a piece bitboard
   is that count; changing one square changes the count by the obvious indicator.
   - [surplus_apply]: pawns + surplus never grows, for ANY move that applies (only WF and
     a destination on the board are needed);
   - the king clause comes from InvProofs.apply_Repr (the invariant keeps one king each);
   - [legal_material_apply]: the statement asked for.
   Also: the key invariant is insensitive to the side to move, and its one-move step. *)
From Coq Require Import Lia ZArith NArith List Bool.
From ChessV Require Import Abs WfReflect GeomProofs.
From ChessV Require Import InvProofs InvProofs2 EvalProofs2 EvalProofs3.
Import ListNotations.

#[local] Arguments N.add : simpl never.
#[local] Arguments N.sub : simpl never.
#[local] Arguments N.mul : simpl never.
#[local] Arguments N.div : simpl never.
#[local] Arguments N.modulo : simpl never.
#[local] Arguments N.eqb : simpl never.
#[local] Arguments N.ltb : simpl never.
#[local] Arguments N.leb : simpl never.
#[local] Arguments N.shiftl : simpl never.
#[local] Arguments N.shiftr : simpl never.
#[local] Arguments N.land : simpl never.
#[local] Arguments N.lor : simpl never.
#[local] Arguments N.lxor : simpl never.
#[local] Arguments N.ldiff : simpl never.
#[local] Arguments N.testbit : simpl never.

Open Scope N_scope.

(* ------------------------------------------------------------------ *)
(** * counting the squares that hold a given piece *)

Definition cellf := N -> option (piece * color).

Definition hit (g : cellf) (x : piece * color) (j : N) : bool := opt_pc_eqb (g j) (Some x).

Definition cntl (g : cellf) (x : piece * color) (l : list N) : nat := length (filter (hit g x) l).

Definition cntf (g : cellf) (x : piece * color) : nat := cntl g x squares.

(* 1 if the cell holds x *)
Definition ind (o : option (piece * color)) (x : piece * color) : nat :=
  if opt_pc_eqb o (Some x) then 1%nat else 0%nat.

Definition updc (k : N) (v : option (piece * color)) (g : cellf) : cellf :=
  fun j => if j =? k then v else g j.

Lemma cntl_ext g g' x l : (forall j, In j l -> g' j = g j) -> cntl g' x l = cntl g x l.
Proof.
  intro E. unfold cntl. f_equal. apply filter_ext_in. intros j Hj. unfold hit. rewrite (E j Hj). reflexivity.
Qed.

Lemma cntf_ext g g' x : (forall j, j < 64 -> g' j = g j) -> cntf g' x = cntf g x.
Proof. intro E. apply cntl_ext. intros j Hj. apply E. apply in_squares. exact Hj. Qed.

Lemma cntl_cons g x a l : cntl g x (a :: l) = ((if hit g x a then 1 else 0) + cntl g x l)%nat.
Proof. unfold cntl. cbn [filter]. destruct (hit g x a); reflexivity. Qed.

Lemma cntl_updc_notin g x k v l : ~ In k l -> cntl (updc k v g) x l = cntl g x l.
Proof.
  intro Hn. apply cntl_ext. intros j Hj. unfold updc.
  destruct (N.eqb_spec j k) as [->|_]; [contradiction|reflexivity].
Qed.

Lemma cntl_updc g x k v l : NoDup l -> In k l ->
  (cntl (updc k v g) x l + ind (g k) x = cntl g x l + ind v x)%nat.
Proof.
  induction l as [|a l IH]; intros ND Hin; [destruct Hin|].
  inversion ND as [|? ? Hnot ND']; subst. rewrite !cntl_cons.
  destruct Hin as [->|Hin].
  - rewrite (cntl_updc_notin g x k v l Hnot). unfold hit, updc, ind. rewrite N.eqb_refl.
    destruct (opt_pc_eqb v (Some x)), (opt_pc_eqb (g k) (Some x)); lia.
  - assert (Hne : a <> k) by (intros ->; contradiction).
    specialize (IH ND' Hin).
    assert (Ea : hit (updc k v g) x a = hit g x a).
    { unfold hit, updc. destruct (N.eqb_spec a k) as [Y|_]; [contradiction|reflexivity]. }
    rewrite Ea. lia.
Qed.

(* changing one square of the board *)
Lemma cntf_updc g x k v : k < 64 ->
  (cntf (updc k v g) x + ind (g k) x = cntf g x + ind v x)%nat.
Proof. intro L. apply cntl_updc; [exact NoDup_squares|apply in_squares; exact L]. Qed.

Lemma ind_none x : ind None x = 0%nat.
Proof. reflexivity. Qed.

Lemma ind_some p c q c0 :
  ind (Some (p, c)) (q, c0) = if piece_eqb p q && color_eqb c c0 then 1%nat else 0%nat.
Proof. reflexivity. Qed.

Lemma ind_le1 o x : (ind o x <= 1)%nat.
Proof. unfold ind. destruct (opt_pc_eqb o (Some x)); lia. Qed.

Lemma ind_other_color o p c q : o = Some (p, c) -> ind o (q, opp_c c) = 0%nat.
Proof.
  intros ->. rewrite ind_some.
  assert (E : color_eqb c (opp_c c) = false) by (destruct c; reflexivity).
  rewrite E, andb_false_r. reflexivity.
Qed.

(* the population count of a piece bitboard is the number of squares holding the piece *)
Lemma popcount_cntf b c p : WF b ->
  popcount (locate (pieces b c) p) = N.of_nat (cntf (bget b) (p, c)).
Proof.
  intro W. rewrite popcount_unfold. unfold bits_of, cntf, cntl. f_equal. f_equal.
  apply filter_ext. intro j. unfold hit. apply eq_iff_eq_true.
  rewrite opt_pc_eqb_eq. symmetry. apply (bget_mem b j p c W).
Qed.

(* ------------------------------------------------------------------ *)
(** * pawns + promoted surplus *)

(* on piece sets (the second clause of legal_material) ... *)
Definition msur (s : pset) : N :=
  popcount (pw s) + (popcount (kn s) - 2) + (popcount (bi s) - 2) + (popcount (rk s) - 2)
    + (popcount (qn s) - 1).

(* ... and on count vectors *)
Definition surplus (f : piece -> nat) : nat :=
  (f Pawn + (f Knight - 2) + (f Bishop - 2) + (f Rook - 2) + (f Queen - 1))%nat.

Definition cvec (b : board) (c : color) : piece -> nat := fun q => cntf (bget b) (q, c).

Lemma legal_material_msur s : legal_material s <-> popcount (kg s) = 1 /\ msur s <= 8.
Proof. unfold legal_material, msur. split; intro H; exact H. Qed.

Lemma msur_cvec b c : WF b -> msur (pieces b c) = N.of_nat (surplus (cvec b c)).
Proof.
  intro W. unfold msur, surplus, cvec.
  change (pw (pieces b c)) with (locate (pieces b c) Pawn).
  change (kn (pieces b c)) with (locate (pieces b c) Knight).
  change (bi (pieces b c)) with (locate (pieces b c) Bishop).
  change (rk (pieces b c)) with (locate (pieces b c) Rook).
  change (qn (pieces b c)) with (locate (pieces b c) Queen).
  rewrite !(popcount_cntf b c _ W). lia.
Qed.

(* removing pieces does not increase it *)
Lemma surplus_mono f f' : (forall q, (f' q <= f q)%nat) -> (surplus f' <= surplus f)%nat.
Proof.
  intro H. unfold surplus.
  pose proof (H Pawn) as HP. pose proof (H Knight) as HN. pose proof (H Bishop) as HB.
  pose proof (H Rook) as HR. pose proof (H Queen) as HQ. lia.
Qed.

(* a pawn leaves (h), one piece of kind pp arrives, possibly something else is removed *)
Lemma surplus_promo f h f' pp :
  (forall q, (f' q <= h q + (if piece_eqb pp q then 1 else 0))%nat) ->
  (h Pawn + 1 = f Pawn)%nat -> (forall q, q <> Pawn -> h q = f q) ->
  (surplus f' <= surplus f)%nat.
Proof.
  intros H HP Ho. unfold surplus.
  pose proof (H Pawn) as AP. pose proof (H Knight) as AN. pose proof (H Bishop) as AB.
  pose proof (H Rook) as AR. pose proof (H Queen) as AQ.
  assert (EN : h Knight = f Knight) by (apply Ho; discriminate).
  assert (EB : h Bishop = f Bishop) by (apply Ho; discriminate).
  assert (ER : h Rook = f Rook) by (apply Ho; discriminate).
  assert (EQ : h Queen = f Queen) by (apply Ho; discriminate).
  destruct pp; cbn [piece_eqb] in AP, AN, AB, AR, AQ; lia.
Qed.

(* ------------------------------------------------------------------ *)
(** * the four kinds of move *)

Lemma color_cases (c c0 : color) : c0 = c \/ c0 = opp_c c.
Proof. destruct c, c0; cbn [opp_c]; tauto. Qed.

Section Apply.
Variable T : ztable.

(* a piece leaves f and lands on t, whatever stood on t disappears *)
Lemma std_counts b b' f t p c x : WF b -> t < 64 ->
  bget b f = Some (p, c) ->
  (forall j, bget b' j = if j =? t then Some (p, c) else if j =? f then None else bget b j) ->
  (cntf (bget b') x + ind (if (t =? f)%N then None else bget b t) x = cntf (bget b) x)%nat.
Proof.
  intros W Lt G0 G.
  pose proof (bget_lt64 b f _ W G0) as Lf.
  rewrite (cntf_ext (updc t (Some (p, c)) (updc f None (bget b))) (bget b') x)
    by (intros j _; rewrite G; reflexivity).
  pose proof (cntf_updc (updc f None (bget b)) x t (Some (p, c)) Lt) as A1.
  pose proof (cntf_updc (bget b) x f None Lf) as A2.
  rewrite G0, ind_none in A2.
  change (updc f None (bget b) t) with (if t =? f then None else bget b t) in A1.
  lia.
Qed.

Lemma apply_std_counts b f t cap b' x : WF b -> t < 64 -> apply_std T b f t cap = Ok b' ->
  (cntf (bget b') x <= cntf (bget b) x)%nat.
Proof.
  intros W Lt H.
  destruct (apply_std_cells T b f t cap b' W Lt H) as (p & c & G0 & _ & G & _ & _).
  pose proof (std_counts b b' f t p c x W Lt G0 G) as A. lia.
Qed.

Lemma apply_std_surplus b f t cap b' c0 : WF b -> t < 64 -> apply_std T b f t cap = Ok b' ->
  (surplus (cvec b' c0) <= surplus (cvec b c0))%nat.
Proof.
  intros W Lt H. apply surplus_mono. intro q. apply (apply_std_counts b f t cap b' (q, c0) W Lt H).
Qed.

Lemma apply_promo_surplus b f t cap pp b' c0 : WF b -> t < 64 -> apply_promo T b f t cap pp = Ok b' ->
  (surplus (cvec b' c0) <= surplus (cvec b c0))%nat.
Proof.
  intros W Lt H.
  destruct (apply_promo_cells T b f t cap pp b' W Lt H) as (c & G0 & _ & G & _ & _).
  pose proof (bget_lt64 b f _ W G0) as Lf.
  assert (A : forall x,
    (cntf (bget b') x + ind (if (t =? f)%N then None else bget b t) x
     = cntf (updc f None (bget b)) x + ind (Some (pp, c)) x)%nat
    /\ (cntf (updc f None (bget b)) x + ind (Some (Pawn, c)) x = cntf (bget b) x)%nat).
  { intro x.
    rewrite (cntf_ext (updc t (Some (pp, c)) (updc f None (bget b))) (bget b') x)
      by (intros j _; rewrite G; reflexivity).
    pose proof (cntf_updc (updc f None (bget b)) x t (Some (pp, c)) Lt) as A1.
    pose proof (cntf_updc (bget b) x f None Lf) as A2.
    rewrite G0, ind_none in A2.
    change (updc f None (bget b) t) with (if t =? f then None else bget b t) in A1.
    split; lia. }
  destruct (color_cases c c0) as [->| ->].
  - (* the mover's side: a pawn becomes a pp *)
    apply (surplus_promo (cvec b c) (fun q => cntf (updc f None (bget b)) (q, c)) (cvec b' c) pp).
    + intro q. unfold cvec. destruct (A (q, c)) as [A1 _]. rewrite ind_some in A1.
      assert (E : color_eqb c c = true) by (destruct c; reflexivity).
      rewrite E, andb_true_r in A1. lia.
    + unfold cvec. destruct (A (Pawn, c)) as [_ A2]. rewrite ind_some in A2.
      assert (E : color_eqb c c = true) by (destruct c; reflexivity).
      rewrite E in A2. cbn [piece_eqb andb] in A2. exact A2.
    + intros q Nq. unfold cvec. destruct (A (q, c)) as [_ A2]. rewrite ind_some in A2.
      assert (E : piece_eqb Pawn q = false) by (destruct q; try reflexivity; contradiction).
      rewrite E in A2. cbn [andb] in A2. lia.
  - (* the other side: at most a capture *)
    apply surplus_mono. intro q. unfold cvec. destruct (A (q, opp_c c)) as [A1 A2].
    rewrite (ind_other_color _ pp c q eq_refl) in A1.
    rewrite (ind_other_color _ Pawn c q eq_refl) in A2. lia.
Qed.

Lemma apply_ep_surplus b f t b' c0 : WF b -> t < 64 -> apply_ep T b f t = Ok b' ->
  (surplus (cvec b' c0) <= surplus (cvec b c0))%nat.
Proof.
  intros W Lt H.
  pose proof (apply_ep_cells T b f t b' W Lt H) as X. cbv zeta in X.
  destruct X as (c & pc2 & G0 & Ncs & Lcs & Gcs & G & _ & _).
  pose proof (bget_lt64 b f _ W G0) as Lf.
  set (cs := ep_captured_square c t) in *.
  apply surplus_mono. intro q. unfold cvec. set (x := (q, c0)).
  set (g1 := updc f None (bget b)). set (g2 := updc cs None g1).
  rewrite (cntf_ext (updc t (Some (Pawn, c)) g2) (bget b') x)
    by (intros j _; rewrite G; reflexivity).
  pose proof (cntf_updc g2 x t (Some (Pawn, c)) Lt) as A1.
  pose proof (cntf_updc g1 x cs None Lcs) as A2.
  pose proof (cntf_updc (bget b) x f None Lf) as A3.
  fold g1 in A3. fold g2 in A2. rewrite G0, ind_none in A3. rewrite ind_none in A2.
  assert (E2 : g2 t = None \/ g2 t = bget b t).
  { unfold g2, g1, updc. destruct (t =? cs); [left; reflexivity|].
    destruct (t =? f); [left; reflexivity|right; reflexivity]. }
  (* the arrival square is empty or not: either way nothing is gained *)
  lia.
Qed.

Lemma apply_castle_surplus b f t b' c0 : WF b -> t < 64 -> apply_castle T b f t = Ok b' ->
  (surplus (cvec b' c0) <= surplus (cvec b c0))%nat.
Proof.
  intros W Lt H.
  destruct (apply_castle_cells T b f t b' W Lt H)
    as (c & rf & rt & Sh & Gf & Gt & Grf & Grt & Nrt & G & _ & _).
  destruct (castle_shape_squares _ _ _ _ _ Sh) as [Lrf Lrt].
  pose proof (bget_lt64 b f _ W Gf) as Lf.
  apply surplus_mono. intro q. unfold cvec. set (x := (q, c0)).
  set (g1 := updc f None (bget b)). set (g2 := updc t (Some (King, c)) g1).
  set (g3 := updc rf None g2).
  rewrite (cntf_ext (updc rt (Some (Rook, c)) g3) (bget b') x)
    by (intros j _; rewrite G; reflexivity).
  pose proof (cntf_updc g3 x rt (Some (Rook, c)) Lrt) as A1.
  pose proof (cntf_updc g2 x rf None Lrf) as A2.
  pose proof (cntf_updc g1 x t (Some (King, c)) Lt) as A3.
  pose proof (cntf_updc (bget b) x f None Lf) as A4.
  fold g1 in A4. fold g2 in A3. fold g3 in A2.
  rewrite Gf, ind_none in A4. rewrite ind_none in A2.
  assert (E1 : g1 t = None).
  { unfold g1, updc. destruct (t =? f); [reflexivity|exact Gt]. }
  assert (Nft : rf <> t) by (intro Y; rewrite Y, Gt in Grf; discriminate).
  assert (Nff : rf <> f) by (intro Y; rewrite Y, Gf in Grf; discriminate).
  assert (E2 : g2 rf = Some (Rook, c)).
  { unfold g2, g1, updc. destruct (N.eqb_spec rf t) as [Y|_]; [contradiction|].
    destruct (N.eqb_spec rf f) as [Y|_]; [contradiction|exact Grf]. }
  rewrite E1, ind_none in A3. rewrite E2 in A2.
  pose proof (ind_le1 (g3 rt) x) as A5. lia.
Qed.

(** pawns + promoted surplus never grows, whatever move applies *)
Theorem surplus_apply m b b1 c0 : WF b -> mv_to m < 64 -> apply_move T m b = Ok b1 ->
  msur (pieces b1 c0) <= msur (pieces b c0).
Proof.
  intros W Lt H.
  pose proof (apply_move_WF T m b b1 H W Lt) as W1.
  rewrite (msur_cvec b1 c0 W1), (msur_cvec b c0 W).
  assert (A : (surplus (cvec b1 c0) <= surplus (cvec b c0))%nat).
  { destruct m as [f t cap|f t cap pp|f t|f t]; cbn [apply_move mv_to] in H, Lt.
    - apply (apply_std_surplus b f t cap b1 c0 W Lt H).
    - apply (apply_promo_surplus b f t cap pp b1 c0 W Lt H).
    - apply (apply_ep_surplus b f t b1 c0 W Lt H).
    - apply (apply_castle_surplus b f t b1 c0 W Lt H). }
  lia.
Qed.

(** the statement asked for: a generated-shape move on a [Repr] board keeps the material
    of both sides legal *)
Theorem legal_material_apply m b b1 :
  Repr b -> gen_shape b m -> apply_move T m b = Ok b1 ->
  legal_material (white b) -> legal_material (black b) ->
  legal_material (white b1) /\ legal_material (black b1).
Proof.
  intros R S H LW LB.
  pose proof (apply_Repr T m b b1 R S H) as R1.
  pose proof (Repr_WF b R) as W. pose proof (Repr_WF b1 R1) as W1.
  destruct S as (_ & Lt & _).
  destruct R1 as (_ & K1 & K2 & _).
  apply (popcount_king_iff b1 White W1) in K1. apply (popcount_king_iff b1 Black W1) in K2.
  cbn [pieces] in K1, K2.
  apply legal_material_msur in LW. apply legal_material_msur in LB.
  destruct LW as [_ SW]. destruct LB as [_ SB].
  pose proof (surplus_apply m b b1 White W Lt H) as MW.
  pose proof (surplus_apply m b b1 Black W Lt H) as MB.
  cbn [pieces] in MW, MB.
  split; apply legal_material_msur.
  - exact (conj K1 (N.le_trans _ _ _ MW SW)).
  - exact (conj K2 (N.le_trans _ _ _ MB SB)).
Qed.

(* ------------------------------------------------------------------ *)
(** * the key invariant: side to move, one move *)

Lemma KeyInv_toggle_turn b : KeyInv T b -> KeyInv T (toggle_turn b).
Proof.
  intro K. apply KeyInv_iff. apply KeyInv_iff in K.
  rewrite (bget_same_sets b (toggle_turn b) eq_refl eq_refl). exact K.
Qed.

(* restatement of ZobristProofs.apply_move_KeyInv: it needs WF b and mv_to m < 64 *)
Lemma KeyInv_apply m b b1 : WF b -> mv_to m < 64 -> apply_move T m b = Ok b1 ->
  KeyInv T b -> KeyInv T b1.
Proof. intros W Lt H K. apply (apply_move_KeyInv T m b b1 H W Lt K). Qed.

(* under the hypotheses of legal_material_apply *)
Lemma KeyInv_apply_gen m b b1 : Repr b -> gen_shape b m -> apply_move T m b = Ok b1 ->
  KeyInv T b -> KeyInv T b1.
Proof.
  intros R S H K. destruct S as (_ & Lt & _).
  apply (KeyInv_apply m b b1 (Repr_WF b R) Lt H K).
Qed.

End Apply.

(* ------------------------------------------------------------------ *)
(** * non-vacuity *)

(* the hypotheses hold on InvProofs.inv_demo for a capture-promotion, the en-passant
   capture, a castle and a quiet rook move; every move applies *)
Example legal_material_apply_hyps :
  Repr inv_demo
  /\ legal_material (white inv_demo) /\ legal_material (black inv_demo)
  /\ Forall (fun m => gen_shape inv_demo m /\ exists b1, apply_move example_table m inv_demo = Ok b1)
       [Promo 49 56 (Some Knight) Queen; EnPassant 36 43; Castle 4 6; Std 7 63 None].
Proof.
  split; [exact Repr_demo|].
  split; [apply legal_materialb_spec; vm_compute; reflexivity|].
  split; [apply legal_materialb_spec; vm_compute; reflexivity|].
  repeat (apply Forall_cons; [split; [apply gen_shapeb_spec; vm_compute; reflexivity|eexists; vm_compute; reflexivity]|]).
  apply Forall_nil.
Qed.

(* the theorem applied *)
Example legal_material_apply_demo b1 :
  apply_move example_table (Promo 49 56 (Some Knight) Queen) inv_demo = Ok b1 ->
  legal_material (white b1) /\ legal_material (black b1).
Proof.
  intro H. destruct legal_material_apply_hyps as (R & LW & LB & F).
  inversion F as [|m l [S _] _]. subst.
  apply (legal_material_apply example_table _ _ _ R S H LW LB).
Qed.

(* ... and the executable check agrees, move by move; the promotion does change the
   counts (a white pawn fewer, a white queen more, a black knight fewer) *)
Example legal_materialb_demo :
  forallb (fun m => match apply_move example_table m inv_demo with
                    | Ok b1 => legal_materialb (white b1) && legal_materialb (black b1)
                    | _ => false end)
    [Promo 49 56 (Some Knight) Queen; EnPassant 36 43; Castle 4 6; Std 7 63 None] = true
  /\ match apply_move example_table (Promo 49 56 (Some Knight) Queen) inv_demo with
     | Ok b1 => popcount (pw (white b1)) + 1 = popcount (pw (white inv_demo))
                /\ popcount (qn (white b1)) = popcount (qn (white inv_demo)) + 1
                /\ popcount (kn (black b1)) + 1 = popcount (kn (black inv_demo))
     | _ => False end
  /\ match apply_move example_table (EnPassant 36 43) inv_demo with
     | Ok b1 => popcount (pw (black b1)) + 1 = popcount (pw (black inv_demo))
     | _ => False end.
Proof. vm_compute. split; [reflexivity|]. split; [|reflexivity]. split; [reflexivity|]. split; reflexivity. Qed.

Print Assumptions surplus_apply.
Print Assumptions legal_material_apply.
Print Assumptions KeyInv_toggle_turn.
Print Assumptions KeyInv_apply.
