(* AttackProofs.v — property C06, first part: the engine's bitboard attack map
   (MoveGen.attack_targets, src/move_generator/targets.rs generate_attack_targets) refines the
   coordinate definition of "square attacked by colour c" of the rules (Rules.attacked_by), and
   evaluate::player_is_in_check (MoveGen.in_check) is exactly Rules.king_attacked.

   Layout
     0. folds / existsb plumbing
     1. the engine's map, per piece class, in "from the attacker" coordinate form
     2. the rules' predicate, per piece class, in the same form (looking back from the target)
     3. attack_targets_spec / attack_targets_own_squares
     4. in_check_exact
     5. any slider lookup that agrees with the ray walk on squares < 64 (magic tables, C11)
     6. examples (non-vacuity)
   Proofs only; no axioms. *)
From Coq Require Import Lia ZArith NArith List Bool.
From ChessV Require Import Abs Rules.
From ChessV Require Import BitsLemmas BoardLemmas.
From ChessV Require GeomProofs MagicProofs WfReflect.
Import ListNotations.
Open Scope N_scope.

#[local] Arguments N.add : simpl never.
#[local] Arguments N.sub : simpl never.
#[local] Arguments N.mul : simpl never.
#[local] Arguments N.eqb : simpl never.
#[local] Arguments N.ltb : simpl never.
#[local] Arguments N.leb : simpl never.
#[local] Arguments N.shiftl : simpl never.
#[local] Arguments N.shiftr : simpl never.
#[local] Arguments N.land : simpl never.
#[local] Arguments N.lor : simpl never.
#[local] Arguments N.lxor : simpl never.
#[local] Arguments N.ldiff : simpl never.
#[local] Arguments N.testbit : simpl never.
#[local] Arguments Z.add : simpl never.
#[local] Arguments Z.sub : simpl never.
#[local] Arguments Z.mul : simpl never.
#[local] Arguments Z.opp : simpl never.

(* ------------------------------------------------------------------ *)
(** * 0. plumbing *)

Lemma mem_fold_lor_snd (j : N) : forall (l : ptl) a,
  mem j (fold_left (fun acc pt => N.lor acc (snd pt)) l a)
  = mem j a || existsb (fun pt => mem j (snd pt)) l.
Proof.
  induction l as [|pt l IH]; intro a; cbn [fold_left existsb].
  - rewrite orb_false_r. reflexivity.
  - rewrite IH, mem_lor, orb_assoc. reflexivity.
Qed.

Lemma existsb_flat_map {A B} (f : B -> bool) (g : A -> list B) : forall l,
  existsb f (flat_map g l) = existsb (fun a => existsb f (g a)) l.
Proof.
  induction l as [|a l IH]; cbn [flat_map existsb]; [reflexivity|].
  rewrite existsb_app, IH. reflexivity.
Qed.

(* the union of a PieceTargetList *)
Definition union_of (l : ptl) : N := fold_left (fun acc pt => N.lor acc (snd pt)) l 0.

Lemma mem_union_of j l : mem j (union_of l) = existsb (fun pt => mem j (snd pt)) l.
Proof. unfold union_of. rewrite mem_fold_lor_snd, mem_0. reflexivity. Qed.

Lemma union_of_app l1 l2 : union_of (l1 ++ l2) = N.lor (union_of l1) (union_of l2).
Proof.
  apply bb_ext. intro j. rewrite mem_lor, !mem_union_of, existsb_app. reflexivity.
Qed.

Lemma ordered_squares_iff s : In s ordered_squares <-> s < 64.
Proof.
  split; [apply MagicProofs.ordered_squares_lt64 | apply MagicProofs.ordered_squares_complete].
Qed.

Lemma at_abstract b i : i < 64 -> at_ (abstract b) i = bget b i.
Proof. intro H. unfold at_, abstract. cbn [cells]. apply nth_map_squares. exact H. Qed.

Lemma atc_abstract b f r : on_board f r = true -> atc (abstract b) f r = bget b (sq f r).
Proof.
  intro H. unfold atc. rewrite H. apply at_abstract. apply (GeomProofs.sq_on_board f r H).
Qed.

Lemma atc_off b f r : on_board f r = false -> atc (abstract b) f r = None.
Proof. intro H. unfold atc. rewrite H. reflexivity. Qed.

Lemma is_pc_iff (x : cell) p c : is_pc x p c = true <-> x = Some (p, c).
Proof. unfold is_pc. apply opt_pc_eqb_eq. Qed.

(* a square index below 64 is determined by its coordinates *)
Lemma coords_sq j f r : j < 64 -> fileZ j = f -> rankZ j = r -> on_board f r = true /\ j = sq f r.
Proof.
  intros Hj <- <-. split; [apply GeomProofs.file_rank_bounds, Hj|].
  symmetry. apply GeomProofs.sq_file_rank.
Qed.

Lemma coords_eq i j : fileZ i = fileZ j -> rankZ i = rankZ j -> i = j.
Proof.
  intros Hf Hr. rewrite <- (GeomProofs.sq_file_rank i), <- (GeomProofs.sq_file_rank j), Hf, Hr.
  reflexivity.
Qed.

(* ------------------------------------------------------------------ *)
(** * 1. the engine's per-class maps, from the attacker's side *)

(** j is a step target of a piece (P, c) standing on i, with offset in [offs] *)
Definition step_att (b : board) (c : color) (P : piece) (offs : list (Z * Z)) (j : N) : Prop :=
  exists i df dr, bget b i = Some (P, c) /\ In (df, dr) offs
                  /\ fileZ j = (fileZ i + df)%Z /\ rankZ j = (rankZ i + dr)%Z.

(** j lies on a ray (direction (dr, df) in [deltas], rank first as in Rays.v) from a piece
    (P, c) on i, and every square strictly between is empty *)
Definition slide_att (b : board) (c : color) (P : piece) (deltas : list (Z * Z)) (j : N) : Prop :=
  exists i dr df n, bget b i = Some (P, c) /\ In (dr, df) deltas /\ (0 < n)%Z
     /\ fileZ j = (fileZ i + n * df)%Z /\ rankZ j = (rankZ i + n * dr)%Z
     /\ forall k, (0 < k < n)%Z -> bget b (sq (fileZ i + k * df) (rankZ i + k * dr)) = None.

Definition pawn_att_offsets (c : color) : list (Z * Z) := [(1, forward c); (-1, forward c)]%Z.

(* on-board target with given coordinates <-> coordinates of j *)
Lemma target_coords i j df dr : j < 64 ->
  (on_board (fileZ i + df) (rankZ i + dr) = true /\ j = sq (fileZ i + df) (rankZ i + dr))
  <-> (fileZ j = (fileZ i + df)%Z /\ rankZ j = (rankZ i + dr)%Z).
Proof.
  intro Hj. split.
  - intros [Hb ->]. destruct (GeomProofs.sq_on_board _ _ Hb) as (_ & Hf & Hr). split; assumption.
  - intros [Hf Hr]. apply coords_sq; assumption.
Qed.

(** pawns (NOT stripped of own-occupied squares) *)
Theorem pawn_attacks_union_mem b c j : WF b -> j < 64 ->
  (mem j (union_of (pawn_attack_targets b c)) = true <-> step_att b c Pawn (pawn_att_offsets c) j).
Proof.
  intros W Hj. rewrite mem_union_of. unfold pawn_attack_targets.
  rewrite existsb_flat_map, existsb_exists. split.
  - intros [x [Hx Hm]]. apply in_squares in Hx.
    destruct (mem x (pw (pieces b c))) eqn:Ep; cbn [existsb snd] in Hm; [|discriminate].
    rewrite orb_false_r in Hm.
    apply (GeomProofs.pawn_attacks_mem c x j Hx) in Hm. destruct Hm as [df [Hdf Ht]].
    apply (target_coords x j df (forward c) Hj) in Ht.
    exists x, df, (forward c). split; [apply (bget_mem b x Pawn c W); exact Ep|].
    split; [|exact Ht]. unfold pawn_att_offsets. cbn [In]. destruct Hdf as [-> | ->]; auto.
  - intros (x & df & dr & Hg & Hin & Ht).
    pose proof (bget_lt64 b x _ W Hg) as Hx.
    exists x. split; [apply in_squares; exact Hx|].
    apply (bget_mem b x Pawn c W) in Hg. cbn [locate] in Hg. rewrite Hg. cbn [existsb snd].
    rewrite orb_false_r. apply (GeomProofs.pawn_attacks_mem c x j Hx).
    unfold pawn_att_offsets in Hin. cbn [In] in Hin.
    destruct Hin as [E|[E|[]]]; injection E as <- <-;
      [exists 1%Z | exists (-1)%Z]; (split; [auto|]); apply (target_coords x j _ _ Hj); exact Ht.
Qed.

(* the same, spelled out *)
Corollary pawn_attacks_union_coords b c j : WF b -> j < 64 ->
  (mem j (union_of (pawn_attack_targets b c)) = true <->
   exists i, bget b i = Some (Pawn, c)
             /\ (fileZ j = fileZ i + 1 \/ fileZ j = fileZ i - 1)%Z
             /\ rankZ j = (rankZ i + forward c)%Z).
Proof.
  intros W Hj. rewrite (pawn_attacks_union_mem b c j W Hj). unfold step_att, pawn_att_offsets. split.
  - intros (i & df & dr & Hg & Hin & Hf & Hr). exists i. split; [exact Hg|].
    cbn [In] in Hin. destruct Hin as [E|[E|[]]]; injection E as <- <-; split; auto.
  - intros (i & Hg & Hf & Hr). destruct Hf as [Hf|Hf].
    + exists i, 1%Z, (forward c). cbn [In]. auto.
    + exists i, (-1)%Z, (forward c). cbn [In]. split; [exact Hg|]. split; [auto|]. split; [lia|exact Hr].
Qed.

(** knights and kings: table lookup, stripped of the mover's own squares *)
Lemma table_union_mem_gen (tbl : N -> N) b c P j :
  mem j (union_of (table_targets tbl b c P)) = true <->
  exists x, x < 64 /\ mem x (locate (pieces b c) P) = true /\ mem j (tbl x) = true
            /\ mem j (occ (pieces b c)) = false.
Proof.
  rewrite mem_union_of. unfold table_targets. rewrite existsb_flat_map, existsb_exists. split.
  - intros [x [Hx Hm]]. apply ordered_squares_iff in Hx.
    destruct (mem x (locate (pieces b c) P)) eqn:Ep; [|discriminate].
    destruct (is_empty (andn (tbl x) (occ (pieces b c)))); [discriminate|].
    cbn [existsb snd] in Hm. rewrite orb_false_r, mem_andn in Hm.
    apply andb_true_iff in Hm. destruct Hm as [Ht Ho]. apply negb_true_iff in Ho.
    exists x. auto.
  - intros (x & Hx & Ep & Ht & Ho). exists x. split; [apply ordered_squares_iff; exact Hx|].
    rewrite Ep.
    assert (Hm : mem j (andn (tbl x) (occ (pieces b c))) = true)
      by (rewrite mem_andn, Ht, Ho; reflexivity).
    destruct (is_empty (andn (tbl x) (occ (pieces b c)))) eqn:Ee.
    + apply is_empty_spec in Ee. rewrite Ee, mem_0 in Hm. discriminate.
    + cbn [existsb snd]. rewrite Hm. reflexivity.
Qed.

Theorem knight_union_mem b c j : WF b -> j < 64 ->
  (mem j (union_of (table_targets knight_targets b c Knight)) = true <->
   step_att b c Knight knight_offsets j /\ mem j (occ (pieces b c)) = false).
Proof.
  intros W Hj. rewrite table_union_mem_gen. split.
  - intros (x & Hx & Ep & Ht & Ho). split; [|exact Ho].
    apply (GeomProofs.knight_targets_mem x j Hx) in Ht. destruct Ht as (df & dr & Hin & Hb & He).
    exists x, df, dr. split; [apply (bget_mem b x Knight c W); exact Ep|]. split; [exact Hin|].
    apply (target_coords x j df dr Hj). auto.
  - intros [(x & df & dr & Hg & Hin & Ht) Ho].
    pose proof (bget_lt64 b x _ W Hg) as Hx. exists x. split; [exact Hx|].
    split; [apply (bget_mem b x Knight c W); exact Hg|]. split; [|exact Ho].
    apply (GeomProofs.knight_targets_mem x j Hx). exists df, dr. split; [exact Hin|].
    apply (target_coords x j df dr Hj). exact Ht.
Qed.

Theorem king_union_mem b c j : WF b -> j < 64 ->
  (mem j (union_of (table_targets king_targets b c King)) = true <->
   step_att b c King king_offsets j /\ mem j (occ (pieces b c)) = false).
Proof.
  intros W Hj. rewrite table_union_mem_gen. split.
  - intros (x & Hx & Ep & Ht & Ho). split; [|exact Ho].
    apply (GeomProofs.king_targets_mem x j Hx) in Ht. destruct Ht as (df & dr & Hin & Hb & He).
    exists x, df, dr. split; [apply (bget_mem b x King c W); exact Ep|]. split; [exact Hin|].
    apply (target_coords x j df dr Hj). auto.
  - intros [(x & df & dr & Hg & Hin & Ht) Ho].
    pose proof (bget_lt64 b x _ W Hg) as Hx. exists x. split; [exact Hx|].
    split; [apply (bget_mem b x King c W); exact Hg|]. split; [|exact Ho].
    apply (GeomProofs.king_targets_mem x j Hx). exists df, dr. split; [exact Hin|].
    apply (target_coords x j df dr Hj). exact Ht.
Qed.

(* ------------------------------------------------------------------ *)
(** ** sliders: the ray walk in coordinates *)

Definition unit_dir (a b : Z) : Prop := (-1 <= a <= 1 /\ -1 <= b <= 1 /\ (a <> 0 \/ b <> 0))%Z.
Definition unit_dirs (l : list (Z * Z)) : Prop := forall a b, In (a, b) l -> unit_dir a b.

Lemma unit_dirs_rook : unit_dirs rook_deltas.
Proof.
  intros a b Hin. unfold rook_deltas in Hin. cbn [In] in Hin. unfold unit_dir.
  repeat (destruct Hin as [Hin|Hin]; [injection Hin as <- <-; lia|]). destruct Hin.
Qed.
Lemma unit_dirs_bishop : unit_dirs bishop_deltas.
Proof.
  intros a b Hin. unfold bishop_deltas in Hin. cbn [In] in Hin. unfold unit_dir.
  repeat (destruct Hin as [Hin|Hin]; [injection Hin as <- <-; lia|]). destruct Hin.
Qed.
Lemma unit_dirs_ortho : unit_dirs ortho_dirs.
Proof.
  intros a b Hin. unfold ortho_dirs in Hin. cbn [In] in Hin. unfold unit_dir.
  repeat (destruct Hin as [Hin|Hin]; [injection Hin as <- <-; lia|]). destruct Hin.
Qed.
Lemma unit_dirs_diag : unit_dirs diag_dirs.
Proof.
  intros a b Hin. unfold diag_dirs in Hin. cbn [In] in Hin. unfold unit_dir.
  repeat (destruct Hin as [Hin|Hin]; [injection Hin as <- <-; lia|]). destruct Hin.
Qed.

(* the engine's (rank, file) deltas and the rules' (file, rank) directions are each other's
   opposites, as sets *)
Lemma rook_to_ortho dr df : In (dr, df) rook_deltas -> In ((- df)%Z, (- dr)%Z) ortho_dirs.
Proof.
  intro Hin. unfold rook_deltas in Hin. cbn [In] in Hin. unfold ortho_dirs.
  repeat (destruct Hin as [Hin|Hin]; [injection Hin as <- <-; vm_compute; tauto|]). destruct Hin.
Qed.
Lemma ortho_to_rook df dr : In (df, dr) ortho_dirs -> In ((- dr)%Z, (- df)%Z) rook_deltas.
Proof.
  intro Hin. unfold ortho_dirs in Hin. cbn [In] in Hin. unfold rook_deltas.
  repeat (destruct Hin as [Hin|Hin]; [injection Hin as <- <-; vm_compute; tauto|]). destruct Hin.
Qed.
Lemma bishop_to_diag dr df : In (dr, df) bishop_deltas -> In ((- df)%Z, (- dr)%Z) diag_dirs.
Proof.
  intro Hin. unfold bishop_deltas in Hin. cbn [In] in Hin. unfold diag_dirs.
  repeat (destruct Hin as [Hin|Hin]; [injection Hin as <- <-; vm_compute; tauto|]). destruct Hin.
Qed.
Lemma diag_to_bishop df dr : In (df, dr) diag_dirs -> In ((- dr)%Z, (- df)%Z) bishop_deltas.
Proof.
  intro Hin. unfold diag_dirs in Hin. cbn [In] in Hin. unfold bishop_deltas.
  repeat (destruct Hin as [Hin|Hin]; [injection Hin as <- <-; vm_compute; tauto|]). destruct Hin.
Qed.

(* the squares between two on-board squares of a line are on the board; a line has at most
   7 steps *)
Lemma between_on_board f r df dr n k : unit_dir dr df ->
  on_board f r = true -> on_board (f + n * df) (r + n * dr) = true -> (0 <= k <= n)%Z ->
  on_board (f + k * df) (r + k * dr) = true /\ (n <= 7)%Z.
Proof.
  intros (Hr & Hf & Hnz) Hb Hbn Hk.
  rewrite GeomProofs.on_board_bounds in *.
  assert (Cf : (df = -1 \/ df = 0 \/ df = 1)%Z) by lia.
  assert (Cr : (dr = -1 \/ dr = 0 \/ dr = 1)%Z) by lia.
  destruct Cf as [-> | [-> | ->]]; destruct Cr as [-> | [-> | ->]]; lia.
Qed.

(* membership in MagicProofs.ray_sq: the n-th square of the ray, all earlier ones empty *)
Lemma ray_sq_mem occ0 dr df j : forall fuel x,
  In j (MagicProofs.ray_sq occ0 fuel x dr df) <->
  exists n, (0 < n <= Z.of_nat fuel)%Z
    /\ on_board (fileZ x + n * df) (rankZ x + n * dr) = true
    /\ j = sq (fileZ x + n * df) (rankZ x + n * dr)
    /\ forall k, (0 < k < n)%Z ->
         on_board (fileZ x + k * df) (rankZ x + k * dr) = true
         /\ mem (sq (fileZ x + k * df) (rankZ x + k * dr)) occ0 = false.
Proof.
  induction fuel as [|fuel IH]; intro x; cbn [MagicProofs.ray_sq].
  - split; [intros []|]. intros (n & Hn & _). lia.
  - rewrite GeomProofs.try_offset_coord.
    destruct (on_board (fileZ x + df) (rankZ x + dr)) eqn:Eb.
    + destruct (GeomProofs.sq_on_board _ _ Eb) as (Hy & Hfy & Hry).
      set (y := sq (fileZ x + df) (rankZ x + dr)) in *.
      assert (Ef : forall m, (fileZ y + m * df = fileZ x + (m + 1) * df)%Z) by (intro m; rewrite Hfy; lia).
      assert (Er : forall m, (rankZ y + m * dr = rankZ x + (m + 1) * dr)%Z) by (intro m; rewrite Hry; lia).
      assert (Hfirst : In j [y] \/ j = y ->
                exists n, (0 < n <= Z.of_nat (S fuel))%Z
                  /\ on_board (fileZ x + n * df) (rankZ x + n * dr) = true
                  /\ j = sq (fileZ x + n * df) (rankZ x + n * dr)
                  /\ forall k, (0 < k < n)%Z ->
                       on_board (fileZ x + k * df) (rankZ x + k * dr) = true
                       /\ mem (sq (fileZ x + k * df) (rankZ x + k * dr)) occ0 = false).
      { intros Hjy. assert (j = y) as -> by (destruct Hjy as [[E|[]]|E]; congruence).
        exists 1%Z. split; [lia|]. rewrite !Z.mul_1_l. split; [exact Eb|]. split; [reflexivity|].
        intros k Hk. lia. }
      destruct (mem y occ0) eqn:Em.
      * split; [intro Hin; apply Hfirst; left; exact Hin|].
        intros (n & Hn & Hb & -> & Hk). left.
        destruct (Z.eq_dec n 1) as [->|Hne]; [rewrite !Z.mul_1_l; reflexivity|].
        exfalso. destruct (Hk 1%Z ltac:(lia)) as [_ Hm]. rewrite !Z.mul_1_l in Hm.
        fold y in Hm. congruence.
      * split.
        -- intros [<-|Hin]; [apply Hfirst; right; reflexivity|].
           apply IH in Hin. destruct Hin as (n & Hn & Hb & -> & Hk).
           exists (n + 1)%Z. rewrite <- Ef, <- Er. split; [lia|]. split; [exact Hb|].
           split; [reflexivity|]. intros k Hk'.
           destruct (Z.eq_dec k 1) as [->|Hne].
           ++ rewrite !Z.mul_1_l. fold y. auto.
           ++ specialize (Hk (k - 1)%Z ltac:(lia)). rewrite Ef, Er in Hk.
              replace (k - 1 + 1)%Z with k in Hk by lia. exact Hk.
        -- intros (n & Hn & Hb & -> & Hk).
           destruct (Z.eq_dec n 1) as [->|Hne]; [left; rewrite !Z.mul_1_l; reflexivity|].
           right. apply IH. exists (n - 1)%Z. rewrite !Ef, !Er.
           replace (n - 1 + 1)%Z with n by lia. split; [lia|]. split; [exact Hb|].
           split; [reflexivity|]. intros k Hk'. rewrite Ef, Er. apply Hk. lia.
    + split; [intros []|]. intros (n & Hn & Hb & _ & Hk). exfalso.
      destruct (Z.eq_dec n 1) as [->|Hne].
      * rewrite !Z.mul_1_l in Hb. congruence.
      * destruct (Hk 1%Z ltac:(lia)) as [Hb1 _]. rewrite !Z.mul_1_l in Hb1. congruence.
Qed.

Lemma existsb_eqb_In t l : existsb (N.eqb t) l = true <-> In t l.
Proof.
  rewrite existsb_exists. split.
  - intros [x [Hin He]]. apply N.eqb_eq in He. subst. exact Hin.
  - intro Hin. exists t. split; [exact Hin|apply N.eqb_refl].
Qed.

(* the reference slider lookup, by rays over the WHOLE occupancy (the slider's own square
   is not on its rays) *)
Lemma ref_rays deltas x occ0 t : MagicProofs.deltas_ok deltas = true -> x < 64 ->
  (mem t (slider_moves deltas x (andn occ0 (bit x))) = true <->
   exists d, In d deltas /\ In t (MagicProofs.ray_sq occ0 8 x (fst d) (snd d))).
Proof.
  intros Hd Hx.
  rewrite MagicProofs.slider_moves_rays
    by (rewrite mem_andn, mem_bit_same; apply andb_false_r).
  pose proof (MagicProofs.deltas_ok_square deltas x Hd Hx) as Hok.
  rewrite existsb_exists. split.
  - intros [d [Hin He]]. exists d. split; [exact Hin|].
    rewrite (MagicProofs.ray_sq_own_square deltas x Hok occ0 d Hin) in He.
    apply existsb_eqb_In. exact He.
  - intros [d [Hin He]]. exists d. split; [exact Hin|].
    rewrite (MagicProofs.ray_sq_own_square deltas x Hok occ0 d Hin).
    apply existsb_eqb_In. exact He.
Qed.

(* one slider on x: its looked-up target set in coordinates *)
Lemma ref_targets_mem deltas b x j :
  MagicProofs.deltas_ok deltas = true -> unit_dirs deltas -> WF b -> x < 64 -> j < 64 ->
  (mem j (slider_moves deltas x (andn (occupied b) (bit x))) = true <->
   exists dr df n, In (dr, df) deltas /\ (0 < n)%Z
     /\ fileZ j = (fileZ x + n * df)%Z /\ rankZ j = (rankZ x + n * dr)%Z
     /\ forall k, (0 < k < n)%Z -> bget b (sq (fileZ x + k * df) (rankZ x + k * dr)) = None).
Proof.
  intros Hd Hu W Hx Hj. rewrite (ref_rays deltas x (occupied b) j Hd Hx). split.
  - intros [[dr df] [Hin Hr]]. cbn [fst snd] in Hr. apply ray_sq_mem in Hr.
    destruct Hr as (n & Hn & Hb & -> & Hk).
    destruct (GeomProofs.sq_on_board _ _ Hb) as (_ & Hf & Hr).
    exists dr, df, n. split; [exact Hin|]. split; [lia|]. split; [exact Hf|]. split; [exact Hr|].
    intros k Hk'. apply (bget_none_iff b _ W). apply Hk. exact Hk'.
  - intros (dr & df & n & Hin & Hn & Hf & Hr & Hk).
    exists (dr, df). split; [exact Hin|]. cbn [fst snd]. apply ray_sq_mem.
    pose proof (GeomProofs.file_rank_bounds x Hx) as Bx.
    pose proof (GeomProofs.file_rank_bounds j Hj) as Bj. rewrite Hf, Hr in Bj.
    pose proof (Hu dr df Hin) as U.
    exists n. split.
    + destruct (between_on_board _ _ df dr n n U Bx Bj ltac:(lia)) as [_ Hle].
      change (Z.of_nat 8) with 8%Z. lia.
    + split; [exact Bj|]. split; [apply coords_sq; assumption|].
      intros k Hk'. split.
      * apply (between_on_board _ _ df dr n k U Bx Bj). lia.
      * apply (bget_none_iff b _ W). apply Hk. exact Hk'.
Qed.

Lemma strip_mem j own t : mem j (N.lxor t (N.land own t)) = mem j t && negb (mem j own).
Proof.
  rewrite mem_lxor, mem_land. destruct (mem j t), (mem j own); reflexivity.
Qed.

Definition slider_att (b : board) (c : color) (j : N) : Prop :=
  slide_att b c Rook rook_deltas j \/ slide_att b c Queen rook_deltas j
  \/ slide_att b c Bishop bishop_deltas j \/ slide_att b c Queen bishop_deltas j.

(* ------------------------------------------------------------------ *)
(** From here on the slider lookups are ANY functions that agree with the ray-walk
    reference on squares below 64: [rook_ref]/[bishop_ref] themselves, or the magic tables
    of every valid build (C11, MagicProofs.rook_lookup_exact / bishop_lookup_exact). *)
Section Sliders.
Variables rook_t bishop_t : N -> N -> N.
Hypothesis rook_t_ref : forall x o, x < 64 -> rook_t x o = rook_ref x o.
Hypothesis bishop_t_ref : forall x o, x < 64 -> bishop_t x o = bishop_ref x o.

Lemma sliding_union_mem_raw b c j :
  mem j (union_of (sliding_targets rook_t bishop_t b c)) = true <->
  exists x, x < 64 /\ mem j (occ (pieces b c)) = false /\
    ((pget (pieces b c) x = Some Rook /\ mem j (rook_t x (occupied b)) = true)
     \/ (pget (pieces b c) x = Some Bishop /\ mem j (bishop_t x (occupied b)) = true)
     \/ (pget (pieces b c) x = Some Queen
         /\ (mem j (rook_t x (occupied b)) = true \/ mem j (bishop_t x (occupied b)) = true))).
Proof.
  rewrite mem_union_of. unfold sliding_targets. rewrite existsb_flat_map, existsb_exists. split.
  - intros [x [Hx Hm]]. apply in_squares in Hx. exists x. split; [exact Hx|].
    destruct (pget (pieces b c) x) as [[]|] eqn:Eg; cbn [existsb snd] in Hm; try discriminate;
      rewrite orb_false_r, strip_mem in Hm; apply andb_true_iff in Hm; destruct Hm as [Ht Ho];
      apply negb_true_iff in Ho; (split; [exact Ho|]).
    + right; left. auto.
    + left. auto.
    + right; right. split; [reflexivity|]. rewrite mem_lor in Ht. apply orb_true_iff in Ht. exact Ht.
  - intros (x & Hx & Ho & Hc). exists x. split; [apply in_squares; exact Hx|].
    destruct Hc as [[Eg Ht]|[[Eg Ht]|[Eg Ht]]]; rewrite Eg; cbn [existsb snd];
      rewrite orb_false_r, strip_mem, Ho; cbn [negb]; rewrite andb_true_r; [exact Ht|exact Ht|].
    rewrite mem_lor. apply orb_true_iff. exact Ht.
Qed.

(** sliders: on a rook/bishop ray from the piece, nothing strictly between, own squares
    stripped *)
Theorem sliding_union_mem b c j : WF b -> j < 64 ->
  (mem j (union_of (sliding_targets rook_t bishop_t b c)) = true <->
   slider_att b c j /\ mem j (occ (pieces b c)) = false).
Proof.
  intros W Hj. rewrite sliding_union_mem_raw.
  assert (Rk : forall x P, x < 64 -> bget b x = Some (P, c) ->
            (mem j (rook_t x (occupied b)) = true <->
             exists dr df n, In (dr, df) rook_deltas /\ (0 < n)%Z
               /\ fileZ j = (fileZ x + n * df)%Z /\ rankZ j = (rankZ x + n * dr)%Z
               /\ forall k, (0 < k < n)%Z -> bget b (sq (fileZ x + k * df) (rankZ x + k * dr)) = None)).
  { intros x P Hx _. rewrite rook_t_ref by exact Hx. unfold rook_ref.
    apply ref_targets_mem; auto using MagicProofs.rook_deltas_ok, unit_dirs_rook. }
  assert (Bs : forall x P, x < 64 -> bget b x = Some (P, c) ->
            (mem j (bishop_t x (occupied b)) = true <->
             exists dr df n, In (dr, df) bishop_deltas /\ (0 < n)%Z
               /\ fileZ j = (fileZ x + n * df)%Z /\ rankZ j = (rankZ x + n * dr)%Z
               /\ forall k, (0 < k < n)%Z -> bget b (sq (fileZ x + k * df) (rankZ x + k * dr)) = None)).
  { intros x P Hx _. rewrite bishop_t_ref by exact Hx. unfold bishop_ref.
    apply ref_targets_mem; auto using MagicProofs.bishop_deltas_ok, unit_dirs_bishop. }
  split.
  - intros (x & Hx & Ho & Hc). split; [|exact Ho]. unfold slider_att, slide_att.
    destruct Hc as [[Eg Ht]|[[Eg Ht]|[Eg [Ht|Ht]]]];
      apply (bget_some_iff b x _ c W) in Eg.
    + apply (Rk x Rook Hx Eg) in Ht. destruct Ht as (dr & df & n & Hr). left.
      exists x, dr, df, n. tauto.
    + apply (Bs x Bishop Hx Eg) in Ht. destruct Ht as (dr & df & n & Hr). right; right; left.
      exists x, dr, df, n. tauto.
    + apply (Rk x Queen Hx Eg) in Ht. destruct Ht as (dr & df & n & Hr). right; left.
      exists x, dr, df, n. tauto.
    + apply (Bs x Queen Hx Eg) in Ht. destruct Ht as (dr & df & n & Hr). right; right; right.
      exists x, dr, df, n. tauto.
  - intros [Ha Ho]. unfold slider_att, slide_att in Ha.
    destruct Ha as [Ha|[Ha|[Ha|Ha]]]; destruct Ha as (x & dr & df & n & Eg & Hr);
      pose proof (bget_lt64 b x _ W Eg) as Hx; exists x; (split; [exact Hx|]); (split; [exact Ho|]);
      pose proof Eg as Eg'; apply (bget_some_iff b x _ c W) in Eg'.
    + left. split; [exact Eg'|]. apply (Rk x Rook Hx Eg). exists dr, df, n. exact Hr.
    + right; right. split; [exact Eg'|]. left. apply (Rk x Queen Hx Eg). exists dr, df, n. exact Hr.
    + right; left. split; [exact Eg'|]. apply (Bs x Bishop Hx Eg). exists dr, df, n. exact Hr.
    + right; right. split; [exact Eg'|]. right. apply (Bs x Queen Hx Eg). exists dr, df, n. exact Hr.
Qed.

End Sliders.

(* ------------------------------------------------------------------ *)
(** * 2. the rules' predicate, looking back from the target square *)

(** a step attacker found by looking from j along the offsets *)
Lemma rules_step_mem b c P offs j : WF b -> j < 64 ->
  (existsb (fun o => is_pc (atc (abstract b) (fileZ j + fst o) (rankZ j + snd o)) P c) offs = true <->
   exists i df dr, bget b i = Some (P, c) /\ In (df, dr) offs
                   /\ fileZ i = (fileZ j + df)%Z /\ rankZ i = (rankZ j + dr)%Z).
Proof.
  intros W Hj. rewrite existsb_exists. split.
  - intros [[df dr] [Hin Hp]]. cbn [fst snd] in Hp. apply is_pc_iff in Hp.
    destruct (on_board (fileZ j + df) (rankZ j + dr)) eqn:Eb.
    + rewrite (atc_abstract b _ _ Eb) in Hp.
      destruct (GeomProofs.sq_on_board _ _ Eb) as (_ & Hf & Hr).
      exists (sq (fileZ j + df) (rankZ j + dr)), df, dr. auto.
    + rewrite (atc_off b _ _ Eb) in Hp. discriminate.
  - intros (i & df & dr & Hg & Hin & Hf & Hr). exists (df, dr). split; [exact Hin|].
    cbn [fst snd]. apply is_pc_iff.
    pose proof (bget_lt64 b i _ W Hg) as Hi.
    destruct (coords_sq i _ _ Hi Hf Hr) as [Eb Ei].
    rewrite (atc_abstract b _ _ Eb), <- Ei. exact Hg.
Qed.

(** step attackers are symmetric: looking from j with the negated offsets *)
Lemma step_att_sym b c P offs offs' j : WF b -> j < 64 ->
  (forall df dr, In (df, dr) offs -> In ((- df)%Z, (- dr)%Z) offs') ->
  (forall df dr, In (df, dr) offs' -> In ((- df)%Z, (- dr)%Z) offs) ->
  (step_att b c P offs j <->
   existsb (fun o => is_pc (atc (abstract b) (fileZ j + fst o) (rankZ j + snd o)) P c) offs' = true).
Proof.
  intros W Hj S1 S2. rewrite (rules_step_mem b c P offs' j W Hj). unfold step_att. split.
  - intros (i & df & dr & Hg & Hin & Hf & Hr). exists i, (- df)%Z, (- dr)%Z.
    split; [exact Hg|]. split; [apply S1; exact Hin|]. lia.
  - intros (i & df & dr & Hg & Hin & Hf & Hr). exists i, (- df)%Z, (- dr)%Z.
    split; [exact Hg|]. split; [apply S2; exact Hin|]. lia.
Qed.

Lemma knight_offsets_sym df dr : In (df, dr) knight_offsets -> In ((- df)%Z, (- dr)%Z) knight_offsets.
Proof.
  intro Hin. unfold knight_offsets in Hin. cbn [In] in Hin. unfold knight_offsets.
  repeat (destruct Hin as [Hin|Hin]; [injection Hin as <- <-; vm_compute; tauto|]). destruct Hin.
Qed.
Lemma king_offsets_sym df dr : In (df, dr) king_offsets -> In ((- df)%Z, (- dr)%Z) king_offsets.
Proof.
  intro Hin. unfold king_offsets in Hin. cbn [In] in Hin. unfold king_offsets.
  repeat (destruct Hin as [Hin|Hin]; [injection Hin as <- <-; vm_compute; tauto|]). destruct Hin.
Qed.

(* the offsets at which the rules look for an attacking pawn of colour c *)
Definition pawn_look_offsets (c : color) : list (Z * Z) := [(1, - forward c); (-1, - forward c)]%Z.

Lemma pawn_offsets_sym1 c df dr : In (df, dr) (pawn_att_offsets c) -> In ((- df)%Z, (- dr)%Z) (pawn_look_offsets c).
Proof.
  unfold pawn_att_offsets, pawn_look_offsets. cbn [In].
  intros [E|[E|[]]]; injection E as <- <-; [right; left|left]; reflexivity.
Qed.
Lemma pawn_offsets_sym2 c df dr : In (df, dr) (pawn_look_offsets c) -> In ((- df)%Z, (- dr)%Z) (pawn_att_offsets c).
Proof.
  unfold pawn_att_offsets, pawn_look_offsets. cbn [In].
  intros [E|[E|[]]]; injection E as <- <-; rewrite Z.opp_involutive; [right; left|left]; reflexivity.
Qed.

Lemma rules_pawn_form p c f r :
  existsb (fun df => is_pc (atc p (f + df) (r - forward c)) Pawn c) [1; -1]%Z
  = existsb (fun o => is_pc (atc p (f + fst o) (r + snd o)) Pawn c) (pawn_look_offsets c).
Proof. reflexivity. Qed.

(** ** rays *)

(* ray_hit as a direct recursion *)
Fixpoint hit (p : position) (fuel : nat) (f r df dr : Z) : cell :=
  match fuel with
  | O => None
  | S k =>
      let f' := (f + df)%Z in
      let r' := (r + dr)%Z in
      if on_board f' r' then
        match atc p f' r' with
        | None => hit p k f' r' df dr
        | Some pc => Some pc
        end
      else None
  end.

Lemma ray_last_hit p df dr : forall fuel f r,
  match rev (ray p fuel f r df dr) with [] => None | (f', r') :: _ => atc p f' r' end
  = hit p fuel f r df dr.
Proof.
  induction fuel as [|k IH]; intros f r; cbn [ray hit]; [reflexivity|].
  destruct (on_board (f + df) (r + dr)); [|reflexivity].
  destruct (atc p (f + df) (r + dr)) as [pc|] eqn:Ea.
  - cbn [rev app]. exact Ea.
  - cbn [rev]. rewrite <- IH.
    destruct (rev (ray p k (f + df) (r + dr) df dr)) as [|[a b0] m]; cbn [app]; [exact Ea|reflexivity].
Qed.

Lemma ray_hit_hit p f r df dr : ray_hit p f r df dr = hit p 8 f r df dr.
Proof. unfold ray_hit. apply ray_last_hit. Qed.

Lemma hit_some b df dr pc : forall fuel f r,
  hit (abstract b) fuel f r df dr = Some pc <->
  exists n, (0 < n <= Z.of_nat fuel)%Z
    /\ on_board (f + n * df) (r + n * dr) = true
    /\ bget b (sq (f + n * df) (r + n * dr)) = Some pc
    /\ forall k, (0 < k < n)%Z ->
         on_board (f + k * df) (r + k * dr) = true
         /\ bget b (sq (f + k * df) (r + k * dr)) = None.
Proof.
  induction fuel as [|fuel IH]; intros f r; cbn [hit].
  - split; [discriminate|]. intros (n & Hn & _). lia.
  - assert (Ef : forall m, (f + df + m * df = f + (m + 1) * df)%Z) by (intro m; lia).
    assert (Er : forall m, (r + dr + m * dr = r + (m + 1) * dr)%Z) by (intro m; lia).
    destruct (on_board (f + df) (r + dr)) eqn:Eb.
    + rewrite (atc_abstract b _ _ Eb).
      destruct (bget b (sq (f + df) (r + dr))) as [pc'|] eqn:Eg.
      * split.
        -- intro E. injection E as <-. exists 1%Z. rewrite !Z.mul_1_l.
           split; [lia|]. split; [exact Eb|]. split; [exact Eg|]. intros k Hk. lia.
        -- intros (n & Hn & Hb & Hg & Hk).
           destruct (Z.eq_dec n 1) as [->|Hne].
           ++ rewrite !Z.mul_1_l in Hg. congruence.
           ++ exfalso. destruct (Hk 1%Z ltac:(lia)) as [_ Hm]. rewrite !Z.mul_1_l in Hm. congruence.
      * rewrite IH. split.
        -- intros (n & Hn & Hb & Hg & Hk). exists (n + 1)%Z. rewrite <- Ef, <- Er.
           split; [lia|]. split; [exact Hb|]. split; [exact Hg|]. intros k Hk'.
           destruct (Z.eq_dec k 1) as [->|Hne].
           ++ rewrite !Z.mul_1_l. auto.
           ++ specialize (Hk (k - 1)%Z ltac:(lia)). rewrite Ef, Er in Hk.
              replace (k - 1 + 1)%Z with k in Hk by lia. exact Hk.
        -- intros (n & Hn & Hb & Hg & Hk).
           destruct (Z.eq_dec n 1) as [->|Hne]; [rewrite !Z.mul_1_l in Hg; congruence|].
           exists (n - 1)%Z. rewrite !Ef, !Er. replace (n - 1 + 1)%Z with n by lia.
           split; [lia|]. split; [exact Hb|]. split; [exact Hg|].
           intros k Hk'. rewrite Ef, Er. apply Hk. lia.
    + split; [discriminate|]. intros (n & Hn & Hb & _ & Hk). exfalso.
      destruct (Z.eq_dec n 1) as [->|Hne].
      * rewrite !Z.mul_1_l in Hb. congruence.
      * destruct (Hk 1%Z ltac:(lia)) as [Hb1 _]. rewrite !Z.mul_1_l in Hb1. congruence.
Qed.

(** the first piece met from j in direction (df, dr) is (P, c) on i *)
Lemma ray_hit_att b c P j df dr : WF b -> j < 64 -> unit_dir dr df ->
  (ray_hit (abstract b) (fileZ j) (rankZ j) df dr = Some (P, c) <->
   exists i n, bget b i = Some (P, c) /\ (0 < n)%Z
     /\ fileZ i = (fileZ j + n * df)%Z /\ rankZ i = (rankZ j + n * dr)%Z
     /\ forall k, (0 < k < n)%Z -> bget b (sq (fileZ j + k * df) (rankZ j + k * dr)) = None).
Proof.
  intros W Hj U. rewrite ray_hit_hit, hit_some. split.
  - intros (n & Hn & Hb & Hg & Hk).
    destruct (GeomProofs.sq_on_board _ _ Hb) as (_ & Hf & Hr).
    exists (sq (fileZ j + n * df) (rankZ j + n * dr)), n.
    split; [exact Hg|]. split; [lia|]. split; [exact Hf|]. split; [exact Hr|].
    intros k Hk'. apply Hk. exact Hk'.
  - intros (i & n & Hg & Hn & Hf & Hr & Hk).
    pose proof (bget_lt64 b i _ W Hg) as Hi.
    destruct (coords_sq i _ _ Hi Hf Hr) as [Bi Ei].
    pose proof (GeomProofs.file_rank_bounds j Hj) as Bj.
    exists n. split.
    + destruct (between_on_board _ _ df dr n n U Bj Bi ltac:(lia)) as [_ Hle].
      change (Z.of_nat 8) with 8%Z. lia.
    + split; [exact Bi|]. split; [rewrite <- Ei; exact Hg|].
      intros k Hk'. split; [|apply Hk; exact Hk'].
      apply (between_on_board _ _ df dr n k U Bj Bi). lia.
Qed.

(** the symmetry of "nothing strictly between" *)
Lemma clear_sym b fi ri fj rj df dr df' dr' n :
  (df' = - df)%Z -> (dr' = - dr)%Z -> (fi = fj + n * df)%Z -> (ri = rj + n * dr)%Z ->
  (forall k, (0 < k < n)%Z -> bget b (sq (fj + k * df) (rj + k * dr)) = None) ->
  (forall k, (0 < k < n)%Z -> bget b (sq (fi + k * df') (ri + k * dr')) = None).
Proof.
  intros -> -> -> -> H k Hk.
  replace (fj + n * df + k * - df)%Z with (fj + (n - k) * df)%Z by lia.
  replace (rj + n * dr + k * - dr)%Z with (rj + (n - k) * dr)%Z by lia.
  apply H. lia.
Qed.

(** a slider of kind P attacks j along [deltas] iff looking from j along the opposite
    directions [dirs] the first piece met is (P, c) *)
Lemma slide_att_sym b c P deltas dirs j : WF b -> j < 64 ->
  unit_dirs deltas ->
  (forall dr df, In (dr, df) deltas -> In ((- df)%Z, (- dr)%Z) dirs) ->
  (forall df dr, In (df, dr) dirs -> In ((- dr)%Z, (- df)%Z) deltas) ->
  (slide_att b c P deltas j <->
   exists d, In d dirs /\ ray_hit (abstract b) (fileZ j) (rankZ j) (fst d) (snd d) = Some (P, c)).
Proof.
  intros W Hj U S1 S2. unfold slide_att. split.
  - intros (i & dr & df & n & Hg & Hin & Hn & Hf & Hr & Hk).
    exists ((- df)%Z, (- dr)%Z). split; [apply S1; exact Hin|]. cbn [fst snd].
    assert (U' : unit_dir (- dr) (- df)) by (destruct (U dr df Hin) as (A & B & C); unfold unit_dir; lia).
    apply (ray_hit_att b c P j _ _ W Hj U'). exists i, n.
    split; [exact Hg|]. split; [exact Hn|]. split; [lia|]. split; [lia|].
    apply (clear_sym b (fileZ j) (rankZ j) (fileZ i) (rankZ i) df dr (- df)%Z (- dr)%Z n);
      try reflexivity; assumption.
  - intros [[df dr] [Hin Hh]]. cbn [fst snd] in Hh.
    pose proof (S2 df dr Hin) as Hin'. pose proof (U _ _ Hin') as U'.
    assert (U'' : unit_dir dr df) by (destruct U' as (A & B & C); unfold unit_dir; lia).
    apply (ray_hit_att b c P j _ _ W Hj U'') in Hh.
    destruct Hh as (i & n & Hg & Hn & Hf & Hr & Hk).
    exists i, (- dr)%Z, (- df)%Z, n. split; [exact Hg|]. split; [exact Hin'|].
    split; [exact Hn|]. split; [lia|]. split; [lia|].
    apply (clear_sym b (fileZ i) (rankZ i) (fileZ j) (rankZ j) df dr (- df)%Z (- dr)%Z n);
      try reflexivity; assumption.
Qed.

Lemma rules_slider_mem b c P Q dirs j :
  existsb (fun d => let h := ray_hit (abstract b) (fileZ j) (rankZ j) (fst d) (snd d) in
                    is_pc h P c || is_pc h Q c) dirs = true <->
  (exists d, In d dirs /\ ray_hit (abstract b) (fileZ j) (rankZ j) (fst d) (snd d) = Some (P, c))
  \/ (exists d, In d dirs /\ ray_hit (abstract b) (fileZ j) (rankZ j) (fst d) (snd d) = Some (Q, c)).
Proof.
  rewrite existsb_exists. cbv zeta. split.
  - intros [d [Hin Hp]]. apply orb_true_iff in Hp. destruct Hp as [Hp|Hp]; apply is_pc_iff in Hp;
      [left|right]; exists d; auto.
  - intros [[d [Hin Hp]]|[d [Hin Hp]]]; exists d; (split; [exact Hin|]); rewrite Hp;
      apply orb_true_iff; [left|right]; apply is_pc_iff; reflexivity.
Qed.

(* ------------------------------------------------------------------ *)
(** * 3. the attack map *)

Section AttackMap.
Variables rook_t bishop_t : N -> N -> N.
Hypothesis rook_t_ref : forall x o, x < 64 -> rook_t x o = rook_ref x o.
Hypothesis bishop_t_ref : forall x o, x < 64 -> bishop_t x o = bishop_ref x o.

Lemma attack_targets_union b c :
  attack_targets rook_t bishop_t b c
  = N.lor (union_of (pawn_attack_targets b c))
      (N.lor (union_of (sliding_targets rook_t bishop_t b c))
         (N.lor (union_of (table_targets knight_targets b c Knight))
                (union_of (table_targets king_targets b c King)))).
Proof.
  transitivity (union_of (pawn_attack_targets b c ++ sliding_targets rook_t bishop_t b c
                            ++ table_targets knight_targets b c Knight
                            ++ table_targets king_targets b c King)); [reflexivity|].
  rewrite !union_of_app. reflexivity.
Qed.

(** the engine's map, from the attackers' side: pawn attacks everywhere; sliders, knights and
    king only on squares not occupied by colour c *)
Theorem attack_targets_mem b c j : WF b -> j < 64 ->
  (mem j (attack_targets rook_t bishop_t b c) = true <->
   step_att b c Pawn (pawn_att_offsets c) j
   \/ (mem j (occ (pieces b c)) = false
       /\ (slider_att b c j \/ step_att b c Knight knight_offsets j \/ step_att b c King king_offsets j))).
Proof.
  intros W Hj. rewrite attack_targets_union, !mem_lor, !orb_true_iff.
  rewrite (pawn_attacks_union_mem b c j W Hj),
          (sliding_union_mem rook_t bishop_t rook_t_ref bishop_t_ref b c j W Hj),
          (knight_union_mem b c j W Hj), (king_union_mem b c j W Hj).
  tauto.
Qed.

(** the rules' predicate, from the attackers' side *)
Theorem attacked_by_mem b c j : WF b -> j < 64 ->
  (attacked_by (abstract b) c (fileZ j) (rankZ j) = true <->
   step_att b c Pawn (pawn_att_offsets c) j
   \/ slider_att b c j \/ step_att b c Knight knight_offsets j \/ step_att b c King king_offsets j).
Proof.
  intros W Hj. unfold attacked_by. rewrite !orb_true_iff, rules_pawn_form.
  rewrite <- (step_att_sym b c Pawn (pawn_att_offsets c) (pawn_look_offsets c) j W Hj
                (pawn_offsets_sym1 c) (pawn_offsets_sym2 c)).
  rewrite <- (step_att_sym b c Knight knight_offsets knight_offsets j W Hj
                knight_offsets_sym knight_offsets_sym).
  rewrite <- (step_att_sym b c King king_offsets king_offsets j W Hj
                king_offsets_sym king_offsets_sym).
  rewrite (rules_slider_mem b c Rook Queen ortho_dirs j), (rules_slider_mem b c Bishop Queen diag_dirs j).
  rewrite <- (slide_att_sym b c Rook rook_deltas ortho_dirs j W Hj unit_dirs_rook rook_to_ortho ortho_to_rook).
  rewrite <- (slide_att_sym b c Queen rook_deltas ortho_dirs j W Hj unit_dirs_rook rook_to_ortho ortho_to_rook).
  rewrite <- (slide_att_sym b c Bishop bishop_deltas diag_dirs j W Hj unit_dirs_bishop bishop_to_diag diag_to_bishop).
  rewrite <- (slide_att_sym b c Queen bishop_deltas diag_dirs j W Hj unit_dirs_bishop bishop_to_diag diag_to_bishop).
  unfold slider_att. tauto.
Qed.

(** C06, refinement of the attack map: on every square NOT occupied by colour c the engine's
    bitboard map is the rules' attack predicate *)
Theorem attack_targets_spec b c j : WF b -> j < 64 -> mem j (occ (pieces b c)) = false ->
  mem j (attack_targets rook_t bishop_t b c) = attacked_by (abstract b) c (fileZ j) (rankZ j).
Proof.
  intros W Hj Ho. apply eq_iff_eq_true.
  rewrite (attack_targets_mem b c j W Hj), (attacked_by_mem b c j W Hj). tauto.
Qed.

(** ... and on the squares colour c occupies itself only the pawn "defences" are reported
    (generate_pawn_attack_targets does not strip own squares; the other generators do) *)
Theorem attack_targets_own_squares b c j : WF b -> j < 64 -> mem j (occ (pieces b c)) = true ->
  mem j (attack_targets rook_t bishop_t b c)
  = existsb (fun df => is_pc (atc (abstract b) (fileZ j + df) (rankZ j - forward c)) Pawn c) [1; -1]%Z.
Proof.
  intros W Hj Ho. apply eq_iff_eq_true.
  rewrite (attack_targets_mem b c j W Hj), rules_pawn_form.
  rewrite <- (step_att_sym b c Pawn (pawn_att_offsets c) (pawn_look_offsets c) j W Hj
                (pawn_offsets_sym1 c) (pawn_offsets_sym2 c)).
  rewrite Ho. split; [intros [H|[H _]]; [exact H|discriminate]|tauto].
Qed.

(** the engine never reports more than the rules, on any square *)
Corollary attack_targets_sound b c j : WF b -> j < 64 ->
  mem j (attack_targets rook_t bishop_t b c) = true ->
  attacked_by (abstract b) c (fileZ j) (rankZ j) = true.
Proof.
  intros W Hj H. apply (attacked_by_mem b c j W Hj). apply (attack_targets_mem b c j W Hj) in H. tauto.
Qed.

(* ------------------------------------------------------------------ *)
(** * 4. in check *)

Lemma overlaps_bit k y : overlaps (bit k) y = mem k y.
Proof.
  apply eq_iff_eq_true. rewrite overlaps_spec. split.
  - intros [i [Hi Hy]]. rewrite mem_bit in Hi. apply N.eqb_eq in Hi. subst i. exact Hy.
  - intro Hy. exists k. split; [apply mem_bit_same|exact Hy].
Qed.

Lemma king_square_unique b c k : WF b -> k < 64 -> kg (pieces b c) = bit k ->
  king_square (abstract b) c = Some k.
Proof.
  intros W Hk Hkg. unfold king_square.
  assert (Hking : forall i, i < 64 -> (is_pc (at_ (abstract b) i) King c = true <-> i = k)).
  { intros i Hi. rewrite (at_abstract b i Hi), is_pc_iff, (bget_mem b i King c W). cbn [locate].
    rewrite Hkg, mem_bit. apply N.eqb_eq. }
  destruct (find (fun i => is_pc (at_ (abstract b) i) King c) squares) as [k'|] eqn:Ef.
  - apply find_some in Ef. destruct Ef as [Hin Hp]. apply in_squares in Hin.
    apply (Hking k' Hin) in Hp. subst k'. reflexivity.
  - exfalso. pose proof (find_none _ _ Ef k (proj2 (in_squares k) Hk)) as Hn. cbv beta in Hn.
    rewrite (proj2 (Hking k Hk) eq_refl) in Hn. discriminate.
Qed.

(** C06, first clause: the engine reports colour c as in check exactly when c's king is
    attacked under the rules — for every well-formed board with exactly one king of colour c *)
Theorem in_check_exact b c : WF b -> popcount (kg (pieces b c)) = 1 ->
  in_check rook_t bishop_t b c = king_attacked (abstract b) c.
Proof.
  intros W Hp.
  assert (Fk : fits64 (kg (pieces b c))) by (apply (WFs_fits_locate (pieces b c) King), WF_pieces, W).
  destruct (popcount_1_bit _ Fk Hp) as (k & Hk & Hkg).
  unfold in_check, king_attacked. rewrite (king_square_unique b c k W Hk Hkg), Hkg, overlaps_bit.
  apply attack_targets_spec; [exact W|exact Hk|].
  apply (WF_disjoint b k c W).
  apply (WFs_locate_occ (pieces b c) k King (WF_pieces b c W)). cbn [locate].
  rewrite Hkg. apply mem_bit_same.
Qed.

(* a board without a king of colour c: both sides say "not in check" *)
Lemma in_check_no_king b c : WF b -> kg (pieces b c) = 0 ->
  in_check rook_t bishop_t b c = false /\ king_attacked (abstract b) c = false.
Proof.
  intros W Hkg. split.
  - unfold in_check. rewrite Hkg. destruct (overlaps 0 _) eqn:E; [|reflexivity].
    apply overlaps_spec in E. destruct E as [i [Hi _]]. rewrite mem_0 in Hi. discriminate.
  - unfold king_attacked, king_square.
    destruct (find (fun i => is_pc (at_ (abstract b) i) King c) squares) as [k'|] eqn:Ef; [|reflexivity].
    exfalso. apply find_some in Ef. destruct Ef as [Hin Hp]. apply in_squares in Hin.
    rewrite (at_abstract b k' Hin), is_pc_iff, (bget_mem b k' King c W) in Hp. cbn [locate] in Hp.
    rewrite Hkg, mem_0 in Hp. discriminate.
Qed.

Theorem in_check_exact_le1 b c : WF b -> popcount (kg (pieces b c)) <= 1 ->
  in_check rook_t bishop_t b c = king_attacked (abstract b) c.
Proof.
  intros W Hp.
  assert (Fk : fits64 (kg (pieces b c))) by (apply (WFs_fits_locate (pieces b c) King), WF_pieces, W).
  assert (C : popcount (kg (pieces b c)) = 1 \/ popcount (kg (pieces b c)) = 0) by lia.
  destruct C as [C|C]; [apply in_check_exact; assumption|].
  apply (popcount_0_iff _ Fk) in C. destruct (in_check_no_king b c W C) as [-> ->]. reflexivity.
Qed.

(** the side to move *)
Corollary side_to_move_in_check_exact b : WF b -> popcount (kg (pieces b (turn b))) = 1 ->
  in_check rook_t bishop_t b (turn b) = king_attacked (abstract b) (pturn (abstract b)).
Proof. intros W Hp. apply in_check_exact; assumption. Qed.

End AttackMap.

(* ------------------------------------------------------------------ *)
(** * 5. instances *)

(** the ray-walk reference *)
Theorem attack_targets_spec_ref b c j : WF b -> j < 64 -> mem j (occ (pieces b c)) = false ->
  mem j (attack_targets rook_ref bishop_ref b c) = attacked_by (abstract b) c (fileZ j) (rankZ j).
Proof. apply attack_targets_spec; reflexivity. Qed.

Theorem in_check_exact_ref b c : WF b -> popcount (kg (pieces b c)) = 1 ->
  in_check rook_ref bishop_ref b c = king_attacked (abstract b) c.
Proof. apply in_check_exact; reflexivity. Qed.

(** the magic-bitboard tables of EVERY valid build (C11): the engine's actual lookups *)
Theorem attack_targets_spec_magic res bes b c j :
  Magic.entries_valid rook_deltas res = true -> Magic.entries_valid bishop_deltas bes = true ->
  WF b -> j < 64 -> mem j (occ (pieces b c)) = false ->
  mem j (attack_targets (Magic.magic_rook res) (Magic.magic_bishop bes) b c)
  = attacked_by (abstract b) c (fileZ j) (rankZ j).
Proof.
  intros Hr Hb. apply attack_targets_spec.
  - intros x o Hx. apply MagicProofs.rook_lookup_exact; assumption.
  - intros x o Hx. apply MagicProofs.bishop_lookup_exact; assumption.
Qed.

Theorem in_check_exact_magic res bes b c :
  Magic.entries_valid rook_deltas res = true -> Magic.entries_valid bishop_deltas bes = true ->
  WF b -> popcount (kg (pieces b c)) = 1 ->
  in_check (Magic.magic_rook res) (Magic.magic_bishop bes) b c = king_attacked (abstract b) c.
Proof.
  intros Hr Hb. apply in_check_exact.
  - intros x o Hx. apply MagicProofs.rook_lookup_exact; assumption.
  - intros x o Hx. apply MagicProofs.bishop_lookup_exact; assumption.
Qed.

(** the attack map itself does not depend on which agreeing lookup is used: the lookups are
    only ever made for squares below 64 *)
Lemma flat_map_ext_in' {A B} (f g : A -> list B) : forall l,
  (forall a, In a l -> f a = g a) -> flat_map f l = flat_map g l.
Proof.
  induction l as [|a l IH]; intro H; cbn [flat_map]; [reflexivity|].
  rewrite (H a (or_introl eq_refl)), IH; [reflexivity|]. intros a' Ha'. apply H. right. exact Ha'.
Qed.

Theorem attack_targets_lookup_indep rook_t bishop_t b c :
  (forall x o, x < 64 -> rook_t x o = rook_ref x o) ->
  (forall x o, x < 64 -> bishop_t x o = bishop_ref x o) ->
  attack_targets rook_t bishop_t b c = attack_targets rook_ref bishop_ref b c.
Proof.
  intros Hr Hb. unfold attack_targets.
  assert (E : sliding_targets rook_t bishop_t b c = sliding_targets rook_ref bishop_ref b c).
  { unfold sliding_targets. apply flat_map_ext_in'. intros x Hx. apply in_squares in Hx.
    rewrite (Hr x _ Hx), (Hb x _ Hx). reflexivity. }
  rewrite E. reflexivity.
Qed.

Corollary in_check_lookup_indep rook_t bishop_t b c :
  (forall x o, x < 64 -> rook_t x o = rook_ref x o) ->
  (forall x o, x < 64 -> bishop_t x o = bishop_ref x o) ->
  in_check rook_t bishop_t b c = in_check rook_ref bishop_ref b c.
Proof.
  intros Hr Hb. unfold in_check. rewrite (attack_targets_lookup_indep rook_t bishop_t b (opp_c c) Hr Hb).
  reflexivity.
Qed.

(* ------------------------------------------------------------------ *)
(** * 6. non-vacuity *)

Definition mk_pos (l : list (N * piece * color)) : res board :=
  fold_left (fun r x => let* b0 := r in put example_table b0 (fst (fst x)) (snd (fst x)) (snd x))
            l (Ok board_new).

(* r2q1rk1/ppp2ppp/2np1n2/2b1p3/2BPP3/2P2N2/PP3PPP/R2Q1RK1 : every piece kind, both colours *)
Definition middlegame : res board := mk_pos
  [(6, King, White); (3, Queen, White); (0, Rook, White); (5, Rook, White); (26, Bishop, White);
   (21, Knight, White); (8, Pawn, White); (9, Pawn, White); (18, Pawn, White); (27, Pawn, White);
   (28, Pawn, White); (13, Pawn, White); (14, Pawn, White); (15, Pawn, White);
   (62, King, Black); (59, Queen, Black); (56, Rook, Black); (61, Rook, Black); (34, Bishop, Black);
   (42, Knight, Black); (45, Knight, Black); (48, Pawn, Black); (49, Pawn, Black); (50, Pawn, Black);
   (43, Pawn, Black); (36, Pawn, Black); (53, Pawn, Black); (54, Pawn, Black); (55, Pawn, Black)].

(* corpus "double-check": 4k3/8/8/8/8/2b5/3N4/r3K3 w — the rook on a1 checks along the rank,
   the bishop's diagonal is blocked by the knight *)
Definition rook_check : res board := mk_pos
  [(60, King, Black); (18, Bishop, Black); (11, Knight, White); (0, Rook, Black); (4, King, White)].

(* the hypotheses of the theorems hold of these boards *)
Example middlegame_wf :
  match middlegame with
  | Ok b => wf_b b = true /\ popcount (kg (pieces b White)) = 1 /\ popcount (kg (pieces b Black)) = 1
  | _ => False
  end.
Proof. vm_compute. repeat split; reflexivity. Qed.

Example middlegame_WF : match middlegame with Ok b => WF b | _ => False end.
Proof.
  destruct middlegame as [b| |] eqn:E; try (vm_compute in E; discriminate).
  apply WfReflect.wf_b_WF. vm_compute in E. injection E as <-. vm_compute. reflexivity.
Qed.

(* the attack maps of both colours *)
Example middlegame_attack_maps :
  match middlegame with
  | Ok b => attack_targets rook_ref bishop_ref b White = 9026434467044502
            /\ attack_targets rook_ref bishop_ref b Black = 10815675556952080384
  | _ => False
  end.
Proof. vm_compute. split; reflexivity. Qed.

(* on all 64 squares not occupied by the attacker's own pieces the map is the rules' predicate
   (25 such squares attacked by White, 20 by Black) *)
Example middlegame_spec_sweep :
  match middlegame with
  | Ok b =>
      forallb (fun c => forallb (fun j =>
          mem j (occ (pieces b c))
          || Bool.eqb (mem j (attack_targets rook_ref bishop_ref b c))
                      (attacked_by (abstract b) c (fileZ j) (rankZ j))) squares) [White; Black] = true
      /\ map (fun c => length (filter (fun j =>
             negb (mem j (occ (pieces b c))) && attacked_by (abstract b) c (fileZ j) (rankZ j)) squares))
           [White; Black] = [25%nat; 20%nat]
  | _ => False
  end.
Proof. vm_compute. split; reflexivity. Qed.

(* the side condition of attack_targets_spec is needed: the white rook on f1 is defended by
   king and queen (the rules say "attacked by White"), but the engine's map strips it *)
Example own_square_difference :
  match middlegame with
  | Ok b => mem 5 (occ (pieces b White)) = true
            /\ mem 5 (attack_targets rook_ref bishop_ref b White) = false
            /\ attacked_by (abstract b) White (fileZ 5) (rankZ 5) = true
            (* ... while the pawn-defended knight on f3 stays in the map *)
            /\ mem 21 (occ (pieces b White)) = true
            /\ mem 21 (attack_targets rook_ref bishop_ref b White) = true
  | _ => False
  end.
Proof. vm_compute. repeat split; reflexivity. Qed.

Example rook_check_in_check :
  match rook_check with
  | Ok b => wf_b b = true
            /\ popcount (kg (pieces b White)) = 1 /\ popcount (kg (pieces b Black)) = 1
            /\ in_check rook_ref bishop_ref b White = true
            /\ king_attacked (abstract b) White = true
            /\ in_check rook_ref bishop_ref b Black = false
            /\ king_attacked (abstract b) Black = false
            (* the blocked bishop does not reach e1; the rook does *)
            /\ mem 4 (bishop_ref 18 (occupied b)) = false
            /\ mem 4 (rook_ref 0 (occupied b)) = true
  | _ => False
  end.
Proof. vm_compute. repeat split; reflexivity. Qed.

Example middlegame_not_in_check :
  match middlegame with
  | Ok b => in_check rook_ref bishop_ref b White = false /\ king_attacked (abstract b) White = false
  | _ => False
  end.
Proof. vm_compute. split; reflexivity. Qed.

Print Assumptions attack_targets_spec.
Print Assumptions attack_targets_own_squares.
Print Assumptions in_check_exact.
Print Assumptions in_check_exact_magic.
Print Assumptions attack_targets_lookup_indep.
