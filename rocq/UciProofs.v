(* UciProofs.v — C19: long coordinate notation.
   to_uci renders origin + destination in lower case (+ q/r/b/n for promotions, castling as
   the king's two-square move); for every move that `fits` the position (the shape every
   generated move has) the reader from_uci reconstructs exactly that move, hence distinct
   fitting moves get distinct strings.  No axioms. *)
From Coq Require Import Lia ZArith NArith List Bool String Ascii.
From ChessV Require Import Bits Types Board Moves Rays MoveGen Rules Abs San GeomProofs.
Import ListNotations.
Open Scope string_scope.
Open Scope N_scope.
#[local] Arguments N.add : simpl never.
#[local] Arguments N.sub : simpl never.
#[local] Arguments N.mul : simpl never.
#[local] Arguments N.eqb : simpl never.
#[local] Arguments N.ltb : simpl never.
#[local] Arguments N.leb : simpl never.
#[local] Arguments N.shiftl : simpl never.
#[local] Arguments N.shiftr : simpl never.
#[local] Arguments N.land : simpl never.
#[local] Arguments N.lor : simpl never.
#[local] Arguments N.lxor : simpl never.
#[local] Arguments N.ldiff : simpl never.
#[local] Arguments N.testbit : simpl never.

(* ------------------------------------------------------------------ *)
(* square names                                                        *)
(* ------------------------------------------------------------------ *)
Definition file_letters : list ascii := ["a"; "b"; "c"; "d"; "e"; "f"; "g"; "h"]%char.
Definition rank_digits : list ascii := ["1"; "2"; "3"; "4"; "5"; "6"; "7"; "8"]%char.

(* sq_str i is the lower-case file letter followed by the rank digit *)
Theorem sq_str_spec : forall i, i < 64 ->
  sq_str i = String (nth (N.to_nat (i mod 8)) file_letters " "%char)
                    (String (nth (N.to_nat (i / 8)) rank_digits " "%char) EmptyString).
Proof.
  intros i Hi. apply String.eqb_eq.
  apply (sweep64 (fun i => String.eqb (sq_str i)
           (String (nth (N.to_nat (i mod 8)) file_letters " "%char)
                   (String (nth (N.to_nat (i / 8)) rank_digits " "%char) EmptyString))));
    [|exact Hi].
  vm_compute. reflexivity.
Qed.

Example sq_str_e2 : sq_str 12 = "e2".  Proof. vm_compute. reflexivity. Qed.
Example sq_str_h8 : sq_str 63 = "h8".  Proof. vm_compute. reflexivity. Qed.

Definition UciAux_resN_eqb (a : res N) (n : N) : bool :=
  match a with Ok x => x =? n | _ => false end.

Theorem parse_square_sq_str : forall i, i < 64 ->
  parse_square (file_char i) (rank_char i) = Ok i.
Proof.
  intros i Hi.
  pose proof (sweep64 (fun i => UciAux_resN_eqb (parse_square (file_char i) (rank_char i)) i)
                ltac:(vm_compute; reflexivity) i Hi) as H.
  cbv beta in H. destruct (parse_square (file_char i) (rank_char i)) as [x| |]; cbn in H; try discriminate.
  apply N.eqb_eq in H. subst. reflexivity.
Qed.

(* whatever parse_square accepts is a square *)
Lemma parse_square_lt : forall f r i, parse_square f r = Ok i -> i < 64.
Proof.
  intros f r i H. unfold parse_square in H.
  set (fn := N_of_ascii f) in *. set (rn := N_of_ascii r) in *.
  destruct ((97 <=? fn) && (fn <=? 104)) eqn:E1.
  - destruct ((49 <=? rn) && (rn <=? 56)) eqn:E2; [|discriminate].
    inversion H; subst; clear H.
    apply andb_true_iff in E1, E2. destruct E1 as [A B], E2 as [C D].
    apply N.leb_le in A, B, C, D. lia.
  - destruct ((65 <=? fn) && (fn <=? 72)) eqn:E3; [|discriminate].
    destruct ((49 <=? rn) && (rn <=? 56)) eqn:E2; [|discriminate].
    inversion H; subst; clear H.
    apply andb_true_iff in E3, E2. destruct E3 as [A B], E2 as [C D].
    apply N.leb_le in A, B, C, D. lia.
Qed.

(* ------------------------------------------------------------------ *)
(* the writer                                                          *)
(* ------------------------------------------------------------------ *)
Definition promo_ok (pp : piece) : bool :=
  match pp with Queen | Rook | Bishop | Knight => true | _ => false end.

Definition uci_suffix (m : cmove) : string :=
  match m with
  | Promo _ _ _ Queen => "q" | Promo _ _ _ Rook => "r"
  | Promo _ _ _ Bishop => "b" | Promo _ _ _ Knight => "n"
  | _ => ""
  end.

Definition bad_promo (m : cmove) : bool :=
  match m with Promo _ _ _ pp => negb (promo_ok pp) | _ => false end.

Theorem to_uci_spec : forall m, bad_promo m = false ->
  to_uci m = Ok (sq_str (mv_from m) ++ sq_str (mv_to m) ++ uci_suffix m).
Proof.
  intros m H. destruct m as [f t c|f t c pp|f t|f t]; try reflexivity.
  destruct pp; try discriminate; reflexivity.
Qed.

(* the only failure of the writer: a promotion to pawn or king *)
Theorem to_uci_panic_iff : forall m, to_uci m = Panic <-> bad_promo m = true.
Proof.
  intros m. destruct m as [f t c|f t c pp|f t|f t]; cbn; try (split; discriminate).
  destruct pp; cbn; split; intro H; try discriminate; reflexivity.
Qed.

Lemma to_uci_no_err : forall m e, to_uci m <> Err e.
Proof.
  intros m e. destruct m as [f t c|f t c pp|f t|f t]; cbn; try discriminate.
  destruct pp; cbn; discriminate.
Qed.

Example to_uci_e2e4 : to_uci (Std 12 28 None) = Ok "e2e4".
Proof. vm_compute. reflexivity. Qed.
Example to_uci_castle : to_uci (Castle 4 6) = Ok "e1g1" /\ to_uci (Castle 60 58) = Ok "e8c8".
Proof. vm_compute. split; reflexivity. Qed.
Example to_uci_promo : to_uci (Promo 49 56 (Some Rook) Knight) = Ok "b7a8n".
Proof. vm_compute. reflexivity. Qed.

(* ------------------------------------------------------------------ *)
(* the reader, restated in pieces                                      *)
(* ------------------------------------------------------------------ *)
Definition parse_promo (rest : string) : res (option piece) :=
  match rest with
  | EmptyString => Ok None
  | String c _ =>
      match N_of_ascii c with
      | 113 => Ok (Some Queen) | 114 => Ok (Some Rook)
      | 98 => Ok (Some Bishop) | 110 => Ok (Some Knight)
      | _ => Panic
      end
  end.

Definition ks_pair (f t : N) : bool := ((f =? 4) && (t =? 6)) || ((f =? 60) && (t =? 62)).
Definition qs_pair (f t : N) : bool := ((f =? 4) && (t =? 2)) || ((f =? 60) && (t =? 58)).
Definition castle_pair (f t : N) : bool := ks_pair f t || qs_pair f t.

Definition classify (b : board) (from to : N) (promo : option piece) : res cmove :=
  match bget b from with
  | None => Panic
  | Some (pc, _) =>
      let cap := option_map fst (bget b to) in
      let* ept := peek_ep b in
      match pc, promo with
      | Pawn, Some pp => Ok (Promo from to cap pp)
      | Pawn, None => if bit to =? ept then Ok (EnPassant from to) else Ok (Std from to cap)
      | King, None =>
          if ks_pair from to then
            Ok (match turn b with White => Castle 4 6 | Black => Castle 60 62 end)
          else if qs_pair from to then
            Ok (match turn b with White => Castle 4 2 | Black => Castle 60 58 end)
          else Ok (Std from to cap)
      | _, _ => Ok (Std from to cap)
      end
  end.

Lemma from_uci_unfold : forall b f1 r1 f2 r2 rest,
  from_uci b (String f1 (String r1 (String f2 (String r2 rest)))) =
  (let* from := parse_square f1 r1 in
   let* to := parse_square f2 r2 in
   let* promo := parse_promo rest in
   classify b from to promo).
Proof. intros. reflexivity. Qed.

Lemma sq_str_app : forall i s, sq_str i ++ s = String (file_char i) (String (rank_char i) s).
Proof. intros. reflexivity. Qed.

Lemma from_uci_sq_str : forall b f t rest, f < 64 -> t < 64 ->
  from_uci b (sq_str f ++ sq_str t ++ rest) =
  (let* promo := parse_promo rest in classify b f t promo).
Proof.
  intros b f t rest Hf Ht. rewrite !sq_str_app, from_uci_unfold.
  rewrite (parse_square_sq_str f Hf), (parse_square_sq_str t Ht). reflexivity.
Qed.

Lemma parse_promo_suffix : forall f t c pp, promo_ok pp = true ->
  parse_promo (uci_suffix (Promo f t c pp)) = Ok (Some pp).
Proof. intros f t c pp H. destruct pp; try discriminate; reflexivity. Qed.

(* ------------------------------------------------------------------ *)
(* fits: the shape of a move that matches the position                  *)
(* ------------------------------------------------------------------ *)
(* king-row pairs allowed for the side to move *)
Definition castle_for (c : color) (f t : N) : bool :=
  match c with
  | White => (f =? 4) && ((t =? 6) || (t =? 2))
  | Black => (f =? 60) && ((t =? 62) || (t =? 58))
  end.

(* EXACTLY the conditions under which reading back the rendering of m on b returns m
   (see uci_roundtrip_iff).  The colour of the moving piece is irrelevant to the reader;
   only castling looks at `turn b`. *)
Definition fits (b : board) (m : cmove) : Prop :=
  mv_from m < 64 /\ mv_to m < 64 /\
  exists pc col ept,
    bget b (mv_from m) = Some (pc, col) /\ peek_ep b = Ok ept /\
    match m with
    | Std f t cap =>
        cap = option_map fst (bget b t)
        /\ (pc = Pawn -> bit t <> ept)          (* else it is read as en passant *)
        /\ (pc = King -> castle_pair f t = false) (* else it is read as castling *)
    | Promo f t cap pp =>
        pc = Pawn /\ cap = option_map fst (bget b t) /\ promo_ok pp = true
    | EnPassant f t => pc = Pawn /\ ept = bit t
    | Castle f t => pc = King /\ castle_for (turn b) f t = true
    end.

Definition fitsb (b : board) (m : cmove) : bool :=
  (mv_from m <? 64) && (mv_to m <? 64) &&
  match bget b (mv_from m), peek_ep b with
  | Some (pc, _), Ok ept =>
      match m with
      | Std f t cap =>
          opt_piece_eqb cap (option_map fst (bget b t))
          && match pc with
             | Pawn => negb (bit t =? ept)
             | King => negb (castle_pair f t)
             | _ => true
             end
      | Promo f t cap pp =>
          piece_eqb pc Pawn && opt_piece_eqb cap (option_map fst (bget b t)) && promo_ok pp
      | EnPassant f t => piece_eqb pc Pawn && (ept =? bit t)
      | Castle f t => piece_eqb pc King && castle_for (turn b) f t
      end
  | _, _ => false
  end.

Lemma UciAux_piece_eqb_eq : forall a b, piece_eqb a b = true <-> a = b.
Proof. intros a b. destruct a, b; cbn; split; intro H; try discriminate; reflexivity. Qed.

Lemma UciAux_opt_piece_eqb_eq : forall a b, opt_piece_eqb a b = true <-> a = b.
Proof.
  intros [a|] [b|]; cbn; try (split; intro H; try discriminate; reflexivity).
  rewrite UciAux_piece_eqb_eq. split; intro H; [subst; reflexivity|inversion H; reflexivity].
Qed.

Theorem fitsb_spec : forall b m, fitsb b m = true <-> fits b m.
Proof.
  intros b m. unfold fitsb, fits. split.
  - intro H. rewrite !andb_true_iff in H. destruct H as [[Hf Ht] H].
    apply N.ltb_lt in Hf, Ht. split; [exact Hf|]. split; [exact Ht|].
    destruct (bget b (mv_from m)) as [[pc col]|] eqn:Eg; [|discriminate].
    destruct (peek_ep b) as [ept| |] eqn:Ee; try discriminate.
    exists pc, col, ept. split; [reflexivity|]. split; [reflexivity|].
    destruct m as [f t cap|f t cap pp|f t|f t].
    + apply andb_true_iff in H. destruct H as [H1 H2]. apply UciAux_opt_piece_eqb_eq in H1.
      split; [exact H1|]. split; intro Hp; subst pc.
      * apply negb_true_iff in H2. apply N.eqb_neq in H2. exact H2.
      * apply negb_true_iff in H2. exact H2.
    + rewrite !andb_true_iff in H. destruct H as [[H1 H2] H3].
      apply UciAux_piece_eqb_eq in H1. apply UciAux_opt_piece_eqb_eq in H2. auto.
    + apply andb_true_iff in H. destruct H as [H1 H2].
      apply UciAux_piece_eqb_eq in H1. apply N.eqb_eq in H2. auto.
    + apply andb_true_iff in H. destruct H as [H1 H2].
      apply UciAux_piece_eqb_eq in H1. auto.
  - intros [Hf [Ht [pc [col [ept [Eg [Ee H]]]]]]].
    rewrite Eg, Ee. apply N.ltb_lt in Hf, Ht. rewrite Hf, Ht. cbn [andb].
    destruct m as [f t cap|f t cap pp|f t|f t].
    + destruct H as [H1 [H2 H3]]. apply UciAux_opt_piece_eqb_eq in H1. rewrite H1. cbn [andb].
      destruct pc; try reflexivity.
      * apply negb_true_iff. apply N.eqb_neq. apply H2. reflexivity.
      * apply negb_true_iff. apply H3. reflexivity.
    + destruct H as [H1 [H2 H3]]. subst pc. apply UciAux_opt_piece_eqb_eq in H2.
      rewrite H2, H3. reflexivity.
    + destruct H as [H1 H2]. subst pc. apply N.eqb_eq in H2. rewrite H2. reflexivity.
    + destruct H as [H1 H2]. subst pc. rewrite H2. reflexivity.
Qed.

Lemma fits_no_bad_promo : forall b m, fits b m -> bad_promo m = false.
Proof.
  intros b m [_ [_ [pc [col [ept [_ [_ H]]]]]]].
  destruct m as [f t cap|f t cap pp|f t|f t]; try reflexivity.
  destruct H as [_ [_ H]]. cbn. rewrite H. reflexivity.
Qed.

(* ------------------------------------------------------------------ *)
(* round trip                                                          *)
(* ------------------------------------------------------------------ *)
Lemma UciAux_castle_pair_false : forall f t, castle_pair f t = false ->
  ks_pair f t = false /\ qs_pair f t = false.
Proof. intros f t H. unfold castle_pair in H. apply orb_false_iff in H. exact H. Qed.

Lemma classify_fits : forall b m, fits b m ->
  (let* promo := parse_promo (uci_suffix m) in classify b (mv_from m) (mv_to m) promo) = Ok m.
Proof.
  intros b m [Hf [Ht [pc [col [ept [Eg [Ee H]]]]]]].
  destruct m as [f t cap|f t cap pp|f t|f t]; cbn [mv_from mv_to] in *.
  - (* Std *)
    destruct H as [Hc [Hp Hk]].
    change (uci_suffix (Std f t cap)) with "". cbn [parse_promo bind].
    unfold classify. rewrite Eg, Ee. cbn [bind]. rewrite <- Hc.
    destruct pc; try reflexivity.
    + destruct (bit t =? ept) eqn:E; [|reflexivity].
      apply N.eqb_eq in E. exfalso. apply Hp; [reflexivity|exact E].
    + destruct (UciAux_castle_pair_false f t (Hk eq_refl)) as [K1 K2].
      rewrite K1, K2. reflexivity.
  - (* Promo *)
    destruct H as [Hpc [Hc Hpp]]. subst pc.
    rewrite parse_promo_suffix by exact Hpp. cbn [bind].
    unfold classify. rewrite Eg, Ee. cbn [bind]. rewrite <- Hc. reflexivity.
  - (* EnPassant *)
    destruct H as [Hpc He]. subst pc ept.
    change (uci_suffix (EnPassant f t)) with "". cbn [parse_promo bind].
    unfold classify. rewrite Eg, Ee. cbn [bind]. rewrite N.eqb_refl. reflexivity.
  - (* Castle *)
    destruct H as [Hpc Hcf]. subst pc.
    change (uci_suffix (Castle f t)) with "". cbn [parse_promo bind].
    unfold classify. rewrite Eg, Ee. cbn [bind].
    unfold castle_for in Hcf. destruct (turn b).
    + apply andb_true_iff in Hcf. destruct Hcf as [H1 H2]. apply N.eqb_eq in H1. subst f.
      apply orb_true_iff in H2. destruct H2 as [H2|H2]; apply N.eqb_eq in H2; subst t; reflexivity.
    + apply andb_true_iff in Hcf. destruct Hcf as [H1 H2]. apply N.eqb_eq in H1. subst f.
      apply orb_true_iff in H2. destruct H2 as [H2|H2]; apply N.eqb_eq in H2; subst t; reflexivity.
Qed.

Theorem uci_roundtrip : forall b m, fits b m ->
  exists s, to_uci m = Ok s /\ from_uci b s = Ok m.
Proof.
  intros b m Hfit.
  exists (sq_str (mv_from m) ++ sq_str (mv_to m) ++ uci_suffix m). split.
  - apply to_uci_spec. exact (fits_no_bad_promo b m Hfit).
  - destruct Hfit as [Hf [Ht Hrest]].
    rewrite from_uci_sq_str by assumption.
    apply classify_fits. split; [exact Hf|]. split; [exact Ht|exact Hrest].
Qed.

(* distinct moves of a position get distinct strings *)
Theorem uci_injective : forall b m1 m2, fits b m1 -> fits b m2 ->
  to_uci m1 = to_uci m2 -> m1 = m2.
Proof.
  intros b m1 m2 H1 H2 E.
  destruct (uci_roundtrip b m1 H1) as [s1 [W1 R1]].
  destruct (uci_roundtrip b m2 H2) as [s2 [W2 R2]].
  rewrite W1, W2 in E. inversion E; subst s2.
  rewrite R1 in R2. inversion R2. reflexivity.
Qed.

(* ------------------------------------------------------------------ *)
(* fits is exact: the converse of the round trip                       *)
(* ------------------------------------------------------------------ *)
Lemma UciAux_bind_ok : forall {A B} (r : res A) (k : A -> res B) y,
  bind r k = Ok y -> exists x, r = Ok x /\ k x = Ok y.
Proof. intros A B r k y H. destruct r as [x| |]; try discriminate. exists x. auto. Qed.

(* the squares of whatever the reader builds are squares *)
Lemma classify_squares_lt : forall b f t promo m, f < 64 -> t < 64 ->
  classify b f t promo = Ok m -> mv_from m < 64 /\ mv_to m < 64.
Proof.
  intros b f t promo m Hf Ht H. unfold classify in H.
  destruct (bget b f) as [[pc col]|]; [|discriminate].
  destruct (peek_ep b) as [ept| |]; try discriminate. cbn [bind] in H.
  destruct pc, promo as [pp|];
    repeat match type of H with
           | (if ?c then _ else _) = _ => destruct c
           | Ok (match ?c with White => _ | Black => _ end) = _ => destruct c
           end;
    inversion H; subst m; cbn [mv_from mv_to]; split; (assumption || lia).
Qed.

Theorem from_uci_squares_lt : forall b s m, from_uci b s = Ok m -> mv_from m < 64 /\ mv_to m < 64.
Proof.
  intros b s m H.
  destruct s as [|f1 [|r1 [|f2 [|r2 rest]]]]; try discriminate.
  rewrite from_uci_unfold in H.
  apply UciAux_bind_ok in H. destruct H as [f [Pf H]].
  apply UciAux_bind_ok in H. destruct H as [t [Pt H]].
  apply UciAux_bind_ok in H. destruct H as [promo [_ H]].
  apply parse_square_lt in Pf, Pt. exact (classify_squares_lt b f t promo m Pf Pt H).
Qed.

Lemma UciAux_castle_for_pairs : forall c f t,
  (match c with White => Castle 4 6 | Black => Castle 60 62 end = Castle f t \/
   match c with White => Castle 4 2 | Black => Castle 60 58 end = Castle f t) ->
  castle_for c f t = true.
Proof. intros c f t [H|H]; destruct c; inversion H; subst; reflexivity. Qed.

Lemma classify_complete : forall b m, mv_from m < 64 -> mv_to m < 64 -> bad_promo m = false ->
  (let* promo := parse_promo (uci_suffix m) in classify b (mv_from m) (mv_to m) promo) = Ok m ->
  fits b m.
Proof.
  intros b m Hf Ht Hbad H.
  split; [exact Hf|]. split; [exact Ht|].
  destruct m as [f t cap|f t cap pp|f t|f t]; cbn [mv_from mv_to] in *.
  - change (uci_suffix (Std f t cap)) with "" in H. cbn [parse_promo bind] in H.
    unfold classify in H.
    destruct (bget b f) as [[pc col]|] eqn:Eg; [|discriminate].
    destruct (peek_ep b) as [ept| |] eqn:Ee; try discriminate. cbn [bind] in H.
    exists pc, col, ept. split; [reflexivity|]. split; [reflexivity|].
    destruct pc.
    + destruct (bit t =? ept) eqn:E; [discriminate|]. inversion H as [Hc].
      apply N.eqb_neq in E. split; [reflexivity|]. split; [intros _; exact E|discriminate].
    + inversion H as [Hc]. split; [reflexivity|]. split; discriminate.
    + inversion H as [Hc]. split; [reflexivity|]. split; discriminate.
    + inversion H as [Hc]. split; [reflexivity|]. split; discriminate.
    + inversion H as [Hc]. split; [reflexivity|]. split; discriminate.
    + destruct (ks_pair f t) eqn:K1; [destruct (turn b); discriminate|].
      destruct (qs_pair f t) eqn:K2; [destruct (turn b); discriminate|].
      inversion H as [Hc]. split; [reflexivity|]. split; [discriminate|].
      intros _. unfold castle_pair. rewrite K1, K2. reflexivity.
  - cbn [bad_promo] in Hbad. apply negb_false_iff in Hbad.
    rewrite parse_promo_suffix in H by exact Hbad. cbn [bind] in H.
    unfold classify in H.
    destruct (bget b f) as [[pc col]|] eqn:Eg; [|discriminate].
    destruct (peek_ep b) as [ept| |] eqn:Ee; try discriminate. cbn [bind] in H.
    exists pc, col, ept. split; [reflexivity|]. split; [reflexivity|].
    destruct pc; try discriminate. inversion H as [Hc]. auto.
  - change (uci_suffix (EnPassant f t)) with "" in H. cbn [parse_promo bind] in H.
    unfold classify in H.
    destruct (bget b f) as [[pc col]|] eqn:Eg; [|discriminate].
    destruct (peek_ep b) as [ept| |] eqn:Ee; try discriminate. cbn [bind] in H.
    exists pc, col, ept. split; [reflexivity|]. split; [reflexivity|].
    destruct pc; try discriminate.
    + destruct (bit t =? ept) eqn:E; [|discriminate]. apply N.eqb_eq in E. auto.
    + destruct (ks_pair f t); [destruct (turn b); discriminate|].
      destruct (qs_pair f t); [destruct (turn b); discriminate|discriminate].
  - change (uci_suffix (Castle f t)) with "" in H. cbn [parse_promo bind] in H.
    unfold classify in H.
    destruct (bget b f) as [[pc col]|] eqn:Eg; [|discriminate].
    destruct (peek_ep b) as [ept| |] eqn:Ee; try discriminate. cbn [bind] in H.
    exists pc, col, ept. split; [reflexivity|]. split; [reflexivity|].
    destruct pc; try discriminate.
    + destruct (bit t =? ept); discriminate.
    + split; [reflexivity|]. apply UciAux_castle_for_pairs.
      destruct (ks_pair f t); [left; inversion H; reflexivity|].
      destruct (qs_pair f t); [right; inversion H; reflexivity|discriminate].
Qed.

(* fits is necessary and sufficient for "write, then read back on b, gives m again" *)
Theorem uci_roundtrip_iff : forall b m,
  fits b m <-> exists s, to_uci m = Ok s /\ from_uci b s = Ok m.
Proof.
  intros b m. split; [apply uci_roundtrip|].
  intros [s [W R]].
  destruct (from_uci_squares_lt b s m R) as [Hf Ht].
  assert (Hbad : bad_promo m = false).
  { destruct (bad_promo m) eqn:E; [|reflexivity].
    apply to_uci_panic_iff in E. rewrite E in W. discriminate. }
  assert (Es : s = sq_str (mv_from m) ++ sq_str (mv_to m) ++ uci_suffix m)
    by (rewrite (to_uci_spec m Hbad) in W; congruence).
  rewrite Es in R.
  rewrite from_uci_sq_str in R by assumption.
  exact (classify_complete b m Hf Ht Hbad R).
Qed.

(* ------------------------------------------------------------------ *)
(* the two situations where the reader would mis-classify              *)
(* ------------------------------------------------------------------ *)
(* (1) a STANDARD king move written e1g1 / e1c1 / e8g8 / e8c8 is read as a castle, so such
   a Std move does not fit ... *)
Lemma std_king_castle_pair_not_fits : forall b f t cap col,
  bget b f = Some (King, col) -> castle_pair f t = true -> ~ fits b (Std f t cap).
Proof.
  intros b f t cap col Hg Hp [_ [_ [pc [col' [ept [Eg [_ [_ [_ Hk]]]]]]]]].
  cbn [mv_from] in Eg. rewrite Hg in Eg. inversion Eg; subst pc.
  rewrite (Hk eq_refl) in Hp. discriminate.
Qed.

Lemma std_king_castle_pair_misread : forall b f t cap col ept,
  f < 64 -> t < 64 -> bget b f = Some (King, col) -> peek_ep b = Ok ept -> castle_pair f t = true ->
  exists s f' t', to_uci (Std f t cap) = Ok s /\ from_uci b s = Ok (Castle f' t').
Proof.
  intros b f t cap col ept Hf Ht Hg He Hp.
  exists (sq_str f ++ sq_str t ++ "").
  assert (R : from_uci b (sq_str f ++ sq_str t ++ "") = classify b f t None)
    by (rewrite from_uci_sq_str by assumption; reflexivity).
  unfold classify in R. rewrite Hg, He in R. cbn [bind] in R.
  unfold castle_pair in Hp. destruct (ks_pair f t) eqn:K1.
  - destruct (turn b); [exists 60, 62|exists 4, 6]; (split; [reflexivity|exact R]).
  - cbn [orb] in Hp. rewrite Hp in R.
    destruct (turn b); [exists 60, 58|exists 4, 2]; (split; [reflexivity|exact R]).
Qed.

(* ... but a king step never changes the file by more than one, so no such Std move is
   ever in a king's target set: *)
Theorem king_step_one_file : forall f t, f < 64 -> t < 64 ->
  mem t (king_targets f) = true ->
  (Z.abs (fileZ t - fileZ f) <= 1 /\ Z.abs (rankZ t - rankZ f) <= 1)%Z.
Proof.
  intros f t Hf Ht Hm.
  pose proof (sweep64x64 (fun f t => implb (mem t (king_targets f))
                 ((Z.abs (fileZ t - fileZ f) <=? 1)%Z && (Z.abs (rankZ t - rankZ f) <=? 1)%Z))
                ltac:(vm_compute; reflexivity) f t Hf Ht) as H.
  cbv beta in H. rewrite Hm in H. cbn [implb] in H.
  apply andb_true_iff in H. destruct H as [H1 H2]. apply Z.leb_le in H1, H2. auto.
Qed.

Theorem king_targets_never_castle_pair : forall f t,
  castle_pair f t = true -> mem t (king_targets f) = false.
Proof.
  intros f t H. unfold castle_pair, ks_pair, qs_pair in H.
  repeat (apply orb_true_iff in H; destruct H as [H|H]);
    apply andb_true_iff in H; destruct H as [H1 H2];
    apply N.eqb_eq in H1, H2; subst; vm_compute; reflexivity.
Qed.

(* (2) a STANDARD pawn move onto the current en-passant target square is read as an
   en-passant capture, so it does not fit (the generator cannot emit one: the target
   square is empty and the square behind it holds the pawn that just moved — shown with
   the generator invariants, not here) *)
Lemma std_pawn_to_ep_target_not_fits : forall b f t cap col,
  bget b f = Some (Pawn, col) -> peek_ep b = Ok (bit t) -> ~ fits b (Std f t cap).
Proof.
  intros b f t cap col Hg He [_ [_ [pc [col' [ept [Eg [Ee [_ [Hp _]]]]]]]]].
  cbn [mv_from] in Eg. rewrite Hg in Eg. inversion Eg; subst pc.
  rewrite He in Ee. inversion Ee; subst ept. exact (Hp eq_refl eq_refl).
Qed.

(* ------------------------------------------------------------------ *)
(* non-vacuity                                                         *)
(* ------------------------------------------------------------------ *)
Definition Z0 : ztable := {| zp := fun _ _ _ => 0; zc := fun _ => 0; ze := fun _ => 0 |}.

Fixpoint put_all (b : board) (l : list (N * piece * color)) : res board :=
  match l with
  | [] => Ok b
  | (i, p, c) :: rest => let* b' := put Z0 b i p c in put_all b' rest
  end.

Definition board_or_new (r : res board) : board := match r with Ok b => b | _ => board_new end.

Definition back_rank (base : N) (c : color) : list (N * piece * color) :=
  [(base, Rook, c); (base + 1, Knight, c); (base + 2, Bishop, c); (base + 3, Queen, c);
   (base + 4, King, c); (base + 5, Bishop, c); (base + 6, Knight, c); (base + 7, Rook, c)].
Definition pawn_rank (base : N) (c : color) : list (N * piece * color) :=
  map (fun k => (base + k, Pawn, c)) [0; 1; 2; 3; 4; 5; 6; 7].

Definition initial_board : board :=
  board_or_new (put_all board_new (back_rank 0 White ++ pawn_rank 8 White ++ pawn_rank 48 Black ++ back_rank 56 Black)).

Example initial_board_built : popcount (occupied initial_board) = 32 /\ bget initial_board 4 = Some (King, White).
Proof. vm_compute. split; reflexivity. Qed.

Example fits_e2e4 : fits initial_board (Std 12 28 None).
Proof. apply fitsb_spec. vm_compute. reflexivity. Qed.
Example fits_g1f3 : fits initial_board (Std 6 21 None).
Proof. apply fitsb_spec. vm_compute. reflexivity. Qed.
Example roundtrip_e2e4 : from_uci initial_board "e2e4" = Ok (Std 12 28 None).
Proof. vm_compute. reflexivity. Qed.

(* white pawn e5, black pawn d5 which has just played d7d5: ep target d6 *)
Definition ep_board : board :=
  set_ep (board_or_new (put_all board_new [(4, King, White); (60, King, Black); (36, Pawn, White); (35, Pawn, Black)]))
         [bit 43; 0].
Example fits_ep : fits ep_board (EnPassant 36 43).
Proof. apply fitsb_spec. vm_compute. reflexivity. Qed.
Example roundtrip_ep : from_uci ep_board "e5d6" = Ok (EnPassant 36 43).
Proof. vm_compute. reflexivity. Qed.
Example not_fits_std_onto_ep_target : fitsb ep_board (Std 36 43 None) = false.
Proof. vm_compute. reflexivity. Qed.

(* white king e1, rooks a1 h1, white to move *)
Definition castle_board : board :=
  board_or_new (put_all board_new [(4, King, White); (7, Rook, White); (0, Rook, White); (60, King, Black)]).
Example fits_castle_ks : fits castle_board (Castle 4 6).
Proof. apply fitsb_spec. vm_compute. reflexivity. Qed.
Example fits_castle_qs : fits castle_board (Castle 4 2).
Proof. apply fitsb_spec. vm_compute. reflexivity. Qed.
Example roundtrip_castle : from_uci castle_board "e1g1" = Ok (Castle 4 6).
Proof. vm_compute. reflexivity. Qed.
(* the reader trusts `turn b`: the black castle does not fit with White to move *)
Example not_fits_black_castle_white_to_move : fitsb castle_board (Castle 60 62) = false.
Proof. vm_compute. reflexivity. Qed.

(* white pawn b7 takes the rook a8 and promotes *)
Definition promo_board : board :=
  board_or_new (put_all board_new [(4, King, White); (62, King, Black); (49, Pawn, White); (56, Rook, Black)]).
Example fits_capture_promo : fits promo_board (Promo 49 56 (Some Rook) Queen).
Proof. apply fitsb_spec. vm_compute. reflexivity. Qed.
Example roundtrip_capture_promo : from_uci promo_board "b7a8n" = Ok (Promo 49 56 (Some Rook) Knight).
Proof. vm_compute. reflexivity. Qed.
Example injective_nonvacuous :
  fits promo_board (Promo 49 56 (Some Rook) Queen) /\ fits promo_board (Promo 49 56 (Some Rook) Knight)
  /\ to_uci (Promo 49 56 (Some Rook) Queen) <> to_uci (Promo 49 56 (Some Rook) Knight).
Proof.
  split; [apply fitsb_spec; vm_compute; reflexivity|].
  split; [apply fitsb_spec; vm_compute; reflexivity|]. vm_compute. discriminate.
Qed.

Print Assumptions uci_roundtrip_iff.
Print Assumptions uci_injective.
Print Assumptions to_uci_spec.
Print Assumptions king_step_one_file.
