(* SearchFrame.v — C07 relative to the model's own generator, and the search part of C04.

   About Search.ab / root_task / root_scores / search:
     - the board handed back by the alpha-beta recursion and by `search` is the caller's board
       (ab_board, search_legal);
     - depth 0 is DepthTooLow, an empty legal list is NoAvailableMoves, and nothing else is ever
       reported as an error (search_depth0, search_no_moves, search_err_inv);
     - the move returned is one of the generated legal moves (search_legal);
     - the value returned is the max (White) / min (Black) of the root scores and the move
       attains it (search_value_in_root_scores);
     - `search` answers SOk whenever the legal list is non-empty and every root task answers
       (search_total_tasks); the root tasks, and `ab` at every depth, answer whenever the
       positions reached satisfy an invariant `Good` under which the generator and the leaf
       scorer answer (ab_total, search_total).
   "Never hangs" needs no theorem: `ab` is a structural Fixpoint on the depth with inner
   structural loops on the move list, `root_scores` is structural on the move list, and Coq
   accepts only terminating definitions; every call therefore returns one of Ok / Err / Panic.

   Built on UndoProofs.v, TurnFrame.v, EpFrame.v, GenFrame.v.  The caller's board has to satisfy
   the two position invariants  WF b  and  ep_wf b (turn b)  (see GenFrame.v); both are
   re-established at every node of the search (apply_move_WF, apply_pseudo_ep_wf,
   apply_move_keeps_turn), so no further assumption is needed for the frame theorems.
   Proofs only. *)
From Coq Require Import Lia List ZArith Permutation Sorted.
From ChessV Require Import BoardLemmas Game UndoProofs EpFrame GenFrame TurnFrame WfReflect.
Import ListNotations.
Open Scope N_scope.
Open Scope list_scope.

#[local] Arguments N.add : simpl never.
#[local] Arguments N.sub : simpl never.
#[local] Arguments N.mul : simpl never.
#[local] Arguments N.eqb : simpl never.
#[local] Arguments N.ltb : simpl never.
#[local] Arguments N.leb : simpl never.
#[local] Arguments N.land : simpl never.
#[local] Arguments N.lor : simpl never.
#[local] Arguments N.lxor : simpl never.
#[local] Arguments Z.max : simpl never.
#[local] Arguments Z.min : simpl never.
#[local] Arguments Z.leb : simpl never.
#[local] Arguments Z.ltb : simpl never.

(* ------------------------------------------------------------------ *)
(** * the two sorts are permutations; sort_desc sorts *)

Lemma insert_by_perm {A} (k : A -> N) x l : Permutation (insert_by k x l) (x :: l).
Proof.
  induction l as [|y r IH]; cbn [insert_by]; [reflexivity|].
  destruct (k x <? k y); [reflexivity|].
  apply perm_trans with (y :: x :: r); [apply perm_skip, IH|apply perm_swap].
Qed.

Lemma fold_insert_by_perm {A} (k : A -> N) l acc :
  Permutation (fold_left (fun acc x => insert_by k x acc) l acc) (l ++ acc).
Proof.
  revert acc. induction l as [|x l IH]; intro acc; cbn [fold_left app]; [reflexivity|].
  apply perm_trans with (l ++ insert_by k x acc); [apply IH|].
  apply perm_trans with (l ++ x :: acc); [apply Permutation_app_head, insert_by_perm|].
  apply Permutation_sym, Permutation_middle.
Qed.

Theorem stable_sort_perm {A} (k : A -> N) l : Permutation (stable_sort k l) l.
Proof. unfold stable_sort. rewrite <- (app_nil_r l) at 2. apply fold_insert_by_perm. Qed.

Corollary stable_sort_in {A} (k : A -> N) l x : In x (stable_sort k l) <-> In x l.
Proof.
  split; apply Permutation_in; [apply stable_sort_perm|apply Permutation_sym, stable_sort_perm].
Qed.

Corollary sort_moves_perm b l : Permutation (sort_moves b l) l.
Proof. apply stable_sort_perm. Qed.

Lemma insert_desc_perm x l : Permutation (insert_desc x l) (x :: l).
Proof.
  induction l as [|y r IH]; cbn [insert_desc]; [reflexivity|].
  destruct (fst y <? fst x)%Z; [reflexivity|].
  apply perm_trans with (y :: x :: r); [apply perm_skip, IH|apply perm_swap].
Qed.

Lemma fold_insert_desc_perm l acc :
  Permutation (fold_left (fun acc x => insert_desc x acc) l acc) (l ++ acc).
Proof.
  revert acc. induction l as [|x l IH]; intro acc; cbn [fold_left app]; [reflexivity|].
  apply perm_trans with (l ++ insert_desc x acc); [apply IH|].
  apply perm_trans with (l ++ x :: acc); [apply Permutation_app_head, insert_desc_perm|].
  apply Permutation_sym, Permutation_middle.
Qed.

Theorem sort_desc_perm l : Permutation (sort_desc l) l.
Proof. unfold sort_desc. rewrite <- (app_nil_r l) at 2. apply fold_insert_desc_perm. Qed.

Corollary sort_desc_in l x : In x (sort_desc l) <-> In x l.
Proof.
  split; apply Permutation_in; [apply sort_desc_perm|apply Permutation_sym, sort_desc_perm].
Qed.

Definition ge_fst (x y : Z * cmove) : Prop := (fst y <= fst x)%Z.

Lemma insert_desc_sorted x l : StronglySorted ge_fst l -> StronglySorted ge_fst (insert_desc x l).
Proof.
  induction l as [|y r IH]; intro S; cbn [insert_desc].
  - constructor; constructor.
  - apply StronglySorted_inv in S. destruct S as [Sr Fy].
    destruct (fst y <? fst x)%Z eqn:E.
    + apply Z.ltb_lt in E. constructor; [constructor; assumption|].
      constructor; [unfold ge_fst; lia|].
      apply Forall_forall. intros z Hz. rewrite Forall_forall in Fy. specialize (Fy z Hz).
      unfold ge_fst in *. lia.
    + apply Z.ltb_ge in E. constructor; [exact (IH Sr)|].
      apply (Permutation_Forall (Permutation_sym (insert_desc_perm x r))).
      constructor; [exact E|exact Fy].
Qed.

Theorem sort_desc_sorted l : StronglySorted ge_fst (sort_desc l).
Proof.
  unfold sort_desc.
  assert (G : forall acc, StronglySorted ge_fst acc ->
                StronglySorted ge_fst (fold_left (fun acc x => insert_desc x acc) l acc)).
  { induction l as [|x l IH]; intros acc S; cbn [fold_left]; [exact S|].
    apply IH, insert_desc_sorted, S. }
  apply G. constructor.
Qed.

Lemma sorted_head_max x t : StronglySorted ge_fst (x :: t) ->
  forall y, In y (x :: t) -> (fst y <= fst x)%Z.
Proof.
  intro S. apply StronglySorted_inv in S. destruct S as [_ F]. rewrite Forall_forall in F.
  intros y [E|Hy]; [subst y; lia|exact (F y Hy)].
Qed.

Lemma sorted_last_min l x : StronglySorted ge_fst (l ++ [x]) ->
  forall y, In y (l ++ [x]) -> (fst x <= fst y)%Z.
Proof.
  induction l as [|a l IH]; intros S y Hy.
  - destruct Hy as [E|[]]. subst y. lia.
  - cbn [app] in S. apply StronglySorted_inv in S. destruct S as [Sl F].
    destruct Hy as [E|Hy].
    + subst y. rewrite Forall_forall in F. apply (F x). apply in_or_app. right. left. reflexivity.
    + exact (IH Sl y Hy).
Qed.

(* ------------------------------------------------------------------ *)
(** * the loops of alpha_beta_minimax as standalone functions *)

Section Loops.
Variable T : ztable.
Variable rec : board -> Z -> Z -> bool -> res (Z * board).
Variable bound : Z.     (* beta in the maximising loop, alpha in the minimising loop *)

Fixpoint lp_max (ms : list (cmove * effect)) (bd : board) (value al : Z) {struct ms} : res (Z * board) :=
  match ms with
  | [] => Ok (value, bd)
  | me :: rest =>
      let* b2 := unwrap (apply_move T (fst me) bd) in
      let* (v, b4) := rec (toggle_turn b2) al bound false in
      let value' := Z.max value v in
      let* b5 := unwrap (undo_move T (fst me) b4) in
      let b6 := toggle_turn b5 in
      let al' := Z.max al value' in
      if (bound <=? al')%Z then Ok (value', b6) else lp_max rest b6 value' al'
  end.

Fixpoint lp_min (ms : list (cmove * effect)) (bd : board) (value be : Z) {struct ms} : res (Z * board) :=
  match ms with
  | [] => Ok (value, bd)
  | me :: rest =>
      let* b2 := unwrap (apply_move T (fst me) bd) in
      let* (v, b4) := rec (toggle_turn b2) bound be true in
      let value' := Z.min value v in
      let* b5 := unwrap (undo_move T (fst me) b4) in
      let b6 := toggle_turn b5 in
      let be' := Z.min be value' in
      if (be' <=? bound)%Z then Ok (value', b6) else lp_min rest b6 value' be'
  end.
End Loops.

Section Search.
Variable T : ztable.
Variables rook_t bishop_t : N -> N -> N.

Notation gen_moves := (gen_moves T rook_t bishop_t).
Notation gen_annotated := (gen_annotated T rook_t bishop_t).
Notation score := (score T rook_t bishop_t).
Notation ab := (ab T rook_t bishop_t).
Notation root_task := (root_task T rook_t bishop_t).
Notation root_scores := (root_scores T rook_t bishop_t).
Notation search := (search T rook_t bishop_t).
Notation applicable := (applicable T).
Notation cand_ok := (cand_ok T).

Let G_score_board := score_board T rook_t bishop_t.
Let G_gab := gen_annotated_board T rook_t bishop_t.
Let G_gasq := gen_annotated_cand_ok T rook_t bishop_t.

(* unfolding equations (all by conversion) *)
Lemma ab_0 b alpha beta mx : ab 0 b alpha beta mx = score b (turn b) 0.
Proof. reflexivity. Qed.

Lemma ab_S d' b alpha beta mx :
  ab (S d') b alpha beta mx =
  let* (cands, b1) := gen_annotated b (turn b) in
  let sorted := sort_moves b1 cands in
  if is_nil sorted then score b1 (turn b1) (N.of_nat (S d'))
  else if mx then lp_max T (ab d') beta sorted b1 I16_MIN alpha
  else lp_min T (ab d') alpha sorted b1 I16_MAX beta.
Proof. reflexivity. Qed.

Lemma root_task_unfold depth b m :
  root_task depth b m =
  let* b1 := unwrap (apply_move T m b) in
  let* (v, _) := ab (Nat.pred depth) (toggle_turn b1) I16_MIN I16_MAX (negb (maximize (turn b))) in
  Ok v.
Proof. reflexivity. Qed.

Lemma search_unfold depth b :
  search depth b =
  if depth <? 1 then SErr DepthTooLow
  else
    match gen_annotated b (turn b) with
    | Ok (cands, b1) =>
        let sorted := sort_moves b1 cands in
        match root_scores (N.to_nat depth) b1 sorted with
        | Ok scored =>
            let s1 := sort_desc scored in
            let s2 := if maximize (turn b1) then rev s1 else s1 in
            match rev s2 with
            | [] => SErr NoAvailableMoves
            | (v, m) :: _ => SOk (v, m, b1)
            end
        | _ => SPanic
        end
    | _ => SPanic
    end.
Proof. reflexivity. Qed.

(* ---------------- the board comes back ---------------- *)

Lemma undo_after_toggle m b b2 :
  WF b -> sq_ok m -> ep_ok m b = true -> apply_move T m b = Ok b2 ->
  undo_move T m (toggle_turn b2) = Ok (toggle_turn b).
Proof. intros W S P Ha. apply undo_move_toggle. exact (undo_apply T m b b2 W S P Ha). Qed.

(* the two position invariants pass to the child node *)
Lemma child_inv b m b2 :
  WF b -> cand_ok b (turn b) m -> apply_move T m b = Ok b2 ->
  WF (toggle_turn b2) /\ ep_wf (toggle_turn b2) (turn (toggle_turn b2)).
Proof.
  intros W (S & P & Hafter) Ha. split.
  - apply toggle_turn_WF. exact (apply_move_WF T m b b2 W S Ha).
  - change (ep_wf b2 (opp_c (turn b2))). rewrite (apply_move_keeps_turn T m b b2 Ha).
    exact (Hafter b2 Ha).
Qed.

Lemma lp_max_board rec bound :
  (forall b al be mx v b', WF b -> ep_wf b (turn b) -> rec b al be mx = Ok (v, b') -> b' = b) ->
  forall ms b value al v b', WF b -> Forall (cand_ok b (turn b)) (map fst ms) ->
    lp_max T rec bound ms b value al = Ok (v, b') -> b' = b.
Proof.
  intros Hrec. induction ms as [|me rest IH]; intros b value al v b' W S H.
  - cbn [lp_max] in H. inversion H; reflexivity.
  - cbn [lp_max] in H. cbn [map] in S. inversion S as [|? ? Sm Srest]; subst.
    bind_inv H b2 Ha. apply GF_unwrap_ok in Ha.
    bind_inv H vb Hr. destruct vb as [v1 b4]. cbv beta iota zeta in H.
    destruct (child_inv _ _ _ W Sm Ha) as [W2 E2].
    pose proof (Hrec _ _ _ _ _ _ W2 E2 Hr). subst b4.
    bind_inv H b5 Hu. apply GF_unwrap_ok in Hu.
    destruct Sm as (Sq & Pq & _).
    rewrite (undo_after_toggle _ _ _ W Sq Pq Ha) in Hu. inversion Hu; subst b5; clear Hu.
    rewrite toggle_turn_involutive in H.
    destruct (_ <=? _)%Z.
    + inversion H; reflexivity.
    + exact (IH _ _ _ _ _ W Srest H).
Qed.

Lemma lp_min_board rec bound :
  (forall b al be mx v b', WF b -> ep_wf b (turn b) -> rec b al be mx = Ok (v, b') -> b' = b) ->
  forall ms b value be v b', WF b -> Forall (cand_ok b (turn b)) (map fst ms) ->
    lp_min T rec bound ms b value be = Ok (v, b') -> b' = b.
Proof.
  intros Hrec. induction ms as [|me rest IH]; intros b value be v b' W S H.
  - cbn [lp_min] in H. inversion H; reflexivity.
  - cbn [lp_min] in H. cbn [map] in S. inversion S as [|? ? Sm Srest]; subst.
    bind_inv H b2 Ha. apply GF_unwrap_ok in Ha.
    bind_inv H vb Hr. destruct vb as [v1 b4]. cbv beta iota zeta in H.
    destruct (child_inv _ _ _ W Sm Ha) as [W2 E2].
    pose proof (Hrec _ _ _ _ _ _ W2 E2 Hr). subst b4.
    bind_inv H b5 Hu. apply GF_unwrap_ok in Hu.
    destruct Sm as (Sq & Pq & _).
    rewrite (undo_after_toggle _ _ _ W Sq Pq Ha) in Hu. inversion Hu; subst b5; clear Hu.
    rewrite toggle_turn_involutive in H.
    destruct (_ <=? _)%Z.
    + inversion H; reflexivity.
    + exact (IH _ _ _ _ _ W Srest H).
Qed.

Lemma sorted_sq_ok (P : cmove -> Prop) b l :
  Forall P (map fst l) -> Forall P (map fst (sort_moves b l)).
Proof.
  apply Permutation_Forall, Permutation_map, Permutation_sym, sort_moves_perm.
Qed.

(* alpha_beta_minimax returns the board it was given, at every depth, for every window *)
Theorem ab_board : forall d b alpha beta mx v b',
  WF b -> ep_wf b (turn b) -> ab d b alpha beta mx = Ok (v, b') -> b' = b.
Proof.
  induction d as [|d' IH]; intros b alpha beta mx v b' W E H.
  - rewrite ab_0 in H. exact (G_score_board _ _ _ _ _ W E H).
  - rewrite ab_S in H. bind_inv H cb Hg. destruct cb as [cands b1]. cbv beta iota zeta in H.
    destruct (G_gab _ _ _ _ W E Hg) as [Eb _].
    subst b1.
    destruct (G_gasq _ _ _ _ W E Hg) as [S _].
    destruct (is_nil _).
    + exact (G_score_board _ _ _ _ _ W E H).
    + destruct mx.
      * exact (lp_max_board (ab d') beta IH _ _ _ _ _ _ W (sorted_sq_ok _ b cands S) H).
      * exact (lp_min_board (ab d') alpha IH _ _ _ _ _ _ W (sorted_sq_ok _ b cands S) H).
Qed.

(* ---------------- root tasks and root scores ---------------- *)

Lemma root_scores_spec depth b : forall ms scored,
  root_scores depth b ms = Ok scored ->
  map snd scored = map fst ms /\
  forall v m, In (v, m) scored -> root_task depth b m = Ok v.
Proof.
  induction ms as [|me rest IH]; intros scored H.
  - cbn [Search.root_scores] in H. inversion H. split; [reflexivity|]. intros v m [].
  - cbn [Search.root_scores] in H. bind_inv H v0 Hv. bind_inv H r Hr. inversion H; subst; clear H.
    destruct (IH r Hr) as [Em Hin]. split.
    + cbn [map snd fst]. rewrite Em. reflexivity.
    + intros v m [E|Hm]; [inversion E; subst; exact Hv|exact (Hin v m Hm)].
Qed.

Lemma root_scores_total depth b : forall ms,
  (forall me, In me ms -> exists v, root_task depth b (fst me) = Ok v) ->
  exists scored, root_scores depth b ms = Ok scored.
Proof.
  induction ms as [|me rest IH]; intro Hall.
  - exists []. reflexivity.
  - destruct (Hall me (or_introl eq_refl)) as [v Hv].
    destruct (IH (fun me' Hin => Hall me' (or_intror Hin))) as [r Hr].
    exists ((v, fst me) :: r). cbn [Search.root_scores]. rewrite Hv. cbn [bind]. rewrite Hr. reflexivity.
Qed.

(* ---------------- search: the three outcomes ---------------- *)

Theorem search_depth0 : forall depth b, depth < 1 -> search depth b = SErr DepthTooLow.
Proof.
  intros depth b L. rewrite search_unfold. destruct (N.ltb_spec depth 1); [reflexivity|lia].
Qed.

Theorem search_no_moves : forall depth b b1,
  gen_annotated b (turn b) = Ok ([], b1) -> 1 <= depth ->
  search depth b = SErr NoAvailableMoves.
Proof.
  intros depth b b1 H L. rewrite search_unfold. destruct (N.ltb_spec depth 1); [lia|].
  rewrite H. cbv zeta. change (sort_moves b1 []) with (@nil (cmove * effect)).
  cbn [Search.root_scores]. change (sort_desc []) with (@nil (Z * cmove)).
  destruct (maximize (turn b1)); reflexivity.
Qed.

Lemma rev_nil_inv {A} (l : list A) : rev l = [] -> l = [].
Proof. intro H. rewrite <- (rev_involutive l), H. reflexivity. Qed.

(* everything `search` can say, read backwards *)
Lemma search_inv : forall depth b r,
  search depth b = r ->
  (depth < 1 /\ r = SErr DepthTooLow) \/
  (1 <= depth /\
   match gen_annotated b (turn b) with
   | Ok (cands, b1) =>
       match root_scores (N.to_nat depth) b1 (sort_moves b1 cands) with
       | Ok scored =>
           (cands = [] /\ r = SErr NoAvailableMoves) \/
           (exists v m, r = SOk (v, m, b1) /\ In (v, m) scored /\
              forall v' m', In (v', m') scored ->
                if maximize (turn b1) then (v' <= v)%Z else (v <= v')%Z)
       | _ => r = SPanic
       end
   | _ => r = SPanic
   end).
Proof.
  intros depth b r H. rewrite search_unfold in H.
  destruct (N.ltb_spec depth 1) as [L|L]; [left; split; [exact L|symmetry; exact H]|].
  right. split; [exact L|].
  destruct (gen_annotated b (turn b)) as [[cands b1]|e|]; [|symmetry; exact H|symmetry; exact H].
  cbv zeta in H.
  destruct (root_scores (N.to_nat depth) b1 (sort_moves b1 cands)) as [scored|e|] eqn:R;
    [|symmetry; exact H|symmetry; exact H].
  pose proof (sort_desc_sorted scored) as Ss.
  pose proof (sort_desc_perm scored) as Sp.
  destruct (maximize (turn b1)).
  - rewrite rev_involutive in H. destruct (sort_desc scored) as [|[v m] t] eqn:Es.
    + left. apply Permutation_nil in Sp. subst scored.
      destruct (root_scores_spec _ _ _ _ R) as [Em _]. cbn [map] in Em.
      symmetry in Em. apply map_eq_nil in Em.
      pose proof (sort_moves_perm b1 cands) as Pm. rewrite Em in Pm. apply Permutation_nil in Pm.
      split; [exact Pm|symmetry; exact H].
    + right. exists v, m. split; [symmetry; exact H|]. split.
      * apply (Permutation_in _ Sp). left. reflexivity.
      * intros v' m' Hin. apply (Permutation_in _ (Permutation_sym Sp)) in Hin.
        exact (sorted_head_max (v, m) t Ss (v', m') Hin).
  - destruct (rev (sort_desc scored)) as [|[v m] t] eqn:Er.
    + left. apply rev_nil_inv in Er. rewrite Er in Sp. apply Permutation_nil in Sp. subst scored.
      destruct (root_scores_spec _ _ _ _ R) as [Em _]. cbn [map] in Em.
      symmetry in Em. apply map_eq_nil in Em.
      pose proof (sort_moves_perm b1 cands) as Pm. rewrite Em in Pm. apply Permutation_nil in Pm.
      split; [exact Pm|symmetry; exact H].
    + right. exists v, m. split; [symmetry; exact H|].
      assert (Es : sort_desc scored = rev t ++ [(v, m)]).
      { rewrite <- (rev_involutive (sort_desc scored)), Er. reflexivity. }
      rewrite Es in Ss, Sp. split.
      * apply (Permutation_in _ Sp). apply in_or_app. right. left. reflexivity.
      * intros v' m' Hin. apply (Permutation_in _ (Permutation_sym Sp)) in Hin.
        exact (sorted_last_min (rev t) (v, m) Ss (v', m') Hin).
Qed.

(* the only errors are the two advertised ones, each exactly in its advertised situation *)
Theorem search_err_inv : forall depth b e,
  search depth b = SErr e ->
  (e = DepthTooLow /\ depth < 1) \/
  (e = NoAvailableMoves /\ 1 <= depth /\ exists b1, gen_annotated b (turn b) = Ok ([], b1)).
Proof.
  intros depth b e H. destruct (search_inv depth b _ H) as [[L E]|[L M]].
  - left. inversion E. split; [reflexivity|exact L].
  - right. destruct (gen_annotated b (turn b)) as [[cands b1]|e'|]; try discriminate M.
    destruct (root_scores _ _ _) as [scored|e'|]; try discriminate M.
    destruct M as [[Ec E]|[v [m [E _]]]]; [|discriminate E].
    inversion E. subst cands. split; [reflexivity|]. split; [exact L|]. exists b1. reflexivity.
Qed.

(* C07, main clause: whatever `search` returns as best move is one of the legal moves the
   generator lists for the caller's position, the depth was at least 1, and the board handed
   back is the caller's board *)
Theorem search_legal : forall depth b v m b1,
  WF b -> ep_wf b (turn b) -> search depth b = SOk (v, m, b1) ->
  1 <= depth /\ b1 = b /\
  exists cands, gen_annotated b (turn b) = Ok (cands, b) /\ In m (map fst cands)
                /\ gen_moves b (turn b) = Ok (map fst cands, b).
Proof.
  intros depth b v m b1 W Ew H. destruct (search_inv depth b _ H) as [[_ E]|[L M]]; [discriminate E|].
  split; [exact L|].
  destruct (gen_annotated b (turn b)) as [[cands b0]|e'|] eqn:G; try discriminate M.
  destruct (G_gab _ _ _ _ W Ew G) as [Eb Gm].
  subst b0.
  destruct (root_scores _ _ _) as [scored|e'|] eqn:R; try discriminate M.
  destruct M as [[_ E]|[v0 [m0 [E [Hin _]]]]]; [discriminate E|].
  inversion E; subst v0 m0 b1; clear E. split; [reflexivity|].
  exists cands. split; [reflexivity|]. split; [|exact Gm].
  destruct (root_scores_spec _ _ _ _ R) as [Em _].
  assert (Hm : In m (map snd scored)) by (apply in_map_iff; exists (v, m); split; [reflexivity|exact Hin]).
  rewrite Em in Hm.
  exact (Permutation_in _ (Permutation_map fst (sort_moves_perm b cands)) Hm).
Qed.

(* the bridge to C08: the value is the best root score for the side to move, and the move
   returned is a move whose root task produced exactly that value *)
Theorem search_value_in_root_scores : forall depth b v m b1,
  search depth b = SOk (v, m, b1) ->
  exists cands scored,
    gen_annotated b (turn b) = Ok (cands, b1) /\
    root_scores (N.to_nat depth) b1 (sort_moves b1 cands) = Ok scored /\
    In (v, m) scored /\ root_task (N.to_nat depth) b1 m = Ok v /\
    forall v' m', In (v', m') scored ->
      if maximize (turn b1) then (v' <= v)%Z else (v <= v')%Z.
Proof.
  intros depth b v m b1 H. destruct (search_inv depth b _ H) as [[_ E]|[L M]]; [discriminate E|].
  destruct (gen_annotated b (turn b)) as [[cands b0]|e'|] eqn:G; try discriminate M.
  destruct (root_scores _ _ _) as [scored|e'|] eqn:R; try discriminate M.
  destruct M as [[_ E]|[v0 [m0 [E [Hin Hbest]]]]]; [discriminate E|].
  inversion E; subst v0 m0 b0; clear E.
  exists cands, scored. split; [reflexivity|]. split; [exact R|]. split; [exact Hin|].
  split; [|exact Hbest].
  exact (proj2 (root_scores_spec _ _ _ _ R) v m Hin).
Qed.

(* `search` answers as soon as every root task answers *)
Theorem search_total_tasks : forall depth b cands b1,
  1 <= depth -> gen_annotated b (turn b) = Ok (cands, b1) -> cands <> [] ->
  (forall me, In me cands -> exists v, root_task (N.to_nat depth) b1 (fst me) = Ok v) ->
  exists v m, search depth b = SOk (v, m, b1).
Proof.
  intros depth b cands b1 L G Hne Htasks.
  destruct (root_scores_total (N.to_nat depth) b1 (sort_moves b1 cands)) as [scored R].
  { intros me Hin. apply Htasks. apply (Permutation_in _ (sort_moves_perm b1 cands)). exact Hin. }
  destruct (search_inv depth b _ eq_refl) as [[L' _]|[_ M]]; [lia|].
  rewrite G, R in M. destruct M as [[Ec _]|[v [m [E _]]]]; [contradiction|].
  exists v, m. exact E.
Qed.

(* Game.engine_select (book first, then search; after the D9 repair): whatever move the engine
   picks, from the book or from the search, is one of the generated legal moves of the
   game's current position *)
Theorem engine_select_legal : forall g choice m,
  WF (gboard g) -> ep_wf (gboard g) (turn (gboard g)) ->
  engine_select T rook_t bishop_t g choice = GOk m ->
  exists cands, gen_annotated (gboard g) (turn (gboard g)) = Ok (cands, gboard g)
                /\ In m (map fst cands).
Proof.
  intros g choice m W E H. unfold engine_select in H. cbv zeta in H.
  assert (Hs : match search (gdepth g) (gboard g) with
               | SOk (_, m0, _) => GOk m0 | SErr e => GSearchError e | SPanic => GPanic end = GOk m ->
               exists cands, gen_annotated (gboard g) (turn (gboard g)) = Ok (cands, gboard g)
                             /\ In m (map fst cands)).
  { intro Hr. destruct (search (gdepth g) (gboard g)) as [[[v m0] b1]|e|] eqn:S; try discriminate Hr.
    inversion Hr; subst m0; clear Hr.
    destruct (search_legal _ _ _ _ _ W E S) as [_ [_ [cands [Hg [Hin _]]]]].
    exists cands. split; assumption. }
  destruct (book_next BOOK (book_line_of (ghist g))) as [|bm next]; [exact (Hs H)|].
  destruct (gen_annotated (gboard g) (turn (gboard g))) as [[cands b1]|e|] eqn:G; try discriminate H.
  destruct (find _ cands) as [[m0 e0]|] eqn:F; [|exact (Hs H)].
  inversion H; subst m0; clear H.
  destruct (G_gab _ _ _ _ W E G) as [Eb _]. subst b1.
  exists cands. split; [reflexivity|].
  apply find_some in F. destruct F as [Hin _].
  apply in_map_iff. exists (m, e0). split; [reflexivity|exact Hin].
Qed.

(* ---------------- totality of the recursion under an invariant ---------------- *)

Section Total.
(* `Good` is any property of positions that (1) implies the two position invariants,
   (2) makes the generator answer, (3) is kept by playing a legal move and passing the turn,
   (4) makes the leaf scorer answer for every remaining depth up to D (no i16 overflow,
       stacks non-empty).  NOTE the bound: a checkmate is scored WHITE_WINS + remaining_depth
       (resp. BLACK_WINS - remaining_depth) in i16, which overflows for remaining_depth > 16384;
       the Rust depth is a u8, the model's `search` takes an unbounded N, so (4) cannot hold
       for every d.
   C12 / EvalProofs supply such a property; here it is a parameter. *)
Variable Good : board -> Prop.
Variable D : N.     (* the largest remaining depth ever passed to the scorer (u8 in the Rust code) *)
Hypothesis Good_inv : forall b, Good b -> WF b /\ ep_wf b (turn b).
Hypothesis Good_gen : forall b, Good b -> exists l b', gen_annotated b (turn b) = Ok (l, b').
Hypothesis Good_step : forall b ms m b1,
  Good b -> gen_moves b (turn b) = Ok (ms, b) -> In m ms -> apply_move T m b = Ok b1 ->
  Good (toggle_turn b1).
Hypothesis Good_score : forall b d, Good b -> d <= D -> exists v b', score b (turn b) d = Ok (v, b').

Definition step_ok (b : board) (m : cmove) : Prop :=
  sq_ok m /\ ep_ok m b = true /\ exists b1, apply_move T m b = Ok b1 /\ Good (toggle_turn b1).

Lemma lp_max_total rec bound :
  (forall b al be mx, Good b -> exists v, rec b al be mx = Ok (v, b)) ->
  forall ms b value al, WF b -> Forall (fun me => step_ok b (fst me)) ms ->
    exists v, lp_max T rec bound ms b value al = Ok (v, b).
Proof.
  intros Hrec. induction ms as [|me rest IH]; intros b value al W F.
  - exists value. reflexivity.
  - inversion F as [|? ? [Sm [Pm [b2 [Ha G2]]]] Frest]; subst.
    cbn [lp_max]. rewrite Ha. cbn [unwrap bind].
    destruct (Hrec (toggle_turn b2) al bound false G2) as [v1 Hr]. rewrite Hr. cbn [bind].
    cbv beta iota zeta.
    rewrite (undo_after_toggle _ _ _ W Sm Pm Ha). cbn [unwrap bind].
    rewrite toggle_turn_involutive.
    destruct (_ <=? _)%Z; [eexists; reflexivity|]. exact (IH b _ _ W Frest).
Qed.

Lemma lp_min_total rec bound :
  (forall b al be mx, Good b -> exists v, rec b al be mx = Ok (v, b)) ->
  forall ms b value be, WF b -> Forall (fun me => step_ok b (fst me)) ms ->
    exists v, lp_min T rec bound ms b value be = Ok (v, b).
Proof.
  intros Hrec. induction ms as [|me rest IH]; intros b value be W F.
  - exists value. reflexivity.
  - inversion F as [|? ? [Sm [Pm [b2 [Ha G2]]]] Frest]; subst.
    cbn [lp_min]. rewrite Ha. cbn [unwrap bind].
    destruct (Hrec (toggle_turn b2) bound be true G2) as [v1 Hr]. rewrite Hr. cbn [bind].
    cbv beta iota zeta.
    rewrite (undo_after_toggle _ _ _ W Sm Pm Ha). cbn [unwrap bind].
    rewrite toggle_turn_involutive.
    destruct (_ <=? _)%Z; [eexists; reflexivity|]. exact (IH b _ _ W Frest).
Qed.

(* every generated legal move can be made, and leads to a Good position *)
Lemma legal_steps b l b' :
  Good b -> gen_annotated b (turn b) = Ok (l, b') ->
  b' = b /\ forall m, In m (map fst l) -> step_ok b m.
Proof.
  intros G H. destruct (Good_inv b G) as [W E].
  destruct (G_gab _ _ _ _ W E H) as [Eb Gm].
  destruct (G_gasq _ _ _ _ W E H) as [S A].
  split; [exact Eb|]. intros m Hin.
  rewrite Forall_forall in S, A. destruct (S m Hin) as (Sq & Pq & _).
  split; [exact Sq|]. split; [exact Pq|].
  destruct (A m Hin) as [b1 Ha]. exists b1. split; [exact Ha|].
  exact (Good_step b _ m b1 G Gm Hin Ha).
Qed.

(* alpha_beta_minimax answers (never Panic, never Err) on Good positions, and hands the
   position back *)
Theorem ab_total : forall d b alpha beta mx,
  N.of_nat d <= D -> Good b -> exists v, ab d b alpha beta mx = Ok (v, b).
Proof.
  induction d as [|d' IH]; intros b alpha beta mx LD G; destruct (Good_inv b G) as [W E].
  - rewrite ab_0. destruct (Good_score b 0 G LD) as [v [b' Hs]]. exists v.
    rewrite Hs. rewrite (G_score_board _ _ _ _ _ W E Hs). reflexivity.
  - rewrite ab_S. destruct (Good_gen b G) as [l [b' Hg]].
    destruct (legal_steps b l b' G Hg) as [Eb Hsteps]. subst b'.
    rewrite Hg. cbn [bind]. cbv beta iota zeta.
    destruct (is_nil _).
    + destruct (Good_score b (N.of_nat (S d')) G LD) as [v [b' Hs]]. exists v.
      rewrite Hs. rewrite (G_score_board _ _ _ _ _ W E Hs). reflexivity.
    + assert (F : Forall (fun me => step_ok b (fst me)) (sort_moves b l)).
      { apply Forall_forall. intros me Hin. apply Hsteps. apply in_map.
        exact (Permutation_in _ (sort_moves_perm b l) Hin). }
      assert (LD' : N.of_nat d' <= D) by lia.
      destruct mx.
      * exact (lp_max_total (ab d') beta (fun b0 al be mx0 G0 => IH b0 al be mx0 LD' G0) _ b _ _ W F).
      * exact (lp_min_total (ab d') alpha (fun b0 al be mx0 G0 => IH b0 al be mx0 LD' G0) _ b _ _ W F).
Qed.

Theorem root_task_total : forall depth b l b' m,
  N.of_nat (Nat.pred depth) <= D ->
  Good b -> gen_annotated b (turn b) = Ok (l, b') -> In m (map fst l) ->
  exists v, root_task depth b m = Ok v.
Proof.
  intros depth b l b' m LD G Hg Hin.
  destruct (legal_steps b l b' G Hg) as [_ Hsteps].
  destruct (Hsteps m Hin) as [_ [_ [b1 [Ha G1]]]].
  rewrite root_task_unfold, Ha. cbn [unwrap bind].
  destruct (ab_total (Nat.pred depth) (toggle_turn b1) I16_MIN I16_MAX (negb (maximize (turn b))) LD G1) as [v Hv].
  rewrite Hv. cbn [bind]. exists v. reflexivity.
Qed.

(* C07 on Good positions: at depth >= 1 the search answers SOk with a legal move and the
   caller's board when there is a legal move, and NoAvailableMoves when there is none;
   SPanic is impossible *)
Theorem search_total : forall depth b,
  Good b -> 1 <= depth -> depth <= D ->
  (exists v m (cands : list (cmove * effect)), search depth b = SOk (v, m, b)
       /\ gen_moves b (turn b) = Ok (map fst cands, b) /\ In m (map fst cands))
  \/ (search depth b = SErr NoAvailableMoves /\ gen_moves b (turn b) = Ok ([], b)).
Proof.
  intros depth b G L LD. destruct (Good_inv b G) as [W E].
  destruct (Good_gen b G) as [l [b' Hg]].
  destruct (legal_steps b l b' G Hg) as [Eb _]. subst b'.
  destruct l as [|me0 l0] eqn:El.
  - right. split; [exact (search_no_moves depth b b Hg L)|].
    exact (proj2 (G_gab _ _ _ _ W E Hg)).
  - left. rewrite <- El in Hg.
    destruct (search_total_tasks depth b l b L Hg) as [v [m Hs]].
    { rewrite El. discriminate. }
    { intros me Hin. apply (root_task_total _ b l b (fst me)); [lia|exact G|exact Hg|].
      apply in_map. exact Hin. }
    destruct (search_legal depth b v m b W E Hs) as [_ [_ [cands [Hg' [Hin Gm]]]]].
    exists v, m, cands. split; [exact Hs|]. split; [exact Gm|exact Hin].
Qed.

Theorem search_never_panics : forall depth b, Good b -> depth <= D -> search depth b <> SPanic.
Proof.
  intros depth b G LD. destruct (N.ltb_spec depth 1) as [L|L].
  - rewrite (search_depth0 depth b L). discriminate.
  - destruct (search_total depth b G L LD) as [[v [m [cands [E _]]]]|[E _]]; rewrite E; discriminate.
Qed.

End Total.
End Search.

(* ------------------------------------------------------------------ *)
(** * non-vacuity: 6k1/5ppp/8/8/8/8/8/R3K2R w — mate in one by Ra8 *)

Fixpoint SF_put_all (b : board) (l : list (N * piece * color)) : board :=
  match l with
  | [] => b
  | (i, p, c) :: r => match put example_table b i p c with Ok b' => SF_put_all b' r | _ => b end
  end.

Definition SF_mate1 : board :=
  set_cr (SF_put_all board_new
            [(4, King, White); (0, Rook, White); (7, Rook, White);
             (62, King, Black); (53, Pawn, Black); (54, Pawn, Black); (55, Pawn, Black)]) [10].

Definition SF_mated : board :=
  match apply_move example_table (Std 0 56 None) SF_mate1 with
  | Ok b => toggle_turn b
  | _ => board_new
  end.

Example SF_mate1_inv : WF SF_mate1 /\ ep_wf SF_mate1 (turn SF_mate1).
Proof.
  split.
  - apply (wf_b_WF SF_mate1). vm_compute. reflexivity.
  - intros t H. vm_compute in H. inversion H. left. reflexivity.
Qed.

Example search_mate_in_one :
  search example_table rook_ref bishop_ref 1 SF_mate1 = SOk (WHITE_WINS, Std 0 56 None, SF_mate1).
Proof. vm_compute. reflexivity. Qed.

Example search_mate_in_one_depth2 :
  search example_table rook_ref bishop_ref 2 SF_mate1 = SOk ((WHITE_WINS + 1)%Z, Std 0 56 None, SF_mate1).
Proof. vm_compute. reflexivity. Qed.

Example search_depth_zero :
  search example_table rook_ref bishop_ref 0 SF_mate1 = SErr DepthTooLow.
Proof. vm_compute. reflexivity. Qed.

Example search_mated :
  turn SF_mated = Black /\
  search example_table rook_ref bishop_ref 1 SF_mated = SErr NoAvailableMoves.
Proof. vm_compute. split; reflexivity. Qed.

Example ab_board_nonvacuous :
  ab example_table rook_ref bishop_ref 1 SF_mate1 I16_MIN I16_MAX true = Ok (WHITE_WINS, SF_mate1).
Proof. vm_compute. reflexivity. Qed.

(* the hypotheses of Section Total are satisfiable on a real position (D = 3; the position is
   checkmate, so Good_step is about an empty move list) *)
Example total_hypotheses_satisfiable :
  (WF SF_mated /\ ep_wf SF_mated (turn SF_mated)) /\
  (exists l b', gen_annotated example_table rook_ref bishop_ref SF_mated (turn SF_mated) = Ok (l, b')) /\
  (forall d, d <= 3 -> exists v b', score example_table rook_ref bishop_ref SF_mated (turn SF_mated) d = Ok (v, b')) /\
  gen_moves example_table rook_ref bishop_ref SF_mated (turn SF_mated) = Ok ([], SF_mated).
Proof.
  split; [|split; [|split]].
  - split; [apply (wf_b_WF SF_mated); vm_compute; reflexivity|].
    intros t H. vm_compute in H. inversion H. left. reflexivity.
  - eexists. eexists. vm_compute. reflexivity.
  - intros d Hd.
    assert (Hc : In d [0; 1; 2; 3]) by (cbn [In]; lia).
    assert (Hall : forallb (fun d => match score example_table rook_ref bishop_ref SF_mated (turn SF_mated) d with
                                     | Ok _ => true | _ => false end) [0; 1; 2; 3] = true)
      by (vm_compute; reflexivity).
    rewrite forallb_forall in Hall. specialize (Hall d Hc).
    destruct (score example_table rook_ref bishop_ref SF_mated (turn SF_mated) d) as [[v b']| |]; try discriminate.
    exists v, b'. reflexivity.
  - vm_compute. reflexivity.
Qed.

Print Assumptions ab_board.
Print Assumptions search_legal.
Print Assumptions search_err_inv.
Print Assumptions search_value_in_root_scores.
Print Assumptions search_total.
Print Assumptions engine_select_legal.
