(* BookProofs.v — C15: every line of the opening book (gen/BookLines.v, regenerated from
   /repo/opening_lines.txt on every run) is a legal sequence of moves from the standard
   starting position, judged by the FIDE-rules spec (Rules.v); and the book trie of
   /repo/src/book/mod.rs (add_line / get_next_moves) returns exactly the continuations that
   Game.book_next computes from the flat list of lines.

   Every fact about the DATA is proved by vm_compute over BOOK_LINES (a complete sweep of a
   finite list) and lifted with forallb_forall; the trie theorem is proved for ALL lists of
   lines and ALL histories by induction. *)
From Coq Require Import Lia NArith List Bool Permutation.
From ChessV Require Import Game.
From ChessV Require Rules.
Import ListNotations.
Close Scope string_scope.
Open Scope N_scope.
Open Scope list_scope.


(* ================================================================================== *)
(** * 1. Playing a book line over the rules spec                                       *)
(* ================================================================================== *)

(* How the engine matches a book move (game.rs, select_waterfall_book_then_alpha_beta_best_move):
     candidates.iter().find(|m| m.from_square() == from && m.to_square() == to)
   i.e. the FIRST generated move with that origin and destination.  Rules.legal_moves lists
   the same set of moves in a different order from the engine's generator; "first match"
   only matters when several legal moves share (from, to), which happens only for the four
   promotions of one pawn step.  `book_lines_unambiguous` below shows that on the book data
   the match is always unique, so the order is immaterial here. *)
Definition bm_match (bm : N * N) (m : cmove) : bool :=
  (mv_from m =? fst bm) && (mv_to m =? snd bm).

Definition find_bm (p : Rules.position) (bm : N * N) : option cmove :=
  find (bm_match bm) (Rules.legal_moves p).

Fixpoint play_line (p : Rules.position) (line : list (N * N)) : bool :=
  match line with
  | [] => true
  | bm :: r =>
      match find_bm p bm with
      | Some m => play_line (Rules.succ_turn p m) r
      | None => false
      end
  end.

(* the position reached (None as soon as a move is not legal) *)
Fixpoint reach (p : Rules.position) (line : list (N * N)) : option Rules.position :=
  match line with
  | [] => Some p
  | bm :: r =>
      match find_bm p bm with
      | Some m => reach (Rules.succ_turn p m) r
      | None => None
      end
  end.

Lemma play_line_reach : forall line p,
  play_line p line = true <-> exists q, reach p line = Some q.
Proof.
  induction line as [|bm r IH]; intros p; cbn [play_line reach].
  - split; [intros _; exists p; reflexivity | reflexivity].
  - destruct (find_bm p bm) as [m|].
    + apply IH.
    + split; [discriminate | intros [q Hq]; discriminate].
Qed.

Lemma reach_app : forall a b p,
  reach p (a ++ b) = match reach p a with Some q => reach q b | None => None end.
Proof.
  induction a as [|bm a IH]; intros b p; cbn [app reach].
  - reflexivity.
  - destruct (find_bm p bm) as [m|]; [apply IH | reflexivity].
Qed.

Lemma play_line_app : forall a b p,
  play_line p (a ++ b) = true <-> exists q, reach p a = Some q /\ play_line q b = true.
Proof.
  induction a as [|bm a IH]; intros b p; cbn [app play_line reach].
  - split.
    + intros H; exists p; split; [reflexivity | exact H].
    + intros [q [Hq H]]; injection Hq as <-; exact H.
  - destruct (find_bm p bm) as [m|].
    + apply IH.
    + split; [discriminate | intros [q [Hq _]]; discriminate].
Qed.

(* play_line is prefix-closed *)
Lemma play_line_firstn : forall line p k,
  play_line p line = true -> play_line p (firstn k line) = true.
Proof.
  induction line as [|bm r IH]; intros p k H.
  - destruct k; reflexivity.
  - destruct k as [|k]; [reflexivity|].
    cbn [firstn play_line] in *.
    destruct (find_bm p bm) as [m|]; [apply IH; exact H | discriminate].
Qed.

Lemma play_line_prefix : forall a b p,
  play_line p (a ++ b) = true -> play_line p a = true.
Proof.
  intros a b p H. apply play_line_app in H. destruct H as [q [Hq _]].
  apply play_line_reach. exists q; exact Hq.
Qed.

Lemma find_bm_legal : forall p bm m,
  find_bm p bm = Some m ->
  In m (Rules.legal_moves p) /\ mv_from m = fst bm /\ mv_to m = snd bm.
Proof.
  intros p bm m H. unfold find_bm in H. apply find_some in H. destruct H as [Hin Hm].
  unfold bm_match in Hm. apply andb_true_iff in Hm. destruct Hm as [H1 H2].
  apply N.eqb_eq in H1. apply N.eqb_eq in H2. auto.
Qed.

(* ================================================================================== *)
(** * 2. C15 on the data: a complete sweep of BOOK_LINES                               *)
(* ================================================================================== *)

(* measured: about 3 s (74 lines, 369 plies) *)
Lemma book_lines_legal :
  forallb (fun l => play_line Rules.initial_position (snd l)) BOOK_LINES = true.
Proof. vm_compute. reflexivity. Qed.

(* lifted: every prefix of every book line is a legal sequence from the initial position *)
Theorem book_lines_prefix_legal : forall ln line,
  In (ln, line) BOOK_LINES ->
  forall k, play_line Rules.initial_position (firstn k line) = true.
Proof.
  intros ln line Hin k. apply play_line_firstn.
  pose proof book_lines_legal as H. rewrite forallb_forall in H.
  apply (H (ln, line) Hin).
Qed.

Corollary book_lines_reach : forall ln line,
  In (ln, line) BOOK_LINES ->
  forall k, exists q, reach Rules.initial_position (firstn k line) = Some q.
Proof.
  intros ln line Hin k. apply play_line_reach. eapply book_lines_prefix_legal; eauto.
Qed.

(* the book is not empty and the statement is about real lines: the longest line (Sicilian
   Dragon, 10 plies) is in the book and is played through *)
Example book_lines_legal_nonvacuous :
  In (41, [(12, 28); (50, 34); (6, 21); (51, 43); (11, 27); (34, 27); (21, 27); (62, 45); (1, 18); (54, 46)])
     BOOK_LINES
  /\ length BOOK_LINES = 74%nat
  /\ play_line Rules.initial_position [(12, 28); (50, 34); (6, 21); (51, 43); (11, 27)] = true
  /\ play_line Rules.initial_position [(12, 28); (12, 28)] = false.
Proof. vm_compute. repeat split; auto 50. Qed.

(* ---- the match is unique at every ply of every line (no promotion ambiguity) ---- *)
Definition unique_bm (p : Rules.position) (bm : N * N) : option cmove :=
  match filter (bm_match bm) (Rules.legal_moves p) with
  | [m] => Some m
  | _ => None
  end.

Fixpoint play_line_u (p : Rules.position) (line : list (N * N)) : bool :=
  match line with
  | [] => true
  | bm :: r =>
      match unique_bm p bm with
      | Some m => play_line_u (Rules.succ_turn p m) r
      | None => false
      end
  end.

Lemma find_filter_hd : forall {A} (f : A -> bool) (l : list A),
  find f l = hd_error (filter f l).
Proof.
  intros A f l. induction l as [|x r IH]; cbn [find filter]; [reflexivity|].
  destruct (f x); [reflexivity | exact IH].
Qed.

Lemma unique_bm_find : forall p bm m, unique_bm p bm = Some m -> find_bm p bm = Some m.
Proof.
  intros p bm m H. unfold unique_bm in H. unfold find_bm. rewrite find_filter_hd.
  destruct (filter (bm_match bm) (Rules.legal_moves p)) as [|x [|y r]]; try discriminate.
  injection H as ->. reflexivity.
Qed.

Lemma play_line_u_sound : forall line p, play_line_u p line = true -> play_line p line = true.
Proof.
  induction line as [|bm r IH]; intros p H; [reflexivity|].
  cbn [play_line_u play_line] in *.
  destruct (unique_bm p bm) as [m|] eqn:E; [|discriminate].
  rewrite (unique_bm_find _ _ _ E). apply IH; exact H.
Qed.

Lemma book_lines_unambiguous :
  forallb (fun l => play_line_u Rules.initial_position (snd l)) BOOK_LINES = true.
Proof. vm_compute. reflexivity. Qed.

Lemma play_line_u_app : forall a b p,
  play_line_u p (a ++ b) = true -> exists q, reach p a = Some q /\ play_line_u q b = true.
Proof.
  induction a as [|bm a IH]; intros b p H; cbn [app play_line_u reach] in *.
  - exists p; auto.
  - destruct (unique_bm p bm) as [m|] eqn:E; [|discriminate].
    rewrite (unique_bm_find _ _ _ E). apply IH; exact H.
Qed.

(* at every point h of every book line, exactly one legal move of the position reached has
   the origin and destination of the book's next move *)
Theorem book_match_unique : forall ln line h bm s,
  In (ln, line) BOOK_LINES -> line = h ++ bm :: s ->
  exists q m, reach Rules.initial_position h = Some q
              /\ filter (bm_match bm) (Rules.legal_moves q) = [m].
Proof.
  intros ln line h bm s Hin ->.
  pose proof book_lines_unambiguous as H. rewrite forallb_forall in H.
  specialize (H _ Hin). cbn [snd] in H.
  apply play_line_u_app in H. destruct H as [q [Hq Hu]].
  cbn [play_line_u] in Hu. unfold unique_bm in Hu.
  destruct (filter (bm_match bm) (Rules.legal_moves q)) as [|m [|y r]] eqn:E; try discriminate.
  exists q, m; auto.
Qed.

(* ================================================================================== *)
(** * 3. The trie of src/book/mod.rs                                                   *)
(* ================================================================================== *)

(* BookNode { lines : FxHashMap<BookMove, Box<BookNode>>, line_name } — the line_name field
   does not influence which moves are returned and is dropped.  The hash map is modelled as
   an association list with pairwise distinct keys whose ORDER is unspecified: after every
   update the list passes through an arbitrary `reorder` function that is only assumed to
   return a permutation of its argument (this covers insertion anywhere and rehashing).
   Results are therefore compared as sets (same members, no duplicates). *)
Inductive trie := Node (children : list ((N * N) * trie)).
Definition children (t : trie) : list ((N * N) * trie) := match t with Node cs => cs end.
Definition empty_trie : trie := Node [].

(* FxHashMap::get *)
Fixpoint trie_lookup (bm : N * N) (cs : list ((N * N) * trie)) : option trie :=
  match cs with
  | [] => None
  | (k, t) :: r => if bm_eqb bm k then Some t else trie_lookup bm r
  end.

Definition remove_key (bm : N * N) (cs : list ((N * N) * trie)) : list ((N * N) * trie) :=
  filter (fun kt => negb (bm_eqb bm (fst kt))) cs.

(* Book::get_next_moves: walk down; a missing child yields vec![] *)
Fixpoint trie_walk (t : trie) (h : list (N * N)) : option trie :=
  match h with
  | [] => Some t
  | bm :: r =>
      match trie_lookup bm (children t) with
      | Some t' => trie_walk t' r
      | None => None
      end
  end.

Definition get_next_moves (t : trie) (h : list (N * N)) : list (N * N) :=
  match trie_walk t h with
  | Some t' => map fst (children t')
  | None => []
  end.

(* all keys distinct, hereditarily: the map invariant *)
Inductive wk : trie -> Prop :=
| wk_node : forall cs,
    NoDup (map fst cs) -> (forall k t, In (k, t) cs -> wk t) -> wk (Node cs).

Definition has_path (t : trie) (p : list (N * N)) : Prop := exists t', trie_walk t p = Some t'.
Definition bm_prefix (p l : list (N * N)) : Prop := exists s, l = p ++ s.

Lemma bm_eqb_eq : forall a b, bm_eqb a b = true <-> a = b.
Proof.
  intros [a1 a2] [b1 b2]. unfold bm_eqb. cbn [fst snd].
  rewrite andb_true_iff, !N.eqb_eq. split.
  - intros [-> ->]; reflexivity.
  - intros H; injection H; auto.
Qed.

Lemma bm_eqb_refl : forall a, bm_eqb a a = true.
Proof. intros a. apply bm_eqb_eq. reflexivity. Qed.

Lemma bm_eqb_neq : forall a b, bm_eqb a b = false <-> a <> b.
Proof.
  intros a b. split.
  - intros H E. apply bm_eqb_eq in E. congruence.
  - intros H. destruct (bm_eqb a b) eqn:E; [apply bm_eqb_eq in E; contradiction | reflexivity].
Qed.

Lemma bm_eq_dec : forall a b : N * N, {a = b} + {a <> b}.
Proof. decide equality; apply N.eq_dec. Qed.

Lemma lookup_In_weak : forall bm cs t, trie_lookup bm cs = Some t -> In (bm, t) cs.
Proof.
  intros bm cs t. induction cs as [|[k t'] r IH]; cbn [trie_lookup]; [discriminate|].
  destruct (bm_eqb bm k) eqn:E.
  - apply bm_eqb_eq in E. subst k. intros [= ->]. left; reflexivity.
  - intros H. right. apply IH; exact H.
Qed.

Lemma lookup_In : forall bm cs t,
  NoDup (map fst cs) -> (trie_lookup bm cs = Some t <-> In (bm, t) cs).
Proof.
  intros bm cs t Hnd. split; [apply lookup_In_weak|].
  induction cs as [|[k t'] r IH]; cbn [trie_lookup]; [contradiction|].
  cbn [map fst] in Hnd. inversion Hnd as [|x l Hnotin Hnd']; subst.
  intros [Heq | Hin].
  - injection Heq as -> ->. rewrite bm_eqb_refl. reflexivity.
  - destruct (bm_eqb bm k) eqn:E.
    + apply bm_eqb_eq in E. subst k. exfalso. apply Hnotin.
      apply (in_map fst) in Hin. exact Hin.
    + apply IH; assumption.
Qed.

Lemma lookup_None : forall bm cs, trie_lookup bm cs = None <-> ~ In bm (map fst cs).
Proof.
  intros bm cs. induction cs as [|[k t'] r IH]; cbn [trie_lookup map fst].
  - split; [intros _ [] | reflexivity].
  - destruct (bm_eqb bm k) eqn:E.
    + apply bm_eqb_eq in E. subst k. split; [discriminate | intros H; exfalso; apply H; left; reflexivity].
    + apply bm_eqb_neq in E. rewrite IH. split.
      * intros H [H1 | H1]; [apply E; symmetry; exact H1 | apply H; exact H1].
      * intros H H1. apply H. right; exact H1.
Qed.

Lemma in_keys_lookup : forall bm cs, In bm (map fst cs) <-> exists t, trie_lookup bm cs = Some t.
Proof.
  intros bm cs. destruct (trie_lookup bm cs) as [t|] eqn:E.
  - split; [intros _; exists t; reflexivity|].
    intros _. apply lookup_In_weak in E. apply (in_map fst) in E. exact E.
  - apply lookup_None in E. split; [contradiction | intros [t Ht]; discriminate].
Qed.

Lemma NoDup_map_filter : forall {A B} (g : A -> B) (f : A -> bool) (l : list A),
  NoDup (map g l) -> NoDup (map g (filter f l)).
Proof.
  intros A B g f l. induction l as [|x r IH]; cbn [map filter]; intros H; [constructor|].
  inversion H as [|y l' Hnotin Hnd]; subst.
  destruct (f x); cbn [map]; [|apply IH; exact Hnd].
  constructor; [|apply IH; exact Hnd].
  intros Hin. apply Hnotin. apply in_map_iff in Hin. destruct Hin as [z [Hz Hin]].
  apply filter_In in Hin. destruct Hin as [Hin _]. rewrite <- Hz. apply in_map. exact Hin.
Qed.

Lemma walk_app : forall a b t,
  trie_walk t (a ++ b) = match trie_walk t a with Some t' => trie_walk t' b | None => None end.
Proof.
  induction a as [|bm a IH]; intros b t; cbn [app trie_walk]; [reflexivity|].
  destruct (trie_lookup bm (children t)) as [t'|]; [apply IH | reflexivity].
Qed.

Lemma has_path_nil : forall t, has_path t [].
Proof. intros t. exists t. reflexivity. Qed.

Lemma has_path_empty : forall p, has_path empty_trie p -> p = [].
Proof. intros [|m p] [t' H]; [reflexivity | cbn in H; discriminate]. Qed.

Lemma has_path_cons : forall cs m p,
  has_path (Node cs) (m :: p) <-> exists t', trie_lookup m cs = Some t' /\ has_path t' p.
Proof.
  intros cs m p. unfold has_path. cbn [trie_walk children]. split.
  - intros [t'' H]. destruct (trie_lookup m cs) as [t'|]; [|discriminate].
    exists t'. split; [reflexivity | exists t''; exact H].
  - intros [t' [Hl [t'' H]]]. rewrite Hl. exists t''; exact H.
Qed.

Lemma prefix_nil : forall l, bm_prefix [] l.
Proof. intros l. exists l. reflexivity. Qed.

Lemma prefix_cons : forall m p bm rest,
  bm_prefix (m :: p) (bm :: rest) <-> m = bm /\ bm_prefix p rest.
Proof.
  intros m p bm rest. unfold bm_prefix. split.
  - intros [s H]. cbn [app] in H. injection H as -> ->. split; [reflexivity | exists s; reflexivity].
  - intros [-> [s ->]]. exists s. reflexivity.
Qed.

Lemma prefix_of_nil : forall p, bm_prefix p [] -> p = [].
Proof. intros [|m p] [s H]; [reflexivity | cbn in H; discriminate]. Qed.

Lemma wk_empty : wk empty_trie.
Proof. constructor; [constructor | intros k t []]. Qed.

Lemma wk_walk : forall h t t', wk t -> trie_walk t h = Some t' -> wk t'.
Proof.
  induction h as [|bm r IH]; intros t t' Hwk H; cbn [trie_walk] in H.
  - injection H as <-. exact Hwk.
  - destruct (trie_lookup bm (children t)) as [t1|] eqn:E; [|discriminate].
    apply (IH t1); [|exact H].
    destruct Hwk as [cs Hnd Hall]. cbn [children] in E.
    apply lookup_In_weak in E. apply (Hall _ _ E).
Qed.

Section Trie.
Variable reorder : list ((N * N) * trie) -> list ((N * N) * trie).
Hypothesis reorder_perm : forall l, Permutation (reorder l) l.

(* curr_node.lines.entry(book_move).or_insert_with(BookNode::new), then the rest of the line
   is added below that entry *)
Definition trie_upd (bm : N * N) (f : trie -> trie) (cs : list ((N * N) * trie)) : list ((N * N) * trie) :=
  reorder (match trie_lookup bm cs with
           | Some t0 => (bm, f t0) :: remove_key bm cs
           | None => (bm, f empty_trie) :: cs
           end).

(* Book::add_line *)
Fixpoint add_line (line : list (N * N)) (t : trie) : trie :=
  match line with
  | [] => t
  | bm :: rest => Node (trie_upd bm (add_line rest) (children t))
  end.

(* create_book (generated by precompile/src/book/book_generator.rs): Book::new() followed by
   one add_line per line of opening_lines.txt, in file order *)
Definition create_book (lines : list (list (N * N))) : trie :=
  fold_left (fun t l => add_line l t) lines empty_trie.

Definition old_child (bm : N * N) (cs : list ((N * N) * trie)) : trie :=
  match trie_lookup bm cs with Some t0 => t0 | None => empty_trie end.

Lemma in_trie_upd : forall bm f cs m t',
  In (m, t') (trie_upd bm f cs) <->
  (m = bm /\ t' = f (old_child bm cs)) \/ (m <> bm /\ In (m, t') cs).
Proof.
  intros bm f cs m t'. unfold trie_upd, old_child.
  assert (Hp : forall l, In (m, t') (reorder l) <-> In (m, t') l).
  { intros l. split; apply Permutation_in;
      [apply reorder_perm | apply Permutation_sym; apply reorder_perm]. }
  rewrite Hp. destruct (trie_lookup bm cs) as [t0|] eqn:E; cbn [In].
  - unfold remove_key. rewrite filter_In. cbn [fst]. split.
    + intros [H | [Hin Hne]].
      * injection H as <- <-. left; auto.
      * right. split; [|exact Hin]. apply negb_true_iff, bm_eqb_neq in Hne.
        intros ->; apply Hne; reflexivity.
    + intros [[-> ->] | [Hne Hin]]; [left; reflexivity|].
      right. split; [exact Hin|]. apply negb_true_iff, bm_eqb_neq. intros ->; apply Hne; reflexivity.
  - split.
    + intros [H | Hin].
      * injection H as <- <-. left; auto.
      * right. split; [|exact Hin]. intros ->.
        apply lookup_None in E. apply E. apply (in_map fst) in Hin. exact Hin.
    + intros [[-> ->] | [_ Hin]]; [left; reflexivity | right; exact Hin].
Qed.

Lemma keys_trie_upd : forall bm f cs, NoDup (map fst cs) -> NoDup (map fst (trie_upd bm f cs)).
Proof.
  intros bm f cs Hnd. unfold trie_upd.
  eapply Permutation_NoDup.
  { apply Permutation_map. apply Permutation_sym. apply reorder_perm. }
  destruct (trie_lookup bm cs) as [t0|] eqn:E; cbn [map fst]; constructor.
  - unfold remove_key. intros Hin. apply in_map_iff in Hin. destruct Hin as [[k t] [Hk Hin]].
    cbn [fst] in Hk. subst k. apply filter_In in Hin. destruct Hin as [_ Hne].
    cbn [fst] in Hne. rewrite bm_eqb_refl in Hne. discriminate.
  - apply NoDup_map_filter. exact Hnd.
  - apply lookup_None. exact E.
  - exact Hnd.
Qed.

Lemma wk_old_child : forall bm cs, wk (Node cs) -> wk (old_child bm cs).
Proof.
  intros bm cs Hwk. unfold old_child. destruct (trie_lookup bm cs) as [t0|] eqn:E; [|apply wk_empty].
  inversion Hwk as [cs' Hnd Hall]; subst. apply lookup_In_weak in E. apply (Hall _ _ E).
Qed.

(* the paths of the trie after add_line: the old ones and the prefixes of the new line *)
Lemma add_line_paths : forall l t,
  wk t ->
  wk (add_line l t) /\
  forall p, has_path (add_line l t) p <-> has_path t p \/ bm_prefix p l.
Proof.
  induction l as [|bm rest IH]; intros t Hwk; cbn [add_line].
  - split; [exact Hwk|]. intros p. split; [auto|].
    intros [H | H]; [exact H|]. apply prefix_of_nil in H. subst p. apply has_path_nil.
  - destruct t as [cs]. cbn [children].
    pose proof Hwk as Hwk0. inversion Hwk as [cs' Hnd Hall]; subst.
    assert (Hwk' : wk (Node (trie_upd bm (add_line rest) cs))).
    { constructor; [apply keys_trie_upd; exact Hnd|].
      intros k t' Hin. apply in_trie_upd in Hin. destruct Hin as [[-> ->] | [_ Hin]].
      - apply IH. apply wk_old_child. exact Hwk0.
      - apply (Hall _ _ Hin). }
    split; [exact Hwk'|].
    intros [|m p]; [split; [intros _; left; apply has_path_nil | intros _; apply has_path_nil]|].
    rewrite has_path_cons.
    assert (Hnd' : NoDup (map fst (trie_upd bm (add_line rest) cs))) by (apply keys_trie_upd; exact Hnd).
    destruct (IH (old_child bm cs) (wk_old_child bm cs Hwk0)) as [_ IHp].
    split.
    + intros [t' [Hl Hp]]. apply (lookup_In _ _ _ Hnd') in Hl. apply in_trie_upd in Hl.
      destruct Hl as [[-> ->] | [Hne Hin]].
      * apply IHp in Hp. destruct Hp as [Hp | Hp].
        -- unfold old_child in Hp. destruct (trie_lookup bm cs) as [t0|] eqn:E.
           ++ left. apply has_path_cons. exists t0. auto.
           ++ apply has_path_empty in Hp. subst p. right. apply prefix_cons.
              split; [reflexivity | apply prefix_nil].
        -- right. apply prefix_cons. auto.
      * left. apply has_path_cons. exists t'. split; [|exact Hp].
        apply lookup_In; assumption.
    + intros [Hold | Hpre].
      * apply has_path_cons in Hold. destruct Hold as [t1 [Hl Hp]].
        destruct (bm_eq_dec m bm) as [-> | Hne].
        -- exists (add_line rest (old_child bm cs)). split.
           ++ apply lookup_In; [exact Hnd'|]. apply in_trie_upd. left; auto.
           ++ apply IHp. left. unfold old_child. rewrite Hl. exact Hp.
        -- exists t1. split; [|exact Hp].
           apply lookup_In; [exact Hnd'|]. apply in_trie_upd. right.
           split; [exact Hne | apply lookup_In_weak; exact Hl].
      * apply prefix_cons in Hpre. destruct Hpre as [-> Hpre].
        exists (add_line rest (old_child bm cs)). split.
        -- apply lookup_In; [exact Hnd'|]. apply in_trie_upd. left; auto.
        -- apply IHp. right. exact Hpre.
Qed.

Lemma fold_add_line_paths : forall lines t,
  wk t ->
  wk (fold_left (fun t l => add_line l t) lines t) /\
  forall p, has_path (fold_left (fun t l => add_line l t) lines t) p <->
            has_path t p \/ exists l, In l lines /\ bm_prefix p l.
Proof.
  induction lines as [|l lines IH]; intros t Hwk; cbn [fold_left].
  - split; [exact Hwk|]. intros p. split; [auto | intros [H | [l [[] _]]]; exact H].
  - destruct (add_line_paths l t Hwk) as [Hwk1 Hp1].
    destruct (IH _ Hwk1) as [Hwk2 Hp2]. split; [exact Hwk2|].
    intros p. rewrite Hp2, Hp1. cbn [In]. split.
    + intros [[H | H] | [l' [Hin H]]]; [left; exact H | right; exists l; auto | right; exists l'; auto].
    + intros [H | [l' [[<- | Hin] H]]]; [left; left; exact H | left; right; exact H | right; exists l'; auto].
Qed.

Lemma wk_create_book : forall lines, wk (create_book lines).
Proof. intros lines. apply fold_add_line_paths. apply wk_empty. Qed.

(* the paths of the book trie are exactly the prefixes of the lines (and the root) *)
Lemma create_book_paths : forall lines p,
  has_path (create_book lines) p <-> p = [] \/ exists l, In l lines /\ bm_prefix p l.
Proof.
  intros lines p. unfold create_book.
  destruct (fold_add_line_paths lines empty_trie wk_empty) as [_ H]. rewrite H. split.
  - intros [He | Hl]; [left; apply has_path_empty; exact He | right; exact Hl].
  - intros [-> | Hl]; [left; apply has_path_nil | right; exact Hl].
Qed.

End Trie.

(* ---- Game.book_next, characterised ---- *)
Lemma strip_prefix_spec : forall h l s, strip_prefix h l = Some s <-> l = h ++ s.
Proof.
  induction h as [|x h IH]; intros l s; cbn [strip_prefix app].
  - split; [intros [= ->]; reflexivity | intros ->; reflexivity].
  - destruct l as [|y l].
    + split; discriminate.
    + destruct (bm_eqb x y) eqn:E.
      * apply bm_eqb_eq in E. subst y. rewrite IH. split; [intros ->; reflexivity | intros [= ->]; reflexivity].
      * apply bm_eqb_neq in E. split; [discriminate | intros [= -> _]; contradiction].
Qed.

Lemma existsb_bm_eqb : forall x r, existsb (bm_eqb x) r = true <-> In x r.
Proof.
  intros x r. rewrite existsb_exists. split.
  - intros [y [Hin E]]. apply bm_eqb_eq in E. subst y. exact Hin.
  - intros Hin. exists x. split; [exact Hin | apply bm_eqb_refl].
Qed.

Lemma dedup_In : forall l x, In x (dedup l) <-> In x l.
Proof.
  induction l as [|y r IH]; intros x; cbn [dedup]; [reflexivity|].
  destruct (existsb (bm_eqb y) r) eqn:E; cbn [In]; rewrite IH.
  - apply existsb_bm_eqb in E. split; [auto | intros [<- | H]; auto].
  - reflexivity.
Qed.

Lemma dedup_NoDup : forall l, NoDup (dedup l).
Proof.
  induction l as [|y r IH]; cbn [dedup]; [constructor|].
  destruct (existsb (bm_eqb y) r) eqn:E; [exact IH|].
  constructor; [|exact IH]. rewrite dedup_In. intros Hin.
  apply existsb_bm_eqb in Hin. congruence.
Qed.

Lemma in_book_next : forall lines h m,
  In m (book_next lines h) <-> exists l s, In l lines /\ l = h ++ m :: s.
Proof.
  intros lines h m. unfold book_next. rewrite dedup_In, in_flat_map. split.
  - intros [l [Hin Hm]]. destruct (strip_prefix h l) as [[|m' s]|] eqn:E; try contradiction.
    destruct Hm as [<- | []]. apply strip_prefix_spec in E. exists l, s. auto.
  - intros [l [s [Hin Hl]]]. exists l. split; [exact Hin|].
    apply strip_prefix_spec in Hl. rewrite Hl. left; reflexivity.
Qed.

Lemma prefix_snoc : forall h m l, bm_prefix (h ++ [m]) l <-> exists s, l = h ++ m :: s.
Proof.
  intros h m l. unfold bm_prefix. split; intros [s ->]; exists s; rewrite <- app_assoc; reflexivity.
Qed.

(* ---- the trie computes book_next (for ALL line lists, histories, and map orders) ---- *)
Theorem book_trie_is_lines :
  forall (reorder : list ((N * N) * trie) -> list ((N * N) * trie)),
  (forall l, Permutation (reorder l) l) ->
  forall (lines : list (list (N * N))) (h : list (N * N)),
    NoDup (get_next_moves (create_book reorder lines) h)
    /\ NoDup (book_next lines h)
    /\ (forall m, In m (get_next_moves (create_book reorder lines) h) <-> In m (book_next lines h)).
Proof.
  intros reorder Hperm lines h.
  pose proof (wk_create_book reorder Hperm lines) as Hwk.
  split; [|split].
  - unfold get_next_moves. destruct (trie_walk (create_book reorder lines) h) as [t'|] eqn:E; [|constructor].
    apply (wk_walk h _ t') in Hwk; [|exact E]. destruct Hwk as [cs Hnd _]. exact Hnd.
  - apply dedup_NoDup.
  - intros m. rewrite in_book_next.
    assert (Hg : In m (get_next_moves (create_book reorder lines) h)
                 <-> has_path (create_book reorder lines) (h ++ [m])).
    { unfold get_next_moves, has_path. rewrite walk_app.
      destruct (trie_walk (create_book reorder lines) h) as [t1|].
      - cbn [trie_walk]. rewrite in_keys_lookup. split.
        + intros [t2 H2]. rewrite H2. exists t2; reflexivity.
        + intros [t2 H2]. destruct (trie_lookup m (children t1)) as [t3|]; [exists t3; reflexivity | discriminate].
      - split; [intros [] | intros [t' H]; discriminate]. }
    rewrite Hg, (create_book_paths reorder Hperm). split.
    + intros [H | [l [Hin Hp]]].
      * destruct h; discriminate.
      * apply prefix_snoc in Hp. destruct Hp as [s Hl]. exists l, s. auto.
    + intros [l [s [Hin Hl]]]. right. exists l. split; [exact Hin|].
      apply prefix_snoc. exists s; exact Hl.
Qed.

(* as lists: the two results are permutations of each other *)
Corollary book_trie_permutation :
  forall reorder, (forall l, Permutation (reorder l) l) ->
  forall lines h, Permutation (get_next_moves (create_book reorder lines) h) (book_next lines h).
Proof.
  intros reorder Hperm lines h.
  destruct (book_trie_is_lines reorder Hperm lines h) as [H1 [H2 H3]].
  apply NoDup_Permutation; assumption.
Qed.

(* the hypothesis is satisfiable (identity and reversal are permutations), and on the real
   book the two functions give non-trivial answers *)
Example book_trie_nonvacuous :
  (forall l : list ((N * N) * trie), Permutation ((fun x => x) l) l)
  /\ (forall l : list ((N * N) * trie), Permutation (rev l) l)
  /\ book_next BOOK [(12, 28); (52, 36)] = [(13, 29); (1, 18); (5, 26); (11, 27); (6, 21)]
  /\ length (get_next_moves (create_book (fun x => x) BOOK) [(12, 28); (52, 36)]) = 5%nat
  /\ length (get_next_moves (create_book (@rev _) BOOK) [(12, 28); (52, 36)]) = 5%nat
  /\ get_next_moves (create_book (fun x => x) BOOK) [(12, 28); (52, 36)]
     <> get_next_moves (create_book (@rev _) BOOK) [(12, 28); (52, 36)].
Proof.
  split; [intros l; apply Permutation_refl|].
  split; [intros l; apply Permutation_sym, Permutation_rev|].
  split; [vm_compute; reflexivity|].
  split; [vm_compute; reflexivity|].
  split; [vm_compute; reflexivity|].
  intros H. vm_compute in H. discriminate H.
Qed.

(* ================================================================================== *)
(** * 4. Every move the book can suggest is legal where it is suggested                *)
(* ================================================================================== *)

Lemma in_BOOK : forall l, In l BOOK -> exists ln, In (ln, l) BOOK_LINES.
Proof.
  intros l H. unfold BOOK in H. apply in_map_iff in H. destruct H as [[ln l'] [Hl Hin]].
  cbn [snd] in Hl. subst l'. exists ln. exact Hin.
Qed.

(* for every history h (as the engine records it: from/to pairs) after which the book still
   has a suggestion bm — h is then necessarily a strict prefix of a book line — h is a legal
   sequence from the initial position and bm is the from/to of a legal move in the position
   reached; moreover that legal move is the only one with this from/to *)
Theorem engine_book_move_legal : forall h bm,
  In bm (book_next BOOK h) ->
  exists q m,
    reach Rules.initial_position h = Some q
    /\ In m (Rules.legal_moves q) /\ mv_from m = fst bm /\ mv_to m = snd bm
    /\ filter (bm_match bm) (Rules.legal_moves q) = [m].
Proof.
  intros h bm Hin. apply in_book_next in Hin. destruct Hin as [l [s [Hl Heq]]].
  apply in_BOOK in Hl. destruct Hl as [ln Hl].
  destruct (book_match_unique ln l h bm s Hl Heq) as [q [m [Hq Hf]]].
  exists q, m. split; [exact Hq|].
  assert (Hm : In m (filter (bm_match bm) (Rules.legal_moves q))) by (rewrite Hf; left; reflexivity).
  apply filter_In in Hm. destruct Hm as [Hleg Hm].
  unfold bm_match in Hm. apply andb_true_iff in Hm. destruct Hm as [H1 H2].
  apply N.eqb_eq in H1. apply N.eqb_eq in H2. auto.
Qed.

(* the move engine_select picks from the book (Game.engine_select: index `choice mod len`
   into book_next BOOK (book_line_of history)), for any value of the random index *)
Corollary engine_select_book_choice_legal : forall (h : list (N * N)) (choice : nat),
  book_next BOOK h <> [] ->
  exists q m,
    reach Rules.initial_position h = Some q
    /\ In m (Rules.legal_moves q)
    /\ mv_from m = fst (nth (Nat.modulo choice (length (book_next BOOK h))) (book_next BOOK h) (0, 0))
    /\ mv_to m = snd (nth (Nat.modulo choice (length (book_next BOOK h))) (book_next BOOK h) (0, 0)).
Proof.
  intros h choice Hne.
  assert (Hin : In (nth (Nat.modulo choice (length (book_next BOOK h))) (book_next BOOK h) (0, 0))
                   (book_next BOOK h)).
  { apply nth_In. apply Nat.mod_upper_bound.
    destruct (book_next BOOK h); [contradiction | cbn [length]; discriminate]. }
  destruct (engine_book_move_legal h _ Hin) as [q [m [Hq [H1 [H2 [H3 _]]]]]].
  exists q, m. auto.
Qed.

(* the same through the trie, whatever the hash-map order *)
Corollary trie_book_move_legal :
  forall reorder, (forall l, Permutation (reorder l) l) ->
  forall h bm,
    In bm (get_next_moves (create_book reorder BOOK) h) ->
    exists q m,
      reach Rules.initial_position h = Some q
      /\ In m (Rules.legal_moves q) /\ mv_from m = fst bm /\ mv_to m = snd bm.
Proof.
  intros reorder Hperm h bm Hin.
  apply (book_trie_is_lines reorder Hperm BOOK h) in Hin.
  destruct (engine_book_move_legal h bm Hin) as [q [m [Hq [H1 [H2 [H3 _]]]]]].
  exists q, m. auto.
Qed.

(* explicit-prefix form asked for in the work plan *)
Corollary book_prefix_next_legal : forall ln line h,
  In (ln, line) BOOK_LINES -> bm_prefix h line ->
  play_line Rules.initial_position h = true
  /\ forall bm, In bm (book_next BOOK h) ->
       exists q m, reach Rules.initial_position h = Some q
                   /\ In m (Rules.legal_moves q) /\ mv_from m = fst bm /\ mv_to m = snd bm.
Proof.
  intros ln line h Hin [s Hs]. split.
  - pose proof book_lines_legal as H. rewrite forallb_forall in H. specialize (H _ Hin).
    cbn [snd] in H. rewrite Hs in H. apply play_line_prefix in H. exact H.
  - intros bm Hbm. destruct (engine_book_move_legal h bm Hbm) as [q [m [Hq [H1 [H2 [H3 _]]]]]].
    exists q, m. auto.
Qed.

Example engine_book_move_legal_nonvacuous :
  In (5, 33) (book_next BOOK [(12, 28); (52, 36); (6, 21); (57, 42)])
  /\ In (62, 45) (book_next BOOK [(11, 27)]).
Proof. vm_compute. auto 10. Qed.

Print Assumptions book_lines_prefix_legal.
Print Assumptions book_trie_is_lines.
Print Assumptions engine_book_move_legal.
Print Assumptions trie_book_move_legal.
Print Assumptions engine_select_book_choice_legal.
