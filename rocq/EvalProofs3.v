(* EvalProofs3.v — C18, part 3: bridge to the representation invariant of BoardLemmas.v
   (WFs / WF) and the summary statement of property C18 under that invariant.
   Kept separate so that EvalProofs1/2 do not depend on BitsLemmas/BoardLemmas. *)
From ChessV Require Import Eval BitsLemmas BoardLemmas WfReflect EvalProofs1 EvalProofs2.
From Coq Require Import Lia ZArith NArith List Bool.
Import ListNotations.
Arguments N.add : simpl never.
Arguments N.sub : simpl never.
Arguments N.eqb : simpl never.
Arguments N.ltb : simpl never.
Arguments N.leb : simpl never.
Arguments N.testbit : simpl never.
Open Scope N_scope.

Lemma bb64_fits64 : forall x, bb64 x <-> fits64 x.
Proof. intro x. unfold bb64. symmetry. apply fits64_lt. Qed.

Lemma WFs_locate_bb64 : forall s p, WFs s -> bb64 (locate s p).
Proof.
  intros s p Hwf. apply bb64_fits64. intros i Hi.
  destruct (mem i (locate s p)) eqn:E; [|reflexivity].
  pose proof (WFs_locate_occ s i p Hwf E) as Ho.
  destruct Hwf as (_ & _ & Hf). rewrite (Hf i Hi) in Ho. discriminate.
Qed.

Lemma WFs_pset64 : forall s, WFs s -> pset64 s.
Proof.
  intros s Hwf. unfold pset64.
  pose proof (WFs_locate_bb64 s Pawn Hwf). pose proof (WFs_locate_bb64 s Knight Hwf).
  pose proof (WFs_locate_bb64 s Bishop Hwf). pose proof (WFs_locate_bb64 s Rook Hwf).
  pose proof (WFs_locate_bb64 s Queen Hwf). pose proof (WFs_locate_bb64 s King Hwf).
  cbn [locate] in *. repeat split; try assumption.
  apply bb64_fits64. destruct Hwf as (_ & _ & Hf). exact Hf.
Qed.

Lemma WF_board64 : forall b, WF b -> board64 b.
Proof. intros b (Hw & Hb & _). split; apply WFs_pset64; assumption. Qed.

Lemma WF_queens64 : forall b, WF b -> queens64 b.
Proof. intros b H. apply board64_queens64, WF_board64. exact H. Qed.

(* Property C18, static part, under the board invariant: for legal material the static
   score exists (no i16 overflow anywhere), the flipped position scores exactly its
   negative, and for every remaining depth d <= 255 it lies strictly between the two mate
   scores, which themselves do not overflow. *)
Theorem C18_static : forall b d, WF b ->
  legal_material (white b) -> legal_material (black b) -> d <= 255 ->
  exists s,
    material_score b = Ok s
    /\ material_score (flip_board b) = Ok (- s)%Z
    /\ sub16 BLACK_WINS (Z.of_N d) = Ok (BLACK_WINS - Z.of_N d)%Z
    /\ add16 WHITE_WINS (Z.of_N d) = Ok (WHITE_WINS + Z.of_N d)%Z
    /\ (BLACK_WINS - Z.of_N d < s < WHITE_WINS + Z.of_N d)%Z
    /\ (Z.abs s < Z.abs (WHITE_WINS + Z.of_N d))%Z
    /\ (Z.abs s < Z.abs (BLACK_WINS - Z.of_N d))%Z.
Proof.
  intros b d Hwf Hw Hk Hd.
  destruct (static_below_mate b d Hw Hk Hd) as [s [Hs [H1 [H2 H3]]]].
  destruct (mate_scores_no_overflow d Hd) as [M1 M2].
  exists s. repeat split; try assumption; try lia.
  apply eval_antisymmetric; [apply WF_queens64; exact Hwf | exact Hs].
Qed.

(* non-vacuity: the asymmetric example board of EvalProofs1 satisfies every hypothesis
   (WF through the executable check of Abs.v / WfReflect.v) *)
Example ex_board_hyps : WF ex_board /\ legal_material (white ex_board) /\ legal_material (black ex_board).
Proof.
  split.
  - apply (wf_b_WF ex_board). vm_compute. reflexivity.
  - destruct ex_board_legal as [A [B _]]. split; assumption.
Qed.

Example nq_board_hyps : WF nq_board /\ legal_material (white nq_board) /\ legal_material (black nq_board).
Proof.
  split.
  - apply (wf_b_WF nq_board). vm_compute. reflexivity.
  - split; apply legal_materialb_spec; vm_compute; reflexivity.
Qed.

Print Assumptions C18_static.
