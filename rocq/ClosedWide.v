(* ClosedWide.v — the shared result cache and the parallel root tasks on the WIDE domain.

   Closed.v states the cache theorems (the C09 family) for Reach.Sound, whose clause Congr.far keeps the
   half-move clock 100 - depth away from the move-count draw: before the repair of D13 the key
   (hash, alpha, beta, depth, side) simply did not determine the value nearer than that.  With the
   clock tag in the key (SearchLink.mkkey, the code after 46a4aeb) it does — ClockCongr.v proves
   that two boards with the same observable position AND the same half-move clock have the same
   alpha_beta_minimax value wherever no counter overflows — so the statements hold on

     SoundC d b := ReachWide.SoundW d b /\ the repetition count at the top of the stack is not 3

   (the repetition count is not part of the key, and the leaf score reads it; under the Game API
   it never changes: finding D12).  Hypotheses left: collision_free on the boards searched.
   Proofs only. *)
From Coq Require Import Lia ZArith NArith List Bool Permutation.
From ChessV Require Import Abs WfReflect GeomProofs InvProofs InvProofs2 Congr ZobristProofs
  EvalProofs2 Search GenFrame EpFrame SearchFrame SearchLink SearchIx SearchCacheIx Reach ReachWide ClockCongr.
From ChessV Require UndoProofs AlphaBeta Interleave InterleaveIx Closed.
Import ListNotations.
Open Scope N_scope.

#[local] Arguments N.add : simpl never.
#[local] Arguments N.sub : simpl never.
#[local] Arguments N.mul : simpl never.
#[local] Arguments N.eqb : simpl never.
#[local] Arguments N.ltb : simpl never.
#[local] Arguments N.leb : simpl never.
#[local] Arguments N.of_nat : simpl never.
#[local] Arguments N.shiftl : simpl never.
#[local] Arguments N.shiftr : simpl never.
#[local] Arguments N.land : simpl never.
#[local] Arguments N.lor : simpl never.
#[local] Arguments N.lxor : simpl never.
#[local] Arguments N.testbit : simpl never.

Section ClosedWide.
Variable T : ztable.
Variables rook_t bishop_t : N -> N -> N.

Notation SoundW := (ReachWide.SoundW T rook_t bishop_t).
Notation gen_moves := (gen_moves T rook_t bishop_t).
Notation gen_annotated := (gen_annotated T rook_t bishop_t).
Notation score := (score T rook_t bishop_t).
Notation search := (search T rook_t bishop_t).
Notation children := (children T rook_t bishop_t).
Notation leaf := (leaf T rook_t bishop_t).
Notation searched := (Closed.searched T rook_t bishop_t).

Definition SoundC (d : nat) (b : board) : Prop := SoundW d b /\ nrep b.

Lemma Sound_SoundC d b : Reach.Sound T rook_t bishop_t d b -> SoundC d b.
Proof.
  intro S. split; [exact (Sound_SoundW T rook_t bishop_t d b S)|].
  destruct S as (_ & _ & _ & (_ & _ & Hs & H3 & _) & _). split; assumption.
Qed.

Lemma SoundC_wide' d b : SoundC d b -> wide' d b.
Proof.
  intros [(_ & _ & _ & (Hn & Hh & Hs & Hf) & _) (_ & H3)].
  unfold wide'. repeat split; assumption.
Qed.

Lemma SoundC_searchable' d b : SoundC d b -> searchable' d b.
Proof.
  intros S. pose proof (SoundC_wide' d b S) as F. destruct S as [(I & _) _].
  pose proof (InvC_Repr rook_t bishop_t b (turn b) I) as R.
  pose proof R as ((W & Ne & Nc & _) & _).
  split; [exact W|]. split; [exact F|]. split; [|split; assumption].
  destruct (InvC_ep rook_t bishop_t b (turn b) I) as [Z|(e & Le & Ee & _)].
  - left. exact Z.
  - right. exists e. split; assumption.
Qed.

Lemma nrep_child m b a : nrep b -> apply_move T m b = Ok a -> nrep (toggle_turn a).
Proof.
  intros (Hs & H3) HA. destruct (apply_move_clock T m b a HA) as (_ & _ & _ & Hs').
  unfold nrep, toggle_turn. cbn [seen_stack set_turn]. rewrite Hs'. split; assumption.
Qed.

(* ---- the hypotheses of SearchCacheIx.v ---- *)
Section Cache.
Variable Sb : board -> Prop.
Hypothesis Sb_step : forall b ms b' m b1,
  Sb b -> gen_moves b (turn b) = Ok (ms, b') -> In m ms -> apply_move T m b = Ok b1 ->
  Sb (toggle_turn b1).
Hypothesis Sb_cf : collision_free Sb.

Definition GoodC (d : nat) (b : board) : Prop := SoundC d b /\ Sb b.

Lemma GC_inv : forall k b, GoodC k b -> WF b /\ ep_wf b (turn b).
Proof. intros k b [[S _] _]. exact (W_inv T rook_t bishop_t k b S). Qed.

Lemma GC_gen : forall k b, GoodC (S k) b -> exists l b', gen_annotated b (turn b) = Ok (l, b').
Proof. intros k b [[S _] _]. exact (W_gen T rook_t bishop_t k b S). Qed.

Lemma GC_step : forall k b ms m b1,
  GoodC (S k) b -> gen_moves b (turn b) = Ok (ms, b) -> In m ms -> apply_move T m b = Ok b1 ->
  GoodC k (toggle_turn b1).
Proof.
  intros k b ms m b1 [[S N3] Hs] G Hm A.
  split; [split|].
  - exact (W_step T rook_t bishop_t k b ms m b1 S G Hm A).
  - exact (nrep_child m b b1 N3 A).
  - exact (Sb_step b ms b m b1 Hs G Hm A).
Qed.

Lemma GC_score : forall k b, GoodC k b -> exists v b', score b (turn b) (N.of_nat k) = Ok (v, b').
Proof. intros k b [[S _] _]. exact (W_score T rook_t bishop_t k b S). Qed.

Lemma GC_range : forall k b v b',
  GoodC k b -> score b (turn b) (N.of_nat k) = Ok (v, b') -> (I16_MIN < v < I16_MAX)%Z.
Proof. intros k b v b' [[S _] _] E. exact (W_range T rook_t bishop_t k b v b' S E). Qed.

(** [key_det_chess] for the key with the clock tag, DISCHARGED from ClockCongr.ab_key_det_clock *)
Lemma GC_keydet : forall p q alpha beta d v w,
  GoodC d p -> GoodC d q -> hash p = hash q -> maximize (turn p) = maximize (turn q) ->
  clock_tag p d = clock_tag q d ->
  Search.ab T rook_t bishop_t d p alpha beta (maximize (turn p)) = Ok (v, p) ->
  Search.ab T rook_t bishop_t d q alpha beta (maximize (turn q)) = Ok (w, q) -> v = w.
Proof.
  intros p q alpha beta d v w [Sp Hp] [Sq Hq] HH HM HC Ep Eq.
  pose proof (ab_key_det_clock T rook_t bishop_t Sb d p q alpha beta Sb_cf Hp Hq
                (SoundC_searchable' d p Sp) (SoundC_searchable' d q Sq) HH HM HC) as E.
  unfold ab_value in E. rewrite Ep, Eq in E. inversion E. reflexivity.
Qed.

Ltac feedC X :=
  repeat first [specialize (X GC_inv) | specialize (X GC_gen) | specialize (X GC_step)
               | specialize (X GC_score) | specialize (X GC_range) | specialize (X GC_keydet)].

Notation cabp := (Interleave.abp board skey children leaf I16_MIN I16_MAX mkkey).
Notation crun := (Interleave.run skey skey_eqb).
Notation crun_sched := (Interleave.run_sched skey skey_eqb).
Notation croot_pool := (Interleave.root_pool board skey children leaf I16_MIN I16_MAX mkkey).

Definition cache_okC (c : Interleave.cache skey) : Prop :=
  cache_sound T rook_t bishop_t GoodC c.

Lemma cache_okC_nil : cache_okC [].
Proof. apply cache_sound_nil_ix. Qed.

(** the memoised search through any sound cache returns the cache-free value and leaves a
    sound cache — also at and beyond the move-count draw *)
Theorem C09w_cached_search_same : forall c d b alpha beta,
  SoundC d b -> Sb b -> cache_okC c ->
  Search.ab T rook_t bishop_t d b alpha beta (maximize (turn b))
    = Ok (fst (crun c (cabp d (maximize (turn b)) b alpha beta Interleave.Ret)), b)
  /\ cache_okC (snd (crun c (cabp d (maximize (turn b)) b alpha beta Interleave.Ret))).
Proof.
  intros c d b alpha beta S Hs Hc.
  pose proof (cached_search_same_ix T rook_t bishop_t GoodC) as X. feedC X.
  exact (X c d b alpha beta (conj S Hs) Hc).
Qed.

(** under ANY schedule, a finished root task holds the minimax value of its child *)
Theorem C09w_any_schedule : forall c0 d b sch i c w,
  SoundC (S d) b -> Sb b -> cache_okC c0 ->
  nth_error (children b) i = Some c ->
  nth_error (snd (crun_sched sch (croot_pool c0 d (negb (maximize (turn b))) I16_MIN I16_MAX (children b)))) i
    = Some (Interleave.Ret w) ->
  Search.ab T rook_t bishop_t d c I16_MIN I16_MAX (negb (maximize (turn b))) = Ok (w, c)
  /\ Search.mm T rook_t bishop_t d c (negb (maximize (turn b))) = Ok w.
Proof.
  intros c0 d b sch i c w S Hs Hc Hi Ht.
  pose proof (pool_any_schedule_ix T rook_t bishop_t GoodC) as X. feedC X.
  exact (X c0 d b sch i c w (conj S Hs) Hc Hi Ht).
Qed.

Theorem C09w_root_minimax : forall c0 d b sch,
  SoundC (S d) b -> Sb b -> cache_okC c0 -> children b <> [] ->
  let mx := maximize (turn b) in
  exists sch' ws,
    let pl := crun_sched (sch ++ sch') (croot_pool c0 d (negb mx) I16_MIN I16_MAX (children b)) in
    snd pl = map Interleave.Ret ws /\ cache_okC (fst pl) /\
    Forall2 (fun c w => Search.mm T rook_t bishop_t d c (negb mx) = Ok w) (children b) ws /\
    Search.mm T rook_t bishop_t (S d) b mx
      = Ok (if mx then fold_left Z.max ws I16_MIN else fold_left Z.min ws I16_MAX).
Proof.
  intros c0 d b sch S Hs Hc Hne.
  pose proof (pool_root_minimax_chess_ix T rook_t bishop_t GoodC) as X. feedC X.
  exact (X c0 d b sch (conj S Hs) Hc Hne).
Qed.

Theorem C09w_parallel_same : forall depth b v m b1 c0 sch,
  1 <= depth -> SoundC (N.to_nat depth) b -> Sb b -> search depth b = SOk (v, m, b1) -> cache_okC c0 ->
  let mx := maximize (turn b) in
  exists sch' ws,
    snd (crun_sched (sch ++ sch')
           (croot_pool c0 (Nat.pred (N.to_nat depth)) (negb mx) I16_MIN I16_MAX (children b)))
      = map Interleave.Ret ws /\
    v = (if mx then fold_left Z.max ws I16_MIN else fold_left Z.min ws I16_MAX).
Proof.
  intros depth b v m b1 c0 sch L S Hs E Hc.
  pose proof (parallel_cached_search_same_ix T rook_t bishop_t GoodC) as X. feedC X.
  exact (X depth b v m b1 c0 sch L (conj S Hs) E Hc).
Qed.

End Cache.

(** C09 for the engine on the wide domain: the only hypothesis besides the executable invariant is
    that the position key is collision-free on the boards that the search of b0 visits *)
Theorem C09_wide : forall depth b0 v m b1 c0 sch,
  collision_free (searched b0) ->
  1 <= depth -> SoundC (N.to_nat depth) b0 -> search depth b0 = SOk (v, m, b1) ->
  cache_okC (searched b0) c0 ->
  let mx := maximize (turn b0) in
  Search.mm T rook_t bishop_t (N.to_nat depth) b0 mx = Ok v /\
  exists sch' ws,
    snd (Interleave.run_sched skey skey_eqb (sch ++ sch')
           (Interleave.root_pool board skey children leaf I16_MIN I16_MAX mkkey
              c0 (Nat.pred (N.to_nat depth)) (negb mx) I16_MIN I16_MAX (children b0)))
      = map Interleave.Ret ws /\
    v = (if mx then fold_left Z.max ws I16_MIN else fold_left Z.min ws I16_MAX).
Proof.
  intros depth b0 v m b1 c0 sch CF L S E Hc mx.
  split; [exact (proj1 (C08_wide T rook_t bishop_t depth b0 v m b1 L (proj1 S) E))|].
  exact (C09w_parallel_same (searched b0) (Closed.searched_closed T rook_t bishop_t b0) CF depth b0 v m b1 c0 sch
           L S (Closed.searched_root T rook_t bishop_t b0) E Hc).
Qed.

(** * an executable check *)
Notation soundCb := (SoundB.soundCb T rook_t bishop_t).

Theorem soundCb_spec d b : soundCb d b = true <-> SoundC d b.
Proof.
  unfold SoundB.soundCb, SoundC, nrep. rewrite andb_true_iff, negb_true_iff, N.eqb_neq.
  rewrite (soundWb_spec T rook_t bishop_t d b). split.
  - intros [S H3]. split; [exact S|]. split; [|exact H3].
    destruct S as (_ & _ & _ & (_ & _ & Hs & _) & _). exact Hs.
  - intros [S [_ H3]]. split; assumption.
Qed.

End ClosedWide.

(* non-vacuity: the position of ReachWide one ply from the move-count draw is in SoundC *)
Example SoundC_demo : SoundC example_table rook_ref bishop_ref 4 ReachWide.wide_demo.
Proof. apply soundCb_spec. vm_compute. reflexivity. Qed.

Print Assumptions C09_wide.
Print Assumptions C09w_cached_search_same.
Print Assumptions C09w_any_schedule.
Print Assumptions C09w_root_minimax.
