(* Rays.v — ray walking as in src/move_generator/magic_table.rs (slider_moves, try_offset)
   and precompile/src/magic/find_magics.rs (targets, relevant_blockers). Executable only. *)
From Coq Require Export ZArith.
From ChessV Require Export Bits.

Definition try_offset (i : N) (dr df : Z) : option N :=
  let r := (Z.of_N (i / 8) + dr)%Z in
  let f := (Z.of_N (i mod 8) + df)%Z in
  if ((0 <=? r) && (r <? 8) && (0 <=? f) && (f <? 8))%Z then Some (Z.to_N (r * 8 + f)) else None.

(* one ray of slider_moves: `while !blockers.overlaps(ray) { step or break }`.
   fuel: at most 7 steps succeed from any square; 8 is never exhausted (Magic.walk_fuel). *)
Fixpoint walk (fuel : nat) (i : N) (dr df : Z) (blockers acc : N) : N :=
  match fuel with
  | O => acc
  | S k =>
      if mem i blockers then acc
      else match try_offset i dr df with
           | None => acc
           | Some j => walk k j dr df blockers (N.lor acc (bit j))
           end
  end.

Definition rook_deltas : list (Z * Z) := [(1, 0); (0, -1); (-1, 0); (0, 1)]%Z.
Definition bishop_deltas : list (Z * Z) := [(1, 1); (1, -1); (-1, -1); (-1, 1)]%Z.

Definition slider_moves (deltas : list (Z * Z)) (sq : N) (blockers : N) : N :=
  fold_left (fun acc d => walk 8 sq (fst d) (snd d) blockers acc) deltas 0.

(* relevant_blockers: every ray square except the last one of each ray, minus the origin *)
Fixpoint mask_walk (fuel : nat) (i : N) (dr df : Z) (acc : N) : N :=
  match fuel with
  | O => acc
  | S k => match try_offset i dr df with
           | None => acc
           | Some j => mask_walk k j dr df (N.lor acc (bit i))
           end
  end.

Definition relevant_blockers (deltas : list (Z * Z)) (sq : N) : N :=
  andn (fold_left (fun acc d => mask_walk 8 sq (fst d) (snd d) acc) deltas 0) (bit sq).

(* the reference semantics of the C11 statement: the squares of a ray up to and
   including the first occupied one, by coordinates *)
Definition rook_ref (sq occ : N) : N := slider_moves rook_deltas sq (andn occ (bit sq)).
Definition bishop_ref (sq occ : N) : N := slider_moves bishop_deltas sq (andn occ (bit sq)).
