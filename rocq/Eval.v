(* Eval.v — src/evaluate/mod.rs over the translated tables (gen/EvalTables.v).
   i16 arithmetic is done in Z with an explicit overflow outcome.  Executable only. *)
From ChessV Require Export MoveGen.
From ChessV.gen Require Export EvalTables.

Definition piece_of_idx (i : N) : piece :=
  match i with 0 => Pawn | 1 => Knight | 2 => Bishop | 3 => Rook | 4 => Queen | _ => King end.
Definition ALL_PIECES : list piece := map piece_of_idx ALL_PIECES_IDX.

Definition material_value (p : piece) : Z := nth (N.to_nat (piece_idx p)) MATERIAL_VALUES 0%Z.
Definition bonus_table (p : piece) (endgame : bool) : list Z :=
  let t := nth (N.to_nat (piece_idx p)) BONUS_TABLES ([], []) in
  if endgame then snd t else fst t.
Definition bonus_index (c : color) (i : N) : N :=
  nth (N.to_nat i) (match c with White => SQUARE_TO_WHITE_BONUS_INDEX | Black => SQUARE_TO_BLACK_BONUS_INDEX end) 0.
Definition bonus (p : piece) (endgame : bool) (c : color) (i : N) : Z :=
  nth (N.to_nat (bonus_index c i)) (bonus_table p endgame) 0%Z.

Definition in_i16 (z : Z) : bool := ((-32768 <=? z) && (z <=? 32767))%Z.
Definition add16 (a b : Z) : res Z := if in_i16 (a + b) then Ok (a + b)%Z else Panic.
Definition sub16 (a b : Z) : res Z := if in_i16 (a - b) then Ok (a - b)%Z else Panic.

(* is_endgame *)
Definition is_endgame (b : board) : bool :=
  let wq := qn (white b) in
  let bq := qn (black b) in
  let wk := kg (white b) in
  let bk := kg (black b) in
  let w_nonq := andn (andn (occ (white b)) wq) wk in
  let b_nonq := andn (andn (occ (black b)) bq) bk in
  let w_minor := andn w_nonq wk in
  let b_minor := andn b_nonq bk in
  let both_no_queens := is_empty wq && is_empty bq in
  let w_ok := is_empty wq && (popcount w_minor <=? 1) in
  let b_ok := is_empty bq && (popcount b_minor <=? 1) in
  both_no_queens || (w_ok && b_ok).

(* player_material_score: `material += piece_value + bonus` per piece in ALL_PIECES order,
   squares ascending *)
Definition player_material (b : board) (c : color) : res Z :=
  let eg := is_endgame b in
  fold_left (fun acc p =>
    fold_left (fun acc2 i =>
      let* a := acc2 in
      if mem i (locate (pieces b c) p) then
        let* v := add16 (material_value p) (bonus p eg c i) in
        add16 a v
      else Ok a) squares acc) ALL_PIECES (Ok 0%Z).

(* board_material_score *)
Definition material_score (b : board) : res Z :=
  let* w := player_material b White in
  let* k := player_material b Black in
  sub16 w k.

Inductive ending := Checkmate | Stalemate | Draw.

Section WithGen.
Variable T : ztable.
Variables rook_t bishop_t : N -> N -> N.

(* game_ending (uncached generator); returns the threaded board *)
Definition game_ending (b : board) (current_turn : color) : res (option ending * board) :=
  let* seen := max_seen b in
  if seen =? REPETITION_DRAW_COUNT then Ok (Some Draw, b)
  else
    let* hm := halfmove b in
    if HALFMOVE_DRAW_THRESHOLD <=? hm then Ok (Some Draw, b)
    else
      let* (cands, b1) := gen_moves T rook_t bishop_t b current_turn in
      let chk := in_check rook_t bishop_t b1 (turn b1) in
      if is_nil cands then Ok (Some (if chk then Checkmate else Stalemate), b1)
      else Ok (None, b1).

(* score *)
Definition score (b : board) (current_turn : color) (remaining_depth : N) : res (Z * board) :=
  let* seen := max_seen b in
  if seen =? SCORE_REPETITION_COUNT then
    Ok (match current_turn with White => BLACK_WINS | Black => WHITE_WINS end, b)
  else
    let* (e, b1) := game_ending b current_turn in
    match e with
    | Some Checkmate =>
        let* s := (match current_turn with
                   | White => sub16 BLACK_WINS (Z.of_N remaining_depth)
                   | Black => add16 WHITE_WINS (Z.of_N remaining_depth)
                   end) in
        Ok (s, b1)
    | Some Stalemate | Some Draw => Ok (0%Z, b1)
    | None => let* s := material_score b1 in Ok (s, b1)
    end.

End WithGen.
