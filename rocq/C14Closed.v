(* C14Closed.v — C14, Game-API level, closed: a from/to coordinate pair or a notation string
   submitted to a game is accepted exactly when it names a legal move of the current position;
   an accepted input plays precisely that move (the queen promotion when a coordinate pair names
   a promotion) and records it in the history; a rejected input yields GInvalidMove (no new
   game; the generator hands the caller's board back unchanged: GenFrame).
   Proofs only; no axioms. *)
From Coq Require Import Lia ZArith NArith List Bool String.
From ChessV Require Import Bits Types Board Moves Rays MoveGen Rules Abs San Game.
From ChessV Require Import BitsLemmas BoardLemmas WfReflect GeomProofs PseudoBase.
From ChessV Require Import PseudoProofs2 PseudoProofs2b PseudoProofs4 PseudoProofs PseudoLink.
From ChessV Require Import InvProofs InvProofs2 GenFrame GenExact SanClosed SanProofs.
From ChessV Require UndoProofs EpFrame SuccProofs1 SuccProofs Congr GenTotal.
Import ListNotations.
Open Scope N_scope.
Open Scope list_scope.

#[local] Arguments N.add : simpl never.
#[local] Arguments N.sub : simpl never.
#[local] Arguments N.mul : simpl never.
#[local] Arguments N.div : simpl never.
#[local] Arguments N.modulo : simpl never.
#[local] Arguments N.eqb : simpl never.
#[local] Arguments N.ltb : simpl never.
#[local] Arguments N.leb : simpl never.
#[local] Arguments N.of_nat : simpl never.
#[local] Arguments N.shiftl : simpl never.
#[local] Arguments N.shiftr : simpl never.
#[local] Arguments N.land : simpl never.
#[local] Arguments N.lor : simpl never.
#[local] Arguments N.lxor : simpl never.
#[local] Arguments N.ldiff : simpl never.
#[local] Arguments N.testbit : simpl never.

(* ------------------------------------------------------------------ *)
(** * list facts *)

Lemma C14_find_filter {A} (g p : A -> bool) l :
  find p (filter g l) = find (fun x => g x && p x) l.
Proof.
  induction l as [|a r IH]; [reflexivity|]. cbn [filter find].
  destruct (g a) eqn:Ga; cbn [find andb]; [|exact IH].
  destruct (p a); [reflexivity|exact IH].
Qed.

Lemma C14_find_app_none {A} (q : A -> bool) l1 l2 :
  (forall x, In x l1 -> q x = false) -> find q (l1 ++ l2) = find q l2.
Proof.
  induction l1 as [|a r IH]; intro H; [reflexivity|]. cbn [app find].
  rewrite (H a (or_introl eq_refl)). apply IH. intros x Hx. apply H. right. exact Hx.
Qed.

Lemma C14_find_ex {A} (q : A -> bool) l x : In x l -> q x = true -> exists y, find q l = Some y.
Proof.
  intros Hx Qx. destruct (find q l) as [y|] eqn:F; [exists y; reflexivity|].
  rewrite (find_none q l F x Hx) in Qx. discriminate.
Qed.

Lemma C14_nodup_snd {A B} (r : list (A * B)) a a' s :
  NoDup (map snd r) -> In (a, s) r -> In (a', s) r -> a = a'.
Proof.
  induction r as [|[x y] r IH]; intros ND H1 H2; [destruct H1|].
  cbn [map snd] in ND. inversion ND as [|? ? Nin ND']; subst.
  destruct H1 as [E1|H1], H2 as [E2|H2].
  - congruence.
  - exfalso. inversion E1; subst. apply Nin. apply in_map_iff. exists (a', s). split; [reflexivity|exact H2].
  - exfalso. inversion E2; subst. apply Nin. apply in_map_iff. exists (a, s). split; [reflexivity|exact H1].
  - apply (IH ND' H1 H2).
Qed.


(* ------------------------------------------------------------------ *)
(** * whether c's king is attacked does not depend on WHICH non-king pieces of colour c stand
      on the squares c occupies (used for: the four promotions to one square are legal together) *)

Definition csim (c : color) (x y : cell) : Prop :=
  x = y \/ exists q1 q2, x = Some (q1, c) /\ y = Some (q2, c) /\ q1 <> King /\ q2 <> King.

Definition psim (c : color) (p1 p2 : position) : Prop := forall i, csim c (at_ p1 i) (at_ p2 i).

Lemma csim_atc c p1 p2 f r : psim c p1 p2 -> csim c (atc p1 f r) (atc p2 f r).
Proof. intro S. unfold atc. destruct (on_board f r); [apply S|left; reflexivity]. Qed.

Lemma color_eqb_opp c : color_eqb c (opp_c c) = false.
Proof. destruct c; reflexivity. Qed.

Lemma csim_is_pc_opp c x y pc : csim c x y -> is_pc x pc (opp_c c) = is_pc y pc (opp_c c).
Proof.
  intros [->|(q1 & q2 & -> & -> & _ & _)]; [reflexivity|].
  unfold is_pc, opt_pc_eqb, pc_eqb. cbn [fst snd]. rewrite color_eqb_opp, !andb_false_r. reflexivity.
Qed.

Lemma csim_is_pc_king c x y : csim c x y -> is_pc x King c = is_pc y King c.
Proof.
  intros [->|(q1 & q2 & -> & -> & N1 & N2)]; [reflexivity|].
  unfold is_pc, opt_pc_eqb, pc_eqb. cbn [fst snd].
  destruct q1, q2; try reflexivity; congruence.
Qed.

Lemma C14_existsb_ext {A} (f g : A -> bool) l : (forall x, f x = g x) -> existsb f l = existsb g l.
Proof. intro E. induction l as [|a r IH]; [reflexivity|]. cbn [existsb]. rewrite E, IH. reflexivity. Qed.

Lemma C14_find_ext {A} (f g : A -> bool) l : (forall x, f x = g x) -> find f l = find g l.
Proof. intro E. induction l as [|a r IH]; [reflexivity|]. cbn [find]. rewrite E, IH. reflexivity. Qed.

Lemma ray_psim c p1 p2 : psim c p1 p2 -> forall n f r df dr, ray p1 n f r df dr = ray p2 n f r df dr.
Proof.
  intro S. induction n as [|n IH]; intros f r df dr; [reflexivity|]. cbn [ray]. cbv zeta.
  destruct (on_board (f + df) (r + dr)); [|reflexivity].
  destruct (csim_atc c p1 p2 (f + df)%Z (r + dr)%Z S) as [E|(q1 & q2 & E1 & E2 & _)].
  - rewrite E. destruct (atc p2 (f + df) (r + dr)); [reflexivity|]. rewrite IH. reflexivity.
  - rewrite E1, E2. reflexivity.
Qed.

Lemma ray_hit_psim c p1 p2 f r df dr : psim c p1 p2 ->
  csim c (ray_hit p1 f r df dr) (ray_hit p2 f r df dr).
Proof.
  intro S. unfold ray_hit. rewrite (ray_psim c p1 p2 S).
  destruct (rev (ray p2 8 f r df dr)) as [|[f' r'] rest]; [left; reflexivity|].
  apply csim_atc, S.
Qed.

Lemma attacked_by_psim c p1 p2 f r : psim c p1 p2 ->
  attacked_by p1 (opp_c c) f r = attacked_by p2 (opp_c c) f r.
Proof.
  intro S. unfold attacked_by.
  f_equal; [f_equal; [f_equal; [f_equal|]|]|]; apply C14_existsb_ext; intro x; cbv zeta;
    rewrite ?(csim_is_pc_opp c _ _ _ (csim_atc c p1 p2 _ _ S));
    rewrite ?(csim_is_pc_opp c _ _ _ (ray_hit_psim c p1 p2 _ _ _ _ S)); reflexivity.
Qed.

Lemma king_attacked_psim c p1 p2 : psim c p1 p2 -> king_attacked p1 c = king_attacked p2 c.
Proof.
  intro S. unfold king_attacked, king_square.
  rewrite (C14_find_ext (fun i => is_pc (at_ p1 i) King c) (fun i => is_pc (at_ p2 i) King c) squares)
    by (intro i; apply csim_is_pc_king, S).
  destruct (find _ squares) as [k|]; [|reflexivity]. apply attacked_by_psim, S.
Qed.

(* the successors of two promotions with the same squares *)
Lemma at_promo_successor p f t cap pp q c i :
  length (cells p) = 64%nat -> t < 64 -> at_ p f = Some (q, c) ->
  at_ (successor p (Promo f t cap pp)) i =
  if Nat.eqb (N.to_nat i) (N.to_nat t) then Some (pp, c)
  else nth (N.to_nat i) (set_nth (cells p) (N.to_nat f) None) None.
Proof.
  intros L Lt Af. unfold successor, at_. cbn [mv_from mv_to cells]. fold (at_ p f). rewrite Af.
  unfold set_cell.
  rewrite SuccProofs.nth_set_nth by (rewrite ?SuccProofs.length_set_nth, L; lia). reflexivity.
Qed.

Lemma promo_successors_psim p f t cap pp1 pp2 q c :
  length (cells p) = 64%nat -> t < 64 -> at_ p f = Some (q, c) -> pp1 <> King -> pp2 <> King ->
  psim c (successor p (Promo f t cap pp1)) (successor p (Promo f t cap pp2)).
Proof.
  intros L Lt Af N1 N2 i.
  rewrite (at_promo_successor p f t cap pp1 q c i L Lt Af), (at_promo_successor p f t cap pp2 q c i L Lt Af).
  destruct (Nat.eqb (N.to_nat i) (N.to_nat t)).
  - right. exists pp1, pp2. repeat split; try reflexivity; assumption.
  - left. reflexivity.
Qed.

Lemma promo_king_safety_same p f t cap pp1 pp2 q c :
  length (cells p) = 64%nat -> t < 64 -> at_ p f = Some (q, c) -> pp1 <> King -> pp2 <> King ->
  king_attacked (successor p (Promo f t cap pp1)) c = king_attacked (successor p (Promo f t cap pp2)) c.
Proof.
  intros L Lt Af N1 N2. apply king_attacked_psim.
  apply (promo_successors_psim p f t cap pp1 pp2 q c L Lt Af N1 N2).
Qed.

(* the FIDE label of a move of position p, read over the rules' own legal-move list, with the
   rules' check / checkmate suffix *)
Definition legal_label (p : position) (m : cmove) : string :=
  spec_label p (legal_moves p) m (move_effect p (pturn p) m).

Section C14.
Variable T : ztable.
Variables rook_t bishop_t : N -> N -> N.
Hypothesis rook_t_ref : forall x o, x < 64 -> rook_t x o = rook_ref x o.
Hypothesis bishop_t_ref : forall x o, x < 64 -> bishop_t x o = bishop_ref x o.

Notation InvC := (InvC rook_t bishop_t).
Notation Inv := (Inv rook_t bishop_t).
Notation pseudo_moves := (pseudo_moves rook_t bishop_t).
Notation gen_moves := (gen_moves T rook_t bishop_t).
Notation gen_annotated := (gen_annotated T rook_t bishop_t).
Notation apply_by_coords := (apply_by_coords T rook_t bishop_t).
Notation apply_by_notation := (apply_by_notation T rook_t bishop_t).
Notation game_apply := (game_apply T).
Notation leaves_king_safe := (leaves_king_safe T rook_t bishop_t).

Definition coord_match (f t : N) (m : cmove) : bool := (mv_from m =? f) && (mv_to m =? t).

Lemma coord_match_spec f t m : coord_match f t m = true <-> mv_from m = f /\ mv_to m = t.
Proof. unfold coord_match. rewrite andb_true_iff, !N.eqb_eq. tauto. Qed.

(* what an accepted input produces *)
Definition played (g : game) (m : cmove) (g' : game) : Prop :=
  In m (legal_moves_for (abstract (gboard g)) (turn (gboard g)))
  /\ ghist g' = ghist g ++ [m]
  /\ gdepth g' = gdepth g
  /\ apply_move T m (gboard g) = Ok (gboard g')
  /\ abstract (gboard g') = successor (abstract (gboard g)) m
  /\ turn (gboard g') = turn (gboard g)
  /\ abstract (toggle_turn (gboard g')) = succ_turn (abstract (gboard g)) m
  /\ InvC (gboard g') (opp_c (turn (gboard g))).

(* making a generated move through game_apply *)
Lemma game_apply_generated g ms m :
  Inv (gboard g) -> gen_moves (gboard g) (turn (gboard g)) = Ok (ms, gboard g) -> In m ms ->
  exists g', game_apply g (gboard g) m = GOk (m, g') /\ played g m g'.
Proof.
  intros I G Hm.
  destruct (gen_move_successor T rook_t bishop_t
              (gboard g) (turn (gboard g)) ms (gboard g) m I G Hm) as (b1 & A & Es & I1).
  destruct (gen_exact T rook_t bishop_t rook_t_ref bishop_t_ref _ _ ms _ I G) as (_ & _ & E).
  pose proof (InvC_WF rook_t bishop_t _ _ I) as W.
  destruct (gen_moves_spec T rook_t bishop_t _ _ ms _ W (InvC_ep_wf _ _ _ _ I) G)
    as (_ & cands & Hc & _ & _ & Ems).
  assert (Hin : In m cands) by (rewrite Ems in Hm; apply filter_In in Hm; tauto).
  pose proof (cand_move_ok rook_t bishop_t (gboard g) (turn (gboard g)) cands m I Hc Hin) as Mok.
  exists {| gboard := b1; ghist := ghist g ++ [m]; gdepth := gdepth g |}.
  split.
  - unfold Game.game_apply. rewrite A. reflexivity.
  - unfold played. cbn [gboard ghist gdepth].
    split; [apply E; exact Hm|]. split; [reflexivity|]. split; [reflexivity|].
    split; [exact A|]. split; [exact Es|].
    split; [apply (SuccProofs.turn_unchanged T m _ b1 W Mok A)|].
    split; [apply (SuccProofs.apply_then_flip_is_succ_turn T m _ b1 W Mok A)|exact I1].
Qed.

Lemma game_apply_ok_inv g bd m r : game_apply g bd m = GOk r ->
  exists b', apply_move T m bd = Ok b' /\
             r = (m, {| gboard := b'; ghist := ghist g ++ [m]; gdepth := gdepth g |}).
Proof.
  unfold Game.game_apply. destruct (apply_move T m bd) as [b'| |]; try discriminate.
  intro H. inversion H. exists b'. split; reflexivity.
Qed.

(* ------------------------------------------------------------------ *)
(** * (A) coordinates *)

(* the entry point, computed: the first generated move with these squares, made on the
   caller's board *)
Lemma coords_unfold g f t :
  Inv (gboard g) -> Congr.fine 0 (gboard g) ->
  exists ms, gen_moves (gboard g) (turn (gboard g)) = Ok (ms, gboard g)
    /\ NoDup ms
    /\ (forall m, In m ms <-> In m (legal_moves_for (abstract (gboard g)) (turn (gboard g))))
    /\ apply_by_coords g f t =
       match find (coord_match f t) ms with
       | Some m => game_apply g (gboard g) m
       | None => GInvalidMove
       end.
Proof.
  intros I F.
  destruct (gen_total T rook_t bishop_t rook_t_ref bishop_t_ref (gboard g) (turn (gboard g)) I F)
    as (ms & G & ND & E).
  exists ms. split; [exact G|]. split; [exact ND|]. split; [exact E|].
  unfold Game.apply_by_coords. rewrite G. reflexivity.
Qed.

(** A1: accepted iff the pair names a legal move *)
Theorem C14_coords_accepted_iff_legal g f t :
  Inv (gboard g) -> Congr.fine 0 (gboard g) ->
  ((exists m g', apply_by_coords g f t = GOk (m, g')) <->
   (exists m, In m (legal_moves_for (abstract (gboard g)) (turn (gboard g)))
              /\ mv_from m = f /\ mv_to m = t)).
Proof.
  intros I F. destruct (coords_unfold g f t I F) as (ms & G & ND & E & U). rewrite U. split.
  - intros (m & g' & H). destruct (find (coord_match f t) ms) as [m0|] eqn:Fd; [|discriminate].
    destruct (find_some _ _ Fd) as [Hin Hc]. apply coord_match_spec in Hc.
    exists m0. split; [apply E; exact Hin|exact Hc].
  - intros (m & Hl & Hf & Ht).
    destruct (C14_find_ex (coord_match f t) ms m (proj2 (E m) Hl)
                (proj2 (coord_match_spec f t m) (conj Hf Ht))) as [m0 Fd].
    rewrite Fd. destruct (find_some _ _ Fd) as [Hin _].
    destruct (game_apply_generated g ms m0 I G Hin) as (g' & Hg & _).
    exists m0, g'. exact Hg.
Qed.

(** A1, second half: the only other answer is GInvalidMove (never GPanic / GBoardError /
    GSearchError), and it is given exactly when no legal move has these squares *)
Theorem C14_coords_ok_or_invalid g f t :
  Inv (gboard g) -> Congr.fine 0 (gboard g) ->
  (exists m g', apply_by_coords g f t = GOk (m, g')) \/ apply_by_coords g f t = GInvalidMove.
Proof.
  intros I F. destruct (coords_unfold g f t I F) as (ms & G & ND & E & U). rewrite U.
  destruct (find (coord_match f t) ms) as [m0|] eqn:Fd; [left|right; reflexivity].
  destruct (find_some _ _ Fd) as [Hin _].
  destruct (game_apply_generated g ms m0 I G Hin) as (g' & Hg & _).
  exists m0, g'. exact Hg.
Qed.

Theorem C14_coords_rejected_iff g f t :
  Inv (gboard g) -> Congr.fine 0 (gboard g) ->
  (apply_by_coords g f t = GInvalidMove <->
   ~ exists m, In m (legal_moves_for (abstract (gboard g)) (turn (gboard g)))
               /\ mv_from m = f /\ mv_to m = t).
Proof.
  intros I F. pose proof (C14_coords_accepted_iff_legal g f t I F) as A.
  destruct (C14_coords_ok_or_invalid g f t I F) as [(m & g' & H)|H].
  - split.
    + intro R. rewrite R in H. discriminate.
    + intro N. exfalso. apply N. apply A. exists m, g'. exact H.
  - split; [|intros _; exact H].
    intros _ L. apply A in L. destruct L as (m & g' & H'). rewrite H in H'. discriminate.
Qed.

(** A2: an accepted pair plays exactly a legal move with those squares *)
Theorem C14_coords_plays_that_move g f t m g' :
  Inv (gboard g) -> Congr.fine 0 (gboard g) ->
  apply_by_coords g f t = GOk (m, g') ->
  mv_from m = f /\ mv_to m = t /\ played g m g'.
Proof.
  intros I F H. destruct (coords_unfold g f t I F) as (ms & G & ND & E & U). rewrite U in H.
  destruct (find (coord_match f t) ms) as [m0|] eqn:Fd; [|discriminate].
  destruct (find_some _ _ Fd) as [Hin Hc]. apply coord_match_spec in Hc.
  destruct (game_apply_generated g ms m0 I G Hin) as (g0 & Hg & P).
  rewrite Hg in H. inversion H; subst m g'. split; [tauto|]. split; [tauto|exact P].
Qed.


(* ------------------------------------------------------------------ *)
(** * A3: a coordinate pair that names a promotion plays the QUEEN promotion *)

Definition promo_block (x : cmove) : list cmove :=
  map (fun pp => Promo (mv_from x) (mv_to x) (mv_captures x) pp) PAWN_PROMOTIONS.

Lemma ep_moves_are_ep b c eps m : ep_moves b c = Ok eps -> In m eps -> exists f t, m = EnPassant f t.
Proof.
  unfold ep_moves. intros H Hm. destruct (peek_ep b) as [t0| |]; try discriminate. cbn [bind] in H.
  destruct (is_empty t0); [inversion H; subst eps; destruct Hm|]. cbv zeta in H.
  inversion H; subst eps; clear H.
  apply in_app_or in Hm. destruct Hm as [Hm|Hm];
    match type of Hm with In _ (if ?x then _ else _) => destruct x end;
    try (destruct Hm; fail); destruct Hm as [<-|[]]; eexists; eexists; reflexivity.
Qed.

(* the pawn list: the promotion blocks (queen first) of the arrivals on the last rank, then
   everything else; nothing after the blocks is a promotion *)
Lemma pawn_moves_blocks b c lp : pawn_moves b c = Ok lp ->
  exists promotable rest, lp = flat_map promo_block promotable ++ rest
    /\ (forall m, In m rest -> match m with Promo _ _ _ _ => False | _ => True end).
Proof.
  intro H. rewrite EpFrame.pawn_moves_unfold in H.
  destruct (partition _ (EpFrame.pawn_all b c)) as [std promotable] eqn:Ep. cbv zeta in H.
  destruct (ep_moves b c) as [eps| |] eqn:Heps; try discriminate. cbn [bind] in H.
  inversion H; subst lp; clear H.
  exists promotable, (std ++ eps). split; [reflexivity|].
  intros m Hm. apply in_app_or in Hm. destruct Hm as [Hm|Hm].
  - assert (Hin : In m (EpFrame.pawn_all b c)) by (apply (elements_in_partition _ _ Ep); left; exact Hm).
    apply EpFrame.in_expand in Hin. destruct Hin as (pt & t0 & _ & _ & _ & ->). exact Logic.I.
  - destruct (ep_moves_are_ep b c eps m Heps Hm) as (f0 & t0 & ->). exact Logic.I.
Qed.

(* the first match, through the blocks *)
Lemma find_in_blocks (q0 : cmove -> bool) f t cap :
  q0 (Promo f t cap Queen) = true ->
  forall promotable rest,
  (exists x, In x promotable /\ mv_from x = f /\ mv_to x = t) ->
  (forall x, In x promotable -> mv_from x = f -> mv_to x = t -> mv_captures x = cap) ->
  find (fun m => q0 m && coord_match f t m) (flat_map promo_block promotable ++ rest)
  = Some (Promo f t cap Queen).
Proof.
  intros Hq. induction promotable as [|x xs IH]; intros rest (x0 & Hx0 & Hf0 & Ht0) Hcap; [destruct Hx0|].
  cbn [flat_map]. unfold promo_block at 1. cbn [map PAWN_PROMOTIONS]. cbn [app find].
  unfold coord_match at 1 2 3 4. cbn [mv_from mv_to].
  destruct ((mv_from x =? f) && (mv_to x =? t)) eqn:Ex.
  - apply andb_true_iff in Ex. destruct Ex as [E1 E2]. apply N.eqb_eq in E1, E2.
    rewrite (Hcap x (or_introl eq_refl) E1 E2), E1, E2, Hq. reflexivity.
  - rewrite !andb_false_r. apply IH.
    + destruct Hx0 as [<-|Hx0].
      * rewrite Hf0, Ht0, !N.eqb_refl in Ex. discriminate.
      * exists x0. split; [exact Hx0|]. split; assumption.
    + intros y Hy. apply Hcap. right. exact Hy.
Qed.

Lemma in_promo_block m x : In m (promo_block x) ->
  exists pp, In pp PAWN_PROMOTIONS /\ m = Promo (mv_from x) (mv_to x) (mv_captures x) pp.
Proof.
  unfold promo_block. intro H. apply in_map_iff in H. destruct H as (pp & <- & Hpp).
  exists pp. split; [exact Hpp|reflexivity].
Qed.

Lemma promotion_piece_not_king pp : In pp PAWN_PROMOTIONS -> pp <> King.
Proof. cbn [In PAWN_PROMOTIONS]. intros [<-|[<-|[<-|[<-|[]]]]]; discriminate. Qed.

Lemma option_map_pair_inj (c : color) (a a' : option piece) :
  option_map (fun cp => (cp, c)) a = option_map (fun cp => (cp, c)) a' -> a = a'.
Proof. destruct a, a'; cbn; intro H; congruence. Qed.

(** the generator's list, searched by squares, yields the queen promotion as soon as some
    legal promotion has those squares *)
Theorem first_match_is_queen b ms f t cap pp :
  Inv b -> gen_moves b (turn b) = Ok (ms, b) ->
  In (Promo f t cap pp) ms ->
  find (coord_match f t) ms = Some (Promo f t cap Queen).
Proof.
  intros I G Hm1. set (c := turn b) in *.
  pose proof (InvC_WF rook_t bishop_t b c I) as W.
  pose proof (InvC_PInv rook_t bishop_t b c I) as PI.
  destruct (gen_moves_spec T rook_t bishop_t b c ms b W (InvC_ep_wf _ _ b c I) G)
    as (_ & cands & Hc & _ & Happ & Ems).
  rewrite Forall_forall in Happ.
  assert (Hm1' : In (Promo f t cap pp) cands /\ leaves_king_safe b c (Promo f t cap pp) = true)
    by (rewrite Ems in Hm1; apply filter_In in Hm1; exact Hm1).
  destruct Hm1' as [Hin1 Safe1].
  (* the board around the promoting pawn *)
  destruct (GenTotal.cand_shape_ok rook_t bishop_t b c cands _ I Hc Hin1)
    as (Lf & Lt & p0 & c0 & Bf & -> & Bt & _ & _). cbn [mv_from mv_to] in Lf, Lt, Bf.
  assert (Ec0 : c0 = c).
  { destruct (gen_moves_InvC_spec T rook_t bishop_t b c ms b I G) as [_ X].
    destruct (X _ Hm1) as (_ & (p' & O) & _). cbn [mv_from] in O. rewrite Bf in O. congruence. }
  subst c0.
  (* the shape of the candidate list *)
  destruct (pseudo_moves_inv rook_t bishop_t b c cands Hc) as (lp & lc & Hp & Hlc & Ecands).
  destruct (pawn_moves_blocks b c lp Hp) as (promotable & rest & Elp & Hrest).
  assert (Hblk : exists x, In x promotable /\ In (Promo f t cap pp) (promo_block x)).
  { rewrite Ecands in Hin1.
    repeat (apply in_app_or in Hin1; destruct Hin1 as [Hin1|Hin1]); [exfalso..| |exfalso].
    - destruct (knights_cls b c PI _ Hin1) as (f' & t' & cap' & p' & E & _). discriminate E.
    - destruct (sliders_cls rook_t bishop_t b c PI _ Hin1) as (f' & t' & cap' & p' & E & _). discriminate E.
    - destruct (kings_cls b c PI _ Hin1) as (f' & t' & cap' & p' & E & _). discriminate E.
    - rewrite Elp in Hin1. apply in_app_or in Hin1. destruct Hin1 as [Hin1|Hin1].
      + apply in_flat_map in Hin1. exact Hin1.
      + exfalso. exact (Hrest _ Hin1).
    - destruct (castles_cls rook_t bishop_t b c PI lc _ Hlc Hin1) as (f' & t' & E). discriminate E. }
  destruct Hblk as (x1 & Hx1 & Hb1).
  destruct (in_promo_block _ _ Hb1) as (pp' & Hpp & E1). injection E1 as Hf1 Ht1 Hcp1 Hpp1. subst pp'.
  assert (InBlock : forall x, In x promotable -> forall m, In m (promo_block x) -> In m cands).
  { intros x Hx m Hm. rewrite Ecands, Elp. apply in_or_app; right. apply in_or_app; right.
    apply in_or_app; right. apply in_or_app; left. apply in_or_app; left.
    apply in_flat_map. exists x. split; assumption. }
  (* every block on these squares carries the same capture *)
  assert (Hcap : forall x, In x promotable -> mv_from x = f -> mv_to x = t -> mv_captures x = cap).
  { intros x Hx Ef Et.
    assert (HinQ : In (Promo (mv_from x) (mv_to x) (mv_captures x) Queen) cands).
    { apply (InBlock x Hx). unfold promo_block. cbn [map PAWN_PROMOTIONS]. left. reflexivity. }
    destruct (GenTotal.cand_shape_ok rook_t bishop_t b c cands _ I Hc HinQ)
      as (_ & _ & p2 & c2 & Bf2 & _ & Bt2 & _ & _). cbn [mv_from] in Bf2.
    rewrite Ef, Bf in Bf2. inversion Bf2; subst c2. rewrite Et, Bt in Bt2.
    symmetry. apply (option_map_pair_inj _ _ _ Bt2). }
  (* the queen sibling is a candidate, and as safe as the given promotion *)
  assert (HinQ : In (Promo f t cap Queen) cands).
  { rewrite Hf1, Ht1, Hcp1. apply (InBlock x1 Hx1). unfold promo_block. cbn [map PAWN_PROMOTIONS]. left. reflexivity. }
  assert (SafeQ : leaves_king_safe b c (Promo f t cap Queen) = true).
  { rewrite (leaves_king_safe_spec T rook_t bishop_t rook_t_ref bishop_t_ref b c cands _ I Hc HinQ (Happ _ HinQ)).
    rewrite (leaves_king_safe_spec T rook_t bishop_t rook_t_ref bishop_t_ref b c cands _ I Hc Hin1 (Happ _ Hin1)) in Safe1.
    rewrite <- Safe1. f_equal.
    apply (promo_king_safety_same (abstract b) f t cap Queen pp Pawn c).
    - cbn [abstract cells]. apply length_map_squares.
    - exact Lt.
    - unfold at_. cbn [abstract cells]. rewrite nth_map_squares by exact Lf. exact Bf.
    - discriminate.
    - apply promotion_piece_not_king. exact Hpp. }
  (* the search *)
  rewrite Ems, C14_find_filter, Ecands.
  assert (Pre : forall m p', cls_piece b c (fun p => p' p) m -> (forall p, p' p -> p <> Pawn) ->
                 leaves_king_safe b c m && coord_match f t m = false).
  { intros m p' (f' & t' & cap' & q' & -> & Bf' & Q') NP. unfold coord_match. cbn [mv_from mv_to].
    destruct (N.eqb_spec f' f) as [->|Ne]; [|rewrite andb_false_l, andb_false_r; reflexivity].
    exfalso. rewrite Bf in Bf'. inversion Bf'; subst q'. apply (NP Pawn Q'). reflexivity. }
  rewrite C14_find_app_none.
  2:{ intros m Hm. apply (Pre m (fun p => p = Knight) (knights_cls b c PI m Hm)). intros p ->. discriminate. }
  rewrite C14_find_app_none.
  2:{ intros m Hm. apply (Pre m (fun p => is_slider p = true) (sliders_cls rook_t bishop_t b c PI m Hm)).
      intros p Sp ->. discriminate Sp. }
  rewrite C14_find_app_none.
  2:{ intros m Hm. apply (Pre m (fun p => p = King) (kings_cls b c PI m Hm)). intros p ->. discriminate. }
  rewrite Elp, <- !app_assoc.
  apply (find_in_blocks (leaves_king_safe b c) f t cap SafeQ promotable).
  - exists x1. split; [exact Hx1|]. split; symmetry; assumption.
  - exact Hcap.
Qed.

(** A3 *)
Theorem C14_coords_promotion_plays_queen g f t cap pp :
  Inv (gboard g) -> Congr.fine 0 (gboard g) ->
  In (Promo f t cap pp) (legal_moves_for (abstract (gboard g)) (turn (gboard g))) ->
  exists g', apply_by_coords g f t = GOk (Promo f t cap Queen, g')
             /\ played g (Promo f t cap Queen) g'.
Proof.
  intros I F Hl. destruct (coords_unfold g f t I F) as (ms & G & ND & E & U). rewrite U.
  rewrite (first_match_is_queen (gboard g) ms f t cap pp I G (proj2 (E _) Hl)).
  destruct (find_some _ _ (first_match_is_queen (gboard g) ms f t cap pp I G (proj2 (E _) Hl))) as [Hin _].
  apply (game_apply_generated g ms _ I G Hin).
Qed.

Corollary C14_coords_promotion_is_queen g f t cap pp m g' :
  Inv (gboard g) -> Congr.fine 0 (gboard g) ->
  In (Promo f t cap pp) (legal_moves_for (abstract (gboard g)) (turn (gboard g))) ->
  apply_by_coords g f t = GOk (m, g') -> m = Promo f t cap Queen.
Proof.
  intros I F Hl H. destruct (C14_coords_promotion_plays_queen g f t cap pp I F Hl) as (g0 & H0 & _).
  rewrite H0 in H. inversion H. reflexivity.
Qed.

(* ------------------------------------------------------------------ *)
(** * (B) notation *)

Definition label_match (s : string) (ml : cmove * string) : bool := String.eqb (snd ml) s.

Lemma notation_unfold g s :
  Inv (gboard g) -> Congr.fine 1 (gboard g) ->
  exists (cands : list (cmove * effect)) r,
    gen_moves (gboard g) (turn (gboard g)) = Ok (map fst cands, gboard g)
    /\ (forall m, In m (map fst cands) <-> In m (legal_moves_for (abstract (gboard g)) (turn (gboard g))))
    /\ r = map (fun me => (fst me, legal_label (abstract (gboard g)) (fst me))) cands
    /\ NoDup (map snd r)
    /\ apply_by_notation g s =
       match find (label_match s) r with
       | Some (m, _) => game_apply g (gboard g) m
       | None => GInvalidMove
       end.
Proof.
  intros I F.
  destruct (GenTotal.gen_annotated_total T rook_t bishop_t (gboard g) (turn (gboard g)) I F) as [cands GA].
  destruct (san_exact T rook_t bishop_t rook_t_ref bishop_t_ref (gboard g) cands (gboard g) I GA)
    as (_ & _ & E & r & Hs & Er & ND).
  pose proof (InvC_WF rook_t bishop_t _ _ I) as W.
  destruct (gen_annotated_board T rook_t bishop_t _ _ cands _ W (InvC_ep_wf _ _ _ _ I) GA) as [_ G].
  exists cands, r. split; [exact G|]. split; [exact E|]. split; [exact Er|]. split; [exact ND|].
  unfold Game.apply_by_notation. rewrite GA, Hs. reflexivity.
Qed.

Lemma labelled_in g (cands : list (cmove * effect)) r m s :
  r = map (fun me => (fst me, legal_label (abstract (gboard g)) (fst me))) cands ->
  (In (m, s) r <-> In m (map fst cands) /\ s = legal_label (abstract (gboard g)) m).
Proof.
  intros ->. rewrite in_map_iff. split.
  - intros ([m' e] & Eq & Hin). cbn [fst] in Eq. inversion Eq; subst. split; [|reflexivity].
    apply in_map_iff. exists (m, e). split; [reflexivity|exact Hin].
  - intros [Hin ->]. apply in_map_iff in Hin. destruct Hin as ([m' e] & Eq & Hin). cbn [fst] in Eq. subst m'.
    exists (m, e). split; [reflexivity|exact Hin].
Qed.

Lemma label_find_some s r m l : find (label_match s) r = Some (m, l) -> In (m, s) r.
Proof.
  intro Fd. destruct (find_some _ _ Fd) as [Hin Hl]. unfold label_match in Hl. cbn [snd] in Hl.
  apply String.eqb_eq in Hl. subst l. exact Hin.
Qed.

(** B1: accepted iff the string is the label of a legal move *)
Theorem C14_notation_accepted_iff_label g s :
  Inv (gboard g) -> Congr.fine 1 (gboard g) ->
  ((exists m g', apply_by_notation g s = GOk (m, g')) <->
   (exists m, In m (legal_moves_for (abstract (gboard g)) (turn (gboard g)))
              /\ legal_label (abstract (gboard g)) m = s)).
Proof.
  intros I F. destruct (notation_unfold g s I F) as (cands & r & G & E & Er & ND & U). rewrite U. split.
  - intros (m & g' & H). destruct (find (label_match s) r) as [[m0 l0]|] eqn:Fd; [|discriminate].
    apply label_find_some in Fd. apply (labelled_in g cands r m0 s Er) in Fd. destruct Fd as [Hin Hs].
    exists m0. split; [apply E; exact Hin|symmetry; exact Hs].
  - intros (m & Hl & Hs).
    assert (Hin : In (m, s) r).
    { apply (labelled_in g cands r m s Er). split; [apply E; exact Hl|symmetry; exact Hs]. }
    destruct (C14_find_ex (label_match s) r (m, s) Hin) as [[m0 l0] Fd].
    { unfold label_match. cbn [snd]. apply String.eqb_refl. }
    rewrite Fd. apply label_find_some in Fd. apply (labelled_in g cands r m0 s Er) in Fd.
    destruct (game_apply_generated g (map fst cands) m0 I G (proj1 Fd)) as (g' & Hg & _).
    exists m0, g'. exact Hg.
Qed.

Theorem C14_notation_ok_or_invalid g s :
  Inv (gboard g) -> Congr.fine 1 (gboard g) ->
  (exists m g', apply_by_notation g s = GOk (m, g')) \/ apply_by_notation g s = GInvalidMove.
Proof.
  intros I F. destruct (notation_unfold g s I F) as (cands & r & G & E & Er & ND & U). rewrite U.
  destruct (find (label_match s) r) as [[m0 l0]|] eqn:Fd; [left|right; reflexivity].
  apply label_find_some in Fd. apply (labelled_in g cands r m0 s Er) in Fd.
  destruct (game_apply_generated g (map fst cands) m0 I G (proj1 Fd)) as (g' & Hg & _).
  exists m0, g'. exact Hg.
Qed.

Theorem C14_notation_rejected_iff g s :
  Inv (gboard g) -> Congr.fine 1 (gboard g) ->
  (apply_by_notation g s = GInvalidMove <->
   ~ exists m, In m (legal_moves_for (abstract (gboard g)) (turn (gboard g)))
               /\ legal_label (abstract (gboard g)) m = s).
Proof.
  intros I F. pose proof (C14_notation_accepted_iff_label g s I F) as A.
  destruct (C14_notation_ok_or_invalid g s I F) as [(m & g' & H)|H].
  - split.
    + intro R. rewrite R in H. discriminate.
    + intro N. exfalso. apply N. apply A. exists m, g'. exact H.
  - split; [|intros _; exact H].
    intros _ L. apply A in L. destruct L as (m & g' & H'). rewrite H in H'. discriminate.
Qed.

(** B2: the accepted move is THE legal move carrying that label *)
Theorem C14_notation_plays_that_move g s m g' :
  Inv (gboard g) -> Congr.fine 1 (gboard g) ->
  apply_by_notation g s = GOk (m, g') ->
  legal_label (abstract (gboard g)) m = s
  /\ (forall m', In m' (legal_moves_for (abstract (gboard g)) (turn (gboard g))) ->
                 legal_label (abstract (gboard g)) m' = s -> m' = m)
  /\ played g m g'.
Proof.
  intros I F H. destruct (notation_unfold g s I F) as (cands & r & G & E & Er & ND & U). rewrite U in H.
  destruct (find (label_match s) r) as [[m0 l0]|] eqn:Fd; [|discriminate].
  apply label_find_some in Fd. pose proof Fd as Fd'. apply (labelled_in g cands r m0 s Er) in Fd'.
  destruct (game_apply_generated g (map fst cands) m0 I G (proj1 Fd')) as (g0 & Hg & P).
  rewrite Hg in H. inversion H; subst m g'.
  split; [symmetry; exact (proj2 Fd')|]. split; [|exact P].
  intros m' Hl Hs.
  assert (Hin : In (m', s) r).
  { apply (labelled_in g cands r m' s Er). split; [apply E; exact Hl|symmetry; exact Hs]. }
  apply (C14_nodup_snd r m' m0 s ND Hin Fd).
Qed.

End C14.

(* ------------------------------------------------------------------ *)
(** * rejected inputs: in this functional model nothing but the answer is produced; the
      generators the two entry points run hand the caller's board back unchanged *)

Theorem C14_coords_generator_returns_board T rook_t bishop_t g :
  Inv rook_t bishop_t (gboard g) -> Congr.fine 0 (gboard g) ->
  exists ms, gen_moves T rook_t bishop_t (gboard g) (turn (gboard g)) = Ok (ms, gboard g).
Proof. intros I F. apply (GenTotal.gen_moves_total T rook_t bishop_t _ _ I F). Qed.

Theorem C14_notation_generator_returns_board T rook_t bishop_t g :
  Inv rook_t bishop_t (gboard g) -> Congr.fine 1 (gboard g) ->
  exists l, gen_annotated T rook_t bishop_t (gboard g) (turn (gboard g)) = Ok (l, gboard g).
Proof. intros I F. apply (GenTotal.gen_annotated_total T rook_t bishop_t _ _ I F). Qed.

(* ------------------------------------------------------------------ *)
(** * non-vacuity: a middle-game position with a white pawn on b7 that can capture on a8 *)

Definition C14_demo_game : game := {| gboard := inv_demo; ghist := []; gdepth := 3 |}.

Example C14_demo_hyps :
  Inv rook_ref bishop_ref (gboard C14_demo_game) /\ Congr.fine 1 (gboard C14_demo_game)
  /\ Congr.fine 0 (gboard C14_demo_game).
Proof.
  split; [apply invb_spec; vm_compute; reflexivity|].
  split; vm_compute; (split; [discriminate|split; reflexivity]).
Qed.

Example C14_demo_runs :
  let g := C14_demo_game in
  let p := abstract (gboard g) in
  existsb (cmove_eqb (Promo 49 56 (Some Knight) Rook)) (legal_moves_for p (turn (gboard g))) = true
  /\ match apply_by_coords example_table rook_ref bishop_ref g 49 56 with
     | GOk (m, g') => cmove_eqb m (Promo 49 56 (Some Knight) Queen) && Nat.eqb (length (ghist g')) 1
     | _ => false
     end = true
  /\ match apply_by_notation example_table rook_ref bishop_ref g
             (legal_label p (Promo 49 56 (Some Knight) Rook)) with
     | GOk (m, g') => cmove_eqb m (Promo 49 56 (Some Knight) Rook)
     | _ => false
     end = true
  /\ apply_by_coords example_table rook_ref bishop_ref g 49 41 = GInvalidMove
  /\ apply_by_notation example_table rook_ref bishop_ref g "Qh5" = GInvalidMove.
Proof. vm_compute. repeat split; reflexivity. Qed.

Print Assumptions C14_coords_accepted_iff_legal.
Print Assumptions C14_coords_ok_or_invalid.
Print Assumptions C14_coords_rejected_iff.
Print Assumptions C14_coords_plays_that_move.
Print Assumptions C14_coords_promotion_plays_queen.
Print Assumptions C14_coords_promotion_is_queen.
Print Assumptions C14_notation_accepted_iff_label.
Print Assumptions C14_notation_ok_or_invalid.
Print Assumptions C14_notation_rejected_iff.
Print Assumptions C14_notation_plays_that_move.
Print Assumptions C14_coords_generator_returns_board.
Print Assumptions C14_notation_generator_returns_board.
Print Assumptions C14_demo_hyps.
Print Assumptions C14_demo_runs.
