(* GenExact.v — C01, top level: the model's legal-move generator against the FIDE-rules spec.

   On every board satisfying the reachable-state invariant [InvProofs2.InvC b c] (C12's
   representation clauses, the side that is not about to move is not in check, the
   en-passant target belongs to the side about to move):

     gen_exact        whenever [gen_moves b c] returns, it returns the caller's board, a list
                      WITHOUT duplicates, and that list is, as a set, exactly
                      [Rules.legal_moves_for (abstract b) c];
     gen_perm         ... hence a permutation of it (the rules' list has no duplicates
                      either: RulesNoDup.v);
     gen_total        it does return (never Panic / Err) when the clocks are away from
                      their type maxima ([Congr.fine 0 b]);
     gen_exact_turn   for the side to move: [Rules.legal_moves (abstract b)].

   Ingredients: PseudoProofs / PseudoLink (the pseudo-legal layer: engine list = rules' list
   plus castles onto an attacked square), PseudoCastleSafe (those extra castles are removed by
   the legality filter), GenFrame.gen_moves_spec (gen = filter leaves_king_safe pseudo, board
   unchanged), GenTotal.cand_shape_ok (every candidate has SuccProofs' shape), SuccProofs
   (apply_move = Rules.successor), InvProofs (Repr is kept by a candidate move, so the
   successor board has exactly one king of each colour) and AttackProofs.in_check_exact.
   The slider lookup is any function agreeing with the ray walk on squares < 64 (so the
   theorems apply to the magic tables by C11).
   Proofs only; no axioms. *)
From Coq Require Import Lia ZArith NArith List Bool Permutation.
From ChessV Require Import Bits Types Board Moves Rays MoveGen Rules Abs.
From ChessV Require Import BitsLemmas BoardLemmas WfReflect PseudoBase PseudoProofs PseudoLink PseudoCastleSafe.
From ChessV Require Import InvProofs InvProofs2 GenFrame.
From ChessV Require UndoProofs EpFrame SuccProofs1 SuccProofs AttackProofs Congr GenTotal RulesNoDup Magic MagicProofs.
Import ListNotations.
Open Scope N_scope.
Open Scope list_scope.

#[local] Arguments N.add : simpl never.
#[local] Arguments N.sub : simpl never.
#[local] Arguments N.mul : simpl never.
#[local] Arguments N.eqb : simpl never.
#[local] Arguments N.ltb : simpl never.
#[local] Arguments N.leb : simpl never.
#[local] Arguments N.shiftl : simpl never.
#[local] Arguments N.shiftr : simpl never.
#[local] Arguments N.land : simpl never.
#[local] Arguments N.lor : simpl never.
#[local] Arguments N.lxor : simpl never.
#[local] Arguments N.ldiff : simpl never.
#[local] Arguments N.testbit : simpl never.

Section Exact.
Variable T : ztable.
Variables rook_t bishop_t : N -> N -> N.
Hypothesis rook_t_ref : forall x o, x < 64 -> rook_t x o = rook_ref x o.
Hypothesis bishop_t_ref : forall x o, x < 64 -> bishop_t x o = bishop_ref x o.

Notation InvC := (InvC rook_t bishop_t).
Notation Inv := (Inv rook_t bishop_t).
Notation pseudo_moves := (pseudo_moves rook_t bishop_t).
Notation gen_moves := (gen_moves T rook_t bishop_t).
Notation in_check := (in_check rook_t bishop_t).
Notation leaves_king_safe := (leaves_king_safe T rook_t bishop_t).

(* ------------------------------------------------------------------ *)
(** * bridges between the layers' predicates *)

Lemma InvC_WF b c : InvC b c -> WF b.
Proof. intro I. apply Repr_WF. apply (InvC_Repr _ _ b c I). Qed.

Lemma Repr_rights_home b : Repr b -> SuccProofs.rights_home b.
Proof. intro R. apply SuccProofs.repr_ok_rights_home. apply repr_ok_iff. exact R. Qed.

(* every pseudo-legal candidate satisfies the precondition of SuccProofs (C03) *)
Theorem cand_move_ok b c l m :
  InvC b c -> pseudo_moves b c = Ok l -> In m l -> SuccProofs.move_ok b m.
Proof.
  intros I H Hm. split.
  - apply Repr_rights_home. apply (InvC_Repr _ _ b c I).
  - apply (GenTotal.cand_shape_ok rook_t bishop_t b c l m I H Hm).
Qed.

(* what making a candidate yields: the rules' successor, on a board that again has the
   representation invariant (in particular exactly one king per side) *)
Theorem cand_successor b c l m b1 :
  InvC b c -> pseudo_moves b c = Ok l -> In m l -> apply_move T m b = Ok b1 ->
  abstract b1 = successor (abstract b) m /\ Repr b1.
Proof.
  intros I H Hm A. pose proof (InvC_Repr _ _ b c I) as R.
  split.
  - apply (SuccProofs.apply_is_successor T m b b1 (Repr_WF b R) (cand_move_ok b c l m I H Hm) A).
  - destruct (pseudo_moves_have_shape rook_t bishop_t b c l I H m Hm) as [S _].
    apply (apply_Repr T m b b1 R S A).
Qed.

Lemma Repr_one_king_pop b c : Repr b -> popcount (kg (pieces b c)) = 1.
Proof.
  intro R. apply (popcount_king_iff b c (Repr_WF b R)).
  destruct R as (_ & Kw & Kb & _). destruct c; assumption.
Qed.

(* the engine's check test on a Repr board is the rules' *)
Lemma in_check_Repr b c : Repr b -> in_check b c = king_attacked (abstract b) c.
Proof.
  intro R.
  apply (AttackProofs.in_check_exact rook_t bishop_t rook_t_ref bishop_t_ref b c (Repr_WF b R)).
  apply Repr_one_king_pop. exact R.
Qed.

(** the legality filter's test, for a candidate that can be made, is the rules' "does not
    leave the mover's king attacked" *)
Theorem leaves_king_safe_spec b c l m :
  InvC b c -> pseudo_moves b c = Ok l -> In m l -> applicable T b m ->
  leaves_king_safe b c m = negb (king_attacked (successor (abstract b) m) c).
Proof.
  intros I H Hm [b1 A].
  destruct (cand_successor b c l m b1 I H Hm A) as [Es R1].
  unfold GenFrame.leaves_king_safe. rewrite A.
  change (overlaps (kg (pieces b1 c)) (attack_targets rook_t bishop_t b1 (opp_c c)))
    with (in_check b1 c).
  rewrite (in_check_Repr b1 c R1), Es. reflexivity.
Qed.

(* ... and a candidate can always be made when the clocks are not at their maxima *)
Corollary leaves_king_safe_spec_total b c l m :
  InvC b c -> SuccProofs1.counters_ok b -> pseudo_moves b c = Ok l -> In m l ->
  leaves_king_safe b c m = negb (king_attacked (successor (abstract b) m) c).
Proof.
  intros I Ck H Hm. apply (leaves_king_safe_spec b c l m I H Hm).
  apply (SuccProofs.apply_total T m b (InvC_WF b c I) (cand_move_ok b c l m I H Hm) Ck).
Qed.

(* ------------------------------------------------------------------ *)
(** * the generator *)

Lemma in_legal_moves_for p c m :
  In m (legal_moves_for p c) <->
  In m (pseudo_legal p c) /\ negb (king_attacked (successor p m) c) = true.
Proof. unfold legal_moves_for. apply filter_In. Qed.

(** C01: no duplicates, and exactly the rules' legal moves *)
Theorem gen_exact b c ms b' :
  InvC b c -> gen_moves b c = Ok (ms, b') ->
  b' = b /\ NoDup ms /\ forall m, In m ms <-> In m (legal_moves_for (abstract b) c).
Proof.
  intros I G. pose proof (InvC_WF b c I) as W. pose proof (InvC_PInv _ _ b c I) as PI.
  destruct (gen_moves_spec T rook_t bishop_t b c ms b' W (InvC_ep_wf _ _ b c I) G)
    as (Eb & cands & Hc & _ & Happ & Ems).
  destruct (pseudo_exact rook_t bishop_t rook_t_ref bishop_t_ref b c PI cands Hc) as [ND _].
  rewrite Forall_forall in Happ.
  split; [exact Eb|]. split.
  - rewrite Ems. apply NoDup_filter. exact ND.
  - intro m. rewrite in_legal_moves_for. split.
    + intro Hm. pose proof Hm as Hm'. rewrite Ems in Hm'. apply filter_In in Hm'. destruct Hm' as [Hin Safe].
      split.
      * apply (filter_pseudo_incl T rook_t bishop_t rook_t_ref bishop_t_ref b c cands m PI Hc).
        rewrite <- Ems. exact Hm.
      * rewrite <- (leaves_king_safe_spec b c cands m I Hc Hin (Happ m Hin)). exact Safe.
    + intros [Hr Safe].
      pose proof (pseudo_legal_incl rook_t bishop_t rook_t_ref bishop_t_ref b c PI cands m Hc Hr) as Hin.
      rewrite Ems. apply filter_In. split; [exact Hin|].
      rewrite (leaves_king_safe_spec b c cands m I Hc Hin (Happ m Hin)). exact Safe.
Qed.

(** ... hence the same list up to order (the rules' list has no duplicates: RulesNoDup.v) *)
Theorem gen_perm b c ms b' :
  InvC b c -> gen_moves b c = Ok (ms, b') ->
  Permutation ms (legal_moves_for (abstract b) c).
Proof.
  intros I G. destruct (gen_exact b c ms b' I G) as (_ & ND & E).
  apply NoDup_Permutation; [exact ND | apply RulesNoDup.legal_moves_for_NoDup | exact E].
Qed.

Corollary gen_length b c ms b' :
  InvC b c -> gen_moves b c = Ok (ms, b') ->
  length ms = length (legal_moves_for (abstract b) c).
Proof. intros I G. apply Permutation_length. apply (gen_perm b c ms b' I G). Qed.

(** totality: the generator returns (no Panic, no Err) and hands the board back *)
Theorem gen_total b c :
  InvC b c -> Congr.fine 0 b ->
  exists ms, gen_moves b c = Ok (ms, b)
             /\ NoDup ms /\ (forall m, In m ms <-> In m (legal_moves_for (abstract b) c)).
Proof.
  intros I F. destruct (GenTotal.gen_moves_total T rook_t bishop_t b c I F) as [ms G].
  exists ms. split; [exact G|].
  destruct (gen_exact b c ms b I G) as (_ & ND & E).
  split; [exact ND|exact E].
Qed.

(** every generated move can be made, and making it is the rules' successor; the position
    reached satisfies the invariant for the opponent *)
Theorem gen_move_successor b c ms b' m :
  InvC b c -> gen_moves b c = Ok (ms, b') -> In m ms ->
  exists b1, apply_move T m b = Ok b1 /\ abstract b1 = successor (abstract b) m
             /\ InvC b1 (opp_c c).
Proof.
  intros I G Hm. pose proof (InvC_WF b c I) as W.
  destruct (gen_moves_spec T rook_t bishop_t b c ms b' W (InvC_ep_wf _ _ b c I) G)
    as (_ & cands & Hc & _ & _ & Ems).
  destruct (gen_moves_InvC_spec T rook_t bishop_t b c ms b' I G) as [_ X].
  destruct (X m Hm) as (S & O & b1 & A & Chk).
  exists b1. split; [exact A|]. split.
  - rewrite Ems in Hm. apply filter_In in Hm. destruct Hm as [Hin _].
    apply (proj1 (cand_successor b c cands m b1 I Hc Hin A)).
  - apply (legal_move_InvC T rook_t bishop_t b c m b1 I S O A Chk).
Qed.

(* ------------------------------------------------------------------ *)
(** * the side to move *)

Lemma legal_moves_abstract b : legal_moves (abstract b) = legal_moves_for (abstract b) (turn b).
Proof. reflexivity. Qed.

Corollary gen_exact_turn b ms b' :
  Inv b -> gen_moves b (turn b) = Ok (ms, b') ->
  b' = b /\ NoDup ms /\ (forall m, In m ms <-> In m (legal_moves (abstract b))).
Proof.
  intros I G. rewrite legal_moves_abstract.
  destruct (gen_exact b (turn b) ms b' I G) as (Eb & ND & E).
  split; [exact Eb|]. split; [exact ND|exact E].
Qed.

Corollary gen_perm_turn b ms b' :
  Inv b -> gen_moves b (turn b) = Ok (ms, b') -> Permutation ms (legal_moves (abstract b)).
Proof. intros I G. rewrite legal_moves_abstract. apply (gen_perm b (turn b) ms b' I G). Qed.

Corollary gen_total_turn b :
  Inv b -> Congr.fine 0 b ->
  exists ms, gen_moves b (turn b) = Ok (ms, b)
             /\ NoDup ms /\ (forall m, In m ms <-> In m (legal_moves (abstract b))).
Proof. intros I F. rewrite legal_moves_abstract. apply (gen_total b (turn b) I F). Qed.

End Exact.

(* ------------------------------------------------------------------ *)
(** * instances: the reference lookups and the magic tables *)

Theorem gen_exact_ref T b c ms b' :
  InvC rook_ref bishop_ref b c -> gen_moves T rook_ref bishop_ref b c = Ok (ms, b') ->
  b' = b /\ NoDup ms /\ forall m, In m ms <-> In m (legal_moves_for (abstract b) c).
Proof. apply gen_exact; reflexivity. Qed.

Theorem gen_exact_magic T res bes b c ms b' :
  Magic.entries_valid rook_deltas res = true -> Magic.entries_valid bishop_deltas bes = true ->
  InvC (Magic.magic_rook res) (Magic.magic_bishop bes) b c ->
  gen_moves T (Magic.magic_rook res) (Magic.magic_bishop bes) b c = Ok (ms, b') ->
  b' = b /\ NoDup ms /\ (forall m, In m ms <-> In m (legal_moves_for (abstract b) c)).
Proof.
  intros Vr Vb I G.
  assert (Hr : forall x o, x < 64 -> Magic.magic_rook res x o = rook_ref x o)
    by (intros x o Lx; apply MagicProofs.rook_lookup_exact; assumption).
  assert (Hb : forall x o, x < 64 -> Magic.magic_bishop bes x o = bishop_ref x o)
    by (intros x o Lx; apply MagicProofs.bishop_lookup_exact; assumption).
  apply (gen_exact T _ _ Hr Hb b c ms b' I G).
Qed.

(* ------------------------------------------------------------------ *)
(** * non-vacuity: kiwipete (48 legal moves, both castles, pins) and the en-passant position *)

Fixpoint GE_mem (m : cmove) (l : list cmove) : bool :=
  match l with [] => false | x :: r => cmove_eqb m x || GE_mem m r end.
Definition GE_same (l1 l2 : list cmove) : bool :=
  forallb (fun m => GE_mem m l2) l1 && forallb (fun m => GE_mem m l1) l2
  && Nat.eqb (length l1) (length l2).

Definition GE_agree (b : board) (c : color) (n : nat) : bool :=
  match gen_moves example_table rook_ref bishop_ref b c with
  | Ok (ms, b') => GE_same ms (legal_moves_for (abstract b) c) && Nat.eqb (length ms) n
  | _ => false
  end.

Example GE_kiwipete :
  invb rook_ref bishop_ref PP_kiwipete = true /\ turn PP_kiwipete = White
  /\ GE_agree PP_kiwipete White 48 = true.
Proof. vm_compute. repeat split; reflexivity. Qed.

Example GE_kiwipete_hyps : Inv rook_ref bishop_ref PP_kiwipete /\ Congr.fine 0 PP_kiwipete.
Proof.
  split.
  - apply invb_spec. vm_compute. reflexivity.
  - vm_compute. split; [discriminate|]. split; reflexivity.
Qed.

Example GE_initial : invb rook_ref bishop_ref PP_initial = true /\ GE_agree PP_initial White 20 = true.
Proof. vm_compute. split; reflexivity. Qed.

Print Assumptions gen_exact.
Print Assumptions gen_perm.
Print Assumptions gen_total.
Print Assumptions gen_exact_turn.
Print Assumptions gen_exact_magic.
