(* WatchProofs.v — property C15 (first sentence) for the whole engine-vs-engine LOOP, over the
   session model Watch.v (engine_move, watch_end, watch_run).

     engine_move_spec      one engine turn on a game in the wide search invariant: a legal move of
                           the rules is made (C14Closed.played) when the rules give one,
                           GSearchError NoAvailableMoves when they give none; never GPanic /
                           GBoardError / GInvalidMove / DepthTooLow
     watch_step_inv        the session invariant is re-established after the move and the turn
                           toggle, at the SAME depth (the counter argument)
     watch_run_spec        the loop: never WError, never WCrash, SoundW D at every state shown,
                           every move is a legal move of the rules in the position it was made in
                           (watch_chain), it stops only with the exact verdict, at the move limit,
                           or because the list of random choices ran out
   Proofs only; no axioms. *)
From Coq Require Import Lia ZArith NArith List Bool.
From ChessV Require Import Bits Types Board Moves MoveGen Rules Abs Eval Search Game Watch.
From ChessV Require Import BoardLemmas InvProofs InvProofs2 GenFrame EpFrame GenExact SearchFrame
  Congr GenTotal Reach ReachWide VerdictExact CounterProofs C14Closed C15Closed PvpProofs.
From ChessV Require Import MagicExample.
From ChessV Require UndoProofs SoundB.
Import ListNotations.
Open Scope N_scope.
Open Scope list_scope.

#[local] Arguments N.add : simpl never.
#[local] Arguments N.sub : simpl never.
#[local] Arguments N.mul : simpl never.
#[local] Arguments N.eqb : simpl never.
#[local] Arguments N.ltb : simpl never.
#[local] Arguments N.leb : simpl never.
#[local] Arguments N.of_nat : simpl never.
#[local] Arguments N.shiftl : simpl never.
#[local] Arguments N.shiftr : simpl never.
#[local] Arguments N.land : simpl never.
#[local] Arguments N.lor : simpl never.
#[local] Arguments N.lxor : simpl never.
#[local] Arguments N.testbit : simpl never.

Section Watch.
Variable T : ztable.
Variables rook_t bishop_t : N -> N -> N.
Hypothesis rook_t_ref : forall x o, x < 64 -> rook_t x o = rook_ref x o.
Hypothesis bishop_t_ref : forall x o, x < 64 -> bishop_t x o = bishop_ref x o.

Notation SoundW := (SoundW T rook_t bishop_t).
Notation Inv := (InvProofs2.Inv rook_t bishop_t).
Notation gen_moves := (gen_moves T rook_t bishop_t).
Notation game_ending := (game_ending T rook_t bishop_t).
Notation engine_select := (engine_select T rook_t bishop_t).
Notation engine_move := (engine_move T rook_t bishop_t).
Notation watch_run := (watch_run T rook_t bishop_t).
Notation played := (played T rook_t bishop_t).
Notation legal b := (Rules.legal_moves_for (abstract b) (turn b)).

(* the state shown after an engine move: the turn is passed *)
Definition passed (g1 : game) : game :=
  {| gboard := toggle_turn (gboard g1); ghist := ghist g1; gdepth := gdepth g1 |}.

(* ================================================================================== *)
(** * 1. one engine turn                                                                *)
(* ================================================================================== *)

Theorem engine_move_spec : forall g choice,
  1 <= gdepth g -> SoundW (N.to_nat (gdepth g)) (gboard g) ->
  (legal (gboard g) <> [] ->
     exists m g1, engine_move g choice = GOk (m, g1) /\ played g m g1)
  /\ (legal (gboard g) = [] -> engine_move g choice = GSearchError NoAvailableMoves)
  /\ engine_move g choice <> GPanic
  /\ engine_move g choice <> GBoardError
  /\ engine_move g choice <> GInvalidMove
  /\ engine_move g choice <> GSearchError DepthTooLow.
Proof.
  intros g choice L Hs.
  assert (Dich : (exists m g1, engine_move g choice = GOk (m, g1) /\ played g m g1
                               /\ legal (gboard g) <> [])
                 \/ (engine_move g choice = GSearchError NoAvailableMoves /\ legal (gboard g) = [])).
  { unfold Watch.engine_move.
    destruct (engine_select_dichotomy T rook_t bishop_t rook_t_ref bishop_t_ref g choice L Hs)
      as [(m & Es & Hin)|[Es Hnil]]; rewrite Es.
    - left.
      destruct (SoundW_gen_moves_total T rook_t bishop_t _ _ Hs) as [ms G].
      assert (Hm : In m ms).
      { apply (gen_legal T rook_t bishop_t rook_t_ref bishop_t_ref _ _ _ _ Hs G). exact Hin. }
      destruct (game_apply_generated T rook_t bishop_t rook_t_ref bishop_t_ref g ms m
                  (SoundW_Inv T rook_t bishop_t _ _ Hs) G Hm) as (g1 & Ea & Pl).
      exists m, g1. split; [exact Ea|]. split; [exact Pl|].
      intro E. rewrite E in Hin. destruct Hin.
    - right. split; [reflexivity|exact Hnil]. }
  destruct Dich as [(m & g1 & Em & Pl & Hne)|[Em Hnil]].
  - split; [intros _; exists m, g1; split; assumption|].
    split; [intro E; contradiction|].
    rewrite Em. repeat split; discriminate.
  - split; [intro Hne; contradiction|].
    split; [intros _; exact Em|].
    rewrite Em. repeat split; discriminate.
Qed.

(* ================================================================================== *)
(** * 2. the session invariant                                                          *)
(* ================================================================================== *)

(* the invariant of the loop with n more engine turns to come: the wide search invariant at the
   game's own depth D (1 <= D <= 154), the half-move clock at most 100, and room for n turns
   plus a D-ply search below the full-move limit *)
Definition watch_inv (n : nat) (g : game) : Prop :=
  1 <= gdepth g /\ (N.to_nat (gdepth g) <= 154)%nat
  /\ SoundW (N.to_nat (gdepth g)) (gboard g)
  /\ hd 0 (hm_stack (gboard g)) <= 100
  /\ fullmove (gboard g) + N.of_nat n + N.of_nat (N.to_nat (gdepth g)) < FULLMOVE_MAX.

Lemma watch_inv_in_range : forall n g, watch_inv n g -> in_range g 0.
Proof.
  intros n g (_ & _ & (_ & _ & _ & (Hn & _) & _) & Hh & Hf).
  split; [exact Hn|]. split; [exact Hh|]. change (N.of_nat 0) with 0. lia.
Qed.

Lemma watch_inv_pred : forall n g, watch_inv (S n) g -> watch_inv n g.
Proof.
  intros n g (L & LD & Hs & Hh & Hf). rewrite Nat2N.inj_succ in Hf.
  split; [exact L|]. split; [exact LD|]. split; [exact Hs|]. split; [exact Hh|lia].
Qed.

(* the verdict at the top of the loop *)
Lemma watch_verdict : forall n g, watch_inv n g ->
  exists e b', game_ending (gboard g) (turn (gboard g)) = Ok (e, b') /\ ending_is g e.
Proof.
  intros n g WI.
  pose proof WI as (_ & _ & Hs & _).
  destruct (pvp_over_exact T rook_t bishop_t rook_t_ref bishop_t_ref g
              (SoundW_Inv T rook_t bishop_t _ _ Hs) (watch_inv_in_range n g WI)) as (e & Eo & Ee).
  unfold Pvp.pvp_over in Eo.
  destruct (game_ending (gboard g) (turn (gboard g))) as [[e' b']| |] eqn:G;
    cbn [bind] in Eo; try discriminate Eo.
  inversion Eo; subst e'. exists e, b'. split; [reflexivity|exact Ee].
Qed.

(* no verdict -> the rules give a move *)
Lemma ending_none_has_move : forall g, ending_is g None -> legal (gboard g) <> [].
Proof.
  intros g [[E _]|(_ & _ & E)]; [discriminate E|].
  unfold is_checkmate, is_stalemate in E. intro Hnil. rewrite Hnil in E.
  cbn [is_nil_list] in E.
  destruct (king_attacked (abstract (gboard g)) (turn (gboard g))); cbn [negb andb] in E;
    discriminate E.
Qed.

(* the counter argument: below the move-count draw, a legal move and the toggle re-establish
   the invariant at the same depth *)
Theorem watch_step_inv : forall n g m g1,
  watch_inv (S n) g -> ending_is g None -> played g m g1 -> watch_inv n (passed g1).
Proof.
  intros n g m g1 (L & LD & Hs & Hh & Hf) En (Hl & _ & Hd & Ha & _).
  pose proof (ending_none_clock g En) as Hc. unfold top in Hc.
  rewrite Nat2N.inj_succ in Hf.
  unfold watch_inv, passed. cbn [gboard ghist gdepth]. rewrite Hd.
  destruct (apply_move_clock T m (gboard g) (gboard g1) Ha) as (Hn' & Hh' & Hf' & Hs').
  split; [exact L|]. split; [exact LD|].
  assert (Hclk : hd 0 (hm_stack (toggle_turn (gboard g1))) <= 100).
  { unfold toggle_turn. cbn [hm_stack set_turn]. lia. }
  assert (Hfm : fullmove (toggle_turn (gboard g1)) = fullmove (gboard g) + 1).
  { unfold toggle_turn. cbn [fullmove set_turn]. exact Hf'. }
  split; [|split; [exact Hclk|rewrite Hfm; lia]].
  (* SoundW at the same depth *)
  destruct (N.to_nat (gdepth g)) as [|k] eqn:Ek; [lia|].
  destruct (SoundW_gen_moves_total T rook_t bishop_t _ _ Hs) as [ms G].
  assert (Hm : In m ms).
  { apply (gen_legal T rook_t bishop_t rook_t_ref bishop_t_ref _ _ _ _ Hs G). exact Hl. }
  destruct (SoundW_step T rook_t bishop_t k (gboard g) ms (gboard g) m (gboard g1) Hs G Hm Ha)
    as (I1 & Mw1 & Mb1 & (Hn1 & _ & Hs1 & _) & K1).
  split; [exact I1|]. split; [exact Mw1|]. split; [exact Mb1|]. split; [|exact K1].
  unfold wide. split; [exact Hn1|]. split; [|split; [exact Hs1|rewrite Hfm; lia]].
  unfold U8_MAX. lia.
Qed.

(* ================================================================================== *)
(** * 3. the loop                                                                       *)
(* ================================================================================== *)

(* the moves made, chained from the state g: each is a legal move of the rules in the state it
   was made in, is recorded in the history, and leads to the rules' successor *)
Inductive watch_chain : game -> list (cmove * game) -> Prop :=
| wc_nil : forall g, watch_chain g []
| wc_cons : forall g m g' rest,
    In m (legal (gboard g)) ->
    ghist g' = ghist g ++ [m] ->
    gdepth g' = gdepth g ->
    abstract (gboard g') = succ_turn (abstract (gboard g)) m ->
    watch_chain g' rest ->
    watch_chain g ((m, g') :: rest).

(* the last state shown (the initial one when no move was made) *)
Definition last_state (g : game) (steps : list (cmove * game)) : game := last (map snd steps) g.

Lemma last_state_cons : forall g m g' rest, last_state g ((m, g') :: rest) = last_state g' rest.
Proof.
  intros g m g' rest. unfold last_state. cbn [map snd].
  destruct (map snd rest) as [|x l] eqn:E; [reflexivity|].
  change (last (g' :: x :: l) g) with (last (x :: l) g).
  apply last_default. discriminate.
Qed.

(* the statement proved by induction on the list of choices *)
Lemma watch_run_inv : forall limit choices g steps w,
  watch_inv (length choices) g ->
  watch_run limit g choices = (steps, w) ->
  w <> WError /\ w <> WCrash
  /\ Forall (fun mg => SoundW (N.to_nat (gdepth g)) (gboard (snd mg))
                       /\ gdepth (snd mg) = gdepth g
                       /\ hd 0 (hm_stack (gboard (snd mg))) <= 100) steps
  /\ watch_chain g steps
  /\ (length steps <= length choices)%nat
  /\ (forall e, w = WOver e -> ending_is (last_state g steps) (Some e))
  /\ (w = WLimit -> 0 < limit /\ limit < fullmove (gboard (last_state g steps))
                    /\ ending_is (last_state g steps) None)
  /\ (w = WRunning -> length steps = length choices
                      /\ ending_is (last_state g steps) None
                      /\ ~ (0 < limit /\ limit < fullmove (gboard (last_state g steps)))).
Proof.
  intros limit choices. induction choices as [|ch rest IH]; intros g steps w WI H.
  - (* no choice left *)
    destruct (watch_verdict _ g WI) as (e & b' & G & Ee).
    cbn [Watch.watch_run] in H. rewrite G in H.
    destruct e as [e|].
    + inversion H; subst steps w.
      split; [discriminate|]. split; [discriminate|]. split; [constructor|].
      split; [constructor|]. split; [cbn [length]; lia|].
      split; [intros e' X; inversion X; subst e'; exact Ee|].
      split; intro X; discriminate X.
    + destruct ((0 <? limit) && (limit <? fullmove (gboard g))) eqn:Lm; inversion H; subst steps w.
      * apply andb_true_iff in Lm. destruct Lm as [L1 L2].
        apply N.ltb_lt in L1. apply N.ltb_lt in L2.
        split; [discriminate|]. split; [discriminate|]. split; [constructor|].
        split; [constructor|]. split; [cbn [length]; lia|].
        split; [intros e' X; discriminate X|].
        split; [intros _; split; [exact L1|split; [exact L2|exact Ee]]|intro X; discriminate X].
      * split; [discriminate|]. split; [discriminate|]. split; [constructor|].
        split; [constructor|]. split; [cbn [length]; lia|].
        split; [intros e' X; discriminate X|].
        split; [intro X; discriminate X|].
        intros _. split; [reflexivity|]. split; [exact Ee|].
        intros [L1 L2]. apply N.ltb_lt in L1. apply N.ltb_lt in L2.
        unfold last_state in L2. cbn [map last] in L2.
        rewrite L1, L2 in Lm. discriminate Lm.
  - (* one more engine turn *)
    destruct (watch_verdict _ g WI) as (e & b' & G & Ee).
    cbn [Watch.watch_run] in H. rewrite G in H.
    destruct e as [e|].
    + inversion H; subst steps w.
      split; [discriminate|]. split; [discriminate|]. split; [constructor|].
      split; [constructor|]. split; [cbn [length]; lia|].
      split; [intros e' X; inversion X; subst e'; exact Ee|].
      split; intro X; discriminate X.
    + destruct ((0 <? limit) && (limit <? fullmove (gboard g))) eqn:Lm.
      * inversion H; subst steps w.
        apply andb_true_iff in Lm. destruct Lm as [L1 L2].
        apply N.ltb_lt in L1. apply N.ltb_lt in L2.
        split; [discriminate|]. split; [discriminate|]. split; [constructor|].
        split; [constructor|]. split; [cbn [length]; lia|].
        split; [intros e' X; discriminate X|].
        split; [intros _; split; [exact L1|split; [exact L2|exact Ee]]|intro X; discriminate X].
      * pose proof WI as (L & LD & Hs & Hh & Hf).
        destruct (engine_move_spec g ch L Hs) as (Hmv & _).
        destruct (Hmv (ending_none_has_move g Ee)) as (m & g1 & Em & Pl).
        rewrite Em in H.
        change {| gboard := toggle_turn (gboard g1); ghist := ghist g1; gdepth := gdepth g1 |}
          with (passed g1) in H.
        cbn [length] in WI.
        pose proof (watch_step_inv _ g m g1 WI Ee Pl) as WI2.
        destruct (watch_run limit (passed g1) rest) as [ms w'] eqn:R.
        inversion H; subst steps w.
        destruct (IH (passed g1) ms w' WI2 R) as (NE & NC & FA & CH & LN & OV & LM & RN).
        pose proof Pl as (Hl & Hh1 & Hd1 & _ & _ & _ & Hsucc & _).
        assert (Ed : gdepth (passed g1) = gdepth g) by exact Hd1.
        split; [exact NE|]. split; [exact NC|].
        split.
        { constructor.
          - cbn [snd]. pose proof WI2 as (_ & _ & Hs2 & Hh2 & _). rewrite Ed in Hs2.
            split; [exact Hs2|]. split; [exact Ed|exact Hh2].
          - rewrite Ed in FA. revert FA. apply Forall_impl.
            intros [m' g'] (A1 & A2 & A3). cbn [snd] in *.
            split; [exact A1|]. split; [rewrite A2; reflexivity|exact A3]. }
        split.
        { apply wc_cons; [exact Hl|exact Hh1|exact Ed|exact Hsucc|exact CH]. }
        split; [cbn [length]; lia|].
        rewrite last_state_cons.
        split; [exact OV|]. split; [exact LM|].
        intro X. destruct (RN X) as (R1 & R2 & R3).
        split; [cbn [length]; rewrite R1; reflexivity|]. split; [exact R2|exact R3].
Qed.

(** the loop-level C15 *)
Theorem watch_run_spec : forall limit g choices steps w,
  1 <= gdepth g -> (N.to_nat (gdepth g) <= 154)%nat ->
  SoundW (N.to_nat (gdepth g)) (gboard g) ->
  hd 0 (hm_stack (gboard g)) <= 100 ->
  fullmove (gboard g) + N.of_nat (length choices) + N.of_nat (N.to_nat (gdepth g)) < FULLMOVE_MAX ->
  watch_run limit g choices = (steps, w) ->
  w <> WError /\ w <> WCrash
  /\ Forall (fun mg => SoundW (N.to_nat (gdepth g)) (gboard (snd mg))) steps
  /\ Forall (fun mg => gdepth (snd mg) = gdepth g /\ hd 0 (hm_stack (gboard (snd mg))) <= 100) steps
  /\ watch_chain g steps
  /\ (length steps <= length choices)%nat
  /\ (forall e, w = WOver e -> ending_is (last_state g steps) (Some e))
  /\ (w = WLimit -> 0 < limit /\ limit < fullmove (gboard (last_state g steps))
                    /\ ending_is (last_state g steps) None)
  /\ (w = WRunning -> length steps = length choices
                      /\ ending_is (last_state g steps) None
                      /\ ~ (0 < limit /\ limit < fullmove (gboard (last_state g steps)))).
Proof.
  intros limit g choices steps w L LD Hs Hh Hf H.
  assert (WI : watch_inv (length choices) g).
  { split; [exact L|]. split; [exact LD|]. split; [exact Hs|]. split; [exact Hh|exact Hf]. }
  destruct (watch_run_inv limit choices g steps w WI H) as (NE & NC & FA & CH & LN & OV & LM & RN).
  split; [exact NE|]. split; [exact NC|].
  split; [revert FA; apply Forall_impl; intros mg (A & _); exact A|].
  split; [revert FA; apply Forall_impl; intros mg (_ & A); exact A|].
  split; [exact CH|]. split; [exact LN|]. split; [exact OV|]. split; [exact LM|exact RN].
Qed.

(* the clauses read most often, separately *)
Corollary watch_run_no_error : forall limit g choices,
  1 <= gdepth g -> (N.to_nat (gdepth g) <= 154)%nat ->
  SoundW (N.to_nat (gdepth g)) (gboard g) ->
  hd 0 (hm_stack (gboard g)) <= 100 ->
  fullmove (gboard g) + N.of_nat (length choices) + N.of_nat (N.to_nat (gdepth g)) < FULLMOVE_MAX ->
  snd (watch_run limit g choices) <> WError /\ snd (watch_run limit g choices) <> WCrash.
Proof.
  intros limit g choices L LD Hs Hh Hf.
  destruct (watch_run limit g choices) as [steps w] eqn:E. cbn [snd].
  destruct (watch_run_spec limit g choices steps w L LD Hs Hh Hf E) as (NE & NC & _).
  split; assumption.
Qed.

(* every move of the session is a legal move of the rules: the chain, read as a list of facts
   about consecutive states *)
Lemma watch_chain_legal : forall g steps, watch_chain g steps ->
  forall i m g', nth_error steps i = Some (m, g') ->
    exists prev, nth_error (g :: map snd steps) i = Some prev
    /\ In m (legal (gboard prev))
    /\ ghist g' = ghist prev ++ [m]
    /\ gdepth g' = gdepth prev
    /\ abstract (gboard g') = succ_turn (abstract (gboard prev)) m.
Proof.
  intros g steps CH. induction CH as [g|g m0 g0 rest Hl Hh Hd Hs CH IH]; intros i m g' E.
  - destruct i; discriminate E.
  - destruct i as [|j].
    + cbn [nth_error] in E. inversion E; subst m0 g0. exists g. cbn [nth_error]. auto.
    + cbn [nth_error] in E. destruct (IH j m g' E) as (prev & Ep & R).
      exists prev. split; [|exact R]. cbn [map snd nth_error]. exact Ep.
Qed.

End Watch.

(* ================================================================================== *)
(** * 4. non-vacuity                                                                    *)
(* ================================================================================== *)

Definition watch_start : game := {| gboard := UndoProofs.start_b; ghist := []; gdepth := 1 |}.

(* the hypotheses of watch_run_spec hold of the standard starting game at depth 1, for four
   random choices *)
Example watch_start_hyps :
  1 <= gdepth watch_start /\ (N.to_nat (gdepth watch_start) <= 154)%nat
  /\ SoundW example_table rook_ref bishop_ref (N.to_nat (gdepth watch_start)) (gboard watch_start)
  /\ hd 0 (hm_stack (gboard watch_start)) <= 100
  /\ fullmove (gboard watch_start) + N.of_nat (length [0; 0; 0; 0]%nat)
     + N.of_nat (N.to_nat (gdepth watch_start)) < FULLMOVE_MAX.
Proof.
  split; [vm_compute; discriminate|].
  split; [vm_compute; lia|].
  split; [apply soundWb_spec; vm_compute; reflexivity|].
  split; vm_compute; [discriminate|reflexivity].
Qed.

(* three engine moves, then the move limit 3 stops the loop *)
Example watch_start_run :
  let r := watch_run example_table rook_ref bishop_ref 3 watch_start [0; 0; 0; 0]%nat in
  (length (fst r), snd r) = (3%nat, WLimit).
Proof. vm_compute. reflexivity. Qed.

Print Assumptions engine_move_spec.
Print Assumptions watch_step_inv.
Print Assumptions watch_run_spec.
Print Assumptions watch_run_no_error.
Print Assumptions watch_chain_legal.
Print Assumptions watch_start_hyps.
Print Assumptions watch_start_run.
