(* PseudoProofs4.v — C01, pseudo-legal layer, sliders (rook, bishop, queen).
   The engine's `sliding_targets` + `expand`, with any slider lookup that agrees with the
   ray walk (`rook_ref`/`bishop_ref`, hence the magic tables by C11), emits exactly the
   moves of `Rules.slide_moves` from the squares holding a slider, without duplicates.
   `Rules.ray` (coordinates) is related to `MagicProofs.ray_sq` (squares) by induction on
   the fuel.  No axioms. *)
From Coq Require Import Lia ZArith NArith List Bool.
From ChessV Require Import Bits Types Board Moves Rays MoveGen Rules Abs GeomProofs.
From ChessV Require Import BitsLemmas BoardLemmas WfReflect PseudoBase.
From ChessV Require MagicProofs AttackProofs.
Import ListNotations.
Open Scope N_scope.
Open Scope list_scope.

(* ------------------------------------------------------------------ *)
(** * Rules.ray vs MagicProofs.ray_sq *)

Definition sqp (t : Z * Z) : N := sq (fst t) (snd t).

Lemma ray_ray_sq b df dr : WF b -> forall fuel f r, on_board f r = true ->
  map sqp (ray (abstract b) fuel f r df dr) = MagicProofs.ray_sq (occupied b) fuel (sq f r) dr df
  /\ Forall (fun t => on_board (fst t) (snd t) = true) (ray (abstract b) fuel f r df dr).
Proof.
  intro W. induction fuel as [|k IH]; intros f r OB; [split; [reflexivity|constructor]|].
  cbn [ray MagicProofs.ray_sq]. rewrite try_offset_coord.
  destruct (sq_on_board f r OB) as (_ & F & R). rewrite F, R.
  destruct (on_board (f + df) (r + dr)) eqn:OB'; [|split; [reflexivity|constructor]].
  rewrite (atc_abs b _ _ OB').
  destruct (bget b (sq (f + df) (r + dr))) as [pc|] eqn:E.
  - assert (M : mem (sq (f + df) (r + dr)) (occupied b) = true).
    { destruct (mem (sq (f + df) (r + dr)) (occupied b)) eqn:M; [reflexivity|].
      apply (bget_none_iff b _ W) in M. congruence. }
    rewrite M. split; [reflexivity|]. constructor; [exact OB'|constructor].
  - apply (bget_none_iff b _ W) in E. rewrite E.
    destruct (IH (f + df)%Z (r + dr)%Z OB') as [IH1 IH2].
    split; [cbn [map]; rewrite IH1; reflexivity|]. constructor; [exact OB' | exact IH2].
Qed.

(* ------------------------------------------------------------------ *)
(** * the rules side *)

Lemma slide_moves_cells P c from dirs :
  slide_moves P c from dirs =
  flat_map (fun d =>
    flat_map (fun t => cell_moves c from (sqp t) (atc P (fst t) (snd t)))
             (ray P 8 (fileZ from) (rankZ from) (fst d) (snd d))) dirs.
Proof. reflexivity. Qed.

Lemma in_slide_moves b c from dirs m : WF b -> from < 64 ->
  (In m (slide_moves (abstract b) c from dirs) <->
   exists d j, In d dirs /\ In j (MagicProofs.ray_sq (occupied b) 8 from (snd d) (fst d))
               /\ mem j (occ (pieces b c)) = false
               /\ m = Std from j (pget (pieces b (opp_c c)) j)).
Proof.
  intros W Lf. rewrite slide_moves_cells, in_flat_map.
  pose proof (file_rank_bounds from Lf) as OB.
  split.
  - intros [d [Hd Hin]]. apply in_flat_map in Hin. destruct Hin as [t [Ht Hin]].
    destruct (ray_ray_sq b (fst d) (snd d) W 8 _ _ OB) as [E FA]. rewrite sq_file_rank in E.
    rewrite Forall_forall in FA. specialize (FA t Ht). cbv beta in FA.
    rewrite (atc_abs b _ _ FA) in Hin. fold (sqp t) in Hin.
    rewrite (cell_moves_bget b c from (sqp t) W) in Hin.
    destruct (mem (sqp t) (occ (pieces b c))) eqn:M; [destruct Hin|]. destruct Hin as [<-|[]].
    exists d, (sqp t). split; [exact Hd|]. split; [|tauto].
    rewrite <- E. apply in_map. exact Ht.
  - intros [d [j (Hd & Hj & M & E)]]. exists d. split; [exact Hd|].
    destruct (ray_ray_sq b (fst d) (snd d) W 8 _ _ OB) as [E' FA]. rewrite sq_file_rank in E'.
    rewrite <- E' in Hj. apply in_map_iff in Hj. destruct Hj as [t [Et Ht]].
    apply in_flat_map. exists t. split; [exact Ht|].
    rewrite Forall_forall in FA. specialize (FA t Ht). cbv beta in FA.
    rewrite (atc_abs b _ _ FA). fold (sqp t). rewrite Et.
    rewrite (cell_moves_bget b c from j W), M. left. symmetry. exact E.
Qed.

(* direction lists: engine (dr, df) vs rules (df, dr) *)
Lemma rook_ortho d : In d rook_deltas <-> In (snd d, fst d) ortho_dirs.
Proof.
  destruct d as [x y]. unfold rook_deltas, ortho_dirs. cbn [In fst snd]. split; intro H;
    repeat (destruct H as [H|H]; [inversion H; subst; tauto|]); destruct H.
Qed.

Lemma bishop_diag d : In d bishop_deltas <-> In (snd d, fst d) diag_dirs.
Proof.
  destruct d as [x y]. unfold bishop_deltas, diag_dirs. cbn [In fst snd]. split; intro H;
    repeat (destruct H as [H|H]; [inversion H; subst; tauto|]); destruct H.
Qed.

Lemma dirs_swap (deltas dirs : list (Z * Z)) (Q : Z -> Z -> Prop) :
  (forall d, In d deltas <-> In (snd d, fst d) dirs) ->
  ((exists d, In d deltas /\ Q (fst d) (snd d)) <-> (exists d, In d dirs /\ Q (snd d) (fst d))).
Proof.
  intro H. split.
  - intros [d [Hd Hq]]. exists (snd d, fst d). split; [apply H, Hd | exact Hq].
  - intros [d [Hd Hq]]. exists (snd d, fst d). split; [|exact Hq].
    apply H. cbn [fst snd]. destruct d. exact Hd.
Qed.

(* ------------------------------------------------------------------ *)
(** * the engine side *)

Section Sliders.
Variables rook_t bishop_t : N -> N -> N.
Hypothesis rook_t_ref : forall x o, x < 64 -> rook_t x o = rook_ref x o.
Hypothesis bishop_t_ref : forall x o, x < 64 -> bishop_t x o = bishop_ref x o.

Definition strip (own t : N) : N := N.lxor t (N.land own t).

Definition slider_set (b : board) (p : piece) (x : N) : N :=
  match p with
  | Rook => rook_t x (occupied b)
  | Bishop => bishop_t x (occupied b)
  | Queen => N.lor (rook_t x (occupied b)) (bishop_t x (occupied b))
  | _ => 0
  end.

Definition is_slider (p : piece) : bool :=
  match p with Rook | Bishop | Queen => true | _ => false end.

Definition slider_entry (b : board) (c : color) (x : N) : list (N * N) :=
  match pget (pieces b c) x with
  | Some p => if is_slider p then [(x, strip (occ (pieces b c)) (slider_set b p x))] else []
  | None => []
  end.

Lemma sliding_targets_eq b c : sliding_targets rook_t bishop_t b c = flat_map (slider_entry b c) squares.
Proof.
  unfold sliding_targets. apply flat_map_ext. intro x. unfold slider_entry.
  destruct (pget (pieces b c) x) as [[]|]; reflexivity.
Qed.

Lemma slider_select b c x : slider_entry b c x = [] \/ exists v, slider_entry b c x = [(x, v)].
Proof.
  unfold slider_entry. destruct (pget (pieces b c) x) as [p|]; [|left; reflexivity].
  destruct (is_slider p); [right; eexists; reflexivity | left; reflexivity].
Qed.

Lemma NoDup_sliding_targets b c : NoDup (map fst (sliding_targets rook_t bishop_t b c)).
Proof. rewrite sliding_targets_eq. apply PB_NoDup_fst_select; [apply NoDup_squares | apply slider_select]. Qed.

Lemma in_sliding_targets b c pt :
  In pt (sliding_targets rook_t bishop_t b c) <->
  fst pt < 64 /\ exists p, pget (pieces b c) (fst pt) = Some p /\ is_slider p = true
                           /\ snd pt = strip (occ (pieces b c)) (slider_set b p (fst pt)).
Proof.
  rewrite sliding_targets_eq, (PB_in_fst_select _ squares pt (slider_select b c)), BitsLemmas.in_squares.
  destruct pt as [x v]. cbn [fst snd]. unfold slider_entry. split.
  - intros [L H]. split; [exact L|]. destruct (pget (pieces b c) x) as [p|]; [|discriminate].
    destruct (is_slider p) eqn:S; [|discriminate]. inversion H; subst. exists p. tauto.
  - intros [L [p (E & S & ->)]]. rewrite E, S. tauto.
Qed.

Lemma in_expand_sliders b c m :
  In m (expand b c (sliding_targets rook_t bishop_t b c)) <->
  exists x j p, x < 64 /\ j < 64 /\ pget (pieces b c) x = Some p /\ is_slider p = true
                /\ mem j (slider_set b p x) = true /\ mem j (occ (pieces b c)) = false
                /\ m = Std x j (pget (pieces b (opp_c c)) j).
Proof.
  rewrite in_expand_iff. split.
  - intros [[x v] [j (Hpt & Lj & Mj & E)]]. apply in_sliding_targets in Hpt. cbn [fst snd] in *.
    destruct Hpt as [Lx [p (Ep & S & ->)]]. unfold strip in Mj. rewrite AttackProofs.strip_mem in Mj.
    apply andb_true_iff in Mj. destruct Mj as [M1 M2]. apply negb_true_iff in M2.
    exists x, j, p. tauto.
  - intros [x [j [p (Lx & Lj & Ep & S & M1 & M2 & E)]]].
    exists (x, strip (occ (pieces b c)) (slider_set b p x)), j. cbn [fst snd].
    split; [apply in_sliding_targets; cbn [fst snd]; split; [exact Lx|]; exists p; tauto|].
    split; [exact Lj|]. split; [|exact E].
    unfold strip. rewrite AttackProofs.strip_mem, M1, M2. reflexivity.
Qed.

(* the lookups, as rays in the rules' directions *)
Lemma rook_set_rays b x j : x < 64 ->
  (mem j (rook_t x (occupied b)) = true <->
   exists d, In d ortho_dirs /\ In j (MagicProofs.ray_sq (occupied b) 8 x (snd d) (fst d))).
Proof.
  intro Lx. rewrite (rook_t_ref x _ Lx). unfold rook_ref.
  rewrite (AttackProofs.ref_rays rook_deltas x (occupied b) j MagicProofs.rook_deltas_ok Lx).
  apply (dirs_swap rook_deltas ortho_dirs (fun a b0 => In j (MagicProofs.ray_sq (occupied b) 8 x a b0))).
  apply rook_ortho.
Qed.

Lemma bishop_set_rays b x j : x < 64 ->
  (mem j (bishop_t x (occupied b)) = true <->
   exists d, In d diag_dirs /\ In j (MagicProofs.ray_sq (occupied b) 8 x (snd d) (fst d))).
Proof.
  intro Lx. rewrite (bishop_t_ref x _ Lx). unfold bishop_ref.
  rewrite (AttackProofs.ref_rays bishop_deltas x (occupied b) j MagicProofs.bishop_deltas_ok Lx).
  apply (dirs_swap bishop_deltas diag_dirs (fun a b0 => In j (MagicProofs.ray_sq (occupied b) 8 x a b0))).
  apply bishop_diag.
Qed.

Definition slider_dirs (p : piece) : list (Z * Z) :=
  match p with
  | Rook => ortho_dirs
  | Bishop => diag_dirs
  | Queen => ortho_dirs ++ diag_dirs
  | _ => []
  end.

Lemma slider_set_rays b p x j : x < 64 -> is_slider p = true ->
  (mem j (slider_set b p x) = true <->
   exists d, In d (slider_dirs p) /\ In j (MagicProofs.ray_sq (occupied b) 8 x (snd d) (fst d))).
Proof.
  intros Lx S. destruct p; try discriminate; cbn [slider_set slider_dirs].
  - apply bishop_set_rays, Lx.
  - apply rook_set_rays, Lx.
  - rewrite mem_lor, orb_true_iff, (rook_set_rays b x j Lx), (bishop_set_rays b x j Lx). split.
    + intros [[d [Hd H]]|[d [Hd H]]]; exists d; (split; [apply in_or_app; tauto | exact H]).
    + intros [d [Hd H]]. apply in_app_or in Hd. destruct Hd as [Hd|Hd]; [left|right]; exists d; tauto.
Qed.

Lemma piece_moves_r_slider P c p i : is_slider p = true ->
  piece_moves_r P c p i = slide_moves P c i (slider_dirs p).
Proof. destruct p; try discriminate; reflexivity. Qed.

(* ------------------------------------------------------------------ *)
(** * the refinement *)

Theorem slider_moves_exact b c m : WF b ->
  (In m (expand b c (sliding_targets rook_t bishop_t b c)) <->
   exists p, is_slider p = true
             /\ In m (on_squares (abstract b) c p (piece_moves_r (abstract b) c p))).
Proof.
  intro W. rewrite in_expand_sliders. split.
  - intros [x [j [p (Lx & Lj & Ep & S & M1 & M2 & E)]]]. exists p. split; [exact S|].
    apply in_on_squares. exists x. split; [exact Lx|].
    split; [apply (bget_some_iff b x p c W), Ep|].
    rewrite (piece_moves_r_slider _ c p x S). apply (in_slide_moves b c x _ m W Lx).
    apply (slider_set_rays b p x j Lx S) in M1. destruct M1 as [d [Hd Hj]].
    exists d, j. tauto.
  - intros [p [S Hin]]. apply in_on_squares in Hin. destruct Hin as [x (Lx & Bx & Hin)].
    rewrite (piece_moves_r_slider _ c p x S) in Hin. apply (in_slide_moves b c x _ m W Lx) in Hin.
    destruct Hin as [d [j (Hd & Hj & M & E)]].
    assert (Lj : j < 64).
    { apply (AttackProofs.ray_sq_mem (occupied b) (snd d) (fst d) j 8 x) in Hj.
      destruct Hj as [n (_ & OB & -> & _)]. apply (sq_on_board _ _ OB). }
    exists x, j, p. split; [exact Lx|]. split; [exact Lj|].
    split; [apply (bget_some_iff b x p c W), Bx|]. split; [exact S|].
    split; [apply (slider_set_rays b p x j Lx S); exists d; tauto|]. tauto.
Qed.

Corollary slider_moves_exact_classes b c m : WF b ->
  (In m (expand b c (sliding_targets rook_t bishop_t b c)) <->
   In m (on_squares (abstract b) c Rook (fun i => slide_moves (abstract b) c i ortho_dirs))
   \/ In m (on_squares (abstract b) c Bishop (fun i => slide_moves (abstract b) c i diag_dirs))
   \/ In m (on_squares (abstract b) c Queen (fun i => slide_moves (abstract b) c i (ortho_dirs ++ diag_dirs)))).
Proof.
  intro W. rewrite (slider_moves_exact b c m W). split.
  - intros [p [S H]]. destruct p; try discriminate; cbn [piece_moves_r] in H; tauto.
  - intros [H|[H|H]]; [exists Rook | exists Bishop | exists Queen]; (split; [reflexivity | exact H]).
Qed.

Theorem slider_moves_NoDup b c : NoDup (expand b c (sliding_targets rook_t bishop_t b c)).
Proof. apply NoDup_expand, NoDup_sliding_targets. Qed.

Theorem slider_moves_shape b c m : WF b ->
  In m (expand b c (sliding_targets rook_t bishop_t b c)) ->
  exists f t cap p, m = Std f t cap /\ bget b f = Some (p, c) /\ is_slider p = true.
Proof.
  intros W H. apply in_expand_sliders in H.
  destruct H as [x [j [p (Lx & Lj & Ep & S & _ & _ & E)]]].
  exists x, j, (pget (pieces b (opp_c c)) j), p. split; [exact E|].
  split; [apply (bget_some_iff b x p c W), Ep | exact S].
Qed.

End Sliders.

(* ------------------------------------------------------------------ *)
(** * non-vacuity: rook a1, bishop c1, queen d4 among blockers *)

Fixpoint PP4_put_all (b : board) (l : list (N * piece * color)) : board :=
  match l with
  | [] => b
  | (i, p, c) :: rest =>
      match put example_table b i p c with Ok b' => PP4_put_all b' rest | _ => b end
  end.

Definition PP4_board : board :=
  set_cr (PP4_put_all board_new
    [(4, King, White); (0, Rook, White); (2, Bishop, White); (27, Queen, White); (8, Pawn, White);
     (60, King, Black); (24, Rook, Black); (45, Knight, Black); (59, Pawn, Black)]) [0].

Example PP4_board_inv : pinvb PP4_board White = true.
Proof. vm_compute. reflexivity. Qed.

Fixpoint PP4_mem (m : cmove) (l : list cmove) : bool :=
  match l with [] => false | x :: r => cmove_eqb m x || PP4_mem m r end.
Definition PP4_same (l1 l2 : list cmove) : bool :=
  forallb (fun m => PP4_mem m l2) l1 && forallb (fun m => PP4_mem m l1) l2
  && Nat.eqb (length l1) (length l2).

Example PP4_sliders :
  let e := expand PP4_board White (sliding_targets rook_ref bishop_ref PP4_board White) in
  let P := abstract PP4_board in
  let r := on_squares P White Rook (fun i => slide_moves P White i ortho_dirs)
           ++ on_squares P White Bishop (fun i => slide_moves P White i diag_dirs)
           ++ on_squares P White Queen (fun i => slide_moves P White i (ortho_dirs ++ diag_dirs)) in
  PP4_same e r = true /\ length e = 32%nat
  /\ PP4_mem (Std 27 24 (Some Rook)) e = true /\ PP4_mem (Std 27 45 (Some Knight)) e = true
  /\ PP4_mem (Std 27 59 (Some Pawn)) e = true /\ PP4_mem (Std 0 8 None) e = false.
Proof. vm_compute. repeat split; reflexivity. Qed.

Print Assumptions slider_moves_exact.
Print Assumptions slider_moves_NoDup.
