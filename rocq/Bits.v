(* Bits.v — u64 bitboards as N.  Executable definitions only (proofs: BitsLemmas.v).
   Rust: common/src/bitboard/bitboard.rs.  A Bitboard(u64) is an N below 2^64; the
   operations that can leave that range in N (shift left, not, wrapping sub/mul) are
   written with the explicit truncation the hardware performs. *)
From Coq Require Export NArith List Bool.
Export ListNotations.
Open Scope N_scope.

Definition ALL64 : N := 0xFFFFFFFFFFFFFFFF.
Definition TWO64 : N := 0x10000000000000000.

Definition A_FILE : N := 0x0101010101010101.
Definition B_FILE : N := 0x0202020202020202.
Definition G_FILE : N := 0x4040404040404040.
Definition H_FILE : N := 0x8080808080808080.
Definition RANK_1 : N := 0xFF.
Definition RANK_2 : N := 0xFF00.
Definition RANK_4 : N := 0xFF000000.
Definition RANK_5 : N := 0xFF00000000.
Definition RANK_7 : N := 0xFF000000000000.
Definition RANK_8 : N := 0xFF00000000000000.

(* a square is a bit index 0..63 (a1 = 0, b1 = 1, ..., h8 = 63) *)
Definition bit (i : N) : N := N.shiftl 1 i.
Definition mem (i : N) (x : N) : bool := N.testbit x i.
Definition is_empty (x : N) : bool := x =? 0.
Definition overlaps (x y : N) : bool := negb (N.land x y =? 0).
Definition shl (x k : N) : N := N.land (N.shiftl x k) ALL64.   (* u64 << k, k < 64 *)
Definition shr (x k : N) : N := N.shiftr x k.                  (* u64 >> k *)
Definition andn (x y : N) : N := N.ldiff x y.                  (* x & !y *)
Definition wsub (x y : N) : N := (x + TWO64 - y) mod TWO64.     (* wrapping_sub, x,y < 2^64 *)
Definition wmul (x y : N) : N := (x * y) mod TWO64.             (* wrapping_mul *)

Definition squares : list N :=
  [0;1;2;3;4;5;6;7;8;9;10;11;12;13;14;15;16;17;18;19;20;21;22;23;24;25;26;27;28;29;30;31;
   32;33;34;35;36;37;38;39;40;41;42;43;44;45;46;47;48;49;50;51;52;53;54;55;56;57;58;59;60;61;62;63].

(* common::bitboard::square::ORDERED_SQUARES : file-major (A1, A2, ..., A8, B1, ...) *)
Definition ordered_squares : list N :=
  [0;8;16;24;32;40;48;56; 1;9;17;25;33;41;49;57; 2;10;18;26;34;42;50;58; 3;11;19;27;35;43;51;59;
   4;12;20;28;36;44;52;60; 5;13;21;29;37;45;53;61; 6;14;22;30;38;46;54;62; 7;15;23;31;39;47;55;63].

(* members in ascending order: what a pop_lsb loop visits *)
Definition bits_of (x : N) : list N := filter (fun i => mem i x) squares.
Definition popcount (x : N) : N := N.of_nat (length (bits_of x)).

Definition file_of (i : N) : N := i mod 8.
Definition rank_of (i : N) : N := i / 8.
