(* InterleaveIx.v -- generic theory (Coq stdlib + AlphaBeta.v + Interleave.v, no chess file).

   Interleave.v proves that the memoised alpha-beta (a resumption over an arbitrary shared
   cache) returns the pure value, for every start cache and every schedule, from the hypothesis
   `key_det`: "equal cache keys => equal pure values", quantified over ALL positions, depths and
   flags.  InterleaveRel.v relativises that hypothesis to an unindexed set `Sp` of positions
   closed under `moves` plus a global depth bound `Dn`.

   For the chess instance even that is too strong: "equal keys => equal values" holds for a
   position p searched to depth d only when p is at least d plies away from the 50-move /
   repetition / counter limits (which the key ignores), and -- the 64-bit key does not contain
   the side to move -- only when the `mx` flag is the side to move of p.  A set closed under
   `moves` cannot say "d plies away from the limit".

   This file re-proves the results of InterleaveRel.v with the set of positions INDEXED by the
   remaining depth and by the `mx` flag:
       Sp d mx p   : p may be searched to depth d with flag mx
       S_moves     : Sp (S d) mx p -> In c (moves p) -> Sp d (negb mx) c
       key_det_S   : Sp d mx p -> Sp d' mx' p' -> equal keys -> equal values.
   There is no depth bound any more.  The programs (abp), the cache operations, the scheduler
   and the completion schedule are the definitions of Interleave.v, unchanged; only the
   soundness predicates are indexed (rvalid / rsound / rgood: a cache entry is right for every
   node (d, mx, p) with Sp d mx p that maps to its key).

   Main results (names of InterleaveRel.v with suffix _ix instead of _rel):
     abp_rgood, run_rgood, run_abp_ix, run_abp_minimax_ix,
     pool_schedule_independent_ix, pool_task_result_ix, pool_results_agree_ix,
     pool_completion_ix, pool_schedule_extends_ix, pool_root_minimax_ix.                    *)
From Coq Require Import ZArith List Lia Bool Arith.
From ChessV Require Import AlphaBeta Interleave.
Import ListNotations.
Open Scope Z_scope.

Section ILX.
Variable pos key : Type.
Variable moves : pos -> list pos.
Variable leaf : pos -> nat -> Z.
Variables LO HI : Z.
Variable mkkey : pos -> Z -> Z -> nat -> bool -> key.
Variable key_eqb : key -> key -> bool.
Hypothesis key_eqb_true : forall a b, key_eqb a b = true -> a = b.

(* Sp d mx p : p may be searched to depth d with flag mx *)
Variable Sp : nat -> bool -> pos -> Prop.
(* abp (S d) mx recurses with abp d (negb mx) on the children *)
Hypothesis S_moves : forall d mx p c, Sp (S d) mx p -> In c (moves p) -> Sp d (negb mx) c.

Local Notation ab := (AlphaBeta.ab pos moves leaf LO HI).
Local Notation mm := (AlphaBeta.mm pos moves leaf LO HI).
Local Notation loop_max := (AlphaBeta.loop_max pos).
Local Notation loop_min := (AlphaBeta.loop_min pos).
Local Notation abp := (Interleave.abp pos key moves leaf LO HI mkkey).
Local Notation lp_max := (Interleave.lp_max pos key).
Local Notation lp_min := (Interleave.lp_min pos key).
Local Notation run := (Interleave.run key key_eqb).
Local Notation lookup := (Interleave.lookup key key_eqb).
Local Notation write := (Interleave.write key).
Local Notation step_task := (Interleave.step_task key key_eqb).
Local Notation run_sched := (Interleave.run_sched key key_eqb).
Local Notation root_pool := (Interleave.root_pool pos key moves leaf LO HI mkkey).
Local Notation finish := (Interleave.finish key key_eqb).
Local Notation complete_sched := (Interleave.complete_sched key key_eqb).

(* on the indexed set, the key determines the value (no injectivity assumed) *)
Hypothesis key_det_S : forall p a b d mx p' a' b' d' mx',
  Sp d mx p -> Sp d' mx' p' ->
  mkkey p a b d mx = mkkey p' a' b' d' mx' -> ab d mx p a b = ab d' mx' p' a' b'.

(* w is a correct entry for key k: the pure value of every node (d, mx, p) of Sp that maps to k *)
Definition rvalid (k:key) (w:Z) : Prop :=
  forall p a b d mx, Sp d mx p -> mkkey p a b d mx = k -> w = ab d mx p a b.

Definition rsound (c:cache key) : Prop := forall k v, lookup c k = Some v -> rvalid k v.

Lemma rsound_nil : rsound [].
Proof. intros k v H. discriminate H. Qed.

Lemma rsound_write c k v : rsound c -> rvalid k v -> rsound (write c k v).
Proof.
  intros Hc Hv k' v' H. unfold Interleave.write in H. cbn [Interleave.lookup] in H.
  destruct (key_eqb k' k) eqn:E.
  - apply key_eqb_true in E. subst k'. inversion H; subst v'. exact Hv.
  - apply Hc. exact H.
Qed.

Lemma rvalid_self p a b d mx : Sp d mx p -> rvalid (mkkey p a b d mx) (ab d mx p a b).
Proof.
  intros Hp p' a' b' d' mx' Hp' E. apply key_det_S; [exact Hp|exact Hp'|].
  symmetry. exact E.
Qed.

Fixpoint rgood (v:Z) (p:prog key) : Prop :=
  match p with
  | Ret w => w = v
  | Read k f => rgood v (f None) /\ (forall w, rvalid k w -> rgood v (f (Some w)))
  | Write k w p' => rvalid k w /\ rgood v p'
  end.

(* the loops: P is the index set of the children (Sp d' (negb mx) in abp_rgood) *)
Lemma lp_max_rgood (P : pos -> Prop)
  (f : pos -> Z -> Z -> (Z -> prog key) -> prog key) (g : pos -> Z -> Z -> Z) :
  (forall c a b k v, P c -> (forall r, r = g c a b -> rgood v (k r)) -> rgood v (f c a b k)) ->
  forall fin v cs value a b, Forall P cs ->
    (forall r, r = loop_max g cs value a b -> rgood v (fin r)) ->
    rgood v (lp_max f fin cs value a b).
Proof.
  intros Hf fin v. induction cs as [|c cs IH]; intros value a b HS H; cbn [Interleave.lp_max].
  - apply H. reflexivity.
  - inversion HS as [|? ? Hc HScs]; subst.
    apply Hf; [exact Hc|]. intros r ->. cbn zeta. cbn [AlphaBeta.loop_max] in H. cbn zeta in H.
    destruct (b <=? Z.max a (Z.max value (g c a b))) eqn:Ecut.
    + apply H. reflexivity.
    + apply IH; [exact HScs|exact H].
Qed.

Lemma lp_min_rgood (P : pos -> Prop)
  (f : pos -> Z -> Z -> (Z -> prog key) -> prog key) (g : pos -> Z -> Z -> Z) :
  (forall c a b k v, P c -> (forall r, r = g c a b -> rgood v (k r)) -> rgood v (f c a b k)) ->
  forall fin v cs value a b, Forall P cs ->
    (forall r, r = loop_min g cs value a b -> rgood v (fin r)) ->
    rgood v (lp_min f fin cs value a b).
Proof.
  intros Hf fin v. induction cs as [|c cs IH]; intros value a b HS H; cbn [Interleave.lp_min].
  - apply H. reflexivity.
  - inversion HS as [|? ? Hc HScs]; subst.
    apply Hf; [exact Hc|]. intros r ->. cbn zeta. cbn [AlphaBeta.loop_min] in H. cbn zeta in H.
    destruct (Z.min b (Z.min value (g c a b)) <=? a) eqn:Ecut.
    + apply H. reflexivity.
    + apply IH; [exact HScs|exact H].
Qed.

Theorem abp_rgood : forall d mx p a b k v, Sp d mx p ->
  (forall r, r = ab d mx p a b -> rgood v (k r)) -> rgood v (abp d mx p a b k).
Proof.
  induction d as [|d IH]; intros mx p a b k v Hp Hk.
  - cbn [Interleave.abp rgood]. split.
    + split; [exact (rvalid_self p a b 0%nat mx Hp)|apply Hk; reflexivity].
    + intros w Hw. apply Hk. exact (Hw p a b 0%nat mx Hp eq_refl).
  - cbn [Interleave.abp rgood]. split.
    2:{ intros w Hw. apply Hk. exact (Hw p a b (S d) mx Hp eq_refl). }
    assert (Hfin: forall r, r = ab (S d) mx p a b ->
                  rgood v (Write (mkkey p a b (S d) mx) r (k r))).
    { intros r ->. cbn [rgood]. split; [apply rvalid_self; assumption|apply Hk; reflexivity]. }
    assert (HS : Forall (Sp d (negb mx)) (moves p)).
    { apply Forall_forall. intros c Hc. exact (S_moves d mx p c Hp Hc). }
    revert Hfin HS. cbn [AlphaBeta.ab]. destruct (moves p) as [|c0 cs0] eqn:E; intros Hfin HS.
    + apply Hfin. reflexivity.
    + destruct mx; cbn [negb] in HS.
      * apply lp_max_rgood with (P := Sp d false) (g := ab d false).
        -- intros c a' b' k' v' Hc H'. apply IH; assumption.
        -- exact HS.
        -- exact Hfin.
      * apply lp_min_rgood with (P := Sp d true) (g := ab d true).
        -- intros c a' b' k' v' Hc H'. apply IH; assumption.
        -- exact HS.
        -- exact Hfin.
Qed.

Corollary abp_rgood_ret d mx p a b : Sp d mx p ->
  rgood (ab d mx p a b) (abp d mx p a b Ret).
Proof. intros Hp. apply abp_rgood; [exact Hp|]. intros r ->. reflexivity. Qed.

Theorem run_rgood : forall p c v, rsound c -> rgood v p ->
  fst (run c p) = v /\ rsound (snd (run c p)).
Proof.
  induction p as [w|k f IH|k w p' IH]; intros c v Hc Hg; cbn [Interleave.run rgood] in *.
  - split; [exact Hg|exact Hc].
  - destruct Hg as [Hn Hs]. destruct (lookup c k) as [w|] eqn:E.
    + apply IH; [exact Hc|]. apply Hs. apply (Hc k w E).
    + apply IH; assumption.
  - destruct Hg as [Hv Hg]. apply IH; [|exact Hg]. apply rsound_write; assumption.
Qed.

(* whatever (sound) cache earlier searches left behind, the memoised search of a node of the
   indexed set returns the pure alpha-beta value, and leaves a sound cache *)
Corollary run_abp_ix : forall c d mx p a b, Sp d mx p -> rsound c ->
  fst (run c (abp d mx p a b Ret)) = ab d mx p a b /\ rsound (snd (run c (abp d mx p a b Ret))).
Proof. intros. apply run_rgood; [assumption|apply abp_rgood_ret; assumption]. Qed.

(* ---------------------------------------------------------------- *)
(* pools                                                             *)

Definition rpool_inv (vs:list Z) (pl:pool key) : Prop :=
  rsound (fst pl) /\ Forall2 rgood vs (snd pl).

Lemma step_task_rinv vs i pl : rpool_inv vs pl -> rpool_inv vs (step_task i pl).
Proof.
  intros [Hc Hg]. unfold Interleave.step_task.
  destruct (nth_error (snd pl) i) as [t|] eqn:En; [|split; assumption].
  destruct t as [w|k f|k w p']; [split; assumption| |]; split; cbn [fst snd].
  - exact Hc.
  - apply Forall2_set_nth with (t := Read k f); [exact Hg|exact En|].
    intros v Hv. cbn [rgood] in Hv. destruct Hv as [Hn Hs].
    destruct (lookup (fst pl) k) as [w|] eqn:E; [apply Hs; apply (Hc k w E)|exact Hn].
  - destruct (Forall2_nth_r rgood vs (snd pl) Hg i (Write k w p') En) as [v0 Hv0].
    cbn [rgood] in Hv0. apply rsound_write; [exact Hc|apply Hv0].
  - apply Forall2_set_nth with (t := Write k w p'); [exact Hg|exact En|].
    intros v Hv. cbn [rgood] in Hv. apply Hv.
Qed.

Lemma run_sched_rinv vs : forall sch pl, rpool_inv vs pl -> rpool_inv vs (run_sched sch pl).
Proof.
  induction sch as [|i sch IH]; intros pl H; cbn [Interleave.run_sched fold_left]; [exact H|].
  apply IH. apply step_task_rinv. exact H.
Qed.

Lemma root_pool_rinv c0 d mx a b cs : Forall (Sp d mx) cs -> rsound c0 ->
  rpool_inv (map (fun c => ab d mx c a b) cs) (root_pool c0 d mx a b cs).
Proof.
  intros HS Hc. split; [exact Hc|]. cbn [Interleave.root_pool snd].
  apply (proj2 (Forall2_map_l rgood (fun c => ab d mx c a b) cs _)).
  clear Hc. induction HS as [|c cs Hc HS IH]; cbn [map]; constructor; [|exact IH].
  apply abp_rgood_ret; assumption.
Qed.

(* every interleaving of the root tasks *)
Theorem pool_schedule_independent_ix : forall c0 d mx a b cs (sch : list nat),
  Forall (Sp d mx) cs -> rsound c0 ->
  let pl := run_sched sch (root_pool c0 d mx a b cs) in
  rsound (fst pl) /\
  Forall2 (fun c t => rgood (ab d mx c a b) t /\ (forall w, t = Ret w -> w = ab d mx c a b))
          cs (snd pl).
Proof.
  intros c0 d mx a b cs sch HS Hc pl.
  destruct (run_sched_rinv _ sch _ (root_pool_rinv c0 d mx a b cs HS Hc)) as [Hs Hg].
  fold pl in Hs, Hg. split; [exact Hs|].
  apply (proj1 (Forall2_map_l rgood (fun c => ab d mx c a b) cs (snd pl))) in Hg.
  revert Hg. generalize (snd pl). generalize cs. clear.
  intros cs1 ts1 H. induction H as [|c t cs2 ts2 Hct H IH]; constructor; [|exact IH].
  split; [exact Hct|]. intros w ->. exact Hct.
Qed.

Corollary pool_task_result_ix : forall c0 d mx a b cs sch i c w,
  Forall (Sp d mx) cs -> rsound c0 -> nth_error cs i = Some c ->
  nth_error (snd (run_sched sch (root_pool c0 d mx a b cs))) i = Some (Ret w) ->
  w = ab d mx c a b.
Proof.
  intros c0 d mx a b cs sch i c w HS Hc Hi Ht.
  destruct (pool_schedule_independent_ix c0 d mx a b cs sch HS Hc) as [_ H].
  revert i Hi Ht. induction H as [|c' t cs' ts [_ Hr] H IH]; intros i Hi Ht.
  - destruct i; discriminate Hi.
  - destruct i as [|i]; cbn [nth_error] in *.
    + inversion Hi; subst c'. inversion Ht; subst t. apply Hr. reflexivity.
    + inversion HS as [|? ? _ HS']; subst. apply (IH HS' i Hi Ht).
Qed.

Corollary pool_results_agree_ix : forall c1 c2 d mx a b cs sch1 sch2 i w1 w2,
  Forall (Sp d mx) cs -> rsound c1 -> rsound c2 -> (i < length cs)%nat ->
  nth_error (snd (run_sched sch1 (root_pool c1 d mx a b cs))) i = Some (Ret w1) ->
  nth_error (snd (run_sched sch2 (root_pool c2 d mx a b cs))) i = Some (Ret w2) ->
  w1 = w2.
Proof.
  intros c1 c2 d mx a b cs sch1 sch2 i w1 w2 HS H1 H2 Hi T1 T2.
  destruct (nth_error cs i) as [c|] eqn:E.
  - rewrite (pool_task_result_ix c1 d mx a b cs sch1 i c w1 HS H1 E T1).
    rewrite (pool_task_result_ix c2 d mx a b cs sch2 i c w2 HS H2 E T2). reflexivity.
  - apply nth_error_None in E. lia.
Qed.

Lemma finish_rgood : forall vs ts, Forall2 rgood vs ts -> forall c, rsound c ->
  fst (finish c ts) = vs /\ rsound (snd (finish c ts)).
Proof.
  intros vs ts H. induction H as [|v t vs ts Hvt H IH]; intros c Hc; cbn [Interleave.finish fst snd].
  - split; [reflexivity|exact Hc].
  - destruct (run_rgood t c v Hc Hvt) as [R1 R2].
    destruct (IH _ R2) as [F1 F2]. rewrite R1, F1. split; [reflexivity|exact F2].
Qed.

Theorem pool_completion_ix : forall c0 d mx a b cs sch,
  Forall (Sp d mx) cs -> rsound c0 ->
  let pl := run_sched sch (root_pool c0 d mx a b cs) in
  fst (finish (fst pl) (snd pl)) = map (fun c => ab d mx c a b) cs /\
  rsound (snd (finish (fst pl) (snd pl))).
Proof.
  intros c0 d mx a b cs sch HS Hc pl.
  destruct (run_sched_rinv _ sch _ (root_pool_rinv c0 d mx a b cs HS Hc)) as [Hs Hg].
  apply finish_rgood; assumption.
Qed.

(* every schedule can be extended to a complete one, which holds exactly the pure values *)
Theorem pool_schedule_extends_ix : forall c0 d mx a b cs sch,
  Forall (Sp d mx) cs -> rsound c0 ->
  exists sch',
    let pl := run_sched (sch ++ sch') (root_pool c0 d mx a b cs) in
    snd pl = map (fun c => Ret (ab d mx c a b)) cs /\ rsound (fst pl).
Proof.
  intros c0 d mx a b cs sch HS Hc.
  set (pl0 := run_sched sch (root_pool c0 d mx a b cs)).
  exists (complete_sched 0 (fst pl0) (snd pl0)). cbn zeta.
  rewrite run_sched_app. fold pl0.
  pose proof (complete_sched_run key key_eqb (snd pl0) (fst pl0) []) as H. cbn [length app] in H.
  replace (fst pl0, snd pl0) with pl0 in H by (destruct pl0; reflexivity).
  rewrite H. cbn [fst snd].
  destruct (pool_completion_ix c0 d mx a b cs sch HS Hc) as [F1 F2]. fold pl0 in F1, F2.
  rewrite F1. split; [apply map_map|exact F2].
Qed.

(* ---------------------------------------------------------------- *)
(* full window: memoised search = minimax                            *)

Hypothesis leaf_range : forall p d, LO < leaf p d < HI.

Corollary run_abp_minimax_ix : forall c d mx p, Sp d mx p -> rsound c ->
  fst (run c (abp d mx p LO HI Ret)) = mm d mx p.
Proof.
  intros c d mx p Hp Hc. destruct (run_abp_ix c d mx p LO HI Hp Hc) as [-> _].
  apply ab_full_window. exact leaf_range.
Qed.

(* the root p is searched to depth S d with flag mx; its children are the tasks of the pool,
   each searched to depth d with flag negb mx *)
Corollary pool_root_minimax_ix : forall c0 d mx p cs sch,
  Sp (S d) mx p -> rsound c0 -> moves p = cs -> cs <> [] ->
  exists sch',
    let pl := run_sched (sch ++ sch') (root_pool c0 d (negb mx) LO HI cs) in
    snd pl = map (fun c => Ret (mm d (negb mx) c)) cs /\
    (if mx then fold_left Z.max (map (fun c => mm d (negb mx) c) cs) LO
           else fold_left Z.min (map (fun c => mm d (negb mx) c) cs) HI) = mm (S d) mx p.
Proof.
  intros c0 d mx p cs sch Hp Hc E Hne.
  assert (HS : Forall (Sp d (negb mx)) cs).
  { apply Forall_forall. intros c Hin. apply (S_moves d mx p c Hp). rewrite E. exact Hin. }
  destruct (pool_schedule_extends_ix c0 d (negb mx) LO HI cs sch HS Hc) as [sch' [H1 H2]].
  exists sch'. cbn zeta. split.
  - rewrite H1. apply map_ext. intro c. f_equal. apply ab_full_window. exact leaf_range.
  - rewrite <- (root_best pos moves leaf LO HI leaf_range d mx p cs E Hne).
    destruct mx; f_equal; apply map_ext; intro c; symmetry; apply ab_full_window; exact leaf_range.
Qed.

End ILX.

(* ---------------------------------------------------------------- *)
(* non-vacuity: a miniature of the chess situation.  A position is a clock value p:nat; a move
   advances the clock by 1 or 3; the game stops when the clock reaches 10 (cf. the 50-move
   limit).  The side to move is the parity of the clock.  The cache key (min p 8, a, b, d)
   - does NOT contain the flag mx (cf. the 64-bit hash without side to move), and
   - saturates the clock at 8 (cf. a key that ignores the clocks near the limit).
   So the key is determining neither on all (d, mx, p) nor on any set of positions closed
   under moves that contains 0; but it is on
       Sclk d mx p := p + 3*d <= 8 /\ mx = even p
   ("the search to depth d from p stays at or below clock 8, and mx is the side to move"),
   which genuinely depends on d and on mx and satisfies S_moves.                            *)
Module ILXExample.
  Import ILExample.   (* LO, HI *)

  Definition movesc (p:nat) : list nat := if (p <? 10)%nat then [p+1; p+3]%nat else [].
  Definition leafc (p:nat) (d:nat) : Z := Z.of_nat p.
  Definition clkkey := (nat * Z * Z * nat)%type.
  Definition mkclk (p:nat) (a b:Z) (d:nat) (mx:bool) : clkkey := (Nat.min p 8, a, b, d).
  Definition clkkey_eqb (x y:clkkey) : bool :=
    match x, y with
    | (p,a,b,d), (p',a',b',d') => Nat.eqb p p' && Z.eqb a a' && Z.eqb b b' && Nat.eqb d d'
    end.

  Definition Sclk (d:nat) (mx:bool) (p:nat) : Prop := (p + 3*d <= 8)%nat /\ mx = Nat.even p.

  Example clkkey_eqb_true : forall x y, clkkey_eqb x y = true -> x = y.
  Proof.
    intros [[[p a] b] d] [[[p' a'] b'] d'] H. unfold clkkey_eqb in H.
    repeat (apply andb_true_iff in H; destruct H as [H ?]).
    apply Nat.eqb_eq in H. apply Z.eqb_eq in H2. apply Z.eqb_eq in H1.
    apply Nat.eqb_eq in H0. subst. reflexivity.
  Qed.

  Example Sclk_moves : forall d mx p c, Sclk (S d) mx p -> In c (movesc p) -> Sclk d (negb mx) c.
  Proof.
    unfold Sclk, movesc. intros d mx p c [Hb Hm] Hc.
    destruct (p <? 10)%nat; [|destruct Hc].
    assert (E1 : Nat.even (p+1) = negb (Nat.even p)).
    { rewrite Nat.even_add. destruct (Nat.even p); reflexivity. }
    assert (E3 : Nat.even (p+3) = negb (Nat.even p)).
    { rewrite Nat.even_add. destruct (Nat.even p); reflexivity. }
    destruct Hc as [<-|[<-|[]]]; (split; [lia|]); subst mx; symmetry; assumption.
  Qed.

  Example clk_key_det_S : forall p a b d mx p' a' b' d' mx',
    Sclk d mx p -> Sclk d' mx' p' ->
    mkclk p a b d mx = mkclk p' a' b' d' mx' ->
    ab nat movesc leafc LO HI d mx p a b = ab nat movesc leafc LO HI d' mx' p' a' b'.
  Proof.
    unfold Sclk, mkclk. intros p a b d mx p' a' b' d' mx' [Hb Hm] [Hb' Hm'] E.
    inversion E as [[Ep Ea Eb Ed]]. assert (p = p') by lia. subst. reflexivity.
  Qed.

  (* the indexed set is inhabited at a non-trivial depth (root 0 to depth 2, maximiser) ... *)
  Example Sclk_root : Sclk 2 true 0%nat.
  Proof. split; [vm_compute; lia|reflexivity]. Qed.

  (* ... but the unindexed / flag-free variants of key_det fail for this key:
     (1) the flag: the same position and depth with the other flag has the same key, other value;
     (2) the clock: positions 8 and 9 collide, with different values -- and 8, 9 are reachable
         from 0, so no set closed under movesc and containing 0 can satisfy InterleaveRel's
         key_det_S; position 8 itself is fine at depth 0 (Sclk 0 true 8) but not at depth 1. *)
  Example clk_key_not_det_flag :
    mkclk 0 LO HI 1 true = mkclk 0 LO HI 1 false /\
    ab nat movesc leafc LO HI 1 true 0%nat LO HI <> ab nat movesc leafc LO HI 1 false 0%nat LO HI.
  Proof. split; [reflexivity|]. vm_compute. discriminate. Qed.

  Example clk_key_not_det_clock :
    mkclk 8 LO HI 1 true = mkclk 9 LO HI 1 true /\
    ab nat movesc leafc LO HI 1 true 8%nat LO HI <> ab nat movesc leafc LO HI 1 true 9%nat LO HI /\
    Sclk 0 true 8%nat /\ ~ Sclk 1 true 8%nat.
  Proof.
    split; [reflexivity|]. split; [vm_compute; discriminate|].
    split; [split; [vm_compute; lia|reflexivity]|]. intros [H _]. vm_compute in H. lia.
  Qed.

  Example leafc_range_on_S : forall p, (p <= 13)%nat -> LO < leafc p 0 < HI.
  Proof. intros p Hp. unfold leafc, LO, HI. lia. Qed.

  (* the general theorems instantiated: every sound start cache, every schedule *)
  Example run_abp_ix_instance :=
    run_abp_ix nat clkkey movesc leafc LO HI mkclk clkkey_eqb
      clkkey_eqb_true Sclk Sclk_moves clk_key_det_S.

  Example pool_ix_instance :=
    pool_schedule_independent_ix nat clkkey movesc leafc LO HI mkclk clkkey_eqb
      clkkey_eqb_true Sclk Sclk_moves clk_key_det_S.

  Example pool_extends_ix_instance :=
    pool_schedule_extends_ix nat clkkey movesc leafc LO HI mkclk clkkey_eqb
      clkkey_eqb_true Sclk Sclk_moves clk_key_det_S.

  (* used on the root 0, depth 2, maximiser: the memoised search from the empty cache returns
     the pure value (here by the theorem, and cross-checked by computation) *)
  Example run_abp_ix_root :
    fst (run clkkey clkkey_eqb [] (abp nat clkkey movesc leafc LO HI mkclk 2 true 0%nat LO HI Ret))
    = ab nat movesc leafc LO HI 2 true 0%nat LO HI.
  Proof.
    apply (run_abp_ix_instance [] 2%nat true 0%nat LO HI Sclk_root).
    apply rsound_nil.
  Qed.

  Example run_abp_ix_root_value :
    fst (run clkkey clkkey_eqb [] (abp nat clkkey movesc leafc LO HI mkclk 2 true 0%nat LO HI Ret)) = 4.
  Proof. vm_compute. reflexivity. Qed.

  (* the root children [1;3] searched to depth 1 by the minimiser: hypotheses of the pool
     theorems hold *)
  Example Sclk_root_children : Forall (Sclk 1 false) (movesc 0).
  Proof.
    apply Forall_forall. intros c Hc. exact (Sclk_moves 1%nat true 0%nat c Sclk_root Hc).
  Qed.
End ILXExample.

Print Assumptions abp_rgood.
Print Assumptions run_abp_ix.
Print Assumptions pool_schedule_independent_ix.
Print Assumptions pool_schedule_extends_ix.
Print Assumptions pool_root_minimax_ix.
